import Rawr.Model.Search
/-! Termination, part 1: the fuel parameter of `qsearch`, `negamax`, `rootIter`, `root` is not an observable.
Once the model answers on some fuel it gives the same answer on every larger fuel (no hypotheses at all). -/
namespace Rawr.Term
open Rawr

/-- `a` refines to `b`: when `a` answers, `b` gives the same answer. -/
def OLe {α : Type} (a b : Option α) : Prop := ∀ r, a = some r → b = some r

theorem OLe.refl {α : Type} (a : Option α) : OLe a a := fun _ h => h

theorem OLe.bot {α : Type} (b : Option α) : OLe (none : Option α) b := fun _ h => by cases h

theorem OLe.cases {α : Type} {a b : Option α} (h : OLe a b) : a = none ∨ ∃ r, a = some r ∧ b = some r := by
  cases a with
  | none => exact Or.inl rfl
  | some r => exact Or.inr ⟨r, rfl, h r rfl⟩

theorem OLe.ite {α : Type} {c : Prop} [Decidable c] {a a' b b' : Option α}
    (h1 : c → OLe a a') (h2 : ¬c → OLe b b') : OLe (if c then a else b) (if c then a' else b') := by
  by_cases hc : c
  · rw [if_pos hc, if_pos hc]; exact h1 hc
  · rw [if_neg hc, if_neg hc]; exact h2 hc

/-! ## quiescence -/

def QRecLe (rec rec' : Position → QState → Int → Int → Int → Option (Int × QState)) : Prop :=
  ∀ np st a b pl, OLe (rec np st a b pl) (rec' np st a b pl)

theorem qloop_mono {rec rec'} (h : QRecLe rec rec') (p : Position) (beta ply : Int) (ms : List Mv) :
    ∀ (st : QState) (alpha best : Int),
      OLe (qloop rec p beta ply ms st alpha best) (qloop rec' p beta ply ms st alpha best) := by
  induction ms with
  | nil => intro st alpha best; exact OLe.refl _
  | cons m ms ih =>
    intro st alpha best
    simp only [qloop]
    cases p.makemove m false with
    | none => exact OLe.bot _
    | some np =>
      simp only []
      generalize hr1 : rec np _ _ _ _ = r1
      generalize hr2 : rec' np _ _ _ _ = r2
      have hr : OLe r1 r2 := by rw [← hr1, ← hr2]; exact h _ _ _ _ _
      clear hr1 hr2
      rcases hr.cases with e | ⟨⟨sc, s1⟩, e1, e2⟩
      · subst e; exact OLe.bot _
      · subst e1 e2
        simp only []
        exact OLe.ite (fun _ => OLe.refl _) (fun _ => ih _ _ _)

theorem qsearch_mono (f : Nat) : ∀ f', f ≤ f' → QRecLe (qsearch f) (qsearch f') := by
  induction f with
  | zero => intro f' _ np st a b pl; simp only [qsearch]; exact OLe.bot _
  | succ f ih =>
    intro f' hle p st α β ply
    obtain ⟨g, rfl⟩ : ∃ g, f' = g + 1 := ⟨f' - 1, by omega⟩
    simp only [qsearch]
    refine OLe.ite (fun _ => OLe.refl _) (fun _ => ?_)
    cases sortQs p (legalCaptures p) with
    | none => exact OLe.bot _
    | some moves => exact qloop_mono (ih g (by omega)) _ _ _ _ _ _ _

/-- **fuel monotonicity of `qsearch`.** -/
theorem qsearch_fuel_mono {f f' : Nat} {p : Position} {st : QState} {α β ply : Int} {r : Int × QState}
    (h : qsearch f p st α β ply = some r) (hle : f ≤ f') : qsearch f' p st α β ply = some r :=
  qsearch_mono f f' hle _ _ _ _ _ _ h

/-! ## the main search -/

def RecLe (rec rec' : Position → SState → Int → Int → Int → Int → Bool → Option (Int × SState)) : Prop :=
  ∀ np s a b pl d c, OLe (rec np s a b pl d c) (rec' np s a b pl d c)

theorem nmLoop_mono {rec rec'} (h : RecLe rec rec') (p : Position) (beta ply depth : Int) (inCheck : Bool)
    (ms : List Mv) : ∀ (idx : Nat) (st : SState) (alpha best : Int) (bestMv : Option Mv),
      OLe (nmLoop rec p beta ply depth inCheck ms idx st alpha best bestMv)
        (nmLoop rec' p beta ply depth inCheck ms idx st alpha best bestMv) := by
  induction ms with
  | nil => intro idx st alpha best bestMv; exact OLe.refl _
  | cons m ms ih =>
    intro idx st alpha best bestMv
    simp only [nmLoop]
    cases p.makemove m true with
    | none => exact OLe.bot _
    | some np =>
      simp only []
      generalize hres1 : (ite ((idx == 0) = true) _ _ : Option (Int × SState)) = res1
      generalize hres2 : (ite ((idx == 0) = true) _ _ : Option (Int × SState)) = res2
      have hres : OLe res1 res2 := by
        subst hres1 hres2
        refine OLe.ite (fun _ => ?_) (fun _ => ?_)
        · generalize hr1 : rec _ _ _ _ _ _ _ = r1
          generalize hr2 : rec' _ _ _ _ _ _ _ = r2
          have hr : OLe r1 r2 := by rw [← hr1, ← hr2]; exact h _ _ _ _ _ _ _
          clear hr1 hr2
          rcases hr.cases with e | ⟨⟨v, s1⟩, e1, e2⟩
          · subst e; exact OLe.bot _
          · subst e1 e2; exact OLe.refl _
        · generalize hr1 : rec _ _ _ _ _ _ _ = r1
          generalize hr2 : rec' _ _ _ _ _ _ _ = r2
          have hr : OLe r1 r2 := by rw [← hr1, ← hr2]; exact h _ _ _ _ _ _ _
          clear hr1 hr2
          rcases hr.cases with e | ⟨⟨v, s1⟩, e1, e2⟩
          · subst e; exact OLe.bot _
          subst e1 e2
          simp only []
          refine OLe.ite (fun _ => ?_) (fun _ => OLe.refl _)
          generalize hr1 : rec _ _ _ _ _ _ _ = r1
          generalize hr2 : rec' _ _ _ _ _ _ _ = r2
          have hr : OLe r1 r2 := by rw [← hr1, ← hr2]; exact h _ _ _ _ _ _ _
          clear hr1 hr2
          rcases hr.cases with e | ⟨⟨v, s1⟩, e1, e2⟩
          · subst e; exact OLe.bot _
          · subst e1 e2; exact OLe.refl _
      clear hres1 hres2
      rcases hres.cases with e | ⟨⟨v, s1⟩, e1, e2⟩
      · subst e; exact OLe.bot _
      · subst e1 e2
        simp only []
        exact OLe.ite (fun _ => OLe.refl _) (fun _ => ih _ _ _ _ _)

theorem negamax_mono (lim : Limit) (f : Nat) : ∀ f', f ≤ f' → RecLe (negamax lim f) (negamax lim f') := by
  induction f with
  | zero => intro f' _ np s a b pl d c; simp only [negamax]; exact OLe.bot _
  | succ f ih =>
    intro f' hle p st α β ply depth cn
    obtain ⟨g, rfl⟩ : ∃ g, f' = g + 1 := ⟨f' - 1, by omega⟩
    have ih := ih g (by omega)
    simp only [negamax]
    generalize (ite (_ = true) (shouldStop lim _) (false, _) : Bool × SState) = pr
    obtain ⟨stop, s1⟩ := pr
    simp only []
    generalize (Table.poll _ _ : Option TTEntry) = probe
    rcases probe with _ | tte <;> simp only []
    · exact OLe.bot _
    generalize (ite (_ = true) _ _ : Option Int × Int × Int) = cut
    rcases cut with ⟨_ | v, alpha, beta⟩ <;> simp only []
    case some => exact OLe.refl _
    refine OLe.ite (fun _ => OLe.refl _) (fun _ => ?_)
    refine OLe.ite (fun _ => OLe.refl _) (fun _ => ?_)
    refine OLe.ite (fun _ => OLe.refl _) (fun _ => ?_)
    refine OLe.ite (fun _ => OLe.refl _) (fun _ => ?_)
    -- null move
    generalize hn1 : (ite (_ = true) _ _ : Option (Option Int × SState)) = nr1
    generalize hn2 : (ite (_ = true) _ _ : Option (Option Int × SState)) = nr2
    have hn : OLe nr1 nr2 := by
      subst hn1 hn2
      refine OLe.ite (fun _ => ?_) (fun _ => OLe.refl _)
      generalize hr1 : negamax lim f _ _ _ _ _ _ _ = r1
      generalize hr2 : negamax lim g _ _ _ _ _ _ _ = r2
      have hr : OLe r1 r2 := by rw [← hr1, ← hr2]; exact ih _ _ _ _ _ _ _
      clear hr1 hr2
      rcases hr.cases with e | ⟨⟨v, s2⟩, e1, e2⟩
      · subst e; exact OLe.bot _
      · subst e1 e2; exact OLe.refl _
    clear hn1 hn2
    rcases hn.cases with e | ⟨⟨ov, s2⟩, e1, e2⟩
    · subst e; exact OLe.bot _
    subst e1 e2
    rcases ov with _ | v <;> simp only []
    case some => exact OLe.refl _
    generalize sortNm _ _ _ = sorted
    rcases sorted with _ | moves <;> simp only []
    · exact OLe.bot _
    generalize hl1 : nmLoop (negamax lim f) _ _ _ _ _ _ _ _ _ _ _ = l1
    generalize hl2 : nmLoop (negamax lim g) _ _ _ _ _ _ _ _ _ _ _ = l2
    have hloop : OLe l1 l2 := by
      rw [← hl1, ← hl2]; exact nmLoop_mono ih _ _ _ _ _ _ _ _ _ _ _
    clear hl1 hl2
    rcases hloop.cases with e | ⟨⟨s3, a3, best, bestMv⟩, e1, e2⟩
    · subst e; exact OLe.bot _
    subst e1 e2
    exact OLe.refl _

/-- **fuel monotonicity of `negamax`.** -/
theorem negamax_fuel_mono {lim : Limit} {f f' : Nat} {p : Position} {st : SState} {α β ply depth : Int}
    {cn : Bool} {r : Int × SState}
    (h : negamax lim f p st α β ply depth cn = some r) (hle : f ≤ f') :
    negamax lim f' p st α β ply depth cn = some r :=
  negamax_mono lim f f' hle _ _ _ _ _ _ _ _ h

theorem rootIter_mono {lim : Limit} {f f' : Nat} (hle : f ≤ f') (p : Position) (k : Nat) :
    ∀ (depth : Int) (st : SState) (bm : Option Mv) (infos : List InfoRec),
      OLe (rootIter lim f p k depth st bm infos) (rootIter lim f' p k depth st bm infos) := by
  induction k with
  | zero => intro depth st bm infos; exact OLe.refl _
  | succ k ih =>
    intro depth st bm infos
    simp only [rootIter]
    refine OLe.ite (fun _ => OLe.refl _) (fun _ => ?_)
    generalize hr1 : negamax lim f _ _ _ _ _ _ _ = r1
    generalize hr2 : negamax lim f' _ _ _ _ _ _ _ = r2
    have hr : OLe r1 r2 := by
      rw [← hr1, ← hr2]; exact fun r h => negamax_fuel_mono h hle
    clear hr1 hr2
    rcases hr.cases with e | ⟨⟨v, s1⟩, e1, e2⟩
    · subst e; exact OLe.bot _
    subst e1 e2
    simp only []
    cases s1.best with
    | none => exact OLe.refl _
    | some b =>
      simp only []
      generalize (if depth > 1 then shouldStop lim s1 else (false, s1)) = pr
      obtain ⟨stop, s2⟩ := pr
      simp only []
      exact OLe.ite (fun _ => OLe.refl _) (fun _ => ih _ _ _ _)

/-- **fuel monotonicity of the driver.** -/
theorem root_fuel_mono {lim : Limit} {f f' : Nat} {p : Position} {hist : List BB} {tt : Table TTEntry}
    {r : RootResult} (h : root lim f p hist tt = some r) (hle : f ≤ f') : root lim f' p hist tt = some r :=
  rootIter_mono hle p _ _ _ _ _ _ h

end Rawr.Term
