import Rawr.Proofs.RustImpAgree
import Rawr.Generated.StartPos
/-!
# `makemove::<UPDATE_HASH>` regenerated from makemove.rs agrees with the model's `Position.makemove`

`R.makemove` (Rawr/Generated/RustImp.lean) is makemove.rs compiled statement by statement: one record update per
assignment, `Option` binds where the Rust unwraps (`piece`, `captured`, `self.ep`), `predict_hash` bound under
`if UPDATE_HASH`.  The model groups and orders some updates differently; the proof bridges exactly these points:

* the model binds `piece` first and computes `hash` before the relocation; makemove.rs unwraps `piece` at its first
  use, after `if UPDATE_HASH { self.hash = .. }`  (case split on `updateHash`, `pieceOn`, `predictHash`);
* relocation: Rust order `colours ^=; pieces[piece] ^=; halfmoves += 1`, model `{c0, halfmoves}` then `setPiece`
  (`reloc_eq`, by cases on the piece index);
* capture: Rust order `colours[Them] ^=; pieces[captured] ^=; halfmoves = 0`, model `{c1, halfmoves}` then
  `setPiece`  (`rest1_eq`);
* castling: makemove.rs recomputes the castling-rook square from `self.castle_files` of the CURRENT position inside
  the castling blocks, the model uses the squares computed at the top (`rest2_congr`/`setPiece_cf`: the castle files
  are not modified by any earlier statement).

`MM.CE` is makemove.rs as a composition of blocks, `MM.CM` the model as a composition of blocks;
`R.makemove = CE` and `Position.makemove = CM` are `rfl` (same statements, up to `let` and structure eta), and
`CE = CM` is proved block by block.
-/
set_option linter.unusedSimpArgs false
namespace Rawr
open Position

namespace MM

/-- castling, promotion, castling rights, full-move counter, flip (`kc`, `qc`: the castling-rook squares used by
the castling blocks; makemove.rs recomputes them from the current position, the model takes them from the top). -/
def rest3 (kc qc : Nat) (m : Mv) (bbFrom bbTo : BB) (ksqUs ksqThem kscUs qscUs kscThem qscThem : Nat)
    (s : Position) : Option Position := do
  let s :=
    if (s.p5 &&& s.p3).isOcc && m.dst > m.src then
      let s := { s with c0 := s.c0 ^^^ (bbFrom ||| bbTo), p5 := s.p5 ^^^ (bbFrom ||| bbTo) }
      let s := { s with c0 := s.c0 ^^^ bbFrom ^^^ bit 6, p5 := s.p5 ^^^ bbFrom ^^^ bit 6 }
      { s with c0 := s.c0 ^^^ bit kc ^^^ bit 5, p3 := s.p3 ^^^ bit kc ^^^ bit 5 }
    else if (s.p5 &&& s.p3).isOcc && m.dst < m.src then
      let s := { s with c0 := s.c0 ^^^ (bbFrom ||| bbTo), p5 := s.p5 ^^^ (bbFrom ||| bbTo) }
      let s := { s with c0 := s.c0 ^^^ bbFrom ^^^ bit 2, p5 := s.p5 ^^^ bbFrom ^^^ bit 2 }
      { s with c0 := s.c0 ^^^ bit qc ^^^ bit 3, p3 := s.p3 ^^^ bit qc ^^^ bit 3 }
    else s
  let s := if m.promo != 6 then
      let s := { s with p0 := s.p0 ^^^ bbTo }
      s.setPiece m.promo (s.piece m.promo ^^^ bbTo)
    else s
  let s := { s with
    usK := s.usK && (m.src != ksqUs && m.src != kscUs && m.dst != kscUs),
    usQ := s.usQ && (m.src != ksqUs && m.src != qscUs && m.dst != qscUs),
    themK := s.themK && (m.src != ksqThem && m.src != kscThem && m.dst != kscThem),
    themQ := s.themQ && (m.src != ksqThem && m.src != qscThem && m.dst != qscThem) }
  let s := if s.black then { s with fullmoves := s.fullmoves + 1 } else s
  pure s.flip

/-- pawn move, en passant, double push, then `k`. -/
def rest2 (k : Position → Option Position) (m : Mv) (piece : Pc) (captured : Option Pc) (s : Position) :
    Option Position := do
  let s := if piece == 0 then { s with halfmoves := 0 } else s
  let s ← if piece == 0 && fileOf m.src != fileOf m.dst && captured.isNone then (do
      let ep ← s.ep
      pure { s with c1 := s.c1 ^^^ south (bit ep), p0 := s.p0 ^^^ south (bit ep) }) else pure s
  let s := if piece == 0 && m.dst - m.src == 16 then { s with ep := some (m.dst - 8) } else { s with ep := none }
  k s

/-- capture in the model's order, then `k`. -/
def rest1M (k : Position → Option Position) (m : Mv) (bbTo : BB) (captured : Option Pc) (s : Position) :
    Option Position := do
  let s ← if s.c1.isSet m.dst then (do
      let c ← captured
      let s := { s with c1 := s.c1 ^^^ bbTo, halfmoves := 0 }
      pure (s.setPiece c (s.piece c ^^^ bbTo))) else pure s
  k s

/-- capture in the statement order of makemove.rs, then `k`. -/
def rest1E (k : Position → Option Position) (m : Mv) (bbTo : BB) (captured : Option Pc) (s : Position) :
    Option Position := do
  let s ← if s.c1.isSet m.dst then (do
      let s := { s with c1 := s.c1 ^^^ bbTo }
      let c ← captured
      let s := s.setPiece c (s.piece c ^^^ bbTo)
      pure { s with halfmoves := 0 }) else pure s
  k s

def relocM (s : Position) (piece : Pc) (x : BB) : Position :=
  let s : Position := { s with c0 := s.c0 ^^^ x, halfmoves := s.halfmoves + 1 }
  s.setPiece piece (s.piece piece ^^^ x)

def relocE (s : Position) (piece : Pc) (x : BB) : Position :=
  let s : Position := { s with c0 := s.c0 ^^^ x }
  let s := s.setPiece piece (s.piece piece ^^^ x)
  { s with halfmoves := s.halfmoves + 1 }

/-- the model's `makemove` as a composition of the blocks above. -/
def CM (p : Position) (m : Mv) (updateHash : Bool) : Option Position := do
  let bbFrom := bit m.src
  let bbTo := bit m.dst
  let piece ← p.pieceOn m.src
  let captured := p.pieceOn m.dst
  let ksqUs := lsb (p.c0 &&& p.p5)
  let ksqThem := lsb (p.c1 &&& p.p5)
  let kscUs := fromCoords p.cf0 0
  let qscUs := fromCoords p.cf1 0
  let kscThem := fromCoords p.cf2 7
  let qscThem := fromCoords p.cf3 7
  let hash ← if updateHash then p.predictHash m else pure p.hash
  rest1M (rest2 (rest3 kscUs qscUs m bbFrom bbTo ksqUs ksqThem kscUs qscUs kscThem qscThem) m piece captured)
    m bbTo captured (relocM { p with hash := hash } piece (bbFrom ||| bbTo))

/-- makemove.rs statement by statement, as a composition of the blocks above. -/
def CE (p : Position) (m : Mv) (updateHash : Bool) : Option Position := do
  let bbFrom := bit m.src
  let bbTo := bit m.dst
  let captured := p.pieceOn m.dst
  let ksqUs := lsb (p.c0 &&& p.p5)
  let ksqThem := lsb (p.c1 &&& p.p5)
  let kscUs := fromCoords p.cf0 0
  let qscUs := fromCoords p.cf1 0
  let kscThem := fromCoords p.cf2 7
  let qscThem := fromCoords p.cf3 7
  let s ← if updateHash then (do
      let h ← Position.predictHashK genKeys p m
      pure { p with hash := h }) else pure p
  let piece ← p.pieceOn m.src
  rest1E (rest2 (fun s => rest3 (fromCoords s.cf0 0) (fromCoords s.cf1 0) m bbFrom bbTo ksqUs ksqThem kscUs qscUs
      kscThem qscThem s) m piece captured)
    m bbTo captured (relocE s piece (bbFrom ||| bbTo))

/-- the model's `makemove` IS the composition `CM` (same `do` structure: `rfl`). -/
theorem model_eq_CM : @Position.makemove = @CM := rfl

end MM

/-- makemove.rs, compiled, IS the composition `CE` (`rfl` after naming the callees). -/
theorem agree_makemove_CE : @R.makemove = @MM.CE := by
  funext p m u
  unfold R.makemove
  rw [agree_predict_hash, agree_get_piece_on, agree_flip]
  rfl

namespace MM

theorem setPiece_cf (s : Position) (i : Nat) (b : BB) :
    (s.setPiece i b).cf0 = s.cf0 ∧ (s.setPiece i b).cf1 = s.cf1 := by
  rcases i with _|_|_|_|_|_|i <;> exact ⟨rfl, rfl⟩

theorem reloc_eq (s : Position) (pc : Pc) (x : BB) : relocE s pc x = relocM s pc x := by
  rcases pc with _|_|_|_|_|_|pc <;> rfl

theorem relocM_cf (s : Position) (pc : Pc) (x : BB) :
    (relocM s pc x).cf0 = s.cf0 ∧ (relocM s pc x).cf1 = s.cf1 := by
  unfold relocM; exact setPiece_cf _ _ _

theorem rest1_eq (k k' : Position → Option Position) (m : Mv) (bbTo : BB) (captured : Option Pc) (s : Position)
    (h : ∀ t, t.cf0 = s.cf0 → t.cf1 = s.cf1 → k t = k' t) :
    rest1E k m bbTo captured s = rest1M k' m bbTo captured s := by
  unfold rest1E rest1M
  by_cases hc : s.c1.isSet m.dst = true
  · simp only [hc, if_true]
    cases captured with
    | none => rfl
    | some c => rcases c with _|_|_|_|_|_|c <;> exact h _ rfl rfl
  · simp only [hc]
    exact h s rfl rfl

theorem rest2_congr (k k' : Position → Option Position) (m : Mv) (piece : Pc) (captured : Option Pc) (s : Position)
    (h : ∀ t, t.cf0 = s.cf0 → t.cf1 = s.cf1 → k t = k' t) :
    rest2 k m piece captured s = rest2 k' m piece captured s := by
  have key : ∀ t : Position, t.cf0 = s.cf0 → t.cf1 = s.cf1 →
      k (if (piece == 0 && m.dst - m.src == 16) = true then { t with ep := some (m.dst - 8) } else { t with ep := none })
      = k' (if (piece == 0 && m.dst - m.src == 16) = true then { t with ep := some (m.dst - 8) } else { t with ep := none }) := by
    intro t h0 h1
    apply h <;> (split <;> assumption)
  have hs1 : ∀ s1 : Position, (if (piece == 0) = true then { s with halfmoves := 0 } else s) = s1 →
      s1.cf0 = s.cf0 ∧ s1.cf1 = s.cf1 := by
    intro s1 e; subst e; split <;> exact ⟨rfl, rfl⟩
  unfold rest2
  generalize e1 : (if (piece == 0) = true then ({ s with halfmoves := 0 } : Position) else s) = s1
  obtain ⟨h0, h1⟩ := hs1 s1 e1
  by_cases hc : (piece == 0 && fileOf m.src != fileOf m.dst && captured.isNone) = true
  · simp only [hc, if_true]
    cases s1.ep with
    | none => rfl
    | some ep => exact key _ h0 h1
  · simp only [hc]
    exact key _ h0 h1

end MM

namespace MM
theorem CE_eq_CM : @CE = @CM := by
  funext p m u
  unfold CE CM Position.predictHash
  have tail : ∀ (h : BB) (pc : Pc),
      rest1E (rest2 (fun s => rest3 (fromCoords s.cf0 0) (fromCoords s.cf1 0) m (bit m.src) (bit m.dst)
          (lsb (p.c0 &&& p.p5)) (lsb (p.c1 &&& p.p5)) (fromCoords p.cf0 0) (fromCoords p.cf1 0)
          (fromCoords p.cf2 7) (fromCoords p.cf3 7) s) m pc (p.pieceOn m.dst))
        m (bit m.dst) (p.pieceOn m.dst) (relocE { p with hash := h } pc (bit m.src ||| bit m.dst))
      = rest1M (rest2 (rest3 (fromCoords p.cf0 0) (fromCoords p.cf1 0) m (bit m.src) (bit m.dst)
          (lsb (p.c0 &&& p.p5)) (lsb (p.c1 &&& p.p5)) (fromCoords p.cf0 0) (fromCoords p.cf1 0)
          (fromCoords p.cf2 7) (fromCoords p.cf3 7)) m pc (p.pieceOn m.dst))
        m (bit m.dst) (p.pieceOn m.dst) (relocM { p with hash := h } pc (bit m.src ||| bit m.dst)) := by
    intro h pc
    rw [reloc_eq]
    apply rest1_eq
    intro t h0 h1
    apply rest2_congr
    intro t' h0' h1'
    have e0 : t'.cf0 = p.cf0 := by rw [h0', h0, (relocM_cf _ _ _).1]
    have e1 : t'.cf1 = p.cf1 := by rw [h1', h1, (relocM_cf _ _ _).2]
    rw [e0, e1]
  cases u <;> cases p.pieceOn m.src with
  | none => first | rfl | (cases Position.predictHashK genKeys p m <;> rfl)
  | some pc => first | exact tail p.hash pc | (cases Position.predictHashK genKeys p m with | none => rfl | some h => exact tail h pc)
end MM

theorem agree_makemove : @R.makemove = @Position.makemove := by
  rw [agree_makemove_CE, MM.CE_eq_CM]; rfl

theorem agree_after_move : @R.after_move = @Position.makemove := by
  funext p m u; unfold R.after_move; rw [agree_makemove]
  try (cases p.makemove m u <;> rfl)

/-! non-vacuity: 1. e4 from the start position, without and with the hash update -/
example : (R.makemove Gen.startpos ⟨12, 28, 6⟩ false).isSome = true := by decide
example : R.makemove Gen.startpos ⟨20, 28, 6⟩ false = none := by decide

end Rawr

#print axioms Rawr.agree_makemove
#print axioms Rawr.agree_after_move
