import Rawr.Proofs.RustSearchAgree
import Rawr.Proofs.RustSearchAgree_QSearch
/-!
# Agreement for negamax.rs

`R.negamax` (regenerated from negamax.rs), called with the model's stop function, is the model's `negamax`, fuel for
fuel, under `OrderOkN fuel p` (`RustSearchAgree_QSearch.lean`; proved for every valid position with counter room in
`RustSearchAgree_Rules.lean`).  The null-move subtree is only required to be `OrderOkN` when the node is not in check:
the search tries the null move only then.
-/
namespace Rawr

theorem agree_is_endgame : @R.is_endgame = @isEndgame := by
  funext p
  unfold R.is_endgame isEndgame
  simp only [R.get_knights, R.get_bishops, R.get_rooks, R.get_queens, R.get_us]
  exact decide_eq_decide.mpr (by omega)

/-- the move loop: the regenerated loop returns `(st, best_score, best_move, alpha)`, the model's
`(st, alpha, best, bestMv)`; `for (idx, mv) in moves.iter().enumerate()` is the loop over `zipIdx`. -/
theorem nmloop_eq (recR recM : Position → SState → Int → Int → Int → Int → Bool → Option (Int × SState))
    (p : Position) (beta ply depth : Int) (inCheck : Bool) :
    ∀ (ms : List Mv), (∀ m ∈ ms, ∀ np, p.makemove m true = some np → recR np = recM np) →
    ∀ (idx : Nat) (st : SState) (best : Int) (bestMv : Option Mv) (alpha : Int),
      (R.negamax_loop1 recR p beta ply depth inCheck (List.zipIdx ms idx) st best bestMv alpha).map
          (fun x => (x.1, x.2.2.2, x.2.1, x.2.2.1)) =
        nmLoop recM p beta ply depth inCheck ms idx st alpha best bestMv := by
  intro ms
  induction ms with
  | nil => intro _ idx st best bestMv alpha; rfl
  | cons m ms ih =>
    intro hrec idx st best bestMv alpha
    rw [List.zipIdx_cons]
    unfold R.negamax_loop1 nmLoop
    simp only [agree_after_move, agree_is_capture]
    cases hm : p.makemove m true with
    | none => rfl
    | some np =>
      simp only [hrec m (by simp) np hm]
      have tail : ∀ (score : Int) (st2 : SState),
          Option.map (fun x : SState × Int × Option Mv × Int => (x.1, x.2.2.2, x.2.1, x.2.2.1))
            (if (if score > alpha then score else alpha) ≥ beta then
              some ({ st2 with hist := st2.hist.tail }, (if score > best then (score, some m) else (best, bestMv)).1,
                (if score > best then (score, some m) else (best, bestMv)).2, if score > alpha then score else alpha)
            else R.negamax_loop1 recR p beta ply depth inCheck (ms.zipIdx (idx + 1)) { st2 with hist := st2.hist.tail }
              (if score > best then (score, some m) else (best, bestMv)).1
              (if score > best then (score, some m) else (best, bestMv)).2 (if score > alpha then score else alpha)) =
          if (if score > alpha then score else alpha) ≥ beta then
            some ({ st2 with hist := st2.hist.tail }, (if score > alpha then score else alpha),
              (if score > best then (score, some m) else (best, bestMv)).1, (if score > best then (score, some m) else (best, bestMv)).2)
          else nmLoop recM p beta ply depth inCheck ms (idx + 1) { st2 with hist := st2.hist.tail }
            (if score > alpha then score else alpha) (if score > best then (score, some m) else (best, bestMv)).1
            (if score > best then (score, some m) else (best, bestMv)).2 := by
        intro score st2
        by_cases hge : (if score > alpha then score else alpha) ≥ beta
        · simp only [hge, if_true]; rfl
        · simp only [hge, if_false]
          exact ih (fun m' hm' => hrec m' (by simp [hm'])) _ _ _ _ _
      generalize ({ st with nodes := st.nodes + 1, hist := np.hash :: st.hist } : SState) = st1
      by_cases h0 : (idx == 0) = true
      · simp only [h0, if_true]
        cases recM np st1 (-beta) (-alpha) (ply + 1) (depth - 1) true with
        | none => rfl
        | some r => exact tail _ _
      · simp only [h0, if_false, Bool.false_eq_true]
        generalize hd1 : (depth - 1 - if (decide (idx < 4) || decide (depth < 3) || inCheck || p.isCapture m || m.promo == 4) = true then 0 else 1) = d'
        generalize hd2 : (depth - 1 - _) = d''
        have hdd : d'' = d' := by rw [← hd1, ← hd2]; rfl
        subst hdd
        cases recM np st1 (-alpha - 1) (-alpha) (ply + 1) d'' true with
        | none => rfl
        | some r =>
          rcases r with ⟨r5, st2⟩
          simp only
          by_cases hc : (decide (alpha < -r5) && decide (-r5 < beta)) = true
          · simp only [hc, if_true]
            cases recM np st2 (-beta) (-alpha) (ply + 1) (depth - 1) true with
            | none => rfl
            | some r => exact tail _ _
          · simp only [hc, if_false, Bool.false_eq_true]
            exact tail _ _

/-! the transposition-table cut-off: the `if`/`match` nest of negamax.rs as compiled (`cutR`) and as written in the
model (`cutM`), over the atoms of the two expressions -/
def cutR (hit cond : Bool) (flag : Nat) (score alpha beta : Int) (mv : Mv) : Option Int × Option Mv × Int × Int :=
  if hit = true then
    (match ((if cond = true then
        (match ((if (flag == 0) = true then (some score, alpha, beta)
                else if (flag == 1) = true then (none, max alpha score, beta)
                else if (flag == 2) = true then (none, alpha, min beta score) else (none, alpha, beta)) : Option Int × Int × Int) with
          | (some e, a, b) => (some e, a, b)
          | (none, a, b) => if a ≥ b then (some score, a, b) else (none, a, b))
      else (none, alpha, beta)) : Option Int × Int × Int) with
      | (some e, a, b) => (some e, some mv, a, b)
      | (none, a, b) => (none, some mv, a, b))
  else (none, none, alpha, beta)

def cutM (c : Bool) (flag : Nat) (score alpha beta : Int) : Option Int × Int × Int :=
  if c = true then
    if (flag == 0) = true then (some score, alpha, beta)
    else
      if (if (flag == 1) = true then max alpha score else alpha) ≥ (if (flag == 2) = true then min beta score else beta) then
        (some score, if (flag == 1) = true then max alpha score else alpha, if (flag == 2) = true then min beta score else beta)
      else (none, if (flag == 1) = true then max alpha score else alpha, if (flag == 2) = true then min beta score else beta)
  else (none, alpha, beta)

theorem cut_rel (hit A B C : Bool) (flag : Nat) (score alpha beta : Int) (mv : Mv) :
    (cutR hit (A && B && C) flag score alpha beta mv).1 = (cutM (hit && A && B && C) flag score alpha beta).1 ∧
    (cutR hit (A && B && C) flag score alpha beta mv).2.2.1 = (cutM (hit && A && B && C) flag score alpha beta).2.1 ∧
    (cutR hit (A && B && C) flag score alpha beta mv).2.2.2 = (cutM (hit && A && B && C) flag score alpha beta).2.2 ∧
    (cutR hit (A && B && C) flag score alpha beta mv).2.1 = (if hit = true then some mv else none) := by
  unfold cutR cutM
  cases hit <;> cases A <;> cases B <;> cases C <;> simp only [Bool.and_true, Bool.and_false,
    if_true, if_false, Bool.false_eq_true, and_self]
  by_cases f0 : flag = 0
  · simp [f0]
  · by_cases f1 : flag = 1
    · subst f1
      simp only [show ((1 : Nat) == 0) = false from rfl, show ((1 : Nat) == 2) = false from rfl, beq_self_eq_true,
        if_true, if_false, Bool.false_eq_true]
      generalize max alpha score = a'
      by_cases hge : a' ≥ beta <;> simp [hge]
    · by_cases f2 : flag = 2
      · subst f2
        simp only [show ((2 : Nat) == 0) = false from rfl, show ((2 : Nat) == 1) = false from rfl, beq_self_eq_true,
          if_true, if_false, Bool.false_eq_true]
        generalize min beta score = b'
        by_cases hge : alpha ≥ b' <;> simp [hge]
      · have h0 : (flag == 0) = false := by simpa using f0
        have h1 : (flag == 1) = false := by simpa using f1
        have h2 : (flag == 2) = false := by simpa using f2
        simp only [h0, h1, h2, if_false, Bool.false_eq_true]
        by_cases hge : alpha ≥ beta <;> simp [hge]

/-! the part of the proof after the null move (ordering, move loop, table store); used for both ways past it -/
set_option hygiene false in
local macro "nm_rest2" : tactic => `(tactic| (
  cases hsm : sortNm p (legalMoves p) (if (tte.hash == p.hash) = true then some tte.mv else none) with
  | none => rfl
  | some moves =>
    simp only
    have hperm := sortNm_perm p _ _ _ hsm
    rw [← nmloop_eq (R.negamax (fun s => some (shouldStop lim s)) fuel) (negamax lim fuel) p b ply d2 p.inCheck moves
      (fun m hm np hk => by
        funext s a1 b1 pl dd cn
        exact ih np (hok.2.2.1 m (hperm.mem_iff.mp hm) np hk) s a1 b1 pl dd cn) 0 _ (-10000000) none a]
    generalize R.negamax_loop1 _ _ _ _ _ _ _ _ _ _ _ = lr
    rcases lr with _ | ⟨st3, best, bm, a1⟩
    · rfl
    · cases bm with
      | none => simp only [Option.map, Option.isNone, ↓reduceIte]; cases p.inCheck <;> rfl
      | some u =>
        simp only [Option.map, Option.isNone, Bool.false_eq_true, ↓reduceIte]
        generalize st3.tt.add _ _ = r
        cases r <;> rfl))

/-- the regenerated `negamax`, called with the model's stop function, is the model's `negamax`. -/
theorem agree_negamax (lim : Limit) : ∀ (fuel : Nat) (p : Position), OrderOkN fuel p →
    ∀ (st : SState) (alpha beta ply depth : Int) (canNull : Bool),
      R.negamax (fun s => some (shouldStop lim s)) fuel p st alpha beta ply depth canNull =
        negamax lim fuel p st alpha beta ply depth canNull := by
  intro fuel
  induction fuel with
  | zero => intro p _ st a b ply d cn; rfl
  | succ fuel ih =>
    intro p hok st alpha beta ply depth canNull
    unfold R.negamax negamax
    rw [agree_in_check, agree_eval, agree_legal_moves, agree_after_null, agree_is_endgame]
    simp only [Table.agree_tt_poll, Table.agree_tt_add]
    cases hpoll : Table.poll st.tt p.hash.toNat with
    | none => rfl
    | some tte =>
      simp only
      have hcut := cut_rel (tte.hash == p.hash) (decide (tte.depth ≥ if p.inCheck = true then depth + 1 else depth))
        (!ply == 0) (!beta != alpha + 1) tte.flag tte.score alpha beta tte.mv
      split
      · rename_i early tm a b heqR
        have heqR' : cutR (tte.hash == p.hash) (decide (tte.depth ≥ if p.inCheck = true then depth + 1 else depth) &&
            (!ply == 0) && (!beta != alpha + 1)) tte.flag tte.score alpha beta tte.mv = (some early, tm, a, b) := heqR
        split
        · rename_i v a' b' heqM
          have heqM' : cutM (tte.hash == p.hash && decide (tte.depth ≥ if p.inCheck = true then depth + 1 else depth) &&
              (!ply == 0) && (!beta != alpha + 1)) tte.flag tte.score alpha beta = (some v, a', b') := heqM
          rw [heqR', heqM'] at hcut
          have := hcut.1
          simp only [Option.some.injEq] at this
          rw [this]
        · rename_i a' b' heqM
          have heqM' : cutM (tte.hash == p.hash && decide (tte.depth ≥ if p.inCheck = true then depth + 1 else depth) &&
              (!ply == 0) && (!beta != alpha + 1)) tte.flag tte.score alpha beta = (none, a', b') := heqM
          rw [heqR', heqM'] at hcut
          exact absurd hcut.1 (by simp)
      · rename_i tm a b heqR
        have heqR' : cutR (tte.hash == p.hash) (decide (tte.depth ≥ if p.inCheck = true then depth + 1 else depth) &&
            (!ply == 0) && (!beta != alpha + 1)) tte.flag tte.score alpha beta tte.mv = (none, tm, a, b) := heqR
        symm
        split
        · rename_i v a' b' heqM
          have heqM' : cutM (tte.hash == p.hash && decide (tte.depth ≥ if p.inCheck = true then depth + 1 else depth) &&
              (!ply == 0) && (!beta != alpha + 1)) tte.flag tte.score alpha beta = (some v, a', b') := heqM
          rw [heqR', heqM'] at hcut
          exact absurd hcut.1 (by simp)
        · rename_i a' b' heqM
          have heqM' : cutM (tte.hash == p.hash && decide (tte.depth ≥ if p.inCheck = true then depth + 1 else depth) &&
              (!ply == 0) && (!beta != alpha + 1)) tte.flag tte.score alpha beta = (none, a', b') := heqM
          rw [heqR', heqM'] at hcut
          obtain ⟨_, ha, hb, htm⟩ := hcut
          simp only at ha hb htm
          subst ha hb htm
          clear heqR heqR' heqM heqM'
          symm
          have hnull : p.inCheck = true ∨ ∀ (st : SState) (alpha beta ply depth : Int) (canNull : Bool),
              R.negamax (fun s => some (shouldStop lim s)) fuel p.makenull st alpha beta ply depth canNull =
                negamax lim fuel p.makenull st alpha beta ply depth canNull := by
            cases hic : p.inCheck with
            | true => exact Or.inl rfl
            | false => exact Or.inr (ih p.makenull (hok.2.2.2 hic))
          have hsort := fun tt => agree_nm_sort p (legalMoves p) tt hok.1
          simp only [repCount, Gen.DRAW_SCORE, Gen.INF, Gen.MATE_SCORE, hsort, agree_qsearch qFuel p hok.2.1, ← apply_ite some]
          generalize hd : (if p.inCheck = true then depth + 1 else depth) = d2
          by_cases hd0 : d2 ≤ 0
          · simp only [hd0, if_true]
            generalize qsearch qFuel p _ a b ply = qr
            rcases qr with _ | ⟨r, q⟩ <;> rfl
          · simp only [hd0, ↓reduceIte]
            generalize (if (!(ply == 0 && decide (st.depth ≤ 1))) = true then shouldStop lim _ else _) = X
            rcases X with ⟨stop, st1⟩
            simp only
            cases stop
            · simp only [Bool.false_eq_true, ↓reduceIte]
              generalize hdr1 : (!ply == 0 && (_ || _)) = drawc
              generalize hdr2 : (!ply == 0 && (_ || _)) = drawc2
              have hdr : drawc2 = drawc := by rw [← hdr1, ← hdr2] <;> rfl
              subst hdr
              clear hdr1 hdr2
              cases drawc2
              · simp only [Bool.false_eq_true, ↓reduceIte]
                generalize hr1 : (!beta != alpha + 1 && !p.inCheck && _ && _) = rfp
                generalize hr2 : (!beta != alpha + 1 && !p.inCheck && _ && _) = rfp2
                have hr : rfp2 = rfp := by rw [← hr1, ← hr2] <;> rfl
                subst hr
                clear hr1 hr2
                cases rfp2
                · simp only [Bool.false_eq_true, ↓reduceIte]
                  rcases hnull with hic | ihn
                  · have hc : (!ply == 0 && canNull && decide (d2 > 2) && !p.inCheck && !isEndgame p) = false := by
                      simp [hic]
                    simp only [hc, Bool.false_eq_true, ↓reduceIte]
                    nm_rest2
                  · simp only [ihn]
                    generalize (if (!ply == 0 && canNull && decide (d2 > 2) && !p.inCheck && !isEndgame p) = true then _ else some (none, st1)) = nullRes
                    rcases nullRes with _ | ⟨_ | e, st2⟩
                    · rfl
                    · simp only
                      nm_rest2
                    · rfl
                · simp only [↓reduceIte]
              · simp only [↓reduceIte]
            · simp only [↓reduceIte]

/-! non-vacuity: the regenerated search computes (depth 1 from the start position, 3-slot table) -/
example : (R.negamax (fun s => some (shouldStop (.depth 1) s)) 3 Gen.startpos ⟨[], ⟨#[default, default, default]⟩, 1, 0, 0, none, 0⟩
    (-10000000) 10000000 0 1 false).map (fun r => (r.1, r.2.nodes)) = some (64, 20) := by decide +kernel

end Rawr

#print axioms Rawr.agree_is_endgame
#print axioms Rawr.agree_negamax
