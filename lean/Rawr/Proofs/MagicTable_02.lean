import Rawr.Proofs.MagicCheck
/-! C10 table check, part 2 of 16: 7168 rows, each one evaluated by the kernel.
The partition into modules balances row counts and depends on board geometry only; the statements do
not mention any table content, so a changed table or magic makes these proofs fail. -/
namespace Rawr.MagicTable
theorem rook_7 : checkR 7 = true := by decide +kernel
theorem rook_10 : checkR 10 = true := by decide +kernel
theorem rook_30 : checkR 30 = true := by decide +kernel
theorem rook_52 : checkR 52 = true := by decide +kernel
end Rawr.MagicTable
