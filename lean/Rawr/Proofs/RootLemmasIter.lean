import Rawr.Proofs.RootLemmasRoot
/-! Helper lemmas for C03 / C14: the iteration loop `rootIter` of `root::root`. -/
namespace Rawr

/-- the end-of-iteration poll `depth > 1 && should_stop(&stats)`. -/
def endPoll (lim : Limit) (depth : Int) (s : SState) : Bool × SState :=
  if depth > 1 then shouldStop lim s else (false, s)

theorem endPoll_tt (lim : Limit) (d : Int) (s : SState) : (endPoll lim d s).2.tt = s.tt := by
  unfold endPoll; split <;> rfl
theorem endPoll_hist (lim : Limit) (d : Int) (s : SState) : (endPoll lim d s).2.hist = s.hist := by
  unfold endPoll; split <;> rfl
theorem endPoll_best (lim : Limit) (d : Int) (s : SState) : (endPoll lim d s).2.best = s.best := by
  unfold endPoll; split <;> rfl
theorem endPoll_depth (lim : Limit) (d : Int) (s : SState) : (endPoll lim d s).2.depth = s.depth := by
  unfold endPoll; split <;> rfl
theorem endPoll_nodes (lim : Limit) (d : Int) (s : SState) : (endPoll lim d s).2.nodes = s.nodes := by
  unfold endPoll; split <;> rfl
theorem endPoll_seldepth (lim : Limit) (d : Int) (s : SState) : (endPoll lim d s).2.seldepth = s.seldepth := by
  unfold endPoll; split <;> rfl
theorem endPoll_polls_le (lim : Limit) (d : Int) (s : SState) : s.polls ≤ (endPoll lim d s).2.polls := by
  unfold endPoll; split
  · exact Nat.le_succ _
  · exact Nat.le_refl _

theorem endPoll_fst_of_le (lim : Limit) (d : Int) (s : SState) (h : d ≤ 1) : (endPoll lim d s).1 = false := by
  unfold endPoll; rw [if_neg (by omega)]
theorem endPoll_fst_of_gt (lim : Limit) (d : Int) (s : SState) (h : 1 < d) :
    (endPoll lim d s).1 = (shouldStop lim s).1 := by
  unfold endPoll; rw [if_pos (by omega)]

/-- the record reported for an iteration that ended in state `s` with score `score` and best move `bm`. -/
def mkInfo (s : SState) (score : Int) (bm : Mv) : InfoRec :=
  ⟨s.depth, s.seldepth, s.nodes, score, s.tt.hashfull, [bm]⟩

/-- one round of the iteration loop, as a case distinction. -/
theorem rootIter_step {lim : Limit} {fuel : Nat} {p : Position} {k : Nat} {depth : Int} {st : SState}
    {bm : Option Mv} {infos : List InfoRec} {res : RootResult}
    (h : rootIter lim fuel p (k + 1) depth st bm infos = some res) :
    (depth ≥ Gen.MAX_DEPTH ∧ res = ⟨bm, infos.reverse, st.hist, st.tt⟩) ∨
    (depth < Gen.MAX_DEPTH ∧ ∃ score s1,
      negamax lim fuel p { st with depth := depth } (-Gen.INF) Gen.INF 0 depth false = some (score, s1) ∧
      ((s1.best = none ∧ res = ⟨none, infos.reverse, s1.hist, s1.tt⟩) ∨
       ∃ m, s1.best = some m ∧
        (((endPoll lim depth s1).1 = true ∧ res = ⟨bm, infos.reverse, s1.hist, s1.tt⟩) ∨
         ((endPoll lim depth s1).1 = false ∧
          rootIter lim fuel p k (depth + 1) (endPoll lim depth s1).2 (some m) (mkInfo s1 score m :: infos)
            = some res)))) := by
  simp only [rootIter] at h
  ite_split h
  · left
    simp only [Option.some.injEq] at h
    exact ⟨by assumption, h.symm⟩
  right
  refine ⟨by omega, ?_⟩
  split at h
  · simp at h
  rename_i score s1 hnm
  refine ⟨score, s1, hnm, ?_⟩
  split at h
  · left
    simp only [Option.some.injEq] at h
    exact ⟨by assumption, h.symm⟩
  rename_i m hm
  right
  refine ⟨m, hm, ?_⟩
  change (if (endPoll lim depth s1).1 = true then _ else _) = some res at h
  ite_split h
  · left
    simp only [Option.some.injEq] at h
    refine ⟨by assumption, ?_⟩
    rw [← h]
    show RootResult.mk bm infos.reverse (endPoll lim depth s1).2.hist (endPoll lim depth s1).2.tt = _
    rw [endPoll_hist, endPoll_tt]
  · right
    refine ⟨by simpa using (by assumption : ¬ (endPoll lim depth s1).1 = true), ?_⟩
    rw [← h]
    have : mkInfo s1 score m = ⟨(endPoll lim depth s1).2.depth, (endPoll lim depth s1).2.seldepth,
        (endPoll lim depth s1).2.nodes, score, (endPoll lim depth s1).2.tt.hashfull, [m]⟩ := by
      rw [endPoll_depth, endPoll_seldepth, endPoll_nodes, endPoll_tt]; rfl
    rw [this]; rfl

/-- the iteration number is what `negamax` hands back in `stats.depth`. -/
theorem negamax_depth_eq {lim : Limit} {fuel : Nat} {p : Position} {st : SState} {d a b pl dp : Int} {c : Bool}
    {v : Int} {s1 : SState}
    (h : negamax lim fuel p { st with depth := d } a b pl dp c = some (v, s1)) : s1.depth = d :=
  (negamax_fr lim fuel _ _ _ _ _ _ _ _ _ h).1

/-! ## C03: the move handed back -/

/-- invariant of the loop for C03: before iteration 1 nothing is known; afterwards the driver's local and
`stats.best_move` hold the same legal move. -/
def BestInv (p : Position) (k : Nat) (depth : Int) (st : SState) (bestMove : Option Mv) : Prop :=
  (depth = 1 ∧ 0 < k ∧ st.best = none ∧ bestMove = none) ∨
  (1 < depth ∧ ∃ m ∈ legalMoves p, bestMove = some m ∧ st.best = some m)

theorem rootIter_best (lim : Limit) (G : Nat → Position → Prop) (hG : SearchDom G) (K : Int)
    (hK1 : Gen.MATE_SCORE ≤ K) (hK2 : K ≤ Gen.INF) (fuel : Nat) (p : Position) (hGp : G fuel p)
    (hf : (fuel : Int) ≤ K + Gen.MATE_SCORE) :
    ∀ (k : Nat) (depth : Int) (st : SState) (bestMove : Option Mv) (infos : List InfoRec) (res : RootResult),
      TTIn K st.tt → BestInv p k depth st bestMove →
      rootIter lim fuel p k depth st bestMove infos = some res →
      (legalMoves p ≠ [] → ∃ m ∈ legalMoves p, res.best = some m) ∧ (legalMoves p = [] → res.best = none) := by
  have hMD : Gen.MAX_DEPTH = 128 := rfl
  -- what a result `best = bestMove` means under the second disjunct of the invariant
  have hexit : ∀ (m : Mv), m ∈ legalMoves p → ∀ res : RootResult, res.best = some m →
      (legalMoves p ≠ [] → ∃ m ∈ legalMoves p, res.best = some m) ∧ (legalMoves p = [] → res.best = none) := by
    intro m hm res hr
    exact ⟨fun _ => ⟨m, hm, hr⟩, fun hl => by rw [hl] at hm; simp at hm⟩
  intro k
  induction k with
  | zero =>
    intro depth st bestMove infos res _ hinv h
    simp only [rootIter, Option.some.injEq] at h
    rcases hinv with ⟨_, hk, _⟩ | ⟨_, m, hm, e, _⟩
    · omega
    · exact hexit m hm res (by rw [← h]; exact e)
  | succ k ih =>
    intro depth st bestMove infos res htt hinv h
    have hd1 : 1 ≤ depth := by rcases hinv with ⟨e, _⟩ | ⟨e, _⟩ <;> omega
    rcases rootIter_step h with ⟨hcap, hres⟩ | ⟨_, score, s1, hnm, hrest⟩
    · rcases hinv with ⟨e, _⟩ | ⟨_, m, hm, e, _⟩
      · omega
      · exact hexit m hm res (by rw [hres]; exact e)
    · obtain ⟨htt1, hroot⟩ := negamax_root lim G hG K hK1 hK2 fuel p _ depth score s1 hGp (by exact htt) hd1 hf hnm
      -- what the iteration leaves in `stats.best_move`
      have hbest : (legalMoves p = [] ∧ s1.best = none) ∨ (∃ m ∈ legalMoves p, s1.best = some m) := by
        rcases hroot with ⟨⟨hgt, _⟩, _, e⟩ | ⟨_, hnil, hcons⟩
        · rcases hinv with ⟨e1, _⟩ | ⟨_, m, hm, _, e2⟩
          · have : (1 : Int) < depth := hgt
            omega
          · right; exact ⟨m, hm, by rw [e]; exact e2⟩
        · by_cases hl : legalMoves p = []
          · rcases hinv with ⟨_, _, e1, _⟩ | ⟨_, m, hm, _⟩
            · left; exact ⟨hl, by rw [hnil hl]; exact e1⟩
            · rw [hl] at hm; simp at hm
          · right; exact (hcons hl).2
      rcases hrest with ⟨hnone, hres⟩ | ⟨m, hm, hrest⟩
      · rcases hbest with ⟨hl, _⟩ | ⟨m, _, e⟩
        · exact ⟨fun hne => absurd hl hne, fun _ => by rw [hres]⟩
        · rw [hnone] at e; simp at e
      · have hmleg : m ∈ legalMoves p := by
          rcases hbest with ⟨_, e⟩ | ⟨m', hm', e⟩
          · rw [hm] at e; simp at e
          · rw [hm] at e; simp only [Option.some.injEq] at e; rw [e]; exact hm'
        rcases hrest with ⟨hpoll, hres⟩ | ⟨_, hrec⟩
        · rcases hinv with ⟨e1, _⟩ | ⟨_, m0, hm0, e, _⟩
          · -- iteration 1 has no end-of-iteration poll
            rw [endPoll_fst_of_le lim depth s1 (by omega)] at hpoll
            simp at hpoll
          · exact hexit m0 hm0 res (by rw [hres]; exact e)
        · refine ih _ _ _ _ _ (by rw [endPoll_tt]; exact htt1) ?_ hrec
          right
          exact ⟨by omega, m, hmleg, rfl, by rw [endPoll_best]; exact hm⟩

/-! ## C14: the reported records -/

/-- consecutive integers `a, a+1, …` (`n` of them). -/
def intRange (a : Int) : Nat → List Int
  | 0 => []
  | n + 1 => a :: intRange (a + 1) n

theorem length_intRange (a : Int) (n : Nat) : (intRange a n).length = n := by
  induction n generalizing a with
  | zero => rfl
  | succ n ih => simp [intRange, ih]

theorem intRange_eq_range' (a n : Nat) : intRange (a : Int) n = (List.range' a n).map Int.ofNat := by
  induction n generalizing a with
  | zero => rfl
  | succ n ih =>
    rw [intRange, List.range'_succ, List.map_cons]
    congr 1
    exact ih (a + 1)

/-- the depths reported are consecutive, starting with the number of the first iteration run. -/
theorem rootIter_depths (lim : Limit) (fuel : Nat) (p : Position) :
    ∀ (k : Nat) (depth : Int) (st : SState) (bestMove : Option Mv) (infos : List InfoRec) (res : RootResult),
      rootIter lim fuel p k depth st bestMove infos = some res →
      ∃ n, res.infos.map (·.depth) = (infos.reverse.map (·.depth)) ++ intRange depth n := by
  intro k
  induction k with
  | zero =>
    intro depth st bestMove infos res h
    simp only [rootIter, Option.some.injEq] at h
    exact ⟨0, by rw [← h]; simp [intRange]⟩
  | succ k ih =>
    intro depth st bestMove infos res h
    rcases rootIter_step h with ⟨_, hres⟩ | ⟨_, score, s1, hnm, hrest⟩
    · exact ⟨0, by rw [hres]; simp [intRange]⟩
    · rcases hrest with ⟨_, hres⟩ | ⟨m, _, ⟨_, hres⟩ | ⟨_, hrec⟩⟩
      · exact ⟨0, by rw [hres]; simp [intRange]⟩
      · exact ⟨0, by rw [hres]; simp [intRange]⟩
      · obtain ⟨n, hn⟩ := ih _ _ _ _ _ hrec
        refine ⟨n + 1, ?_⟩
        rw [hn]
        have hd : (mkInfo s1 score m).depth = depth := negamax_depth_eq hnm
        simp only [List.reverse_cons, List.map_append, List.map_cons, List.map_nil, hd, intRange,
          List.append_assoc, List.cons_append, List.nil_append]

/-- every record is one handed in, or one appended by the loop; the appended ones satisfy any predicate `Q`
that holds for the record of every iteration whose end-of-iteration poll answered `false`. -/
theorem rootIter_records (lim : Limit) (fuel : Nat) (p : Position) (Q : InfoRec → Prop)
    (hQ : ∀ (s : SState) (score : Int) (m : Mv), (1 < s.depth → (shouldStop lim s).1 = false) → Q (mkInfo s score m)) :
    ∀ (k : Nat) (depth : Int) (st : SState) (bestMove : Option Mv) (infos : List InfoRec) (res : RootResult),
      rootIter lim fuel p k depth st bestMove infos = some res →
      ∀ r ∈ res.infos, r ∈ infos ∨ Q r := by
  intro k
  induction k with
  | zero =>
    intro depth st bestMove infos res h
    simp only [rootIter, Option.some.injEq] at h
    intro r hr
    rw [← h] at hr
    exact Or.inl (by simpa using hr)
  | succ k ih =>
    intro depth st bestMove infos res h
    rcases rootIter_step h with ⟨_, hres⟩ | ⟨_, score, s1, hnm, hrest⟩
    · intro r hr; rw [hres] at hr; exact Or.inl (by simpa using hr)
    · rcases hrest with ⟨_, hres⟩ | ⟨m, _, ⟨_, hres⟩ | ⟨hpoll, hrec⟩⟩
      · intro r hr; rw [hres] at hr; exact Or.inl (by simpa using hr)
      · intro r hr; rw [hres] at hr; exact Or.inl (by simpa using hr)
      · intro r hr
        rcases ih _ _ _ _ _ hrec r hr with h1 | h1
        · rcases List.mem_cons.1 h1 with e | h2
          · right
            rw [e]
            apply hQ
            intro hgt
            have hd : s1.depth = depth := negamax_depth_eq hnm
            rw [endPoll_fst_of_gt lim depth s1 (by omega)] at hpoll
            exact hpoll
          · exact Or.inl h2
        · exact Or.inr h1

/-! ### the move played is the head of the last reported principal variation -/

theorem rootIter_pv (lim : Limit) (fuel : Nat) (p : Position) :
    ∀ (k : Nat) (depth : Int) (st : SState) (bestMove : Option Mv) (infos : List InfoRec) (res : RootResult),
      bestMove = (infos.head?).bind (·.pv.head?) → (infos ≠ [] → st.best.isSome = true) →
      rootIter lim fuel p k depth st bestMove infos = some res →
      res.best = (res.infos.getLast?).bind (·.pv.head?) := by
  intro k
  induction k with
  | zero =>
    intro depth st bestMove infos res hb _ h
    simp only [rootIter, Option.some.injEq] at h
    rw [← h]; simp only [List.getLast?_reverse]; exact hb
  | succ k ih =>
    intro depth st bestMove infos res hb hsome h
    rcases rootIter_step h with ⟨_, hres⟩ | ⟨_, score, s1, hnm, hrest⟩
    · rw [hres]; simp only [List.getLast?_reverse]; exact hb
    · have hfr := (negamax_fr lim fuel _ _ _ _ _ _ _ _ _ hnm).2.2
      rcases hrest with ⟨hnone, hres⟩ | ⟨m, hm, ⟨_, hres⟩ | ⟨_, hrec⟩⟩
      · rw [hres]; simp only [List.getLast?_reverse]
        cases infos with
        | nil => rfl
        | cons r rs =>
          have := hfr (hsome (by simp))
          rw [hnone] at this; simp at this
      · rw [hres]; simp only [List.getLast?_reverse]; exact hb
      · refine ih _ _ _ _ _ ?_ ?_ hrec
        · rfl
        · intro _; rw [endPoll_best, hm]; rfl

/-! ### depth limits -/

theorem shouldStop_depth (D : Int) (s : SState) : (shouldStop (.depth D) s).1 = decide (s.depth > D) := rfl
theorem shouldStop_nodes (N : Nat) (s : SState) : (shouldStop (.nodes N) s).1 = decide (s.nodes ≥ N) := rfl
theorem shouldStop_clock (o : Nat → Bool) (s : SState) : (shouldStop (.clock o) s).1 = o s.polls := rfl

/-- number of iterations a depth limit `D` lets through: `D`, at least 1, at most `MAX_DEPTH - 1`. -/
def depthTarget (D : Int) : Int := max 1 (min D (Gen.MAX_DEPTH - 1))

theorem rootIter_depth_count (D : Int) (G : Nat → Position → Prop) (hG : SearchDom G) (K : Int)
    (hK1 : Gen.MATE_SCORE ≤ K) (hK2 : K ≤ Gen.INF) (fuel : Nat) (p : Position) (hGp : G fuel p)
    (hf : (fuel : Int) ≤ K + Gen.MATE_SCORE) (hlegal : legalMoves p ≠ []) :
    ∀ (k : Nat) (depth : Int) (st : SState) (bestMove : Option Mv) (infos : List InfoRec) (res : RootResult),
      TTIn K st.tt → 1 ≤ depth → depth ≤ depthTarget D + 1 → (k : Int) + depth ≥ Gen.MAX_DEPTH + 1 →
      rootIter (.depth D) fuel p k depth st bestMove infos = some res →
      res.infos.length = infos.length + (depthTarget D + 1 - depth).toNat := by
  have hMD : Gen.MAX_DEPTH = 128 := rfl
  intro k
  induction k with
  | zero =>
    intro depth st bestMove infos res _ h1 h2 h3 h
    simp only [rootIter, Option.some.injEq] at h
    rw [← h]
    unfold depthTarget at *
    simp only [List.length_reverse]
    omega
  | succ k ih =>
    intro depth st bestMove infos res htt h1 h2 h3 h
    have hT : depthTarget D = max 1 (min D 127) := by unfold depthTarget; rw [hMD]; rfl
    rcases rootIter_step h with ⟨hcap, hres⟩ | ⟨hlt, score, s1, hnm, hrest⟩
    · rw [hres]; simp only [List.length_reverse]; omega
    · have hs1d : s1.depth = depth := negamax_depth_eq hnm
      by_cases hlast : depth = depthTarget D + 1
      · -- the iteration after the last one allowed: not reported
        have hgtD : depth > D ∧ 1 < depth := by omega
        rcases hrest with ⟨_, hres⟩ | ⟨m, _, ⟨_, hres⟩ | ⟨hpoll, _⟩⟩
        · rw [hres]; simp only [List.length_reverse]; omega
        · rw [hres]; simp only [List.length_reverse]; omega
        · rw [endPoll_fst_of_gt _ _ _ hgtD.2, shouldStop_depth, hs1d] at hpoll
          simp only [decide_eq_false_iff_not] at hpoll
          omega
      · -- an allowed iteration: completes and is reported
        have hle : depth ≤ depthTarget D := by omega
        have hnoStop : 1 < depth → ¬ depth > D := by omega
        obtain ⟨htt1, hroot⟩ := negamax_root (.depth D) G hG K hK1 hK2 fuel p _ depth score s1 hGp
          (by exact htt) h1 hf hnm
        have hbest : ∃ m ∈ legalMoves p, s1.best = some m := by
          rcases hroot with ⟨⟨hgt, hs⟩, _⟩ | ⟨_, _, hcons⟩
          · have hgt' : 1 < depth := hgt
            rw [shouldStop_depth] at hs
            simp only [decide_eq_true_eq] at hs
            have hs' : depth > D := hs
            exact absurd hs' (hnoStop hgt')
          · exact (hcons hlegal).2
        obtain ⟨m0, _, hm0⟩ := hbest
        rcases hrest with ⟨hnone, _⟩ | ⟨m, _, ⟨hpoll, _⟩ | ⟨_, hrec⟩⟩
        · rw [hnone] at hm0; simp at hm0
        · by_cases hgt : 1 < depth
          · rw [endPoll_fst_of_gt _ _ _ hgt, shouldStop_depth, hs1d] at hpoll
            simp only [decide_eq_true_eq] at hpoll
            exact absurd hpoll (hnoStop hgt)
          · rw [endPoll_fst_of_le _ depth _ (by omega)] at hpoll; simp at hpoll
        · have := ih _ _ _ _ _ (by rw [endPoll_tt]; exact htt1) (by omega) (by omega) (by omega) hrec
          rw [this]
          simp only [List.length_cons]
          omega

/-! ### scores -/

theorem rootIter_scores (lim : Limit) (G : Nat → Position → Prop) (hG : SearchDom G) (K : Int)
    (hK1 : Gen.MATE_SCORE ≤ K) (hK2 : K ≤ Gen.INF) (fuel : Nat) (p : Position) (hGp : G fuel p)
    (hf : (fuel : Int) ≤ K + Gen.MATE_SCORE) :
    ∀ (k : Nat) (depth : Int) (st : SState) (bestMove : Option Mv) (infos : List InfoRec) (res : RootResult),
      TTIn K st.tt → 1 ≤ depth → (legalMoves p = [] → st.best = none) →
      rootIter lim fuel p k depth st bestMove infos = some res →
      ∀ r ∈ res.infos, r ∈ infos ∨ InR K r.score := by
  intro k
  induction k with
  | zero =>
    intro depth st bestMove infos res _ _ _ h
    simp only [rootIter, Option.some.injEq] at h
    intro r hr
    rw [← h] at hr
    exact Or.inl (by simpa using hr)
  | succ k ih =>
    intro depth st bestMove infos res htt hd1 hnil h
    rcases rootIter_step h with ⟨_, hres⟩ | ⟨_, score, s1, hnm, hrest⟩
    · intro r hr; rw [hres] at hr; exact Or.inl (by simpa using hr)
    · rcases hrest with ⟨_, hres⟩ | ⟨m, hm, ⟨_, hres⟩ | ⟨hpoll, hrec⟩⟩
      · intro r hr; rw [hres] at hr; exact Or.inl (by simpa using hr)
      · intro r hr; rw [hres] at hr; exact Or.inl (by simpa using hr)
      · obtain ⟨htt1, hroot⟩ := negamax_root lim G hG K hK1 hK2 fuel p _ depth score s1 hGp
          (by exact htt) hd1 hf hnm
        have hM : Gen.MATE_SCORE = 1000000 := rfl
        have hscore : InR K score ∧ (legalMoves p = [] → s1.best = none) := by
          rcases hroot with ⟨_, e, e2⟩ | ⟨_, hnil', hcons⟩
          · refine ⟨by rw [e]; unfold InR; omega, fun hl => ?_⟩
            rw [e2]; exact hnil hl
          · by_cases hl : legalMoves p = []
            · have := hnil' hl
              rw [hm] at this
              have h2 : st.best = none := hnil hl
              have h3 : some m = st.best := this
              rw [h2] at h3; simp at h3
            · exact ⟨(hcons hl).1, fun hl' => absurd hl' hl⟩
        intro r hr
        rcases ih _ _ _ _ _ (by rw [endPoll_tt]; exact htt1) (by omega)
          (by rw [endPoll_best]; exact hscore.2) hrec r hr with h1 | h1
        · rcases List.mem_cons.1 h1 with e | h2
          · right; rw [e]; exact hscore.1
          · exact Or.inl h2
        · exact Or.inr h1

/-! ### the table handed back -/

theorem rootIter_tt (lim : Limit) (G : Nat → Position → Prop) (hG : SearchDom G) (K : Int)
    (hK1 : Gen.MATE_SCORE ≤ K) (hK2 : K ≤ Gen.INF) (fuel : Nat) (p : Position) (hGp : G fuel p)
    (hf : (fuel : Int) ≤ K + Gen.MATE_SCORE) :
    ∀ (k : Nat) (depth : Int) (st : SState) (bestMove : Option Mv) (infos : List InfoRec) (res : RootResult),
      TTIn K st.tt → 1 ≤ depth → rootIter lim fuel p k depth st bestMove infos = some res →
      TTIn K res.tt := by
  intro k
  induction k with
  | zero =>
    intro depth st bestMove infos res htt _ h
    simp only [rootIter, Option.some.injEq] at h
    rw [← h]; exact htt
  | succ k ih =>
    intro depth st bestMove infos res htt hd h
    rcases rootIter_step h with ⟨_, hres⟩ | ⟨_, score, s1, hnm, hrest⟩
    · rw [hres]; exact htt
    · have htt1 := (negamax_root lim G hG K hK1 hK2 fuel p _ depth score s1 hGp
        (by exact htt) hd hf hnm).1
      rcases hrest with ⟨_, hres⟩ | ⟨m, _, ⟨_, hres⟩ | ⟨_, hrec⟩⟩
      · rw [hres]; exact htt1
      · rw [hres]; exact htt1
      · exact ih _ _ _ _ _ (by rw [endPoll_tt]; exact htt1) (by omega) hrec

end Rawr
