import Rawr.Proofs.GenCastle4
/-!
# C01, castling: `castleOk` ⇔ `Spec.castleLegal`
-/
namespace Rawr.Att
open Spec

theorem themRQ_iff {p : Position} (hC : Consistent p = true) (s : Nat) (hs : s < 64) :
    (themRQ p).getLsbD s = true ↔
      (relBoard p s = some ⟨false, .rook⟩ ∨ relBoard p s = some ⟨false, .queen⟩) := by
  unfold themRQ
  rw [BitVec.and_or_distrib_left, BitVec.getLsbD_or, (rep_them hC).rook s hs, (rep_them hC).queen s hs,
    Bool.or_eq_true, decide_eq_true_iff, decide_eq_true_iff]

/-- under the other castling conditions, the pin test on the castling rook is the attack test on the
king's target on the castled board. -/
theorem hpinned_iff_castled {p : Position} (hV : ValidPos p = true) (ks : Bool)
    (hr : rightUs p ks = true)
    (c2 : ∀ s ∈ span (lsb (p.p5 &&& p.c0)) (kTo ks) ++ span (rookFile p ks) (rTo ks),
      s = lsb (p.p5 &&& p.c0) ∨ s = rookFile p ks ∨ relBoard p s = none)
    (c3 : attackedBy (relBoard p) false (kTo ks) = false) :
    (prelude p).hpinned.isSet (rookFile p ks) = true ↔
      attackedBy (castledB (relBoard p) (lsb (p.p5 &&& p.c0)) (rookFile p ks) ks) false (kTo ks)
        = true := by
  have F := kingFacts hV
  have CF := castleFacts hV ks hr
  have hC := valid_consistent hV
  generalize hk : lsb (p.p5 &&& p.c0) = k at *
  generalize hrf : rookFile p ks = r at *
  have hk8 := CF.k8
  have hr8 := CF.r8
  have hkT8 := kTo_lt ks
  have hrT8 := rTo_lt ks
  have hside := CF.side
  have hkr : k ≠ r := by cases ks <;> simp at hside <;> omega
  -- the span condition, pointwise
  have c2' : ∀ x, ((min k (kTo ks) ≤ x ∧ x ≤ max k (kTo ks)) ∨ (min r (rTo ks) ≤ x ∧ x ≤ max r (rTo ks))) →
      x ≠ k → x ≠ r → relBoard p x = none := by
    intro x hx h1 h2
    have : x ∈ span k (kTo ks) ++ span r (rTo ks) := by
      rw [List.mem_append, mem_span, mem_span]; exact hx
    rcases c2 x this with h | h | h
    · exact absurd h h1
    · exact absurd h h2
    · exact h
  have hus : p.c0.getLsbD r = true := by
    have := relBoard_white hC r (by omega)
    rw [CF.rook] at this
    cases h0 : p.c0.getLsbD r
    · rw [h0] at this
      cases h1 : p.c1.getLsbD r <;> rw [h1] at this <;> simp at this
    · rfl
  have hclear : RowClear (relBoard p) (min k r) (max k r) := by
    intro x h1 h2
    apply c2' x _ (by omega) (by omega)
    cases ks
    · simp only [Bool.false_eq_true, if_false] at hside
      simp only [kTo, rTo, Bool.false_eq_true, if_false]
      omega
    · simp only [if_true] at hside
      simp only [kTo, rTo, if_true]
      omega
  have hkT : kTo ks = k ∨ kTo ks = r ∨ relBoard p (kTo ks) = none := by
    by_cases e1 : kTo ks = k
    · exact Or.inl e1
    · by_cases e2 : kTo ks = r
      · exact Or.inr (Or.inl e2)
      · exact Or.inr (Or.inr (c2' _ (Or.inl (by omega)) e1 e2))
  have hrT : rTo ks = k ∨ rTo ks = r ∨ relBoard p (rTo ks) = none := by
    by_cases e1 : rTo ks = k
    · exact Or.inl e1
    · by_cases e2 : rTo ks = r
      · exact Or.inr (Or.inl e2)
      · exact Or.inr (Or.inr (c2' _ (Or.inr (by omega)) e1 e2))
  rw [hpinned_iff hC hk.symm hk8 hr8 hkr hus hclear,
    castled_attack (relBoard p) k r ks hk8 hr8 .king .rook F.rel CF.rook hkT hrT c3]
  -- the abstract predicates
  have hRQ : ∀ s, (relBoard p s = some ⟨false, .rook⟩ ∨ relBoard p s = some ⟨false, .queen⟩) → ¬ relBoard p s = none := by
    rintro s (h | h) h' <;> rw [h] at h' <;> cases h'
  have hRQk : ¬ (relBoard p k = some ⟨false, .rook⟩ ∨ relBoard p k = some ⟨false, .queen⟩) := by
    rintro (h | h) <;> rw [F.rel] at h <;> cases h
  have hRQr : ¬ (relBoard p r = some ⟨false, .rook⟩ ∨ relBoard p r = some ⟨false, .queen⟩) := by
    rintro (h | h) <;> rw [CF.rook] at h <;> cases h
  have c3' : ∀ s, s < 8 → (relBoard p s = some ⟨false, .rook⟩ ∨ relBoard p s = some ⟨false, .queen⟩) → s ≠ kTo ks →
      ¬ (∀ x, min s (kTo ks) < x → x < max s (kTo ks) → relBoard p x = none) := by
    intro s hs hq hne hcl
    have ho := (orthAtt_row (relBoard p) hs hkT8 hne).mpr hcl
    have : attackedBy (relBoard p) false (kTo ks) = true := by
      rw [attackedBy_iff]
      rcases hq with hq | hq
      · exact ⟨s, by omega, _, hq, rfl, by rw [pieceAttacks_split]; exact ho⟩
      · exact ⟨s, by omega, _, hq, rfl, by rw [pieceAttacks_split]; simp only [ho, Bool.or_true]⟩
    rw [c3] at this; cases this
  have hL : (∃ s, s < 8 ∧ (themRQ p).getLsbD s = true ∧
        (if k < r then r < s ∧ RowClear (relBoard p) r s else s < r ∧ RowClear (relBoard p) s r)) ↔
      (∃ s, s < 8 ∧ (relBoard p s = some ⟨false, .rook⟩ ∨ relBoard p s = some ⟨false, .queen⟩) ∧
        (if k < r then r < s ∧ ∀ x, r < x → x < s → relBoard p x = none else s < r ∧ ∀ x, s < x → x < r → relBoard p x = none)) := by
    constructor
    · rintro ⟨s, h1, h2, h3⟩; exact ⟨s, h1, (themRQ_iff hC s (by omega)).mp h2, h3⟩
    · rintro ⟨s, h1, h2, h3⟩; exact ⟨s, h1, (themRQ_iff hC s (by omega)).mpr h2, h3⟩
  have hR : (∃ s, s < 8 ∧ (relBoard p s = some ⟨false, .rook⟩ ∨ relBoard p s = some ⟨false, .queen⟩) ∧ s ≠ kTo ks ∧
        RowClear (castledB (relBoard p) k r ks) (min s (kTo ks)) (max s (kTo ks))) ↔
      (∃ s, s < 8 ∧ (relBoard p s = some ⟨false, .rook⟩ ∨ relBoard p s = some ⟨false, .queen⟩) ∧ s ≠ kTo ks ∧ ∀ x, min s (kTo ks) < x → x < max s (kTo ks) →
        (x ≠ rTo ks ∧ x ≠ kTo ks ∧ (x = r ∨ x = k ∨ relBoard p x = none))) := by
    constructor
    · rintro ⟨s, h1, h2, h3, h4⟩
      exact ⟨s, h1, h2, h3, fun x hx1 hx2 => (castledB_none _ k r ks x).mp (h4 x hx1 hx2)⟩
    · rintro ⟨s, h1, h2, h3, h4⟩
      exact ⟨s, h1, h2, h3, fun x hx1 hx2 => (castledB_none _ k r ks x).mpr (h4 x hx1 hx2)⟩
  rw [hL, hR]
  cases ks
  · simp only [Bool.false_eq_true, if_false] at hside
    have hnlt : ¬ k < r := by omega
    simp only [hnlt, if_false]
    simp only [kTo, rTo, Bool.false_eq_true, if_false] at c2' c3' ⊢
    exact castle_core_Q (fun x => relBoard p x = none)
      (fun s => relBoard p s = some ⟨false, .rook⟩ ∨ relBoard p s = some ⟨false, .queen⟩) k r hk8 hside hRQ hRQk hRQr c2' c3'
  · simp only [if_true] at hside
    simp only [hside, if_true]
    simp only [kTo, rTo, if_true] at c2' c3' ⊢
    exact castle_core_K (fun x => relBoard p x = none)
      (fun s => relBoard p s = some ⟨false, .rook⟩ ∨ relBoard p s = some ⟨false, .queen⟩) k r hr8 hside hRQ hRQk hRQr c2' c3'



theorem fromCoords_zero (f : Nat) : fromCoords f 0 = f := by unfold fromCoords; omega

theorem any_eq_false_iff {α : Type} (l : List α) (f : α → Bool) :
    l.any f = false ↔ ∀ x ∈ l, f x = false := by
  rw [List.any_eq_false]; simp

/-- the castling test of the generator, in the mover's frame. -/
theorem castleOk_rel {p : Position} (hV : ValidPos p = true) (ks : Bool) (hr : rightUs p ks = true) :
    castleOk p (prelude p) (rightUs p ks) (fromCoords (rookFile p ks) 0) (kTo ks) (rTo ks) = true ↔
      CastleRel p ks (lsb (p.p5 &&& p.c0)) (rookFile p ks) := by
  have CF := castleFacts hV ks hr
  have hC := valid_consistent hV
  have ho := occRep_rel hC
  unfold castleOk
  dsimp only
  rw [prelude_ksq, fromCoords_zero, hr, prelude_inCheck hV, isBbAttacked_rel hC _ true]
  simp only [Bool.true_and, Bool.and_eq_true, Bool.not_eq_true', Bool.not_true]
  rw [path_empty_iff ho CF.k8 CF.r8 (kTo_lt ks) (rTo_lt ks), any_eq_false_iff]
  have hspan : ∀ s, s ∈ span (lsb (p.p5 &&& p.c0)) (kTo ks) ↔
      (s ∈ toList (lineBetween (lsb (p.p5 &&& p.c0)) (kTo ks)) ∨ s = lsb (p.p5 &&& p.c0)) := by
    intro s
    constructor
    · intro hs
      have h64 : s < 64 := by
        have := (mem_span _ _ _).mp hs; have := CF.k8; have := kTo_lt ks; omega
      rcases (mem_lineBetween CF.k8 (kTo_lt ks) s h64).mpr hs with h | h
      · exact Or.inl ((mem_toList _ _).mpr ⟨h64, h⟩)
      · exact Or.inr h
    · rintro (h | h)
      · obtain ⟨h64, hb⟩ := (mem_toList _ _).mp h
        exact (mem_lineBetween CF.k8 (kTo_lt ks) s h64).mp (Or.inl hb)
      · have := CF.k8
        exact (mem_lineBetween CF.k8 (kTo_lt ks) s (by omega)).mp (Or.inr h)
  constructor
  · rintro ⟨⟨⟨a1, a2⟩, a3⟩, a4⟩
    have c3 : ∀ s ∈ span (lsb (p.p5 &&& p.c0)) (kTo ks), attackedBy (relBoard p) false s = false := by
      intro s hs
      rcases (hspan s).mp hs with h | h
      · exact a4 s h
      · rw [h]; exact a1
    have c3k : attackedBy (relBoard p) false (kTo ks) = false :=
      c3 _ ((mem_span _ _ _).mpr (by omega))
    refine ⟨a1, a3, c3, ?_⟩
    cases hc : attackedBy (castledB (relBoard p) (lsb (p.p5 &&& p.c0)) (rookFile p ks) ks) false (kTo ks)
    · rfl
    · have := (hpinned_iff_castled hV ks hr a3 c3k).mpr hc
      rw [a2] at this; cases this
  · rintro ⟨c1, c2, c3, c4⟩
    have c3k : attackedBy (relBoard p) false (kTo ks) = false :=
      c3 _ ((mem_span _ _ _).mpr (by omega))
    refine ⟨⟨⟨c1, ?_⟩, c2⟩, ?_⟩
    · cases hp : (prelude p).hpinned.isSet (rookFile p ks)
      · rfl
      · have := (hpinned_iff_castled hV ks hr c2 c3k).mp hp
        rw [c4] at this; cases this
    · intro s hs
      exact c3 s ((hspan s).mpr (Or.inl hs))

/-- C01, castling class, core: the generator's castling test is `Spec.castleLegal`. -/
theorem castleOk_eq_castleLegal {p : Position} (hV : ValidPos p = true) (ks : Bool) :
    castleOk p (prelude p) (rightUs p ks) (fromCoords (rookFile p ks) 0) (kTo ks) (rTo ks)
      = castleLegal (abs p) ks := by
  cases hr : rightUs p ks
  · rw [castleLegal_no_right ks hr]
    unfold castleOk
    simp
  · have h1 := castleOk_rel hV ks hr
    rw [hr] at h1
    rw [Bool.eq_iff_iff, h1, castleLegal_rel hV ks hr]

end Rawr.Att
