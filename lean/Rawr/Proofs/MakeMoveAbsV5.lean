import Rawr.Proofs.MakeMoveAbsV4
/-! C02 (4), specification level: legal castling preserves `Spec.Valid`; every legal move does. -/
namespace Rawr.SV
open Rawr.Spec

theorem mem_span_right (x y : Nat) : y ∈ span x y := by
  unfold span
  rw [List.mem_map]
  refine ⟨y - min x y, ?_, ?_⟩
  · rw [List.mem_range]; omega
  · omega

section castle
variable {a : APos} {ks : Bool} {rf k : Nat}

/-- what `castleLegal` provides. -/
structure CastleFacts (a : APos) (ks : Bool) (rf k : Nat) : Prop where
  hr : right a a.whiteToMove ks = some rf
  hk : kingSquares a.board a.whiteToMove = [k]
  rook : a.board (sq rf (homeRank a.whiteToMove)) = some ⟨a.whiteToMove, .rook⟩
  kTo : sq (if ks = true then 6 else 2) (homeRank a.whiteToMove) = k ∨
        sq (if ks = true then 6 else 2) (homeRank a.whiteToMove) = sq rf (homeRank a.whiteToMove) ∨
        a.board (sq (if ks = true then 6 else 2) (homeRank a.whiteToMove)) = none
  rTo : sq (if ks = true then 5 else 3) (homeRank a.whiteToMove) = k ∨
        sq (if ks = true then 5 else 3) (homeRank a.whiteToMove) = sq rf (homeRank a.whiteToMove) ∨
        a.board (sq (if ks = true then 5 else 3) (homeRank a.whiteToMove)) = none
  safe : inCheck (apply a (.castle ks)).board a.whiteToMove = false

theorem castle_facts (h : castleLegal a ks = true) : ∃ rf k, CastleFacts a ks rf k := by
  unfold castleLegal at h
  simp only [] at h
  split at h
  · next rf k hr hk =>
    simp only [Bool.and_eq_true, beq_iff_eq, List.all_eq_true, List.mem_append, Bool.or_eq_true,
      Option.isNone_iff_eq_none, Bool.not_eq_true'] at h
    obtain ⟨⟨⟨⟨⟨⟨_, hrook⟩, _⟩, _⟩, hall⟩, _⟩, hsafe⟩ := h
    refine ⟨rf, k, hr, hk, hrook, ?_, ?_, hsafe⟩
    · have := hall _ (Or.inl (mem_span_right k _))
      rcases this with (h1 | h1) | h1
      · exact Or.inl h1
      · exact Or.inr (Or.inl h1)
      · exact Or.inr (Or.inr h1)
    · have := hall _ (Or.inr (mem_span_right (sq rf (homeRank a.whiteToMove)) _))
      rcases this with (h1 | h1) | h1
      · exact Or.inl h1
      · exact Or.inr (Or.inl h1)
      · exact Or.inr (Or.inr h1)
  · cases h

/-- the board after castling. -/
def cBoard (a : APos) (k rsq kTo rTo : Nat) : Board :=
  setSq (setSq (setSq (setSq a.board k none) rsq none) kTo (some ⟨a.whiteToMove, .king⟩)) rTo
    (some ⟨a.whiteToMove, .rook⟩)

theorem cBoard_eq (a : APos) (k rsq kTo rTo j : Nat) :
    cBoard a k rsq kTo rTo j = if j = rTo then some ⟨a.whiteToMove, .rook⟩
      else if j = kTo then some ⟨a.whiteToMove, .king⟩
      else if j = rsq then none else if j = k then none else a.board j := rfl

theorem targets (w ks : Bool) :
    sq (if ks = true then 6 else 2) (homeRank w) < 64 ∧ sq (if ks = true then 5 else 3) (homeRank w) < 64 ∧
    sq (if ks = true then 6 else 2) (homeRank w) ≠ sq (if ks = true then 5 else 3) (homeRank w) := by
  cases w <;> cases ks <;> decide

theorem not_opp {w : Bool} {x : Piece} {kd : Kind} (h : x.white = w) : x ≠ ⟨!w, kd⟩ := by
  intro e
  rw [e] at h
  cases w <;> simp at h

/-- a square that is the king's, the rook's or empty does not hold an opposing piece. -/
theorem own_or_empty {a : APos} {x k rsq : Nat} {kd : Kind}
    (hk : a.board k = some ⟨a.whiteToMove, .king⟩) (hr : a.board rsq = some ⟨a.whiteToMove, .rook⟩)
    (h : x = k ∨ x = rsq ∨ a.board x = none) : a.board x ≠ some ⟨!a.whiteToMove, kd⟩ := by
  rcases h with h | h | h
  · rw [h, hk]; intro e; exact not_opp (w := a.whiteToMove) rfl (Option.some.inj e)
  · rw [h, hr]; intro e; exact not_opp (w := a.whiteToMove) rfl (Option.some.inj e)
  · rw [h]; intro e; cases e

theorem apply_castle_fields (cf : CastleFacts a ks rf k) :
    (apply a (.castle ks)).board = cBoard a k (sq rf (homeRank a.whiteToMove))
      (sq (if ks = true then 6 else 2) (homeRank a.whiteToMove))
      (sq (if ks = true then 5 else 3) (homeRank a.whiteToMove)) ∧
    (apply a (.castle ks)).whiteToMove = !a.whiteToMove ∧
    (∀ w ks', right (apply a (.castle ks)) w ks' = if w = a.whiteToMove then none else right a w ks') ∧
    (apply a (.castle ks)).ep = none ∧ (apply a (.castle ks)).half = a.half + 1 ∧
    (apply a (.castle ks)).full = (if a.whiteToMove = true then a.full else a.full + 1) := by
  rw [apply_castle cf.hr cf.hk]
  refine ⟨rfl, rfl, ?_, rfl, rfl, rfl⟩
  intro w ks'
  cases hw : a.whiteToMove <;> cases w <;> cases ks' <;> simp [right]

/-- legal castling preserves validity. -/
theorem valid_castle (v : ValidFacts a) (cf : CastleFacts a ks rf k) : ValidFacts (apply a (.castle ks)) := by
  obtain ⟨hB, hW, hR, hE, hH, hF⟩ := apply_castle_fields cf
  obtain ⟨hkT, hrT, hne⟩ := targets a.whiteToMove ks
  have uk := unique_of_kingSquares cf.hk
  have hBk := uk.2.1
  have hBr := cf.rook
  generalize hkTo : sq (if ks = true then 6 else 2) (homeRank a.whiteToMove) = kTo at hB hkT hne
  generalize hrTo : sq (if ks = true then 5 else 3) (homeRank a.whiteToMove) = rTo at hB hrT hne
  generalize hrsq : sq rf (homeRank a.whiteToMove) = rsq at hB hBr
  have ck := cf.kTo
  have cr := cf.rTo
  rw [hkTo, hrsq] at ck
  rw [hrTo, hrsq] at cr
  -- the opponent's pieces are untouched
  have opp : ∀ j kd, cBoard a k rsq kTo rTo j = some ⟨!a.whiteToMove, kd⟩ ↔ a.board j = some ⟨!a.whiteToMove, kd⟩ := by
    intro j kd
    rw [cBoard_eq]
    by_cases h1 : j = rTo
    · subst h1
      simp only [if_true]
      constructor
      · intro e; exact absurd (Option.some.inj e) (not_opp rfl)
      · intro e; exact absurd e (own_or_empty hBk hBr cr)
    · by_cases h2 : j = kTo
      · subst h2
        simp only [if_neg h1, if_true]
        constructor
        · intro e; exact absurd (Option.some.inj e) (not_opp rfl)
        · intro e; exact absurd e (own_or_empty hBk hBr ck)
      · by_cases h3 : j = rsq
        · subst h3
          simp only [if_neg h1, if_neg h2, if_true]
          constructor
          · intro e; cases e
          · intro e; rw [hBr] at e; exact absurd (Option.some.inj e) (not_opp rfl)
        · by_cases h4 : j = k
          · subst h4
            simp only [if_neg h1, if_neg h2, if_neg h3, if_true]
            constructor
            · intro e; cases e
            · intro e; rw [hBk] at e; exact absurd (Option.some.inj e) (not_opp rfl)
          · simp only [if_neg h1, if_neg h2, if_neg h3, if_neg h4]
  have oppKing : ∀ k0, UniqueKing a.board (!a.whiteToMove) k0 →
      UniqueKing (cBoard a k rsq kTo rTo) (!a.whiteToMove) k0 :=
    fun k0 h0 => uniqueKing_congr h0 (fun j _ => opp j .king)
  have ownKing : UniqueKing (cBoard a k rsq kTo rTo) a.whiteToMove kTo := by
    refine ⟨hkT, by rw [cBoard_eq, if_neg hne, if_pos rfl], ?_⟩
    intro j hj h
    rw [cBoard_eq] at h
    split at h
    · cases h
    · split at h
      · next h2 => exact h2
      · split at h
        · cases h
        · split at h
          · cases h
          · next h3 h4 => exact absurd (uk.2.2 j hj h) h4
  have kings : ∀ c, ∃ k', UniqueKing (cBoard a k rsq kTo rTo) c k' := by
    intro c
    by_cases hc : c = a.whiteToMove
    · subst hc; exact ⟨kTo, ownKing⟩
    · have : c = !a.whiteToMove := by cases c <;> cases hw : a.whiteToMove <;> simp_all
      subst this
      obtain ⟨k0, h0⟩ := all_kings v (!a.whiteToMove)
      exact ⟨k0, oppKing k0 h0⟩
  refine ⟨?_, ?_, ?_, ?_, ?_, ?_, ?_, ?_⟩
  · rw [hB]; exact kings true
  · rw [hB]; exact kings false
  · rw [hB]
    intro j hj x hx hk
    rw [cBoard_eq] at hx
    split at hx
    · cases hx; cases hk
    · split at hx
      · cases hx; cases hk
      · split at hx
        · cases hx
        · split at hx
          · cases hx
          · exact v.pawns j hj x hx hk
  · rw [hW, Bool.not_not]; exact cf.safe
  · intro w ks' f hr
    rw [hR] at hr
    split at hr
    · cases hr
    · next hw =>
      have hw' : w = !a.whiteToMove := by cases w <;> cases hh : a.whiteToMove <;> simp_all
      subst hw'
      obtain ⟨h1, h2, k0, hk0, h3, h4⟩ := v.rights _ ks' f hr
      unfold RightOK
      rw [hB]
      exact ⟨h1, (opp _ _).mpr h2, k0, kingSquares_of_unique (oppKing k0 (unique_of_kingSquares hk0)), h3, h4⟩
  · intro e he
    rw [hE] at he; cases he
  · rw [hH]; have := v.half; omega
  · rw [hF]; have := v.full; split <;> omega

end castle

/-- **every legal move preserves `Spec.Valid`.** -/
theorem valid_apply {a : APos} {mv : Move} (hv : Valid a = true) (hl : mv ∈ legalMoves a) :
    Valid (apply a mv) = true := by
  rw [valid_iff] at hv ⊢
  rcases legal_cases hl with ⟨s, t, pr, pc, e, nl, hc⟩ | ⟨ks, e, hc⟩
  · subst e
    exact valid_normal hv nl hc
  · subst e
    obtain ⟨rf, k, cf⟩ := castle_facts hc
    exact valid_castle hv cf

end Rawr.SV
