import Rawr.Proofs.RustTextAgree_GetFen
import Rawr.Proofs.GenShapeValid
/-!
# `get_fen` regenerated from the Rust source agrees with the model on every valid position

Kept apart from `RustTextAgree_Rules.lean` (which needs the agreement of make-move and the move generator for `uci::moves`) so
that the FEN-printing obligations of C06 do not depend on those.
-/
namespace Rawr
open Position Spec

theorem fenPrintable_of_valid {p : Position} (hV : ValidPos p = true) : FenPrintable p := by
  have F := vfacts_of_valid hV
  simp only [ValidPos, Bool.and_eq_true, decide_eq_true_eq] at hV
  obtain ⟨⟨⟨⟨⟨_, h0⟩, h1⟩, h2⟩, h3⟩, _⟩ := hV
  exact ⟨fun e he => (F.ep e he).1, fun _ => h0, fun _ => h1, fun _ => h2, fun _ => h3⟩

/-- `get_fen` on valid positions (both arithmetics). -/
theorem agree_get_fen_rules (ar : Arith) (p : Position) (hV : ValidPos p = true) : R.get_fen ar p = getFen p :=
  agree_get_fen ar p (fenPrintable_of_valid hV)

end Rawr

#print axioms Rawr.agree_get_fen_rules
