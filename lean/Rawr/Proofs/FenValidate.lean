import Rawr.Model.MakeMove
/-! `validate p = Ok` as a conjunction of its tests. -/
namespace Rawr
open Position
set_option linter.unusedSimpArgs false

theorem ite_some_none_iff' {c : Prop} [Decidable c] {a : String} {x : Option String} :
    (if c then some a else x) = none ↔ ¬c ∧ x = none := by
  by_cases h : c <;> simp [h]

/-- the en-passant test of `validate`. -/
def valEpOk (p : Position) : Bool :=
  match p.ep with
  | none => true
  | some ep =>
    rankOf ep == 5 && !(south (bit (ep % 64)) &&& p.c1 &&& p.p0).isEmpty && !(bit (ep % 64) &&& p.occ).isOcc

theorem validate_none_iff (p : Position) : p.validate = none ↔
    ((p.p0 &&& 0xFF000000000000FF#64).isOcc = false ∧ (p.white &&& p.blackBB).isOcc = false ∧
     (p.p0 &&& p.p1).isOcc = false ∧ (p.p0 &&& p.p2).isOcc = false ∧ (p.p0 &&& p.p3).isOcc = false ∧
     (p.p0 &&& p.p4).isOcc = false ∧ (p.p0 &&& p.p5).isOcc = false ∧ (p.p1 &&& p.p2).isOcc = false ∧
     (p.p1 &&& p.p3).isOcc = false ∧ (p.p1 &&& p.p4).isOcc = false ∧ (p.p1 &&& p.p5).isOcc = false ∧
     (p.p2 &&& p.p3).isOcc = false ∧ (p.p2 &&& p.p4).isOcc = false ∧ (p.p2 &&& p.p5).isOcc = false ∧
     (p.p3 &&& p.p4).isOcc = false ∧ (p.p3 &&& p.p5).isOcc = false ∧ (p.p4 &&& p.p5).isOcc = false) ∧
    valEpOk p = true ∧
    (count (p.white &&& p.p5) = 1 ∧ count (p.blackBB &&& p.p5) = 1 ∧ 0 ≤ p.halfmoves ∧ 1 ≤ p.fullmoves) ∧
    ((p.usK = true → rankOf (lsb (p.c0 &&& p.p5)) = 0) ∧ (p.usQ = true → rankOf (lsb (p.c0 &&& p.p5)) = 0) ∧
     (p.themK = true → rankOf (lsb (p.c1 &&& p.p5)) = 7) ∧ (p.themQ = true → rankOf (lsb (p.c1 &&& p.p5)) = 7) ∧
     (p.usK = true → (p.c0 &&& p.p3).isSet (fromCoords p.cf0 0) = true) ∧
     (p.usQ = true → (p.c0 &&& p.p3).isSet (fromCoords p.cf1 0) = true) ∧
     (p.themK = true → (p.c1 &&& p.p3).isSet (fromCoords p.cf2 7) = true) ∧
     (p.themQ = true → (p.c1 &&& p.p3).isSet (fromCoords p.cf3 7) = true)) ∧
    p.isSqAttacked (lsb (p.c1 &&& p.p5)) false = false := by
  unfold validate valEpOk
  simp only [ite_some_none_iff']
  rcases p.ep with _ | e
  · simp only [ite_some_none_iff', Bool.not_eq_true, bne_iff_ne, ne_eq, Decidable.not_not, Int.not_lt,
      Bool.and_eq_true, Bool.not_eq_eq_eq_not, Bool.not_true, not_and, Bool.not_eq_false, and_assoc,
      and_true, true_and]
  · cases hA : (rankOf e == 5) <;> cases hB : (south (bit (e % 64)) &&& p.c1 &&& p.p0).isEmpty <;>
    cases hC : (bit (e % 64) &&& p.occ).isOcc <;>
    simp only [bne, hA, hB, hC, Bool.not_true, Bool.not_false, if_true, if_false, Bool.false_eq_true, ite_some_none_iff', Bool.not_eq_true, bne_iff_ne, ne_eq, Decidable.not_not, Int.not_lt,
            Bool.and_eq_true, Bool.not_eq_eq_eq_not, Bool.not_true, not_and, Bool.not_eq_false, and_assoc,
            and_true, true_and, Bool.and_self, Bool.and_false, Bool.false_and, and_false, false_and, reduceCtorEq, beq_iff_eq, Bool.not_eq_true']
end Rawr
