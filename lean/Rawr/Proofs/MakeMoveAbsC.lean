import Rawr.Proofs.MakeMoveAbsB
/-! C02: what stands on every square after a non-castling / castling move (a `View` of the pre-flip
result), and its board consistency. -/
namespace Rawr.MM
open Rawr Rawr.Position Rawr.Spec Rawr.ZH

/-! ### non-castling moves -/

/-- kind on square `x` after the move. -/
def ncPo (p : Position) (m : Mv) (i : Nat) (epc pr : Bool) (x : Nat) : Option Nat :=
  if x = m.src then none
  else if x = m.dst then some (if pr = true then m.promo else i)
  else if epc = true ∧ x = m.dst - 8 then none
  else p.pieceOn x

def ncU0 (p : Position) (m : Mv) (x : Nat) : Bool :=
  if x = m.src then false else if x = m.dst then true else p.c0.getLsbD x

def ncV0 (p : Position) (m : Mv) (epc : Bool) (x : Nat) : Bool :=
  if x = m.dst then false else if epc = true ∧ x = m.dst - 8 then false else p.c1.getLsbD x

section nc
variable {p : Position} {m : Mv} {i c : Nat} {cap epc pr : Bool}

theorem nc_src_ne_ep (f : NCFacts p m i c cap epc pr) (hE : epc = true) : ¬ (m.src = m.dst - 8) := by
  intro e
  have := (f.hepc hE).2.1
  rw [← e, f.c1s] at this
  cases this

theorem nc_P (f : NCFacts p m i c cap epc pr) (k x : Nat) (hx : x < 64) :
    (p.piece k ^^^ ncDP m i c cap epc pr k).getLsbD x = (ncPo p m i epc pr x == some k) := by
  have hne := f.hne
  have f1 := f.f1 k
  have f2 := f.f2 k
  simp only [ncDP, BitVec.getLsbD_xor, BitVec.getLsbD_or, getLsbD_cnd, ZH.getLsbD_bit,
    piece_bit f.hC, hx, decide_true, Bool.and_true, Bool.decide_and, Bool.decide_eq_true]
  unfold ncPo
  by_cases h1 : x = m.src
  · subst h1
    have e0 : ((none : Option Nat) == some k) = false := rfl
    simp only [if_true, e0]
    cases hE : epc
    · simp only [f1, hne, decide_true, decide_false]
      generalize decide (k = i) = ki, decide (k = c) = kc, decide (k = 0) = k0, decide (k = m.promo) = kp,
        decide (m.src = m.dst - 8) = z
      bool_taut
    · simp only [f1, hne, nc_src_ne_ep f hE, decide_true, decide_false]
      generalize decide (k = i) = ki, decide (k = c) = kc, decide (k = 0) = k0, decide (k = m.promo) = kp
      bool_taut
  · by_cases h2 : x = m.dst
    · subst h2
      simp only [if_neg h1, if_true, some_beq]
      have h3 : epc = true → ¬ (m.dst = m.dst - 8) := by
        intro hE
        have := (f.hepc hE).1
        omega
      cases hp : pr
      · simp only [f2, h1, decide_true, decide_false, Bool.false_eq_true, if_false]
        cases hE : epc
        · generalize decide (k = i) = ki, decide (k = c) = kc, decide (k = 0) = k0, decide (k = m.promo) = kp,
            decide (m.dst = m.dst - 8) = z
          bool_taut
        · simp only [h3 hE, decide_false]
          generalize decide (k = i) = ki, decide (k = c) = kc, decide (k = 0) = k0, decide (k = m.promo) = kp
          bool_taut
      · have hi0 := f.hpr hp
        subst hi0
        simp only [f2, h1, decide_true, decide_false, if_true]
        cases hE : epc
        · generalize decide (k = c) = kc, decide (k = 0) = k0, decide (k = m.promo) = kp,
            decide (m.dst = m.dst - 8) = z
          bool_taut
        · simp only [h3 hE, decide_false]
          generalize decide (k = c) = kc, decide (k = 0) = k0, decide (k = m.promo) = kp
          bool_taut
    · simp only [h1, h2, decide_false, Bool.or_false, Bool.and_false, Bool.xor_false]
      cases hE : epc
      · simp
      · by_cases h3 : x = m.dst - 8
        · subst h3
          obtain ⟨_, _, g2⟩ := f.hepc hE
          have g3 : (p.pieceOn (m.dst - 8) == some k) = decide (k = 0) := by rw [g2, some_beq]
          simp [g3]
        · simp [h3]

theorem nc_lt (f : NCFacts p m i c cap epc pr) (hp6 : pr = true → m.promo < 6) (x k : Nat)
    (h : ncPo p m i epc pr x = some k) : k < 6 := by
  unfold ncPo at h
  split at h
  · cases h
  · split at h
    · cases hp : pr
      · rw [hp] at h
        simp only [Bool.false_eq_true, if_false, Option.some.injEq] at h
        rw [← h]; exact pieceOn_lt f.hpo
      · rw [hp] at h
        simp only [if_true, Option.some.injEq] at h
        rw [← h]; exact hp6 hp
    · split at h
      · cases h
      · exact pieceOn_lt h

/-- the view of the pre-flip result of a non-castling move. -/
theorem nc_view (f : NCFacts p m i c cap epc pr) (hp6 : pr = true → m.promo < 6) {h : BB} {hm : Int}
    {S : Position}
    (R : Res p m i h (bit m.src ||| bit m.dst) (ncD1 m cap epc) (ncDP m i c cap epc pr) hm S) :
    View S (ncPo p m i epc pr) (ncU0 p m) (ncV0 p m epc) := by
  refine ⟨?_, ?_, ?_, nc_lt f hp6⟩
  · intro x hx
    rw [R.c0]
    simp only [BitVec.getLsbD_xor, BitVec.getLsbD_or, ZH.getLsbD_bit, hx, decide_true, Bool.and_true]
    unfold ncU0
    by_cases h1 : x = m.src
    · subst h1; simp [f.h0s]
    · by_cases h2 : x = m.dst
      · subst h2; simp [f.h0d, h1]
      · simp [h1, h2]
  · intro x hx
    rw [R.c1]
    simp only [ncD1, BitVec.getLsbD_xor, getLsbD_cnd, ZH.getLsbD_bit, hx, decide_true, Bool.and_true,
      Bool.decide_eq_true]
    unfold ncV0
    by_cases h2 : x = m.dst
    · subst h2
      cases hE : epc
      · simp [f.hcap]
      · have := (f.hepc hE).1
        have h3 : ¬ (m.dst = m.dst - 8) := by omega
        simp [f.hcap, h3]
    · cases hE : epc
      · simp [h2]
      · by_cases h3 : x = m.dst - 8
        · subst h3
          simp [h2, (f.hepc hE).2.1]
        · simp [h2, h3]
  · intro x k hx
    rw [R.P]
    exact nc_P f k x hx

theorem nc_disj (f : NCFacts p m i c cap epc pr) (x : Nat) : (ncU0 p m x && ncV0 p m epc x) = false := by
  unfold ncU0 ncV0
  by_cases h1 : x = m.src
  · simp [h1]
  · by_cases h2 : x = m.dst
    · simp [h2]
    · simp only [if_neg h1, if_neg h2]
      split
      · simp
      · exact disj_bit f.hC x

theorem nc_occ (f : NCFacts p m i c cap epc pr) (x : Nat) :
    (ncU0 p m x || ncV0 p m epc x) = (ncPo p m i epc pr x).isSome := by
  unfold ncU0 ncV0 ncPo
  by_cases h1 : x = m.src
  · subst h1
    have hne := f.hne
    simp only [if_true, if_neg hne, Bool.false_or, Option.isSome_none]
    split
    · rfl
    · exact f.c1s
  · by_cases h2 : x = m.dst
    · subst h2
      simp [h1]
    · simp only [if_neg h1, if_neg h2]
      split
      · next h3 =>
        have g1 := (f.hepc h3.1).2.1
        have g0 := disj_bit f.hC (m.dst - 8)
        rw [g1] at g0
        rw [h3.2]
        simpa using g0
      · exact occ_bit f.hC x

theorem nc_consistent (f : NCFacts p m i c cap epc pr) (hp6 : pr = true → m.promo < 6) {h : BB} {hm : Int}
    {S : Position}
    (R : Res p m i h (bit m.src ||| bit m.dst) (ncD1 m cap epc) (ncDP m i c cap epc pr) hm S) :
    Consistent S = true :=
  (nc_view f hp6 R).consistent (fun x _ => nc_disj f x) (fun x _ => nc_occ f x)

end nc

/-! ### castling -/

def cPo (p : Position) (m : Mv) (kTo rTo : Nat) (x : Nat) : Option Nat :=
  if x = kTo then some 5 else if x = rTo then some 3
  else if x = m.src ∨ x = m.dst then none else p.pieceOn x

def cU0 (p : Position) (m : Mv) (kTo rTo : Nat) (x : Nat) : Bool :=
  if x = kTo ∨ x = rTo then true else if x = m.src ∨ x = m.dst then false else p.c0.getLsbD x

section castle
variable {p : Position} {m : Mv} {kTo rTo : Nat}

theorem c_c1s (f : CFacts p m kTo rTo) : p.c1.getLsbD m.src = false := by
  have := disj_bit f.hC m.src
  rw [f.h0s] at this
  simpa using this

theorem c_c1d (f : CFacts p m kTo rTo) : p.c1.getLsbD m.dst = false := by
  have := disj_bit f.hC m.dst
  rw [f.h0d] at this
  simpa using this

/-- a target square other than `src`/`dst` is empty. -/
theorem c_emptyK (f : CFacts p m kTo rTo) (h1 : ¬ kTo = m.src) (h2 : ¬ kTo = m.dst) :
    p.c0.getLsbD kTo = false ∧ p.c1.getLsbD kTo = false ∧ p.pieceOn kTo = none := by
  rcases f.eK with e | e | ⟨e0, e1⟩
  · exact absurd e h1
  · exact absurd e h2
  · exact ⟨e0, e1, empty_piece f.hC e0 e1⟩

theorem c_emptyR (f : CFacts p m kTo rTo) (h1 : ¬ rTo = m.src) (h2 : ¬ rTo = m.dst) :
    p.c0.getLsbD rTo = false ∧ p.c1.getLsbD rTo = false ∧ p.pieceOn rTo = none := by
  rcases f.eR with e | e | ⟨e0, e1⟩
  · exact absurd e h1
  · exact absurd e h2
  · exact ⟨e0, e1, empty_piece f.hC e0 e1⟩

/-- the facts about square `x` a castling proof needs, as one Boolean formula in
`a = (x = src)`, `b = (x = dst)`, `kk = (x = kTo)`, `r = (x = rTo)`, `u` = own piece on `x`, `o` = kind `k` on `x`. -/
def cForm (a b kk r u o k5 k3 : Bool) : Bool :=
  !(a && b) && !(kk && r) && (!a || (u && (o == k5))) && (!b || (u && (o == k3))) &&
    (a || b || !(kk || r) || (!u && !o)) && !(k5 && k3)

theorem c_facts (f : CFacts p m kTo rTo) (k x : Nat) :
    cForm (decide (x = m.src)) (decide (x = m.dst)) (decide (x = kTo)) (decide (x = rTo)) (p.c0.getLsbD x)
      (p.pieceOn x == some k) (decide (k = 5)) (decide (k = 3)) = true := by
  have hne := f.hne
  have hkr := f.hkr
  have h53 : (decide (k = 5) && decide (k = 3)) = false := by
    by_cases h : k = 5
    · subst h; rfl
    · simp [h]
  unfold cForm
  rw [h53]
  by_cases h1 : x = m.src
  · subst h1
    have e : (p.pieceOn m.src == some k) = decide (k = 5) := by rw [f.hpo, some_beq]
    have hab : (decide (m.src = kTo) && decide (m.src = rTo)) = false := by
      by_cases h : m.src = kTo
      · have : ¬ m.src = rTo := fun e => hkr (h.symm.trans e)
        simp [this]
      · simp [h]
    rw [e, f.h0s, hab]
    simp [hne]
  · by_cases h2 : x = m.dst
    · subst h2
      have e : (p.pieceOn m.dst == some k) = decide (k = 3) := by rw [f.hrook, some_beq]
      have hab : (decide (m.dst = kTo) && decide (m.dst = rTo)) = false := by
        by_cases h : m.dst = kTo
        · have : ¬ m.dst = rTo := fun e => hkr (h.symm.trans e)
          simp [this]
        · simp [h]
      rw [e, f.h0d, hab]
      simp [h1]
    · by_cases hk : x = kTo
      · subst hk
        have hr : ¬ x = rTo := hkr
        have := c_emptyK f h1 h2
        rw [this.1, this.2.2]
        simp [h1, h2, hr]
      · by_cases hr : x = rTo
        · subst hr
          have := c_emptyR f h1 h2
          rw [this.1, this.2.2]
          simp [h1, h2, hk]
        · simp [h1, h2, hk, hr]

theorem ite_bool (c : Prop) [Decidable c] (t e : Bool) :
    (if c then t else e) = ((decide c && t) || (!decide c && e)) := by
  by_cases h : c <;> simp [h]

theorem c_c0 (f : CFacts p m kTo rTo) (x : Nat) (hx : x < 64) :
    (p.c0 ^^^ cD0 m kTo rTo).getLsbD x = cU0 p m kTo rTo x := by
  have h1 := c_facts f 0 x
  simp only [cD0, cU0, BitVec.getLsbD_xor, BitVec.getLsbD_or, ZH.getLsbD_bit, hx, decide_true, Bool.and_true,
    ite_bool, Bool.decide_or]
  revert h1
  generalize decide (x = m.src) = a, decide (x = m.dst) = b, decide (x = kTo) = kk, decide (x = rTo) = r,
    p.c0.getLsbD x = u, (p.pieceOn x == some 0) = o, decide (0 = 5) = k5, decide (0 = 3) = k3
  bool_taut

/-- one-hot form of `cPo`. -/
theorem cPo_beq (x k : Nat) :
    (cPo p m kTo rTo x == some k) =
      (if x = kTo then decide (k = 5) else if x = rTo then decide (k = 3)
       else if x = m.src ∨ x = m.dst then false else (p.pieceOn x == some k)) := by
  unfold cPo
  split
  · exact some_beq 5 k
  · split
    · exact some_beq 3 k
    · split <;> rfl

theorem c_P (f : CFacts p m kTo rTo) (k x : Nat) (hx : x < 64) :
    (p.piece k ^^^ cDP m kTo rTo k).getLsbD x = (cPo p m kTo rTo x == some k) := by
  have h1 := c_facts f k x
  rw [cPo_beq]
  simp only [cDP, BitVec.getLsbD_xor, BitVec.getLsbD_or, getLsbD_cnd, ZH.getLsbD_bit,
    piece_bit f.hC, hx, decide_true, Bool.and_true, ite_bool, Bool.decide_or]
  revert h1
  generalize decide (x = m.src) = a, decide (x = m.dst) = b, decide (x = kTo) = kk, decide (x = rTo) = r,
    p.c0.getLsbD x = u, (p.pieceOn x == some k) = o, decide (k = 5) = k5, decide (k = 3) = k3
  bool_taut

theorem c_lt (x k : Nat) (h : cPo p m kTo rTo x = some k) : k < 6 := by
  unfold cPo at h
  split at h
  · cases h; omega
  · split at h
    · cases h; omega
    · split at h
      · cases h
      · exact pieceOn_lt h

/-- the view of the pre-flip result of a castling move. -/
theorem c_view (f : CFacts p m kTo rTo) {h : BB} {hm : Int} {S : Position}
    (R : Res p m 5 h (cD0 m kTo rTo) 0#64 (cDP m kTo rTo) hm S) :
    View S (cPo p m kTo rTo) (cU0 p m kTo rTo) p.c1.getLsbD := by
  refine ⟨?_, ?_, ?_, c_lt⟩
  · intro x hx
    rw [R.c0]
    exact c_c0 f x hx
  · intro x _
    rw [R.c1, BitVec.xor_zero]
  · intro x k hx
    rw [R.P]
    exact c_P f k x hx

theorem c_disj (f : CFacts p m kTo rTo) (x : Nat) : (cU0 p m kTo rTo x && p.c1.getLsbD x) = false := by
  unfold cU0
  by_cases h1 : x = m.src
  · subst h1; simp [c_c1s f]
  · by_cases h2 : x = m.dst
    · subst h2; simp [c_c1d f]
    · by_cases hk : x = kTo
      · subst hk; simp [(c_emptyK f h1 h2).2.1]
      · by_cases hr : x = rTo
        · subst hr; simp [(c_emptyR f h1 h2).2.1]
        · simp only [h1, h2, hk, hr, or_self, if_false]
          exact disj_bit f.hC x

theorem c_occ (f : CFacts p m kTo rTo) (x : Nat) :
    (cU0 p m kTo rTo x || p.c1.getLsbD x) = (cPo p m kTo rTo x).isSome := by
  unfold cU0 cPo
  by_cases hk : x = kTo
  · simp [hk]
  · by_cases hr : x = rTo
    · subst hr
      simp [hk]
    · simp only [hk, hr, or_self, if_false]
      by_cases h1 : x = m.src
      · subst h1; simp [c_c1s f]
      · by_cases h2 : x = m.dst
        · subst h2; simp [c_c1d f]
        · simp only [h1, h2, or_self, if_false]
          exact occ_bit f.hC x

theorem c_consistent (f : CFacts p m kTo rTo) {h : BB} {hm : Int} {S : Position}
    (R : Res p m 5 h (cD0 m kTo rTo) 0#64 (cDP m kTo rTo) hm S) : Consistent S = true :=
  (c_view f R).consistent (fun x _ => c_disj f x) (fun x _ => c_occ f x)

end castle

end Rawr.MM
