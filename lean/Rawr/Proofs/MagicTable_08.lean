import Rawr.Proofs.MagicCheck
/-! C10 table check, part 8 of 16: 6560 rows, each one evaluated by the kernel.
The partition into modules balances row counts and depends on board geometry only; the statements do
not mention any table content, so a changed table or magic makes these proofs fail. -/
namespace Rawr.MagicTable
theorem bishop_4 : checkB 4 = true := by decide +kernel
theorem bishop_13 : checkB 13 = true := by decide +kernel
theorem bishop_21 : checkB 21 = true := by decide +kernel
theorem bishop_25 : checkB 25 = true := by decide +kernel
theorem bishop_41 : checkB 41 = true := by decide +kernel
theorem bishop_45 : checkB 45 = true := by decide +kernel
theorem bishop_53 : checkB 53 = true := by decide +kernel
theorem rook_15 : checkR 15 = true := by decide +kernel
theorem rook_22 : checkR 22 = true := by decide +kernel
theorem rook_44 : checkR 44 = true := by decide +kernel
theorem rook_58 : checkR 58 = true := by decide +kernel
end Rawr.MagicTable
