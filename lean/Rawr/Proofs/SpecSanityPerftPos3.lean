import Rawr.Proofs.SpecSanityPerftDefs
import Rawr.Proofs.SpecSanityPerftPos3_0
import Rawr.Proofs.SpecSanityPerftPos3_1
import Rawr.Proofs.SpecSanityPerftPos3_2
import Rawr.Proofs.SpecSanityPerftPos3_3
/-!
# Sanity of the specification, part 5: perft of position 3 of the chessprogramming perft page, depths 1–3: 14, 191, 2812 (kernel-evaluated)
-/
namespace Rawr.SpecS
open Rawr.Spec

/-- the first moves, in the order of `Spec.legalMoves`. -/
theorem pos33_moves : legalMoves cpwPos3 =
    [.normal 12 20 none, .normal 12 28 none, .normal 14 22 none, .normal 14 30 none,
      .normal 25 1 none, .normal 25 9 none, .normal 25 17 none, .normal 25 24 none,
      .normal 25 26 none, .normal 25 27 none, .normal 25 28 none, .normal 25 29 none,
      .normal 32 24 none, .normal 32 40 none] := by
  decide +kernel

theorem leaves_pos3_1 : leaves cpwPos3 1 = 14 := by decide +kernel

theorem leaves_pos3_2 : leaves cpwPos3 2 = 191 := by decide +kernel

theorem leaves_pos3_3 : leaves cpwPos3 3 = 2812 := by
  rw [leaves_succ_of pos33_moves 2]
  have e : ([.normal 12 20 none, .normal 12 28 none, .normal 14 22 none, .normal 14 30 none,
      .normal 25 1 none, .normal 25 9 none, .normal 25 17 none, .normal 25 24 none,
      .normal 25 26 none, .normal 25 27 none, .normal 25 28 none, .normal 25 29 none,
      .normal 32 24 none, .normal 32 40 none] : List Move) =
      [.normal 12 20 none, .normal 12 28 none, .normal 14 22 none, .normal 14 30 none,
      .normal 25 1 none] ++
      [.normal 25 9 none, .normal 25 17 none, .normal 25 24 none] ++
      [.normal 25 26 none, .normal 25 27 none, .normal 25 28 none] ++
      [.normal 25 29 none, .normal 32 24 none, .normal 32 40 none] := rfl
  rw [e]
  simp only [List.map_append, List.sum_append, pos33_0, pos33_1, pos33_2, pos33_3]

end Rawr.SpecS
