import Rawr.Proofs.MakeMoveAbsV5
/-!
# Sanity of the specification, parts 2 and 4 (a, b): kings are never captured; check semantics

Everything here is about `Rawr/Spec/Chess.lean` alone (no engine model).
-/
namespace Rawr.SpecS
open Rawr.Spec Rawr.SV

/-! ## 2. kings are never captured -/

/-- the destination square of a legal non-castling move never holds a king (of either colour). -/
theorem dest_not_king {a : APos} {s t : Nat} {pr : Option Kind} (hv : Valid a = true)
    (hl : Move.normal s t pr ∈ legalMoves a) (c : Bool) : a.board t ≠ some ⟨c, .king⟩ := by
  have v := (valid_iff a).mp hv
  rcases legal_cases hl with ⟨s', t', pr', pc, e, nl, _⟩ | ⟨ks, e, _⟩
  · cases e
    intro h
    by_cases hc : c = a.whiteToMove
    · -- own king: a move never lands on a man of the mover
      obtain ⟨h1, _⟩ := nl.tgt _ h
      exact h1 (by rw [nl.hw, hc])
    · have : c = !a.whiteToMove := by cases c <;> cases hw : a.whiteToMove <;> simp_all
      rw [this] at h
      exact no_king_capture v nl h
  · cases e

/-- the en-passant victim is a pawn, not a king: the only other square a move empties besides its
origin. -/
theorem ep_victim_is_pawn {a : APos} {s t : Nat} {pr : Option Kind} {pc : Piece} (hv : Valid a = true)
    (nl : NormalLegal a s t pr pc) (hE : isEpB a s t pc = true) :
    a.board (sq (file t) (rank s)) = some ⟨!a.whiteToMove, .pawn⟩ :=
  (ep_victim ((valid_iff a).mp hv) nl hE).1

/-- after every legal move each side still has exactly one king. -/
theorem kings_survive {a : APos} {m : Move} (hv : Valid a = true) (hl : m ∈ legalMoves a) (c : Bool) :
    (kingSquares (apply a m).board c).length = 1 := by
  have v := (valid_iff _).mp (valid_apply hv hl)
  rw [kingSquares_len_one]
  cases c
  · exact v.kb
  · exact v.kw

theorem kings_survive_count {a : APos} {m : Move} (hv : Valid a = true) (hl : m ∈ legalMoves a) (c : Bool) :
    countPieces (apply a m).board (fun pc => pc == ⟨c, .king⟩) = 1 := by
  rw [countKing_eq]; exact kings_survive hv hl c

/-- a king that does not move stays where it is; the king that moves is on the destination. -/
theorem king_square_after {a : APos} {s t : Nat} {pr : Option Kind} (hv : Valid a = true)
    (hl : Move.normal s t pr ∈ legalMoves a) (c : Bool) (k : Nat) (hk : kingSquares a.board c = [k]) :
    kingSquares (apply a (.normal s t pr)).board c = [if k = s then t else k] := by
  have v := (valid_iff a).mp hv
  rcases legal_cases hl with ⟨s', t', pr', pc, e, nl, _⟩ | ⟨ks, e, _⟩
  · cases e
    have uk := unique_of_kingSquares hk
    rw [apply_board nl.hpc]
    apply kingSquares_of_unique
    by_cases hks : k = s
    · rw [if_pos hks]
      subst hks
      have hpc : pc = ⟨c, .king⟩ := by
        have := uk.2.1; rw [nl.hpc] at this; exact Option.some.inj this
      have hcw : c = a.whiteToMove := by rw [← nl.hw, hpc]
      subst hcw
      exact king_moves nl uk (by rw [hpc])
    · rw [if_neg hks]
      apply king_stays v nl uk
      by_cases hc : c = a.whiteToMove
      · right
        intro hkd
        apply hks
        apply (uk.2.2 s nl.hs _).symm
        rw [nl.hpc]
        cases pc with
        | mk w kd =>
          have := nl.hw
          simp only at hkd this
          rw [hkd, this, hc]
      · left; exact hc
  · cases e

/-! ## 4. check semantics -/

/-- (a) mate = no legal move and in check; stalemate = no legal move and not in check. -/
theorem isMate_iff (a : APos) :
    isMate a = true ↔ legalMoves a = [] ∧ inCheck a.board a.whiteToMove = true := by
  unfold isMate
  rw [Bool.and_eq_true, List.isEmpty_iff]

theorem isStalemate_iff (a : APos) :
    isStalemate a = true ↔ legalMoves a = [] ∧ inCheck a.board a.whiteToMove = false := by
  unfold isStalemate
  rw [Bool.and_eq_true, List.isEmpty_iff, Bool.not_eq_true']

/-- mate and stalemate exclude each other, and together they are "no legal move". -/
theorem mate_or_stalemate (a : APos) :
    (legalMoves a = [] ↔ (isMate a = true ∨ isStalemate a = true)) ∧
    ¬ (isMate a = true ∧ isStalemate a = true) := by
  rw [isMate_iff, isStalemate_iff]
  constructor
  · constructor
    · intro h
      cases hc : inCheck a.board a.whiteToMove
      · exact Or.inr ⟨h, rfl⟩
      · exact Or.inl ⟨h, rfl⟩
    · rintro (h | h) <;> exact h.1
  · rintro ⟨⟨_, h1⟩, _, h2⟩
    rw [h1] at h2; cases h2

/-- a position without legal moves has no continuation: `leaves` vanishes at every positive depth. -/
theorem leaves_of_no_moves {a : APos} (h : legalMoves a = []) (d : Nat) : leaves a (d + 1) = 0 := by
  simp only [leaves, h, List.map_nil, List.sum_nil]

theorem leaves_one (a : APos) : leaves a 1 = (legalMoves a).length := by
  simp only [leaves]
  induction legalMoves a with
  | nil => rfl
  | cons x xs ih => simp only [List.map_cons, List.sum_cons, List.length_cons, ih]; omega

/-- (b) the mover never ends in check — for every position, valid or not. -/
theorem mover_not_in_check {a : APos} {m : Move} (hl : m ∈ legalMoves a) :
    inCheck (apply a m).board a.whiteToMove = false := by
  rcases legal_cases hl with ⟨s, t, pr, pc, e, _, hc⟩ | ⟨ks, e, hc⟩
  · exact hc
  · subst e
    obtain ⟨rf, k, cf⟩ := castle_facts hc
    exact cf.safe

/-- a king move or a castling. -/
def IsKingMove (a : APos) (m : Move) : Prop :=
  match m with
  | .normal s _ _ => a.board s = some ⟨a.whiteToMove, .king⟩
  | .castle _ => True

/-- castling is never legal when in check (the unique king is attacked). -/
theorem no_castle_in_check {a : APos} {ks : Bool} (hin : inCheck a.board a.whiteToMove = true) :
    Move.castle ks ∉ legalMoves a := by
  intro hl
  rcases legal_cases hl with ⟨s, t, pr, pc, e, _, _⟩ | ⟨ks', e, hc⟩
  · cases e
  · cases e
    unfold castleLegal at hc
    simp only [] at hc
    split at hc
    · next rf k hr hk =>
      simp only [Bool.and_eq_true, Bool.not_eq_true'] at hc
      obtain ⟨⟨⟨⟨_, hatt⟩, _⟩, _⟩, _⟩ := hc
      unfold inCheck at hin
      rw [hk] at hin
      simp only [List.any_cons, List.any_nil, Bool.or_false] at hin
      rw [hin] at hatt; cases hatt
    · cases hc

end Rawr.SpecS
