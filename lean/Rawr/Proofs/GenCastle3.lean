import Rawr.Proofs.GenCastle2
/-!
# C01, castling: the back rank — rays, pins and attacks along it
-/
namespace Rawr.Att
open Spec

/-- the squares strictly between `a` and `b` (`a < b`) are empty. -/
def RowClear (B : Board) (a b : Nat) : Prop := ∀ x, a < x → x < b → B x = none

theorem isNone_iff {α : Type} (o : Option α) : o.isNone = true ↔ o = none := by
  cases o <;> simp

theorem clearBetween_row_up (B : Board) {s t : Nat} (hs : s < 8) (ht : t < 8) (hst : s < t) :
    clearBetween B s t = true ↔ RowClear B s t := by
  have hf : file t = file s + 1 * ((t - s : Nat) : Int) := by unfold file; omega
  have hr : rank t = rank s + 0 * ((t - s : Nat) : Int) := by unfold rank; omega
  rw [clearBetween_iff B (a := 1) (b := 0) (Or.inr (Or.inr rfl)) (Or.inr (Or.inl rfl))
    (Or.inl (by decide)) s t (t - s) (by omega) hf hr]
  unfold RowClear
  constructor
  · intro h x h1 h2
    have := h (x - s) (by omega) (by omega)
    rw [isNone_iff] at this
    have e : sq (file s + 1 * ((x - s : Nat) : Int)) (rank s + 0 * ((x - s : Nat) : Int)) = x := by
      unfold sq file rank; omega
    rw [e] at this; exact this
  · intro h j h1 h2
    have e : sq (file s + 1 * (j : Int)) (rank s + 0 * (j : Int)) = s + j := by
      unfold sq file rank; omega
    rw [e, isNone_iff]; exact h (s + j) (by omega) (by omega)

theorem clearBetween_row_down (B : Board) {s t : Nat} (hs : s < 8) (ht : t < 8) (hst : t < s) :
    clearBetween B s t = true ↔ RowClear B t s := by
  have hf : file t = file s + (-1) * ((s - t : Nat) : Int) := by unfold file; omega
  have hr : rank t = rank s + 0 * ((s - t : Nat) : Int) := by unfold rank; omega
  rw [clearBetween_iff B (a := -1) (b := 0) (Or.inl rfl) (Or.inr (Or.inl rfl))
    (Or.inl (by decide)) s t (s - t) (by omega) hf hr]
  unfold RowClear
  constructor
  · intro h x h1 h2
    have := h (s - x) (by omega) (by omega)
    rw [isNone_iff] at this
    have e : sq (file s + (-1) * ((s - x : Nat) : Int)) (rank s + 0 * ((s - x : Nat) : Int)) = x := by
      unfold sq file rank; omega
    rw [e] at this; exact this
  · intro h j h1 h2
    have e : sq (file s + (-1) * (j : Int)) (rank s + 0 * (j : Int)) = s - j := by
      unfold sq file rank; omega
    rw [e, isNone_iff]; exact h (s - j) (by omega) (by omega)

/-- `ray_e` from a back-rank square. -/
theorem rayE_row {B : Board} {occ : BB} (ho : OccRep B occ) {s : Nat} (hs : s < 8) (t : Nat) :
    (rayE s occ).getLsbD t = true ↔ t < 8 ∧ s < t ∧ RowClear B s t := by
  rw [rayE_eq_walk s (by omega) occ, getLsbD_setBB, Bool.and_eq_true, decide_eq_true_iff,
    List.contains_iff_mem]
  constructor
  · rintro ⟨ht, hm⟩
    obtain ⟨j, hj, hf, hr, hcb⟩ := (mem_walk_iff B _ ho (a := 1) (b := 0) (Or.inr (Or.inr rfl))
      (Or.inr (Or.inl rfl)) (Or.inl (by decide)) s t (by omega) ht).mp hm
    have ht8 : t < 8 := by unfold rank at hr; omega
    have hst : s < t := by unfold file at hf; omega
    exact ⟨ht8, hst, (clearBetween_row_up B hs ht8 hst).mp hcb⟩
  · rintro ⟨ht8, hst, hc⟩
    refine ⟨by omega, ?_⟩
    apply (mem_walk_iff B _ ho (a := 1) (b := 0) (Or.inr (Or.inr rfl))
      (Or.inr (Or.inl rfl)) (Or.inl (by decide)) s t (by omega) (by omega)).mpr
    exact ⟨t - s, by omega, by unfold file; omega, by unfold rank; omega,
      (clearBetween_row_up B hs ht8 hst).mpr hc⟩

/-- `ray_w` from a back-rank square. -/
theorem rayW_row {B : Board} {occ : BB} (ho : OccRep B occ) {s : Nat} (hs : s < 8) (t : Nat) :
    (rayW s occ).getLsbD t = true ↔ t < s ∧ RowClear B t s := by
  rw [rayW_eq_walk s (by omega) occ, getLsbD_setBB, Bool.and_eq_true, decide_eq_true_iff,
    List.contains_iff_mem]
  constructor
  · rintro ⟨ht, hm⟩
    obtain ⟨j, hj, hf, hr, hcb⟩ := (mem_walk_iff B _ ho (a := -1) (b := 0) (Or.inl rfl)
      (Or.inr (Or.inl rfl)) (Or.inl (by decide)) s t (by omega) ht).mp hm
    have ht8 : t < 8 := by unfold rank at hr; omega
    have hst : t < s := by unfold file at hf; omega
    exact ⟨hst, (clearBetween_row_down B hs ht8 hst).mp hcb⟩
  · rintro ⟨hst, hc⟩
    refine ⟨by omega, ?_⟩
    apply (mem_walk_iff B _ ho (a := -1) (b := 0) (Or.inl rfl)
      (Or.inr (Or.inl rfl)) (Or.inl (by decide)) s t (by omega) (by omega)).mpr
    exact ⟨s - t, by omega, by unfold file; omega, by unfold rank; omega,
      (clearBetween_row_down B hs (by omega) hst).mpr hc⟩

/-- a rook-type attack along the back rank. -/
theorem orthAtt_row (B : Board) {s t : Nat} (hs : s < 8) (ht : t < 8) (hne : s ≠ t) :
    orthAtt B s t = true ↔ RowClear B (min s t) (max s t) := by
  rw [orthAtt_iff, aligned_orth]
  have hr : rank t - rank s = 0 := by unfold rank; omega
  rcases Nat.lt_or_gt_of_ne hne with h | h
  · rw [clearBetween_row_up B hs ht h, Nat.min_eq_left (Nat.le_of_lt h), Nat.max_eq_right (Nat.le_of_lt h)]
    exact ⟨fun h' => h'.2, fun h' => ⟨⟨hne, Or.inr hr⟩, h'⟩⟩
  · rw [clearBetween_row_down B hs ht h, Nat.min_eq_right (Nat.le_of_lt h), Nat.max_eq_left (Nat.le_of_lt h)]
    exact ⟨fun h' => h'.2, fun h' => ⟨⟨hne, Or.inr hr⟩, h'⟩⟩

/-- a bishop-type attack never runs along a rank. -/
theorem diagAtt_row (B : Board) {s t : Nat} (hs : s < 8) (ht : t < 8) : diagAtt B s t = false := by
  cases h : diagAtt B s t
  · rfl
  · rw [diagAtt_iff, aligned_diag] at h
    have : rank t - rank s = 0 := by unfold rank; omega
    have hf := h.1.2
    rw [this] at hf
    exfalso; apply h.1.1
    unfold file at hf; omega



/-! ### `hpinned` -/

theorem lsb_mem_of_isOcc {X : BB} (h : X.isOcc = true) : lsb X < 64 ∧ X.getLsbD (lsb X) = true := by
  obtain ⟨s, hs, hb⟩ := (isOcc_iff X).mp h
  have hm : s ∈ toList X := (mem_toList X s).mpr ⟨hs, hb⟩
  unfold lsb
  cases hl : toList X with
  | nil => rw [hl] at hm; cases hm
  | cons a l =>
    simp only [List.head?_cons, Option.getD_some]
    have : a ∈ toList X := by rw [hl]; exact List.mem_cons_self
    exact (mem_toList X a).mp this

/-- a set all of whose members equal `r`, containing `r`. -/
theorem lsb_eq_of_unique {X : BB} {r : Nat} (hr : r < 64) (hm : X.getLsbD r = true)
    (hu : ∀ t, t < 64 → X.getLsbD t = true → t = r) : X.isOcc = true ∧ lsb X = r := by
  have ho := (isOcc_iff X).mpr ⟨r, hr, hm⟩
  obtain ⟨h1, h2⟩ := lsb_mem_of_isOcc ho
  exact ⟨ho, hu _ h1 h2⟩

theorem pinStep_fst (rayFn : Nat → BB → BB) (ray us occ ch : BB) (acc : BB × BB) (r : Nat) :
    (pinStep rayFn ray us occ ch acc).1.getLsbD r =
      (acc.1.getLsbD r || ((ray &&& us).isOcc && (rayFn (lsb (ray &&& us)) occ &&& ch).isOcc &&
        (bit (lsb (ray &&& us))).getLsbD r)) := by
  unfold pinStep
  cases h1 : (ray &&& us).isOcc
  · simp
  · simp only [if_true]
    cases h2 : (rayFn (lsb (ray &&& us)) occ &&& ch).isOcc
    · simp
    · simp [BitVec.getLsbD_or]

theorem prelude_hpinned_eq (p : Position) :
    (prelude p).hpinned =
      (let us := p.c0
       let occ := p.occ
       let ksq := lsb (p.p5 &&& us)
       let themRQ := p.c1 &&& (p.p3 ||| p.p4)
       let orth := themRQ.isOcc
       let rE := if orth then rayE ksq occ else 0#64
       let rW := if orth then rayW ksq occ else 0#64
       (pinStep rayW rW us occ themRQ (pinStep rayE rE us occ themRQ (0#64, 0#64))).1) := rfl

/-- the enemy rooks and queens, as a set of the relative board. -/
def themRQ (p : Position) : BB := p.c1 &&& (p.p3 ||| p.p4)

theorem own_occupied {p : Position} (hC : Consistent p = true) {t : Nat} (ht : t < 64)
    (h : p.c0.getLsbD t = true) : relBoard p t ≠ none := by
  have := occRep_rel hC t ht
  unfold Position.occ at this
  rw [BitVec.getLsbD_or, h] at this
  intro e; rw [e] at this; simp at this

theorem them_occupied {p : Position} (hC : Consistent p = true) {t : Nat} (ht : t < 64)
    (h : p.c1.getLsbD t = true) : relBoard p t ≠ none := by
  have := occRep_rel hC t ht
  unfold Position.occ at this
  rw [BitVec.getLsbD_or, h] at this
  intro e; rw [e] at this; simp at this

/-- the castling rook is horizontally pinned iff an enemy rook or queen stands beyond it on the back
rank with nothing in between. -/
theorem hpinned_iff {p : Position} (hC : Consistent p = true) {k r : Nat}
    (hk : k = lsb (p.p5 &&& p.c0)) (hk8 : k < 8) (hr8 : r < 8) (hkr : k ≠ r)
    (hus : p.c0.getLsbD r = true)
    (hclear : RowClear (relBoard p) (min k r) (max k r)) :
    (prelude p).hpinned.isSet r = true ↔
      ∃ s, s < 8 ∧ (themRQ p).getLsbD s = true ∧
        (if k < r then r < s ∧ RowClear (relBoard p) r s else s < r ∧ RowClear (relBoard p) s r) := by
  have ho := occRep_rel hC
  rw [prelude_hpinned_eq]
  dsimp only
  rw [← hk]
  unfold BB.isSet
  rw [pinStep_fst, pinStep_fst]
  simp only [BitVec.getLsbD_zero, Bool.false_or, Bool.or_eq_true, Bool.and_eq_true, getLsbD_bit,
    decide_eq_true_eq]
  have hfold : p.c1 &&& (p.p3 ||| p.p4) = themRQ p := rfl
  rw [hfold]
  constructor
  · rintro (⟨⟨h1, h2⟩, _, h3⟩ | ⟨⟨h1, h2⟩, _, h3⟩)
    · -- east
      rw [← h3] at h2
      obtain ⟨_, hmem⟩ := lsb_mem_of_isOcc h1
      rw [← h3, BitVec.getLsbD_and, Bool.and_eq_true] at hmem
      have horth : (themRQ p).isOcc = true := by
        cases ho' : (themRQ p).isOcc
        · rw [ho'] at hmem; simp at hmem
        · rfl
      rw [horth, if_pos rfl] at hmem
      have hkr' := ((rayE_row ho hk8 r).mp hmem.1).2.1
      obtain ⟨s, hs, hb⟩ := (isOcc_iff _).mp h2
      rw [BitVec.getLsbD_and, Bool.and_eq_true] at hb
      obtain ⟨hs8, hrs, hc⟩ := (rayE_row ho hr8 s).mp hb.1
      exact ⟨s, hs8, hb.2, by rw [if_pos hkr']; exact ⟨hrs, hc⟩⟩
    · -- west
      rw [← h3] at h2
      obtain ⟨_, hmem⟩ := lsb_mem_of_isOcc h1
      rw [← h3, BitVec.getLsbD_and, Bool.and_eq_true] at hmem
      have horth : (themRQ p).isOcc = true := by
        cases ho' : (themRQ p).isOcc
        · rw [ho'] at hmem; simp at hmem
        · rfl
      rw [horth, if_pos rfl] at hmem
      have hkr' := ((rayW_row ho hk8 r).mp hmem.1).1
      obtain ⟨s, hs, hb⟩ := (isOcc_iff _).mp h2
      rw [BitVec.getLsbD_and, Bool.and_eq_true] at hb
      obtain ⟨hrs, hc⟩ := (rayW_row ho hr8 s).mp hb.1
      exact ⟨s, by omega, hb.2, by rw [if_neg (by omega)]; exact ⟨hrs, hc⟩⟩
  · rintro ⟨s, hs8, hrq, hgeo⟩
    have horth : (themRQ p).isOcc = true := (isOcc_iff _).mpr ⟨s, by omega, hrq⟩
    rw [horth]
    simp only [if_true]
    have hBr : relBoard p r ≠ none := own_occupied hC (by omega) hus
    by_cases hlt : k < r
    · rw [if_pos hlt] at hgeo
      rw [Nat.min_eq_left (Nat.le_of_lt hlt), Nat.max_eq_right (Nat.le_of_lt hlt)] at hclear
      left
      have hmem : (rayE k p.occ &&& p.c0).getLsbD r = true := by
        rw [BitVec.getLsbD_and, hus, Bool.and_true]
        exact (rayE_row ho hk8 r).mpr ⟨hr8, hlt, hclear⟩
      have huniq : ∀ t, t < 64 → (rayE k p.occ &&& p.c0).getLsbD t = true → t = r := by
        intro t ht hb
        rw [BitVec.getLsbD_and, Bool.and_eq_true] at hb
        obtain ⟨ht8, hkt, hc⟩ := (rayE_row ho hk8 t).mp hb.1
        have hBt : relBoard p t ≠ none := own_occupied hC ht hb.2
        rcases Nat.lt_trichotomy t r with h | h | h
        · exact absurd (hclear t hkt h) hBt
        · exact h
        · exact absurd (hc r hlt h) hBr
      obtain ⟨hocc, hl⟩ := lsb_eq_of_unique (by omega) hmem huniq
      refine ⟨⟨hocc, ?_⟩, by omega, hl.symm⟩
      rw [hl]
      exact (isOcc_iff _).mpr ⟨s, by omega, by
        rw [BitVec.getLsbD_and, hrq, Bool.and_true]
        exact (rayE_row ho hr8 s).mpr ⟨hs8, hgeo.1, hgeo.2⟩⟩
    · rw [if_neg hlt] at hgeo
      have hlt' : r < k := by omega
      rw [Nat.min_eq_right (Nat.le_of_lt hlt'), Nat.max_eq_left (Nat.le_of_lt hlt')] at hclear
      right
      have hmem : (rayW k p.occ &&& p.c0).getLsbD r = true := by
        rw [BitVec.getLsbD_and, hus, Bool.and_true]
        exact (rayW_row ho hk8 r).mpr ⟨hlt', hclear⟩
      have huniq : ∀ t, t < 64 → (rayW k p.occ &&& p.c0).getLsbD t = true → t = r := by
        intro t ht hb
        rw [BitVec.getLsbD_and, Bool.and_eq_true] at hb
        obtain ⟨hkt, hc⟩ := (rayW_row ho hk8 t).mp hb.1
        have hBt : relBoard p t ≠ none := own_occupied hC ht hb.2
        rcases Nat.lt_trichotomy t r with h | h | h
        · exact absurd (hc r h hlt') hBr
        · exact h
        · exact absurd (hclear t h hkt) hBt
      obtain ⟨hocc, hl⟩ := lsb_eq_of_unique (by omega) hmem huniq
      refine ⟨⟨hocc, ?_⟩, by omega, hl.symm⟩
      rw [hl]
      exact (isOcc_iff _).mpr ⟨s, by omega, by
        rw [BitVec.getLsbD_and, hrq, Bool.and_true]
        exact (rayW_row ho hr8 s).mpr ⟨hgeo.1, hgeo.2⟩⟩

end Rawr.Att
