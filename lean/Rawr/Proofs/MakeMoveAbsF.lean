import Rawr.Proofs.MakeMoveAbsE
import Rawr.Proofs.MakeMoveAbsHash
/-! C02 assembled: from `ValidPos p` and the move shape to totality of `makemove`, the refinement of
`Spec.apply`, board consistency of the result, and independence of the `UPDATE_HASH` flag. -/
namespace Rawr.MM
open Rawr Rawr.Position Rawr.Spec Rawr.ZH Rawr.SV

/-- the pawn geometry `MoveShape` does not state: a pawn advances one rank, or two ranks straight. -/
def PawnGeom (p : Position) (m : Mv) : Bool :=
  !(p.pieceOn m.src == some 0) || rankOf m.dst == rankOf m.src + 1 || m.dst == m.src + 16

/-- `MoveShape` plus the pawn geometry: what (1) of C02 needs of a move. -/
def MoveShape2 (p : Position) (m : Mv) : Bool := MoveShape p m && PawnGeom p m

theorem consistent_flip {S : Position} (h : Consistent S = true) : Consistent S.flip = true := by
  have hz : ∀ a b : BB, ((a &&& b) == 0#64) = true → ((flipBB a &&& flipBB b) == 0#64) = true := by
    intro a b e
    rw [beq_iff_eq] at e ⊢
    rw [← ZH.flipBB_and, e]
    decide
  simp only [Consistent, Bool.and_eq_true] at h
  obtain ⟨⟨⟨⟨⟨⟨⟨⟨⟨⟨⟨⟨⟨⟨⟨⟨h0, h1⟩, h2⟩, h3⟩, h4⟩, h5⟩, h6⟩, h7⟩, h8⟩, h9⟩, h10⟩, h11⟩, h12⟩, h13⟩, h14⟩, h15⟩, h16⟩ := h
  have h0' : ((flipBB S.c1 &&& flipBB S.c0) == 0#64) = true := by
    apply hz
    rw [BitVec.and_comm]; exact h0
  have h16' : ((flipBB S.c1 ||| flipBB S.c0) ==
      (flipBB S.p0 ||| flipBB S.p1 ||| flipBB S.p2 ||| flipBB S.p3 ||| flipBB S.p4 ||| flipBB S.p5)) = true := by
    rw [beq_iff_eq] at h16 ⊢
    simp only [← flipBB_or_distrib]
    rw [BitVec.or_comm, h16]
  simp only [Consistent, flip_c0, flip_c1, flip_p0, flip_p1, flip_p2, flip_p3, flip_p4, flip_p5, h0', h16',
    hz _ _ h1, hz _ _ h2, hz _ _ h3, hz _ _ h4, hz _ _ h5, hz _ _ h6, hz _ _ h7, hz _ _ h8, hz _ _ h9,
    hz _ _ h10, hz _ _ h11, hz _ _ h12, hz _ _ h13, hz _ _ h14, hz _ _ h15, Bool.and_self]

theorem consistent_full {S : Position} (h : Consistent S = true) : Consistent (stFull S) = true := by
  unfold stFull
  split
  · exact h
  · exact h

/-- what one `makemove` guarantees (given the key `h` that ends up stored). -/
structure StepOut (p : Position) (m : Mv) (h : BB) (q : Position) : Prop where
  refines : PawnGeom p m = true → AbsEq (abs q) (Spec.apply (abs p) (decodeMove p m))
  consistent : Consistent q = true
  hash : q.hash = h
  cf : q.cf0 = p.cf2 ∧ q.cf1 = p.cf3 ∧ q.cf2 = p.cf0 ∧ q.cf3 = p.cf1 ∧ q.frc = p.frc

theorem stepOut_of {p : Position} {m : Mv} {i : Nat} {h : BB} {d0 d1 : BB} {dP : Nat → BB} {hm : Int}
    {S : Position} (R : Res p m i h d0 d1 dP hm S) (hC : Consistent S = true)
    (hr : PawnGeom p m = true → AbsEq (abs (stFull S).flip) (Spec.apply (abs p) (decodeMove p m))) :
    StepOut p m h (stFull S).flip := by
  obtain ⟨_, _, _, _, _, _, _, _, _, _, hcf, hh, _⟩ := full_fields S
  obtain ⟨e0, e1, e2, e3, e4⟩ := cfs_eq (hcf.trans R.cf)
  exact ⟨hr, consistent_flip (consistent_full hC), hh.trans R.hash, e2, e3, e0, e1, e4⟩

/-- the core: for every stored key `h`, the part of `makemove` after the look-ups succeeds and refines
the specification. -/
theorem main_from {p : Position} {m : Mv} (hV : ValidPos p = true) (hm : MoveShape p m = true)
    {i : Nat} (hpo : p.pieceOn m.src = some i) (h : BB) :
    ∃ q, mmFrom p m i h = some q ∧ StepOut p m h q := by
  obtain ⟨hC, _, c0, c1, c2, c3, _⟩ := valid_unpack hV
  have kh := keyHyps_of_valid hV
  have kh' := kh
  simp only [KeyHyps, Bool.and_eq_true, Bool.or_eq_true, Bool.not_eq_true', decide_eq_true_eq, BB.isSet,
    BitVec.getLsbD_and] at kh'
  obtain ⟨⟨⟨⟨⟨_, _⟩, bK⟩, bQ⟩, _⟩, _⟩ := kh'
  unfold MoveShape at hm
  rw [hpo] at hm
  simp only [Bool.and_eq_true, decide_eq_true_eq, BB.isSet] at hm
  obtain ⟨⟨⟨hs, hd⟩, h0s⟩, hrest⟩ := hm
  by_cases h0d : p.c0.getLsbD m.dst = true
  · -- castling
    rw [if_pos h0d] at hrest
    simp only [Bool.and_eq_true, beq_iff_eq] at hrest
    obtain ⟨⟨hi5, hpr⟩, hside⟩ := hrest
    subst hi5
    have hdec : ∀ ks : Bool, decide (m.dst > m.src) = ks → decodeMove p m = .castle ks := by
      intro ks e
      unfold decodeMove
      rw [BB.isSet, h0d, if_pos rfl, e]
    by_cases hK : p.usK = true ∧ m.dst = fromCoords p.cf0 0
    · rw [if_pos hK] at hside
      simp only [Bool.and_eq_true, decide_eq_true_eq] at hside
      obtain ⟨⟨hlt, e6⟩, e5⟩ := hside
      obtain ⟨hu, hdst⟩ := hK
      have hrook : p.pieceOn m.dst = some 3 := by
        rcases bK with b | b
        · rw [hu] at b; cases b
        · rw [← hdst] at b; exact rook_piece hC b.2
      have f : CFacts p m 6 5 := ⟨hC, hs, hd, by omega, by omega, by omega, hpo, hrook, h0s, h0d,
        emptyOr_cases e6, emptyOr_cases e5⟩
      obtain ⟨S, hq, R⟩ := castleK_result f hpr hdst.symm hlt h
      have hd8 : m.dst = p.cf0 := by rw [hdst]; simp [fromCoords]
      have hfd : fileOf m.dst = p.cf0 := by unfold fileOf; omega
      refine ⟨_, hq, stepOut_of R (c_consistent f R) (fun _ => ?_)⟩
      rw [hdec true (by simpa using hlt)]
      exact c_refines hV f true rfl rfl (by simp [optR, hu, hfd]) (by omega) R
    · rw [if_neg hK] at hside
      simp only [Bool.and_eq_true, decide_eq_true_eq, beq_iff_eq] at hside
      obtain ⟨⟨⟨⟨hu, hdst⟩, hlt⟩, e2⟩, e3⟩ := hside
      have hrook : p.pieceOn m.dst = some 3 := by
        rcases bQ with b | b
        · rw [hu] at b; cases b
        · rw [← hdst] at b; exact rook_piece hC b.2
      have f : CFacts p m 2 3 := ⟨hC, hs, hd, by omega, by omega, by omega, hpo, hrook, h0s, h0d,
        emptyOr_cases e2, emptyOr_cases e3⟩
      obtain ⟨S, hq, R⟩ := castleQ_result f hpr hdst.symm hlt h
      have hd8 : m.dst = p.cf1 := by rw [hdst]; simp [fromCoords]
      have hfd : fileOf m.dst = p.cf1 := by unfold fileOf; omega
      refine ⟨_, hq, stepOut_of R (c_consistent f R) (fun _ => ?_)⟩
      rw [hdec false (by simp; omega)]
      exact c_refines hV f false rfl rfl (by simp [optR, hu, hfd]) (by omega) R
  · -- every other move
    have h0d' : p.c0.getLsbD m.dst = false := by simpa using h0d
    rw [if_neg h0d] at hrest
    simp only [Bool.and_eq_true, Bool.or_eq_true, Bool.not_eq_true', beq_iff_eq, decide_eq_true_eq] at hrest
    obtain ⟨hep, hpromo⟩ := hrest
    have f : NCFacts p m i ((p.pieceOn m.dst).getD 0) (p.c1.getLsbD m.dst)
        (i == 0 && fileOf m.src != fileOf m.dst && (p.pieceOn m.dst).isNone) (m.promo != 6) := by
      refine ⟨hC, hs, hd, hpo, h0s, h0d', rfl, ?_, ?_, ?_, ?_⟩
      · intro hc
        have := occ_bit hC m.dst
        rw [h0d', hc] at this
        cases hp : p.pieceOn m.dst with
        | none => rw [hp] at this; cases this
        | some c => rfl
      · intro hc
        exact empty_piece hC h0d' hc
      · intro he
        rcases hep with hep | hep
        · rw [he] at hep; cases hep
        · obtain ⟨⟨⟨_, h8⟩, hpawn⟩, _⟩ := hep
          simp only [BitVec.getLsbD_and, Bool.and_eq_true] at hpawn
          exact ⟨h8, hpawn.1, pawn_piece hC hpawn.2⟩
      · intro hp
        rcases hpromo with hp6 | hp6
        · rw [hp6] at hp; cases hp
        · exact hp6.1
    have hepE : (i == 0 && fileOf m.src != fileOf m.dst && (p.pieceOn m.dst).isNone) = true →
        p.ep = some m.dst := by
      intro he
      rcases hep with hep | hep
      · rw [he] at hep; cases hep
      · exact hep.1.1.1
    have hp6 : (m.promo != 6) = true → m.promo < 6 := by
      intro hp
      rcases hpromo with hp6 | hp6
      · rw [hp6] at hp; cases hp
      · exact hp6.2
    obtain ⟨S, hq, R⟩ := nc_result f rfl rfl hepE hp6 h
    refine ⟨_, hq, stepOut_of R (nc_consistent f hp6 R) (fun hG => ?_)⟩
    have hG' : i = 0 → rankOf m.dst = rankOf m.src + 1 ∨ m.dst = m.src + 16 := by
      intro h0
      unfold PawnGeom at hG
      rw [hpo, h0] at hG
      simpa using hG
    have : decodeMove p m = .normal (absSq p.black m.src) (absSq p.black m.dst)
        (if (m.promo == 6) = true then none else some (kindOf m.promo)) := by
      unfold decodeMove
      rw [BB.isSet, h0d']
      rfl
    rw [this]
    exact nc_refines hV f rfl rfl hp6 hG' R

theorem shape_piece {p : Position} {m : Mv} (hm : MoveShape p m = true) : ∃ i, p.pieceOn m.src = some i := by
  unfold MoveShape at hm
  cases hpo : p.pieceOn m.src with
  | none => rw [hpo] at hm; simp at hm
  | some i => exact ⟨i, rfl⟩

/-- `predict_hash` does not fail on a shaped move. -/
theorem predict_some {p : Position} {m : Mv} (hV : ValidPos p = true) (hm : MoveShape p m = true) :
    ∃ h, p.predictHash m = some h := by
  have kh := keyHyps_of_valid hV
  obtain ⟨i, hpo⟩ := shape_piece hm
  obtain ⟨q, hq, _⟩ := main_from hV hm hpo p.hash
  have hq' : p.makemove m false = some q := by
    rw [makemove_eq_staged, mmStaged_eq, hpo]
    simpa using hq
  obtain ⟨_, _, _, Δ, h1, _⟩ := makemove_step genKeys kh hm hq'
  exact ⟨_, h1⟩

/-- `makemove` on a shaped move of a valid position, with either flag. -/
theorem makemove_out {p : Position} {m : Mv} (hV : ValidPos p = true) (hm : MoveShape p m = true) (u : Bool) :
    ∃ h q, (if u = true then p.predictHash m else some p.hash) = some h ∧ p.makemove m u = some q ∧
      StepOut p m h q := by
  obtain ⟨i, hpo⟩ := shape_piece hm
  obtain ⟨h0, hh⟩ := predict_some hV hm
  cases u
  · obtain ⟨q, hq, so⟩ := main_from hV hm hpo p.hash
    refine ⟨p.hash, q, rfl, ?_, so⟩
    rw [makemove_eq_staged, mmStaged_eq, hpo]
    simpa using hq
  · obtain ⟨q, hq, so⟩ := main_from hV hm hpo h0
    refine ⟨h0, q, by simpa using hh, ?_, so⟩
    rw [makemove_eq_staged, mmStaged_eq, hpo]
    simp only [if_true, hh]
    simpa using hq

/-- the two instantiations of `makemove` agree on every field but the stored key. -/
theorem makemove_flag {p : Position} {m : Mv} {q1 q2 : Position}
    (h1 : p.makemove m true = some q1) (h2 : p.makemove m false = some q2) : wh q1 q2.hash = q2 := by
  rw [makemove_eq_staged, mmStaged_eq] at h1 h2
  cases hpo : p.pieceOn m.src with
  | none => rw [hpo] at h1; cases h1
  | some i =>
    rw [hpo] at h1 h2
    simp only [Option.bind_eq_bind, Option.bind_some, Option.pure_def, if_true, Bool.false_eq_true, if_false] at h1 h2
    cases hh : p.predictHash m with
    | none => rw [hh] at h1; cases h1
    | some h =>
      rw [hh] at h1
      simp only [Option.bind_some] at h1
      rw [mmFrom_wh p m i p.hash h, h1] at h2
      simp only [Option.map_some, Option.some.injEq] at h2
      rw [← h2]
      rfl

end Rawr.MM
