import Rawr.Proofs.MagicCheck
/-! C10 table check, part 11 of 16: 6560 rows, each one evaluated by the kernel.
The partition into modules balances row counts and depends on board geometry only; the statements do
not mention any table content, so a changed table or magic makes these proofs fail. -/
namespace Rawr.MagicTable
theorem bishop_1 : checkB 1 = true := by decide +kernel
theorem bishop_10 : checkB 10 = true := by decide +kernel
theorem bishop_18 : checkB 18 = true := by decide +kernel
theorem bishop_22 : checkB 22 = true := by decide +kernel
theorem bishop_38 : checkB 38 = true := by decide +kernel
theorem bishop_42 : checkB 42 = true := by decide +kernel
theorem bishop_50 : checkB 50 = true := by decide +kernel
theorem rook_5 : checkR 5 = true := by decide +kernel
theorem rook_19 : checkR 19 = true := by decide +kernel
theorem rook_41 : checkR 41 = true := by decide +kernel
theorem rook_48 : checkR 48 = true := by decide +kernel
end Rawr.MagicTable
