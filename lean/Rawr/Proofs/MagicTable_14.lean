import Rawr.Proofs.MagicCheck
/-! C10 table check, part 14 of 16: 6528 rows, each one evaluated by the kernel.
The partition into modules balances row counts and depends on board geometry only; the statements do
not mention any table content, so a changed table or magic makes these proofs fail. -/
namespace Rawr.MagicTable
theorem bishop_6 : checkB 6 = true := by decide +kernel
theorem bishop_7 : checkB 7 = true := by decide +kernel
theorem bishop_15 : checkB 15 = true := by decide +kernel
theorem bishop_29 : checkB 29 = true := by decide +kernel
theorem bishop_31 : checkB 31 = true := by decide +kernel
theorem bishop_47 : checkB 47 = true := by decide +kernel
theorem bishop_55 : checkB 55 = true := by decide +kernel
theorem bishop_60 : checkB 60 = true := by decide +kernel
theorem rook_2 : checkR 2 = true := by decide +kernel
theorem rook_14 : checkR 14 = true := by decide +kernel
theorem rook_36 : checkR 36 = true := by decide +kernel
theorem rook_39 : checkR 39 = true := by decide +kernel
end Rawr.MagicTable
