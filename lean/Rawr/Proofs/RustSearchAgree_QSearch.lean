import Rawr.Proofs.RustImpAgree_Eval
import Rawr.Proofs.RustSearchAgree_Sort
import Rawr.Proofs.RustImpAgree_MakeMove
import Rawr.Proofs.RustImpAgree_MoveGen
/-!
# Agreement for qsearch.rs

`R.qsearch` (regenerated from qsearch.rs) is the model's `qsearch`, fuel for fuel, on every position from which the
move ordering cannot hit `piece.unwrap()` on an empty origin square within the tree the search walks
(`QOrderOk fuel p` for quiescence, `OrderOkN fuel p` for the main search, see `RustSearchAgree_Sort.lean`).
Both are defined by recursion on the fuel along exactly the steps the search makes: quiescence plays generated
captures with `makemove::<false>`; the main search plays generated moves with `makemove::<true>`, tries a null move
only when not in check, and drops into quiescence with the constant fuel `qFuel`.
`RustSearchAgree_Rules.lean` proves both for every valid position with counter room.
-/
namespace Rawr

/-- the ordering code of quiescence cannot panic in the first `n` plies below `q`. -/
def QOrderOk : Nat → Position → Prop
  | 0, _ => True
  | n + 1, q => SrcOk q (legalMoves q) ∧
      ∀ m ∈ legalCaptures q, ∀ r, q.makemove m false = some r → QOrderOk n r

/-- the ordering code of the main search and of the quiescence it calls cannot panic in the first `n` plies below `q`. -/
def OrderOkN : Nat → Position → Prop
  | 0, _ => True
  | n + 1, q => SrcOk q (legalMoves q) ∧ QOrderOk qFuel q ∧
      (∀ m ∈ legalMoves q, ∀ r, q.makemove m true = some r → OrderOkN n r) ∧
      (q.inCheck = false → OrderOkN n q.makenull)

/-- positions reachable in exactly `k` plies of the main search: generated moves, null moves when not in check. -/
inductive ReachN : Nat → Position → Position → Prop
  | refl (p : Position) : ReachN 0 p p
  | move {k : Nat} {p q r : Position} {m : Mv} : m ∈ legalMoves p → p.makemove m true = some q → ReachN k q r →
      ReachN (k + 1) p r
  | null {k : Nat} {p r : Position} : p.inCheck = false → ReachN k p.makenull r → ReachN (k + 1) p r

/-- what `OrderOkN` says in terms of reachability. -/
theorem OrderOkN.reach {n : Nat} {p : Position} (h : OrderOkN n p) {k : Nat} {q : Position} (hr : ReachN k p q)
    (hk : k < n) : SrcOk q (legalMoves q) ∧ QOrderOk qFuel q := by
  induction hr generalizing n with
  | refl p =>
    cases n with
    | zero => omega
    | succ n => exact ⟨h.1, h.2.1⟩
  | move hm hmk _ ih =>
    cases n with
    | zero => omega
    | succ n => exact ih (h.2.2.1 _ hm _ hmk) (by omega)
  | null hc _ ih =>
    cases n with
    | zero => omega
    | succ n => exact ih (h.2.2.2 hc) (by omega)

theorem legalCaptures_sub (p : Position) : ∀ m ∈ legalCaptures p, m ∈ legalMoves p := by
  intro m hm
  unfold legalCaptures at hm
  unfold legalMoves
  obtain ⟨g, hg, rfl⟩ := List.mem_map.mp hm
  exact List.mem_map.mpr ⟨g, (List.mem_filter.mp hg).1, rfl⟩

theorem SrcOk.sub {p : Position} {l l' : List Mv} (h : SrcOk p l) (hs : ∀ m ∈ l', m ∈ l) : SrcOk p l' :=
  fun m hm => h m (hs m hm)

/-- the move loop: the regenerated loop returns `(stats, best_score, alpha)`, the model's `(best, st)`. -/
theorem qloop_eq (recR recM : Position → QState → Int → Int → Int → Option (Int × QState)) (p : Position) (beta ply : Int) :
    ∀ (ms : List Mv), (∀ m ∈ ms, ∀ np, p.makemove m false = some np → recR np = recM np) →
    ∀ (st : QState) (best alpha : Int),
      (R.qsearch_loop1 recR p beta ply ms st best alpha).map (fun x => (x.2.1, x.1)) = qloop recM p beta ply ms st alpha best := by
  intro ms
  induction ms with
  | nil => intro _ st best alpha; rfl
  | cons m ms ih =>
    intro hrec st best alpha
    unfold R.qsearch_loop1 qloop
    simp only [agree_after_move]
    cases hm : p.makemove m false with
    | none => rfl
    | some np =>
      simp only [hrec m (by simp) np hm]
      cases hr : recM np { st with nodes := st.nodes + 1 } (-beta) (-alpha) (ply + 1) with
      | none => rfl
      | some r =>
        rcases r with ⟨sc, st'⟩
        simp only
        generalize (if -sc > best then -sc else best) = best'
        generalize (if -sc > alpha then -sc else alpha) = alpha'
        by_cases hge : alpha' ≥ beta
        · simp only [hge, if_true]; rfl
        · simp only [hge, if_false]
          exact ih (fun m' hm' => hrec m' (by simp [hm'])) _ _ _

theorem agree_qsearch : ∀ (fuel : Nat) (p : Position), QOrderOk fuel p → ∀ (st : QState) (alpha beta ply : Int),
    R.qsearch fuel p st alpha beta ply = qsearch fuel p st alpha beta ply := by
  intro fuel
  induction fuel with
  | zero => intro p _ st a b ply; rfl
  | succ fuel ih =>
    intro p hok st alpha beta ply
    unfold R.qsearch qsearch
    simp only [agree_eval, agree_legal_captures]
    rw [agree_qs_sort p _ (hok.1.sub (legalCaptures_sub p))]
    by_cases hge : eval p ≥ beta
    · simp only [hge, if_true]
    · simp only [hge, if_false]
      cases hs : sortQs p (legalCaptures p) with
      | none => rfl
      | some moves =>
        simp only
        have hperm := sortQs_perm p _ _ hs
        rw [← qloop_eq (R.qsearch fuel) (qsearch fuel) p beta ply moves (fun m hm np hk => by
          funext st a b pl
          exact ih np (hok.2 m (hperm.mem_iff.mp hm) np hk) st a b pl)]
        cases R.qsearch_loop1 (R.qsearch fuel) p beta ply moves _ _ _ with
        | none => rfl
        | some v => rcases v with ⟨s, b, a⟩; rfl

/-! non-vacuity: the regenerated quiescence computes (start position: stand pat 0, no captures) -/
example : (R.qsearch 2 Gen.startpos ⟨0, 0⟩ (-100) 100 0).map (·.1) = some 0 := by decide +kernel

end Rawr

#print axioms Rawr.agree_qsearch
