import Rawr.Proofs.RustSearchAgree_Sort
import Rawr.Proofs.RustImpAgree_MakeMove
import Rawr.Proofs.RustImpAgree_MoveGen
/-!
# Agreement for qsearch.rs

`R.qsearch` (regenerated from qsearch.rs) is the model's `qsearch`, fuel for fuel, on every position from which the
move ordering cannot hit `piece.unwrap()` on an empty origin square (`OrderOk`, see `RustSearchAgree_Sort.lean`; it
quantifies over the positions reachable by generated moves and null moves, so it is closed under the recursion).
-/
namespace Rawr

/-- positions reachable by generated moves (with or without hash update) and null moves. -/
inductive Reach : Position → Position → Prop
  | refl (p : Position) : Reach p p
  | move {p q r : Position} {m : Mv} {b : Bool} : Reach p q → m ∈ legalMoves q → q.makemove m b = some r → Reach p r
  | null {p q : Position} : Reach p q → Reach p q.makenull

/-- in every position reachable from `p` each generated capture starts from an occupied square. -/
def OrderOk (p : Position) : Prop := ∀ q, Reach p q → SrcOk q (legalMoves q)

theorem Reach.trans {p q r : Position} (h1 : Reach p q) (h2 : Reach q r) : Reach p r := by
  induction h2 with
  | refl => exact h1
  | move _ hm hk ih => exact Reach.move ih hm hk
  | null _ ih => exact Reach.null ih

theorem OrderOk.here {p : Position} (h : OrderOk p) : SrcOk p (legalMoves p) := h p (Reach.refl p)
theorem OrderOk.move {p r : Position} {m : Mv} {b : Bool} (h : OrderOk p) (hm : m ∈ legalMoves p)
    (hk : p.makemove m b = some r) : OrderOk r :=
  fun q hq => h q (Reach.trans (Reach.move (Reach.refl p) hm hk) hq)
theorem OrderOk.null {p : Position} (h : OrderOk p) : OrderOk p.makenull :=
  fun q hq => h q (Reach.trans (Reach.null (Reach.refl p)) hq)

theorem legalCaptures_sub (p : Position) : ∀ m ∈ legalCaptures p, m ∈ legalMoves p := by
  intro m hm
  unfold legalCaptures at hm
  unfold legalMoves
  obtain ⟨g, hg, rfl⟩ := List.mem_map.mp hm
  exact List.mem_map.mpr ⟨g, (List.mem_filter.mp hg).1, rfl⟩

theorem SrcOk.sub {p : Position} {l l' : List Mv} (h : SrcOk p l) (hs : ∀ m ∈ l', m ∈ l) : SrcOk p l' :=
  fun m hm => h m (hs m hm)

/-- the move loop: the regenerated loop returns `(stats, best_score, alpha)`, the model's `(best, st)`. -/
theorem qloop_eq (recR recM : Position → QState → Int → Int → Int → Option (Int × QState)) (p : Position) (beta ply : Int) :
    ∀ (ms : List Mv), (∀ m ∈ ms, ∀ np, p.makemove m false = some np → recR np = recM np) →
    ∀ (st : QState) (best alpha : Int),
      (R.qsearch_loop1 recR p beta ply ms st best alpha).map (fun x => (x.2.1, x.1)) = qloop recM p beta ply ms st alpha best := by
  intro ms
  induction ms with
  | nil => intro _ st best alpha; rfl
  | cons m ms ih =>
    intro hrec st best alpha
    unfold R.qsearch_loop1 qloop
    simp only [agree_after_move]
    cases hm : p.makemove m false with
    | none => rfl
    | some np =>
      simp only [hrec m (by simp) np hm]
      cases hr : recM np { st with nodes := st.nodes + 1 } (-beta) (-alpha) (ply + 1) with
      | none => rfl
      | some r =>
        rcases r with ⟨sc, st'⟩
        simp only
        generalize (if -sc > best then -sc else best) = best'
        generalize (if -sc > alpha then -sc else alpha) = alpha'
        by_cases hge : alpha' ≥ beta
        · simp only [hge, if_true]; rfl
        · simp only [hge, if_false]
          exact ih (fun m' hm' => hrec m' (by simp [hm'])) _ _ _

theorem agree_qsearch : ∀ (fuel : Nat) (p : Position), OrderOk p → ∀ (st : QState) (alpha beta ply : Int),
    R.qsearch fuel p st alpha beta ply = qsearch fuel p st alpha beta ply := by
  intro fuel
  induction fuel with
  | zero => intro p _ st a b ply; rfl
  | succ fuel ih =>
    intro p hok st alpha beta ply
    unfold R.qsearch qsearch
    simp only [agree_eval, agree_legal_captures]
    rw [agree_qs_sort p _ (hok.here.sub (legalCaptures_sub p))]
    by_cases hge : eval p ≥ beta
    · simp only [hge, if_true]
    · simp only [hge, if_false]
      cases hs : sortQs p (legalCaptures p) with
      | none => rfl
      | some moves =>
        simp only
        have hperm := sortQs_perm p _ _ hs
        rw [← qloop_eq (R.qsearch fuel) (qsearch fuel) p beta ply moves (fun m hm np hk => by
          funext st a b pl
          exact ih np (hok.move (legalCaptures_sub p m (hperm.mem_iff.mp hm)) hk) st a b pl)]
        cases R.qsearch_loop1 (R.qsearch fuel) p beta ply moves _ _ _ with
        | none => rfl
        | some v => rcases v with ⟨s, b, a⟩; rfl

/-! non-vacuity: the regenerated quiescence computes (start position: stand pat 0, no captures) -/
example : (R.qsearch 2 Gen.startpos ⟨0, 0⟩ (-100) 100 0).map (·.1) = some 0 := by decide +kernel

end Rawr

#print axioms Rawr.agree_qsearch
