import Rawr.Proofs.SpecSanityPerftDefs
/-! perft of `kiwipete`, depth 2, slice 0: the subtrees of 12 first moves (kernel-evaluated). -/
namespace Rawr.SpecS
open Rawr.Spec

theorem kiwi2_0 :
    (([.normal 0 1 none, .normal 0 2 none, .normal 0 3 none, .normal 4 3 none, .normal 4 5 none,
      .normal 7 5 none, .normal 7 6 none, .normal 8 16 none, .normal 8 24 none,
      .normal 9 17 none, .normal 11 2 none, .normal 11 20 none] : List Move).map
      fun m => leaves (apply kiwipete m) 1).sum = 517 := by decide +kernel

end Rawr.SpecS
