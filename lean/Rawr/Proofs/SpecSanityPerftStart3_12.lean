import Rawr.Proofs.SpecSanityPerftDefs
/-! perft of the start position, depth 3, slice 12: the subtree of first move `.normal 12 20 none` (kernel-evaluated). -/
namespace Rawr.SpecS
open Rawr.Spec

theorem start3_12 : leaves (apply stdStart (.normal 12 20 none)) 2 = 599 := by decide +kernel

end Rawr.SpecS
