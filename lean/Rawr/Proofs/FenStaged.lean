import Rawr.Model.Fen
/-! `set_fen` as a pipeline of named stages (`setFenStaged`), proved equal to the model's `setFenCore`,
and the decomposition of an accepting run. Used by C07 (soundness and completeness) and C06. -/
namespace Rawr
open Position
set_option linter.unusedSimpArgs false

def fenSide (sidePart : List Char) : Option Bool :=
  if sidePart == ['w'] || sidePart == ['W'] then some false
  else if sidePart == ['b'] || sidePart == ['B'] then some true else none

def fenCastlePart (part : Option (List Char)) (p : Position) : Option Position :=
  match part with
  | none => some p
  | some part => fenCastling part [] p

def fenEp (ar : Arith) (epPart : List Char) : Option (Option Nat) :=
  if epPart == ['-'] then some none
  else if strLen epPart == 2 then
    match epPart with
    | [c1, c2] => do
      let file ← u8sub ar (asU8 c1) (asU8 'a')
      let rank ← u8sub ar (asU8 c2) (asU8 '1')
      let r8 ← u8mul ar 8 rank
      let idx ← u8add ar r8 file
      some (some idx)
    | _ => none
  else none

def fenFinish (ar : Arith) (p : Position) (hm fm : Int) (shouldFlip : Bool) : Option Position :=
  let p := { p with halfmoves := hm, fullmoves := fm }
  let p := if shouldFlip then { p.flip with black := true } else p
  let p := { p with hash := p.calculateHash }
  if validateAr ar p then some p else none

theorem ep_stage {α} (ar : Arith) (epPart : List Char) (p : Position) (k : Position → Option α) :
    ((if epPart == ['-'] then some { p with ep := none }
      else if strLen epPart == 2 then
        match epPart with
        | [c1, c2] =>
          (u8sub ar (asU8 c1) (asU8 'a')).bind fun file =>
          (u8sub ar (asU8 c2) (asU8 '1')).bind fun rank =>
          (u8mul ar 8 rank).bind fun r8 =>
          (u8add ar r8 file).bind fun idx =>
          some { p with ep := some idx }
        | _ => none
      else none).bind k) = (fenEp ar epPart).bind fun ep => k { p with ep := ep } := by
  unfold fenEp
  split
  · rfl
  split
  · split
    · simp only [Option.bind_eq_bind, Option.pure_def, bind, pure]
      rcases u8sub ar (asU8 _) (asU8 'a') with _ | a
      · rfl
      simp only [Option.bind_some]
      rcases u8sub ar (asU8 _) (asU8 '1') with _ | b
      · rfl
      simp only [Option.bind_some]
      rcases u8mul ar 8 b with _ | c
      · rfl
      simp only [Option.bind_some]
      rcases u8add ar c a with _ | d
      · rfl
      rfl
    · rfl
  · rfl

def setFenStaged (ar : Arith) (frc : Bool) (fen : List Char) : Option Position :=
  let parts := splitSpace fen
  (fenBoard ar (parts.headD []) { Position.dflt with frc := frc } 0).bind fun r =>
  if r.2 != 64 then none else
  parts[1]?.bind fun sidePart =>
  (fenSide sidePart).bind fun flip =>
  if (r.1.c0 &&& r.1.p5).isEmpty || (r.1.c1 &&& r.1.p5).isEmpty then none else
  (fenCastlePart parts[2]? r.1).bind fun pc =>
  parts[3]?.bind fun epPart =>
  (fenEp ar epPart).bind fun ep =>
  parts[4]?.bind fun hmPart =>
  (parseI32 hmPart).bind fun hm =>
  if hm < 0 then none else
  parts[5]?.bind fun fmPart =>
  (parseI32 fmPart).bind fun fm =>
  if fm < 0 then none else
  if parts.length > 6 then none else
  fenFinish ar { pc with ep := ep } hm fm flip

theorem setFenCore_eq_staged (ar frc fen) : setFenCore ar frc fen = setFenStaged ar frc fen := by
  unfold setFenCore setFenStaged
  simp only [Option.bind_eq_bind, Option.pure_def, bind, pure]
  rcases fenBoard ar ((splitSpace fen).headD []) { Position.dflt with frc := frc } 0 with _ | ⟨pb, idx⟩
  · rfl
  simp only [Option.bind_some]
  split
  · rfl
  rcases (splitSpace fen)[1]? with _ | sidePart
  · rfl
  simp only [Option.bind_some]
  rcases hfs : fenSide sidePart with _ | flip
  · simp only [fenSide] at hfs
    rw [hfs]; rfl
  simp only [fenSide] at hfs
  rw [hfs]
  simp only [Option.bind_some]
  split
  · rfl
  have key : ∀ pc : Position, ((splitSpace fen)[3]?.bind fun epPart =>
      (if epPart == ['-'] then some { pc with ep := none }
      else if strLen epPart == 2 then
        match epPart with
        | [c1, c2] =>
          (u8sub ar (asU8 c1) (asU8 'a')).bind fun file =>
          (u8sub ar (asU8 c2) (asU8 '1')).bind fun rank =>
          (u8mul ar 8 rank).bind fun r8 =>
          (u8add ar r8 file).bind fun idx =>
          some { pc with ep := some idx }
        | _ => none
      else none).bind fun p =>
        (splitSpace fen)[4]?.bind fun hmPart =>
        (parseI32 hmPart).bind fun hm =>
        if hm < 0 then none else
        (splitSpace fen)[5]?.bind fun fmPart =>
        (parseI32 fmPart).bind fun fm =>
        if fm < 0 then none else
        if (splitSpace fen).length > 6 then none else
        fenFinish ar p hm fm flip) =
      ((splitSpace fen)[3]?.bind fun epPart =>
        (fenEp ar epPart).bind fun ep =>
        (splitSpace fen)[4]?.bind fun hmPart =>
        (parseI32 hmPart).bind fun hm =>
        if hm < 0 then none else
        (splitSpace fen)[5]?.bind fun fmPart =>
        (parseI32 fmPart).bind fun fm =>
        if fm < 0 then none else
        if (splitSpace fen).length > 6 then none else
        fenFinish ar { pc with ep := ep } hm fm flip) := by
    intro pc
    rcases (splitSpace fen)[3]? with _ | epPart
    · rfl
    simp only [Option.bind_some]
    exact ep_stage ar epPart pc _
  rcases (splitSpace fen)[2]? with _ | cpart
  · simp only [fenCastlePart, Option.bind_some]
    exact key pb
  · simp only [fenCastlePart]
    rcases fenCastling cpart [] pb with _ | pc
    · rfl
    simp only [Option.bind_some]
    exact key pc

/-- an accepting run of `set_fen`, stage by stage. -/
theorem setFenCore_some {ar frc fen r} (h : setFenCore ar frc fen = some r) :
    ∃ pb sidePart flip pc epPart ep hmPart hm fmPart fm,
      fenBoard ar ((splitSpace fen).headD []) { Position.dflt with frc := frc } 0 = some (pb, 64) ∧
      (splitSpace fen)[1]? = some sidePart ∧ fenSide sidePart = some flip ∧
      (pb.c0 &&& pb.p5).isEmpty = false ∧ (pb.c1 &&& pb.p5).isEmpty = false ∧
      fenCastlePart (splitSpace fen)[2]? pb = some pc ∧
      (splitSpace fen)[3]? = some epPart ∧ fenEp ar epPart = some ep ∧
      (splitSpace fen)[4]? = some hmPart ∧ parseI32 hmPart = some hm ∧ 0 ≤ hm ∧
      (splitSpace fen)[5]? = some fmPart ∧ parseI32 fmPart = some fm ∧ 0 ≤ fm ∧
      (splitSpace fen).length ≤ 6 ∧
      fenFinish ar { pc with ep := ep } hm fm flip = some r := by
  rw [setFenCore_eq_staged] at h
  unfold setFenStaged at h
  simp only [Option.bind_eq_some_iff] at h
  obtain ⟨⟨pb, idx⟩, hb, h⟩ := h
  split at h
  · cases h
  rename_i hidx
  simp only [bne_iff_ne, ne_eq, Decidable.not_not] at hidx
  subst hidx
  simp only [Option.bind_eq_some_iff] at h
  obtain ⟨sidePart, hs, flip, hf, h⟩ := h
  split at h
  · cases h
  rename_i hk
  simp only [Bool.or_eq_true, not_or, Bool.not_eq_true] at hk
  simp only [Option.bind_eq_some_iff] at h
  obtain ⟨pc, hc, epPart, he, ep, hep, hmPart, hh, hm, hhm, h⟩ := h
  split at h
  · cases h
  rename_i hhm0
  simp only [Option.bind_eq_some_iff] at h
  obtain ⟨fmPart, hfp, fm, hfm, h⟩ := h
  split at h
  · cases h
  rename_i hfm0
  split at h
  · cases h
  rename_i hlen
  exact ⟨pb, sidePart, flip, pc, epPart, ep, hmPart, hm, fmPart, fm, hb, hs, hf, hk.1, hk.2, hc, he, hep,
    hh, hhm, Int.not_lt.mp hhm0, hfp, hfm, Int.not_lt.mp hfm0, Nat.not_lt.mp hlen, h⟩

end Rawr
