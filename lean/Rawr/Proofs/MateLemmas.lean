import Rawr.Proofs.DrawLemmas
/-! Helper lemmas for C12 (mate in one), in the namespace `Rawr.DM`:

* the search never changes `stats.depth` (`negamax_depth`);
* a non-root call on a checkmated position (`child_mated_returns`);
* the root call when some move mates and every other child answers above the mated-in-one score
  (`root_mate_in_one`, over the abstract hypotheses `OthersBelowMate` / `MatedChildrenOk`);
* the range of the scores returned by `negamax` at `ply ≥ 1` over a table with sane scores (`negamax_range`),
  which discharges `OthersBelowMate`;
* the iterations of the driver (`rootIter_mate`). -/
namespace Rawr.DM

/-! ## the search never changes `stats.depth` -/

/-- same `depth` field. -/
def DInv (s s' : SState) : Prop := s'.depth = s.depth

theorem DInv.of_some_eq {a s st' : SState} {x v : Int} (h : some (x, s) = some (v, st'))
    (hs : DInv a s) : DInv a st' := by
  simp only [Option.some.injEq, Prod.mk.injEq] at h
  rw [← h.2]; exact hs

def RecDInv (rec : Position → SState → Int → Int → Int → Int → Bool → Option (Int × SState)) : Prop :=
  ∀ np s a b pl d c v s', rec np s a b pl d c = some (v, s') → DInv s s'

theorem nmLoop_dinv (rec) (hrec : RecDInv rec) (p : Position) (beta ply depth : Int) (inCheck : Bool)
    (ms : List Mv) (idx : Nat) (st : SState) (alpha best : Int) (bestMv : Option Mv)
    (st' : SState) (a' b' : Int) (bm' : Option Mv)
    (h : nmLoop rec p beta ply depth inCheck ms idx st alpha best bestMv = some (st', a', b', bm')) :
    DInv st st' := by
  obtain ⟨_, _, _, hS, _, _, _⟩ := nmLoop_invariant rec p beta ply depth inCheck
    (fun s => s.depth = st.depth) (fun _ s => s.depth = st.depth) (fun _ _ => True) (fun _ _ _ _ => True) ms
    (fun _ _ h => h) (fun _ _ h => h)
    (fun m _ c _ s a b d v s' hs _ hc => ⟨(hrec _ _ _ _ _ _ _ _ _ hc).trans hs, trivial⟩)
    (fun _ _ _ _ _ _ _ _ _ => trivial)
    ms [] idx st alpha best bestMv st' a' b' bm' (fun _ h => h) rfl trivial h
  exact hS

theorem negamax_dinv (lim : Limit) (fuel : Nat) : RecDInv (negamax lim fuel) := by
  induction fuel with
  | zero => intro np s a b pl d c v s' h; simp [negamax] at h
  | succ fuel ih =>
    intro p st α β ply depth cn v st' h
    simp only [negamax] at h
    generalize hpr : (ite (_ = true) (shouldStop lim _) (false, _) : Bool × SState) = pr at h
    have hinv : DInv st pr.2 := by
      rw [← hpr]; split <;> rfl
    clear hpr
    split at h
    · simp at h
    split at h
    · exact DInv.of_some_eq h rfl
    ite_split h
    · split at h
      · simp at h
      · exact DInv.of_some_eq h rfl
    ite_split h
    · exact DInv.of_some_eq h hinv
    ite_split h
    · exact DInv.of_some_eq h hinv
    ite_split h
    · exact DInv.of_some_eq h hinv
    generalize hnr : (ite (_ = true) _ _ : Option (Option Int × SState)) = nr at h
    have hnullInv : ∀ ov s2, nr = some (ov, s2) → DInv st s2 := by
      intro ov s2 h1
      rw [h1] at hnr
      rcases ite_cases hnr with ⟨_, hn⟩ | ⟨_, hn⟩
      · split at hn
        · simp at hn
        · have h3 := ih _ _ _ _ _ _ _ _ _ (by assumption)
          have h3 : _ = pr.2.depth := h3
          ite_split hn <;>
          · simp only [Option.some.injEq, Prod.mk.injEq] at hn
            rw [← hn.2]; exact h3.trans hinv
      · simp only [Option.some.injEq, Prod.mk.injEq] at hn
        rw [← hn.2]; exact hinv
    clear hnr
    split at h
    · simp at h
    · exact DInv.of_some_eq h (hnullInv _ _ rfl)
    · have hs2 := hnullInv _ _ rfl
      split at h
      · simp at h
      split at h
      · simp at h
      have h4 : DInv st _ := (nmLoop_dinv _ ih _ _ _ _ _ _ _ _ _ _ _ _ _ _ _ (by assumption)).trans hs2
      split at h
      · exact DInv.of_some_eq h h4
      · split at h
        · simp at h
        · exact DInv.of_some_eq h h4

theorem negamax_depth (lim : Limit) (fuel : Nat) (p : Position) (st : SState) (α β ply depth : Int) (cn : Bool)
    (v : Int) (st' : SState) (h : negamax lim fuel p st α β ply depth cn = some (v, st')) :
    st'.depth = st.depth := negamax_dinv lim fuel p st α β ply depth cn v st' h


/-! ## the mated child -/

/-- checkmated: in check, no legal move. -/
def Mated (c : Position) : Prop := legalMoves c = [] ∧ c.inCheck = true

instance (c : Position) : Decidable (Mated c) := by unfold Mated; infer_instance

theorem sortNm_nil (p : Position) (tt : Option Mv) : sortNm p [] tt = some [] := rfl

theorem child_mated_returns (lim : Limit) (fuel : Nat) (c : Position) (st : SState) (α β ply depth : Int)
    (cn : Bool) (hply : 1 ≤ ply) (hdepth : 0 ≤ depth) (hmated : Mated c)
    (h50 : c.halfmoves < 100) (hrep : repCount st.hist c.halfmoves c.hash < 2)
    (hnohit : (st.tt.poll c.hash.toNat).map (·.hash) ≠ some c.hash)
    (hlim : (shouldStop lim st).1 = false) :
    negamax lim (fuel + 1) c st α β ply depth cn =
      some (-Gen.MATE_SCORE + ply, { st with seldepth := max st.seldepth ply, polls := st.polls + 1 }) := by
  obtain ⟨hmoves, hcheck⟩ := hmated
  obtain ⟨e, he⟩ := Table.poll_ne_none st.tt c.hash.toNat
  have hhit : (e.hash == c.hash) = false := by
    rw [he] at hnohit
    simpa using hnohit
  have hroot : (ply == 0) = false := by
    simp only [beq_eq_false_iff_ne, ne_eq]; omega
  have hd : (decide (c.halfmoves ≥ 100) || decide (repCount st.hist c.halfmoves c.hash ≥ 2)) = false := by
    simp only [Bool.or_eq_false_iff, decide_eq_false_iff_not]; omega
  unfold negamax
  simp only [he, hhit, hroot, hcheck, hmoves, Bool.false_and, Bool.false_eq_true, ↓reduceIte, Bool.not_false,
    Bool.true_and, Bool.not_true, Bool.and_false, if_neg (show ¬ depth + 1 ≤ 0 by omega),
    shouldStop_fst_seldepth, hlim, shouldStop_snd, sortNm_nil, nmLoop]
  exact if_neg (Bool.eq_false_iff.1 hd)

/-! ## the root with a mating move -/

/-- the "range" requirement on the calls the root makes on a child `c` (`ply = 1`) that is not mated:
whatever the window and the remaining depth, the answer is above the mated-in-one score `-MATE_SCORE + 1`,
and the table invariant `I` is kept. `H` is the root's history, `D` its `stats.depth`. -/
def OthersBelowMate (lim : Limit) (fuel : Nat) (p : Position) (H : List BB) (D : Int)
    (I : Table TTEntry → Prop) : Prop :=
  ∀ m ∈ legalMoves p, ∀ c, p.makemove m true = some c → ¬ Mated c →
    ∀ (s : SState) (a b d v : Int) (s' : SState), s.hist = c.hash :: H → s.depth = D → I s.tt → 0 ≤ d →
      negamax lim fuel c s a b 1 d true = some (v, s') → -Gen.MATE_SCORE + 1 < v ∧ I s'.tt

/-- every mated child of `p` is one to which `child_mated_returns` applies: clock below 100, no repetition with
its key pushed on `H`, no table hit in any table satisfying `I`. -/
def MatedChildrenOk (p : Position) (H : List BB) (I : Table TTEntry → Prop) : Prop :=
  ∀ m ∈ legalMoves p, ∀ c, p.makemove m true = some c → Mated c →
    c.halfmoves < 100 ∧ repCount (c.hash :: H) c.halfmoves c.hash < 2 ∧
      ∀ T, I T → (T.poll c.hash.toNat).map (·.hash) ≠ some c.hash

/-- `m` is a legal move of `p` that checkmates. -/
def IsMating (p : Position) (m : Mv) : Prop := ∃ c, p.makemove m true = some c ∧ Mated c

theorem root_mate_in_one (lim : Limit) (fuel : Nat) (p : Position) (st : SState) (depth : Int)
    (I : Table TTEntry → Prop)
    (hdepth : 1 ≤ (if p.inCheck then depth + 1 else depth))
    (hlim : QuietAt lim st.depth) (hI : I st.tt)
    (hmate : ∃ m ∈ legalMoves p, IsMating p m)
    (hmated : MatedChildrenOk p st.hist I)
    (hothers : OthersBelowMate lim (fuel + 1) p st.hist st.depth I)
    (v : Int) (st' : SState)
    (h : negamax lim (fuel + 2) p st (-Gen.INF) Gen.INF 0 depth false = some (v, st')) :
    v = Gen.MATE_SCORE - 1 ∧ ∃ m fl, m ∈ legalMoves p ∧ IsMating p m ∧ st'.best = some m ∧
      st'.hist = st.hist ∧ st'.depth = st.depth ∧ ∃ T, I T ∧
        T.add p.hash.toNat ⟨p.hash, m, Gen.MATE_SCORE - 1, if p.inCheck then depth + 1 else depth, fl⟩ =
          some st'.tt := by
  obtain ⟨s1, ttm, moves, s2, a2, best, bm, hs1, hsort, hloop, hfin⟩ :=
    root_call_unfold lim (fuel + 1) p st depth v st' hdepth hlim h
  have hperm := sortNm_perm p _ _ _ hsort
  generalize hd' : (if p.inCheck = true then depth + 1 else depth) = d' at hdepth hloop hfin ⊢
  obtain ⟨done', rest, hsplit, hs2, hR, hend, _⟩ := nmLoop_invariant (negamax lim (fuel + 1)) p Gen.INF 0 d' p.inCheck
    (fun s => s.hist = st.hist ∧ s.depth = st.depth ∧ I s.tt)
    (fun c s => s.hist = c.hash :: st.hist ∧ s.depth = st.depth ∧ I s.tt)
    (fun m score => (IsMating p m → score = Gen.MATE_SCORE - 1) ∧ (¬ IsMating p m → score < Gen.MATE_SCORE - 1))
    (fun done alpha best bm => best ≤ Gen.MATE_SCORE - 1 ∧ alpha ≤ Gen.MATE_SCORE - 1 ∧
      (best = Gen.MATE_SCORE - 1 → ∃ m, bm = some m ∧ m ∈ moves ∧ IsMating p m) ∧
      ((∃ m ∈ done, IsMating p m) → best = Gen.MATE_SCORE - 1))
    moves
    (fun s c hs => ⟨by show c.hash :: s.hist = _; rw [hs.1], hs.2.1, hs.2.2⟩)
    (fun c s hs => ⟨by show s.hist.tail = _; rw [hs.1]; rfl, hs.2.1, hs.2.2⟩)
    (by
      intro m hm c hmk s a b d v1 s1' hs hcd hc
      have hm' := hperm.mem_iff.1 hm
      have hd0 : 0 ≤ d := by rcases hcd with h | h <;> omega
      rw [Int.zero_add] at hc
      by_cases hmt : Mated c
      · obtain ⟨h50, hrep, hnh⟩ := hmated m hm' c hmk hmt
        rw [child_mated_returns lim fuel c s a b 1 d true (by decide) hd0 hmt h50 (by rw [hs.1]; exact hrep)
          (hnh _ hs.2.2) (shouldStop_quiet (by rw [hs.2.1]; exact hlim))] at hc
        simp only [Option.some.injEq, Prod.mk.injEq] at hc
        rw [← hc.1, ← hc.2]
        refine ⟨hs, fun _ => by omega, fun hn => absurd ⟨c, hmk, hmt⟩ hn⟩
      · obtain ⟨hv, hI'⟩ := hothers m hm' c hmk hmt s a b d v1 s1' hs.1 hs.2.1 hs.2.2 hd0 hc
        refine ⟨⟨(negamax_inv lim _ _ _ _ _ _ _ _ _ _ hc).1.trans hs.1,
          (negamax_depth lim _ _ _ _ _ _ _ _ _ _ hc).trans hs.2.1, hI'⟩, ?_, fun _ => by omega⟩
        rintro ⟨c', hmk', hmt'⟩
        rw [hmk] at hmk'; cases hmk'
        exact absurd hmt' hmt)
    (by
      intro done m alpha best bm score hm hR hQ
      obtain ⟨hb, ha, hbm, hdone⟩ := hR
      by_cases hmt : IsMating p m
      · have hsc := hQ.1 hmt
        refine ⟨by split <;> omega, by split <;> omega, fun _ => ?_, fun _ => by split <;> omega⟩
        by_cases hgt : score > best
        · rw [if_pos hgt]; exact ⟨m, rfl, hm, hmt⟩
        · rw [if_neg hgt]; exact hbm (by omega)
      · have hsc := hQ.2 hmt
        refine ⟨by split <;> omega, by split <;> omega, fun hb1 => ?_, fun hex => ?_⟩
        · have hgt : ¬ score > best := by
            intro hgt; rw [if_pos hgt] at hb1; omega
          rw [if_neg hgt] at hb1 ⊢
          exact hbm hb1
        · obtain ⟨m', hm', hmt'⟩ := hex
          rcases List.mem_append.1 hm' with hm' | hm'
          · have := hdone ⟨m', hm', hmt'⟩
            rw [if_neg (by omega)]; exact this
          · rw [List.mem_singleton.1 hm'] at hmt'; exact absurd hmt' hmt)
    moves [] 0 s1 (-Gen.INF) (-Gen.INF) none s2 a2 best bm (fun _ hm => hm) ⟨hs1.1, hs1.2.2.1, by rw [hs1.2.1]; exact hI⟩
    ⟨by decide, by decide, fun h => absurd h (by decide), fun ⟨_, hm, _⟩ => absurd hm (by simp)⟩ hloop
  rw [List.nil_append] at hR
  obtain ⟨hb, ha, hbm, hdone⟩ := hR
  -- no cut-off at the root: all moves have been tried
  have hrest : rest = [] := by
    rcases hend with h | h
    · exact h
    · exfalso
      have : (Gen.MATE_SCORE - 1 : Int) < Gen.INF := by decide
      omega
  subst hrest
  rw [List.append_nil] at hsplit
  subst hsplit
  obtain ⟨m₁, hm₁, hmt₁⟩ := hmate
  obtain ⟨m, rfl, hmm, hmt⟩ := hbm (hdone ⟨m₁, hperm.mem_iff.2 hm₁, hmt₁⟩)
  have hbest := hdone ⟨m₁, hperm.mem_iff.2 hm₁, hmt₁⟩
  obtain ⟨rfl, fl, tt', hadd, rfl⟩ := hfin
  refine ⟨hbest, m, fl, hperm.mem_iff.1 hmm, hmt, rfl, hs2.1, hs2.2.1, s2.tt, hs2.2.2, ?_⟩
  rw [← hbest]; exact hadd


/-! ## the range of the scores -/

/-- the largest absolute value of a score that is not a mate-in-one score. -/
abbrev RS : Int := Gen.MATE_SCORE - 2

/-- table invariant: every stored score is within `[-RS, RS]`, except under the keys in `Kp` (the root's, which
stores `MATE_SCORE - 1`); no entry is stored under a key in `Ks` (the mated children's). -/
def TTInv (Kp Ks : BB → Prop) (T : Table TTEntry) : Prop :=
  ∀ key e, T.poll key = some e → (Kp e.hash ∨ (-RS ≤ e.score ∧ e.score ≤ RS)) ∧ ¬ Ks e.hash

theorem TTInv.add {Kp Ks : BB → Prop} {T T' : Table TTEntry} {k : Nat} {e : TTEntry} (h : TTInv Kp Ks T)
    (hadd : T.add k e = some T') (he : Kp e.hash ∨ (-RS ≤ e.score ∧ e.score ≤ RS)) (hs : ¬ Ks e.hash) :
    TTInv Kp Ks T' := by
  intro key e' hp
  rcases poll_add_cases hadd key with h1 | h1
  · rw [h1] at hp; cases hp; exact ⟨he, hs⟩
  · rw [h1] at hp; exact h key e' hp

/-- the subtree below `q` searched with `fuel`: no node has a key in `Kp`, no node with a legal move has a key in
`Ks`, the evaluation is within `[-B, B]` on every capture tree; the null-move child is included where the
search may try it. -/
def TreeOk (Kp Ks : BB → Prop) (B : Int) : Nat → Position → Prop
  | 0, _ => True
  | f + 1, q => ¬ Kp q.hash ∧ (legalMoves q ≠ [] → ¬ Ks q.hash) ∧ QEvalOk B qFuel q ∧
      (q.inCheck = false → isEndgame q = false → TreeOk Kp Ks B f q.makenull) ∧
      ∀ m ∈ legalMoves q, ∀ c, q.makemove m true = some c → TreeOk Kp Ks B f c

theorem QEvalOk.eval_bound {B : Int} {q : Position} (h : QEvalOk B qFuel q) : -B ≤ eval q ∧ eval q ≤ B := by
  have : QEvalOk B (63 + 1) q := h
  exact this.1

theorem negamax_range (lim : Limit) (Kp Ks : BB → Prop) (B : Int) (hB0 : 0 ≤ B) (hB : B + 300 ≤ RS) :
    ∀ (fuel : Nat) (q : Position) (st : SState) (α β ply depth : Int) (cn : Bool) (v : Int) (st' : SState),
      TreeOk Kp Ks B fuel q → 1 ≤ ply → ply + fuel ≤ Gen.MATE_SCORE → TTInv Kp Ks st.tt →
      negamax lim fuel q st α β ply depth cn = some (v, st') →
      TTInv Kp Ks st'.tt ∧ v ≤ RS ∧ ((2 ≤ ply ∨ ¬ Mated q) → -RS ≤ v) := by
  intro fuel
  induction fuel with
  | zero => intro q st α β ply depth cn v st' _ _ _ _ h; simp [negamax] at h
  | succ fuel ih =>
    intro q st α β ply depth cn v st' htree hply hfuel hI h
    have _ := hB0
    obtain ⟨hKp, hKs, hq, hnull, hchildren⟩ := htree
    have hRS : RS = 999998 := rfl
    have hMATE : Gen.MATE_SCORE = 1000000 := rfl
    have hDRAW : Gen.DRAW_SCORE = -50 := rfl
    have hINF : Gen.INF = 10000000 := rfl
    simp only [negamax] at h
    generalize hpr : (ite (_ = true) (shouldStop lim _) (false, _) : Bool × SState) = pr at h
    have hprtt : pr.2.tt = st.tt := by
      rw [← hpr]; split <;> rfl
    clear hpr
    generalize hd' : (if q.inCheck = true then depth + 1 else depth) = d' at h
    -- table probe
    split at h
    · simp at h
    rename_i tte hpoll
    have htte := hI _ _ hpoll
    -- table cut-off
    split at h
    · rename_i v0 a0 b0 hcut
      simp only [Option.some.injEq, Prod.mk.injEq] at h
      obtain ⟨rfl, rfl⟩ := h
      have : (tte.hash == q.hash) = true ∧ v0 = tte.score := by
        rcases ite_cases hcut with ⟨hc, h1⟩ | ⟨_, h1⟩
        · simp only [Bool.and_eq_true] at hc
          refine ⟨hc.1.1.1, ?_⟩
          rcases ite_cases h1 with ⟨_, h2⟩ | ⟨_, h2⟩
          · simp only [Prod.mk.injEq, Option.some.injEq] at h2; exact h2.1.symm
          · rcases ite_cases h2 with ⟨_, h3⟩ | ⟨_, h3⟩
            · simp only [Prod.mk.injEq, Option.some.injEq] at h3; exact h3.1.symm
            · simp at h3
        · simp at h1
      obtain ⟨hhit, rfl⟩ := this
      have hk : tte.hash = q.hash := by simpa using hhit
      rcases htte.1 with hkp | hsane
      · rw [hk] at hkp; exact absurd hkp hKp
      · exact ⟨hI, hsane.2, fun _ => hsane.1⟩
    rename_i a0 b0 hcut
    -- quiescence
    rcases ite_cases h with ⟨hd0, h1⟩ | ⟨hd0, h1⟩
    · clear h
      split at h1
      · simp at h1
      rename_i v1 q1 hqs
      simp only [Option.some.injEq, Prod.mk.injEq] at h1
      obtain ⟨rfl, rfl⟩ := h1
      have := qsearch_range B _ _ _ _ _ _ _ _ hq hqs
      exact ⟨hI, by omega, fun _ => by omega⟩
    clear h
    -- stopped
    rcases ite_cases h1 with ⟨_, h2⟩ | ⟨_, h2⟩
    · simp only [Option.some.injEq, Prod.mk.injEq] at h2
      obtain ⟨rfl, rfl⟩ := h2
      exact ⟨by rw [hprtt]; exact hI, by omega, fun _ => by omega⟩
    clear h1
    -- rule draws
    rcases ite_cases h2 with ⟨_, h3⟩ | ⟨_, h3⟩
    · simp only [Option.some.injEq, Prod.mk.injEq] at h3
      obtain ⟨rfl, rfl⟩ := h3
      exact ⟨by rw [hprtt]; exact hI, by omega, fun _ => by omega⟩
    clear h2
    -- reverse futility
    rcases ite_cases h3 with ⟨hrfp, h4⟩ | ⟨_, h4⟩
    · simp only [Option.some.injEq, Prod.mk.injEq] at h4
      obtain ⟨rfl, rfl⟩ := h4
      simp only [Bool.and_eq_true, decide_eq_true_eq] at hrfp
      have hev := hq.eval_bound
      exact ⟨by rw [hprtt]; exact hI, by omega, fun _ => by omega⟩
    clear h3
    -- null move
    generalize hnr : (ite (_ = true) _ _ : Option (Option Int × SState)) = nr at h4
    have hnullInv : ∀ ov s2, nr = some (ov, s2) → TTInv Kp Ks s2.tt ∧ ∀ x, ov = some x → -RS ≤ x ∧ x ≤ RS := by
      intro ov s2 hn1
      rw [hn1] at hnr
      rcases ite_cases hnr with ⟨hc, hn⟩ | ⟨_, hn⟩
      · split at hn
        · simp at hn
        rename_i sc s3 hcall
        simp only [Bool.and_eq_true, Bool.not_eq_true', decide_eq_true_eq] at hc
        have h3 := ih _ _ _ _ _ _ _ _ _ (hnull hc.1.2 hc.2) (by omega) (by omega)
          (by show TTInv Kp Ks pr.2.tt; rw [hprtt]; exact hI) hcall
        rcases ite_cases hn with ⟨_, hn'⟩ | ⟨_, hn'⟩
        · simp only [Option.some.injEq, Prod.mk.injEq] at hn'
          obtain ⟨rfl, rfl⟩ := hn'
          refine ⟨h3.1, fun x hx => ?_⟩
          cases hx
          have := h3.2.2 (Or.inl (by omega))
          omega
        · simp only [Option.some.injEq, Prod.mk.injEq] at hn'
          obtain ⟨rfl, rfl⟩ := hn'
          exact ⟨h3.1, fun x hx => by cases hx⟩
      · simp only [Option.some.injEq, Prod.mk.injEq] at hn
        obtain ⟨rfl, rfl⟩ := hn
        exact ⟨by rw [hprtt]; exact hI, fun x hx => by cases hx⟩
    clear hnr
    split at h4
    · simp at h4
    · rename_i v2 s2
      simp only [Option.some.injEq, Prod.mk.injEq] at h4
      obtain ⟨rfl, rfl⟩ := h4
      obtain ⟨h5, h6⟩ := hnullInv _ _ rfl
      have := h6 _ rfl
      exact ⟨h5, by omega, fun _ => by omega⟩
    · rename_i s2
      obtain ⟨hI2, _⟩ := hnullInv _ _ rfl
      -- move ordering
      split at h4
      · simp at h4
      rename_i moves hsort
      have hperm := sortNm_perm q _ _ _ hsort
      -- the move loop
      split at h4
      · simp at h4
      rename_i s3 a3 best bm hloop
      obtain ⟨done', rest, hsplit, hI3, hR, _, hne⟩ := nmLoop_invariant (negamax lim fuel) q b0 ply d' q.inCheck
        (fun s => TTInv Kp Ks s.tt) (fun _ s => TTInv Kp Ks s.tt)
        (fun _ score => -RS ≤ score ∧ score ≤ RS)
        (fun done _ best bm => (done = [] ∧ bm = none ∧ best = -Gen.INF) ∨
          (done ≠ [] ∧ bm ≠ none ∧ -RS ≤ best ∧ best ≤ RS))
        moves (fun _ _ h => h) (fun _ _ h => h)
        (by
          intro m hm c hmk s a b d v1 s1' hs _ hc
          have := ih _ _ _ _ _ _ _ _ _ (hchildren m (hperm.mem_iff.1 hm) c hmk) (by omega) (by omega) hs hc
          have h7 := this.2.2 (Or.inl (by omega))
          exact ⟨this.1, by omega, by omega⟩)
        (by
          intro done m alpha best bm score _ hR hQ
          right
          rcases hR with ⟨_, rfl, rfl⟩ | ⟨_, hbm, hb1, hb2⟩
          · rw [if_pos (show score > -Gen.INF by omega), if_pos (show score > -Gen.INF by omega)]
            exact ⟨by simp, by simp, hQ.1, hQ.2⟩
          · refine ⟨by simp, ?_, by split <;> omega, by split <;> omega⟩
            split
            · simp
            · exact hbm)
        moves [] 0 s2 a0 (-Gen.INF) none s3 a3 best bm (fun _ h => h) hI2 (Or.inl ⟨rfl, rfl, rfl⟩) hloop
      rw [List.nil_append] at hR
      -- no legal move / store
      split at h4
      · simp only [Option.some.injEq, Prod.mk.injEq] at h4
        obtain ⟨rfl, rfl⟩ := h4
        have hmoves : moves = [] := by
          rcases hR with ⟨hd, _⟩ | ⟨_, hbm, _⟩
          · by_cases hm : moves = []
            · exact hm
            · exact absurd hd (hne hm)
          · exact absurd rfl hbm
        have hlegal : legalMoves q = [] := by rw [hmoves] at hperm; exact hperm.symm.eq_nil
        refine ⟨hI3, by split <;> omega, ?_⟩
        rintro (h2 | hnm)
        · split <;> omega
        · split
          · rename_i hchk
            exact absurd ⟨hlegal, hchk⟩ hnm
          · omega
      · rename_i bm0
        split at h4
        · simp at h4
        rename_i tt' hadd
        simp only [Option.some.injEq, Prod.mk.injEq] at h4
        obtain ⟨rfl, rfl⟩ := h4
        rcases hR with ⟨_, hbm, _⟩ | ⟨hdn, _, hb1, hb2⟩
        · cases hbm
        · have hlegal : legalMoves q ≠ [] := by
            intro hl
            rw [hl] at hperm
            have := hperm.eq_nil
            rw [this] at hsplit
            exact hdn (List.append_eq_nil_iff.1 hsplit.symm).1
          exact ⟨hI3.add hadd (Or.inr ⟨hb1, hb2⟩) (hKs hlegal), hb2, fun _ => hb1⟩


/-- `negamax_range` discharges the range requirement on the non-mated children of `p`. -/
theorem othersBelowMate_of_tree (lim : Limit) (fuel : Nat) (p : Position) (H : List BB) (D : Int)
    (Kp Ks : BB → Prop) (B : Int) (hB0 : 0 ≤ B) (hB : B + 300 ≤ RS) (hfuel : (fuel : Int) < Gen.MATE_SCORE)
    (htree : ∀ m ∈ legalMoves p, ∀ c, p.makemove m true = some c → ¬ Mated c → TreeOk Kp Ks B fuel c) :
    OthersBelowMate lim fuel p H D (TTInv Kp Ks) := by
  intro m hm c hmk hnm s a b d v s' _ _ hI _ hc
  obtain ⟨h1, _, h3⟩ := negamax_range lim Kp Ks B hB0 hB fuel c s a b 1 d true v s' (htree m hm c hmk hnm)
    (by decide) (by omega) hI hc
  have := h3 (Or.inr hnm)
  have hRS : RS = Gen.MATE_SCORE - 2 := rfl
  exact ⟨by omega, h1⟩

/-- a table satisfying `TTInv` has no entry under a key in `Ks`. -/
theorem TTInv.nohit {Kp Ks : BB → Prop} {T : Table TTEntry} (h : TTInv Kp Ks T) {k : BB} (hk : Ks k) :
    (T.poll k.toNat).map (·.hash) ≠ some k := by
  obtain ⟨e, he⟩ := Table.poll_ne_none T k.toNat
  rw [he]
  simp only [Option.map_some, ne_eq, Option.some.injEq]
  intro h'
  exact (h _ _ he).2 (h' ▸ hk)

/-! ## the iterations -/

/-- the hypotheses of C12 on the root `p` with history `H`, over a table invariant `I`:
some legal move mates; `child_mated_returns` applies to every mated child; the other children answer above the
mated-in-one score at every iteration; the root's own store keeps `I`. -/
structure MateInOne (lim : Limit) (fuel : Nat) (p : Position) (H : List BB) (I : Table TTEntry → Prop) : Prop where
  mate : ∃ m ∈ legalMoves p, IsMating p m
  mated : MatedChildrenOk p H I
  others : ∀ D, OthersBelowMate lim (fuel + 1) p H D I
  store : ∀ T T' m d fl, I T → T.add p.hash.toNat ⟨p.hash, m, Gen.MATE_SCORE - 1, d, fl⟩ = some T' → I T'

/-- one returning root call of an iteration within the limit. -/
theorem MateInOne.root_call {lim : Limit} {fuel : Nat} {p : Position} {H : List BB} {I : Table TTEntry → Prop}
    (hyp : MateInOne lim fuel p H I) (st : SState) (depth : Int)
    (hdepth : 1 ≤ (if p.inCheck then depth + 1 else depth)) (hlim : QuietAt lim st.depth) (hH : st.hist = H)
    (hI : I st.tt) (v : Int) (st' : SState)
    (h : negamax lim (fuel + 2) p st (-Gen.INF) Gen.INF 0 depth false = some (v, st')) :
    v = Gen.MATE_SCORE - 1 ∧ ∃ m, m ∈ legalMoves p ∧ IsMating p m ∧ st'.best = some m ∧ st'.hist = H ∧
      st'.depth = st.depth ∧ I st'.tt := by
  obtain ⟨hv, m, fl, hm, hmt, hb, hh, hd, T, hT, hadd⟩ := root_mate_in_one lim fuel p st depth I hdepth hlim hI
    hyp.mate (by rw [hH]; exact hyp.mated) (by rw [hH]; exact hyp.others _) v st' h
  exact ⟨hv, m, hm, hmt, hb, hh.trans hH, hd, hyp.store _ _ _ _ _ hT hadd⟩

/-- iterations `k = 2, 3, …` of the driver under the hypotheses of C12, for `go depth D`. -/
theorem rootIter_mate (D : Int) (fuel : Nat) (p : Position) (H : List BB) (I : Table TTEntry → Prop)
    (hyp : MateInOne (.depth D) fuel p H I) :
    ∀ (n : Nat) (k : Int) (st : SState) (bm : Mv) (infos : List InfoRec) (res : RootResult),
      2 ≤ k → k ≤ D + 1 →
      st.hist = H → I st.tt → st.best = some bm → IsMating p bm → bm ∈ legalMoves p →
      rootIter (.depth D) (fuel + 2) p n k st (some bm) infos = some res →
      (∃ m ∈ legalMoves p, IsMating p m ∧ res.best = some m) ∧ ∃ new, res.infos = infos.reverse ++ new ∧
        ∀ r ∈ new, r.score = Gen.MATE_SCORE - 1 ∧ ∃ m ∈ legalMoves p, IsMating p m ∧ r.pv = [m] := by
  intro n
  induction n with
  | zero =>
    intro k st bm infos res _ _ _ _ _ hmt hbm h
    simp only [rootIter, Option.some.injEq] at h
    subst h
    exact ⟨⟨bm, hbm, hmt, rfl⟩, [], by rw [List.append_nil], by simp⟩
  | succ n ih =>
    intro k st bm infos res h2 hk hH hI hbest hmt hbm h
    simp only [rootIter] at h
    rcases ite_cases h with ⟨_, h1⟩ | ⟨_, h1⟩
    · simp only [Option.some.injEq] at h1
      subst h1
      exact ⟨⟨bm, hbm, hmt, rfl⟩, [], by rw [List.append_nil], by simp⟩
    clear h
    by_cases hkD : k ≤ D
    · split at h1
      · simp at h1
      rename_i score s1 hcall
      obtain ⟨rfl, m, hm, hmm, hb1, hh1, hd1, hI1⟩ := hyp.root_call { st with depth := k } k (by split <;> omega)
        hkD hH hI score s1 hcall
      have hd1' : s1.depth = k := hd1
      simp only [hb1, if_pos (show k > 1 by omega), shouldStop, hd1',
        decide_eq_false (show ¬ k > D by omega), Bool.false_eq_true, ↓reduceIte] at h1
      obtain ⟨hres, new, hinfos, hnew⟩ := ih (k + 1)
        ⟨s1.hist, s1.tt, k, s1.seldepth, s1.nodes, some m, s1.polls + 1⟩ m _ res (by omega) (by omega) hh1 hI1 rfl
        hmm hm h1
      refine ⟨hres, ⟨k, s1.seldepth, s1.nodes, Gen.MATE_SCORE - 1, s1.tt.hashfull, [m]⟩ :: new, ?_, ?_⟩
      · rw [hinfos, List.reverse_cons, List.append_assoc]; rfl
      · intro r hr
        rcases List.mem_cons.1 hr with rfl | hr
        · exact ⟨rfl, m, hm, hmm, rfl⟩
        · exact hnew r hr
    · rw [root_stops D (fuel + 1) p { st with depth := k } k (by split <;> omega) (by show D < k; omega)
        (by show 2 ≤ k; omega)] at h1
      simp only [hbest, if_pos (show k > 1 by omega), shouldStop, decide_eq_true (show k > D by omega),
        ↓reduceIte, Option.some.injEq] at h1
      subst h1
      exact ⟨⟨bm, hbm, hmt, rfl⟩, [], by rw [List.append_nil], by simp⟩

/-- `go depth D`, `D ≥ 1`: every iteration reports the mate-in-one score with a mating move, and the best move
mates. -/
theorem root_mate (D : Int) (hD1 : 1 ≤ D) (fuel : Nat) (p : Position) (hist : List BB) (tt : Table TTEntry)
    (I : Table TTEntry → Prop) (hyp : MateInOne (.depth D) fuel p hist I) (hI : I tt) (res : RootResult)
    (h : root (.depth D) (fuel + 2) p hist tt = some res) :
    (∃ m ∈ legalMoves p, IsMating p m ∧ res.best = some m) ∧ res.infos ≠ [] ∧
      ∀ r ∈ res.infos, r.score = Gen.MATE_SCORE - 1 ∧ ∃ m ∈ legalMoves p, IsMating p m ∧ r.pv = [m] := by
  unfold root at h
  rw [show Gen.MAX_DEPTH.toNat = 127 + 1 from rfl] at h
  generalize (127 : Nat) = n at h
  simp only [rootIter, if_neg (show ¬ (1 : Int) ≥ Gen.MAX_DEPTH by decide)] at h
  split at h
  · simp at h
  rename_i score s1 hcall
  obtain ⟨rfl, m, hm, hmm, hb1, hh1, hd1, hI1⟩ := hyp.root_call _ 1 (by split <;> omega)
    (by show (1 : Int) ≤ D; exact hD1) rfl hI score s1 hcall
  simp only [hb1, if_neg (show ¬ (1 : Int) > 1 by decide), Bool.false_eq_true, ↓reduceIte] at h
  obtain ⟨hres, new, hinfos, hnew⟩ := rootIter_mate D fuel p hist I hyp n (1 + 1) s1 m _ res (by omega) (by omega)
    hh1 hI1 hb1 hmm hm h
  refine ⟨hres, ?_, ?_⟩
  · rw [hinfos]; simp
  · intro r hr
    rw [hinfos, List.reverse_singleton, List.singleton_append] at hr
    rcases List.mem_cons.1 hr with rfl | hr
    · exact ⟨rfl, m, hm, hmm, rfl⟩
    · exact hnew r hr

end Rawr.DM
