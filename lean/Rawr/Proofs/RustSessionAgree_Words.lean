import Rawr.Proofs.RustSessionAgree_Canon
import Rawr.Proofs.RustTextAgree
/-!
# Words of the printed lines: numbers, moves; the canonical form of an `info depth ..` line
-/
set_option linter.unusedSimpArgs false
namespace Rawr.Sess
open T

/-- the words after the first one, each preceded by a blank. -/
def tailSp (ws : List (List Char)) : List Char := ws.flatMap (' ' :: ·)

theorem tailSp_nil : tailSp [] = [] := rfl
theorem tailSp_cons (w : List Char) (ws : List (List Char)) : tailSp (w :: ws) = ' ' :: w ++ tailSp ws := by
  simp [tailSp]
theorem tailSp_append (a b : List (List Char)) : tailSp (a ++ b) = tailSp a ++ tailSp b := by simp [tailSp]

theorem joinSp_eq (w : List Char) (ws : List (List Char)) : joinSp (w :: ws) = w ++ tailSp ws := by
  induction ws generalizing w with
  | nil => simp [joinSp, tailSp]
  | cons v ws ih => rw [joinSp_cons, ih, tailSp_cons]; simp

/-- a printed word: no blank, no newline. -/
def Word (w : List Char) : Prop := ' ' ∉ w ∧ '\n' ∉ w

theorem NumChars.word {w : List Char} (h : NumChars w) : Word w := ⟨h.noblank, h.nonl⟩

theorem word_lit (w : List Char) (h : (!w.contains ' ' && !w.contains '\n') = true) : Word w := by
  simp only [Bool.and_eq_true, Bool.not_eq_true', List.contains_eq_mem, decide_eq_false_iff_not] at h
  exact h

theorem nonl_joinSp (ws : List (List Char)) (h : ∀ w ∈ ws, Word w) : '\n' ∉ joinSp ws := by
  cases ws with
  | nil => simp [joinSp]
  | cons w ws =>
    rw [joinSp_eq]
    intro hm
    rcases List.mem_append.1 hm with h1 | h1
    · exact (h w (by simp)).2 h1
    · simp only [tailSp, List.mem_flatMap, List.mem_cons] at h1
      obtain ⟨v, hv, h2⟩ := h1
      rcases h2 with h2 | h2
      · exact absurd h2 (by decide)
      · exact (h v (by simp [hv])).2 h2

theorem canonWords_append_plain (a b : List (List Char)) (h : ∀ w ∈ a, Plain w) :
    canonWords none (a ++ b) = a ++ canonWords none b := by
  induction a with
  | nil => rfl
  | cons w a ih =>
    rw [List.cons_append, canonWords_plain _ _ (h w (by simp)), ih (fun x hx => h x (by simp [hx]))]
    rfl

def wInfo : List Char := ['i', 'n', 'f', 'o']
def wDepth : List Char := ['d', 'e', 'p', 't', 'h']
def wTime : List Char := ['t', 'i', 'm', 'e']
def wNps : List Char := ['n', 'p', 's']

/-- the optional `nps <x>` words. -/
def npsWords : Option (List Char) → List (List Char)
  | some v => [wNps, v]
  | none => []

/-- **the canonical form of an `info depth ..` line**: `a` are the words between `depth` and `time`, `t` the printed
time, `x` the optional `nps` value, `b` the remaining words. -/
theorem canonLine_info (a b : List (List Char)) (t : List Char) (x : Option (List Char))
    (ha : ∀ w ∈ a, Word w ∧ Plain w) (hb : ∀ w ∈ b, Word w ∧ Plain w) (ht : Word t) (hx : ∀ v, x = some v → Word v) :
    canonLine (joinSp (wInfo :: wDepth :: (a ++ wTime :: t :: (npsWords x ++ b)))) =
      some (joinSp (wInfo :: wDepth :: (a ++ wTime :: ['?'] :: b))) := by
  have hpre : ∀ r : List (List Char), r ≠ [] → ∃ tl, joinSp (wInfo :: wDepth :: r) = pfxInfo ++ tl := by
    intro r hr
    cases r with
    | nil => exact absurd rfl hr
    | cons v r => exact ⟨joinSp (v :: r), by simp [joinSp_cons, wInfo, wDepth, pfxInfo]⟩
  obtain ⟨tl, htl⟩ := hpre (a ++ wTime :: t :: (npsWords x ++ b)) (by simp)
  have hsplit : splitSp (joinSp (wInfo :: wDepth :: (a ++ wTime :: t :: (npsWords x ++ b))))
      = wInfo :: wDepth :: (a ++ wTime :: t :: (npsWords x ++ b)) := by
    apply splitSp_joinSp _ (by simp)
    intro w hw
    simp only [List.cons_append, List.mem_cons, List.mem_append] at hw
    rcases hw with rfl | rfl | hw | rfl | rfl | hw | hw
    · decide
    · decide
    · exact (ha w hw).1.1
    · decide
    · exact ht.1
    · cases x with
      | none => simp [npsWords] at hw
      | some v =>
        simp only [npsWords, List.mem_cons, List.not_mem_nil, or_false] at hw
        rcases hw with rfl | rfl
        · decide
        · exact (hx _ rfl).1
    · exact (hb w hw).1.1
  unfold canonLine
  rw [hsplit]
  rw [htl]
  have p1 : (['n', 'p', 's', ' '] : List Char).isPrefixOf (pfxInfo ++ tl) = false := by simp [pfxInfo, List.isPrefixOf]
  have p2 : (['t', 'i', 'm', 'e', ' '] : List Char).isPrefixOf (pfxInfo ++ tl) = false := by simp [pfxInfo, List.isPrefixOf]
  have p3 : pfxId.isPrefixOf (pfxInfo ++ tl) = false := by simp [pfxInfo, pfxId, List.isPrefixOf]
  have p4 : pfxInfo.isPrefixOf (pfxInfo ++ tl) = true := by
    rw [List.isPrefixOf_iff_prefix]; exact List.prefix_append _ _
  simp only [p1, p2, p3, p4, Bool.false_eq_true, if_false, if_true, Option.some.injEq]
  congr 1
  have hpl : ∀ w ∈ wInfo :: wDepth :: a, Plain w := by
    intro w hw
    simp only [List.mem_cons] at hw
    rcases hw with rfl | rfl | hw
    · constructor <;> decide
    · constructor <;> decide
    · exact (ha w hw).2
  have e : wInfo :: wDepth :: (a ++ wTime :: t :: (npsWords x ++ b))
      = (wInfo :: wDepth :: a) ++ (wTime :: t :: (npsWords x ++ b)) := by simp
  rw [e, canonWords_append_plain _ _ hpl]
  have hbp : canonWords none b = b := canonWords_all_plain b (fun w hw => (hb w hw).2)
  have : canonWords none (wTime :: t :: (npsWords x ++ b)) = wTime :: ['?'] :: b := by
    rw [show wTime = ['t', 'i', 'm', 'e'] from rfl, canonWords_time]
    cases x with
    | none => simpa [npsWords] using hbp
    | some v =>
      have : canonWords none (npsWords (some v) ++ b) = b := by
        show canonWords none (['n', 'p', 's'] :: v :: b) = b
        rw [canonWords_nps, hbp]
      rw [this]
  rw [this]
  simp

/-! ## squares and moves -/
theorem fileChar_facts : ∀ k, k < 8 → fileChar k ≠ ' ' ∧ fileChar k ≠ '\n' ∧ fileChar k ≠ 'n' ∧ fileChar k ≠ 't' ∧ fileChar k ≠ 'i' := by
  decide
theorem rankChar_facts : ∀ k, k < 8 → rankChar k ≠ ' ' ∧ rankChar k ≠ '\n' := by decide

theorem sqName_word (s : Nat) (h : s < 64) : Word (sqName s) := by
  have hf := fileChar_facts (s % 8) (Nat.mod_lt _ (by decide))
  have hr := rankChar_facts (s / 8) (by omega)
  constructor <;> simp only [sqName, List.mem_cons, List.not_mem_nil, or_false, not_or]
  · exact ⟨Ne.symm hf.1, Ne.symm hr.1⟩
  · exact ⟨Ne.symm hf.2.1, Ne.symm hr.2⟩

theorem promoChars_word (pc : Nat) : Word (promoChars pc) := by
  unfold promoChars
  split <;> constructor <;> decide

theorem word_append {a b : List Char} (ha : Word a) (hb : Word b) : Word (a ++ b) :=
  ⟨by simp [ha.1, hb.1], by simp [ha.2, hb.2]⟩

/-- the printed form of a move between on-board squares: a word that starts with a file letter. -/
theorem toUciChars_facts (p : Position) (m : Mv) (h1 : m.src < 64) (h2 : m.dst < 64) :
    Word (toUciChars p m) ∧ ∃ c r, toUciChars p m = c :: r ∧ c ≠ 'n' ∧ c ≠ 't' ∧ c ≠ 'i' := by
  unfold toUciChars
  have ht : (if (!p.frc && p.c0.isSet m.dst) = true then (if fileOf m.dst > fileOf m.src then 6 else 2) else m.dst) < 64 := by
    split
    · split <;> decide
    · exact h2
  have hs : (if p.black = true then flipSq m.src else m.src) < 64 := by
    split
    · exact flipSq_lt h1
    · exact h1
  have hd : (if p.black = true then flipSq (if (!p.frc && p.c0.isSet m.dst) = true then (if fileOf m.dst > fileOf m.src then 6 else 2) else m.dst)
      else (if (!p.frc && p.c0.isSet m.dst) = true then (if fileOf m.dst > fileOf m.src then 6 else 2) else m.dst)) < 64 := by
    split
    · exact flipSq_lt ht
    · exact ht
  refine ⟨word_append (word_append (sqName_word _ hs) (sqName_word _ hd)) (promoChars_word _), ?_⟩
  have hf := fileChar_facts ((if p.black = true then flipSq m.src else m.src) % 8) (Nat.mod_lt _ (by decide))
  exact ⟨_, _, rfl, hf.2.2.1, hf.2.2.2.1, hf.2.2.2.2⟩

theorem plain_of_head {w : List Char} (h : ∃ c r, w = c :: r ∧ c ≠ 'n' ∧ c ≠ 't' ∧ c ≠ 'i') : Plain w := by
  obtain ⟨c, r, rfl, h1, h2, _⟩ := h
  constructor
  · intro e; injection e with e _; exact h2 e
  · intro e; injection e with e _; exact h1 e

/-! ## strings -/
theorem join_toList (l : List String) : (String.join l).toList = l.flatMap String.toList := by
  have : ∀ (acc : String), (l.foldl (fun r s => r ++ s) acc).toList = acc.toList ++ l.flatMap String.toList := by
    induction l with
    | nil => intro acc; simp
    | cons a l ih => intro acc; simp [ih, String.toList_append]
  simpa [String.join] using this ""

end Rawr.Sess
