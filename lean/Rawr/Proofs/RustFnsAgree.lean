import Rawr.Generated.RustFns
import Rawr.Model.Rays
import Rawr.Model.Eval
import Rawr.Model.MoveGen
/-!
# The hand-written model agrees with the definitions REGENERATED from the Rust source

`Rawr/Generated/RustFns.lean` is rewritten by `tools/rust2lean.py` from /repo on every run
(src/chess/bitboard.rs, src/chess/rays.rs, src/search/eval.rs helpers, `line_between` of
move_generator.rs and count_moves.rs). The theorems below say that each model definition IS the
regenerated one. A change to one of those Rust functions changes the generated definition and breaks
the corresponding theorem on the next run — for these functions the tie between model and code is
a translation, re-checked on every run, not a sample.
-/
namespace Rawr

theorem agree_fromSquare : @R.fromSquare = @bit := rfl
theorem agree_north : @R.north = @north := rfl
theorem agree_south : @R.south = @south := rfl
theorem agree_east : @R.east = @east := rfl
theorem agree_west : @R.west = @west := rfl
theorem agree_northEast : @R.northEast = @northEast := rfl
theorem agree_northWest : @R.northWest = @northWest := rfl
theorem agree_southEast : @R.southEast = @southEast := rfl
theorem agree_southWest : @R.southWest = @southWest := rfl
theorem agree_northNorth : @R.northNorth = @northNorth := rfl
theorem agree_adjacent : @R.adjacent = @adjacent := rfl

private theorem zero_or' (x : BB) : (0#64 ||| x) = x := by simp

theorem agree_rayNE : @R.rayNE = @rayNE := by
  funext s o; simp only [R.rayNE, rayNE, rayFill, zero_or', agree_northEast, agree_fromSquare]
theorem agree_rayNW : @R.rayNW = @rayNW := by
  funext s o; simp only [R.rayNW, rayNW, rayFill, zero_or', agree_northWest, agree_fromSquare]
theorem agree_raySE : @R.raySE = @raySE := by
  funext s o; simp only [R.raySE, raySE, rayFill, zero_or', agree_southEast, agree_fromSquare]
theorem agree_raySW : @R.raySW = @raySW := by
  funext s o; simp only [R.raySW, raySW, rayFill, zero_or', agree_southWest, agree_fromSquare]
theorem agree_rayN : @R.rayN = @rayN := by
  funext s o; simp only [R.rayN, rayN, rayFill, zero_or', agree_north, agree_fromSquare]
theorem agree_rayS : @R.rayS = @rayS := by
  funext s o; simp only [R.rayS, rayS, rayFill, zero_or', agree_south, agree_fromSquare]
theorem agree_rayE : @R.rayE = @rayE := by
  funext s o; simp only [R.rayE, rayE, rayFill, zero_or', agree_east, agree_fromSquare]
theorem agree_rayW : @R.rayW = @rayW := by
  funext s o; simp only [R.rayW, rayW, rayFill, zero_or', agree_west, agree_fromSquare]

theorem agree_knights : @R.knights = @knights := by
  funext b; simp only [R.knights, knights, agree_north, agree_south, agree_east, agree_west, agree_northEast,
    agree_northWest, agree_southEast, agree_southWest]
theorem agree_pawns : @R.pawns = @pawnsAtt := by
  funext u b; simp only [R.pawns, pawnsAtt, agree_northEast, agree_northWest, agree_southEast, agree_southWest]

theorem agree_passedPawns : @R.passedPawns = @passedPawns := by
  funext u t; simp only [R.passedPawns, passedPawns, agree_south, agree_southEast, agree_southWest]
theorem agree_openFiles : @R.openFiles = @openFiles := rfl
theorem agree_kingShield : @R.kingShield = @kingShield := by
  funext k; simp only [R.kingShield, kingShield, agree_north, agree_northEast, agree_northWest, agree_fromSquare]

theorem agree_lineBetween_gen : @R.lineBetweenGen = @lineBetween := by
  funext a b; simp only [R.lineBetweenGen, lineBetween, agree_fromSquare]
theorem agree_lineBetween_count : @R.lineBetweenCount = @lineBetween := by
  funext a b; simp only [R.lineBetweenCount, lineBetween, agree_fromSquare]

end Rawr
