import Rawr.Proofs.HashLemmas
/-! C04(b): the null move keeps `hash = calculateHash`. -/
namespace Rawr.ZH
open Rawr Rawr.Position

theorem xor_cancel_right (a e : BB) : a ^^^ e ^^^ e = a := by
  rw [BitVec.xor_assoc, BitVec.xor_self, BitVec.xor_zero]

theorem metaKey_split (K : ZKeys) (t : Bool) (ep : Option Nat) (uK uQ tK tQ : Bool) :
    metaKey K t ep uK uQ tK tQ = metaKey K t none uK uQ tK tQ ^^^ epKey K ep := by
  unfold metaKey
  simp only [epKey, BitVec.zero_xor]
  ac_rfl

/-- clearing the en-passant square (and any counter) removes exactly the en-passant file key. -/
theorem calc_clear_ep (K : ZKeys) (q : Position) (hm : Int) :
    calculateHashK K { q with halfmoves := hm, ep := none } = calculateHashK K q ^^^ epKey K q.ep := by
  rw [calc_eq, calc_eq, metaKey_split K q.black q.ep]
  show pieceKey K q.black q.c0 q.c1 q.piece ^^^ metaKey K q.black none q.usK q.usQ q.themK q.themQ = _
  rw [← BitVec.xor_assoc, xor_cancel_right]

theorem calc_set_hash (K : ZKeys) (q : Position) (h : BB) :
    calculateHashK K { q with hash := h } = calculateHashK K q := rfl

theorem makenull_hash (p : Position) :
    p.makenull.hash = p.hash ^^^ genKeys.turn ^^^ epKey genKeys p.ep := by
  unfold makenull
  cases p.ep <;> simp [Position.flip, epKey]

theorem makenull_calc (p : Position) :
    p.makenull.calculateHash = p.calculateHash ^^^ genKeys.turn ^^^ epKey genKeys p.ep := by
  unfold makenull calculateHash
  simp only []
  rw [calc_clear_ep, calc_flip, calc_set_hash]
  show _ ^^^ epKey genKeys (p.ep.map flipSq) = _
  rw [epKey_flip]

theorem null_preserves (p : Position) (h : p.hash = p.calculateHash) :
    p.makenull.hash = p.makenull.calculateHash := by
  rw [makenull_hash, makenull_calc, h]

end Rawr.ZH
