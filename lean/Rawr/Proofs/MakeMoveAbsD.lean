import Rawr.Proofs.MakeMoveAbsC
import Rawr.Proofs.MakeMoveAbsV1
/-! C02, specification side: `Spec.apply` unfolded field by field, the castling-right bookkeeping in
mover-relative terms, and the refinement theorem for non-castling moves. -/
namespace Rawr.MM
open Rawr Rawr.Position Rawr.Spec Rawr.ZH Rawr.SV

/-! ### `abs`, field by field -/

def optR (b : Bool) (f : Nat) : Option Nat := if b = true then some f else none

theorem abs_wK (p : Position) : (abs p).wK = if p.black = true then optR p.themK p.cf2 else optR p.usK p.cf0 := rfl
theorem abs_wQ (p : Position) : (abs p).wQ = if p.black = true then optR p.themQ p.cf3 else optR p.usQ p.cf1 := rfl
theorem abs_bK (p : Position) : (abs p).bK = if p.black = true then optR p.usK p.cf0 else optR p.themK p.cf2 := rfl
theorem abs_bQ (p : Position) : (abs p).bQ = if p.black = true then optR p.usQ p.cf1 else optR p.themQ p.cf3 := rfl

theorem abs_full_eq (S : Position) :
    abs (stFull S) = { abs S with full := if S.black = true then S.fullmoves + 1 else S.fullmoves } := by
  unfold stFull
  split
  · rfl
  · rfl

/-- `abs` of the final position in terms of the pre-flip position `S`. -/
theorem abs_result (S : Position) (hC : Consistent S = true) :
    AbsEq (abs (stFull S).flip)
      { abs S with whiteToMove := S.black, full := if S.black = true then S.fullmoves + 1 else S.fullmoves } := by
  obtain ⟨e0, e1, _⟩ := full_fields S
  have hd : ∀ x, ((stFull S).c0.getLsbD x && (stFull S).c1.getLsbD x) = false := by
    intro x; rw [e0, e1]; exact disj_bit hC x
  have h := abs_flip (stFull S) hd
  rw [abs_full_eq] at h
  refine h.trans ⟨fun _ _ => rfl, ?_, rfl, rfl, rfl, rfl, rfl, rfl, rfl⟩
  show (!!S.black) = S.black
  cases S.black <;> rfl

/-! ### squares of the home ranks -/

theorem sq_home_us (b : Bool) {f : Nat} (hf : f < 8) : sq (f : Int) (homeRank (!b)) = absSq b (fromCoords f 0) := by
  cases b
  · simp [sq, homeRank, fromCoords, absSq]
  · have : fromCoords f 0 = f := by simp [fromCoords]
    rw [this, absSq_true (by omega)]
    simp only [sq, homeRank, Bool.not_true, Bool.false_eq_true, if_false]
    omega

theorem sq_home_them (b : Bool) {f : Nat} (hf : f < 8) : sq (f : Int) (homeRank b) = absSq b (fromCoords f 7) := by
  cases b
  · simp only [sq, homeRank, Bool.false_eq_true, if_false, fromCoords, absSq]
    omega
  · rw [absSq_true (by simp only [fromCoords]; omega)]
    simp only [sq, homeRank, if_true, fromCoords]
    omega

theorem lost_us (b r km : Bool) {cf : Nat} (hcf : cf < 8) (src dst : Nat) :
    lostCore (optR r cf) true (homeRank (!b)) (absSq b src) (absSq b dst) km =
      optR (r && (!km && src != fromCoords cf 0 && dst != fromCoords cf 0)) cf := by
  cases r
  · rfl
  · simp only [lostCore, optR, if_true, sq_home_us b hcf, absSq_beq, Bool.true_and, bne]
    cases km <;> cases (src == fromCoords cf 0) <;> cases (dst == fromCoords cf 0) <;> rfl

theorem lost_them (b r km : Bool) {cf : Nat} (hcf : cf < 8) (src dst : Nat) :
    lostCore (optR r cf) false (homeRank b) (absSq b src) (absSq b dst) km =
      optR (r && (src != fromCoords cf 7 && dst != fromCoords cf 7)) cf := by
  cases r
  · rfl
  · simp only [lostCore, optR, if_true, sq_home_them b hcf, absSq_beq, Bool.true_and, Bool.false_and, Bool.false_or, bne]
    cases (src == fromCoords cf 7) <;> cases (dst == fromCoords cf 7) <;> rfl

/-! ### ranks and files -/

theorem rank_absSq (b : Bool) {s : Nat} (h : s < 64) :
    rank (absSq b s) = if b = true then 7 - ((s / 8 : Nat) : Int) else ((s / 8 : Nat) : Int) := by
  cases b
  · rfl
  · rw [absSq_true h]
    simp only [rank, if_true]
    omega

theorem kindOf_pawn {i : Nat} (hi : i < 6) : (kindOf i == Kind.pawn) = (i == 0) := by
  have : i = 0 ∨ i = 1 ∨ i = 2 ∨ i = 3 ∨ i = 4 ∨ i = 5 := by omega
  rcases this with rfl | rfl | rfl | rfl | rfl | rfl <;> rfl

theorem kindOf_king {i : Nat} (hi : i < 6) : (kindOf i == Kind.king) = (i == 5) := by
  have : i = 0 ∨ i = 1 ∨ i = 2 ∨ i = 3 ∨ i = 4 ∨ i = 5 := by omega
  rcases this with rfl | rfl | rfl | rfl | rfl | rfl <;> rfl

theorem valid_unpack {p : Position} (hV : ValidPos p = true) :
    Consistent p = true ∧ Spec.Valid (abs p) = true ∧ p.cf0 < 8 ∧ p.cf1 < 8 ∧ p.cf2 < 8 ∧ p.cf3 < 8 ∧
    p.hash = p.calculateHash := by
  simp only [ValidPos, Bool.and_eq_true, decide_eq_true_eq, beq_iff_eq] at hV
  obtain ⟨⟨⟨⟨⟨⟨⟨⟨hC, hS⟩, _⟩, _⟩, h0⟩, h1⟩, h2⟩, h3⟩, hh⟩ := hV
  exact ⟨hC, hS, h0, h1, h2, h3, hh⟩

theorem int_bne (x y : Nat) : ((x : Int) != (y : Int)) = (x != y) := by
  rw [Bool.eq_iff_iff, bne_iff_ne, bne_iff_ne]
  omega

/-- the square of the pawn captured en passant. -/
theorem ep_sq (b : Bool) {src dst : Nat} (hs : src < 64) (hd : dst < 64) (h8 : 8 ≤ dst)
    (hr : dst / 8 = src / 8 + 1) :
    sq (file (absSq b dst)) (rank (absSq b src)) = absSq b (dst - 8) := by
  rw [file_absSq b hd, rank_absSq b hs]
  cases b
  · simp only [Bool.false_eq_true, if_false, sq, fileOf, absSq_false]
    omega
  · rw [absSq_true (by omega)]
    simp only [if_true, sq, fileOf]
    omega

/-! ### non-castling moves refine `Spec.apply` -/

section nc
variable {p : Position} {m : Mv} {i c : Nat} {cap epc pr : Bool}

theorem nc_board_src (f : NCFacts p m i c cap epc pr) :
    (abs p).board (absSq p.black m.src) = some ⟨!p.black, kindOf i⟩ := by
  show absBoard p _ = _
  rw [(view_of_consistent f.hC).absBoard (absSq_lt _ f.hs)]
  simp only [absSq_absSq, f.hpo, f.h0s, if_true]

theorem nc_board_dst (f : NCFacts p m i c cap epc pr) :
    ((abs p).board (absSq p.black m.dst)).isSome = cap := by
  show (absBoard p _).isSome = _
  rw [(view_of_consistent f.hC).absBoard (absSq_lt _ f.hd)]
  simp only [absSq_absSq]
  cases hcp : cap
  · rw [f.hnc hcp]; rfl
  · rw [f.hc hcp]
    have := f.hcap
    rw [hcp] at this
    simp only [f.h0d, this, Bool.false_eq_true, if_false, if_true]
    rfl

theorem nc_dst_none (f : NCFacts p m i c cap epc pr) : (p.pieceOn m.dst).isNone = !cap := by
  cases hcp : cap
  · rw [f.hnc hcp]; rfl
  · rw [f.hc hcp]; rfl

/-- the specification's en-passant test is the engine's. -/
theorem nc_isEp (f : NCFacts p m i c cap epc pr)
    (hepcE : epc = (i == 0 && fileOf m.src != fileOf m.dst && (p.pieceOn m.dst).isNone)) :
    (kindOf i == Kind.pawn && file (absSq p.black m.src) != file (absSq p.black m.dst) &&
      !((abs p).board (absSq p.black m.dst)).isSome) = epc := by
  rw [kindOf_pawn (pieceOn_lt f.hpo), file_absSq _ f.hs, file_absSq _ f.hd, int_bne, nc_board_dst f, hepcE,
    nc_dst_none f]

/-- the rank relation of an en-passant capture, from the pawn geometry. -/
theorem nc_ep_rank (_f : NCFacts p m i c cap epc pr)
    (hepcE : epc = (i == 0 && fileOf m.src != fileOf m.dst && (p.pieceOn m.dst).isNone))
    (hG : i = 0 → rankOf m.dst = rankOf m.src + 1 ∨ m.dst = m.src + 16) (hE : epc = true) :
    m.dst / 8 = m.src / 8 + 1 := by
  rw [hE] at hepcE
  have h := hepcE.symm
  simp only [Bool.and_eq_true, beq_iff_eq, bne_iff_ne, ne_eq] at h
  obtain ⟨⟨h0, hf⟩, _⟩ := h
  rcases hG h0 with g | g
  · exact g
  · exfalso
    apply hf
    unfold fileOf
    omega

theorem nc_board (f : NCFacts p m i c cap epc pr) (hp6 : pr = true → m.promo < 6)
    (hepcE : epc = (i == 0 && fileOf m.src != fileOf m.dst && (p.pieceOn m.dst).isNone))
    (hprE : pr = (m.promo != 6))
    (hG : i = 0 → rankOf m.dst = rankOf m.src + 1 ∨ m.dst = m.src + 16)
    {h : BB} {hm : Int} {S : Position}
    (R : Res p m i h (bit m.src ||| bit m.dst) (ncD1 m cap epc) (ncDP m i c cap epc pr) hm S)
    (a : Nat) (ha : a < 64) :
    absBoard S a =
      setSq (if epc = true
        then setSq (setSq (abs p).board (absSq p.black m.src) none)
          (sq (file (absSq p.black m.dst)) (rank (absSq p.black m.src))) none
        else setSq (abs p).board (absSq p.black m.src) none) (absSq p.black m.dst)
        (some (match (if (m.promo == 6) = true then none else some (kindOf m.promo)) with
          | some k => ⟨!p.black, k⟩
          | none => ⟨!p.black, kindOf i⟩)) a := by
  have hne := f.hne
  rw [(nc_view f hp6 R).absBoard ha, R.black]
  have hB : (abs p).board a = absBoard p a := rfl
  have hx : absSq p.black a < 64 := absSq_lt _ ha
  have hnp : (some (match (if (m.promo == 6) = true then none else some (kindOf m.promo)) with
          | some k => (⟨!p.black, k⟩ : Piece)
          | none => ⟨!p.black, kindOf i⟩)) = some ⟨!p.black, kindOf (if pr = true then m.promo else i)⟩ := by
    cases h6 : (m.promo == 6)
    · have : pr = true := by rw [hprE]; simp only [bne, h6]; rfl
      simp only [this, if_true, Bool.false_eq_true, if_false]
    · have : pr = false := by rw [hprE]; simp only [bne, h6]; rfl
      simp only [this, if_true, Bool.false_eq_true, if_false]
  rw [hnp]
  have e1 : (absSq p.black a = m.src) = (a = absSq p.black m.src) := propext (absSq_eq_iff _ _ _).symm
  have e2 : (absSq p.black a = m.dst) = (a = absSq p.black m.dst) := propext (absSq_eq_iff _ _ _).symm
  have e3 : (absSq p.black a = m.dst - 8) = (a = absSq p.black (m.dst - 8)) := propext (absSq_eq_iff _ _ _).symm
  have hds : ¬ absSq p.black m.dst = absSq p.black m.src := fun e => hne ((absSq_inj _ _ _).mp e).symm
  have hsd : ¬ absSq p.black m.src = absSq p.black m.dst := fun e => hds e.symm
  unfold ncPo ncU0 ncV0
  simp only [e1, e2, e3]
  cases hE : epc
  · simp only [Bool.false_eq_true, if_false, false_and, setSq]
    by_cases h2 : a = absSq p.black m.dst
    · subst h2
      simp only [if_true, if_neg hds]
    · by_cases h1 : a = absSq p.black m.src
      · subst h1
        simp only [if_neg hsd, if_true]
      · simp only [if_neg h2, if_neg h1, hB, (view_of_consistent f.hC).absBoard ha]
  · have h8 := (f.hepc hE).1
    rw [ep_sq p.black f.hs f.hd h8 (nc_ep_rank f hepcE hG hE)]
    simp only [if_true, true_and, setSq]
    by_cases h2 : a = absSq p.black m.dst
    · subst h2
      simp only [if_true, if_neg hds]
    · by_cases h1 : a = absSq p.black m.src
      · subst h1
        simp only [if_neg hsd, if_true]
        split <;> rfl
      · by_cases h3 : a = absSq p.black (m.dst - 8)
        · subst h3
          simp only [if_neg h2, if_neg h1, if_true]
        · simp only [if_neg h2, if_neg h1, if_neg h3, hB, (view_of_consistent f.hC).absBoard ha]

theorem nc_ep_field (b : Bool) {src dst i : Nat} (hi : i < 6) (hs : src < 64) (hd : dst < 64)
    (hG : i = 0 → rankOf dst = rankOf src + 1 ∨ dst = src + 16) :
    (if (i == 0 && dst - src == 16) = true then some (dst - 8) else none : Option Nat).map (absSq b) =
      if (kindOf i == Kind.pawn && (rank (absSq b dst) - rank (absSq b src)).natAbs == 2) = true
      then some (sq (file (absSq b src)) ((rank (absSq b src) + rank (absSq b dst)) / 2)) else none := by
  rw [kindOf_pawn hi, rank_absSq b hs, rank_absSq b hd, file_absSq b hs]
  by_cases h0 : i = 0
  · subst h0
    unfold rankOf at hG
    have hG := hG rfl
    have L : ((0 == 0 && dst - src == 16) = true) ↔ dst = src + 16 := by
      simp only [beq_self_eq_true, Bool.true_and, beq_iff_eq]; omega
    cases b
    · simp only [Bool.false_eq_true, if_false]
      have Rr : ((0 == 0 && (((dst / 8 : Nat) : Int) - ((src / 8 : Nat) : Int)).natAbs == 2) = true) ↔
          dst = src + 16 := by
        simp only [beq_self_eq_true, Bool.true_and, beq_iff_eq]; omega
      by_cases h16 : dst = src + 16
      · rw [if_pos (L.mpr h16), if_pos (Rr.mpr h16)]
        simp only [Option.map_some, absSq_false, sq, fileOf]
        congr 1
        omega
      · rw [if_neg (fun e => h16 (L.mp e)), if_neg (fun e => h16 (Rr.mp e))]
        rfl
    · simp only [if_true]
      have Rr : ((0 == 0 && (7 - ((dst / 8 : Nat) : Int) - (7 - ((src / 8 : Nat) : Int))).natAbs == 2) = true) ↔
          dst = src + 16 := by
        simp only [beq_self_eq_true, Bool.true_and, beq_iff_eq]; omega
      by_cases h16 : dst = src + 16
      · rw [if_pos (L.mpr h16), if_pos (Rr.mpr h16)]
        simp only [Option.map_some, sq, fileOf]
        rw [absSq_true (by omega)]
        congr 1
        omega
      · rw [if_neg (fun e => h16 (L.mp e)), if_neg (fun e => h16 (Rr.mp e))]
        rfl
  · have : (i == 0) = false := by simp [h0]
    simp [this]

theorem us_right (b r : Bool) {cf i : Nat} (hcf : cf < 8) (hi : i < 6) (src dst l : Nat)
    (h1 : (src == l) = (i == 5)) :
    optR (r && (src != l && src != fromCoords cf 0 && dst != fromCoords cf 0)) cf =
      lostCore (optR r cf) true (homeRank (!b)) (absSq b src) (absSq b dst) (kindOf i == Kind.king) := by
  rw [kindOf_king hi, lost_us b r (i == 5) hcf]
  simp only [bne, h1]

theorem them_right (b r km : Bool) {cf : Nat} (hcf : cf < 8) (src dst l : Nat)
    (h1 : (src == l) = false) :
    optR (r && (src != l && src != fromCoords cf 7 && dst != fromCoords cf 7)) cf =
      lostCore (optR r cf) false (homeRank b) (absSq b src) (absSq b dst) km := by
  rw [lost_them b r km hcf]
  simp only [bne, h1, Bool.not_false, Bool.true_and]

theorem cfs_eq {S p : Position} (h : cfs S = cfs p) :
    S.cf0 = p.cf0 ∧ S.cf1 = p.cf1 ∧ S.cf2 = p.cf2 ∧ S.cf3 = p.cf3 ∧ S.frc = p.frc := by
  simp only [cfs, Prod.mk.injEq] at h
  exact h

/-- a non-castling move of the right shape refines `Spec.apply`. -/
theorem nc_refines (hV : ValidPos p = true) (f : NCFacts p m i c cap epc pr)
    (hepcE : epc = (i == 0 && fileOf m.src != fileOf m.dst && (p.pieceOn m.dst).isNone))
    (hprE : pr = (m.promo != 6)) (hp6 : pr = true → m.promo < 6)
    (hG : i = 0 → rankOf m.dst = rankOf m.src + 1 ∨ m.dst = m.src + 16)
    {h : BB} {S : Position}
    (R : Res p m i h (bit m.src ||| bit m.dst) (ncD1 m cap epc) (ncDP m i c cap epc pr)
      (if (cap || i == 0) = true then 0 else p.halfmoves + 1) S) :
    AbsEq (abs (stFull S).flip)
      (Spec.apply (abs p) (.normal (absSq p.black m.src) (absSq p.black m.dst)
        (if (m.promo == 6) = true then none else some (kindOf m.promo)))) := by
  obtain ⟨hC, _, c0, c1, c2, c3, _⟩ := valid_unpack hV
  have kh := keyHyps_of_valid hV
  have r := rfacts_of kh f.hs f.h0s f.hpo (nc_h3 kh f).1 (nc_h3 kh f).2
  have hi := pieceOn_lt f.hpo
  obtain ⟨e0, e1, e2, e3, _⟩ := cfs_eq R.cf
  refine (abs_result S (nc_consistent f hp6 R)).trans ?_
  rw [apply_normal (nc_board_src f)]
  simp only []
  rw [nc_isEp f hepcE, nc_board_dst f, kindOf_pawn hi]
  refine ⟨?_, ?_, ?_, ?_, ?_, ?_, ?_, ?_, ?_⟩
  · intro a ha
    exact nc_board f hp6 hepcE hprE hG R a ha
  · show S.black = !(!p.black)
    rw [R.black]; cases p.black <;> rfl
  · show (abs S).wK = _
    rw [abs_wK, abs_wK, R.black, e0, e2, R.usK, R.themK]
    show _ = lostCore _ (true == !p.black) _ _ _ _
    cases hb : p.black
    · exact us_right false p.usK c0 hi m.src m.dst _ r.a1
    · exact them_right true p.themK _ c2 m.src m.dst _ r.b1
  · show (abs S).wQ = _
    rw [abs_wQ, abs_wQ, R.black, e1, e3, R.usQ, R.themQ]
    show _ = lostCore _ (true == !p.black) _ _ _ _
    cases hb : p.black
    · exact us_right false p.usQ c1 hi m.src m.dst _ r.a1
    · exact them_right true p.themQ _ c3 m.src m.dst _ r.b1
  · show (abs S).bK = _
    rw [abs_bK, abs_bK, R.black, e0, e2, R.usK, R.themK]
    show _ = lostCore _ (false == !p.black) _ _ _ _
    cases hb : p.black
    · exact them_right false p.themK _ c2 m.src m.dst _ r.b1
    · exact us_right true p.usK c0 hi m.src m.dst _ r.a1
  · show (abs S).bQ = _
    rw [abs_bQ, abs_bQ, R.black, e1, e3, R.usQ, R.themQ]
    show _ = lostCore _ (false == !p.black) _ _ _ _
    cases hb : p.black
    · exact them_right false p.themQ _ c3 m.src m.dst _ r.b1
    · exact us_right true p.usQ c1 hi m.src m.dst _ r.a1
  · show S.ep.map (absSq S.black) = _
    rw [R.black, R.ep]
    have := nc_ep_field p.black hi f.hs f.hd hG
    rw [kindOf_pawn hi] at this
    exact this
  · show S.halfmoves = _
    rw [R.half]
    have : epc = true → (i == 0) = true := by
      intro hE
      rw [hE] at hepcE
      have h := hepcE.symm
      simp only [Bool.and_eq_true] at h
      exact h.1.1
    show _ = if ((i == 0) || cap || epc) = true then 0 else p.halfmoves + 1
    revert this
    cases cap <;> cases (i == 0) <;> cases epc <;> simp
  · show (if S.black = true then S.fullmoves + 1 else S.fullmoves) =
      if (!p.black) = true then p.fullmoves else p.fullmoves + 1
    rw [R.black, R.full]
    cases p.black <;> rfl


end nc

end Rawr.MM
