import Rawr.Proofs.GenShape
/-! Every generated move has the `MoveShape` assumed by C04(a). -/
set_option linter.unusedSimpArgs false
namespace Rawr
open Rawr.Position Rawr.Spec Rawr.ZH

theorem promo6_of_not_pawn {p : Position} {g : GMv} (h : GenOk p g) (hp : g.piece ≠ 0) : g.mv.promo = 6 := by
  apply Classical.byContradiction
  intro hn
  exact hp (h.promo_iff.mp hn).1

theorem promo6_of_rank {p : Position} {g : GMv} (h : GenOk p g) (hr : rankOf g.mv.dst ≠ 7) : g.mv.promo = 6 := by
  apply Classical.byContradiction
  intro hn
  exact hr (h.promo_iff.mp hn).2

theorem moveShape_of_genOk {p : Position} (F : VFacts p) {g : GMv} (h : GenOk p g) : MoveShape p g.mv = true := by
  have hC := F.cons
  unfold MoveShape
  rw [h.tag]
  simp only [h.src_lt, h.dst_lt, h.own, decide_true, Bool.true_and]
  by_cases hd : p.c0.isSet g.mv.dst = true
  · rw [if_pos hd]
    obtain ⟨h5, hc⟩ := h.dst_own hd
    have hp6 : g.mv.promo = 6 := promo6_of_not_pawn h (by pomega)
    rcases hc with ⟨hu, hs, hdst, hcf, hrook, hlt, he6, he5⟩ | ⟨hu, hs, hdst, hcf, hrook, hlt, hk8, he2, he3⟩
    · simp [h5, hp6, hu, he6, he5, ← hdst, hlt]
    · have hne : ¬ (p.usK = true ∧ g.mv.dst = fromCoords p.cf0 0) := by
        rintro ⟨hK, e⟩
        have h1 := (F.rK hK).2.2
        rw [← (ksq_facts F).2.2.2, ← hs] at h1
        have : fromCoords p.cf0 0 = p.cf0 := by simp [fromCoords]
        omega
      by_cases hK : p.usK = true
      · have hne' : g.mv.dst ≠ fromCoords p.cf0 0 := fun e => hne ⟨hK, e⟩
        simp [h5, hp6, hu, hK, hne', he2, he3, ← hdst, hlt]
      · have hK' : p.usK = false := by simpa using hK
        simp [h5, hp6, hu, hK', he2, he3, ← hdst, hlt]
  · rw [if_neg hd]
    have hd' : p.c0.getLsbD g.mv.dst = false := by simpa [BB.isSet] using hd
    rw [Bool.and_eq_true]
    constructor
    · by_cases hp : g.piece = 0
      · rcases h.pawn hp with ⟨e, _⟩ | ⟨_, e, _⟩ | ⟨_, _, hc1⟩ | ⟨_, _, hc1⟩ | ⟨hep, _, h8, hr5, hpw, _⟩
        · have : fileOf g.mv.src = fileOf g.mv.dst := by unfold fileOf; omega
          simp [this]
        · have : fileOf g.mv.src = fileOf g.mv.dst := by unfold fileOf; omega
          simp [this]
        · have := occ_bit hC g.mv.dst
          rw [hc1, Bool.or_true] at this
          have hn : (p.pieceOn g.mv.dst).isNone = false := by
            cases hh : p.pieceOn g.mv.dst
            · rw [hh] at this; cases this
            · rfl
          simp [hn]
        · have := occ_bit hC g.mv.dst
          rw [hc1, Bool.or_true] at this
          have hn : (p.pieceOn g.mv.dst).isNone = false := by
            cases hh : p.pieceOn g.mv.dst
            · rw [hh] at this; cases this
            · rfl
          simp [hn]
        · have hp6 := promo6_of_rank h (by omega)
          simp [hep, h8, hp6, BB.isSet, hpw]
      · have : (g.piece == 0) = false := by simpa using hp
        simp [this]
    · rcases h.promo_mem with e | e | e | e | e
      · simp [e]
      all_goals
        have hp0 := (h.promo_iff.mp (by pomega)).1
        simp [e, hp0]

end Rawr
