import Rawr.Proofs.StyleStep
/-!
# `analyse_game` and `analyse_pgn` preserve the statistics invariant

`Inv` is the invariant of the tool's accumulated `Stats`: it contains every condition of `is_valid`
(`isValid_of_inv`), the list lengths (index safety) and the facts the score bounds need beyond `is_valid`.
It holds of `Stats()` and is preserved by `analyse_game` on every well-formed game (`WFGame`), which
moreover cannot raise.
-/
namespace Rawr.Style

/-- the part of the invariant that concerns whole games. -/
structure GameInv (s : Stats) : Prop where
  games : s.numGames = s.numWins + s.numDraws + s.numLosses
  wins : s.numWins = s.numWinAhead + s.numWinEqual + s.numWinBehind
  lens : s.numGames = s.shortGames + s.mediumGames + s.longGames + s.extremeGames
  lenGL : s.gameLength.length = 1024
  lenFM : s.finalMaterial.length = 207
  chain : ∀ r, 3 ≤ r → r ≤ 6 → s.earlyPawnPushes.getD (r + 1) 0 ≤ s.earlyPawnPushes.getD r 0
  earlySum : s.earlyPawnPushes.sum ≤ enumMinSum 40 s.gameLength
  pushPos : 0 < s.totalPawnPushes → 0 < enumMinSum 40 s.gameLength

/-- the invariant of the accumulated statistics. -/
structure Inv (s : Stats) : Prop where
  step : StepInv s
  game : GameInv s

/-! ## the move loop -/

theorem runLoop_spec (side : Color) : ∀ (plies : List Ply) (L : Loop), StepInv L.stats →
    L.ply + plies.length < 1024 → (∀ p ∈ plies, pawnRankOk side p = true) →
    ∃ L', runLoop side L plies = .ok L' ∧ L'.ply = L.ply + plies.length ∧ StepInv L'.stats ∧
      Frame L.stats L'.stats ∧
      (∀ r, L'.stats.earlyPawnPushes.getD r 0 =
              L.stats.earlyPawnPushes.getD r 0 + earlyPushesFrom side r L.ply plies) ∧
      L'.stats.earlyPawnPushes.sum ≤
        L.stats.earlyPawnPushes.sum + (Nat.min (L.ply + plies.length) 40 - Nat.min L.ply 40) ∧
      L.stats.totalPawnPushes ≤ L'.stats.totalPawnPushes ∧
      L'.stats.totalPawnPushes ≤ L.stats.totalPawnPushes + plies.length
  | [], L, hI, _, _ => by
    refine ⟨L, rfl, by simp, hI, Frame.refl _, ?_, ?_, Nat.le_refl _, by simp⟩
    · intro r; simp [earlyPushesFrom]
    · simp
  | p :: ps, L, hI, hlen, hwf => by
    have hlen' : L.ply + (ps.length + 1) < 1024 := by simpa using hlen
    obtain ⟨L1, h1, hply1, hI1, hF1, hE1, hS1, hT1, hT1'⟩ :=
      step_spec side L p hI (by omega) (hwf p (by simp))
    obtain ⟨L2, h2, hply2, hI2, hF2, hE2, hS2, hT2, hT2'⟩ :=
      runLoop_spec side ps L1 hI1 (by omega) (fun q hq => hwf q (by simp [hq]))
    refine ⟨L2, ?_, ?_, hI2, Frame.trans hF1 hF2, ?_, ?_, by omega, ?_⟩
    · simp only [runLoop, h1, h2]
    · rw [hply2, hply1]; simp; omega
    · intro r
      rw [hE2 r, hE1 r, hply1]
      simp only [earlyPushesFrom]
      omega
    · rw [hply1] at hS2
      simp only [List.length_cons]
      have e1 : Nat.min (L.ply + 1 + ps.length) 40 = Nat.min (L.ply + (ps.length + 1)) 40 := by
        congr 1; omega
      rw [e1] at hS2
      have : Nat.min L.ply 40 ≤ Nat.min (L.ply + 1) 40 := by
        simp only [Nat.min_def]; split <;> split <;> omega
      have : Nat.min (L.ply + 1) 40 ≤ Nat.min (L.ply + (ps.length + 1)) 40 := by
        simp only [Nat.min_def]; split <;> split <;> omega
      have : (if L.ply < 40 then 1 else 0) ≤ Nat.min (L.ply + 1) 40 - Nat.min L.ply 40 := by
        simp only [Nat.min_def]; split <;> split <;> split <;> omega
      omega
    · simp only [List.length_cons]; omega

/-! ## after the loop -/

theorem imbalanceSummary_eq (s : Stats) (L : Loop) :
    ∃ a b c d, imbalanceSummary s L = { s with numQvRR := a, numRRvQ := b, numQv3minor := c, num3minorvQ := d } := by
  unfold imbalanceSummary
  simp only []
  split_ifs <;> exact ⟨_, _, _, _, rfl⟩

theorem castleSummary_eq (s : Stats) (us them : Castled) :
    ∃ a b, castleSummary s us them = { s with castleSame := a, castleOpposite := b } := by
  unfold castleSummary
  cases us <;> cases them <;> exact ⟨_, _, rfl⟩

theorem finishGame_eq (s : Stats) (ply : Nat) (h : ply < s.gameLength.length) :
    ∃ a b c d, a + b + c + d = 1 ∧ s.finishGame ply = .ok
      { s with gameLength := bump s.gameLength ply, shortGames := s.shortGames + a,
               mediumGames := s.mediumGames + b, longGames := s.longGames + c,
               extremeGames := s.extremeGames + d } := by
  unfold Stats.finishGame
  by_cases h80 : ply < 80
  · refine ⟨1, 0, 0, 0, rfl, ?_⟩
    simp only [h80, incAt_ok h, bind, Except.bind, pure, Except.pure, if_true]
    rfl
  · by_cases h100 : ply < 100
    · refine ⟨0, 1, 0, 0, rfl, ?_⟩
      simp only [h80, h100, incAt_ok h, bind, Except.bind, pure, Except.pure, if_true, if_false]
      rfl
    · by_cases h140 : ply < 140
      · refine ⟨0, 0, 1, 0, rfl, ?_⟩
        simp only [h80, h100, h140, incAt_ok h, bind, Except.bind, pure, Except.pure, if_true, if_false]
        rfl
      · refine ⟨0, 0, 0, 1, rfl, ?_⟩
        simp only [h80, h100, h140, incAt_ok h, bind, Except.bind, pure, Except.pure, if_false]
        rfl

theorem resultSummary_eq (s : Stats) (result : Result) (side : Color) (mu mt : Nat) :
    ∃ w dr lo wa we wb, w + dr + lo = 1 ∧ wa + we + wb = w ∧
      resultSummary s result side mu mt =
        { s with numWins := s.numWins + w, numDraws := s.numDraws + dr, numLosses := s.numLosses + lo,
                 numWinAhead := s.numWinAhead + wa, numWinEqual := s.numWinEqual + we,
                 numWinBehind := s.numWinBehind + wb } := by
  have hm : b2n (decide (mu > mt)) + b2n (decide (mu = mt)) + b2n (decide (mu < mt)) = 1 := by
    unfold b2n
    rcases Nat.lt_trichotomy mu mt with h | h | h
    · have h1 : ¬ mu > mt := by omega
      have h2 : ¬ mu = mt := by omega
      simp [h, h1, h2]
    · simp [h]
    · have h1 : ¬ mu = mt := by omega
      have h2 : ¬ mu < mt := by omega
      simp [h, h1, h2]
  unfold resultSummary
  cases result
  · -- white wins
    by_cases hs : (side == WHITE) = true
    · exact ⟨1, 0, 0, _, _, _, rfl, hm, by simp only [hs, if_true]; rfl⟩
    · exact ⟨0, 0, 1, 0, 0, 0, rfl, rfl, by simp only [hs]; rfl⟩
  · by_cases hs : (side == BLACK) = true
    · exact ⟨1, 0, 0, _, _, _, rfl, hm, by simp only [hs, if_true]; rfl⟩
    · exact ⟨0, 0, 1, 0, 0, 0, rfl, rfl, by simp only [hs]; rfl⟩
  · exact ⟨0, 1, 0, 0, 0, 0, rfl, rfl, rfl⟩

/-- flat explicit form of everything after the move loop. -/
theorem finishAnalysis_eq (g : Game) (side : Color) (L : Loop) (hGL : L.ply < L.stats.gameLength.length)
    (hFM : g.finalWhite.material + g.finalBlack.material < L.stats.finalMaterial.length) :
    ∃ (qa qb qc qd cs co a b c d w dr lo wa we wb : Nat) (fm : List Nat),
      a + b + c + d = 1 ∧ w + dr + lo = 1 ∧ wa + we + wb = w ∧ fm.length = L.stats.finalMaterial.length ∧
      finishAnalysis g side L = .ok
        { L.stats with
          numQvRR := qa, numRRvQ := qb, numQv3minor := qc, num3minorvQ := qd,
          castleSame := cs, castleOpposite := co,
          gameLength := bump L.stats.gameLength L.ply,
          shortGames := L.stats.shortGames + a, mediumGames := L.stats.mediumGames + b,
          longGames := L.stats.longGames + c, extremeGames := L.stats.extremeGames + d,
          numGames := L.stats.numGames + 1,
          numWins := L.stats.numWins + w, numDraws := L.stats.numDraws + dr, numLosses := L.stats.numLosses + lo,
          numWinAhead := L.stats.numWinAhead + wa, numWinEqual := L.stats.numWinEqual + we,
          numWinBehind := L.stats.numWinBehind + wb,
          finalMaterial := fm } := by
  unfold finishAnalysis
  simp only []
  obtain ⟨qa, qb, qc, qd, h1⟩ := imbalanceSummary_eq L.stats L
  generalize imbalanceSummary L.stats L = s1 at h1 ⊢
  obtain ⟨cs, co, h2⟩ := castleSummary_eq s1 L.usCastled L.themCastled
  generalize castleSummary s1 L.usCastled L.themCastled = s2 at h2 ⊢
  have hGL2 : L.ply < s2.gameLength.length := by subst h2; subst h1; exact hGL
  obtain ⟨a, b, c, d, habcd, h3⟩ := finishGame_eq s2 L.ply hGL2
  obtain ⟨s3, hs3, h3'⟩ := ok_name h3
  rw [h3']
  simp only []
  generalize hmu : (if (side == WHITE) = true then g.finalWhite.material else g.finalBlack.material) = mu
  generalize hmt : (if (side == WHITE) = true then g.finalBlack.material else g.finalWhite.material) = mt
  have hsum : mu + mt = g.finalWhite.material + g.finalBlack.material := by
    subst hmu; subst hmt; split <;> omega
  obtain ⟨w, dr, lo, wa, we, wb, hw, hwa, h4⟩ :=
    resultSummary_eq s3.countGame g.result side mu mt
  generalize resultSummary s3.countGame g.result side mu mt = s4 at h4 ⊢
  have hFM4 : mu + mt < s4.finalMaterial.length := by
    subst h4; subst hs3; subst h2; subst h1; rw [hsum]; exact hFM
  rw [incAt_ok hFM4]
  simp only []
  subst h4; subst hs3; subst h2; subst h1
  exact ⟨qa, qb, qc, qd, cs, co, a, b, c, d, w, dr, lo, wa, we, wb, _, habcd, hw, hwa, (length_bump _ _).trans rfl, rfl⟩

/-! ## `analyse_game` -/

/-- `analyse_game` on a well-formed game cannot raise and preserves the invariant. -/
theorem analyseGame_inv (g : Game) (side : Color) (s : Stats) (hI : Inv s) (hwf : WFGame side g) :
    ∃ s', analyseGame g side s = .ok s' ∧ Inv s' ∧ s'.numGames = s.numGames + 1 := by
  obtain ⟨L, hL, hply, hSI, hF, hE, hS, hT, hT'⟩ :=
    runLoop_spec side g.plies { stats := s } hI.step (by simpa using hwf.short) hwf.pawnRank
  have hply' : L.ply = g.plies.length := by simpa using hply
  have hF : Frame s L.stats := hF
  have hE : ∀ r, L.stats.earlyPawnPushes.getD r 0 =
      s.earlyPawnPushes.getD r 0 + earlyPushesFrom side r 0 g.plies := hE
  have hS : L.stats.earlyPawnPushes.sum ≤
      s.earlyPawnPushes.sum + (Nat.min (0 + g.plies.length) 40 - Nat.min 0 40) := hS
  have hT' : L.stats.totalPawnPushes ≤ s.totalPawnPushes + g.plies.length := hT'
  have hGL : L.ply < L.stats.gameLength.length := by
    rw [hF.gameLength, hI.game.lenGL, hply']; exact hwf.short
  have hFM : g.finalWhite.material + g.finalBlack.material < L.stats.finalMaterial.length := by
    rw [hF.finalMaterial, hI.game.lenFM]; have := hwf.material; omega
  obtain ⟨qa, qb, qc, qd, cs, co, a, b, c, d, w, dr, lo, wa, we, wb, fm, habcd, hw, hwa, hfm, hfin⟩ :=
    finishAnalysis_eq g side L hGL hFM
  refine ⟨_, (by simp only [analyseGame, hL]; exact hfin), ⟨?_, ?_⟩, ?_⟩
  · exact ⟨hSI.moves, hSI.chk, hSI.caps, hSI.capDist, hSI.ncapDist, hSI.lenCD, hSI.lenNCD, hSI.lenNQ, hSI.lenE,
      hSI.lenM, hSI.lenL, hSI.e0, hSI.e1, hSI.m0, hSI.m1, hSI.l0, hSI.l1, hSI.towards, hSI.rook, hSI.bishop⟩
  · have hG := hI.game
    have hms : enumMinSum 40 (bump L.stats.gameLength L.ply) =
        enumMinSum 40 s.gameLength + Nat.min g.plies.length 40 := by
      rw [enumMinSum_bump 40 _ _ hGL, hF.gameLength, hply']
    constructor <;> dsimp only
    · rw [hF.numGames, hF.numWins, hF.numDraws, hF.numLosses]; have := hG.games; omega
    · rw [hF.numWins, hF.numWinAhead, hF.numWinEqual, hF.numWinBehind]; have := hG.wins; omega
    · rw [hF.numGames, hF.shortGames, hF.mediumGames, hF.longGames, hF.extremeGames]; have := hG.lens; omega
    · rw [length_bump, hF.gameLength]; exact hG.lenGL
    · rw [hfm, hF.finalMaterial]; exact hG.lenFM
    · intro r h3 h6
      rw [hE (r + 1), hE r]
      have h1 := hG.chain r h3 h6
      have h2 := hwf.chain r h3 h6
      simp only [earlyPushes] at h2
      omega
    · rw [hms]
      have h1 := hG.earlySum
      have h2 := hS
      simp only [Nat.zero_add] at h2
      have : Nat.min 0 40 = 0 := by decide
      omega
    · intro hpos
      rw [hms]
      have h1 := hG.pushPos
      have h2 := hT'
      by_cases h0 : 0 < s.totalPawnPushes
      · have := h1 h0; omega
      · have hlen : 0 < g.plies.length := by omega
        have : 0 < Nat.min g.plies.length 40 := by
          simp only [Nat.min_def]; split <;> omega
        omega
  · dsimp only; rw [hF.numGames]

/-! ## `is_valid` and `Stats()` -/

theorem isValid_of_inv {s : Stats} (h : Inv s) : isValid s = .ok true := by
  have hS := h.step
  have hG := h.game
  unfold isValid
  rw [if_neg (by have := hG.games; omega), if_neg (by have := hS.moves; omega), if_neg (by have := hS.chk; omega),
    if_neg (by have := hG.games; omega), if_neg (by have := hG.wins; omega), if_neg (by have := hG.lens; omega),
    if_neg (by have := hS.caps; omega)]
  simp only [getAt_ok (show 0 < s.earlyPawnPushes.length by rw [hS.lenE]; omega),
    getAt_ok (show 1 < s.earlyPawnPushes.length by rw [hS.lenE]; omega),
    getAt_ok (show 0 < s.midPawnPushes.length by rw [hS.lenM]; omega),
    getAt_ok (show 1 < s.midPawnPushes.length by rw [hS.lenM]; omega),
    getAt_ok (show 0 < s.latePawnPushes.length by rw [hS.lenL]; omega),
    getAt_ok (show 1 < s.latePawnPushes.length by rw [hS.lenL]; omega),
    hS.e0, hS.e1, hS.m0, hS.m1, hS.l0, hS.l1, Nat.lt_irrefl, if_false]
  rw [if_neg (by have := hS.towards; omega)]

theorem sum_replicate_zero : ∀ n : Nat, (List.replicate n 0).sum = 0
  | 0 => rfl
  | n + 1 => by rw [List.replicate_succ, List.sum_cons, sum_replicate_zero n]

theorem getD_replicate_zero : ∀ (n i : Nat), (List.replicate n 0).getD i 0 = 0
  | 0, _ => rfl
  | _ + 1, 0 => rfl
  | n + 1, i + 1 => by
    rw [List.replicate_succ, List.getD_cons_succ]; exact getD_replicate_zero n i

theorem enumMinSumFrom_replicate_zero (c : Nat) : ∀ (n k : Nat), enumMinSumFrom c k (List.replicate n 0) = 0
  | 0, _ => rfl
  | n + 1, k => by
    rw [List.replicate_succ, enumMinSumFrom, enumMinSumFrom_replicate_zero c n (k + 1)]
    simp

theorem inv_fresh : Inv Stats.fresh := by
  refine ⟨⟨rfl, rfl, rfl, sum_replicate_zero 8, sum_replicate_zero 8, List.length_replicate, List.length_replicate,
    List.length_replicate, List.length_replicate, List.length_replicate, List.length_replicate,
    getD_replicate_zero 8 0, getD_replicate_zero 8 1, getD_replicate_zero 8 0, getD_replicate_zero 8 1,
    getD_replicate_zero 8 0, getD_replicate_zero 8 1, Nat.le_refl _, Nat.le_refl _, Nat.le_refl _⟩,
    ⟨rfl, rfl, rfl, List.length_replicate, List.length_replicate, ?_, ?_, ?_⟩⟩
  · intro r _ _
    show (List.replicate 8 0).getD (r + 1) 0 ≤ (List.replicate 8 0).getD r 0
    rw [getD_replicate_zero, getD_replicate_zero]
    exact Nat.le_refl _
  · show (List.replicate 8 0).sum ≤ enumMinSumFrom 40 0 (List.replicate 1024 0)
    rw [sum_replicate_zero, enumMinSumFrom_replicate_zero]
    exact Nat.le_refl _
  · intro h
    exact absurd h (Nat.lt_irrefl 0)

/-! ## `analyse_pgn` -/

/-- every well-formed job list is analysed without an exception, and the result satisfies the invariant
(hence `assert(is_valid(stats))` holds after every game). -/
theorem analysePgn_inv : ∀ (jobs : List (Game × Color)) (s : Stats), Inv s →
    (∀ j ∈ jobs, WFGame j.2 j.1) →
    ∃ s', analysePgn jobs s = .ok s' ∧ Inv s' ∧ s'.numGames = s.numGames + jobs.length
  | [], s, hI, _ => ⟨s, rfl, hI, by simp⟩
  | (g, side) :: js, s, hI, hwf => by
    obtain ⟨s1, h1, hI1, hn1⟩ := analyseGame_inv g side s hI (hwf (g, side) (by simp))
    obtain ⟨s2, h2, hI2, hn2⟩ := analysePgn_inv js s1 hI1 (fun j hj => hwf j (by simp [hj]))
    refine ⟨s2, ?_, hI2, ?_⟩
    · simp only [analysePgn, h1, isValid_of_inv hI1, h2]
    · rw [hn2, hn1]; simp; omega

end Rawr.Style
