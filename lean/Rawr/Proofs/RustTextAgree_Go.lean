import Rawr.Proofs.RustTextAgree
import Rawr.Proofs.RustImpAgree_MakeMove
import Rawr.Proofs.RustImpAgree_MoveGen
/-!
# chess/perft.rs, uci/setoption.rs, uci/go.rs (`parse_go`) regenerated from the Rust source agree with the model
(`perft`, `doSetoption`, `parseGoLoop` / `parseGo` of Rawr/Model/Uci.lean)
-/
set_option linter.unusedSimpArgs false
namespace Rawr
open Position

/-! ## chess/perft.rs -/
theorem agree_pos_perft (ar : Arith) : ∀ (fuel depth : Nat) (p : Position), depth < fuel →
    R.pos_perft fuel ar p depth = perft depth p := by
  intro fuel
  induction fuel with
  | zero => intro depth p h; omega
  | succ fuel ih =>
    intro depth p h
    unfold R.pos_perft
    match depth, h with
    | 0, _ => simp [perft]
    | 1, _ => simp [perft, agree_count_moves]
    | d + 2, h =>
      have hd : d + 1 < fuel := by omega
      have hu : u8sub ar (d + 2) 1 = some (d + 1) := by simp [u8sub]
      simp only [show ((d + 2 == 0) = false) from by simp, show ((d + 2 == 1) = false) from by simp, Bool.false_eq_true,
        if_false, agree_move_generator, agree_after_move, hu, bind, pure, Option.bind_some]
      rw [perft.eq_3 p (d + 1) (by omega)]
      unfold legalMoves
      -- the loop over the generated moves against the model's fold
      have key : ∀ (l : List GMv) (acc : Nat),
          (forIn l acc (fun g r => (p.makemove g.mv false).bind fun np =>
              (R.pos_perft fuel ar np (d + 1)).bind fun x => some (ForInStep.yield (r + x)))) =
            (l.map (·.mv)).foldl (fun acc m =>
              match acc, p.makemove m false with
              | some a, some np => (perft (d + 1) np).map (a + ·)
              | _, _ => none) (some acc) := by
        intro l
        induction l with
        | nil => intro acc; rfl
        | cons g l ihl =>
          intro acc
          have hnone : ∀ (l' : List Mv), l'.foldl (fun acc m =>
              match acc, p.makemove m false with
              | some a, some np => (perft (d + 1) np).map (a + ·)
              | _, _ => none) none = none := by
            intro l'; induction l' with
            | nil => rfl
            | cons _ _ ih' => simpa using ih'
          simp only [List.forIn_cons, List.map_cons, List.foldl_cons, bind]
          cases hm : p.makemove g.mv false with
          | none => simp only [Option.bind_none]; exact (hnone _).symm
          | some np =>
            simp only [Option.bind_some]
            rw [ih _ _ hd]
            cases hp : perft (d + 1) np with
            | none => simp only [Option.bind_none, Option.map_none]; exact (hnone _).symm
            | some x => simp only [Option.bind_some, Option.map_some]; exact ihl _
      rw [key]
      exact Option.bind_fun_some _

example : R.pos_perft 3 .trap Gen.startpos 2 = some 400 := by decide +kernel


/-! ## uci/setoption.rs
`setoption(stream, func)` calls the callback at most once; the translation returns the list of callback invocations.
The model's `doSetoption` is this argument extraction followed by the callback of listen.rs. -/
theorem agree_setoption (toks : List (List Char)) :
    (R.setoption toks).2 =
      (match toks with
       | n :: name :: v :: value :: _ => if n != str "name" || v != str "value" then [] else [(name, value)]
       | _ => []) := by
  have e1 : str "name" = ['n', 'a', 'm', 'e'] := by decide
  have e2 : str "value" = ['v', 'a', 'l', 'u', 'e'] := by decide
  unfold R.setoption
  rw [e1, e2]
  match toks with
  | [] => rfl
  | [a] => by_cases h : a = ['n', 'a', 'm', 'e'] <;> simp [h]
  | [a, b] => by_cases h : a = ['n', 'a', 'm', 'e'] <;> simp [h]
  | [a, b, c] =>
    by_cases h : a = ['n', 'a', 'm', 'e'] <;> by_cases h2 : c = ['v', 'a', 'l', 'u', 'e'] <;> simp [h, h2]
  | a :: b :: c :: d :: r =>
    by_cases h : a = ['n', 'a', 'm', 'e'] <;> by_cases h2 : c = ['v', 'a', 'l', 'u', 'e'] <;> simp [h, h2]

/-- the model's `doSetoption` is the extracted (name, value) pair fed to the callback of listen.rs. -/
theorem doSetoption_eq (s : UState) (toks : List (List Char)) (second : Bool) :
    doSetoption s toks second =
      (R.setoption toks).2.foldl (fun s nv =>
        if nv.1 == str "Hash" || nv.1 == str "hash" then
          match parseUnsigned (2^64) nv.2 with
          | some size =>
            let h := max 1 (min size 4096)
            if second then { s with hashMb := h, tt := s.tt.resize h Gen.ttEntrySize } else { s with hashMb := h }
          | none => s
        else if nv.1 == str "UCI_Chess960" then
          let f := nv.2 == str "true"
          { s with frc := f, pos := { s.pos with frc := f } }
        else s) s := by
  rw [agree_setoption]
  unfold doSetoption
  match toks with
  | [] => rfl
  | [a] => rfl
  | [a, b] => rfl
  | [a, b, c] => rfl
  | a :: b :: c :: d :: r =>
    simp only []
    by_cases h : (a != str "name" || c != str "value") = true
    · simp [h]
    · simp only [h, Bool.false_eq_true, if_false, List.foldl_cons, List.foldl_nil]
      rfl

/-! ## uci/go.rs `parse_go` -/
/-- the model's `GoKind` forgets the increments of `settings::Type::Time`. -/
def goToModel : T.GoType → GoKind
  | .time w b _ _ m => .time w b m
  | .movetime t => .movetime t
  | .depth d => .depth d
  | .nodes n => .nodes n
  | .infinite => .infinite
  | .perft d => .perft d
  | .splitPerft d => .split d

/-- the final selection of `parseGo`. -/
def goSelect (a : GoArgs) : Option GoKind :=
  match a.wtime, a.btime, a.depth, a.nodes, a.movetime, a.infinite, a.perft, a.split with
  | some wt, some bt, none, none, none, none, none, none => some (.time wt bt a.mtg)
  | none, none, some d, none, none, none, none, none => some (.depth d)
  | none, none, none, some n, none, none, none, none => some (.nodes n)
  | none, none, none, none, some m, none, none, none => some (.movetime m)
  | none, none, none, none, none, some _, none, none => some .infinite
  | none, none, none, none, none, none, some d, none => some (.perft d)
  | none, none, none, none, none, none, none, some d => some (.split d)
  | _, _, _, _, _, _, _, _ => none

theorem parseGo_eq (toks : List (List Char)) :
    parseGo toks = match parseGoLoop (toks.length + 1) toks {} with | none => none | some a => goSelect a := rfl

abbrev GoLoopState := Option (Option T.GoType × List (List Char)) × Bool × List (List Char) × Option Nat × Option Nat ×
  Option Nat × Option Nat × Option Nat × Option Int × Option Nat × Option Nat × Option Bool × Option Nat × Option Nat

/-- what `parse_go` does with the state after its loop (as a value of the model's type). -/
def goFin (r : GoLoopState) : Option (Option GoKind) :=
  match r.1 with
  | some e => some (e.1.map goToModel)
  | none =>
    if !r.2.1 then none else
    some (goSelect ⟨r.2.2.2.1, r.2.2.2.2.1, r.2.2.2.2.2.1, r.2.2.2.2.2.2.1, r.2.2.2.2.2.2.2.1, r.2.2.2.2.2.2.2.2.1,
      r.2.2.2.2.2.2.2.2.2.1, r.2.2.2.2.2.2.2.2.2.2.1, r.2.2.2.2.2.2.2.2.2.2.2.1, r.2.2.2.2.2.2.2.2.2.2.2.2.1,
      r.2.2.2.2.2.2.2.2.2.2.2.2.2⟩)

theorem parse_go_loop1_eq : ∀ (it : List Nat) (m : Nat) (stream : List (List Char)) (a : GoArgs),
    stream.length + 1 ≤ it.length → stream.length + 1 ≤ m →
    (R.parse_go_loop1 it stream a.wtime a.btime a.winc a.binc a.mtg a.depth a.nodes a.movetime a.infinite a.perft
        a.split).bind goFin
      = some (match parseGoLoop m stream a with | none => none | some a' => goSelect a') := by
  intro it
  induction it with
  | nil => intro m stream a h; simp at h
  | cons x it ih =>
    intro m stream a h1 h2
    obtain ⟨m', rfl⟩ : ∃ m', m = m' + 1 := ⟨m - 1, by omega⟩
    unfold parseGoLoop
    simp only [R.parse_go_loop1, List.forIn_cons] at ih ⊢
    unfold R.parse_go_loop1_step
    have e1 : str "wtime" = ['w', 't', 'i', 'm', 'e'] := by decide
    have e2 : str "btime" = ['b', 't', 'i', 'm', 'e'] := by decide
    have e3 : str "winc" = ['w', 'i', 'n', 'c'] := by decide
    have e4 : str "binc" = ['b', 'i', 'n', 'c'] := by decide
    have e5 : str "movestogo" = ['m', 'o', 'v', 'e', 's', 't', 'o', 'g', 'o'] := by decide
    have e6 : str "depth" = ['d', 'e', 'p', 't', 'h'] := by decide
    have e7 : str "nodes" = ['n', 'o', 'd', 'e', 's'] := by decide
    have e8 : str "movetime" = ['m', 'o', 'v', 'e', 't', 'i', 'm', 'e'] := by decide
    have e9 : str "infinite" = ['i', 'n', 'f', 'i', 'n', 'i', 't', 'e'] := by decide
    have e10 : str "perft" = ['p', 'e', 'r', 'f', 't'] := by decide
    have e11 : str "split" = ['s', 'p', 'l', 'i', 't'] := by decide
    simp only [e1, e2, e3, e4, e5, e6, e7, e8, e9, e10, e11, bind, pure]
    match stream, h1, h2 with
    | [], _, _ => simp [goFin, goSelect]
    | [k], h1, h2 =>
      simp only [List.head?_cons, List.tail_cons, List.head?_nil, List.tail_nil, Option.getD_some, Option.getD_none,
        List.headD_cons, List.drop_succ_cons, List.drop_zero, List.drop_nil, List.headD_nil]
      by_cases c0 : (k == ['w', 't', 'i', 'm', 'e']) = true
      · simp only [c0, if_true, Option.bind_some]
        exact ih m' [] { a with wtime := parseUnsigned (2^32) [] } (by simp at h1 ⊢; omega) (by simp at h2 ⊢; omega)
      · simp only [c0, Bool.false_eq_true, if_false]
        by_cases c1 : (k == ['b', 't', 'i', 'm', 'e']) = true
        · simp only [c1, if_true, Option.bind_some]
          exact ih m' [] { a with btime := parseUnsigned (2^32) [] } (by simp at h1 ⊢; omega) (by simp at h2 ⊢; omega)
        · simp only [c1, Bool.false_eq_true, if_false]
          by_cases c2 : (k == ['w', 'i', 'n', 'c']) = true
          · simp only [c2, if_true, Option.bind_some]
            exact ih m' [] { a with winc := parseUnsigned (2^32) [] } (by simp at h1 ⊢; omega) (by simp at h2 ⊢; omega)
          · simp only [c2, Bool.false_eq_true, if_false]
            by_cases c3 : (k == ['b', 'i', 'n', 'c']) = true
            · simp only [c3, if_true, Option.bind_some]
              exact ih m' [] { a with binc := parseUnsigned (2^32) [] } (by simp at h1 ⊢; omega) (by simp at h2 ⊢; omega)
            · simp only [c3, Bool.false_eq_true, if_false]
              by_cases c4 : (k == ['m', 'o', 'v', 'e', 's', 't', 'o', 'g', 'o']) = true
              · simp only [c4, if_true, Option.bind_some]
                exact ih m' [] { a with mtg := parseUnsigned (2^32) [] } (by simp at h1 ⊢; omega) (by simp at h2 ⊢; omega)
              · simp only [c4, Bool.false_eq_true, if_false]
                by_cases c5 : (k == ['d', 'e', 'p', 't', 'h']) = true
                · simp only [c5, if_true, Option.bind_some]
                  exact ih m' [] { a with depth := parseI32 [] } (by simp at h1 ⊢; omega) (by simp at h2 ⊢; omega)
                · simp only [c5, Bool.false_eq_true, if_false]
                  by_cases c6 : (k == ['n', 'o', 'd', 'e', 's']) = true
                  · simp only [c6, if_true, Option.bind_some]
                    exact ih m' [] { a with nodes := parseUnsigned (2^64) [] } (by simp at h1 ⊢; omega) (by simp at h2 ⊢; omega)
                  · simp only [c6, Bool.false_eq_true, if_false]
                    by_cases c7 : (k == ['m', 'o', 'v', 'e', 't', 'i', 'm', 'e']) = true
                    · simp only [c7, if_true, Option.bind_some]
                      exact ih m' [] { a with movetime := parseUnsigned (2^32) [] } (by simp at h1 ⊢; omega) (by simp at h2 ⊢; omega)
                    · simp only [c7, Bool.false_eq_true, if_false]
                      by_cases c8 : (k == ['i', 'n', 'f', 'i', 'n', 'i', 't', 'e']) = true
                      · simp only [c8, if_true, Option.bind_some]
                        exact ih m' [] { a with infinite := some true } (by simp at h1 ⊢; omega) (by simp at h2 ⊢; omega)
                      · simp only [c8, Bool.false_eq_true, if_false]
                        by_cases c9 : (k == ['p', 'e', 'r', 'f', 't']) = true
                        · simp only [c9, if_true, Option.bind_some]
                          exact ih m' [] { a with perft := parseUnsigned 256 [] } (by simp at h1 ⊢; omega) (by simp at h2 ⊢; omega)
                        · simp only [c9, Bool.false_eq_true, if_false]
                          by_cases c10 : (k == ['s', 'p', 'l', 'i', 't']) = true
                          · simp only [c10, if_true, Option.bind_some]
                            exact ih m' [] { a with split := parseUnsigned 256 [] } (by simp at h1 ⊢; omega) (by simp at h2 ⊢; omega)
                          · simp only [c10, Bool.false_eq_true, if_false]
                            by_cases ce : (k == ([] : List Char)) = true
                            · simp [ce, goFin]
                            · simp [ce, goFin]
    | k :: v :: rest, h1, h2 =>
      simp only [List.head?_cons, List.tail_cons, Option.getD_some, List.headD_cons, List.drop_succ_cons, List.drop_zero]
      by_cases c0 : (k == ['w', 't', 'i', 'm', 'e']) = true
      · simp only [c0, if_true, Option.bind_some]
        exact ih m' rest { a with wtime := parseUnsigned (2^32) v } (by simp at h1 ⊢; omega) (by simp at h2 ⊢; omega)
      · simp only [c0, Bool.false_eq_true, if_false]
        by_cases c1 : (k == ['b', 't', 'i', 'm', 'e']) = true
        · simp only [c1, if_true, Option.bind_some]
          exact ih m' rest { a with btime := parseUnsigned (2^32) v } (by simp at h1 ⊢; omega) (by simp at h2 ⊢; omega)
        · simp only [c1, Bool.false_eq_true, if_false]
          by_cases c2 : (k == ['w', 'i', 'n', 'c']) = true
          · simp only [c2, if_true, Option.bind_some]
            exact ih m' rest { a with winc := parseUnsigned (2^32) v } (by simp at h1 ⊢; omega) (by simp at h2 ⊢; omega)
          · simp only [c2, Bool.false_eq_true, if_false]
            by_cases c3 : (k == ['b', 'i', 'n', 'c']) = true
            · simp only [c3, if_true, Option.bind_some]
              exact ih m' rest { a with binc := parseUnsigned (2^32) v } (by simp at h1 ⊢; omega) (by simp at h2 ⊢; omega)
            · simp only [c3, Bool.false_eq_true, if_false]
              by_cases c4 : (k == ['m', 'o', 'v', 'e', 's', 't', 'o', 'g', 'o']) = true
              · simp only [c4, if_true, Option.bind_some]
                exact ih m' rest { a with mtg := parseUnsigned (2^32) v } (by simp at h1 ⊢; omega) (by simp at h2 ⊢; omega)
              · simp only [c4, Bool.false_eq_true, if_false]
                by_cases c5 : (k == ['d', 'e', 'p', 't', 'h']) = true
                · simp only [c5, if_true, Option.bind_some]
                  exact ih m' rest { a with depth := parseI32 v } (by simp at h1 ⊢; omega) (by simp at h2 ⊢; omega)
                · simp only [c5, Bool.false_eq_true, if_false]
                  by_cases c6 : (k == ['n', 'o', 'd', 'e', 's']) = true
                  · simp only [c6, if_true, Option.bind_some]
                    exact ih m' rest { a with nodes := parseUnsigned (2^64) v } (by simp at h1 ⊢; omega) (by simp at h2 ⊢; omega)
                  · simp only [c6, Bool.false_eq_true, if_false]
                    by_cases c7 : (k == ['m', 'o', 'v', 'e', 't', 'i', 'm', 'e']) = true
                    · simp only [c7, if_true, Option.bind_some]
                      exact ih m' rest { a with movetime := parseUnsigned (2^32) v } (by simp at h1 ⊢; omega) (by simp at h2 ⊢; omega)
                    · simp only [c7, Bool.false_eq_true, if_false]
                      by_cases c8 : (k == ['i', 'n', 'f', 'i', 'n', 'i', 't', 'e']) = true
                      · simp only [c8, if_true, Option.bind_some]
                        exact ih m' rest { a with infinite := some true } (by simp at h1 ⊢; omega) (by simp at h2 ⊢; omega)
                      · simp only [c8, Bool.false_eq_true, if_false]
                        by_cases c9 : (k == ['p', 'e', 'r', 'f', 't']) = true
                        · simp only [c9, if_true, Option.bind_some]
                          exact ih m' rest { a with perft := parseUnsigned 256 v } (by simp at h1 ⊢; omega) (by simp at h2 ⊢; omega)
                        · simp only [c9, Bool.false_eq_true, if_false]
                          by_cases c10 : (k == ['s', 'p', 'l', 'i', 't']) = true
                          · simp only [c10, if_true, Option.bind_some]
                            exact ih m' rest { a with split := parseUnsigned 256 v } (by simp at h1 ⊢; omega) (by simp at h2 ⊢; omega)
                          · simp only [c10, Bool.false_eq_true, if_false]
                            by_cases ce : (k == ([] : List Char)) = true
                            · simp [ce, goFin]
                            · simp [ce, goFin]

/-- **`parse_go`** (uci/go.rs): with enough fuel for the `loop` (one iteration per two tokens) the regenerated function
returns the model's `parseGo` (`Err(_)` = `none`; the model's `GoKind.time` forgets the increments). -/
theorem agree_parse_go (fuel : Nat) (toks : List (List Char)) (h : toks.length + 1 ≤ fuel) :
    (R.parse_go fuel toks).map (fun r => r.1.map goToModel) = some (parseGo toks) := by
  have hloop := parse_go_loop1_eq (List.range fuel) (toks.length + 1) toks {} (by simpa using h) (Nat.le_refl _)
  rw [parseGo_eq, ← hloop]
  unfold R.parse_go
  simp only [bind, pure]
  show Option.map _ (Option.bind (R.parse_go_loop1 (List.range fuel) toks none none none none none none none none none none none) _) = _
  cases R.parse_go_loop1 (List.range fuel) toks none none none none none none none none none none none with
  | none => rfl
  | some r =>
    obtain ⟨early, exited, stream, w, b, wi, bi, mtg, d, n, mt, inf, pf, sp⟩ := r
    cases early with
    | some e => rfl
    | none =>
      cases exited with
      | false => rfl
      | true =>
        simp only [Option.bind_some, goFin]
        cases w <;> cases b <;> cases d <;> cases n <;> cases mt <;> cases inf <;> cases pf <;> cases sp <;> rfl

example : (R.parse_go 9 ["wtime".toList, "1000".toList, "btime".toList, "2000".toList, "winc".toList, "5".toList]).map (·.1)
    = some (some (.time 1000 2000 (some 5) none none)) := by decide +kernel
example : (R.parse_go 9 ["depth".toList, "x".toList]).map (·.1) = some none := by decide +kernel
example : (R.parse_go 9 ["bogus".toList]).map (·.1) = some none := by decide +kernel
end Rawr

#print axioms Rawr.agree_pos_perft
#print axioms Rawr.agree_setoption
#print axioms Rawr.doSetoption_eq
#print axioms Rawr.agree_parse_go
