import Rawr.Proofs.RustSearchAgree_Root
import Rawr.Proofs.RustSearchAgree_Valid
import Rawr.Props.C03_rules
import Rawr.Props.C02_domain
/-!
# The search agreement theorems on the positions the properties quantify over

`agree_qsearch`, `agree_negamax`, `agree_root` assume that the ordering code cannot hit `piece.unwrap()` on an empty
origin square in the tree the search walks (`QOrderOk fuel p` / `OrderOkN fuel p`).  Here that is PROVED for every
valid position (`ValidPos`, `EpConsistent`) whose move counters leave room for `fuel + 64` plies, by walking the same
tree as the C03 proof: `VE` is closed under generated moves and under the null move when not in check
(`searchDomC_VE`), the positions quiescence visits are valid up to the stored key (`QVE`, `qdom_QVE`), and a valid
position (with or without a correct key) has the board facts `VFacts` from which the generator shape lemmas give
`SrcOk`.  The `_rules` corollaries have no other hypothesis.
-/
namespace Rawr
open Position Spec ZH MM SV Br

/-- the board facts do not mention the stored key. -/
theorem vfacts_of_nohash {p : Position} (hV : ValidPosNoHash p = true) : VFacts p :=
  let F := vfacts_of_valid ((validPosNoHash_iff p).mp hV)
  ⟨F.cons, F.king1, F.rK, F.rQ, F.ep⟩

theorem qOrderOk_of_QVE : ∀ (n : Nat) (q : Position), QVE n q → QOrderOk n q := by
  intro n
  induction n with
  | zero => intro q _; trivial
  | succ n ih =>
    intro q h
    exact ⟨srcOk_of_vfacts (vfacts_of_nohash h.1), fun m hm r hk => ih r (qdom_QVE.capt n q m r h hm hk)⟩

theorem QVE_of_VE {n : Nat} {q : Position} (h : VE n q) : QVE qFuel q := by
  obtain ⟨hV, hE, hh, hf⟩ := h
  have : qFuel = 64 := rfl
  exact ⟨validPosNoHash_of_valid hV, hE, by omega, by omega⟩

/-- **the side condition of the agreement theorems holds on `V ∧ E` with counter room.** -/
theorem orderOkN_of_VE : ∀ (n : Nat) (q : Position), VE n q → OrderOkN n q := by
  intro n
  induction n with
  | zero => intro q _; trivial
  | succ n ih =>
    intro q h
    exact ⟨srcOk_of_vfacts (vfacts_of_valid h.1), qOrderOk_of_QVE qFuel q (QVE_of_VE h),
      fun m hm r hk => ih r (searchDomC_VE.move n q m r h hm hk),
      fun hc => ih _ (searchDomC_VE.null n q h hc)⟩

/-- quiescence: regenerated = model on every valid position with counter room. -/
theorem agree_qsearch_rules (fuel : Nat) (p : Position) (hV : ValidPos p = true)
    (hE : Spec.EpConsistent (abs p) = true)
    (hh : p.halfmoves + fuel + 64 < 2147483648) (hf : p.fullmoves + fuel + 64 < 2147483648)
    (st : QState) (alpha beta ply : Int) :
    R.qsearch fuel p st alpha beta ply = qsearch fuel p st alpha beta ply :=
  agree_qsearch fuel p (qOrderOk_of_QVE fuel p ⟨validPosNoHash_of_valid hV, hE, by omega, by omega⟩) st alpha beta ply

/-- negamax: regenerated = model on every valid position with counter room. -/
theorem agree_negamax_rules (lim : Limit) (fuel : Nat) (p : Position) (hV : ValidPos p = true)
    (hE : Spec.EpConsistent (abs p) = true)
    (hh : p.halfmoves + fuel + 64 < 2147483648) (hf : p.fullmoves + fuel + 64 < 2147483648)
    (st : SState) (alpha beta ply depth : Int) (canNull : Bool) :
    R.negamax (fun s => some (shouldStop lim s)) fuel p st alpha beta ply depth canNull =
      negamax lim fuel p st alpha beta ply depth canNull :=
  agree_negamax lim fuel p (orderOkN_of_VE fuel p ⟨hV, hE, hh, hf⟩) st alpha beta ply depth canNull

/-- the driver: regenerated (projected to what the model keeps) = model on every valid position with counter room,
for every search setting (`toLimit` is `none` only for the perft settings, which uci/go.rs never hands to `root`). -/
theorem agree_root_rules (clock : Nat → Nat) (p : Position) (s : R.Settings) (lim : Limit) (fuel : Nat)
    (hlim : toLimit clock p s = some lim) (hV : ValidPos p = true) (hE : Spec.EpConsistent (abs p) = true)
    (hh : p.halfmoves + fuel + 64 < 2147483648) (hf : p.fullmoves + fuel + 64 < 2147483648)
    (hist : List BB) (tt : Table TTEntry) :
    (R.root clock p hist tt s fuel).map
        (fun r => (⟨r.1.toOption, r.2.2.2.map infoToModel, r.2.1, r.2.2.1⟩ : RootResult)) =
      root lim fuel p hist tt :=
  agree_root clock p s lim fuel hlim (orderOkN_of_VE fuel p ⟨hV, hE, hh, hf⟩) hist tt

/-! non-vacuity: the start position satisfies the hypotheses (for the fuel the UCI driver uses, 1000) -/
theorem startpos_VE : VE 1000 Gen.startpos := by
  have h := startpos_inD
  simp only [InD, Bool.and_eq_true] at h
  exact ⟨h.1.1, h.1.2, by decide, by decide⟩

example (lim : Limit) (st : SState) (a b ply d : Int) (cn : Bool) :
    R.negamax (fun s => some (shouldStop lim s)) 1000 Gen.startpos st a b ply d cn =
      negamax lim 1000 Gen.startpos st a b ply d cn :=
  agree_negamax_rules lim 1000 Gen.startpos startpos_VE.1 startpos_VE.2.1 startpos_VE.2.2.1 startpos_VE.2.2.2 st a b ply d cn

example (clock : Nat → Nat) (hist : List BB) (tt : Table TTEntry) :
    (R.root clock Gen.startpos hist tt (.Depth 3) 1000).map
        (fun r => (⟨r.1.toOption, r.2.2.2.map infoToModel, r.2.1, r.2.2.1⟩ : RootResult)) =
      root (.depth 3) 1000 Gen.startpos hist tt :=
  agree_root_rules clock Gen.startpos (.Depth 3) (.depth 3) 1000 rfl startpos_VE.1 startpos_VE.2.1 startpos_VE.2.2.1
    startpos_VE.2.2.2 hist tt

end Rawr

#print axioms Rawr.orderOkN_of_VE
#print axioms Rawr.agree_qsearch_rules
#print axioms Rawr.agree_negamax_rules
#print axioms Rawr.agree_root_rules
