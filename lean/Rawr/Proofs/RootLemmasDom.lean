import Rawr.Proofs.RootLemmasRange
/-! Helper lemmas for C03 / C14: two ways to discharge the hypothesis `SearchDom G`.

* `EvalBoundedOn G`: an invariant `G` of positions, closed under legal moves, legal captures and the null
  move, on which `|eval| ≤ EB`. (With `G := fun q => Consistent q = true` the evaluation clause is
  `C17_bounds_all_V1`; the closure clauses are the board-consistency part of C02.)
  `EvalBounded` is the special case `G := fun _ => True`.
* `sDomB fuel p = true`: a kernel-evaluable check of the finitely many positions a search of `fuel` plies
  from `p` can visit (used for the non-vacuity examples). -/
namespace Rawr

structure EvalBoundedOn (G : Position → Prop) : Prop where
  move : ∀ q m q', G q → m ∈ legalMoves q → q.makemove m true = some q' → G q'
  capt : ∀ q m q', G q → m ∈ legalCaptures q → q.makemove m false = some q' → G q'
  null : ∀ q, G q → G q.makenull
  eval : ∀ q, G q → VIn (eval q)

/-- the bound on every position. -/
def EvalBounded : Prop := ∀ q : Position, -EB ≤ eval q ∧ eval q ≤ EB

theorem EvalBounded.on (h : EvalBounded) : EvalBoundedOn (fun _ => True) :=
  ⟨fun _ _ _ _ _ _ => trivial, fun _ _ _ _ _ _ => trivial, fun _ _ => trivial, fun q _ => h q⟩

theorem EvalBoundedOn.qdom {G : Position → Prop} (h : EvalBoundedOn G) : QDom (fun _ => G) :=
  ⟨fun _ q hq => h.eval q hq, fun _ q m q' hq hm hmk => h.capt q m q' hq hm hmk⟩

theorem EvalBoundedOn.dom {G : Position → Prop} (h : EvalBoundedOn G) : SearchDom (fun _ => G) :=
  ⟨fun _ q m q' hq hm hmk => h.move q m q' hq hm hmk, fun _ q hq => h.null q hq,
   fun _ q hq => ⟨h.eval q hq, fun st a b ply v st' hr =>
     qsearch_range (fun _ => G) h.qdom qFuel q st a b ply v st' hq hr⟩⟩

/-! ## the kernel-evaluable domain check -/

def inEB (v : Int) : Bool := decide (-EB ≤ v) && decide (v ≤ EB)

/-- every position quiescence can visit from `q` within `n` plies evaluates within `±EB`. -/
def qDomB : Nat → Position → Bool
  | 0, _ => true
  | n + 1, q => inEB (eval q) && (legalCaptures q).all fun m =>
      match q.makemove m false with
      | none => true
      | some q' => qDomB n q'

/-- every position a search of `n` plies from `q` can visit (legal moves, null moves, then quiescence)
evaluates within `±EB`. (A node with one ply of fuel left only consults its own evaluation and quiescence:
its children run out of fuel.) -/
def sDomB : Nat → Position → Bool
  | 0, _ => true
  | n + 1, q => qDomB qFuel q && (n == 0 || (sDomB n q.makenull && (legalMoves q).all fun m =>
      match q.makemove m true with
      | none => true
      | some q' => sDomB n q'))

theorem qDomB_dom : QDom (fun n q => qDomB n q = true) := by
  constructor
  · intro n q h
    simp only [qDomB, Bool.and_eq_true, inEB, decide_eq_true_eq] at h
    exact h.1
  · intro n q m q' h hm hmk
    simp only [qDomB, Bool.and_eq_true, List.all_eq_true] at h
    have := h.2 m hm
    rw [hmk] at this
    exact this

theorem sDomB_dom : SearchDom (fun n q => sDomB n q = true) := by
  constructor
  · intro n q m q' h hm hmk
    cases n with
    | zero => rfl
    | succ n =>
      rw [sDomB] at h
      simp only [Bool.and_eq_true, Bool.or_eq_true, List.all_eq_true] at h
      rcases h.2 with h0 | h1
      · simp at h0
      · have := h1.2 m hm
        rw [hmk] at this
        exact this
  · intro n q h
    cases n with
    | zero => rfl
    | succ n =>
      rw [sDomB] at h
      simp only [Bool.and_eq_true, Bool.or_eq_true] at h
      rcases h.2 with h0 | h1
      · simp at h0
      · exact h1.1
  · intro n q h
    rw [sDomB] at h
    simp only [Bool.and_eq_true] at h
    have hq : qDomB qFuel q = true := h.1
    refine ⟨?_, fun st a b ply v st' hr =>
      qsearch_range (fun n q => qDomB n q = true) qDomB_dom qFuel q st a b ply v st' hq hr⟩
    have : qFuel = 63 + 1 := rfl
    rw [this] at hq
    exact qDomB_dom.eval _ _ hq

end Rawr
