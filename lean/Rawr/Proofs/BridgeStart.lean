import Rawr.Gen
import Rawr.Proofs.FenRel
import Rawr.Proofs.MakeMoveAbsV3
/-! Bridge (domain closure, start positions): the engine representation `rel a` of an absolute position `a`
is in `D = V ∧ E ∧ M` as soon as `a` satisfies `Spec.Valid`, E and M (and its counters fit `i32`) —
`inD_rel`; and a kernel-evaluable check `startChk n` for the `n`-th Chess960 start position
(`GenPos.startFrom (GenPos.backRank960 n) (GenPos.backRank960 n)`). The back rank is forced to a literal
list before the rules are evaluated on it (`forceL`), which makes the check ≈ 0.1 s per position. -/
namespace Rawr.Br
open Rawr Rawr.Spec Rawr.SV

theorem getD_lt8 (o : Option Nat) (d : Nat) (hd : d < 8) (h : ∀ f, o = some f → f < 8) : o.getD d < 8 := by
  cases o with
  | none => exact hd
  | some f => exact h f rfl

/-- `rel a` is in D when `a` is valid, E- and M-consistent, empty off the board, counters in range. -/
theorem inD_rel (a : APos) (frc : Bool) (hb : ∀ s, 64 ≤ s → a.board s = none)
    (hv : Spec.Valid a = true) (hE : Spec.EpConsistent a = true) (hM : Spec.LegalMaterial a = true)
    (hh : a.half < 2147483648) (hf : a.full < 2147483648) : InD (rel a frc) = true := by
  have habs := abs_rel a frc hb
  have v := (valid_iff a).mp hv
  have hr : ∀ w ks f, right a w ks = some f → f < 8 := fun w ks f h => (v.rights w ks f h).1
  unfold InD ValidPos
  rw [habs, hv, hE, hM, rel_consistent, rel_halfmoves, rel_fullmoves, rel_cf0, rel_cf1, rel_cf2, rel_cf3, rel_hash]
  simp only [Bool.true_and, Bool.and_true, Bool.and_eq_true, decide_eq_true_eq, beq_self_eq_true]
  refine ⟨⟨⟨⟨⟨hh, hf⟩, ?_⟩, ?_⟩, ?_⟩, ?_⟩
  · cases hw : a.whiteToMove
    · exact getD_lt8 _ 7 (by omega) (fun f h => hr false true f h)
    · exact getD_lt8 _ 7 (by omega) (fun f h => hr true true f h)
  · cases hw : a.whiteToMove
    · exact getD_lt8 _ 0 (by omega) (fun f h => hr false false f h)
    · exact getD_lt8 _ 0 (by omega) (fun f h => hr true false f h)
  · cases hw : a.whiteToMove
    · exact getD_lt8 _ 7 (by omega) (fun f h => hr true true f h)
    · exact getD_lt8 _ 7 (by omega) (fun f h => hr false true f h)
  · cases hw : a.whiteToMove
    · exact getD_lt8 _ 0 (by omega) (fun f h => hr true false f h)
    · exact getD_lt8 _ 0 (by omega) (fun f h => hr false false f h)

/-! ### forcing a list of kinds to a literal -/

def forceK : Kind → (Kind → Bool) → Bool
  | .pawn, f => f .pawn | .knight, f => f .knight | .bishop, f => f .bishop
  | .rook, f => f .rook | .queen, f => f .queen | .king, f => f .king

def forceL : List Kind → (List Kind → Bool) → Bool
  | [], f => f []
  | k :: ks, f => forceK k fun k' => forceL ks fun ks' => f (k' :: ks')

theorem forceK_eq (k : Kind) (f : Kind → Bool) : forceK k f = f k := by cases k <;> rfl

theorem forceL_eq (l : List Kind) (f : List Kind → Bool) : forceL l f = f l := by
  induction l generalizing f with
  | nil => rfl
  | cons k ks ih => simp only [forceL, forceK_eq, ih]

/-- the specification-level part of D for the start position with back ranks `w`, `b`. -/
def startOk (w b : List Kind) : Bool :=
  Spec.Valid (GenPos.startFrom w b) && Spec.EpConsistent (GenPos.startFrom w b) &&
  Spec.LegalMaterial (GenPos.startFrom w b)

/-- the check for the `n`-th Chess960 start position. -/
def startChk (n : Nat) : Bool := forceL (GenPos.backRank960 n) fun l => startOk l l

theorem startFrom_off (w b : List Kind) (s : Nat) (hs : 64 ≤ s) : (GenPos.startFrom w b).board s = none := by
  unfold GenPos.startFrom
  simp only
  rw [if_neg (by omega), if_neg (by omega), if_neg (by omega), if_neg (by omega)]

theorem startFrom_half (w b : List Kind) : (GenPos.startFrom w b).half = 0 := rfl
theorem startFrom_full (w b : List Kind) : (GenPos.startFrom w b).full = 1 := rfl

/-- a start position that passes the check is in D (in either castling notation). -/
theorem start_inD_of_ok (w b : List Kind) (frc : Bool) (h : startOk w b = true) :
    InD (rel (GenPos.startFrom w b) frc) = true := by
  simp only [startOk, Bool.and_eq_true] at h
  exact inD_rel _ frc (startFrom_off w b) h.1.1 h.1.2 h.2 (by rw [startFrom_half]; decide)
    (by rw [startFrom_full]; decide)

theorem start960_inD_of_chk (n : Nat) (frc : Bool) (h : startChk n = true) :
    InD (rel (GenPos.startFrom (GenPos.backRank960 n) (GenPos.backRank960 n)) frc) = true := by
  unfold startChk at h
  rw [forceL_eq] at h
  exact start_inD_of_ok _ _ frc h

/-- a block of start positions passes the check. -/
def startBlock (lo len : Nat) : Bool := (List.range' lo len).all startChk

theorem startBlock_mem {lo len : Nat} (h : startBlock lo len = true) {n : Nat} (h1 : lo ≤ n) (h2 : n < lo + len) :
    startChk n = true := by
  unfold startBlock at h
  rw [List.all_eq_true] at h
  exact h n (by rw [List.mem_range']; exact ⟨n - lo, by omega, by omega⟩)

end Rawr.Br
