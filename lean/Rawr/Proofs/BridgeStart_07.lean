import Rawr.Proofs.BridgeStart
/-! Chess960 start positions 560 … 639: `Spec.Valid`, E and M by kernel evaluation (≈ 0.3–0.4 s each). -/
namespace Rawr.Br
theorem startBlock_07 : startBlock 560 80 = true := by decide +kernel
end Rawr.Br
