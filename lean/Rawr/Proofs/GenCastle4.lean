import Rawr.Proofs.GenCastle3
/-!
# C01, castling: the pin of the castling rook ⇔ the king is attacked on its target after castling
-/
namespace Rawr.Att
open Spec

/-! ### the combinatorial core, on the eight squares of the back rank

`E x`: square `x` is empty; `RQ s`: an enemy rook or queen stands on `s`. -/

theorem castle_core_K (E RQ : Nat → Prop) (k r : Nat) (hr : r < 8) (hside : k < r)
    (hRQ : ∀ s, RQ s → ¬ E s) (hRQk : ¬ RQ k) (hRQr : ¬ RQ r)
    (c2 : ∀ x, ((min k 6 ≤ x ∧ x ≤ max k 6) ∨ (min r 5 ≤ x ∧ x ≤ max r 5)) → x ≠ k → x ≠ r → E x)
    (c3 : ∀ s, s < 8 → RQ s → s ≠ 6 → ¬ (∀ x, min s 6 < x → x < max s 6 → E x)) :
    (∃ s, s < 8 ∧ RQ s ∧ r < s ∧ ∀ x, r < x → x < s → E x) ↔
    (∃ s, s < 8 ∧ RQ s ∧ s ≠ 6 ∧
      ∀ x, min s 6 < x → x < max s 6 → (x ≠ 5 ∧ x ≠ 6 ∧ (x = r ∨ x = k ∨ E x))) := by
  constructor
  · rintro ⟨s, hs, hq, hrs, _⟩
    exfalso
    by_cases h7 : s = 7
    · subst h7
      exact c3 7 hs hq (by decide) (fun x h1 h2 => by omega)
    · have hne1 : s ≠ k := fun e => hRQk (e ▸ hq)
      have hne2 : s ≠ r := fun e => hRQr (e ▸ hq)
      exact hRQ s hq (c2 s (Or.inl (by omega)) hne1 hne2)
  · rintro ⟨s, hs, hq, hs6, hcl⟩
    exfalso
    have hne1 : s ≠ k := fun e => hRQk (e ▸ hq)
    have hne2 : s ≠ r := fun e => hRQr (e ▸ hq)
    by_cases h7 : s = 7
    · subst h7
      exact c3 7 hs hq (by decide) (fun x h1 h2 => by omega)
    · by_cases h5 : s = 5
      · subst h5
        exact hRQ 5 hq (c2 5 (Or.inr (by omega)) hne1 hne2)
      · have := (hcl 5 (by omega) (by omega)).1
        exact this rfl

theorem castle_core_Q (E RQ : Nat → Prop) (k r : Nat) (hk : k < 8) (hside : r < k)
    (hRQ : ∀ s, RQ s → ¬ E s) (hRQk : ¬ RQ k) (hRQr : ¬ RQ r)
    (c2 : ∀ x, ((min k 2 ≤ x ∧ x ≤ max k 2) ∨ (min r 3 ≤ x ∧ x ≤ max r 3)) → x ≠ k → x ≠ r → E x)
    (c3 : ∀ s, s < 8 → RQ s → s ≠ 2 → ¬ (∀ x, min s 2 < x → x < max s 2 → E x)) :
    (∃ s, s < 8 ∧ RQ s ∧ s < r ∧ ∀ x, s < x → x < r → E x) ↔
    (∃ s, s < 8 ∧ RQ s ∧ s ≠ 2 ∧
      ∀ x, min s 2 < x → x < max s 2 → (x ≠ 3 ∧ x ≠ 2 ∧ (x = r ∨ x = k ∨ E x))) := by
  constructor
  · rintro ⟨s, hs, hq, hsr, hcl⟩
    have hne1 : s ≠ k := fun e => hRQk (e ▸ hq)
    have hne2 : s ≠ r := fun e => hRQr (e ▸ hq)
    by_cases hr1 : r = 1
    · -- the genuine case: enemy on a1, rook on b1
      subst hr1
      have hs0 : s = 0 := by omega
      subst hs0
      exact ⟨0, hs, hq, by decide, fun x h1 h2 => by
        have : x = 1 := by omega
        subst this
        exact ⟨by decide, by decide, Or.inl rfl⟩⟩
    · exfalso
      by_cases hr2 : r = 2
      · subst hr2
        exact c3 s hs hq (by omega) (fun x h1 h2 => hcl x (by omega) (by omega))
      · -- r ≥ 3
        by_cases hs3 : 3 ≤ s
        · exact hRQ s hq (c2 s (Or.inr (by omega)) hne1 hne2)
        · by_cases hs2 : s = 2
          · subst hs2
            exact hRQ 2 hq (c2 2 (Or.inl (by omega)) hne1 hne2)
          · exact c3 s hs hq hs2 (fun x h1 h2 => hcl x (by omega) (by omega))
  · rintro ⟨s, hs, hq, hs2, hcl⟩
    have hne1 : s ≠ k := fun e => hRQk (e ▸ hq)
    have hne2 : s ≠ r := fun e => hRQr (e ▸ hq)
    by_cases hgt : 3 < s
    · exact absurd rfl (hcl 3 (by omega) (by omega)).1
    · by_cases h3 : s = 3
      · subst h3
        exact absurd (c2 3 (Or.inr (by omega)) hne1 hne2) (hRQ 3 hq)
      · by_cases h1 : s = 1
        · subst h1
          exact absurd (fun x h1 h2 => by omega) (c3 1 hs hq (by decide))
        · have h0 : s = 0 := by omega
          subst h0
          have hx := (hcl 1 (by omega) (by omega)).2.2
          have hnE : ¬ E 1 := by
            intro hE
            exact c3 0 hs hq (by decide) (fun x h1 h2 => by
              have : x = 1 := by omega
              subst this; exact hE)
          rcases hx with hx | hx | hx
          · exact ⟨0, hs, hq, by omega, fun x h1 h2 => by omega⟩
          · exfalso; have : r = 0 := by omega
            exact hRQr (this ▸ hq)
          · exact absurd hx hnE



/-! ### attacks on the king's target on the castled board -/

theorem attackedBy_iff (B : Board) (w : Bool) (t : Nat) :
    attackedBy B w t = true ↔
      ∃ s, s < 64 ∧ ∃ pc : Piece, B s = some pc ∧ pc.white = w ∧ pieceAttacks B s pc t = true := by
  unfold attackedBy squares
  rw [List.any_eq_true]
  constructor
  · rintro ⟨s, hs, h⟩
    cases hB : B s with
    | none => rw [hB] at h; cases h
    | some pc =>
      rw [hB] at h
      simp only [Bool.and_eq_true, beq_iff_eq] at h
      exact ⟨s, List.mem_range.mp hs, pc, hB, h.1, h.2⟩
  · rintro ⟨s, hs, pc, hB, hw, ha⟩
    exact ⟨s, List.mem_range.mpr hs, by rw [hB]; simp [hw, ha]⟩

theorem between_row {s t x : Nat} (hs : 8 ≤ s) (hs64 : s < 64) (ht : t < 8) (hx : Between s t x) :
    8 ≤ x := by
  obtain ⟨⟨a, b⟩, k, j, ⟨ha, hb, hab⟩, h1, h2, hf, hr, hxf, hxr⟩ := hx
  dsimp only at ha hb hab hf hr hxf hxr
  unfold rank at hr hxr
  rcases hb with rfl | rfl | rfl <;> omega

theorem castledB_ge (B : Board) {k r : Nat} (ks : Bool) (hk : k < 8) (hr : r < 8) {x : Nat}
    (hx : 8 ≤ x) : castledB B k r ks x = B x := by
  have h1 := kTo_lt ks
  have h2 := rTo_lt ks
  unfold castledB setSq
  rw [if_neg (by omega), if_neg (by omega), if_neg (by omega), if_neg (by omega)]

theorem castledB_none (B : Board) (k r : Nat) (ks : Bool) (x : Nat) :
    castledB B k r ks x = none ↔ x ≠ rTo ks ∧ x ≠ kTo ks ∧ (x = r ∨ x = k ∨ B x = none) := by
  unfold castledB setSq
  by_cases e1 : x = rTo ks
  · rw [if_pos e1]; exact ⟨fun h => (by cases h), fun h => absurd e1 h.1⟩
  · rw [if_neg e1]
    by_cases e2 : x = kTo ks
    · rw [if_pos e2]; exact ⟨fun h => (by cases h), fun h => absurd e2 h.2.1⟩
    · rw [if_neg e2]
      by_cases e3 : x = r
      · rw [if_pos e3]; exact ⟨fun _ => ⟨e1, e2, Or.inl e3⟩, fun _ => rfl⟩
      · rw [if_neg e3]
        by_cases e4 : x = k
        · rw [if_pos e4]; exact ⟨fun _ => ⟨e1, e2, Or.inr (Or.inl e4)⟩, fun _ => rfl⟩
        · rw [if_neg e4]
          constructor
          · intro h; exact ⟨e1, e2, Or.inr (Or.inr h)⟩
          · rintro ⟨_, _, h | h | h⟩
            · exact absurd h e3
            · exact absurd h e4
            · exact h

/-- the enemy pieces are the same before and after castling. -/
theorem castledB_enemy (B : Board) (k r : Nat) (ks : Bool) (kdk kdr : Kind)
    (hBk : B k = some ⟨true, kdk⟩) (hBr : B r = some ⟨true, kdr⟩)
    (hkT : kTo ks = k ∨ kTo ks = r ∨ B (kTo ks) = none)
    (hrT : rTo ks = k ∨ rTo ks = r ∨ B (rTo ks) = none)
    (s : Nat) (pc : Piece) (hpc : pc.white = false) :
    castledB B k r ks s = some pc ↔ B s = some pc := by
  have hw : ∀ {x : Nat} {kd : Kind}, B x = some ⟨true, kd⟩ → ¬ B x = some pc := by
    intro x kd h h'; rw [h] at h'; injection h' with h'; rw [← h'] at hpc; cases hpc
  have hn : ∀ {x : Nat}, (x = k ∨ x = r ∨ B x = none) → ¬ B x = some pc := by
    rintro x (h | h | h) h'
    · rw [h] at h'; exact hw hBk h'
    · rw [h] at h'; exact hw hBr h'
    · rw [h] at h'; cases h'
  unfold castledB setSq
  by_cases e1 : s = rTo ks
  · rw [if_pos e1]
    constructor
    · intro h; injection h with h; rw [← h] at hpc; cases hpc
    · intro h; rw [e1] at h; exact absurd h (hn hrT)
  · rw [if_neg e1]
    by_cases e2 : s = kTo ks
    · rw [if_pos e2]
      constructor
      · intro h; injection h with h; rw [← h] at hpc; cases hpc
      · intro h; rw [e2] at h; exact absurd h (hn hkT)
    · rw [if_neg e2]
      by_cases e3 : s = r
      · rw [if_pos e3]
        constructor
        · intro h; cases h
        · intro h; rw [e3] at h; exact absurd h (hw hBr)
      · rw [if_neg e3]
        by_cases e4 : s = k
        · rw [if_pos e4]
          constructor
          · intro h; cases h
          · intro h; rw [e4] at h; exact absurd h (hw hBk)
        · rw [if_neg e4]

/-- after castling the king's target is attacked iff an enemy rook or queen sees it along the back
rank of the castled board (everything else would attack it before castling too). -/
theorem castled_attack (B : Board) (k r : Nat) (ks : Bool) (hk : k < 8) (hr : r < 8) (kdk kdr : Kind)
    (hBk : B k = some ⟨true, kdk⟩) (hBr : B r = some ⟨true, kdr⟩)
    (hkT : kTo ks = k ∨ kTo ks = r ∨ B (kTo ks) = none)
    (hrT : rTo ks = k ∨ rTo ks = r ∨ B (rTo ks) = none)
    (c3 : attackedBy B false (kTo ks) = false) :
    attackedBy (castledB B k r ks) false (kTo ks) = true ↔
      ∃ s, s < 8 ∧ (B s = some ⟨false, .rook⟩ ∨ B s = some ⟨false, .queen⟩) ∧ s ≠ kTo ks ∧
        RowClear (castledB B k r ks) (min s (kTo ks)) (max s (kTo ks)) := by
  have hT := kTo_lt ks
  have hen := castledB_enemy B k r ks kdk kdr hBk hBr hkT hrT
  have hnot : ∀ s, s < 64 → ∀ pc : Piece, B s = some pc → pc.white = false →
      pieceAttacks B s pc (kTo ks) = false := by
    intro s hs pc hB hw
    cases h : pieceAttacks B s pc (kTo ks)
    · rfl
    · have := (attackedBy_iff B false (kTo ks)).mpr ⟨s, hs, pc, hB, hw, h⟩
      rw [c3] at this; cases this
  rw [attackedBy_iff]
  constructor
  · rintro ⟨s, hs, pc, hB', hw, ha⟩
    have hB := (hen s pc hw).mp hB'
    have hno := hnot s hs pc hB hw
    by_cases hs8 : s < 8
    · obtain ⟨w, kd⟩ := pc
      simp only at hw; subst hw
      rw [pieceAttacks_split] at ha hno
      cases kd
      · rw [ha] at hno; cases hno
      · rw [ha] at hno; cases hno
      · simp only [diagAtt_row _ hs8 hT] at ha; cases ha
      · simp only at ha
        have hne : s ≠ kTo ks := by
          intro e; rw [e] at ha; simp [orthAtt] at ha
        exact ⟨s, hs8, Or.inl hB, hne, (orthAtt_row _ hs8 hT hne).mp ha⟩
      · simp only [diagAtt_row _ hs8 hT, Bool.false_or] at ha
        have hne : s ≠ kTo ks := by
          intro e; rw [e] at ha; simp [orthAtt] at ha
        exact ⟨s, hs8, Or.inr hB, hne, (orthAtt_row _ hs8 hT hne).mp ha⟩
      · rw [ha] at hno; cases hno
    · exfalso
      have hs8' : 8 ≤ s := Nat.le_of_not_lt hs8
      have : pieceAttacks (castledB B k r ks) s pc (kTo ks) = pieceAttacks B s pc (kTo ks) :=
        pieceAttacks_congr _ _ s (kTo ks) hs (by omega)
          (fun x _ hx => castledB_ge B ks hk hr (between_row hs8' hs hT hx)) pc
      rw [this, hno] at ha; cases ha
  · rintro ⟨s, hs8, hB, hne, hc⟩
    have ho := (orthAtt_row (castledB B k r ks) hs8 hT hne).mpr hc
    rcases hB with hB | hB
    · exact ⟨s, by omega, _, (hen s _ rfl).mpr hB, rfl, by rw [pieceAttacks_split]; exact ho⟩
    · exact ⟨s, by omega, _, (hen s _ rfl).mpr hB, rfl, by
        rw [pieceAttacks_split]; simp only [ho, Bool.or_true]⟩

end Rawr.Att
