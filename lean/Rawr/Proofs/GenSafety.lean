import Rawr.Proofs.GenAllowed2
/-!
# C01, THE SAFETY LEMMA for every move that is neither a king move, nor en passant, nor castling

Mover's frame: `B := relBoard p`, `k := lsb (p.p5 &&& p.c0)` (`= (prelude p).ksq`). An own non-king piece
on `f` goes to a square `t ≠ f` not holding an own piece; nothing else changes except that an enemy piece
on `t` disappears.  Then (`safe_after_move`, absolute board; `safe_after_move_rel`, mover's frame)

  the mover's king is NOT attacked on the board after the move  ↔
    `(prelude p).allowed.isSet t`  ∧  `PinOk p f t`

where `PinOk p f t` says: for every line `d` on which `f` is pinned (`f` is the first piece seen from the
king along `d`, the next piece `s` behind it is an enemy slider moving along `d`), `t` lies on the pin line
king..pinner (`RayHit B k d t ∨ RayHit B f d t`).  `GenPins.lean` relates `PinOk` to the generator's
`pinned`, `bpinned/bxrays`, `rpinned/rxrays`.
-/
namespace Rawr.Att
open Spec

/-- `t` is on every pin line of `f` (there is at most one). -/
def PinOk (p : Position) (f t : Nat) : Prop :=
  ∀ d ∈ dirs8, ∀ s, RayHit (relBoard p) (lsb (p.p5 &&& p.c0)) d f → RayHit (relBoard p) f d s →
    (sliders p d).getLsbD s = true →
    RayHit (relBoard p) (lsb (p.p5 &&& p.c0)) d t ∨ RayHit (relBoard p) f d t

/-- every enemy slider that sees `k` once `f` is lifted (and did not before) has `t` on its line. -/
def PinCut (B : Board) (k f t : Nat) : Prop :=
  ∀ s, s < 64 → ∀ q : Piece, B s = some q → q.white = false → s ≠ t →
    ∀ d n, KindDir q.kind d → 1 ≤ n → At k d n s →
      (∀ i : Nat, 1 ≤ i → i < n → (pt k d i = f ∨ B (pt k d i) = none)) →
      (∃ j : Nat, 1 ≤ j ∧ j < n ∧ pt k d j = f) →
      ∃ i : Nat, 1 ≤ i ∧ i < n ∧ pt k d i = t

/-- the semantic core: lift `f`, put `pc` on `t`. -/
theorem safe_core (B : Board) (k f t : Nat) (pc : Piece) (hpc : pc.white = true)
    (hf : ∃ qf : Piece, B f = some qf ∧ qf.white = true) :
    attackedBy (setSq (setSq B f none) t (some pc)) false k = false ↔ Chk B k t ∧ PinCut B k f t := by
  have hX : ∀ s (q : Piece), q.white = false → (setSq B f none s = some q ↔ B s = some q) := by
    intro s q hw
    unfold setSq
    by_cases e : s = f
    · rw [if_pos e, e]
      obtain ⟨qf, hqf, hwf⟩ := hf
      rw [hqf]
      constructor
      · intro h; cases h
      · intro h; injection h with h; rw [h, hw] at hwf; cases hwf
    · rw [if_neg e]
  rw [attacked_after_place _ t k pc hpc]
  constructor
  · intro H
    constructor
    · intro s hs q hB hw hst
      obtain ⟨h1, h2⟩ := H s hs q ((hX s q hw).mpr hB) hw hst
      refine ⟨h1, fun d n hkd hh => h2 d n hkd ?_⟩
      exact (hit_lift B f k d n s).mpr ⟨hh.1, hh.2.1, fun i a b => Or.inr (hh.2.2 i a b)⟩
    · intro s hs q hB hw hst d n hkd hn hat hcond _
      exact (H s hs q ((hX s q hw).mpr hB) hw hst).2 d n hkd ((hit_lift B f k d n s).mpr ⟨hn, hat, hcond⟩)
  · rintro ⟨hchk, hpin⟩ s hs q hXs hw hst
    have hB := (hX s q hw).mp hXs
    refine ⟨(hchk s hs q hB hw hst).1, ?_⟩
    intro d n hkd hh
    obtain ⟨hn, hat, hcond⟩ := (hit_lift B f k d n s).mp hh
    by_cases hj : ∃ j : Nat, 1 ≤ j ∧ j < n ∧ pt k d j = f
    · exact hpin s hs q hB hw hst d n hkd hn hat hcond hj
    · apply (hchk s hs q hB hw hst).2 d n hkd
      refine ⟨hn, hat, fun i a b => ?_⟩
      rcases hcond i a b with h | h
      · exact absurd ⟨i, a, b, h⟩ hj
      · exact h

/-- the geometric form of `PinCut`. -/
theorem pinOk_iff_pinCut {p : Position} (hV : ValidPos p = true) {f t : Nat}
    (hfo : relBoard p f ≠ none) (hft : t ≠ f) :
    PinOk p f t ↔ PinCut (relBoard p) (lsb (p.p5 &&& p.c0)) f t := by
  have hC := valid_consistent hV
  have k64 := (kingFacts hV).k64
  constructor
  · intro hok s hs q hB hw hst d n hkd hn hat hcond ⟨j, hj1, hjn, hpj⟩
    have gd := kindDir_goodDir hkd
    have hd8 := kindDir_dirs8 hkd
    have atf : At (lsb (p.p5 &&& p.c0)) d j f := by
      have := (at_le gd k64 hs hat (Nat.le_of_lt hjn)).1
      rw [hpj] at this; exact this
    have hne : ∀ i : Nat, i ≤ n → i ≠ j → pt (lsb (p.p5 &&& p.c0)) d i ≠ f := by
      intro i hi hij e
      have := (at_le gd k64 hs hat hi).1
      rw [e] at this
      exact hij (at_inj gd this atf)
    have hit1 : Hit (relBoard p) (lsb (p.p5 &&& p.c0)) d j f := by
      refine ⟨hj1, atf, fun i a b => ?_⟩
      rcases hcond i a (Nat.lt_trans b hjn) with h | h
      · exact absurd h (hne i (by omega) (by omega))
      · exact h
    have ats : At f d (n - j) s := at_sub atf hat (Nat.le_of_lt hjn)
    have hit2 : Hit (relBoard p) f d (n - j) s := by
      refine ⟨by omega, ats, fun i a b => ?_⟩
      rw [pt_add atf i]
      rcases hcond (j + i) (by omega) (by omega) with h | h
      · exact absurd h (hne (j + i) (by omega) (by omega))
      · exact h
    have hsl := (sliders_iff hC hd8 s hs).mpr ⟨q, hB, hw, hkd⟩
    rcases hok d hd8 s ((rayHit_iff_hit _ gd _ _).mpr ⟨j, hit1⟩) ((rayHit_iff_hit _ gd _ _).mpr ⟨_, hit2⟩) hsl
      with h | h
    · obtain ⟨i, hi⟩ := (rayHit_iff_hit _ gd _ _).mp h
      have hij : i ≤ j := by
        apply Nat.le_of_not_lt
        intro hlt
        have := hi.2.2 j hj1 hlt
        rw [hpj] at this; exact hfo this
      exact ⟨i, hi.1, by omega, at_pt hi.2.1⟩
    · obtain ⟨i, hi⟩ := (rayHit_iff_hit _ gd _ _).mp h
      have hlt : j + i < n := by
        rcases Nat.lt_trichotomy (j + i) n with h' | h' | h'
        · exact h'
        · exfalso
          have e : n - j = i := by omega
          rw [e] at ats
          exact hst (at_eq ats hi.2.1)
        · exfalso
          have := hi.2.2 (n - j) (by omega) (by omega)
          rw [at_pt ats, hB] at this; cases this
      exact ⟨j + i, by omega, hlt, at_pt (at_add atf hi.2.1)⟩
  · intro hcut d hd8 s h1 h2 hsl
    have gd := goodDir_dirs8 d hd8
    have hs : s < 64 := BitVec.lt_of_getLsbD hsl
    obtain ⟨j, hit1⟩ := (rayHit_iff_hit _ gd _ _).mp h1
    obtain ⟨m, hit2⟩ := (rayHit_iff_hit _ gd _ _).mp h2
    obtain ⟨q, hB, hw, hkd⟩ := (sliders_iff hC hd8 s hs).mp hsl
    by_cases hst : s = t
    · right; rw [← hst]; exact h2
    · have atf := hit1.2.1
      have hat : At (lsb (p.p5 &&& p.c0)) d (j + m) s := at_add atf hit2.2.1
      have hj1 := hit1.1
      have hm1 := hit2.1
      obtain ⟨i, hi1, hin, hpi⟩ := hcut s hs q hB hw hst d (j + m) hkd (by omega) hat
        (by
          intro i a b
          rcases Nat.lt_trichotomy i j with h | h | h
          · exact Or.inr (hit1.2.2 i a h)
          · left; rw [h]; exact at_pt atf
          · right
            have e : pt (lsb (p.p5 &&& p.c0)) d i = pt f d (i - j) := by
              rw [pt_add atf (i - j)]; congr 1; omega
            rw [e]; exact hit2.2.2 (i - j) (by omega) (by omega))
        ⟨j, hj1, by omega, at_pt atf⟩
      have att : At (lsb (p.p5 &&& p.c0)) d i t := by
        have := (at_le gd k64 hs hat (Nat.le_of_lt hin)).1
        rw [hpi] at this; exact this
      rcases Nat.lt_trichotomy i j with h | h | h
      · left
        exact (rayHit_iff_hit _ gd _ _).mpr ⟨i, hi1, att, fun i' a b => hit1.2.2 i' a (Nat.lt_trans b h)⟩
      · exfalso
        rw [h] at hpi
        exact hft (hpi.symm.trans (at_pt atf))
      · right
        exact (rayHit_iff_hit _ gd _ _).mpr ⟨i - j, by omega, at_sub atf att (Nat.le_of_lt h),
          fun i' a b => hit2.2.2 i' a (by omega)⟩

/-- what stands on an own square. -/
theorem own_piece {p : Position} (hC : Consistent p = true) {f : Nat} (hf : f < 64)
    (h : p.c0.getLsbD f = true) : ∃ qf : Piece, relBoard p f = some qf ∧ qf.white = true := by
  have := relBoard_white hC f hf
  rw [h, if_pos rfl] at this
  cases hB : relBoard p f with
  | none => rw [hB] at this; cases this
  | some qf =>
    rw [hB] at this
    simp only [Option.map_some, Option.some.injEq] at this
    exact ⟨qf, rfl, this⟩

/-- **The safety lemma, mover's frame.** -/
theorem safe_after_move_rel {p : Position} (hV : ValidPos p = true) {f t : Nat} (hf : f < 64) (ht : t < 64)
    (hus : p.c0.getLsbD f = true) (hft : t ≠ f) (hto : p.c0.getLsbD t = false)
    (pc : Piece) (hpc : pc.white = true) :
    attackedBy (setSq (setSq (relBoard p) f none) t (some pc)) false (lsb (p.p5 &&& p.c0)) = false ↔
      ((prelude p).allowed.getLsbD t = true ∧ PinOk p f t) := by
  have hC := valid_consistent hV
  obtain ⟨qf, hqf, hwf⟩ := own_piece hC hf hus
  have hfo : relBoard p f ≠ none := by rw [hqf]; exact fun e => by cases e
  rw [safe_core _ _ f t pc hpc ⟨qf, hqf, hwf⟩, allowed_iff hV t ht, pinOk_iff_pinCut hV hfo hft]
  constructor
  · rintro ⟨h1, h2⟩; exact ⟨⟨hto, h1⟩, h2⟩
  · rintro ⟨⟨_, h1⟩, h2⟩; exact ⟨h1, h2⟩

theorem framePiece_framePiece (b : Bool) (pc : Piece) : framePiece b (framePiece b pc) = pc := by
  obtain ⟨w, kd⟩ := pc
  cases b <;> cases w <;> rfl

/-- **THE SAFETY LEMMA** (absolute board). `f`: an own piece other than the king (the king's square is not
excluded by a hypothesis: for `f = k` the left-hand side speaks about the vacated square, which is not what
a king move needs — use `C01_king_steps` there); `t ≠ f` not an own piece; `pc`: the piece standing on `t`
afterwards (the moved piece or the promotion piece), of the mover's colour. -/
theorem safe_after_move {p : Position} (hV : ValidPos p = true) {f t : Nat} (hf : f < 64) (ht : t < 64)
    (hus : p.c0.isSet f = true) (hft : t ≠ f) (hto : p.c0.isSet t = false)
    (pc : Piece) (hpc : pc.white = !p.black) :
    Spec.attackedBy
        (setSq (setSq (abs p).board (absSq p.black f) none) (absSq p.black t) (some pc))
        p.black (absSq p.black (prelude p).ksq) = false ↔
      ((prelude p).allowed.isSet t = true ∧ PinOk p f t) := by
  have k64 := (kingFacts hV).k64
  have hpc' : (framePiece p.black pc).white = true := by
    obtain ⟨w, kd⟩ := pc
    dsimp only at hpc; subst hpc
    cases p.black <;> rfl
  unfold BB.isSet at *
  rw [← safe_after_move_rel hV hf ht hus hft hto (framePiece p.black pc) hpc']
  have e : frameB p.black (setSq (setSq (relBoard p) f none) t (some (framePiece p.black pc)))
      = setSq (setSq (abs p).board (absSq p.black f) none) (absSq p.black t) (some pc) := by
    rw [frameB_setSq, frameB_setSq, ← absBoard_eq_frame]
    simp only [Option.map_none, Option.map_some, framePiece_framePiece]
  rw [← e]
  have := attackedBy_frame p.black (setSq (setSq (relBoard p) f none) t (some (framePiece p.black pc)))
    false (lsb (p.p5 &&& p.c0)) k64
  rw [absCol_false] at this
  show attackedBy _ p.black (absSq p.black (lsb (p.p5 &&& p.c0))) = false ↔ _
  rw [this]

/-! ## non-vacuity -/

/-- White: Ke1 (4), Be2 (12), Nd1 (3); Black: Kh8 (63), Re7 (52), Bb4 (25) — the bishop e2 is pinned on the
e-file, the bishop b4 gives check. -/
def safetyPos : Position :=
  let q : Position :=
    { Position.dflt with
      c0 := (bit 4 ||| bit 12 ||| bit 3), c1 := (bit 63 ||| bit 52 ||| bit 25),
      p1 := bit 3, p2 := (bit 12 ||| bit 25), p3 := bit 52, p5 := (bit 4 ||| bit 63) }
  { q with hash := q.calculateHash }

/-- the hypotheses of the safety lemma hold for Nd1–c3 (3 → 18, blocks the check): both sides are true. -/
example : Spec.attackedBy
      (setSq (setSq (abs safetyPos).board (absSq safetyPos.black 3) none) (absSq safetyPos.black 18)
        (some ⟨true, .knight⟩)) safetyPos.black (absSq safetyPos.black (prelude safetyPos).ksq) = false ↔
    ((prelude safetyPos).allowed.isSet 18 = true ∧ PinOk safetyPos 3 18) :=
  safe_after_move (p := safetyPos) (by decide +kernel) (f := 3) (t := 18) (by decide) (by decide)
    (by decide +kernel) (by decide) (by decide +kernel) ⟨true, .knight⟩ (by decide +kernel)

example : (prelude safetyPos).allowed.isSet 18 = true ∧ (prelude safetyPos).allowed.isSet 19 = false ∧
    (prelude safetyPos).pinned.isSet 12 = true ∧ (prelude safetyPos).pinned.isSet 3 = false ∧
    Spec.attackedBy
      (setSq (setSq (abs safetyPos).board 3 none) 18 (some ⟨true, .knight⟩)) false 4 = false ∧
    Spec.attackedBy
      (setSq (setSq (abs safetyPos).board 12 none) 18 (some ⟨true, .bishop⟩)) false 4 = true := by
  decide +kernel

/-- c3 (18) is `allowed` (it blocks the check), but the piece on e2 is pinned on the e-file: `PinOk` fails
for e2 → c3 (the lemma does not depend on how the piece moves). -/
example : ¬ PinOk safetyPos 12 18 := by
  intro h
  have := (safe_after_move (p := safetyPos) (by decide +kernel) (f := 12) (t := 18) (by decide) (by decide)
    (by decide +kernel) (by decide) (by decide +kernel) ⟨true, .bishop⟩ (by decide +kernel)).mpr
    ⟨by decide +kernel, h⟩
  revert this
  decide +kernel

#print axioms safe_after_move
#print axioms safe_after_move_rel
#print axioms allowed_iff
#print axioms allAttackers_iff

end Rawr.Att
