import Rawr.Proofs.FenComplete
import Rawr.Proofs.FenGet
import Rawr.Proofs.FenCastle
/-! # C07(b,c) and C06: final assembly. -/
namespace Rawr
open Position Spec FenS FenC
set_option linter.unusedSimpArgs false


namespace FenC

theorem printFen_ne_startpos (a : APos) (st : CastleStyle) : (printFen a st == "startpos".toList) = false := by
  cases h : printFen a st == "startpos".toList
  · rfl
  · exfalso
    have hm : ' ' ∈ printFen a st := by
      rw [printFen_shape]
      exact List.mem_append_right _ List.mem_cons_self
    rw [beq_iff_eq.mp h] at hm
    revert hm; decide

/-- every right's rook is the outermost rook of its colour on its wing (needed for the `KQkq` spelling). -/
def AllOutermost (a : APos) : Prop :=
  ∀ w ks f, Spec.right a w ks = some f → Spec.outermost a.board w ks f = true

theorem setFen_printFen (a : APos) (frc : Bool) (ar : Arith) (st : CastleStyle)
    (hV : Valid a = true) (hb : ∀ s, 64 ≤ s → a.board s = none)
    (hh : a.half < 2147483648) (hf : a.full < 2147483648)
    (hst : st = .kqkq → AllOutermost a)
    (hatt : (rel a frc).isSqAttacked (lsb ((rel a frc).c1 &&& (rel a frc).p5)) false = false) :
    setFen ar frc (printFen a st) = some (rel a frc) := by
  unfold setFen
  rw [printFen_ne_startpos]
  simp only [Bool.false_eq_true, if_false]
  exact accepts_core a frc ar st hV hb hh hf hatt
    (fenCastling_castleField a hV st hst (preCastle a frc) ⟨rfl, rfl, rfl, rfl⟩ ⟨rfl, rfl, rfl, rfl⟩)
    (castleField_no_space a hV st)

/-- `rel a` of a valid `a` is in the engine's domain `ValidPos`. -/
theorem validPos_rel (a : APos) (frc : Bool) (hV : Valid a = true) (hb : ∀ s, 64 ≤ s → a.board s = none)
    (hh : a.half < 2147483648) (hf : a.full < 2147483648) : ValidPos (rel a frc) = true := by
  have r8 : ∀ w ks, (Spec.right a w ks).getD 0 < 8 ∧ (Spec.right a w ks).getD 7 < 8 := by
    intro w ks
    cases hr : Spec.right a w ks with
    | none => exact ⟨by decide, by decide⟩
    | some f => have := (FenV.valid_right hV w ks hr).1; exact ⟨this, this⟩
  unfold ValidPos
  simp only [Bool.and_eq_true, decide_eq_true_eq, beq_iff_eq]
  refine ⟨⟨⟨⟨⟨⟨⟨⟨rel_consistent a frc, by rw [abs_rel a frc hb]; exact hV⟩, hh⟩, hf⟩, ?_⟩, ?_⟩, ?_⟩, ?_⟩, rel_hash a frc⟩
  · rw [rel_cf0]; cases a.whiteToMove
    · exact (r8 false true).2
    · exact (r8 true true).2
  · rw [rel_cf1]; cases a.whiteToMove
    · exact (r8 false false).1
    · exact (r8 true false).1
  · rw [rel_cf2]; cases a.whiteToMove
    · exact (r8 true true).2
    · exact (r8 false true).2
  · rw [rel_cf3]; cases a.whiteToMove
    · exact (r8 true false).1
    · exact (r8 false false).1

theorem getFen_rel (a : APos) (frc : Bool) (hV : Valid a = true) (hb : ∀ s, 64 ≤ s → a.board s = none)
    (hh : a.half < 2147483648) (hf : a.full < 2147483648) :
    getFen (rel a frc) = some (printFen a .xfen) := by
  rw [getFen_eq_printFen _ (validPos_rel a frc hV hb hh hf), abs_rel a frc hb]

/-- `p` with the castle files of absent rights reset to `Position::default()`'s 7, 0, 7, 0. -/
def normCf (p : Position) : Position :=
  { p with cf0 := if p.usK then p.cf0 else 7, cf1 := if p.usQ then p.cf1 else 0,
           cf2 := if p.themK then p.cf2 else 7, cf3 := if p.themQ then p.cf3 else 0 }

theorem validPos_split {p : Position} (h : ValidPos p = true) :
    Consistent p = true ∧ Valid (abs p) = true ∧ p.halfmoves < 2147483648 ∧ p.fullmoves < 2147483648 ∧
    p.hash = p.calculateHash := by
  unfold ValidPos at h
  simp only [Bool.and_eq_true, decide_eq_true_eq, beq_iff_eq] at h
  exact ⟨h.1.1.1.1.1.1.1.1, h.1.1.1.1.1.1.1.2, h.1.1.1.1.1.1.2, h.1.1.1.1.1.2, h.2⟩

theorem absBoard_ge (p : Position) (s : Nat) (h : 64 ≤ s) : (abs p).board s = none := by
  show absBoard p s = none
  unfold absBoard
  rw [if_neg (by omega)]

theorem roundtrip (p : Position) (hV : ValidPos p = true)
    (hatt : p.isSqAttacked (lsb (p.c1 &&& p.p5)) false = false) (ar : Arith) (s : List Char)
    (hs : getFen p = some s) : setFen ar p.frc s = some (normCf p) := by
  obtain ⟨hC, hVa, hh, hf, hk⟩ := validPos_split hV
  rw [getFen_eq_printFen p hV] at hs
  simp only [Option.some.injEq] at hs
  subst hs
  have hrel : rel (abs p) p.frc = normCf p := rel_abs' p hC hk
  rw [← hrel]
  apply setFen_printFen (abs p) p.frc ar .xfen hVa (absBoard_ge p) hh hf (fun h => by cases h)
  rw [hrel]
  exact hatt

end FenC
end Rawr
