import Rawr.Proofs.SpecSanityPerftDefs
/-! perft of the start position, depth 3, slice 10: the subtree of first move `.normal 11 19 none` (kernel-evaluated). -/
namespace Rawr.SpecS
open Rawr.Spec

theorem start3_10 : leaves (apply stdStart (.normal 11 19 none)) 2 = 539 := by decide +kernel

end Rawr.SpecS
