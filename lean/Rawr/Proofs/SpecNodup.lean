import Rawr.Proofs.GenPawnSpec
import Rawr.Proofs.GenShapeNodup
/-!
# `Spec.legalMoves` lists no move twice (for every absolute position)
-/
set_option linter.unusedSimpArgs false
namespace Rawr.Att
open Spec

def dstOf : Move → Nat
  | .normal _ t _ => t
  | .castle _ => 64

def srcOf : Move → Nat
  | .normal s _ _ => s
  | .castle _ => 64

theorem nodup_withPromo (c : Prop) [Decidable c] (s t : Nat) :
    (if c then promoKinds.map fun k => Move.normal s t (some k) else [Move.normal s t none]).Nodup := by
  split
  · apply nodup_map_inj _ (by decide)
    intro a _ b _ e
    injection e with _ _ e
    injection e
  · exact List.nodup_cons.mpr ⟨List.not_mem_nil, List.Pairwise.nil⟩

theorem dst_withPromo {c : Prop} [Decidable c] {s t : Nat} {m : Move}
    (h : m ∈ (if c then promoKinds.map fun k => Move.normal s t (some k) else [Move.normal s t none])) :
    dstOf m = t := by
  split at h
  · rw [List.mem_map] at h; obtain ⟨k, _, rfl⟩ := h; rfl
  · rw [List.mem_singleton] at h; subst h; rfl

theorem nodup_of_dst {l1 l2 : List Move} {t1 t2 : Nat} (h1 : l1.Nodup) (h2 : l2.Nodup)
    (d1 : ∀ m ∈ l1, dstOf m = t1) (d2 : ∀ m ∈ l2, dstOf m = t2) (hne : l1 ≠ [] → l2 ≠ [] → t1 ≠ t2) :
    (l1 ++ l2).Nodup := by
  rw [List.nodup_append]
  refine ⟨h1, h2, ?_⟩
  intro a ha b hb e
  have e1 := d1 a ha
  have e2 := d2 b hb
  rw [e, e2] at e1
  exact hne (List.ne_nil_of_mem ha) (List.ne_nil_of_mem hb) e1.symm

/-- one capture clause. -/
def capList (P : APos) (w : Bool) (s : Nat) (df : Int) : List Move :=
  if onBoard (file s + df) (rank s + pawnDir w) = true then
    match P.board (sq (file s + df) (rank s + pawnDir w)) with
    | some q => if (q.white != w) = true then
        (if (rank (sq (file s + df) (rank s + pawnDir w)) == pawnLast w) = true then
          promoKinds.map fun k => Move.normal s (sq (file s + df) (rank s + pawnDir w)) (some k)
        else [Move.normal s (sq (file s + df) (rank s + pawnDir w)) none]) else []
    | none => if (P.ep == some (sq (file s + df) (rank s + pawnDir w))) = true then
        [Move.normal s (sq (file s + df) (rank s + pawnDir w)) none] else []
  else []

theorem capList_props (P : APos) (w : Bool) (s : Nat) (df : Int) :
    (capList P w s df).Nodup ∧
      (∀ m ∈ capList P w s df, dstOf m = sq (file s + df) (rank s + pawnDir w)) ∧
      (capList P w s df ≠ [] → onBoard (file s + df) (rank s + pawnDir w) = true) := by
  unfold capList
  by_cases hon : onBoard (file s + df) (rank s + pawnDir w) = true
  · rw [if_pos hon]
    refine ⟨?_, ?_, fun _ => hon⟩
    · cases P.board (sq (file s + df) (rank s + pawnDir w)) with
      | none =>
        dsimp only
        split
        · exact List.nodup_cons.mpr ⟨List.not_mem_nil, List.Pairwise.nil⟩
        · exact List.Pairwise.nil
      | some q =>
        dsimp only
        split
        · exact nodup_withPromo _ _ _
        · exact List.Pairwise.nil
    · intro m hm
      cases hB : P.board (sq (file s + df) (rank s + pawnDir w)) with
      | none =>
        rw [hB] at hm
        dsimp only at hm
        split at hm
        · rw [List.mem_singleton] at hm; subst hm; rfl
        · cases hm
      | some q =>
        rw [hB] at hm
        dsimp only at hm
        split at hm
        · exact dst_withPromo hm
        · cases hm
  · rw [if_neg hon]
    exact ⟨List.Pairwise.nil, fun m hm => absurd hm List.not_mem_nil, fun h => absurd rfl h⟩

theorem sq_inj_on {f r f' r' : Int} (h : onBoard f r = true) (h' : onBoard f' r' = true)
    (e : sq f r = sq f' r') : f = f' ∧ r = r' := by
  have h1 := file_sq h
  have h2 := rank_sq h
  rw [e, file_sq h'] at h1
  rw [e, rank_sq h'] at h2
  exact ⟨h1.symm, h2.symm⟩

theorem nodup_pseudoFrom (P : APos) (s : Nat) (hs : s < 64) : (pseudoFrom P s).Nodup := by
  unfold pseudoFrom
  cases hB : P.board s with
  | none => exact List.Pairwise.nil
  | some pc =>
    dsimp only
    split
    · exact List.Pairwise.nil
    obtain ⟨w, kd⟩ := pc
    have nonpawn : ∀ f : Nat → Bool, ((squares.filter f).map fun t => Move.normal s t none).Nodup := by
      intro f
      apply nodup_map_inj _ (List.Pairwise.filter _ List.nodup_range)
      intro a _ b _ e
      injection e
    cases kd
    · -- pawn
      dsimp only
      have e1 : (if w = true then (1 : Int) else -1) = pawnDir w := rfl
      have e2 : (if w = true then (1 : Int) else 6) = pawnStart w := rfl
      have e3 : (if w = true then (7 : Int) else 0) = pawnLast w := rfl
      simp only [e1, e2, e3, List.flatMap_cons, List.flatMap_nil, List.append_nil]
      have fs := file_bounds s
      have rs := rank_bounds hs
      have hd : pawnDir w = 1 ∨ pawnDir w = -1 := by unfold pawnDir; cases w <;> simp
      obtain ⟨cn1, cd1, co1⟩ := capList_props P w s (-1)
      obtain ⟨cn2, cd2, co2⟩ := capList_props P w s 1
      have hcaps : (capList P w s (-1) ++ capList P w s 1).Nodup := by
        apply nodup_of_dst cn1 cn2 cd1 cd2
        intro h1 h2 e
        have := sq_inj_on (co1 h1) (co2 h2) e
        omega
      have hcd : ∀ m ∈ capList P w s (-1) ++ capList P w s 1,
          ∃ df : Int, (df = -1 ∨ df = 1) ∧ onBoard (file s + df) (rank s + pawnDir w) = true ∧
            dstOf m = sq (file s + df) (rank s + pawnDir w) := by
        intro m hm
        rcases List.mem_append.mp hm with h | h
        · exact ⟨-1, Or.inl rfl, co1 (List.ne_nil_of_mem h), cd1 m h⟩
        · exact ⟨1, Or.inr rfl, co2 (List.ne_nil_of_mem h), cd2 m h⟩
      show (_ ++ (capList P w s (-1) ++ capList P w s 1)).Nodup
      rw [List.nodup_append]
      refine ⟨?_, hcaps, ?_⟩
      · split
        · rename_i hc
          rw [Bool.and_eq_true] at hc
          apply nodup_of_dst (nodup_withPromo _ _ _) (nodup_ite_singleton _ _)
            (fun m hm => dst_withPromo hm)
            (fun m hm => by
              split at hm
              · rw [List.mem_singleton] at hm; subst hm; rfl
              · cases hm)
          intro _ h2 e
          have hst : rank s = pawnStart w := by
            split at h2
            · rename_i hc2
              rw [Bool.and_eq_true, beq_iff_eq] at hc2; exact hc2.1
            · exact absurd rfl h2
          have hon2 : onBoard (file s) (rank s + 2 * pawnDir w) = true := by
            rw [onBoard_iff, hst]; unfold pawnStart pawnDir; cases w <;> simp <;> omega
          have := sq_inj_on hc.1 hon2 e
          omega
        · exact List.Pairwise.nil
      · intro a ha b hb e
        obtain ⟨df, hdf, hon, hdb⟩ := hcd b hb
        split at ha
        · rename_i hc
          rw [Bool.and_eq_true] at hc
          rcases List.mem_append.mp ha with h | h
          · have := dst_withPromo h
            rw [e, hdb] at this
            have := sq_inj_on hon hc.1 this
            omega
          · split at h
            · rename_i hc2
              rw [Bool.and_eq_true, beq_iff_eq] at hc2
              rw [List.mem_singleton] at h
              have hda : dstOf a = sq (file s) (rank s + 2 * pawnDir w) := by rw [h]; rfl
              rw [e, hdb] at hda
              have hon2 : onBoard (file s) (rank s + 2 * pawnDir w) = true := by
                rw [onBoard_iff, hc2.1]; unfold pawnStart pawnDir; cases w <;> simp <;> omega
              have := sq_inj_on hon hon2 hda
              omega
            · cases h
        · cases ha
    all_goals exact nonpawn _

/-- `Spec.legalMoves` never lists a move twice. -/
theorem spec_legalMoves_nodup (P : APos) : (Spec.legalMoves P).Nodup := by
  unfold Spec.legalMoves
  rw [List.nodup_append]
  refine ⟨List.Pairwise.filter _ ?_, ?_, ?_⟩
  · apply nodup_flatMap_key srcOf squares (pseudoFrom P) List.nodup_range
    · intro s hs; exact nodup_pseudoFrom P s (List.mem_range.mp hs)
    · intro s _ m hm
      have := pseudoFrom_src P s m hm
      cases m with
      | normal a b pr => exact this
      | castle ks => exact absurd this (by simp [srcIs])
  · apply nodup_map_inj _ (List.Pairwise.filter _ (by decide))
    intro a _ b _ e
    injection e
  · intro a ha b hb e
    rw [List.mem_filter, List.mem_flatMap] at ha
    obtain ⟨⟨s, _, hm⟩, _⟩ := ha
    rw [List.mem_map] at hb
    obtain ⟨ks, _, rfl⟩ := hb
    rw [e] at hm
    exact pseudoFrom_src P s _ hm

end Rawr.Att
