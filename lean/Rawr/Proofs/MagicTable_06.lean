import Rawr.Proofs.MagicCheck
/-! C10 table check, part 6 of 16: 6656 rows, each one evaluated by the kernel.
The partition into modules balances row counts and depends on board geometry only; the statements do
not mention any table content, so a changed table or magic makes these proofs fail. -/
namespace Rawr.MagicTable
theorem bishop_28 : checkB 28 = true := by decide +kernel
theorem rook_23 : checkR 23 = true := by decide +kernel
theorem rook_26 : checkR 26 = true := by decide +kernel
theorem rook_46 : checkR 46 = true := by decide +kernel
theorem rook_60 : checkR 60 = true := by decide +kernel
end Rawr.MagicTable
