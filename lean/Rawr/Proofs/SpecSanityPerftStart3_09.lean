import Rawr.Proofs.SpecSanityPerftDefs
/-! perft of the start position, depth 3, slice 09: the subtree of first move `.normal 10 26 none` (kernel-evaluated). -/
namespace Rawr.SpecS
open Rawr.Spec

theorem start3_09 : leaves (apply stdStart (.normal 10 26 none)) 2 = 441 := by decide +kernel

end Rawr.SpecS
