import Rawr.Props.C10

namespace Rawr.Att
open Spec

/-- `k` steps of `(a, b)` from `(f, r)` stay on the board and pass over unoccupied squares only. -/
def Reach (occ : Nat → Bool) (a b f r : Int) (k : Nat) : Prop :=
  (∀ j : Nat, 1 ≤ j → j ≤ k → onBoard (f + a * j) (r + b * j) = true) ∧
  (∀ j : Nat, 1 ≤ j → j < k → occ (sq (f + a * j) (r + b * j)) = false)

def Unit3 (a : Int) : Prop := a = -1 ∨ a = 0 ∨ a = 1

theorem mem_walkFrom {a b : Int} (ha : Unit3 a) (hb : Unit3 b) (occ : Nat → Bool) (t : Nat) :
    ∀ (n : Nat) (f r : Int), t ∈ walkFrom a b occ n f r ↔
      ∃ k : Nat, 1 ≤ k ∧ k ≤ n ∧ Reach occ a b f r k ∧ t = sq (f + a * k) (r + b * k) := by
  intro n
  induction n with
  | zero =>
    intro f r
    simp only [walkFrom, List.not_mem_nil, false_iff]
    rintro ⟨k, h1, h2, _⟩; omega
  | succ n ih =>
    intro f r
    have e1 : ∀ j : Nat, f + a + a * (j : Int) = f + a * ((j + 1 : Nat) : Int) := by
      intro j; rcases ha with rfl | rfl | rfl <;> omega
    have e2 : ∀ j : Nat, r + b + b * (j : Int) = r + b * ((j + 1 : Nat) : Int) := by
      intro j; rcases hb with rfl | rfl | rfl <;> omega
    have e1' : f + a = f + a * ((1 : Nat) : Int) := by rcases ha with rfl | rfl | rfl <;> omega
    have e2' : r + b = r + b * ((1 : Nat) : Int) := by rcases hb with rfl | rfl | rfl <;> omega
    simp only [walkFrom]
    by_cases hbd : onBoard (f + a) (r + b) = true
    · simp only [hbd, if_true]
      by_cases ho : occ (sq (f + a) (r + b)) = true
      · simp only [ho, if_true, List.mem_singleton]
        constructor
        · intro h
          refine ⟨1, Nat.le_refl _, by omega, ⟨?_, ?_⟩, ?_⟩
          · intro j h1 h2
            have : j = 1 := by omega
            subst this; rw [← e1', ← e2']; exact hbd
          · intro j h1 h2; omega
          · rw [← e1', ← e2']; exact h
        · rintro ⟨k, h1, h2, ⟨_, hr2⟩, ht⟩
          by_cases hk : k = 1
          · subst hk; rw [← e1', ← e2'] at ht; exact ht
          · have := hr2 1 (Nat.le_refl _) (by omega)
            rw [← e1', ← e2', ho] at this
            exact absurd this (by decide)
      · have ho' : occ (sq (f + a) (r + b)) = false := by simpa using ho
        simp only [ho, if_false, Bool.false_eq_true, List.mem_cons, ih]
        constructor
        · rintro (h | ⟨k, h1, h2, ⟨hr1, hr2⟩, ht⟩)
          · refine ⟨1, Nat.le_refl _, by omega, ⟨?_, ?_⟩, ?_⟩
            · intro j h1 h2
              have : j = 1 := by omega
              subst this; rw [← e1', ← e2']; exact hbd
            · intro j h1 h2; omega
            · rw [← e1', ← e2']; exact h
          · refine ⟨k + 1, by omega, by omega, ⟨?_, ?_⟩, ?_⟩
            · intro j h1' h2'
              by_cases hj : j = 1
              · subst hj; rw [← e1', ← e2']; exact hbd
              · obtain ⟨j', rfl⟩ : ∃ j', j = j' + 1 := ⟨j - 1, by omega⟩
                rw [← e1, ← e2]; exact hr1 j' (by omega) (by omega)
            · intro j h1' h2'
              by_cases hj : j = 1
              · subst hj; rw [← e1', ← e2']; exact ho'
              · obtain ⟨j', rfl⟩ : ∃ j', j = j' + 1 := ⟨j - 1, by omega⟩
                rw [← e1, ← e2]; exact hr2 j' (by omega) (by omega)
            · rw [← e1, ← e2]; exact ht
        · rintro ⟨k, h1, h2, ⟨hr1, hr2⟩, ht⟩
          by_cases hk : k = 1
          · subst hk; left; rw [← e1', ← e2'] at ht; exact ht
          · right
            obtain ⟨k', rfl⟩ : ∃ k', k = k' + 1 := ⟨k - 1, by omega⟩
            refine ⟨k', by omega, by omega, ⟨?_, ?_⟩, ?_⟩
            · intro j h1' h2'
              rw [e1, e2]; exact hr1 (j + 1) (by omega) (by omega)
            · intro j h1' h2'
              rw [e1, e2]; exact hr2 (j + 1) (by omega) (by omega)
            · rw [e1, e2]; exact ht
    · simp only [hbd, if_false, Bool.false_eq_true, List.not_mem_nil, false_iff]
      rintro ⟨k, h1, h2, ⟨hr1, _⟩, _⟩
      have := hr1 1 (Nat.le_refl _) h1
      rw [← e1', ← e2'] at this
      exact hbd this


theorem sgn_mul {a : Int} (ha : Unit3 a) {k : Nat} (hk : 1 ≤ k) : sgn (a * k) = a := by
  unfold sgn
  rcases ha with rfl | rfl | rfl
  · have h1 : ¬ ((-1 : Int) * (k : Int) > 0) := by omega
    have h2 : (-1 : Int) * (k : Int) < 0 := by omega
    simp only [h1, h2, if_false, if_true]
  · simp
  · have h1 : ((1 : Int) * (k : Int) > 0) := by omega
    simp only [h1, if_true]

theorem clearBetween_iff (B : Board) {a b : Int} (ha : Unit3 a) (hb : Unit3 b) (hab : a ≠ 0 ∨ b ≠ 0)
    (s t : Nat) (k : Nat) (hk : 1 ≤ k) (hf : file t = file s + a * k) (hr : rank t = rank s + b * k) :
    clearBetween B s t = true ↔
      ∀ j : Nat, 1 ≤ j → j < k → (B (sq (file s + a * j) (rank s + b * j))).isNone = true := by
  have e1 : file t - file s = a * k := by omega
  have e2 : rank t - rank s = b * k := by omega
  have e3 : max (a * (k : Int)).natAbs (b * (k : Int)).natAbs = k := by
    rcases ha with rfl | rfl | rfl <;> rcases hb with rfl | rfl | rfl <;> omega
  unfold clearBetween
  simp only [e1, e2, sgn_mul ha hk, sgn_mul hb hk, e3, List.all_eq_true, List.mem_range]
  constructor
  · intro h j h1 h2
    obtain ⟨j', rfl⟩ : ∃ j', j = j' + 1 := ⟨j - 1, by omega⟩
    have := h j' (by omega)
    simpa only [Int.natCast_add, Int.cast_ofNat_Int, Int.natCast_one] using this
  · intro h j hj
    have := h (j + 1) (by omega) (by omega)
    simpa only [Int.natCast_add, Int.cast_ofNat_Int, Int.natCast_one] using this



theorem file_bounds (s : Nat) : 0 ≤ file s ∧ file s < 8 := by unfold file; omega
theorem rank_bounds {s : Nat} (h : s < 64) : 0 ≤ rank s ∧ rank s < 8 := by unfold rank; omega
theorem sq_file_rank (s : Nat) : sq (file s) (rank s) = s := by unfold sq file rank; omega
theorem eq_of_file_rank {s t : Nat} (hf : file s = file t) (hr : rank s = rank t) : s = t := by
  unfold file rank at *; omega

theorem onBoard_iff (f r : Int) : onBoard f r = true ↔ 0 ≤ f ∧ f < 8 ∧ 0 ≤ r ∧ r < 8 := by
  simp only [onBoard, Bool.and_eq_true, decide_eq_true_eq]; omega

/-- one direction: `t` is on the walk from `s` iff it is `k ≥ 1` steps away with nothing in between. -/
theorem mem_walk_iff (B : Board) (occ : Nat → Bool) (hocc : ∀ x, x < 64 → occ x = (B x).isSome)
    {a b : Int} (ha : Unit3 a) (hb : Unit3 b) (hab : a ≠ 0 ∨ b ≠ 0)
    (s t : Nat) (hs : s < 64) (ht : t < 64) :
    t ∈ walk a b s occ ↔
      ∃ k : Nat, 1 ≤ k ∧ file t = file s + a * k ∧ rank t = rank s + b * k ∧
        clearBetween B s t = true := by
  have fs := file_bounds s
  have rs := rank_bounds hs
  have ft := file_bounds t
  have rt := rank_bounds ht
  unfold walk
  rw [mem_walkFrom ha hb]
  constructor
  · rintro ⟨k, h1, h2, ⟨hr1, hr2⟩, rfl⟩
    have hb' := hr1 k h1 (Nat.le_refl _)
    refine ⟨k, h1, file_sq hb', rank_sq hb', ?_⟩
    rw [clearBetween_iff B ha hb hab s _ k h1 (file_sq hb') (rank_sq hb')]
    intro j hj1 hj2
    have h3 := hr2 j hj1 hj2
    rw [hocc _ (onBoard_lt (hr1 j hj1 (by omega)))] at h3
    cases hB : B (sq (file s + a * j) (rank s + b * j)) with
    | none => rfl
    | some _ => rw [hB] at h3; simp at h3
  · rintro ⟨k, h1, hf, hr, hcb⟩
    have hk7 : k ≤ 7 := by
      rcases ha with rfl | rfl | rfl <;> rcases hb with rfl | rfl | rfl <;> omega
    have hon : ∀ j : Nat, 1 ≤ j → j ≤ k → onBoard (file s + a * j) (rank s + b * j) = true := by
      intro j hj1 hj2
      rw [onBoard_iff]
      rcases ha with rfl | rfl | rfl <;> rcases hb with rfl | rfl | rfl <;> omega
    refine ⟨k, h1, hk7, ⟨hon, ?_⟩, ?_⟩
    · intro j hj1 hj2
      rw [clearBetween_iff B ha hb hab s t k h1 hf hr] at hcb
      have := hcb j hj1 hj2
      rw [hocc _ (onBoard_lt (hon j hj1 (by omega)))]
      cases hB : B (sq (file s + a * j) (rank s + b * j)) with
      | none => rfl
      | some _ => rw [hB] at this; simp at this
    · rw [← hf, ← hr, sq_file_rank]



/-! ### alignment, and the slider attack predicates of `Spec.pieceAttacks` -/

def GoodDir (d : Int × Int) : Prop := Unit3 d.1 ∧ Unit3 d.2 ∧ (d.1 ≠ 0 ∨ d.2 ≠ 0)

/-- `t` is `k ≥ 1` steps of one of the directions away from `s`. -/
def Aligned (dirs : List (Int × Int)) (s t : Nat) : Prop :=
  ∃ d ∈ dirs, ∃ k : Nat, 1 ≤ k ∧ file t = file s + d.1 * k ∧ rank t = rank s + d.2 * k

theorem goodDir_diag : ∀ d ∈ diag, GoodDir d := by
  intro d hd
  simp only [diag, List.mem_cons, List.not_mem_nil, or_false] at hd
  rcases hd with rfl | rfl | rfl | rfl <;> simp [GoodDir, Unit3]
theorem goodDir_orth : ∀ d ∈ orth, GoodDir d := by
  intro d hd
  simp only [orth, List.mem_cons, List.not_mem_nil, or_false] at hd
  rcases hd with rfl | rfl | rfl | rfl <;> simp [GoodDir, Unit3]

theorem walkSet4_iff (B : Board) (occ : Nat → Bool) (hocc : ∀ x, x < 64 → occ x = (B x).isSome)
    (dirs : List (Int × Int)) (hd : ∀ d ∈ dirs, GoodDir d) (s t : Nat) (hs : s < 64) (ht : t < 64) :
    walkSet4 dirs s occ t = true ↔ Aligned dirs s t ∧ clearBetween B s t = true := by
  unfold walkSet4 Aligned
  simp only [List.any_eq_true, List.contains_iff_mem]
  constructor
  · rintro ⟨d, hdm, hm⟩
    obtain ⟨h1, h2, h3⟩ := hd d hdm
    obtain ⟨k, hk, hf, hr, hcb⟩ := (mem_walk_iff B occ hocc h1 h2 h3 s t hs ht).mp hm
    exact ⟨⟨d, hdm, k, hk, hf, hr⟩, hcb⟩
  · rintro ⟨⟨d, hdm, k, hk, hf, hr⟩, hcb⟩
    obtain ⟨h1, h2, h3⟩ := hd d hdm
    exact ⟨d, hdm, (mem_walk_iff B occ hocc h1 h2 h3 s t hs ht).mpr ⟨k, hk, hf, hr, hcb⟩⟩

theorem aligned_diag (s t : Nat) :
    Aligned diag s t ↔ s ≠ t ∧ (file t - file s).natAbs = (rank t - rank s).natAbs := by
  unfold Aligned
  constructor
  · rintro ⟨d, hd, k, hk, hf, hr⟩
    simp only [diag, List.mem_cons, List.not_mem_nil, or_false] at hd
    have hne : s ≠ t := by
      intro h; subst h
      rcases hd with rfl | rfl | rfl | rfl <;> simp only at hf <;> omega
    refine ⟨hne, ?_⟩
    rcases hd with rfl | rfl | rfl | rfl <;> simp only at hf hr <;> omega
  · rintro ⟨hne, h⟩
    have hk : 1 ≤ (file t - file s).natAbs := by
      rcases Nat.eq_zero_or_pos (file t - file s).natAbs with h0 | h0
      · exact absurd (eq_of_file_rank (by omega) (by omega)) hne
      · exact h0
    by_cases h1 : file t - file s > 0 <;> by_cases h2 : rank t - rank s > 0
    · exact ⟨(1, 1), by simp [diag], _, hk, by simp only; omega, by simp only; omega⟩
    · exact ⟨(1, -1), by simp [diag], _, hk, by simp only; omega, by simp only; omega⟩
    · exact ⟨(-1, 1), by simp [diag], _, hk, by simp only; omega, by simp only; omega⟩
    · exact ⟨(-1, -1), by simp [diag], _, hk, by simp only; omega, by simp only; omega⟩

theorem aligned_orth (s t : Nat) :
    Aligned orth s t ↔ s ≠ t ∧ (file t - file s = 0 ∨ rank t - rank s = 0) := by
  unfold Aligned
  constructor
  · rintro ⟨d, hd, k, hk, hf, hr⟩
    simp only [orth, List.mem_cons, List.not_mem_nil, or_false] at hd
    have hne : s ≠ t := by
      intro h; subst h
      rcases hd with rfl | rfl | rfl | rfl <;> simp only at hf hr <;> omega
    refine ⟨hne, ?_⟩
    rcases hd with rfl | rfl | rfl | rfl <;> simp only at hf hr <;> omega
  · rintro ⟨hne, h⟩
    rcases h with h | h
    · have hk : 1 ≤ (rank t - rank s).natAbs := by
        rcases Nat.eq_zero_or_pos (rank t - rank s).natAbs with h0 | h0
        · exact absurd (eq_of_file_rank (by omega) (by omega)) hne
        · exact h0
      by_cases h2 : rank t - rank s > 0
      · exact ⟨(0, 1), by simp [orth], _, hk, by simp only; omega, by simp only; omega⟩
      · exact ⟨(0, -1), by simp [orth], _, hk, by simp only; omega, by simp only; omega⟩
    · have hk : 1 ≤ (file t - file s).natAbs := by
        rcases Nat.eq_zero_or_pos (file t - file s).natAbs with h0 | h0
        · exact absurd (eq_of_file_rank (by omega) (by omega)) hne
        · exact h0
      by_cases h2 : file t - file s > 0
      · exact ⟨(1, 0), by simp [orth], _, hk, by simp only; omega, by simp only; omega⟩
      · exact ⟨(-1, 0), by simp [orth], _, hk, by simp only; omega, by simp only; omega⟩

def diagAtt (B : Board) (s t : Nat) : Bool :=
  s != t && (file t - file s).natAbs == (rank t - rank s).natAbs && clearBetween B s t
def orthAtt (B : Board) (s t : Nat) : Bool :=
  s != t && (file t - file s == 0 || rank t - rank s == 0) && clearBetween B s t

theorem diagAtt_iff (B : Board) (s t : Nat) :
    diagAtt B s t = true ↔ Aligned diag s t ∧ clearBetween B s t = true := by
  rw [aligned_diag]; simp [diagAtt, and_assoc]
theorem orthAtt_iff (B : Board) (s t : Nat) :
    orthAtt B s t = true ↔ Aligned orth s t ∧ clearBetween B s t = true := by
  rw [aligned_orth]; simp [orthAtt, and_assoc]

theorem walkSet4_diag (B : Board) (occ : Nat → Bool) (hocc : ∀ x, x < 64 → occ x = (B x).isSome)
    (s t : Nat) (hs : s < 64) (ht : t < 64) : walkSet4 diag s occ t = diagAtt B s t := by
  rw [Bool.eq_iff_iff, walkSet4_iff B occ hocc diag goodDir_diag s t hs ht, diagAtt_iff]
theorem walkSet4_orth (B : Board) (occ : Nat → Bool) (hocc : ∀ x, x < 64 → occ x = (B x).isSome)
    (s t : Nat) (hs : s < 64) (ht : t < 64) : walkSet4 orth s occ t = orthAtt B s t := by
  rw [Bool.eq_iff_iff, walkSet4_iff B occ hocc orth goodDir_orth s t hs ht, orthAtt_iff]



/-! ### which squares `clearBetween` reads -/

/-- `x` lies strictly between the aligned squares `s` and `t`. -/
def Between (s t x : Nat) : Prop :=
  ∃ (d : Int × Int) (k j : Nat), GoodDir d ∧ 1 ≤ j ∧ j < k ∧
    file t = file s + d.1 * k ∧ rank t = rank s + d.2 * k ∧
    file x = file s + d.1 * j ∧ rank x = rank s + d.2 * j

theorem unit3_neg {a : Int} (h : Unit3 a) : Unit3 (-a) := by
  rcases h with rfl | rfl | rfl <;> simp [Unit3]

theorem clearBetween_congr (B B' : Board) (dirs : List (Int × Int)) (hd : ∀ d ∈ dirs, GoodDir d)
    (s t : Nat) (hs : s < 64) (ht : t < 64) (hal : Aligned dirs s t)
    (h : ∀ x, x < 64 → Between s t x → B x = B' x) : clearBetween B s t = clearBetween B' s t := by
  obtain ⟨d, hdm, k, hk, hf, hr⟩ := hal
  obtain ⟨ha, hb, hab⟩ := hd d hdm
  obtain ⟨a, b⟩ := d
  dsimp only at ha hb hab hf hr
  have fs := file_bounds s
  have rs := rank_bounds hs
  have ft := file_bounds t
  have rt := rank_bounds ht
  rw [Bool.eq_iff_iff, clearBetween_iff B ha hb hab s t k hk hf hr,
    clearBetween_iff B' ha hb hab s t k hk hf hr]
  have key : ∀ j : Nat, 1 ≤ j → j < k →
      B (sq (file s + a * j) (rank s + b * j)) = B' (sq (file s + a * j) (rank s + b * j)) := by
    intro j h1 h2
    have hon : onBoard (file s + a * j) (rank s + b * j) = true := by
      rw [onBoard_iff]
      rcases ha with rfl | rfl | rfl <;> rcases hb with rfl | rfl | rfl <;> omega
    exact h _ (onBoard_lt hon) ⟨(a, b), k, j, ⟨ha, hb, hab⟩, h1, h2, hf, hr, file_sq hon, rank_sq hon⟩
  constructor
  · intro h' j h1 h2; rw [← key j h1 h2]; exact h' j h1 h2
  · intro h' j h1 h2; rw [key j h1 h2]; exact h' j h1 h2

theorem clearBetween_symm (B : Board) (dirs : List (Int × Int)) (hd : ∀ d ∈ dirs, GoodDir d)
    (s t : Nat) (hal : Aligned dirs s t) :
    clearBetween B s t = clearBetween B t s := by
  obtain ⟨d, hdm, k, hk, hf, hr⟩ := hal
  obtain ⟨ha, hb, hab⟩ := hd d hdm
  obtain ⟨a, b⟩ := d
  dsimp only at ha hb hab hf hr
  have hab' : -a ≠ 0 ∨ -b ≠ 0 := by omega
  have hf' : file s = file t + -a * k := by
    rcases ha with rfl | rfl | rfl <;> omega
  have hr' : rank s = rank t + -b * k := by
    rcases hb with rfl | rfl | rfl <;> omega
  rw [Bool.eq_iff_iff, clearBetween_iff B ha hb hab s t k hk hf hr,
    clearBetween_iff B (unit3_neg ha) (unit3_neg hb) hab' t s k hk hf' hr']
  have key : ∀ j : Nat, 1 ≤ j → j < k →
      sq (file t + -a * j) (rank t + -b * j)
        = sq (file s + a * ((k - j : Nat) : Int)) (rank s + b * ((k - j : Nat) : Int)) := by
    intro j h1 h2
    have e1 : file t + -a * j = file s + a * ((k - j : Nat) : Int) := by
      rcases ha with rfl | rfl | rfl <;> omega
    have e2 : rank t + -b * j = rank s + b * ((k - j : Nat) : Int) := by
      rcases hb with rfl | rfl | rfl <;> omega
    rw [e1, e2]
  constructor
  · intro h j h1 h2
    rw [key j h1 h2]; exact h (k - j) (by omega) (by omega)
  · intro h j h1 h2
    have := h (k - j) (by omega) (by omega)
    rw [key (k - j) (by omega) (by omega)] at this
    have e : k - (k - j) = j := by omega
    rw [e] at this; exact this

theorem aligned_diag_symm {s t : Nat} (h : Aligned diag s t) : Aligned diag t s := by
  rw [aligned_diag] at *; omega
theorem aligned_orth_symm {s t : Nat} (h : Aligned orth s t) : Aligned orth t s := by
  rw [aligned_orth] at *; omega

theorem diagAtt_symm (B : Board) (s t : Nat) :
    diagAtt B s t = diagAtt B t s := by
  rw [Bool.eq_iff_iff, diagAtt_iff, diagAtt_iff]
  constructor
  · rintro ⟨h1, h2⟩
    exact ⟨aligned_diag_symm h1, by rw [← clearBetween_symm B diag goodDir_diag s t h1]; exact h2⟩
  · rintro ⟨h1, h2⟩
    exact ⟨aligned_diag_symm h1, by rw [← clearBetween_symm B diag goodDir_diag t s h1]; exact h2⟩

theorem orthAtt_symm (B : Board) (s t : Nat) :
    orthAtt B s t = orthAtt B t s := by
  rw [Bool.eq_iff_iff, orthAtt_iff, orthAtt_iff]
  constructor
  · rintro ⟨h1, h2⟩
    exact ⟨aligned_orth_symm h1, by rw [← clearBetween_symm B orth goodDir_orth s t h1]; exact h2⟩
  · rintro ⟨h1, h2⟩
    exact ⟨aligned_orth_symm h1, by rw [← clearBetween_symm B orth goodDir_orth t s h1]; exact h2⟩

/-- the slider attack predicates only read the squares strictly between. -/
theorem diagAtt_congr (B B' : Board) (s t : Nat) (hs : s < 64) (ht : t < 64)
    (h : ∀ x, x < 64 → Between s t x → B x = B' x) : diagAtt B s t = diagAtt B' s t := by
  rw [Bool.eq_iff_iff, diagAtt_iff, diagAtt_iff]
  constructor
  · rintro ⟨h1, h2⟩
    exact ⟨h1, by rw [← clearBetween_congr B B' diag goodDir_diag s t hs ht h1 h]; exact h2⟩
  · rintro ⟨h1, h2⟩
    exact ⟨h1, by rw [clearBetween_congr B B' diag goodDir_diag s t hs ht h1 h]; exact h2⟩

theorem orthAtt_congr (B B' : Board) (s t : Nat) (hs : s < 64) (ht : t < 64)
    (h : ∀ x, x < 64 → Between s t x → B x = B' x) : orthAtt B s t = orthAtt B' s t := by
  rw [Bool.eq_iff_iff, orthAtt_iff, orthAtt_iff]
  constructor
  · rintro ⟨h1, h2⟩
    exact ⟨h1, by rw [← clearBetween_congr B B' orth goodDir_orth s t hs ht h1 h]; exact h2⟩
  · rintro ⟨h1, h2⟩
    exact ⟨h1, by rw [clearBetween_congr B B' orth goodDir_orth s t hs ht h1 h]; exact h2⟩

theorem between_ne {s t x : Nat} (h : Between s t x) : x ≠ s ∧ x ≠ t := by
  obtain ⟨⟨a, b⟩, k, j, ⟨ha, hb, hab⟩, h1, h2, hf, hr, hxf, hxr⟩ := h
  dsimp only at ha hb hab hf hr hxf hxr
  constructor <;> intro e <;> subst e <;>
    rcases ha with rfl | rfl | rfl <;> rcases hb with rfl | rfl | rfl <;> omega

end Rawr.Att
