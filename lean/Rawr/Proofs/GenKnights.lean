import Rawr.Proofs.GenPins
/-!
# C01, knights (and the parts shared with the sliders)

* `legal_piece_iff`: spec legality of a knight / bishop / rook / queen move, in the mover's frame, through
  the safety lemma: the piece attacks `t`, `t` holds no own piece, `allowed t`, `PinOk f t`;
* `mem_gen_piece`: where a move tagged knight / bishop / rook / queen comes from in `moveGenerator`;
* `knights_core`: the knight class.
-/
namespace Rawr.Att
open Spec

theorem pieceAttacks_frame (bl : Bool) (B : Board) (s t : Nat) (hs : s < 64) (ht : t < 64) (pc : Piece) :
    pieceAttacks (frameB bl B) (absSq bl s) (framePiece bl pc) (absSq bl t) = pieceAttacks B s pc t := by
  unfold frameB absSq framePiece
  cases bl
  · rfl
  · simp only [if_true]; exact pieceAttacks_mirror B s t hs ht pc

/-- the board after a move of a piece that is not a pawn. -/
theorem apply_board_piece (P : APos) (a b : Nat) (pc : Piece) (hB : P.board a = some pc)
    (hk : pc.kind ≠ .pawn) :
    (apply P (.normal a b none)).board = setSq (setSq P.board a none) b (some pc) := by
  unfold apply
  have : (pc.kind == Kind.pawn) = false := by simpa using hk
  simp [hB, this]

theorem mem_pseudoFrom_piece (P : APos) (s : Nat) (pc : Piece) (hB : P.board s = some pc)
    (hw : pc.white = P.whiteToMove) (hk : pc.kind ≠ .pawn) (m : Move) :
    m ∈ pseudoFrom P s ↔ ∃ t, t < 64 ∧ pieceAttacks P.board s pc t = true ∧
      (match P.board t with | some q => q.white != pc.white | none => true) = true ∧
      m = Move.normal s t none := by
  unfold pseudoFrom
  rw [hB]
  obtain ⟨w, kd⟩ := pc
  dsimp only at hw hk; subst hw
  cases kd
  · exact absurd rfl hk
  all_goals
    simp only [bne_self_eq_false, Bool.false_eq_true, if_false, List.mem_map, List.mem_filter, squares,
      List.mem_range, Bool.and_eq_true]
    constructor
    · rintro ⟨t, ⟨h1, h2, h3⟩, rfl⟩; exact ⟨t, h1, h2, h3, rfl⟩
    · rintro ⟨t, h1, h2, h3, rfl⟩; exact ⟨t, ⟨h1, h2, h3⟩, rfl⟩

theorem own_of_rel {p : Position} (hC : Consistent p = true) {f : Nat} (hf : f < 64) {kd : Kind}
    (hB : relBoard p f = some ⟨true, kd⟩) : p.c0.getLsbD f = true := by
  have := relBoard_white hC f hf
  rw [hB] at this
  cases h0 : p.c0.getLsbD f
  · rw [h0] at this
    cases h1 : p.c1.getLsbD f <;> rw [h1] at this <;> simp at this
  · rfl

/-- spec legality of a move of a knight, bishop, rook or queen, through the safety lemma. -/
theorem legal_piece_iff {p : Position} (hV : ValidPos p = true) {f : Nat} (t : Nat) {kd : Kind}
    (hkd : kd ≠ .pawn ∧ kd ≠ .king) (hf : f < 64) (hB : relBoard p f = some ⟨true, kd⟩) :
    Move.normal (absSq p.black f) (absSq p.black t) none ∈ Spec.legalMoves (abs p) ↔
      t < 64 ∧ pieceAttacks (relBoard p) f ⟨true, kd⟩ t = true ∧ p.c0.getLsbD t = false ∧
        (prelude p).allowed.getLsbD t = true ∧ PinOk p f t := by
  have hC := valid_consistent hV
  have F := kingFacts hV
  have hus := own_of_rel hC hf hB
  have ew : (abs p).whiteToMove = !p.black := rfl
  have hBa : (abs p).board (absSq p.black f) = some ⟨!p.black, kd⟩ := (abs_at_us p f kd).mpr hB
  have hfr : framePiece p.black ⟨true, kd⟩ = ⟨!p.black, kd⟩ := framePiece_us _ _
  rw [mem_legal_normal, mem_pseudoFrom_piece _ _ _ hBa rfl hkd.1, apply_board_piece _ _ _ _ hBa hkd.1]
  -- the part common to both directions
  have key : ∀ (ht : t < 64), pieceAttacks (relBoard p) f ⟨true, kd⟩ t = true →
      p.c0.getLsbD t = false →
      (Spec.inCheck (setSq (setSq (abs p).board (absSq p.black f) none) (absSq p.black t)
          (some ⟨!p.black, kd⟩)) (abs p).whiteToMove = false ↔
        ((prelude p).allowed.getLsbD t = true ∧ PinOk p f t)) := by
    intro ht hatt hto
    have hft : t ≠ f := by
      intro e; rw [e, pieceAttacks_self] at hatt; cases hatt
    have hsafe := safe_after_move hV hf ht hus hft hto ⟨!p.black, kd⟩ rfl
    unfold BB.isSet at hsafe
    rw [← hsafe, ew]
    have hking : ∀ s, s < 64 →
        (setSq (setSq (abs p).board (absSq p.black f) none) (absSq p.black t) (some ⟨!p.black, kd⟩) s
          = some ⟨!p.black, .king⟩ ↔ s = absSq p.black (lsb (p.p5 &&& p.c0))) := by
      intro s hs
      unfold setSq
      by_cases e1 : s = absSq p.black t
      · rw [if_pos e1]
        constructor
        · intro h; injection h with h; injection h with _ h; exact absurd h hkd.2
        · intro h
          exfalso
          have := absSq_inj _ (e1.symm.trans h)
          rw [this, F.c0] at hto; cases hto
      · rw [if_neg e1]
        by_cases e2 : s = absSq p.black f
        · rw [if_pos e2]
          constructor
          · intro h; cases h
          · intro h
            exfalso
            have := absSq_inj _ (e2.symm.trans h)
            rw [this, F.rel] at hB
            injection hB with hB; injection hB with _ hB; exact hkd.2 hB.symm
        · rw [if_neg e2]
          exact ⟨fun h => F.uniq s hs h, fun h => by rw [h]; exact F.abs⟩
    rw [inCheck_unique _ _ _ (absSq_lt F.k64) hking, not_not_b]
    rfl
  constructor
  · rintro ⟨⟨_, t', ht', hatt, hno, he⟩, hchk⟩
    have he' : absSq p.black t = t' := by injection he
    subst he'
    have h1 : t < 64 := (absSq_lt_iff _ _).mp ht'
    rw [← hfr] at hatt
    rw [absBoard_eq_frame, pieceAttacks_frame _ _ _ _ hf h1] at hatt
    have hno' := notOwn_abs hC t h1
    rw [ew] at hno'
    dsimp only at hno
    have hto' : (!p.c0.getLsbD t) = true := by
      cases hbt : (abs p).board (absSq p.black t) <;> (rw [hbt] at hno hno'; exact hno'.symm.trans hno)
    have hto : p.c0.getLsbD t = false := by simpa using hto'
    exact ⟨h1, hatt, hto, (key h1 hatt hto).mp hchk⟩
  · rintro ⟨h1, hatt, hto, hrest⟩
    refine ⟨⟨absSq_lt hf, absSq p.black t, absSq_lt h1, ?_, ?_, rfl⟩, (key h1 hatt hto).mpr hrest⟩
    · rw [← hfr, absBoard_eq_frame, pieceAttacks_frame _ _ _ _ hf h1]; exact hatt
    · have := notOwn_abs hC t h1
      rw [ew, hto] at this
      dsimp only
      cases hbt : (abs p).board (absSq p.black t) with
      | none => rfl
      | some q => rw [hbt] at this; exact this

/-! ### generator side: where a move tagged knight / bishop / rook / queen comes from -/

theorem gm_inj {a b c a' b' c' : Nat} (h : gm a b c 6 = gm a' b' c' 6) : a = a' ∧ b = b' ∧ c = c' :=
  ⟨congrArg GMv.piece h, congrArg (fun g => g.mv.src) h, congrArg (fun g => g.mv.dst) h⟩

theorem mem_gen_piece (p : Position) (pc f t : Nat) (hpc : pc ≠ 0 ∧ pc ≠ 5) :
    gm pc f t 6 ∈ moveGenerator p ↔
      (pc = 1 ∧ f ∈ toList (p.p1 &&& p.c0 &&& ~~~(prelude p).pinned) ∧
        t ∈ toList (knights (bit f) &&& (prelude p).allowed)) ∨
      (pc = 2 ∧ f ∈ toList (p.p2 &&& p.c0 &&& (prelude p).bpinned) ∧
        t ∈ toList (bishopMoves f p.occ &&& (prelude p).allowed &&& (prelude p).bxrays)) ∨
      (pc = 2 ∧ f ∈ toList (p.p2 &&& p.c0 &&& ~~~(prelude p).pinned) ∧
        t ∈ toList (bishopMoves f p.occ &&& (prelude p).allowed)) ∨
      (pc = 3 ∧ f ∈ toList (p.p3 &&& p.c0 &&& (prelude p).rpinned) ∧
        t ∈ toList (rookMoves f p.occ &&& (prelude p).allowed &&& (prelude p).rxrays)) ∨
      (pc = 3 ∧ f ∈ toList (p.p3 &&& p.c0 &&& ~~~(prelude p).pinned) ∧
        t ∈ toList (rookMoves f p.occ &&& (prelude p).allowed)) ∨
      (pc = 4 ∧ f ∈ toList (p.p4 &&& p.c0 &&& (prelude p).bpinned) ∧
        t ∈ toList (bishopMoves f p.occ &&& (prelude p).allowed &&& (prelude p).bxrays)) ∨
      (pc = 4 ∧ f ∈ toList (p.p4 &&& p.c0 &&& (prelude p).rpinned) ∧
        t ∈ toList (rookMoves f p.occ &&& (prelude p).allowed &&& (prelude p).rxrays)) ∨
      (pc = 4 ∧ f ∈ toList (p.p4 &&& p.c0 &&& ~~~(prelude p).pinned) ∧
        t ∈ toList (queenMoves f p.occ &&& (prelude p).allowed)) := by
  have ne0 : ∀ {g : GMv}, g.piece = 0 → g ≠ gm pc f t 6 := by
    intro g h e; rw [e] at h; exact hpc.1 h
  have ne5 : ∀ {a b : Nat}, gm 5 a b 6 ≠ gm pc f t 6 := by
    intro a b e; exact hpc.2 (gm_inj e).1.symm
  unfold moveGenerator
  simp only [List.mem_append, List.mem_flatMap, List.mem_map]
  constructor
  · intro hg
    rcases hg with ((((((((((((((⟨a, ha, hga⟩ | ⟨a, ha, hga⟩) | ⟨a, ha, hga⟩) | ⟨a, ha, hga⟩) | hep) |
      ⟨a, ha, b, hb, hga⟩) | ⟨a, ha, b, hb, hga⟩) | ⟨a, ha, b, hb, hga⟩) | ⟨a, ha, b, hb, hga⟩) |
      ⟨a, ha, b, hb, hga⟩) | ⟨a, ha, b, hb, hga⟩) | ⟨a, ha, b, hb, hga⟩) | ⟨a, ha, b, hb, hga⟩) |
      ⟨a, ha, b, hb, hga⟩) | hc) | hc
    · exact absurd rfl (ne0 (mem_pawnArrive hga).1)
    · exact absurd hga (ne0 rfl)
    · exact absurd rfl (ne0 (mem_pawnArrive hga).1)
    · exact absurd rfl (ne0 (mem_pawnArrive hga).1)
    · split at hep
      · cases hep
      · simp only [List.mem_append] at hep
        rcases hep with hep | hep <;> split at hep
        · exact absurd (List.mem_singleton.mp hep).symm (ne0 rfl)
        · cases hep
        · exact absurd (List.mem_singleton.mp hep).symm (ne0 rfl)
        · cases hep
    · obtain ⟨e0, e1, e2⟩ := gm_inj hga; subst e0; subst e1; subst e2
      exact Or.inl ⟨rfl, ha, hb⟩
    · obtain ⟨e0, e1, e2⟩ := gm_inj hga; subst e0; subst e1; subst e2
      exact Or.inr (Or.inl ⟨rfl, ha, hb⟩)
    · obtain ⟨e0, e1, e2⟩ := gm_inj hga; subst e0; subst e1; subst e2
      exact Or.inr (Or.inr (Or.inl ⟨rfl, ha, hb⟩))
    · obtain ⟨e0, e1, e2⟩ := gm_inj hga; subst e0; subst e1; subst e2
      exact Or.inr (Or.inr (Or.inr (Or.inl ⟨rfl, ha, hb⟩)))
    · obtain ⟨e0, e1, e2⟩ := gm_inj hga; subst e0; subst e1; subst e2
      exact Or.inr (Or.inr (Or.inr (Or.inr (Or.inl ⟨rfl, ha, hb⟩))))
    · obtain ⟨e0, e1, e2⟩ := gm_inj hga; subst e0; subst e1; subst e2
      exact Or.inr (Or.inr (Or.inr (Or.inr (Or.inr (Or.inl ⟨rfl, ha, hb⟩)))))
    · obtain ⟨e0, e1, e2⟩ := gm_inj hga; subst e0; subst e1; subst e2
      exact Or.inr (Or.inr (Or.inr (Or.inr (Or.inr (Or.inr (Or.inl ⟨rfl, ha, hb⟩))))))
    · obtain ⟨e0, e1, e2⟩ := gm_inj hga; subst e0; subst e1; subst e2
      exact Or.inr (Or.inr (Or.inr (Or.inr (Or.inr (Or.inr (Or.inr ⟨rfl, ha, hb⟩))))))
    · exact absurd hga ne5
    · split at hc
      · exact absurd (List.mem_singleton.mp hc).symm ne5
      · cases hc
    · split at hc
      · exact absurd (List.mem_singleton.mp hc).symm ne5
      · cases hc
  · rintro (⟨rfl, h1, h2⟩ | ⟨rfl, h1, h2⟩ | ⟨rfl, h1, h2⟩ | ⟨rfl, h1, h2⟩ | ⟨rfl, h1, h2⟩ |
      ⟨rfl, h1, h2⟩ | ⟨rfl, h1, h2⟩ | ⟨rfl, h1, h2⟩)
    · exact Or.inl (Or.inl (Or.inl (Or.inl (Or.inl (Or.inl (Or.inl (Or.inl (Or.inl (Or.inl
        (Or.inr ⟨f, h1, t, h2, rfl⟩))))))))))
    · exact Or.inl (Or.inl (Or.inl (Or.inl (Or.inl (Or.inl (Or.inl (Or.inl (Or.inl
        (Or.inr ⟨f, h1, t, h2, rfl⟩)))))))))
    · exact Or.inl (Or.inl (Or.inl (Or.inl (Or.inl (Or.inl (Or.inl (Or.inl
        (Or.inr ⟨f, h1, t, h2, rfl⟩))))))))
    · exact Or.inl (Or.inl (Or.inl (Or.inl (Or.inl (Or.inl (Or.inl
        (Or.inr ⟨f, h1, t, h2, rfl⟩)))))))
    · exact Or.inl (Or.inl (Or.inl (Or.inl (Or.inl (Or.inl
        (Or.inr ⟨f, h1, t, h2, rfl⟩))))))
    · exact Or.inl (Or.inl (Or.inl (Or.inl (Or.inl
        (Or.inr ⟨f, h1, t, h2, rfl⟩)))))
    · exact Or.inl (Or.inl (Or.inl (Or.inl
        (Or.inr ⟨f, h1, t, h2, rfl⟩))))
    · exact Or.inl (Or.inl (Or.inl
        (Or.inr ⟨f, h1, t, h2, rfl⟩)))

/-! ### knights -/

theorem knights_core {p : Position} (hV : ValidPos p = true) (f t : Nat) :
    gm 1 f t 6 ∈ moveGenerator p ↔
      (Move.normal (absSq p.black f) (absSq p.black t) none ∈ Spec.legalMoves (abs p) ∧
        p.p1.isSet f = true ∧ p.c0.isSet f = true) := by
  have hC := valid_consistent hV
  rw [mem_gen_piece p 1 f t (by decide)]
  simp only [true_and, false_and, or_false, Nat.reduceEqDiff]
  unfold BB.isSet
  simp only [mem_toList, BitVec.getLsbD_and, BitVec.getLsbD_not, Bool.and_eq_true]
  constructor
  · rintro ⟨⟨hf, ⟨hp1, hc0⟩, hnp⟩, ht, hks, hal⟩
    have hB : relBoard p f = some ⟨true, .knight⟩ := by
      have := (rep_us hC).knight f hf
      rw [BitVec.getLsbD_and, hp1, hc0] at this
      simpa using this
    have hnp' : (prelude p).pinned.getLsbD f = false := by simpa [hf] using hnp
    rw [(C10_leapers_bit f hf).1, getLsbD_geomBB] at hks
    simp only [ht, decide_true, Bool.true_and] at hks
    refine ⟨(legal_piece_iff hV t (by decide) hf hB).mpr ⟨ht, hks, ((allowed_iff hV t ht).mp hal).1, hal,
      pinOk_of_not_pinned hV hc0 hnp' t⟩, hp1, hc0⟩
  · rintro ⟨hleg, hp1, hc0⟩
    have hf : f < 64 := BitVec.lt_of_getLsbD hp1
    have hB : relBoard p f = some ⟨true, .knight⟩ := by
      have := (rep_us hC).knight f hf
      rw [BitVec.getLsbD_and, hp1, hc0] at this
      simpa using this
    obtain ⟨ht, hks, _, hal, hok⟩ := (legal_piece_iff hV t (by decide) hf hB).mp hleg
    have hks' : knightStep f t = true := hks
    refine ⟨⟨hf, ⟨hp1, hc0⟩, ?_⟩, ht, ?_, hal⟩
    · cases hpin : (prelude p).pinned.getLsbD f
      · simp [hf]
      · exact absurd hok (pinned_not_pinOk_knight hV hpin hks')
    · rw [(C10_leapers_bit f hf).1, getLsbD_geomBB, hks']; simp [ht]

end Rawr.Att
