import Rawr.Proofs.GenKnights
/-!
# C01, bishops, rooks, queens
-/
namespace Rawr.Att
open Spec

theorem bishopMoves_mem {p : Position} (hC : Consistent p = true) {f : Nat} (hf : f < 64) (t : Nat) :
    (bishopMoves f p.occ).getLsbD t = true ↔ t < 64 ∧ diagAtt (relBoard p) f t = true := by
  rw [C10_bishop_mem f hf, Bool.and_eq_true, decide_eq_true_iff]
  constructor
  · rintro ⟨ht, h⟩; rw [walkSet4_diag _ _ (occRep_rel hC) f t hf ht] at h; exact ⟨ht, h⟩
  · rintro ⟨ht, h⟩; rw [walkSet4_diag _ _ (occRep_rel hC) f t hf ht]; exact ⟨ht, h⟩

theorem rookMoves_mem {p : Position} (hC : Consistent p = true) {f : Nat} (hf : f < 64) (t : Nat) :
    (rookMoves f p.occ).getLsbD t = true ↔ t < 64 ∧ orthAtt (relBoard p) f t = true := by
  rw [C10_rook_mem f hf, Bool.and_eq_true, decide_eq_true_iff]
  constructor
  · rintro ⟨ht, h⟩; rw [walkSet4_orth _ _ (occRep_rel hC) f t hf ht] at h; exact ⟨ht, h⟩
  · rintro ⟨ht, h⟩; rw [walkSet4_orth _ _ (occRep_rel hC) f t hf ht]; exact ⟨ht, h⟩

section
variable {p : Position} (hV : ValidPos p = true)
include hV

/-- the path of a slider move does not pass over the king. -/
theorem hit_not_king {f t : Nat} {e : Int × Int} {m : Nat} (h : Hit (relBoard p) f e m t) :
    ∀ i' : Nat, 1 ≤ i' → i' < m → pt f e i' ≠ lsb (p.p5 &&& p.c0) := by
  intro i' a b e'
  have := h.2.2 i' a b
  rw [e', (kingFacts hV).rel] at this; cases this

/-- a diagonal slide: the pin condition in the generator's terms. -/
theorem pinOk_diag_move {f t : Nat} (hus : p.c0.getLsbD f = true) (ht : t < 64)
    (hto : p.c0.getLsbD t = false) (hd : diagAtt (relBoard p) f t = true) :
    PinOk p f t ↔ ((prelude p).pinned.getLsbD f = false ∨
      ((prelude p).bpinned.getLsbD f = true ∧ (prelude p).bxrays.getLsbD t = true)) := by
  have htk : t ≠ lsb (p.p5 &&& p.c0) := by
    intro e; rw [e, (kingFacts hV).c0] at hto; cases hto
  obtain ⟨e, he, m, hh⟩ := (aligned_clear_hit _ diag goodDir_diag f t).mp ((diagAtt_iff _ f t).mp hd)
  have hnj := hit_not_king hV hh
  constructor
  · intro hok
    cases hpin : (prelude p).pinned.getLsbD f
    · exact Or.inl rfl
    · right
      rw [prelude_pinned_eq, BitVec.getLsbD_or, Bool.or_eq_true] at hpin
      rcases hpin with hb | hr
      · exact ⟨hb, (bpinned_pinOk_iff hV hb ht htk he hh.1 hh.2.1 hnj).mp hok⟩
      · exact absurd hok (rpinned_not_pinOk_diag hV hr he hh.1 hh.2.1)
  · rintro (h | ⟨hb, hx⟩)
    · exact pinOk_of_not_pinned hV hus h t
    · exact (bpinned_pinOk_iff hV hb ht htk he hh.1 hh.2.1 hnj).mpr hx

/-- an orthogonal slide. -/
theorem pinOk_orth_move {f t : Nat} (hus : p.c0.getLsbD f = true) (ht : t < 64)
    (ho : orthAtt (relBoard p) f t = true) :
    PinOk p f t ↔ ((prelude p).pinned.getLsbD f = false ∨
      ((prelude p).rpinned.getLsbD f = true ∧ (prelude p).rxrays.getLsbD t = true)) := by
  obtain ⟨e, he, m, hh⟩ := (aligned_clear_hit _ orth goodDir_orth f t).mp ((orthAtt_iff _ f t).mp ho)
  have hnj := hit_not_king hV hh
  constructor
  · intro hok
    cases hpin : (prelude p).pinned.getLsbD f
    · exact Or.inl rfl
    · right
      rw [prelude_pinned_eq, BitVec.getLsbD_or, Bool.or_eq_true] at hpin
      rcases hpin with hb | hr
      · exact absurd hok (bpinned_not_pinOk_orth hV hb he hh.1 hh.2.1)
      · exact ⟨hr, (rpinned_pinOk_iff hV hr ht he hh.1 hh.2.1 hnj).mp hok⟩
  · rintro (h | ⟨hr, hx⟩)
    · exact pinOk_of_not_pinned hV hus h t
    · exact (rpinned_pinOk_iff hV hr ht he hh.1 hh.2.1 hnj).mpr hx

omit hV in
theorem not_pinned_iff (f : Nat) (hf : f < 64) :
    (~~~(prelude p).pinned).getLsbD f = true ↔ (prelude p).pinned.getLsbD f = false := by
  rw [BitVec.getLsbD_not]; simp [hf]

theorem bishops_core (f t : Nat) :
    gm 2 f t 6 ∈ moveGenerator p ↔
      (Move.normal (absSq p.black f) (absSq p.black t) none ∈ Spec.legalMoves (abs p) ∧
        p.p2.isSet f = true ∧ p.c0.isSet f = true) := by
  have hC := valid_consistent hV
  rw [mem_gen_piece p 2 f t (by decide)]
  simp only [true_and, false_and, or_false, false_or, Nat.reduceEqDiff]
  unfold BB.isSet
  simp only [mem_toList, BitVec.getLsbD_and, Bool.and_eq_true]
  have hBof : f < 64 → p.p2.getLsbD f = true → p.c0.getLsbD f = true →
      relBoard p f = some ⟨true, .bishop⟩ := by
    intro hf h1 h2
    have := (rep_us hC).bishop f hf
    rw [BitVec.getLsbD_and, h1, h2] at this
    simpa using this
  constructor
  · rintro (⟨⟨hf, ⟨hp, hc0⟩, hb⟩, ht, ⟨hbm, hal⟩, hx⟩ | ⟨⟨hf, ⟨hp, hc0⟩, hnp⟩, ht, hbm, hal⟩)
    · have hd := ((bishopMoves_mem hC hf t).mp hbm).2
      have hto := ((allowed_iff hV t ht).mp hal).1
      exact ⟨(legal_piece_iff hV t (by decide) hf (hBof hf hp hc0)).mpr ⟨ht, hd, hto, hal,
        (pinOk_diag_move hV hc0 ht hto hd).mpr (Or.inr ⟨hb, hx⟩)⟩, hp, hc0⟩
    · have hd := ((bishopMoves_mem hC hf t).mp hbm).2
      have hto := ((allowed_iff hV t ht).mp hal).1
      exact ⟨(legal_piece_iff hV t (by decide) hf (hBof hf hp hc0)).mpr ⟨ht, hd, hto, hal,
        (pinOk_diag_move hV hc0 ht hto hd).mpr (Or.inl ((not_pinned_iff f hf).mp hnp))⟩, hp, hc0⟩
  · rintro ⟨hleg, hp, hc0⟩
    have hf : f < 64 := BitVec.lt_of_getLsbD hp
    obtain ⟨ht, hd, hto, hal, hok⟩ := (legal_piece_iff hV t (by decide) hf (hBof hf hp hc0)).mp hleg
    have hd' : diagAtt (relBoard p) f t = true := hd
    have hbm := (bishopMoves_mem hC hf t).mpr ⟨ht, hd'⟩
    rcases (pinOk_diag_move hV hc0 ht hto hd').mp hok with h | ⟨hb, hx⟩
    · exact Or.inr ⟨⟨hf, ⟨hp, hc0⟩, (not_pinned_iff f hf).mpr h⟩, ht, hbm, hal⟩
    · exact Or.inl ⟨⟨hf, ⟨hp, hc0⟩, hb⟩, ht, ⟨hbm, hal⟩, hx⟩

theorem rooks_core (f t : Nat) :
    gm 3 f t 6 ∈ moveGenerator p ↔
      (Move.normal (absSq p.black f) (absSq p.black t) none ∈ Spec.legalMoves (abs p) ∧
        p.p3.isSet f = true ∧ p.c0.isSet f = true) := by
  have hC := valid_consistent hV
  rw [mem_gen_piece p 3 f t (by decide)]
  simp only [true_and, false_and, or_false, false_or, Nat.reduceEqDiff]
  unfold BB.isSet
  simp only [mem_toList, BitVec.getLsbD_and, Bool.and_eq_true]
  have hBof : f < 64 → p.p3.getLsbD f = true → p.c0.getLsbD f = true →
      relBoard p f = some ⟨true, .rook⟩ := by
    intro hf h1 h2
    have := (rep_us hC).rook f hf
    rw [BitVec.getLsbD_and, h1, h2] at this
    simpa using this
  constructor
  · rintro (⟨⟨hf, ⟨hp, hc0⟩, hb⟩, ht, ⟨hbm, hal⟩, hx⟩ | ⟨⟨hf, ⟨hp, hc0⟩, hnp⟩, ht, hbm, hal⟩)
    · have hd := ((rookMoves_mem hC hf t).mp hbm).2
      have hto := ((allowed_iff hV t ht).mp hal).1
      exact ⟨(legal_piece_iff hV t (by decide) hf (hBof hf hp hc0)).mpr ⟨ht, hd, hto, hal,
        (pinOk_orth_move hV hc0 ht hd).mpr (Or.inr ⟨hb, hx⟩)⟩, hp, hc0⟩
    · have hd := ((rookMoves_mem hC hf t).mp hbm).2
      have hto := ((allowed_iff hV t ht).mp hal).1
      exact ⟨(legal_piece_iff hV t (by decide) hf (hBof hf hp hc0)).mpr ⟨ht, hd, hto, hal,
        (pinOk_orth_move hV hc0 ht hd).mpr (Or.inl ((not_pinned_iff f hf).mp hnp))⟩, hp, hc0⟩
  · rintro ⟨hleg, hp, hc0⟩
    have hf : f < 64 := BitVec.lt_of_getLsbD hp
    obtain ⟨ht, hd, hto, hal, hok⟩ := (legal_piece_iff hV t (by decide) hf (hBof hf hp hc0)).mp hleg
    have hd' : orthAtt (relBoard p) f t = true := hd
    have hbm := (rookMoves_mem hC hf t).mpr ⟨ht, hd'⟩
    rcases (pinOk_orth_move hV hc0 ht hd').mp hok with h | ⟨hb, hx⟩
    · exact Or.inr ⟨⟨hf, ⟨hp, hc0⟩, (not_pinned_iff f hf).mpr h⟩, ht, hbm, hal⟩
    · exact Or.inl ⟨⟨hf, ⟨hp, hc0⟩, hb⟩, ht, ⟨hbm, hal⟩, hx⟩

theorem queens_core (f t : Nat) :
    gm 4 f t 6 ∈ moveGenerator p ↔
      (Move.normal (absSq p.black f) (absSq p.black t) none ∈ Spec.legalMoves (abs p) ∧
        p.p4.isSet f = true ∧ p.c0.isSet f = true) := by
  have hC := valid_consistent hV
  rw [mem_gen_piece p 4 f t (by decide)]
  simp only [true_and, false_and, false_or, Nat.reduceEqDiff]
  unfold BB.isSet queenMoves
  simp only [mem_toList, BitVec.getLsbD_and, BitVec.getLsbD_or, Bool.and_eq_true, Bool.or_eq_true]
  have hBof : f < 64 → p.p4.getLsbD f = true → p.c0.getLsbD f = true →
      relBoard p f = some ⟨true, .queen⟩ := by
    intro hf h1 h2
    have := (rep_us hC).queen f hf
    rw [BitVec.getLsbD_and, h1, h2] at this
    simpa using this
  have hpa : ∀ x, pieceAttacks (relBoard p) f ⟨true, .queen⟩ x
      = (diagAtt (relBoard p) f x || orthAtt (relBoard p) f x) := fun x => pieceAttacks_split _ _ _ _
  constructor
  · rintro (⟨⟨hf, ⟨hp, hc0⟩, hb⟩, ht, ⟨hbm, hal⟩, hx⟩ | ⟨⟨hf, ⟨hp, hc0⟩, hb⟩, ht, ⟨hbm, hal⟩, hx⟩ |
      ⟨⟨hf, ⟨hp, hc0⟩, hnp⟩, ht, hbm, hal⟩)
    · have hd := ((bishopMoves_mem hC hf t).mp hbm).2
      have hto := ((allowed_iff hV t ht).mp hal).1
      exact ⟨(legal_piece_iff hV t (by decide) hf (hBof hf hp hc0)).mpr ⟨ht, by rw [hpa, hd]; rfl, hto, hal,
        (pinOk_diag_move hV hc0 ht hto hd).mpr (Or.inr ⟨hb, hx⟩)⟩, hp, hc0⟩
    · have hd := ((rookMoves_mem hC hf t).mp hbm).2
      have hto := ((allowed_iff hV t ht).mp hal).1
      exact ⟨(legal_piece_iff hV t (by decide) hf (hBof hf hp hc0)).mpr ⟨ht, by rw [hpa, hd, Bool.or_true], hto,
        hal, (pinOk_orth_move hV hc0 ht hd).mpr (Or.inr ⟨hb, hx⟩)⟩, hp, hc0⟩
    · have hto := ((allowed_iff hV t ht).mp hal).1
      have hnp' := (not_pinned_iff f hf).mp hnp
      refine ⟨(legal_piece_iff hV t (by decide) hf (hBof hf hp hc0)).mpr ⟨ht, ?_, hto, hal,
        pinOk_of_not_pinned hV hc0 hnp' t⟩, hp, hc0⟩
      rw [hpa]
      rcases hbm with h | h
      · rw [((bishopMoves_mem hC hf t).mp h).2]; rfl
      · rw [((rookMoves_mem hC hf t).mp h).2, Bool.or_true]
  · rintro ⟨hleg, hp, hc0⟩
    have hf : f < 64 := BitVec.lt_of_getLsbD hp
    obtain ⟨ht, hd, hto, hal, hok⟩ := (legal_piece_iff hV t (by decide) hf (hBof hf hp hc0)).mp hleg
    rw [hpa, Bool.or_eq_true] at hd
    rcases hd with hd | hd
    · have hbm := (bishopMoves_mem hC hf t).mpr ⟨ht, hd⟩
      rcases (pinOk_diag_move hV hc0 ht hto hd).mp hok with h | ⟨hb, hx⟩
      · exact Or.inr (Or.inr ⟨⟨hf, ⟨hp, hc0⟩, (not_pinned_iff f hf).mpr h⟩, ht, Or.inl hbm, hal⟩)
      · exact Or.inl ⟨⟨hf, ⟨hp, hc0⟩, hb⟩, ht, ⟨hbm, hal⟩, hx⟩
    · have hbm := (rookMoves_mem hC hf t).mpr ⟨ht, hd⟩
      rcases (pinOk_orth_move hV hc0 ht hd).mp hok with h | ⟨hb, hx⟩
      · exact Or.inr (Or.inr ⟨⟨hf, ⟨hp, hc0⟩, (not_pinned_iff f hf).mpr h⟩, ht, Or.inr hbm, hal⟩)
      · exact Or.inr (Or.inl ⟨⟨hf, ⟨hp, hc0⟩, hb⟩, ht, ⟨hbm, hal⟩, hx⟩)

end

end Rawr.Att
