import Rawr.Proofs.BridgeStart
/-! Chess960 start positions 880 … 959: `Spec.Valid`, E and M by kernel evaluation (≈ 0.3–0.4 s each). -/
namespace Rawr.Br
theorem startBlock_11 : startBlock 880 80 = true := by decide +kernel
end Rawr.Br
