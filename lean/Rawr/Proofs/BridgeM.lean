import Rawr.Proofs.MakeMoveAbsV5
/-! Bridge (domain closure, clause M), specification level: `Spec.LegalMaterial` is preserved by every legal
move of a valid position. Counting: `countPieces` changes under `setSq` by the indicator of the old and of
the new content of the square (`count_setSq`); a non-castling move removes the moving man from its square,
possibly an enemy man (on the target or, en passant, beside it), and puts the moving man — or the piece it
promotes to — on the target; castling moves two men. For the side that did not move every count can only
fall; for the mover every count is unchanged except that a promotion trades one pawn for one piece, which
keeps `excess pieces ≤ 8 − pawns`. -/
namespace Rawr.Br
open Rawr.Spec Rawr.SV

/-- indicator of "the content `o` of a square satisfies `f`". -/
def ind (o : Option Piece) (f : Piece → Bool) : Nat :=
  match o with
  | some pc => if f pc = true then 1 else 0
  | none => 0

theorem filter_len_update (l : List Nat) (P Q : Nat → Bool) (s : Nat) (hnd : l.Nodup)
    (hagree : ∀ j, j ≠ s → Q j = P j) :
    (l.filter Q).length + (if s ∈ l ∧ P s = true then 1 else 0) =
      (l.filter P).length + (if s ∈ l ∧ Q s = true then 1 else 0) := by
  induction l with
  | nil => simp
  | cons x xs ih =>
    rw [List.nodup_cons] at hnd
    have ih := ih hnd.2
    by_cases hx : x = s
    · subst hx
      have hnot : x ∉ xs := hnd.1
      simp only [hnot, false_and, if_false, Nat.add_zero] at ih
      simp only [List.filter_cons, List.mem_cons, true_or, true_and]
      cases hP : P x <;> cases hQ : Q x <;> simp [ih]
    · have hq := hagree x hx
      have hmem : (s ∈ x :: xs) = (s ∈ xs) := by
        simp only [List.mem_cons, eq_iff_iff]
        constructor
        · rintro (h | h)
          · exact absurd h.symm hx
          · exact h
        · exact Or.inr
      simp only [List.filter_cons, hq, hmem]
      cases hP : P x <;> simp <;> omega

/-- `countPieces` under `setSq`. -/
theorem count_setSq (b : Board) (s : Nat) (v : Option Piece) (f : Piece → Bool) (hs : s < 64) :
    countPieces (setSq b s v) f + ind (b s) f = countPieces b f + ind v f := by
  unfold countPieces
  have h := filter_len_update squares
    (fun j => match b j with | some pc => f pc | none => false)
    (fun j => match setSq b s v j with | some pc => f pc | none => false) s
    (List.nodup_range) (by
      intro j hj
      simp only [setSq, if_neg hj])
  have hm : s ∈ squares := List.mem_range.mpr hs
  simp only [hm, true_and] at h
  have e1 : ind (b s) f = (if (match b s with | some pc => f pc | none => false) = true then 1 else 0) := by
    unfold ind; cases b s <;> simp
  have e2 : ind v f = (if (match setSq b s v s with | some pc => f pc | none => false) = true then 1 else 0) := by
    unfold ind setSq; simp only [if_true]; cases v <;> simp
  rw [e1, e2]
  exact h

/-! ### the facts `LegalMaterial` is made of -/

def cnt (b : Board) (w : Bool) (k : Kind) : Nat := countPieces b (fun pc => pc == ⟨w, k⟩)
def cntCol (b : Board) (w : Bool) : Nat := countPieces b (fun pc => pc.white == w)

/-- `LegalMaterial` for one colour, on the counts. -/
def MatOK (b : Board) (w : Bool) : Prop :=
  cntCol b w ≤ 16 ∧ cnt b w .pawn ≤ 8 ∧
  (cnt b w .knight - 2) + (cnt b w .bishop - 2) + (cnt b w .rook - 2) + (cnt b w .queen - 1) ≤ 8 - cnt b w .pawn

theorem legalMaterial_iff (a : APos) : LegalMaterial a = true ↔ MatOK a.board true ∧ MatOK a.board false := by
  unfold LegalMaterial MatOK cnt cntCol
  simp only [List.all_cons, List.all_nil, Bool.and_true, Bool.and_eq_true, decide_eq_true_eq]
  constructor
  · rintro ⟨⟨⟨h1, h2⟩, h3⟩, ⟨h4, h5⟩, h6⟩
    exact ⟨⟨h1, h2, h3⟩, h4, h5, h6⟩
  · rintro ⟨⟨h1, h2, h3⟩, h4, h5, h6⟩
    exact ⟨⟨⟨h1, h2⟩, h3⟩, ⟨h4, h5⟩, h6⟩

/-- every count of a colour weakly falls ⇒ `MatOK` is kept. -/
theorem matOK_of_le {b b' : Board} {w : Bool} (h : MatOK b w)
    (hc : cntCol b' w ≤ cntCol b w) (hk : ∀ k, cnt b' w k ≤ cnt b w k) : MatOK b' w := by
  obtain ⟨h1, h2, h3⟩ := h
  have := hk .pawn; have := hk .knight; have := hk .bishop; have := hk .rook; have := hk .queen
  exact ⟨by omega, by omega, by omega⟩

/-! ### non-castling moves -/

section normal
variable {a : APos} {s t : Nat} {pr : Option Kind} {pc : Piece}

/-- the general counting equation of a non-castling move. -/
theorem count_newBoard (v : ValidFacts a) (nl : NormalLegal a s t pr pc) (f : Piece → Bool) :
    countPieces (newBoard a s t pr pc) f + ind (some pc) f + ind (a.board t) f +
        (if isEpB a s t pc = true then ind (some ⟨!a.whiteToMove, .pawn⟩) f else 0) =
      countPieces a.board f + ind (some (newPiece pr pc)) f := by
  have h1 := count_setSq a.board s none f nl.hs
  rw [nl.hpc] at h1
  have hn : ind none f = 0 := rfl
  rw [hn] at h1
  by_cases hE : isEpB a s t pc = true
  · obtain ⟨hv, hvt⟩ := ep_victim v nl hE
    have hE' := hE
    simp only [isEpB, Bool.and_eq_true, beq_iff_eq, bne_iff_ne, ne_eq, Bool.not_eq_true', Option.isSome_eq_false_iff,
      Option.isNone_iff_eq_none] at hE'
    obtain ⟨⟨hk, hf⟩, hnone⟩ := hE'
    -- the victim's square
    have hvs : sq (file t) (rank s) ≠ s := by
      intro e
      rw [e, nl.hpc] at hv
      have := Option.some.inj hv
      have hw := nl.hw
      rw [this] at hw
      simp at hw
    have hv64 : sq (file t) (rank s) < 64 := by
      have hb := file_rank_bounds s nl.hs
      have hb' := file_rank_bounds t nl.ht
      have hob : onBoard (file t) (rank s) = true := by
        simp only [onBoard, Bool.and_eq_true, decide_eq_true_eq]; omega
      exact (sq_coords hob).2.2
    have h2 := count_setSq (setSq a.board s none) (sq (file t) (rank s)) none f hv64
    have e2 : setSq a.board s none (sq (file t) (rank s)) = some ⟨!a.whiteToMove, .pawn⟩ := by
      unfold setSq; rw [if_neg hvs]; exact hv
    rw [e2, hn] at h2
    have h3 := count_setSq (setSq (setSq a.board s none) (sq (file t) (rank s)) none) t (some (newPiece pr pc)) f nl.ht
    have e3 : setSq (setSq a.board s none) (sq (file t) (rank s)) none t = a.board t := by
      unfold setSq; rw [if_neg (Ne.symm hvt), if_neg (Ne.symm nl.hne)]
    rw [e3] at h3
    have hnb : newBoard a s t pr pc =
        setSq (setSq (setSq a.board s none) (sq (file t) (rank s)) none) t (some (newPiece pr pc)) := by
      unfold newBoard; rw [if_pos hE]
    rw [hnb, if_pos hE]
    omega
  · have h3 := count_setSq (setSq a.board s none) t (some (newPiece pr pc)) f nl.ht
    have e3 : setSq a.board s none t = a.board t := by
      unfold setSq; rw [if_neg (Ne.symm nl.hne)]
    rw [e3] at h3
    have hnb : newBoard a s t pr pc = setSq (setSq a.board s none) t (some (newPiece pr pc)) := by
      unfold newBoard; rw [if_neg hE]
    rw [hnb, if_neg hE]
    omega

/-- a predicate that holds only of men of colour `c`. -/
def OnlyCol (f : Piece → Bool) (c : Bool) : Prop := ∀ x, f x = true → x.white = c

theorem ind_zero_of_col {f : Piece → Bool} {c : Bool} (hf : OnlyCol f c) {x : Piece} (hx : x.white ≠ c) :
    ind (some x) f = 0 := by
  unfold ind
  simp only []
  split
  · next h => exact absurd (hf x h) hx
  · rfl

/-- the side that did not move: every count weakly falls. -/
theorem count_opp_le (v : ValidFacts a) (nl : NormalLegal a s t pr pc) (f : Piece → Bool)
    (hf : OnlyCol f (!a.whiteToMove)) : countPieces (newBoard a s t pr pc) f ≤ countPieces a.board f := by
  have h := count_newBoard v nl f
  have hw := nl.hw
  have e1 : ind (some (newPiece pr pc)) f = 0 :=
    ind_zero_of_col hf (by rw [newPiece_white, hw]; cases a.whiteToMove <;> simp)
  rw [e1] at h
  omega

/-- the mover: what stood on the target, and the en-passant victim, are not the mover's. -/
theorem count_own (v : ValidFacts a) (nl : NormalLegal a s t pr pc) (f : Piece → Bool)
    (hf : OnlyCol f a.whiteToMove) :
    countPieces (newBoard a s t pr pc) f + ind (some pc) f = countPieces a.board f + ind (some (newPiece pr pc)) f := by
  have h := count_newBoard v nl f
  have e1 : ind (a.board t) f = 0 := by
    cases hq : a.board t with
    | none => rfl
    | some q =>
      obtain ⟨hne, _⟩ := nl.tgt q hq
      exact ind_zero_of_col hf (by rw [← nl.hw]; exact hne)
  have e2 : ind (some (⟨!a.whiteToMove, .pawn⟩ : Piece)) f = 0 :=
    ind_zero_of_col hf (by cases a.whiteToMove <;> simp)
  rw [e1, e2] at h
  split at h <;> omega

theorem onlyCol_cnt (w : Bool) (k : Kind) : OnlyCol (fun pc => pc == ⟨w, k⟩) w := by
  intro x hx
  have : x = ⟨w, k⟩ := by simpa using hx
  rw [this]

theorem onlyCol_col (w : Bool) : OnlyCol (fun pc => pc.white == w) w := by
  intro x hx
  simpa using hx

theorem ind_eq (x : Piece) (w : Bool) (k : Kind) :
    ind (some x) (fun pc => pc == ⟨w, k⟩) = if x = ⟨w, k⟩ then 1 else 0 := by
  unfold ind
  simp only [beq_iff_eq]

theorem ind_col (x : Piece) (w : Bool) :
    ind (some x) (fun pc => pc.white == w) = if x.white = w then 1 else 0 := by
  unfold ind
  simp only [beq_iff_eq]

/-- `MatOK` of both colours after a non-castling pseudo-legal move. -/
theorem matOK_normal (v : ValidFacts a) (nl : NormalLegal a s t pr pc) (w : Bool)
    (h : MatOK a.board w) : MatOK (newBoard a s t pr pc) w := by
  by_cases hw : w = a.whiteToMove
  · subst hw
    have hcol := count_own v nl _ (onlyCol_col a.whiteToMove)
    rw [ind_col, ind_col, newPiece_white, nl.hw] at hcol
    simp only [if_true] at hcol
    have hk := fun k => count_own v nl _ (onlyCol_cnt a.whiteToMove k)
    obtain ⟨h1, h2, h3⟩ := h
    cases hpr : pr with
    | none =>
      have hnp : newPiece none pc = pc := rfl
      subst hpr
      rw [hnp] at hk
      have e : ∀ k, cnt (newBoard a s t none pc) a.whiteToMove k = cnt a.board a.whiteToMove k := by
        intro k; have := hk k; unfold cnt; omega
      refine ⟨by unfold cntCol at h1 ⊢; omega, by rw [e]; exact h2, by simp only [e]; exact h3⟩
    | some k' =>
      subst hpr
      obtain ⟨hkp, hmem, _⟩ := nl.prK k' rfl
      have hpcE : pc = ⟨a.whiteToMove, .pawn⟩ := by
        cases pc with
        | mk w' kd => simp only [] at hkp; have := nl.hw; simp only [] at this; rw [hkp, this]
      subst hpcE
      have hnp : newPiece (some k') ⟨a.whiteToMove, .pawn⟩ = ⟨a.whiteToMove, k'⟩ := rfl
      rw [hnp] at hk
      simp only [ind_eq] at hk
      have p0 := hk .pawn
      have p1 := hk .knight
      have p2 := hk .bishop
      have p3 := hk .rook
      have p4 := hk .queen
      unfold MatOK
      unfold cntCol at h1 ⊢
      unfold cnt at h2 h3 ⊢
      simp only [promoKinds, List.mem_cons, List.not_mem_nil, or_false] at hmem
      rcases hmem with rfl | rfl | rfl | rfl <;>
        simp at p0 p1 p2 p3 p4 <;> exact ⟨by omega, by omega, by omega⟩
  · have hw' : w = !a.whiteToMove := by cases w <;> cases h' : a.whiteToMove <;> simp_all
    subst hw'
    exact matOK_of_le h (count_opp_le v nl _ (onlyCol_col _)) (fun k => count_opp_le v nl _ (onlyCol_cnt _ k))

end normal

/-! ### castling -/

section castle
variable {a : APos} {ks : Bool} {rf k : Nat}

/-- castling changes no count. -/
theorem count_cBoard (a : APos) (k rsq kTo rTo : Nat) (hk64 : k < 64) (hr64 : rsq < 64)
    (hkT64 : kTo < 64) (hrT64 : rTo < 64) (hne : rTo ≠ kTo)
    (hking : a.board k = some ⟨a.whiteToMove, .king⟩) (hrook : a.board rsq = some ⟨a.whiteToMove, .rook⟩)
    (hkTo : kTo = k ∨ kTo = rsq ∨ a.board kTo = none) (hrTo : rTo = k ∨ rTo = rsq ∨ a.board rTo = none)
    (f : Piece → Bool) :
    countPieces (cBoard a k rsq kTo rTo) f = countPieces a.board f := by
  have hkr : k ≠ rsq := by
    intro e
    rw [← e, hking] at hrook
    cases hrook
  have h1 := count_setSq a.board k none f hk64
  have h2 := count_setSq (setSq a.board k none) rsq none f hr64
  have h3 := count_setSq (setSq (setSq a.board k none) rsq none) kTo (some ⟨a.whiteToMove, .king⟩) f hkT64
  have h4 := count_setSq (setSq (setSq (setSq a.board k none) rsq none) kTo (some ⟨a.whiteToMove, .king⟩)) rTo
    (some ⟨a.whiteToMove, .rook⟩) f hrT64
  have e2 : setSq a.board k none rsq = some ⟨a.whiteToMove, .rook⟩ := by
    unfold setSq; rw [if_neg (Ne.symm hkr)]; exact hrook
  have e3 : setSq (setSq a.board k none) rsq none kTo = none := by
    unfold setSq
    rcases hkTo with h | h | h
    · rw [h]; simp
    · rw [h]; simp
    · split
      · rfl
      · split
        · rfl
        · exact h
  have e4 : setSq (setSq (setSq a.board k none) rsq none) kTo (some ⟨a.whiteToMove, .king⟩) rTo = none := by
    unfold setSq
    rw [if_neg hne]
    rcases hrTo with h | h | h
    · rw [h]; simp
    · rw [h]; simp
    · split
      · rfl
      · split
        · rfl
        · exact h
  rw [hking] at h1
  rw [e2] at h2
  rw [e3] at h3
  rw [e4] at h4
  have hn : ind none f = 0 := rfl
  rw [hn] at h1 h2 h3 h4
  unfold cBoard
  omega

end castle

/-- **M is preserved by every legal move** of a position satisfying `Spec.Valid`. -/
theorem legalMaterial_apply {a : APos} {mv : Move} (hv : Valid a = true) (hM : LegalMaterial a = true)
    (hl : mv ∈ legalMoves a) : LegalMaterial (apply a mv) = true := by
  rw [valid_iff] at hv
  rw [legalMaterial_iff] at hM ⊢
  rcases legal_cases hl with ⟨s, t, pr, pc, e, nl, _⟩ | ⟨ks, e, hc⟩
  · subst e
    rw [apply_board nl.hpc]
    exact ⟨matOK_normal hv nl true hM.1, matOK_normal hv nl false hM.2⟩
  · subst e
    obtain ⟨rf, k, cf⟩ := castle_facts hc
    obtain ⟨hB, _⟩ := apply_castle_fields cf
    obtain ⟨hkT, hrT, hne⟩ := targets a.whiteToMove ks
    have hu := unique_of_kingSquares cf.hk
    obtain ⟨hf8, _, _⟩ := hv.rights _ _ _ cf.hr
    have hr64 : sq rf (homeRank a.whiteToMove) < 64 := by
      unfold sq homeRank; split <;> omega
    have hc := fun f => count_cBoard a k _ _ _ hu.1 hr64 hkT hrT (Ne.symm hne) hu.2.1 cf.rook cf.kTo cf.rTo f
    rw [hB]
    unfold MatOK cnt cntCol at hM ⊢
    simp only [hc]
    exact hM

/-- M after a null move (the board is untouched). -/
theorem legalMaterial_pass (a : APos) (hM : LegalMaterial a = true) :
    LegalMaterial { a with whiteToMove := !a.whiteToMove, ep := none, half := 0 } = true := hM

end Rawr.Br
