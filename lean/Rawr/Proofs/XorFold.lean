import Rawr.Model.Basic
/-! XOR folds over lists of squares: `foldl xor` is linear, invariant under permutation, and can be
re-indexed (core Lean only). Used by the position-key proofs (C04). -/
namespace Rawr.ZH

/-- `⊕_{i ∈ l} f i`. -/
def xorSum (f : Nat → BB) (l : List Nat) : BB := l.foldl (fun h i => h ^^^ f i) 0#64

/-- a `foldl xor` over keys `k a` does not depend on the order of the list. -/
theorem foldl_xor_perm {α} (k : α → BB) {l₁ l₂ : List α} (h : l₁.Perm l₂) (init : BB) :
    l₁.foldl (fun h a => h ^^^ k a) init = l₂.foldl (fun h a => h ^^^ k a) init := by
  apply h.foldl_eq'
  intro x _ y _ z
  simp only [BitVec.xor_assoc, BitVec.xor_comm (k x) (k y)]

theorem foldl_xor_init {α} (k : α → BB) (l : List α) (init : BB) :
    l.foldl (fun h a => h ^^^ k a) init = init ^^^ l.foldl (fun h a => h ^^^ k a) 0#64 := by
  induction l generalizing init with
  | nil => simp
  | cons a l ih =>
    simp only [List.foldl_cons]
    rw [ih (init ^^^ k a), ih (0#64 ^^^ k a), BitVec.zero_xor, BitVec.xor_assoc]

theorem foldl_eq_xorSum (f : Nat → BB) (l : List Nat) (init : BB) :
    l.foldl (fun h i => h ^^^ f i) init = init ^^^ xorSum f l := foldl_xor_init f l init

@[simp] theorem xorSum_nil (f : Nat → BB) : xorSum f [] = 0#64 := rfl

theorem xorSum_cons (f : Nat → BB) (a : Nat) (l : List Nat) : xorSum f (a :: l) = f a ^^^ xorSum f l := by
  unfold xorSum
  rw [List.foldl_cons, foldl_xor_init, BitVec.zero_xor]

theorem xorSum_append (f : Nat → BB) (l₁ l₂ : List Nat) :
    xorSum f (l₁ ++ l₂) = xorSum f l₁ ^^^ xorSum f l₂ := by
  unfold xorSum
  rw [List.foldl_append, foldl_xor_init]

theorem xorSum_perm (f : Nat → BB) {l₁ l₂ : List Nat} (h : l₁.Perm l₂) : xorSum f l₁ = xorSum f l₂ :=
  foldl_xor_perm f h 0#64

theorem xorSum_congr {f g : Nat → BB} {l : List Nat} (h : ∀ i ∈ l, f i = g i) : xorSum f l = xorSum g l := by
  induction l with
  | nil => rfl
  | cons a l ih =>
    rw [xorSum_cons, xorSum_cons, h a (List.mem_cons_self), ih (fun i hi => h i (List.mem_cons_of_mem _ hi))]

theorem xorSum_zero (l : List Nat) : xorSum (fun _ => 0#64) l = 0#64 := by
  induction l with
  | nil => rfl
  | cons a l ih => rw [xorSum_cons, ih, BitVec.xor_zero]

/-- linearity. -/
theorem xorSum_xor (f g : Nat → BB) (l : List Nat) :
    xorSum (fun i => f i ^^^ g i) l = xorSum f l ^^^ xorSum g l := by
  induction l with
  | nil => simp
  | cons a l ih =>
    simp only [xorSum_cons, ih]
    ac_rfl

theorem xorSum_map (f : Nat → BB) (g : Nat → Nat) (l : List Nat) :
    xorSum f (l.map g) = xorSum (fun i => f (g i)) l := by
  induction l with
  | nil => rfl
  | cons a l ih => rw [List.map_cons, xorSum_cons, xorSum_cons, ih]

theorem xorSum_filter (f : Nat → BB) (p : Nat → Bool) (l : List Nat) :
    xorSum f (l.filter p) = xorSum (fun i => if p i then f i else 0#64) l := by
  induction l with
  | nil => rfl
  | cons a l ih =>
    rw [List.filter_cons, xorSum_cons]
    cases hp : p a
    · simp only [Bool.false_eq_true, if_false, BitVec.zero_xor, ih]
    · simp only [if_true, xorSum_cons, ih]

/-- re-indexing along a map that permutes the list. -/
theorem xorSum_reindex (f : Nat → BB) (g : Nat → Nat) {l : List Nat} (h : (l.map g).Perm l) :
    xorSum f l = xorSum (fun i => f (g i)) l := by
  rw [← xorSum_map f g l, xorSum_perm f h]

/-- a sum with a single non-zero term. -/
theorem xorSum_single (v : BB) (s : Nat) {l : List Nat} (hn : l.Nodup) (hs : s ∈ l) :
    xorSum (fun i => if i = s then v else 0#64) l = v := by
  induction l with
  | nil => cases hs
  | cons a l ih =>
    rw [xorSum_cons]
    have ⟨ha, hl⟩ := List.nodup_cons.mp hn
    by_cases h : a = s
    · subst h
      have : xorSum (fun i => if i = a then v else 0#64) l = xorSum (fun _ => 0#64) l := by
        apply xorSum_congr
        intro i hi
        have : i ≠ a := fun e => ha (e ▸ hi)
        simp [this]
      rw [this, xorSum_zero]; simp
    · have hs' : s ∈ l := by
        rcases List.mem_cons.mp hs with e | e
        · exact absurd e.symm h
        · exact e
      rw [ih hl hs']; simp [h]

theorem xorSum_single_range (v : BB) {s n : Nat} (hs : s < n) :
    xorSum (fun i => if i = s then v else 0#64) (List.range n) = v :=
  xorSum_single v s List.nodup_range (List.mem_range.mpr hs)

end Rawr.ZH
