import Rawr.Proofs.FenSound
import Rawr.Proofs.FenValidOfSpec
import Rawr.Proofs.FenDefs
/-! # C06/C07: the castling loop of `set_fen` reads back `Spec.castleField`

`fenCastling_castleField`: for a `Spec.Valid` position and boards spelled out by its coordinate board,
`fenCastling (Spec.castleField a st) [] P` sets exactly the four rights of `a` with their rook files, in the
styles `.xfen`, `.shredder` and (when every right is to the outermost rook of its wing) `.kqkq`.
`castleField_no_space`: the field contains no space. Helper lemmas live in `Rawr.FenCa`. -/
namespace Rawr
open Spec
set_option linter.unusedSimpArgs false
set_option linter.unusedVariables false
namespace FenCa

theorem east_white : ∀ k, k < 8 → ∀ i, i < 64 →
    (0xFF#64 &&& rayEastBB k).getLsbD i = (decide (i < 8) && decide (k < i)) := by decide +kernel
theorem west_white : ∀ k, k < 8 → ∀ i, i < 64 →
    (0xFF#64 &&& rayWestBB k).getLsbD i = (decide (i < k)) := by decide +kernel
theorem east_black : ∀ k, k < 8 → ∀ i, i < 64 →
    (0xFF00000000000000#64 &&& rayEastBB (k + 56)).getLsbD i = (decide (k + 56 < i)) := by decide +kernel
theorem west_black : ∀ k, k < 8 → ∀ i, i < 64 →
    (0xFF00000000000000#64 &&& rayWestBB (k + 56)).getLsbD i = (decide (56 ≤ i) && decide (i < k + 56)) := by decide +kernel

theorem toList_pairwise (b : BB) : (toList b).Pairwise (· < ·) := by
  unfold toList
  exact List.Pairwise.filter _ List.pairwise_lt_range

theorem hsb_of_max {b : BB} {s : Nat} (hs : b.getLsbD s = true)
    (hu : ∀ i, b.getLsbD i = true → i ≤ s) : hsb b = s := by
  have hm : s ∈ toList b := (mem_toList b s).mpr hs
  unfold hsb
  cases hh : (toList b).getLast? with
  | none => rw [List.getLast?_eq_none_iff.mp hh] at hm; cases hm
  | some x =>
    have hx : x ∈ toList b := List.mem_of_getLast? hh
    have h1 : x ≤ s := hu x ((mem_toList b x).mp hx)
    have hp := toList_pairwise b
    obtain ⟨ys, hd⟩ := List.getLast?_eq_some_iff.mp hh
    rw [hd] at hp hm
    rw [List.pairwise_append] at hp
    simp only [Option.getD_some]
    rcases List.mem_append.mp hm with h | h
    · have := hp.2.2 s h x (by simp)
      omega
    · simp at h; omega

theorem lsb_of_min {b : BB} {s : Nat} (hs : b.getLsbD s = true)
    (hu : ∀ i, b.getLsbD i = true → s ≤ i) : lsb b = s := by
  have hm : s ∈ toList b := (mem_toList b s).mpr hs
  unfold lsb
  cases hl : toList b with
  | nil => rw [hl] at hm; cases hm
  | cons x tl =>
    have hx : x ∈ toList b := by rw [hl]; simp
    have h1 : s ≤ x := hu x ((mem_toList b x).mp hx)
    have hp := toList_pairwise b
    rw [hl] at hp hm
    rw [List.pairwise_cons] at hp
    simp only [List.head?_cons, Option.getD_some]
    rcases List.mem_cons.mp hm with h | h
    · omega
    · have := hp.1 s h
      omega

theorem piece_beq : ∀ (pw w : Bool) (pk kd : Kind),
    ((some (⟨pw, pk⟩ : Piece)) == some ⟨w, kd⟩) = ((pw == w) && (pk == kd)) := by
  intro pw w pk kd
  cases pw <;> cases w <;> cases pk <;> cases kd <;> rfl

theorem bits (b : Board) (w : Bool) (kd : Kind) (i : Nat) :
    (geomBB (isCol b w) &&& geomBB (isKind b kd)).getLsbD i =
      (decide (i < 64) && (b i == some ⟨w, kd⟩)) := by
  rw [BitVec.getLsbD_and, getLsbD_geomBB, getLsbD_geomBB]
  unfold isCol isKind
  cases h : b i with
  | none => simp
  | some pc =>
    obtain ⟨pw, pk⟩ := pc
    rw [piece_beq]
    dsimp only
    cases decide (i < 64) <;> cases (pw == w) <;> cases (pk == kd) <;> rfl

end FenCa

/-- the four boards the castling loop looks at are the ones spelled out by `b` (White in `c0`). -/
def HasBoards (P : Position) (b : Spec.Board) : Prop :=
  P.c0 = geomBB (isCol b true) ∧ P.c1 = geomBB (isCol b false) ∧
  P.p3 = geomBB (isKind b .rook) ∧ P.p5 = geomBB (isKind b .king)

namespace FenCa

/-- home-rank offset of a colour. -/
def off (w : Bool) : Nat := if w then 0 else 56

theorem right_facts {a : APos} (hV : Spec.Valid a = true) (w ks : Bool) {f : Nat}
    (hr : right a w ks = some f) :
    f < 8 ∧ a.board (f + off w) = some ⟨w, .rook⟩ ∧
    ∃ k, k < 8 ∧ a.board (k + off w) = some ⟨w, .king⟩ ∧
      (∀ i, i < 64 → a.board i = some ⟨w, .king⟩ → i = k + off w) ∧
      (if ks then k < f else f < k) := by
  have h := (FenV.valid_split hV).2.2.2.1 w ks
  rw [hr] at h
  simp only [Bool.and_eq_true, decide_eq_true_eq, beq_iff_eq] at h
  obtain ⟨⟨h1, h2⟩, h3⟩ := h
  have hsq : sq f (homeRank w) = f + off w := by
    cases w
    · exact ZH.sq_home_false f
    · simpa [off] using ZH.sq_home_true f
  rw [hsq] at h2
  refine ⟨h1, h2, ?_⟩
  split at h3
  · rename_i k0 hk
    simp only [Bool.and_eq_true, beq_iff_eq] at h3
    obtain ⟨h3, h4⟩ := h3
    have hmem : ∀ i, (i < 64 ∧ a.board i = some ⟨w, .king⟩) ↔ i = k0 := by
      intro i
      have : i ∈ kingSquares a.board w ↔ i = k0 := by rw [hk]; simp
      unfold kingSquares squares at this
      simpa only [List.mem_filter, List.mem_range, beq_iff_eq] using this
    have hk0 := (hmem k0).mpr rfl
    have hrk : k0 = k0 % 8 + off w := by
      unfold rank homeRank at h3
      unfold off
      cases w <;> simp only [Bool.false_eq_true, if_false, if_true] at h3 ⊢ <;> omega
    refine ⟨k0 % 8, Nat.mod_lt _ (by decide), ?_, ?_, ?_⟩
    · rw [← hrk]; exact hk0.2
    · intro i hi hb; rw [← hrk]; exact (hmem i).mp ⟨hi, hb⟩
    · unfold file at h4
      cases ks <;> simp only [Bool.false_eq_true, if_false, if_true, decide_eq_true_eq] at h4 ⊢ <;> omega
  · cases h3

theorem outer_spec {b : Board} {w ks : Bool} {f : Nat} (h : outermost b w ks f = true) :
    ∀ g, g < 8 → (if ks then f < g else g < f) → b (g + off w) ≠ some ⟨w, .rook⟩ := by
  unfold outermost at h
  simp only [List.all_eq_true, List.mem_range] at h
  intro g hg hc
  have h1 := h g hg
  have hoff : 8 * (homeRank w).toNat = off w := by cases w <;> simp [homeRank, off]
  rw [hoff] at h1
  cases ks
  · simp only [Bool.false_eq_true, if_false] at hc h1
    simpa [hc] using h1
  · simp only [if_true] at hc h1
    have : g > f := hc
    simpa [this] using h1

theorem king_lsb {P : Position} {b : Board} (hP : HasBoards P b) (w : Bool) {kk : Nat} (hk64 : kk < 64)
    (hk : b kk = some ⟨w, .king⟩) (hu : ∀ i, i < 64 → b i = some ⟨w, .king⟩ → i = kk) :
    lsb ((if w then P.c0 else P.c1) &&& P.p5) = kk := by
  obtain ⟨h0, h1, h3, h5⟩ := hP
  have e : ((if w then P.c0 else P.c1) &&& P.p5) = geomBB (isCol b w) &&& geomBB (isKind b .king) := by
    cases w <;> simp [h0, h1, h5]
  rw [e]
  apply FenV.lsb_of_unique
  · rw [bits, hk]; simp [hk64]
  · intro i hi
    rw [bits] at hi
    simp only [Bool.and_eq_true, decide_eq_true_eq, beq_iff_eq] at hi
    exact hu i hi.1 hi.2

theorem rook_bits {P : Position} {b : Board} (hP : HasBoards P b) (w : Bool) (i : Nat) :
    ((if w then P.c0 else P.c1) &&& P.p3).getLsbD i = (decide (i < 64) && (b i == some ⟨w, .rook⟩)) := by
  obtain ⟨h0, h1, h3, h5⟩ := hP
  have e : ((if w then P.c0 else P.c1) &&& P.p3) = geomBB (isCol b w) &&& geomBB (isKind b .rook) := by
    cases w <;> simp [h0, h1, h3]
  rw [e, bits]

theorem cl_K (P : Position) : castleLetter P 'K' =
    (if (P.c0 &&& P.p3 &&& (0xFF#64 &&& rayEastBB (lsb (P.c0 &&& P.p5)))).isOcc then
      some (some (false, fileOf (hsb (P.c0 &&& P.p3 &&& (0xFF#64 &&& rayEastBB (lsb (P.c0 &&& P.p5))))), true))
     else none) := rfl

theorem letter_K {a : APos} (hV : Spec.Valid a = true) {P : Position} (hP : HasBoards P a.board) {f : Nat}
    (hr : right a true true = some f) (ho : outermost a.board true true f = true) :
    castleLetter P 'K' = some (some (false, f, true)) := by
  obtain ⟨hf, hrook, k, hk8, hking, huniq, hside⟩ := right_facts hV true true hr
  have hout := outer_spec ho
  simp only [off, if_true, Nat.add_zero] at hrook hking huniq hside hout
  have hk := king_lsb hP true (by omega) hking huniq
  have hrb := rook_bits hP true
  simp only [if_true] at hk hrb
  rw [cl_K, hk]
  have hbit : ∀ i, (P.c0 &&& P.p3 &&& (0xFF#64 &&& rayEastBB k)).getLsbD i =
      (decide (i < 64) && (a.board i == some ⟨true, .rook⟩) && (decide (i < 8) && decide (k < i))) := by
    intro i
    rw [BitVec.getLsbD_and, hrb]
    by_cases hi : i < 64
    · rw [east_white k hk8 i hi]
    · simp [hi]
  have hfs : (P.c0 &&& P.p3 &&& (0xFF#64 &&& rayEastBB k)).getLsbD f = true := by
    rw [hbit, hrook]; simp; omega
  have hh : hsb (P.c0 &&& P.p3 &&& (0xFF#64 &&& rayEastBB k)) = f := by
    apply hsb_of_max hfs
    intro i hi
    rw [hbit] at hi
    simp only [Bool.and_eq_true, decide_eq_true_eq, beq_iff_eq] at hi
    apply Classical.byContradiction
    intro hn
    exact hout i hi.2.1 (by omega) hi.1.2
  have hocc : (P.c0 &&& P.p3 &&& (0xFF#64 &&& rayEastBB k)).isOcc = true := by
    simp only [BB.isOcc, bne_iff_ne]
    exact FenS.ne_zero_of_getLsbD hfs
  rw [if_pos hocc, hh]
  simp only [fileOf, Nat.mod_eq_of_lt hf]

theorem cl_Q (P : Position) : castleLetter P 'Q' =
    (if (P.c0 &&& P.p3 &&& (0xFF#64 &&& rayWestBB (lsb (P.c0 &&& P.p5)))).isOcc then
      some (some (false, fileOf (lsb (P.c0 &&& P.p3 &&& (0xFF#64 &&& rayWestBB (lsb (P.c0 &&& P.p5))))), false))
     else none) := rfl

theorem letter_Q {a : APos} (hV : Spec.Valid a = true) {P : Position} (hP : HasBoards P a.board) {f : Nat}
    (hr : right a true false = some f) (ho : outermost a.board true false f = true) :
    castleLetter P 'Q' = some (some (false, f, false)) := by
  obtain ⟨hf, hrook, k, hk8, hking, huniq, hside⟩ := right_facts hV true false hr
  have hout := outer_spec ho
  simp only [off, if_true, Nat.add_zero, Bool.false_eq_true, if_false] at hrook hking huniq hside hout
  have hk := king_lsb hP true (by omega) hking huniq
  have hrb := rook_bits hP true
  simp only [if_true] at hk hrb
  rw [cl_Q, hk]
  have hbit : ∀ i, (P.c0 &&& P.p3 &&& (0xFF#64 &&& rayWestBB k)).getLsbD i =
      (decide (i < 64) && (a.board i == some ⟨true, .rook⟩) && decide (i < k)) := by
    intro i
    rw [BitVec.getLsbD_and, hrb]
    by_cases hi : i < 64
    · rw [west_white k hk8 i hi]
    · simp [hi]
  have hfs : (P.c0 &&& P.p3 &&& (0xFF#64 &&& rayWestBB k)).getLsbD f = true := by
    rw [hbit, hrook]; simp; omega
  have hh : lsb (P.c0 &&& P.p3 &&& (0xFF#64 &&& rayWestBB k)) = f := by
    apply lsb_of_min hfs
    intro i hi
    rw [hbit] at hi
    simp only [Bool.and_eq_true, decide_eq_true_eq, beq_iff_eq] at hi
    apply Classical.byContradiction
    intro hn
    exact hout i (by omega) (by omega) hi.1.2
  have hocc : (P.c0 &&& P.p3 &&& (0xFF#64 &&& rayWestBB k)).isOcc = true := by
    simp only [BB.isOcc, bne_iff_ne]
    exact FenS.ne_zero_of_getLsbD hfs
  rw [if_pos hocc, hh]
  simp only [fileOf, Nat.mod_eq_of_lt hf]

theorem cl_k (P : Position) : castleLetter P 'k' =
    (if (P.c1 &&& P.p3 &&& (0xFF00000000000000#64 &&& rayEastBB (lsb (P.c1 &&& P.p5)))).isOcc then
      some (some (true, fileOf (hsb (P.c1 &&& P.p3 &&&
        (0xFF00000000000000#64 &&& rayEastBB (lsb (P.c1 &&& P.p5))))), true))
     else none) := rfl

theorem letter_k {a : APos} (hV : Spec.Valid a = true) {P : Position} (hP : HasBoards P a.board) {f : Nat}
    (hr : right a false true = some f) (ho : outermost a.board false true f = true) :
    castleLetter P 'k' = some (some (true, f, true)) := by
  obtain ⟨hf, hrook, k, hk8, hking, huniq, hside⟩ := right_facts hV false true hr
  have hout := outer_spec ho
  simp only [off, if_true, Bool.false_eq_true, if_false] at hrook hking huniq hside hout
  have hk := king_lsb hP false (by omega) hking huniq
  have hrb := rook_bits hP false
  simp only [Bool.false_eq_true, if_false] at hk hrb
  rw [cl_k, hk]
  have hbit : ∀ i, (P.c1 &&& P.p3 &&& (0xFF00000000000000#64 &&& rayEastBB (k + 56))).getLsbD i =
      (decide (i < 64) && (a.board i == some ⟨false, .rook⟩) && decide (k + 56 < i)) := by
    intro i
    rw [BitVec.getLsbD_and, hrb]
    by_cases hi : i < 64
    · rw [east_black k hk8 i hi]
    · simp [hi]
  have hfs : (P.c1 &&& P.p3 &&& (0xFF00000000000000#64 &&& rayEastBB (k + 56))).getLsbD (f + 56) = true := by
    rw [hbit, hrook]; simp; omega
  have hh : hsb (P.c1 &&& P.p3 &&& (0xFF00000000000000#64 &&& rayEastBB (k + 56))) = f + 56 := by
    apply hsb_of_max hfs
    intro i hi
    rw [hbit] at hi
    simp only [Bool.and_eq_true, decide_eq_true_eq, beq_iff_eq] at hi
    apply Classical.byContradiction
    intro hn
    have hi56 : i - 56 + 56 = i := by omega
    exact hout (i - 56) (by omega) (by omega) (by rw [hi56]; exact hi.1.2)
  have hocc : (P.c1 &&& P.p3 &&& (0xFF00000000000000#64 &&& rayEastBB (k + 56))).isOcc = true := by
    simp only [BB.isOcc, bne_iff_ne]
    exact FenS.ne_zero_of_getLsbD hfs
  rw [if_pos hocc, hh]
  have : fileOf (f + 56) = f := by unfold fileOf; omega
  rw [this]

theorem cl_q (P : Position) : castleLetter P 'q' =
    (if (P.c1 &&& P.p3 &&& (0xFF00000000000000#64 &&& rayWestBB (lsb (P.c1 &&& P.p5)))).isOcc then
      some (some (true, fileOf (lsb (P.c1 &&& P.p3 &&&
        (0xFF00000000000000#64 &&& rayWestBB (lsb (P.c1 &&& P.p5))))), false))
     else none) := rfl

theorem letter_q {a : APos} (hV : Spec.Valid a = true) {P : Position} (hP : HasBoards P a.board) {f : Nat}
    (hr : right a false false = some f) (ho : outermost a.board false false f = true) :
    castleLetter P 'q' = some (some (true, f, false)) := by
  obtain ⟨hf, hrook, k, hk8, hking, huniq, hside⟩ := right_facts hV false false hr
  have hout := outer_spec ho
  simp only [off, if_true, Bool.false_eq_true, if_false] at hrook hking huniq hside hout
  have hk := king_lsb hP false (by omega) hking huniq
  have hrb := rook_bits hP false
  simp only [Bool.false_eq_true, if_false] at hk hrb
  rw [cl_q, hk]
  have hbit : ∀ i, (P.c1 &&& P.p3 &&& (0xFF00000000000000#64 &&& rayWestBB (k + 56))).getLsbD i =
      (decide (i < 64) && (a.board i == some ⟨false, .rook⟩) && (decide (56 ≤ i) && decide (i < k + 56))) := by
    intro i
    rw [BitVec.getLsbD_and, hrb]
    by_cases hi : i < 64
    · rw [west_black k hk8 i hi]
    · simp [hi]
  have hfs : (P.c1 &&& P.p3 &&& (0xFF00000000000000#64 &&& rayWestBB (k + 56))).getLsbD (f + 56) = true := by
    rw [hbit, hrook]; simp; omega
  have hh : lsb (P.c1 &&& P.p3 &&& (0xFF00000000000000#64 &&& rayWestBB (k + 56))) = f + 56 := by
    apply lsb_of_min hfs
    intro i hi
    rw [hbit] at hi
    simp only [Bool.and_eq_true, decide_eq_true_eq, beq_iff_eq] at hi
    apply Classical.byContradiction
    intro hn
    have hi56 : i - 56 + 56 = i := by omega
    exact hout (i - 56) (by omega) (by omega) (by rw [hi56]; exact hi.1.2)
  have hocc : (P.c1 &&& P.p3 &&& (0xFF00000000000000#64 &&& rayWestBB (k + 56))).isOcc = true := by
    simp only [BB.isOcc, bne_iff_ne]
    exact FenS.ne_zero_of_getLsbD hfs
  rw [if_pos hocc, hh]
  have : fileOf (f + 56) = f := by unfold fileOf; omega
  rw [this]

/-- the file letter of file `f` (lower case). -/
def fileL (f : Nat) : Char := Char.ofNat ('a'.toNat + f)

theorem upper_tbl : ∀ f, f < 8 →
    ((fileL f).toUpper == 'K') = false ∧ ((fileL f).toUpper == 'Q') = false ∧
    ((fileL f).toUpper == 'k') = false ∧ ((fileL f).toUpper == 'q') = false ∧
    ('A' ≤ (fileL f).toUpper && (fileL f).toUpper ≤ 'H') = true ∧
    asU8 (fileL f).toUpper - asU8 'A' = f ∧ (fileL f).toUpper ≠ ' ' := by decide

theorem lower_tbl : ∀ f, f < 8 →
    (fileL f == 'K') = false ∧ (fileL f == 'Q') = false ∧
    (fileL f == 'k') = false ∧ (fileL f == 'q') = false ∧
    ('A' ≤ fileL f && fileL f ≤ 'H') = false ∧ ('a' ≤ fileL f && fileL f ≤ 'h') = true ∧
    asU8 (fileL f) - asU8 'a' = f ∧ fileL f ≠ ' ' := by decide

theorem cl_upper (P : Position) (c : Char) (h1 : (c == 'K') = false) (h2 : (c == 'Q') = false)
    (h3 : (c == 'k') = false) (h4 : (c == 'q') = false) (h5 : ('A' ≤ c && c ≤ 'H') = true) :
    castleLetter P c = some (some (false, asU8 c - asU8 'A',
      decide (asU8 c - asU8 'A' > fileOf (lsb (P.c0 &&& P.p5))))) := by
  unfold castleLetter
  simp only [h1, h2, h3, h4, h5, Bool.false_eq_true, if_false, if_true]

theorem cl_lower (P : Position) (c : Char) (h1 : (c == 'K') = false) (h2 : (c == 'Q') = false)
    (h3 : (c == 'k') = false) (h4 : (c == 'q') = false) (h5 : ('A' ≤ c && c ≤ 'H') = false)
    (h6 : ('a' ≤ c && c ≤ 'h') = true) :
    castleLetter P c = some (some (true, asU8 c - asU8 'a',
      decide (asU8 c - asU8 'a' > fileOf (lsb (P.c1 &&& P.p5))))) := by
  unfold castleLetter
  simp only [h1, h2, h3, h4, h5, h6, Bool.false_eq_true, if_false, if_true]

theorem letter_file_w {a : APos} (hV : Spec.Valid a = true) {P : Position} (hP : HasBoards P a.board)
    (ks : Bool) {f : Nat} (hr : right a true ks = some f) :
    castleLetter P (fileL f).toUpper = some (some (false, f, ks)) := by
  obtain ⟨hf, hrook, k, hk8, hking, huniq, hside⟩ := right_facts hV true ks hr
  simp only [off, if_true, Nat.add_zero] at hrook hking huniq hside
  have hk := king_lsb hP true (by omega) hking huniq
  simp only [if_true] at hk
  obtain ⟨h1, h2, h3, h4, h5, h6, _⟩ := upper_tbl f hf
  rw [cl_upper P _ h1 h2 h3 h4 h5, h6, hk]
  have : fileOf k = k := by unfold fileOf; omega
  rw [this]
  cases ks
  · simp only [Bool.false_eq_true, if_false] at hside
    simp; omega
  · simp only [if_true] at hside
    simp; omega

theorem letter_file_b {a : APos} (hV : Spec.Valid a = true) {P : Position} (hP : HasBoards P a.board)
    (ks : Bool) {f : Nat} (hr : right a false ks = some f) :
    castleLetter P (fileL f) = some (some (true, f, ks)) := by
  obtain ⟨hf, hrook, k, hk8, hking, huniq, hside⟩ := right_facts hV false ks hr
  simp only [off, Bool.false_eq_true, if_false] at hrook hking huniq
  have hk := king_lsb hP false (by omega) hking huniq
  simp only [Bool.false_eq_true, if_false] at hk
  obtain ⟨h1, h2, h3, h4, h5, h6, h7, _⟩ := lower_tbl f hf
  rw [cl_lower P _ h1 h2 h3 h4 h5 h6, h7, hk]
  have : fileOf (k + 56) = k := by unfold fileOf; omega
  rw [this]
  cases ks
  · simp only [Bool.false_eq_true, if_false] at hside
    simp; omega
  · simp only [if_true] at hside
    simp; omega

/-- the letter `Spec.castleField` prints for the right `(w, ks)` with rook file `f`. -/
def letterOf (a : APos) (st : CastleStyle) (w ks : Bool) (f : Nat) : Char :=
  let letter := if ks then 'k' else 'q'
  let c := match st with
    | .xfen => if outermost a.board w ks f then letter else fileL f
    | .shredder => fileL f
    | .kqkq => letter
  if w then c.toUpper else c

def one (a : APos) (st : CastleStyle) (o : Option Nat) (w ks : Bool) : List Char :=
  match o with
  | none => []
  | some f => [letterOf a st w ks f]

theorem castleField_eq (a : APos) (st : CastleStyle) :
    castleField a st =
      (if (one a st a.wK true true ++ one a st a.wQ true false ++ one a st a.bK false true ++
            one a st a.bQ false false).isEmpty then ['-']
       else one a st a.wK true true ++ one a st a.wQ true false ++ one a st a.bK false true ++
            one a st a.bQ false false) := rfl

theorem upK : ('k' : Char).toUpper = 'K' := by decide
theorem upQ : ('q' : Char).toUpper = 'Q' := by decide

theorem letter_ok {a : APos} (hV : Spec.Valid a = true) (st : CastleStyle)
    (hst : st = .kqkq → ∀ w ks f, right a w ks = some f → outermost a.board w ks f = true)
    {P : Position} (hP : HasBoards P a.board) (w ks : Bool) {f : Nat} (hr : right a w ks = some f) :
    castleLetter P (letterOf a st w ks f) = some (some (!w, f, ks)) := by
  have hKQ : outermost a.board w ks f = true →
      castleLetter P (if w then (if ks then 'k' else 'q').toUpper else (if ks then 'k' else 'q')) =
        some (some (!w, f, ks)) := by
    intro ho
    cases w <;> cases ks <;> simp only [Bool.false_eq_true, if_false, if_true, upK, upQ, Bool.not_true,
      Bool.not_false]
    · exact letter_q hV hP hr ho
    · exact letter_k hV hP hr ho
    · exact letter_Q hV hP hr ho
    · exact letter_K hV hP hr ho
  have hF : castleLetter P (if w then (fileL f).toUpper else fileL f) = some (some (!w, f, ks)) := by
    cases w <;> simp only [Bool.false_eq_true, if_false, if_true, Bool.not_true, Bool.not_false]
    · exact letter_file_b hV hP ks hr
    · exact letter_file_w hV hP ks hr
  unfold letterOf
  cases st with
  | xfen =>
    dsimp only
    cases ho : outermost a.board w ks f
    · simpa only [Bool.false_eq_true, if_false] using hF
    · simpa only [if_true] using hKQ ho
  | shredder => exact hF
  | kqkq => exact hKQ (hst rfl w ks f hr)

theorem letter_ne {a : APos} (hV : Spec.Valid a = true) (st : CastleStyle)
    (hst : st = .kqkq → ∀ w ks f, right a w ks = some f → outermost a.board w ks f = true)
    {P : Position} (hP : HasBoards P a.board) {w ks w' ks' : Bool} {f f' : Nat}
    (hr : right a w ks = some f) (hr' : right a w' ks' = some f') (hne : (w, ks) ≠ (w', ks')) :
    letterOf a st w ks f ≠ letterOf a st w' ks' f' := by
  intro e
  have h1 := letter_ok hV st hst hP w ks hr
  have h2 := letter_ok hV st hst hP w' ks' hr'
  rw [e, h2] at h1
  simp only [Option.some.injEq, Prod.mk.injEq] at h1
  apply hne
  obtain ⟨hw, _, hk⟩ := h1
  cases w <;> cases w' <;> simp_all

theorem letter_ne_space (a : APos) (st : CastleStyle) (w ks : Bool) {f : Nat} (hf : f < 8) :
    letterOf a st w ks f ≠ ' ' := by
  have key : ∀ c : Char, (c = 'k' ∨ c = 'q' ∨ c = fileL f) → (if w then c.toUpper else c) ≠ ' ' := by
    intro c hc
    obtain ⟨_, _, _, _, _, _, hu⟩ := upper_tbl f hf
    obtain ⟨_, _, _, _, _, _, _, hl⟩ := lower_tbl f hf
    rcases hc with rfl | rfl | rfl <;> cases w <;>
      simp only [Bool.false_eq_true, if_false, if_true, upK, upQ]
    · decide
    · decide
    · decide
    · decide
    · exact hl
    · exact hu
  unfold letterOf
  apply key
  have hl : (if ks then 'k' else 'q') = 'k' ∨ (if ks then 'k' else 'q') = 'q' ∨ (if ks then 'k' else 'q') = fileL f := by
    cases ks <;> simp
  cases st with
  | xfen =>
    dsimp only
    cases outermost a.board w ks f
    · simp
    · simpa only [if_true] using hl
  | shredder => simp
  | kqkq => exact hl

/-- the update of the castling loop for the right `(w, ks)`. -/
def upd (P : Position) (w ks : Bool) (o : Option Nat) : Position :=
  match o with
  | none => P
  | some f =>
    match w, ks with
    | true, true => { P with usK := true, cf0 := f }
    | true, false => { P with usQ := true, cf1 := f }
    | false, true => { P with themK := true, cf2 := f }
    | false, false => { P with themQ := true, cf3 := f }

theorem hasBoards_upd {P : Position} {b : Board} (h : HasBoards P b) (w ks : Bool) (o : Option Nat) :
    HasBoards (upd P w ks o) b := by
  unfold upd
  cases o with
  | none => exact h
  | some f => cases w <;> cases ks <;> exact h

theorem step {c : Char} {cs seen : List Char} {P : Position} {bl ks : Bool} {f : Nat}
    (hs : c ∉ seen) (hc : castleLetter P c = some (some (bl, f, ks))) :
    fenCastling (c :: cs) seen P = fenCastling cs (seen ++ [c]) (upd P (!bl) ks (some f)) := by
  rw [fenCastling]
  have : seen.contains c = false := by simpa using hs
  simp only [this, Bool.false_eq_true, if_false, hc]
  cases bl <;> cases ks <;> rfl

theorem mem_one {a : APos} {st : CastleStyle} {o : Option Nat} {w ks : Bool} {c : Char}
    (h : c ∈ one a st o w ks) : ∃ f, o = some f ∧ c = letterOf a st w ks f := by
  unfold one at h
  cases o with
  | none => cases h
  | some f => exact ⟨f, rfl, by simpa using h⟩

theorem peel {a : APos} (hV : Spec.Valid a = true) (st : CastleStyle)
    (hst : st = .kqkq → ∀ w ks f, right a w ks = some f → outermost a.board w ks f = true)
    {P : Position} (hP : HasBoards P a.board) (w ks : Bool) (rest seen : List Char)
    (hseen : ∀ c ∈ seen, ∃ w' ks' f', (w', ks') ≠ (w, ks) ∧ right a w' ks' = some f' ∧
      c = letterOf a st w' ks' f') :
    fenCastling (one a st (right a w ks) w ks ++ rest) seen P =
      fenCastling rest (seen ++ one a st (right a w ks) w ks) (upd P w ks (right a w ks)) := by
  cases hr : right a w ks with
  | none => simp [one, upd]
  | some f =>
    have hc := letter_ok hV st hst hP w ks hr
    have hs : letterOf a st w ks f ∉ seen := by
      intro hm
      obtain ⟨w', ks', f', hne, hr', e⟩ := hseen _ hm
      exact letter_ne hV st hst hP hr' hr hne e.symm
    have := step (cs := rest) hs hc
    simpa [one] using this

theorem upd_all (P : Position)
    (hno : P.usK = false ∧ P.usQ = false ∧ P.themK = false ∧ P.themQ = false) (o1 o2 o3 o4 : Option Nat) :
    upd (upd (upd (upd P true true o1) true false o2) false true o3) false false o4 =
      { P with usK := o1.isSome, usQ := o2.isSome, themK := o3.isSome, themQ := o4.isSome,
               cf0 := o1.getD P.cf0, cf1 := o2.getD P.cf1, cf2 := o3.getD P.cf2, cf3 := o4.getD P.cf3 } := by
  obtain ⟨h1, h2, h3, h4⟩ := hno
  cases P
  cases o1 <;> cases o2 <;> cases o3 <;> cases o4 <;> simp_all [upd]

theorem cl_dash (P : Position) : castleLetter P '-' = some none := rfl

theorem one_nil {a : APos} {st : CastleStyle} {o : Option Nat} {w ks : Bool}
    (h : one a st o w ks = []) : o = none := by
  cases o with
  | none => rfl
  | some f => simp [one] at h

end FenCa

open FenCa in
/-- the castling loop reads back the castling field printed by the specification, in every style
(`.kqkq` only when every right is to the outermost rook — otherwise `K/Q/k/q` names another rook). -/
theorem fenCastling_castleField (a : Spec.APos) (hV : Spec.Valid a = true) (st : Spec.CastleStyle)
    (hst : st = .kqkq → ∀ w ks f, Spec.right a w ks = some f → Spec.outermost a.board w ks f = true)
    (P : Position) (hP : HasBoards P a.board)
    (hno : P.usK = false ∧ P.usQ = false ∧ P.themK = false ∧ P.themQ = false) :
    fenCastling (Spec.castleField a st) [] P =
      some { P with usK := a.wK.isSome, usQ := a.wQ.isSome, themK := a.bK.isSome, themQ := a.bQ.isSome,
                    cf0 := a.wK.getD P.cf0, cf1 := a.wQ.getD P.cf1, cf2 := a.bK.getD P.cf2,
                    cf3 := a.bQ.getD P.cf3 } := by
  rw [← upd_all P hno a.wK a.wQ a.bK a.bQ, castleField_eq]
  cases hs : (one a st a.wK true true ++ one a st a.wQ true false ++ one a st a.bK false true ++
      one a st a.bQ false false).isEmpty
  · simp only [Bool.false_eq_true, if_false]
    have e : one a st a.wK true true ++ one a st a.wQ true false ++ one a st a.bK false true ++
        one a st a.bQ false false =
        one a st (right a true true) true true ++ (one a st (right a true false) true false ++
          (one a st (right a false true) false true ++
            (one a st (right a false false) false false ++ []))) := by
      simp only [List.append_assoc, List.append_nil]; rfl
    rw [e]
    have hP1 := hasBoards_upd hP true true (right a true true)
    have hP2 := hasBoards_upd hP1 true false (right a true false)
    have hP3 := hasBoards_upd hP2 false true (right a false true)
    rw [peel hV st hst hP true true _ [] (by intro c hc; cases hc)]
    rw [peel hV st hst hP1 true false _ _ (by
      intro c hc
      simp only [List.nil_append] at hc
      obtain ⟨f, h, e⟩ := mem_one hc
      exact ⟨true, true, f, by decide, h, e⟩)]
    rw [peel hV st hst hP2 false true _ _ (by
      intro c hc
      simp only [List.nil_append, List.mem_append] at hc
      rcases hc with hc | hc
      · obtain ⟨f, h, e⟩ := mem_one hc
        exact ⟨true, true, f, by decide, h, e⟩
      · obtain ⟨f, h, e⟩ := mem_one hc
        exact ⟨true, false, f, by decide, h, e⟩)]
    rw [peel hV st hst hP3 false false _ _ (by
      intro c hc
      simp only [List.nil_append, List.mem_append] at hc
      rcases hc with (hc | hc) | hc
      · obtain ⟨f, h, e⟩ := mem_one hc
        exact ⟨true, true, f, by decide, h, e⟩
      · obtain ⟨f, h, e⟩ := mem_one hc
        exact ⟨true, false, f, by decide, h, e⟩
      · obtain ⟨f, h, e⟩ := mem_one hc
        exact ⟨false, true, f, by decide, h, e⟩)]
    rw [fenCastling]
    rfl
  · simp only [if_true]
    simp only [List.isEmpty_iff, List.append_eq_nil_iff] at hs
    obtain ⟨⟨⟨h1, h2⟩, h3⟩, h4⟩ := hs
    rw [one_nil h1, one_nil h2, one_nil h3, one_nil h4]
    rw [fenCastling]
    simp only [List.contains_nil, Bool.false_eq_true, if_false, cl_dash]
    rfl

open FenCa in
theorem castleField_no_space (a : Spec.APos) (hV : Spec.Valid a = true) (st : Spec.CastleStyle) :
    ' ' ∉ Spec.castleField a st := by
  intro hm
  rw [castleField_eq] at hm
  split at hm
  · simp at hm
  · simp only [List.mem_append] at hm
    have key : ∀ w ks, ' ' ∈ one a st (right a w ks) w ks → False := by
      intro w ks h
      obtain ⟨f, hr, e⟩ := mem_one h
      exact letter_ne_space a st w ks (right_facts hV w ks hr).1 e.symm
    rcases hm with ((hm | hm) | hm) | hm
    · exact key true true hm
    · exact key true false hm
    · exact key false true hm
    · exact key false false hm

end Rawr

namespace Rawr
namespace FenCa

/-- White: Ke1, Ra1, Rg1, Rh1 (the right `wK` is to the *inner* rook g1); Black: Ke8, Ra8, Rh8. -/
def exBoard : Spec.Board := fun s =>
  match s with
  | 0 => some ⟨true, .rook⟩ | 4 => some ⟨true, .king⟩ | 6 => some ⟨true, .rook⟩ | 7 => some ⟨true, .rook⟩
  | 56 => some ⟨false, .rook⟩ | 60 => some ⟨false, .king⟩ | 63 => some ⟨false, .rook⟩
  | _ => none

def exA : Spec.APos :=
  { board := exBoard, whiteToMove := true, wK := some 6, wQ := some 0, bK := some 7, bQ := none,
    ep := none, half := 0, full := 1 }

/-- the same with the right `wK` to the outermost rook h1 (so that `.kqkq` is faithful). -/
def exA' : Spec.APos := { exA with wK := some 7 }

end FenCa

open FenCa in
/-- non-vacuity: the hypotheses hold for a Chess960-style position with an inner-rook right, in the
X-FEN and Shredder styles; the field is `GQk` resp. `GAh`. -/
example : Spec.Valid exA = true ∧ HasBoards (placeAbs exA.board Position.dflt) exA.board ∧
    ((placeAbs exA.board Position.dflt).usK = false ∧ (placeAbs exA.board Position.dflt).usQ = false ∧
     (placeAbs exA.board Position.dflt).themK = false ∧ (placeAbs exA.board Position.dflt).themQ = false) ∧
    Spec.castleField exA .xfen = ['G', 'Q', 'k'] ∧ Spec.castleField exA .shredder = ['G', 'A', 'h'] :=
  ⟨by decide +kernel, ⟨rfl, rfl, rfl, rfl⟩, by decide, by decide +kernel, by decide +kernel⟩

open FenCa in
/-- non-vacuity of the `.kqkq` side condition. -/
example : Spec.Valid exA' = true ∧
    (∀ w ks f, Spec.right exA' w ks = some f → Spec.outermost exA'.board w ks f = true) ∧
    Spec.castleField exA' .kqkq = ['K', 'Q', 'k'] := by
  refine ⟨by decide +kernel, ?_, by decide +kernel⟩
  intro w ks f h
  cases w <;> cases ks <;> simp [Spec.right, exA', exA] at h <;> subst h <;> decide +kernel

open FenCa in
/-- the side condition on `.kqkq` is needed: with the inner-rook right of `exA` the letter `K` is read
back as the outermost rook h1 (file 7), not g1 (file 6). -/
example : castleLetter (placeAbs exA.board Position.dflt) 'K' = some (some (false, 7, true)) ∧
    Spec.castleField exA .kqkq = ['K', 'Q', 'k'] ∧ exA.wK = some 6 :=
  ⟨by decide +kernel, by decide +kernel, rfl⟩

end Rawr

#print axioms Rawr.fenCastling_castleField
#print axioms Rawr.castleField_no_space
