import Rawr.Spec.Chess
import Rawr.Proofs.StyleWF
/-!
# Annotated games of legal chess games are well-formed

`WFGame` (the hypothesis of the C20 theorems) is here derived from the rules of chess
(`Rawr.Spec`): for every legal move sequence from the standard starting position of fewer than 1024
half-moves, every annotated game that agrees with it on what the facts in `WFGame` talk about
(side to move, type of the moved piece, target square; final piece counts) is well-formed.

Part 1 (this file): a weighted census of a board (`sumSq`) and how `Spec.apply` changes it.
-/
namespace Rawr.Style.Chess
open Rawr.Spec

/-- value of an optional piece under a square-dependent weight. -/
def gv (g : Nat → Piece → Nat) (s : Nat) : Option Piece → Nat
  | some pc => g s pc
  | none => 0

/-- weighted census of the 64 squares. -/
def sumSq (b : Board) (g : Nat → Piece → Nat) : Nat :=
  ((List.range 64).map fun s => gv g s (b s)).sum

theorem sum_map_update (F : Nat → Nat) (s v : Nat) : ∀ (l : List Nat), l.Nodup →
    (l.map fun x => if x = s then v else F x).sum + (if s ∈ l then F s else 0) =
      (l.map F).sum + (if s ∈ l then v else 0)
  | [], _ => by simp
  | x :: xs, hnd => by
    have hx : x ∉ xs := (List.nodup_cons.mp hnd).1
    have ih := sum_map_update F s v xs (List.nodup_cons.mp hnd).2
    by_cases hxs : x = s
    · subst hxs
      have e1 : (xs.map fun y => if y = x then v else F y) = xs.map F := by
        apply List.map_congr_left
        intro y hy
        have : y ≠ x := fun h => hx (h ▸ hy)
        simp [this]
      simp [e1]
      omega
    · have hsx : ¬ s = x := fun h => hxs h.symm
      simp only [List.map_cons, List.sum_cons, List.mem_cons, hxs, hsx, if_false, false_or] at ih ⊢
      omega

theorem sumSq_setSq (b : Board) (s : Nat) (v : Option Piece) (g : Nat → Piece → Nat) :
    sumSq (setSq b s v) g + (if s < 64 then gv g s (b s) else 0) =
      sumSq b g + (if s < 64 then gv g s v else 0) := by
  have h := sum_map_update (fun x => gv g x (b x)) s (gv g s v) (List.range 64) List.nodup_range
  have e : ((List.range 64).map fun x => gv g x (setSq b s v x)) =
      (List.range 64).map fun x => if x = s then gv g s v else gv g x (b x) := by
    apply List.map_congr_left
    intro x _
    unfold setSq
    by_cases hx : x = s <;> simp [hx]
  unfold sumSq
  rw [e]
  simpa [List.mem_range] using h

theorem sumSq_setSq_none_le (b : Board) (s : Nat) (g : Nat → Piece → Nat) :
    sumSq (setSq b s none) g ≤ sumSq b g := by
  have := sumSq_setSq b s none g
  simp only [gv] at this
  split at this <;> omega

theorem sumSq_setSq_le (b : Board) (s : Nat) (pc : Piece) (g : Nat → Piece → Nat) :
    sumSq (setSq b s (some pc)) g ≤ sumSq b g + g s pc := by
  have := sumSq_setSq b s (some pc) g
  simp only [gv] at this
  split at this <;> omega

/-- the piece that lands on the target square of a normal move. -/
def landed (pc : Piece) (promo : Option Kind) : Piece :=
  match promo with
  | some k => ⟨pc.white, k⟩
  | none => pc

/-- the board after a normal move, as three `setSq`. -/
theorem apply_normal_board (p : APos) (s t : Nat) (promo : Option Kind) (pc : Piece)
    (hb : p.board s = some pc) :
    ∃ b2 : Board, (b2 = setSq p.board s none ∨ ∃ e, b2 = setSq (setSq p.board s none) e none) ∧
      (apply p (.normal s t promo)).board = setSq b2 t (some (landed pc promo)) ∧
      (apply p (.normal s t promo)).whiteToMove = !p.whiteToMove := by
  unfold apply
  simp only [hb]
  split
  · exact ⟨_, Or.inr ⟨_, rfl⟩, rfl, trivial⟩
  · exact ⟨_, Or.inl rfl, rfl, trivial⟩

theorem sumSq_apply_normal (p : APos) (s t : Nat) (promo : Option Kind) (pc : Piece) (hs : s < 64)
    (hb : p.board s = some pc) (g : Nat → Piece → Nat) :
    sumSq (apply p (.normal s t promo)).board g + g s pc ≤ sumSq p.board g + g t (landed pc promo) := by
  obtain ⟨b2, hb2, hbd, _⟩ := apply_normal_board p s t promo pc hb
  rw [hbd]
  have h1 := sumSq_setSq p.board s none g
  rw [hb] at h1
  simp only [hs, if_true, gv, Nat.add_zero] at h1
  have h2 : sumSq b2 g ≤ sumSq (setSq p.board s none) g := by
    rcases hb2 with rfl | ⟨e, rfl⟩
    · exact Nat.le_refl _
    · exact sumSq_setSq_none_le _ _ _
  have h3 := sumSq_setSq_le b2 t (landed pc promo) g
  omega

/-! ## what a legal move looks like -/

theorem sq_props {f r : Int} (h : onBoard f r = true) : sq f r < 64 ∧ rank (sq f r) = r ∧ file (sq f r) = f := by
  simp only [onBoard, Bool.and_eq_true, decide_eq_true_eq] at h
  obtain ⟨⟨⟨h1, h2⟩, h3⟩, h4⟩ := h
  unfold sq rank file
  omega

theorem file_bounds (s : Nat) : 0 ≤ file s ∧ file s < 8 := by unfold file; omega
theorem rank_nonneg (s : Nat) : 0 ≤ rank s := by unfold rank; omega
theorem rank_lt {s : Nat} (h : s < 64) : rank s < 8 := by unfold rank; omega

/-- geometry of a pawn move of colour `white` from `s` to `t`. -/
structure PawnShape (white : Bool) (s t : Nat) (promo : Option Kind) : Prop where
  t64 : t < 64
  rk : rank t = rank s + (if white then 1 else -1) ∨
       (rank t = rank s + 2 * (if white then 1 else -1) ∧ rank s = (if white then 1 else 6))
  promo : ∀ k, promo = some k → k ≠ .pawn

theorem promoKinds_ne_pawn {k : Kind} (h : k ∈ promoKinds) : k ≠ .pawn := by
  simp only [promoKinds, List.mem_cons, List.not_mem_nil, or_false] at h
  rcases h with rfl | rfl | rfl | rfl <;> decide

theorem withPromo_shape {s t : Nat} {m : Move} (lastRank : Int)
    (h : m ∈ (if rank t == lastRank then promoKinds.map fun k => Move.normal s t (some k)
              else [Move.normal s t none])) :
    ∃ promo, m = .normal s t promo ∧ ∀ k, promo = some k → k ≠ .pawn := by
  split at h
  · simp only [List.mem_map] at h
    obtain ⟨k, hk, rfl⟩ := h
    exact ⟨some k, rfl, fun k' hk' => by cases hk'; exact promoKinds_ne_pawn hk⟩
  · simp only [List.mem_cons, List.not_mem_nil, or_false] at h
    exact ⟨none, h, fun k hk => by cases hk⟩

/-- every pseudo-legal (non-castling) move from `s`. -/
theorem pseudoFrom_shape {p : APos} {s : Nat} (hs : s < 64) {m : Move} (h : m ∈ pseudoFrom p s) :
    ∃ t promo pc, m = .normal s t promo ∧ p.board s = some pc ∧ pc.white = p.whiteToMove ∧ t < 64 ∧
      (pc.kind = .pawn → PawnShape pc.white s t promo) ∧ (pc.kind ≠ .pawn → promo = none) := by
  unfold pseudoFrom at h
  cases hb : p.board s with
  | none => simp [hb] at h
  | some pc =>
    simp only [hb] at h
    by_cases hc : (pc.white != p.whiteToMove) = true
    · simp [hc] at h
    · simp only [hc] at h
      have hcol : pc.white = p.whiteToMove := by
        cases h1 : pc.white <;> cases h2 : p.whiteToMove <;> simp_all
      cases hk : pc.kind with
      | pawn =>
        simp only [hk] at h
        have hf := file_bounds s
        have hr0 := rank_nonneg s
        have hr8 := rank_lt hs
        have hshape : ∀ (t : Nat) (promo : Option Kind), t < 64 →
            (rank t = rank s + (if pc.white = true then 1 else -1) ∨
              (rank t = rank s + 2 * (if pc.white = true then 1 else -1) ∧
                rank s = (if pc.white = true then 1 else 6))) →
            (∀ k, promo = some k → k ≠ .pawn) →
            ∃ t' promo' pc', Move.normal s t promo = .normal s t' promo' ∧ some pc = some pc' ∧
              pc'.white = p.whiteToMove ∧ t' < 64 ∧ (pc'.kind = .pawn → PawnShape pc'.white s t' promo') ∧
              (pc'.kind ≠ .pawn → promo' = none) :=
          fun t promo h1 h2 h3 => ⟨t, promo, pc, rfl, rfl, hcol, h1, fun _ => ⟨h1, h2, h3⟩, fun hne => absurd hk hne⟩
        generalize hd : (if pc.white = true then (1 : Int) else -1) = dir at h hshape
        generalize hsr : (if pc.white = true then (1 : Int) else 6) = startRank at h hshape
        generalize hlr : (if pc.white = true then (7 : Int) else 0) = lastRank at h
        rcases List.mem_append.mp h with hp | hcap
        · -- pushes
          split at hp
          · rename_i hcond
            simp only [Bool.and_eq_true] at hcond
            obtain ⟨q1, q2, q3⟩ := sq_props hcond.1
            rcases List.mem_append.mp hp with h1 | h2
            · obtain ⟨promo, rfl, hpr⟩ := withPromo_shape _ h1
              exact hshape _ promo q1 (Or.inl q2) hpr
            · split at h2
              · rename_i hdbl
                simp only [Bool.and_eq_true, beq_iff_eq] at hdbl
                simp only [List.mem_cons, List.not_mem_nil, or_false] at h2
                subst h2
                have hon : onBoard (file s) (rank s + 2 * dir) = true := by
                  have := hdbl.1
                  simp only [onBoard, Bool.and_eq_true, decide_eq_true_eq]
                  by_cases hw : pc.white = true <;> simp [hw] at hd hsr <;> omega
                obtain ⟨r1, r2, r3⟩ := sq_props hon
                exact hshape _ none r1 (Or.inr ⟨r2, hdbl.1⟩) (fun k hk' => by cases hk')
              · simp at h2
          · simp at hp
        · -- captures
          simp only [List.mem_flatMap] at hcap
          obtain ⟨df, _, hdf⟩ := hcap
          split at hdf
          · rename_i hon
            obtain ⟨q1, q2, q3⟩ := sq_props hon
            split at hdf
            · split at hdf
              · obtain ⟨promo, rfl, hpr⟩ := withPromo_shape _ hdf
                exact hshape _ promo q1 (Or.inl q2) hpr
              · simp at hdf
            · split at hdf
              · simp only [List.mem_cons, List.not_mem_nil, or_false] at hdf
                subst hdf
                exact hshape _ none q1 (Or.inl q2) (fun k hk' => by cases hk')
              · simp at hdf
          · simp at hdf
      | knight | bishop | rook | queen | king =>
        simp only [hk] at h
        obtain ⟨t, ht, rfl⟩ := List.mem_map.mp h
        have ht64 : t < 64 := by simpa [squares] using (List.mem_filter.mp ht).1
        exact ⟨t, none, pc, rfl, rfl, hcol, ht64, fun hp => (by rw [hk] at hp; cases hp), fun _ => rfl⟩

theorem legalMoves_cases {p : APos} {m : Move} (h : m ∈ legalMoves p) :
    (∃ s, s < 64 ∧ m ∈ pseudoFrom p s) ∨ (∃ ks, castleLegal p ks = true ∧ m = .castle ks) := by
  unfold legalMoves at h
  rcases List.mem_append.mp h with h1 | h2
  · left
    obtain ⟨s, hs, hm⟩ := List.mem_flatMap.mp (List.mem_filter.mp h1).1
    exact ⟨s, by simpa [squares] using hs, hm⟩
  · right
    obtain ⟨ks, hks, rfl⟩ := List.mem_map.mp h2
    exact ⟨ks, (List.mem_filter.mp hks).2, rfl⟩

/-- pointwise description of the board after a normal move. -/
theorem apply_normal_pointwise (p : APos) (s t : Nat) (promo : Option Kind) (pc : Piece)
    (hb : p.board s = some pc) (x : Nat) :
    (apply p (.normal s t promo)).board x = p.board x ∨ (apply p (.normal s t promo)).board x = none ∨
      (x = t ∧ (apply p (.normal s t promo)).board x = some (landed pc promo)) := by
  obtain ⟨b2, hb2, hbd, _⟩ := apply_normal_board p s t promo pc hb
  rw [hbd]
  unfold setSq
  by_cases hxt : x = t
  · right; right; exact ⟨hxt, by simp [hxt]⟩
  · simp only [hxt, if_false]
    rcases hb2 with rfl | ⟨e, rfl⟩
    · unfold setSq
      by_cases hxs : x = s <;> simp [hxs]
    · unfold setSq
      by_cases hxe : x = e <;> by_cases hxs : x = s <;> simp [hxe, hxs]

/-- what `castleLegal` says about the position. -/
theorem castleLegal_facts {p : APos} {ks : Bool} (h : castleLegal p ks = true) :
    ∃ rf k, right p p.whiteToMove ks = some rf ∧ kingSquares p.board p.whiteToMove = [k] ∧ k < 64 ∧
      p.board k = some ⟨p.whiteToMove, .king⟩ ∧
      p.board (sq rf (homeRank p.whiteToMove)) = some ⟨p.whiteToMove, .rook⟩ := by
  unfold castleLegal at h
  simp only [] at h
  split at h
  · rename_i rf k hr hk
    simp only [Bool.and_eq_true, beq_iff_eq] at h
    have hmem : k ∈ kingSquares p.board p.whiteToMove := by rw [hk]; simp
    unfold kingSquares at hmem
    obtain ⟨hk64, hkb⟩ := List.mem_filter.mp hmem
    refine ⟨rf, k, hr, hk, by simpa [squares] using hk64, by simpa using hkb, ?_⟩
    exact h.1.1.1.1.1.2
  · cases h

/-- the board after castling, as four `setSq`. -/
theorem apply_castle_board {p : APos} {ks : Bool} {rf k : Nat}
    (hr : right p p.whiteToMove ks = some rf) (hk : kingSquares p.board p.whiteToMove = [k]) :
    (apply p (.castle ks)).board =
      setSq (setSq (setSq (setSq p.board k none) (sq rf (homeRank p.whiteToMove)) none)
        (sq (if ks then 6 else 2) (homeRank p.whiteToMove)) (some ⟨p.whiteToMove, .king⟩))
        (sq (if ks then 5 else 3) (homeRank p.whiteToMove)) (some ⟨p.whiteToMove, .rook⟩) ∧
    (apply p (.castle ks)).whiteToMove = !p.whiteToMove := by
  unfold apply
  simp only [hr, hk]
  trivial

theorem castle_targets (ks : Bool) (w : Bool) :
    sq (if ks then 6 else 2) (homeRank w) < 64 ∧ sq (if ks then 5 else 3) (homeRank w) < 64 := by
  cases ks <;> cases w <;> decide

end Rawr.Style.Chess
