import Rawr.Model.Magic
import Rawr.Proofs.BBSet
/-!
# Leaper attack sets are board geometry (no wrap-around)

Single squares: 64-row tables evaluated by the kernel. Arbitrary sets of squares: the functions
distribute over unions (`Linear`), so the set version follows from the single-square tables.
-/
namespace Rawr
open Spec

theorem getLsbD_geomBB (p : Nat → Bool) (t : Nat) :
    (geomBB p).getLsbD t = (decide (t < 64) && p t) := by
  unfold geomBB squares
  rw [getLsbD_setBB]
  by_cases h : t < 64
  · simp [h, List.mem_filter]
  · simp [h]

/-! ### single squares -/

theorem knightMask_geom : ∀ s : Fin 64, knightMask s = geomBB (knightStep s) := by decide +kernel
theorem kingMask_geom : ∀ s : Fin 64, kingMask s = geomBB (kingStep s) := by decide +kernel
theorem knights_bit : ∀ s : Fin 64, knights (bit s) = geomBB (knightStep s) := by decide +kernel
theorem adjacent_bit : ∀ s : Fin 64, adjacent (bit s) = geomBB (kingStep s) := by decide +kernel
theorem pawnsAtt_bit : ∀ (us : Bool) (s : Fin 64), pawnsAtt us (bit s) = geomBB (pawnStep us s) := by
  decide +kernel

/-! ### distribution over unions -/

theorem linear_knights : Linear knights :=
  Linear.or (Linear.or (Linear.or (Linear.or (Linear.or (Linear.or (Linear.or
    (Linear.comp linear_northEast linear_north) (Linear.comp linear_northWest linear_north))
    (Linear.comp linear_southEast linear_south)) (Linear.comp linear_southWest linear_south))
    (Linear.comp linear_northEast linear_east)) (Linear.comp linear_southEast linear_east))
    (Linear.comp linear_northWest linear_west)) (Linear.comp linear_southWest linear_west)

theorem linear_adjacent : Linear adjacent :=
  Linear.or (Linear.or (Linear.or (Linear.shl 8) (Linear.shr 8))
    (Linear.comp (Linear.and notHFile) (Linear.or (Linear.or (Linear.shl 7) (Linear.shr 9)) (Linear.shr 1))))
    (Linear.comp (Linear.and notAFile) (Linear.or (Linear.or (Linear.shr 7) (Linear.shl 9)) (Linear.shl 1)))

theorem linear_pawnsAtt (us : Bool) : Linear (pawnsAtt us) := by
  cases us
  · exact Linear.or linear_southEast linear_southWest
  · exact Linear.or linear_northEast linear_northWest

/-! ### arbitrary sets: `t ∈ F b ↔ ∃ s ∈ b, step s t` -/

theorem Linear.getLsbD_of_bit {F : BB → BB} (hF : Linear F) {p : Nat → Nat → Bool}
    (hbit : ∀ s : Fin 64, F (bit s) = geomBB (p s)) (b : BB) (t : Nat) :
    (F b).getLsbD t = (decide (t < 64) && (List.range 64).any fun s => b.getLsbD s && p s t) := by
  rw [hF.getLsbD]
  by_cases ht : t < 64
  · simp only [ht, decide_true, Bool.true_and]
    apply any_range_congr
    intro s hs
    rw [hbit ⟨s, hs⟩, getLsbD_geomBB]
    simp [ht]
  · have : ∀ x : BB, x.getLsbD t = false := fun x => BitVec.getLsbD_of_ge x t (Nat.le_of_not_lt ht)
    simp [ht, this]

theorem getLsbD_knights (b : BB) (t : Nat) :
    (knights b).getLsbD t
      = (decide (t < 64) && (List.range 64).any fun s => b.getLsbD s && knightStep s t) :=
  linear_knights.getLsbD_of_bit knights_bit b t

theorem getLsbD_adjacent (b : BB) (t : Nat) :
    (adjacent b).getLsbD t
      = (decide (t < 64) && (List.range 64).any fun s => b.getLsbD s && kingStep s t) :=
  linear_adjacent.getLsbD_of_bit adjacent_bit b t

theorem getLsbD_pawnsAtt (us : Bool) (b : BB) (t : Nat) :
    (pawnsAtt us b).getLsbD t
      = (decide (t < 64) && (List.range 64).any fun s => b.getLsbD s && pawnStep us s t) :=
  (linear_pawnsAtt us).getLsbD_of_bit (pawnsAtt_bit us) b t

end Rawr
