import Rawr.Proofs.FenSound2
import Rawr.Proofs.FenRound
/-! # what `set_fen` guarantees about the castle files and the `frc` flag

`Position::default()` has castle files 7, 0, 7, 0. The castling loop writes a file only together with its
right (and never clears a right), every written file is `< 8` (`castleLetter_spec`), the board loop and the
remaining stages do not touch these fields, and the final flip swaps the two sides' fields. Hence in every
accepted position each file is either that of a present right (`< 8`) or the default of an absent one:
the position is a fixed point of `FenC.normCf`. The `frc` flag is the one passed in. -/
namespace Rawr.FenValid
open Rawr Rawr.Position Rawr.FenS Rawr.FenC
set_option linter.unusedSimpArgs false
set_option linter.unusedVariables false

/-- every castle file belongs to a present right and is `< 8`, or is the default (7, 0, 7, 0). -/
def CfNorm (p : Position) : Prop :=
  (if p.usK = true then p.cf0 < 8 else p.cf0 = 7) ∧ (if p.usQ = true then p.cf1 < 8 else p.cf1 = 0) ∧
  (if p.themK = true then p.cf2 < 8 else p.cf2 = 7) ∧ (if p.themQ = true then p.cf3 < 8 else p.cf3 = 0)

theorem cfNorm_lt {p : Position} (h : CfNorm p) : p.cf0 < 8 ∧ p.cf1 < 8 ∧ p.cf2 < 8 ∧ p.cf3 < 8 := by
  obtain ⟨a, b, c, d⟩ := h
  refine ⟨?_, ?_, ?_, ?_⟩
  · split at a <;> omega
  · split at b <;> omega
  · split at c <;> omega
  · split at d <;> omega

theorem cfNorm_normCf {p : Position} (h : CfNorm p) : normCf p = p := by
  obtain ⟨a, b, c, d⟩ := h
  have e0 : (if p.usK = true then p.cf0 else 7) = p.cf0 := by
    split at a
    · rw [if_pos (by assumption)]
    · rw [if_neg (by assumption)]; exact a.symm
  have e1 : (if p.usQ = true then p.cf1 else 0) = p.cf1 := by
    split at b
    · rw [if_pos (by assumption)]
    · rw [if_neg (by assumption)]; exact b.symm
  have e2 : (if p.themK = true then p.cf2 else 7) = p.cf2 := by
    split at c
    · rw [if_pos (by assumption)]
    · rw [if_neg (by assumption)]; exact c.symm
  have e3 : (if p.themQ = true then p.cf3 else 0) = p.cf3 := by
    split at d
    · rw [if_pos (by assumption)]
    · rw [if_neg (by assumption)]; exact d.symm
  unfold normCf
  rw [e0, e1, e2, e3]

theorem fenCastling_cfNorm : ∀ (cs seen : List Char) (p q : Position),
    fenCastling cs seen p = some q → CfNorm p → CfNorm q ∧ q.frc = p.frc := by
  intro cs
  induction cs with
  | nil =>
    intro seen p q h hp
    simp only [fenCastling, Option.some.injEq] at h
    subst h; exact ⟨hp, rfl⟩
  | cons c cs ih =>
    intro seen p q h hp
    rw [fenCastling] at h
    split at h
    · cases h
    split at h
    · cases h
    · simp only [Option.some.injEq] at h
      subst h; exact ⟨hp, rfl⟩
    · rename_i black file ks hl
      obtain ⟨h8, _, _⟩ := castleLetter_spec hl
      obtain ⟨i1, i2, i3, i4⟩ := hp
      have h8' : ∀ d : Nat, (if (true : Bool) = true then file < 8 else file = d) := fun d => by
        rw [if_pos rfl]; exact h8
      cases black <;> cases ks <;> simp only [] at h
      · have := ih _ _ _ h; exact this ⟨i1, h8' 0, i3, i4⟩
      · have := ih _ _ _ h; exact this ⟨h8' 7, i2, i3, i4⟩
      · have := ih _ _ _ h; exact this ⟨i1, i2, i3, h8' 0⟩
      · have := ih _ _ _ h; exact this ⟨i1, i2, h8' 7, i4⟩

theorem fenCastlePart_cfNorm {part : Option (List Char)} {p q : Position}
    (h : fenCastlePart part p = some q) (hp : CfNorm p) : CfNorm q ∧ q.frc = p.frc := by
  unfold fenCastlePart at h
  split at h
  · simp only [Option.some.injEq] at h
    subst h; exact ⟨hp, rfl⟩
  · exact fenCastling_cfNorm _ _ _ _ h hp

theorem setFenCore_cfNorm {ar frc s r} (h : setFenCore ar frc s = some r) : CfNorm r ∧ r.frc = frc := by
  obtain ⟨pb, sidePart, flip, pc, epPart, ep, hmPart, hm, fmPart, fm, hb, _, _, _, _, hc, _, _, _, _, _,
    _, _, _, _, hfin⟩ := setFenCore_some h
  have hfrb := fenBoard_frame hb
  have hnb : CfNorm pb ∧ pb.frc = frc := by
    have e1 : pb.usK = false := congrArg Position.usK hfrb
    have e2 : pb.usQ = false := congrArg Position.usQ hfrb
    have e3 : pb.themK = false := congrArg Position.themK hfrb
    have e4 : pb.themQ = false := congrArg Position.themQ hfrb
    have f0 : pb.cf0 = 7 := congrArg Position.cf0 hfrb
    have f1 : pb.cf1 = 0 := congrArg Position.cf1 hfrb
    have f2 : pb.cf2 = 7 := congrArg Position.cf2 hfrb
    have f3 : pb.cf3 = 0 := congrArg Position.cf3 hfrb
    have ff : pb.frc = frc := congrArg Position.frc hfrb
    refine ⟨⟨?_, ?_, ?_, ?_⟩, ff⟩
    · rw [e1, if_neg (by decide)]; exact f0
    · rw [e2, if_neg (by decide)]; exact f1
    · rw [e3, if_neg (by decide)]; exact f2
    · rw [e4, if_neg (by decide)]; exact f3
  obtain ⟨⟨i1, i2, i3, i4⟩, hfc⟩ := fenCastlePart_cfNorm hc hnb.1
  obtain ⟨hr, _⟩ := fenFinish_some hfin
  cases flip
  · rw [hr]; exact ⟨⟨i1, i2, i3, i4⟩, hfc.trans hnb.2⟩
  · rw [hr]; exact ⟨⟨i3, i4, i1, i2⟩, hfc.trans hnb.2⟩

theorem setFen_cfNorm {ar frc s r} (h : setFen ar frc s = some r) : CfNorm r ∧ r.frc = frc := by
  unfold setFen at h
  split at h <;> exact setFenCore_cfNorm h

end Rawr.FenValid
