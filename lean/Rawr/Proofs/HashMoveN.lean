import Rawr.Proofs.HashEff
import Rawr.Proofs.BoolTac
/-! C04(a), non-castling moves: board identities (pointwise) for the `(colour, kind)` boards. -/
namespace Rawr.ZH
open Rawr Rawr.Position

theorem some_beq (i k : Nat) : (some i == some k) = decide (k = i) := by
  by_cases h : k = i
  · simp [h]
  · have : ¬ i = k := fun e => h e.symm
    simp [h, this]

/-- the facts about `p` and `m` used for a non-castling move. `cap`: capture on `dst`; `epc`: en-passant
capture; `pr`: promotion. -/
structure NCFacts (p : Position) (m : Mv) (i c : Nat) (cap epc pr : Bool) : Prop where
  hC : Consistent p
  hs : m.src < 64
  hd : m.dst < 64
  hpo : p.pieceOn m.src = some i
  h0s : p.c0.getLsbD m.src = true
  h0d : p.c0.getLsbD m.dst = false
  hcap : p.c1.getLsbD m.dst = cap
  hc : cap = true → p.pieceOn m.dst = some c
  hnc : cap = false → p.pieceOn m.dst = none
  hepc : epc = true → 8 ≤ m.dst ∧ p.c1.getLsbD (m.dst - 8) = true ∧ p.pieceOn (m.dst - 8) = some 0
  hpr : pr = true → i = 0

/-- total change of the piece boards. -/
def ncDP (m : Mv) (i c : Nat) (cap epc pr : Bool) (k : Nat) : BB :=
  cnd (k = i) (bit m.src ||| bit m.dst) ^^^ cnd (cap = true ∧ k = c) (bit m.dst) ^^^
    cnd (epc = true ∧ k = 0) (bit (m.dst - 8)) ^^^ cnd (pr = true ∧ k = 0) (bit m.dst) ^^^
    cnd (pr = true ∧ k = m.promo) (bit m.dst)

def ncD1 (m : Mv) (cap epc : Bool) : BB :=
  cnd (cap = true) (bit m.dst) ^^^ cnd (epc = true) (bit (m.dst - 8))

def ncU (m : Mv) (i : Nat) (pr : Bool) (k : Nat) : BB :=
  cnd (k = i) (bit m.src) ^^^ cnd (k = i) (bit m.dst) ^^^
    cnd (pr = true ∧ k = 0) (bit m.dst) ^^^ cnd (pr = true ∧ k = m.promo) (bit m.dst)

def ncT (m : Mv) (c : Nat) (cap epc : Bool) (k : Nat) : BB :=
  cnd (cap = true ∧ k = c) (bit m.dst) ^^^ cnd (epc = true ∧ k = 0) (bit (m.dst - 8))

section
variable {p : Position} {m : Mv} {i c : Nat} {cap epc pr : Bool}

theorem NCFacts.hne (f : NCFacts p m i c cap epc pr) : m.src ≠ m.dst := by
  intro e
  have h1 := f.h0s
  have h2 := f.h0d
  rw [e] at h1
  simp [h1] at h2

theorem NCFacts.f1 (f : NCFacts p m i c cap epc pr) (k : Nat) :
    (p.pieceOn m.src == some k) = decide (k = i) := by rw [f.hpo, some_beq]

theorem NCFacts.f2 (f : NCFacts p m i c cap epc pr) (k : Nat) :
    (p.pieceOn m.dst == some k) = (cap && decide (k = c)) := by
  cases hcp : cap
  · rw [f.hnc hcp]; rfl
  · rw [f.hc hcp, some_beq]; rfl

theorem NCFacts.c1s (f : NCFacts p m i c cap epc pr) : p.c1.getLsbD m.src = false := by
  have := disj_bit f.hC m.src
  rw [f.h0s] at this
  simpa using this

theorem nc_U (f : NCFacts p m i c cap epc pr) (k : Nat) :
    (p.c0 ^^^ (bit m.src ||| bit m.dst)) &&& (p.piece k ^^^ ncDP m i c cap epc pr k)
      = (p.c0 &&& p.piece k) ^^^ ncU m i pr k := by
  have hne := f.hne
  have f1 := f.f1 k
  have f2 := f.f2 k
  have h0s := f.h0s
  have h0d := f.h0d
  apply BitVec.eq_of_getLsbD_eq
  intro x hx
  simp only [ncDP, ncU, BitVec.getLsbD_and, BitVec.getLsbD_xor, BitVec.getLsbD_or, getLsbD_cnd, getLsbD_bit,
    piece_bit f.hC, hx, decide_true, Bool.and_true, Bool.decide_and, Bool.decide_eq_true]
  by_cases h1 : x = m.src
  · subst h1
    have h3 : epc = true → ¬ (m.src = m.dst - 8) := by
      intro hE e
      have := (f.hepc hE).2.1
      rw [← e, f.c1s] at this
      cases this
    cases hE : epc
    · simp only [f1, h0s, hne, decide_true, decide_false]
      generalize decide (k = i) = ki, decide (k = c) = kc, decide (k = 0) = k0, decide (k = m.promo) = kp,
        decide (m.src = m.dst - 8) = z
      bool_taut
    · simp only [f1, h0s, hne, h3 hE, decide_true, decide_false]
      generalize decide (k = i) = ki, decide (k = c) = kc, decide (k = 0) = k0, decide (k = m.promo) = kp,
        decide (m.src = m.dst - 8) = z
      bool_taut
  · by_cases h2 : x = m.dst
    · subst h2
      have h3 : epc = true → ¬ (m.dst = m.dst - 8) := by
        intro hE
        have := (f.hepc hE).1
        omega
      cases hE : epc
      · simp only [f2, h0d, h1, decide_true, decide_false]
        generalize decide (k = i) = ki, decide (k = c) = kc, decide (k = 0) = k0, decide (k = m.promo) = kp,
          decide (m.dst = m.dst - 8) = z
        bool_taut
      · simp only [f2, h0d, h1, h3 hE, decide_true, decide_false]
        generalize decide (k = i) = ki, decide (k = c) = kc, decide (k = 0) = k0, decide (k = m.promo) = kp,
          decide (m.dst = m.dst - 8) = z
        bool_taut
    · simp only [h1, h2, decide_false, Bool.or_false, Bool.and_false, Bool.xor_false, Bool.false_xor]
      cases hE : epc
      · simp
      · by_cases h3 : x = m.dst - 8
        · subst h3
          obtain ⟨_, g1, g2⟩ := f.hepc hE
          have g0 : p.c0.getLsbD (m.dst - 8) = false := by
            have := disj_bit f.hC (m.dst - 8)
            rw [g1] at this
            simpa using this
          simp [g0]
        · simp [h3]

theorem nc_T (f : NCFacts p m i c cap epc pr) (k : Nat) :
    (p.c1 ^^^ ncD1 m cap epc) &&& (p.piece k ^^^ ncDP m i c cap epc pr k)
      = (p.c1 &&& p.piece k) ^^^ ncT m c cap epc k := by
  have hne := f.hne
  have f1 := f.f1 k
  have f2 := f.f2 k
  have h1s := f.c1s
  have h1d := f.hcap
  apply BitVec.eq_of_getLsbD_eq
  intro x hx
  simp only [ncDP, ncT, ncD1, BitVec.getLsbD_and, BitVec.getLsbD_xor, BitVec.getLsbD_or, getLsbD_cnd, getLsbD_bit,
    piece_bit f.hC, hx, decide_true, Bool.and_true, Bool.decide_and, Bool.decide_eq_true]
  by_cases h1 : x = m.src
  · subst h1
    have h3 : epc = true → ¬ (m.src = m.dst - 8) := by
      intro hE e
      have := (f.hepc hE).2.1
      rw [← e, f.c1s] at this
      cases this
    cases hE : epc
    · simp only [f1, h1s, hne, decide_true, decide_false]
      generalize decide (k = i) = ki, decide (k = c) = kc, decide (k = 0) = k0, decide (k = m.promo) = kp,
        decide (m.src = m.dst - 8) = z
      bool_taut
    · simp only [f1, h1s, hne, h3 hE, decide_true, decide_false]
      generalize decide (k = i) = ki, decide (k = c) = kc, decide (k = 0) = k0, decide (k = m.promo) = kp,
        decide (m.src = m.dst - 8) = z
      bool_taut
  · by_cases h2 : x = m.dst
    · subst h2
      have h3 : epc = true → ¬ (m.dst = m.dst - 8) := by
        intro hE
        have := (f.hepc hE).1
        omega
      cases hE : epc
      · simp only [f2, h1d, h1, decide_true, decide_false]
        generalize decide (k = i) = ki, decide (k = c) = kc, decide (k = 0) = k0, decide (k = m.promo) = kp,
          decide (m.dst = m.dst - 8) = z
        bool_taut
      · simp only [f2, h1d, h1, h3 hE, decide_true, decide_false]
        generalize decide (k = i) = ki, decide (k = c) = kc, decide (k = 0) = k0, decide (k = m.promo) = kp,
          decide (m.dst = m.dst - 8) = z
        bool_taut
    · simp only [h1, h2, decide_false, Bool.or_false, Bool.and_false, Bool.xor_false, Bool.false_xor]
      cases hE : epc
      · simp
      · by_cases h3 : x = m.dst - 8
        · subst h3
          obtain ⟨_, g1, g2⟩ := f.hepc hE
          have g3 : (p.pieceOn (m.dst - 8) == some k) = decide (k = 0) := by rw [g2, some_beq]
          simp [g1, g3]
        · simp [h3]
end

/-! ### from board deltas to key deltas -/

def sum6 (g : Nat → BB) : BB := g 0 ^^^ g 1 ^^^ g 2 ^^^ g 3 ^^^ g 4 ^^^ g 5

theorem sum6_xor (a b : Nat → BB) : sum6 (fun k => a k ^^^ b k) = sum6 a ^^^ sum6 b := by
  unfold sum6
  simp only []
  ac_rfl

theorem sum6_cnd_eq (j : Nat) (hj : j < 6) (f : Nat → BB) : sum6 (fun k => cnd (k = j) (f k)) = f j := by
  have : j = 0 ∨ j = 1 ∨ j = 2 ∨ j = 3 ∨ j = 4 ∨ j = 5 := by omega
  rcases this with rfl | rfl | rfl | rfl | rfl | rfl <;> simp [sum6, cnd]

theorem sum6_cnd_and (P : Prop) [Decidable P] (j : Nat) (hj : P → j < 6) (f : Nat → BB) :
    sum6 (fun k => cnd (P ∧ k = j) (f k)) = cnd P (f j) := by
  by_cases hP : P
  · have := sum6_cnd_eq j (hj hP) f
    simpa [hP, cnd] using this
  · simp [sum6, cnd, hP]

/-- key of a mover's (`kU`) / opponent's (`kT`) piece of kind `k` on mover-relative square `s`. -/
def kU (K : ZKeys) (t : Bool) (k s : Nat) : BB := K.piece (zIndex t k (maybeFlip s t))
def kT (K : ZKeys) (t : Bool) (k s : Nat) : BB := K.piece (zIndex (!t) k (maybeFlip s t))

theorem pieceKey_eff' (K : ZKeys) (t : Bool) {s s' : Position} {d0 d1 : BB} {dP : Nat → BB}
    (h : BoardEff s s' d0 d1 dP) (δU δT : Nat → BB)
    (hU : ∀ k, (s.c0 ^^^ d0) &&& (s.piece k ^^^ dP k) = (s.c0 &&& s.piece k) ^^^ δU k)
    (hT : ∀ k, (s.c1 ^^^ d1) &&& (s.piece k ^^^ dP k) = (s.c1 &&& s.piece k) ^^^ δT k) :
    pieceKey K t s'.c0 s'.c1 s'.piece = pieceKey K t s.c0 s.c1 s.piece ^^^
      sum6 (fun k => LA K t k t (δU k) ^^^ LA K (!t) k t (δT k)) :=
  pieceKey_eff K t h δU δT hU hT

/-- the key change of a non-castling move. -/
def ncKeyDelta (K : ZKeys) (t : Bool) (m : Mv) (i c : Nat) (cap epc pr : Bool) : BB :=
  kU K t i m.src ^^^ kU K t i m.dst ^^^ cnd (pr = true) (kU K t 0 m.dst) ^^^ cnd (pr = true) (kU K t m.promo m.dst) ^^^
    cnd (cap = true) (kT K t c m.dst) ^^^ cnd (epc = true) (kT K t 0 (m.dst - 8))

theorem nc_pieceKey {p : Position} {m : Mv} {i c : Nat} {cap epc pr : Bool}
    (f : NCFacts p m i c cap epc pr) (hc6 : cap = true → c < 6) (hp6 : pr = true → m.promo < 6)
    (K : ZKeys) (t : Bool) {s s' : Position} (hs0 : s.c0 = p.c0) (hs1 : s.c1 = p.c1) (hsP : s.piece = p.piece)
    (h : BoardEff s s' (bit m.src ||| bit m.dst) (ncD1 m cap epc) (ncDP m i c cap epc pr)) :
    pieceKey K t s'.c0 s'.c1 s'.piece =
      pieceKey K t p.c0 p.c1 p.piece ^^^ ncKeyDelta K t m i c cap epc pr := by
  have hi := pieceOn_lt f.hpo
  have hd8 : m.dst - 8 < 64 := by have := f.hd; omega
  rw [pieceKey_eff' K t h (ncU m i pr) (ncT m c cap epc)
    (fun k => by rw [hs0, hsP]; exact nc_U f k) (fun k => by rw [hs1, hsP]; exact nc_T f k), hs0, hs1, hsP]
  congr 1
  simp only [ncU, ncT, LA_xor, LA_cnd, LA_bit K _ _ _ f.hs, LA_bit K _ _ _ f.hd, LA_bit K _ _ _ hd8, sum6_xor]
  rw [sum6_cnd_eq i hi, sum6_cnd_eq i hi, sum6_cnd_and _ 0 (fun _ => by omega), sum6_cnd_and _ m.promo hp6,
    sum6_cnd_and _ c hc6, sum6_cnd_and _ 0 (fun _ => by omega)]
  unfold ncKeyDelta kU kT
  ac_rfl

end Rawr.ZH
