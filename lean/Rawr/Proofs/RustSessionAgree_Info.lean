import Rawr.Proofs.RustSessionAgree_Words
import Rawr.Proofs.RustSearchAgree_Root
/-!
# uci/go.rs `info_printer` regenerated from the Rust source agrees with the model's `infoLine`, modulo the
canonicalisation of the clock-dependent words (`time <t>`, `nps <n>`)
-/
set_option linter.unusedSimpArgs false
namespace Rawr.Sess
open T

/-- the printed form of a record of the search driver: every field but `mate` and `hashfull` present, `hashfull`
not negative, the moves of the principal variation between on-board squares (`Square::fmt` panics otherwise). -/
structure InfoOk (i : R.Info) : Prop where
  depth : i.depth.isSome = true
  seldepth : i.seldepth.isSome = true
  score : i.score.isSome = true
  nodes : i.nodes.isSome = true
  mate : i.mate = none
  elapsed : i.elapsed.isSome = true
  hashfull : ∀ h, i.hashfull = some h → 0 ≤ h
  pv : ∀ m ∈ i.pv, m.src < 64 ∧ m.dst < 64

theorem info_printer_loop1_eq (info : R.Info) : ∀ (pv : List Mv) (out : List Char),
    (∀ m ∈ pv, m.src < 64 ∧ m.dst < 64) →
    R.info_printer_loop1 info pv out = some (out ++ tailSp (pv.map (toUciChars info.pos))) := by
  intro pv
  induction pv with
  | nil => intro out _; simp [R.info_printer_loop1, tailSp]
  | cons m pv ih =>
    intro out h
    have hm := h m (by simp)
    simp only [R.info_printer_loop1, List.forIn_cons, R.info_printer_loop1_step, agree_to_uci m info.pos hm.1 hm.2, bind, pure,
      Option.bind_some] at ih ⊢
    rw [ih _ (fun x hx => h x (by simp [hx]))]
    simp [tailSp, T.chars, String.toList_append]

def wSeldepth : List Char := ['s', 'e', 'l', 'd', 'e', 'p', 't', 'h']
def wScore : List Char := ['s', 'c', 'o', 'r', 'e']
def wCp : List Char := ['c', 'p']
def wNodes : List Char := ['n', 'o', 'd', 'e', 's']
def wHashfull : List Char := ['h', 'a', 's', 'h', 'f', 'u', 'l', 'l']
def wPv : List Char := ['p', 'v']

/-- the words of an `info` line between `depth` and `time`. -/
def infoHead (d sd sc : Int) (n : Nat) : List (List Char) :=
  [(toString d).toList, wSeldepth, (toString sd).toList, wScore, wCp, (toString sc).toList, wNodes, (toString n).toList]

/-- the words of an `info` line after the clock-dependent ones. -/
def infoTail (p : Position) (hf : Option Int) (pv : List Mv) : List (List Char) :=
  (match hf with | some h => [wHashfull, (toString h).toList] | none => []) ++
  (if pv.isEmpty then [] else wPv :: pv.map (toUciChars p))

/-- the `nps` value `info_printer` prints. -/
def infoNps (n t : Nat) : Option (List Char) := if t > 0 then some (toString (n * 1000 / t)).toList else none

/-- the line `info_printer` prints, as words. -/
def infoWords (p : Position) (d sd sc : Int) (n t : Nat) (hf : Option Int) (pv : List Mv) : List (List Char) :=
  wInfo :: wDepth :: (infoHead d sd sc n ++ wTime :: (toString t).toList :: (npsWords (infoNps n t) ++ infoTail p hf pv))

theorem info_printer_eq (p : Position) (d sd sc : Int) (n t : Nat) (hf : Option Int) (pv : List Mv)
    (hpv : ∀ m ∈ pv, m.src < 64 ∧ m.dst < 64) :
    R.info_printer ⟨p, some d, some sd, some n, some sc, none, some t, hf, pv⟩ =
      some (joinSp (infoWords p d sd sc n t hf pv) ++ ['\n']) := by
  unfold R.info_printer
  simp only [bind, pure, Option.bind_some, T.chars, T.line, String.toList_append, info_printer_loop1_eq _ _ _ hpv]
  unfold infoWords
  rw [joinSp_eq]
  simp only [infoHead, infoTail, infoNps, tailSp_cons, tailSp_append, tailSp_nil, List.cons_append, List.nil_append,
    List.append_assoc, List.append_nil]
  by_cases ht : t > 0
  · have hne : t ≠ 0 := by omega
    simp only [ht, if_true, R.checkedDiv, hne, if_false, Option.bind_some, npsWords, tailSp_cons, tailSp_nil]
    cases hf with
    | none => cases hpe : pv.isEmpty <;> simp [wInfo, wDepth, wSeldepth, wScore, wCp, wNodes, wTime, wNps, wPv, tailSp_cons, tailSp_nil]
    | some h => cases hpe : pv.isEmpty <;> simp [wInfo, wDepth, wSeldepth, wScore, wCp, wNodes, wTime, wNps, wPv, wHashfull, tailSp_cons, tailSp_nil]
  · simp only [ht, if_false, npsWords, tailSp_nil]
    cases hf with
    | none => cases hpe : pv.isEmpty <;> simp [wInfo, wDepth, wSeldepth, wScore, wCp, wNodes, wTime, wNps, wPv, tailSp_cons, tailSp_nil]
    | some h => cases hpe : pv.isEmpty <;> simp [wInfo, wDepth, wSeldepth, wScore, wCp, wNodes, wTime, wNps, wPv, wHashfull, tailSp_cons, tailSp_nil]

theorem word_plain_num {w : List Char} (h : NumChars w) : Word w ∧ Plain w := ⟨h.word, h.plain⟩

theorem infoHead_ok (d sd sc : Int) (n : Nat) : ∀ w ∈ infoHead d sd sc n, Word w ∧ Plain w := by
  intro w hw
  simp only [infoHead, List.mem_cons, List.not_mem_nil, or_false] at hw
  rcases hw with rfl | rfl | rfl | rfl | rfl | rfl | rfl | rfl
  · exact word_plain_num (numChars_int d)
  · exact ⟨by constructor <;> decide, by constructor <;> decide⟩
  · exact word_plain_num (numChars_int sd)
  · exact ⟨by constructor <;> decide, by constructor <;> decide⟩
  · exact ⟨by constructor <;> decide, by constructor <;> decide⟩
  · exact word_plain_num (numChars_int sc)
  · exact ⟨by constructor <;> decide, by constructor <;> decide⟩
  · exact word_plain_num (numChars_nat n)

theorem infoTail_ok (p : Position) (hf : Option Int) (pv : List Mv) (hpv : ∀ m ∈ pv, m.src < 64 ∧ m.dst < 64) :
    ∀ w ∈ infoTail p hf pv, Word w ∧ Plain w := by
  intro w hw
  simp only [infoTail, List.mem_append] at hw
  rcases hw with hw | hw
  · cases hf with
    | none => simp at hw
    | some h =>
      simp only [List.mem_cons, List.not_mem_nil, or_false] at hw
      rcases hw with rfl | rfl
      · exact ⟨by constructor <;> decide, by constructor <;> decide⟩
      · exact word_plain_num (numChars_int h)
  · split at hw
    · simp at hw
    · simp only [List.mem_cons, List.mem_map] at hw
      rcases hw with rfl | ⟨m, hm, rfl⟩
      · exact ⟨by constructor <;> decide, by constructor <;> decide⟩
      · have := toUciChars_facts p m (hpv m hm).1 (hpv m hm).2
        exact ⟨this.1, plain_of_head this.2⟩

/-- the model's line, as words. -/
theorem infoLine_eq (p : Position) (d sd sc : Int) (n : Nat) (hf : Option Int) (hhf : ∀ h, hf = some h → 0 ≤ h) (pv : List Mv) :
    (infoLine p ⟨d, sd, n, sc, hf.map Int.toNat, pv⟩).toList =
      joinSp (wInfo :: wDepth :: (infoHead d sd sc n ++ wTime :: ['?'] :: infoTail p hf pv)) := by
  unfold infoLine
  rw [joinSp_eq]
  have hts : ∀ x : String, toString x = x := fun _ => rfl
  have hnat : ∀ h : Int, 0 ≤ h → toString h.toNat = toString h := by
    intro h h0
    obtain ⟨k, rfl⟩ := Int.eq_ofNat_of_zero_le h0
    rfl
  have hj : ∀ l : List Mv, (String.join (l.map fun m => " " ++ mvStr p m)).toList = tailSp (l.map (toUciChars p)) := by
    intro l
    rw [join_toList]
    induction l with
    | nil => rfl
    | cons m l ih => simp [tailSp, mvStr, toUci, String.toList_append] at ih ⊢; exact ih
  simp only [infoHead, infoTail, tailSp_cons, tailSp_append, tailSp_nil, List.cons_append, List.nil_append]
  cases hf with
  | none =>
    cases hpe : pv.isEmpty <;>
      simp [String.toList_append, hj, wInfo, wDepth, wSeldepth, wScore, wCp, wNodes, wTime, wPv, tailSp_cons, tailSp_nil, hpe, hts]
  | some h =>
    have := hnat h (hhf h rfl)
    cases hpe : pv.isEmpty <;>
      simp [String.toList_append, hj, wInfo, wDepth, wSeldepth, wScore, wCp, wNodes, wTime, wPv, wHashfull, tailSp_cons, tailSp_nil, hpe, this, hts]

/-- **`info_printer`** (uci/go.rs): the regenerated function prints one line whose canonical form is the model's
`infoLine` of the record as the model keeps it (`infoToModel`). -/
theorem _root_.Rawr.agree_info_printer (i : R.Info) (h : InfoOk i) :
    ∃ s, R.info_printer i = some s ∧ Out s [infoLine i.pos (infoToModel i)] := by
  obtain ⟨p, od, osd, on, osc, om, ot, hf, pv⟩ := i
  obtain ⟨h1, h2, h3, h4, h5, h6, h7, h8⟩ := h
  simp only at h1 h2 h3 h4 h5 h6 h7 h8
  obtain ⟨d, rfl⟩ := Option.isSome_iff_exists.1 h1
  obtain ⟨sd, rfl⟩ := Option.isSome_iff_exists.1 h2
  obtain ⟨sc, rfl⟩ := Option.isSome_iff_exists.1 h3
  obtain ⟨n, rfl⟩ := Option.isSome_iff_exists.1 h4
  obtain ⟨t, rfl⟩ := Option.isSome_iff_exists.1 h6
  subst h5
  refine ⟨_, info_printer_eq p d sd sc n t hf pv h8, ?_⟩
  refine ⟨[joinSp (infoWords p d sd sc n t hf pv)], by simp [unl], ?_, ?_⟩
  · intro l hl
    simp only [List.mem_singleton] at hl
    subst hl
    apply nonl_joinSp
    intro w hw
    simp only [infoWords, List.mem_cons, List.mem_append] at hw
    rcases hw with rfl | rfl | hw | rfl | rfl | hw | hw
    · constructor <;> decide
    · constructor <;> decide
    · exact (infoHead_ok d sd sc n w hw).1
    · constructor <;> decide
    · exact (numChars_nat t).word
    · unfold infoNps at hw
      split at hw
      · simp only [npsWords, List.mem_cons, List.not_mem_nil, or_false] at hw
        rcases hw with rfl | rfl
        · constructor <;> decide
        · exact (numChars_nat _).word
      · simp [npsWords] at hw
    · exact (infoTail_ok p hf pv h8 w hw).1
  · simp only [List.filterMap_cons, List.filterMap_nil, List.map_cons, List.map_nil, infoToModel, Option.getD_some]
    unfold infoWords
    rw [canonLine_info _ _ _ _ (infoHead_ok d sd sc n) (infoTail_ok p hf pv h8) (numChars_nat t).word]
    · rw [infoLine_eq p d sd sc n hf h7 pv]
    · intro v hv
      unfold infoNps at hv
      split at hv
      · injection hv with hv; rw [← hv]; exact (numChars_nat _).word
      · cases hv

end Rawr.Sess

#print axioms Rawr.agree_info_printer
