import Rawr.Proofs.SpecSanityPerftDefs
/-! perft of the start position, depth 3, slice 11: the subtree of first move `.normal 11 27 none` (kernel-evaluated). -/
namespace Rawr.SpecS
open Rawr.Spec

theorem start3_11 : leaves (apply stdStart (.normal 11 27 none)) 2 = 560 := by decide +kernel

end Rawr.SpecS
