import Rawr.Proofs.RustSessionAgree_Perft
/-!
# uci/go.rs `go` regenerated from the Rust source agrees with the model's `doGo`

`R.go fuel ar sfuel clock toks pos history tt` returns the rest of the token stream, the position, the history (oldest
first, as RustText.lean keeps it), the table and the printed byte stream; the model's `doGo ar o s toks` returns the new
session state and the printed lines.  The agreement (`agree_go`) is stated with `GoRel`: the model panics iff the
regenerated code does, the states agree, and the printed stream consists of complete lines whose canonical form
(`Sess.canonLine`: `time <t>` ↦ `time ?`, `nps <n>` removed) is the model's output.

Side conditions (`GoOk`), by the kind of the parsed command:
* search: `OrderOkN 1000 pos` (as `agree_root`); the model's stop oracle `o` is the one the clock implements for the
  parsed time control (`toLimit`); the moves the model reports (principal variations, best move) are between on-board
  squares (`Mv::to_uci` panics otherwise);
* `perft d`: `d < fuel`;  `split d`: `d - 1 < fuel`, the legal moves are between on-board squares.
`RustSessionAgree_Rules.lean` discharges them for valid positions.
-/
set_option linter.unusedSimpArgs false
namespace Rawr.Sess
open T

/-! ## the records `R.root` hands to the printer -/
/-- what `root.rs` puts into an `Info` (all but the principal variation). -/
structure InfoShape (p : Position) (i : R.Info) : Prop where
  pos : i.pos = p
  depth : i.depth.isSome = true
  seldepth : i.seldepth.isSome = true
  score : i.score.isSome = true
  nodes : i.nodes.isSome = true
  mate : i.mate = none
  elapsed : i.elapsed.isSome = true
  hashfull : ∀ h, i.hashfull = some h → 0 ≤ h

theorem root_loop1_shape (p : Position) (s : R.Settings) (fuel : Nat) (clock : Nat → Nat) :
    ∀ (l : List Int) (st : SState) (infos : List R.Info) (bm : Option Mv)
      (r : Option (Except String Mv) × SState × List R.Info × Option Mv),
      (∀ i ∈ infos, InfoShape p i) → R.root_loop1 p s fuel clock l st infos bm = some r → ∀ i ∈ r.2.2.1, InfoShape p i := by
  intro l
  induction l with
  | nil =>
    intro st infos bm r hq h
    simp only [R.root_loop1, Option.some.injEq] at h
    rw [← h]; exact hq
  | cons depth tl ih =>
    intro st infos bm r hq h
    unfold R.root_loop1 at h
    simp only [] at h
    generalize R.negamax _ _ _ _ _ _ _ _ _ = nr at h
    rcases nr with _ | ⟨score, st1⟩
    · cases h
    · simp only [] at h
      split at h
      · simp only [Option.some.injEq] at h
        rw [← h]; exact hq
      · generalize (if depth > 1 then R.root_should_stop p s clock st1 else some (false, st1)) = sr at h
        rcases sr with _ | ⟨c, st2⟩
        · cases h
        · simp only [] at h
          split at h
          · simp only [Option.some.injEq] at h
            rw [← h]; exact hq
          · cases hb : st2.best with
            | none => rw [hb] at h; cases h
            | some b =>
              rw [hb] at h
              simp only [] at h
              have hhf := Table.agree_tt_hashfull st2.tt
              cases hf : R.tt_hashfull st2.tt with
              | none => rw [hf] at h; cases h
              | some x =>
                rw [hf] at h
                simp only [] at h
                refine ih _ _ _ _ ?_ h
                intro i hi
                rcases List.mem_append.1 hi with hi | hi
                · exact hq i hi
                · simp only [List.mem_singleton] at hi
                  subst hi
                  refine ⟨rfl, rfl, rfl, rfl, rfl, rfl, rfl, ?_⟩
                  intro h' he
                  simp only at he
                  rw [hf] at hhf
                  injection hhf with hhf
                  rw [he] at hhf
                  cases hx : st2.tt.hashfull with
                  | none => rw [hx] at hhf; cases hhf
                  | some k => rw [hx] at hhf; injection hhf with hhf; rw [hhf]; exact Int.natCast_nonneg k

theorem root_shape (clock : Nat → Nat) (p : Position) (hist : List BB) (tt : Table TTEntry) (s : R.Settings) (fuel : Nat)
    (rr : Except String Mv × List BB × Table TTEntry × List R.Info) (h : R.root clock p hist tt s fuel = some rr) :
    ∀ i ∈ rr.2.2.2, InfoShape p i := by
  unfold R.root at h
  simp only [] at h
  cases hl : R.root_loop1 p s fuel clock (R.rangeI 1 128) ⟨hist, tt, 0, 0, 0, none, 0⟩ [] none with
  | none => rw [hl] at h; cases h
  | some r =>
    have hs := root_loop1_shape p s fuel clock _ _ _ _ r (by simp) hl
    rw [hl] at h
    obtain ⟨e, st, infos, bm⟩ := r
    cases e with
    | some e =>
      simp only [Option.some.injEq] at h
      rw [← h]; exact hs
    | none =>
      simp only [] at h
      cases bm with
      | none => cases h
      | some b =>
        simp only [Option.some.injEq] at h
        rw [← h]; exact hs

/-! ## the callback invocations -/
theorem printAll_infos : ∀ (infos : List R.Info) (out : List Char), (∀ i ∈ infos, InfoOk i) →
    ∃ s, T.printAll (fun i => R.info_printer i) infos out = some (out ++ s) ∧
      Out s (infos.map fun i => infoLine i.pos (infoToModel i)) := by
  intro infos
  induction infos with
  | nil => intro out _; exact ⟨[], by simp [T.printAll], Out.nil⟩
  | cons i infos ih =>
    intro out h
    obtain ⟨s1, e1, o1⟩ := agree_info_printer i (h i (by simp))
    obtain ⟨s2, e2, o2⟩ := ih (out ++ s1) (fun x hx => h x (by simp [hx]))
    refine ⟨s1 ++ s2, ?_, ?_⟩
    · simp only [T.printAll, e1, e2, List.append_assoc]
    · exact Out.append (m := [_]) o1 o2

/-! ## `go` -/
/-- the model's `search` of `doGo`. -/
def goSearch (s : UState) (lim : Limit) : Option (UState × List String) :=
  match root lim 1000 s.pos s.hist s.tt with
  | none => none
  | some res =>
    let infos := res.infos.map (infoLine s.pos)
    let bm := match res.best with | some m => "bestmove " ++ mvStr s.pos m | none => "bestmove 0000"
    some ({ s with hist := res.hist, tt := res.tt }, infos ++ [bm])

/-- the `Limit` the model's `doGo` searches with. -/
def goLimit (o : Nat → Bool) : GoKind → Option Limit
  | .depth d => some (.depth d)
  | .nodes n => some (.nodes n)
  | .infinite => some .infinite
  | .movetime _ => some (.clock o)
  | .time _ _ _ => some (.clock o)
  | .perft _ => none
  | .split _ => none

/-- the moves a search result reports are between on-board squares. -/
def ResOnBoard (res : RootResult) : Prop :=
  (∀ r ∈ res.infos, ∀ m ∈ r.pv, m.src < 64 ∧ m.dst < 64) ∧ (∀ m, res.best = some m → m.src < 64 ∧ m.dst < 64)

/-- the side conditions of `agree_go`, by the parsed command (`u` as go.rs parses it). -/
def GoOk (fuel : Nat) (clk : Nat → Nat) (o : Nat → Bool) (s : UState) (u : T.GoType) : Prop :=
  match u with
  | .perft d => d < fuel
  | .splitPerft d => d - 1 < fuel ∧ MovesOnBoard s.pos
  | u => OrderOkN 1000 s.pos ∧ toLimit (fun k => clk k / 1000000) s.pos (T.toSettings u) = goLimit o (goToModel u) ∧
      ∀ lim res, goLimit o (goToModel u) = some lim → root lim 1000 s.pos s.hist s.tt = some res → ResOnBoard res

/-- relation between the model's result and the regenerated one (`hist` is kept oldest first by go.rs). -/
@[irreducible] def GoRel (s : UState) (m : Option (UState × List String))
    (x : Option (List (List Char) × Position × List BB × Table TTEntry × List Char)) : Prop :=
  match m with
  | none => x = none
  | some (s', L) => ∃ st out, x = some (st, s'.pos, s'.hist.reverse, s'.tt, out) ∧ Out out L ∧
      s'.hashMb = s.hashMb ∧ s'.frc = s.frc

theorem bestmove_out (p : Position) (m : Mv) (h1 : m.src < 64) (h2 : m.dst < 64) :
    Out (T.line ("bestmove " ++ String.ofList (toUciChars p m))) ["bestmove " ++ mvStr p m] := by
  have hf := toUciChars_facts p m h1 h2
  apply Out.words _ _ [['b', 'e', 's', 't', 'm', 'o', 'v', 'e'], toUciChars p m]
  · simp [joinSp, String.toList_append]
  · intro w hw
    simp only [List.mem_cons, List.not_mem_nil, or_false] at hw
    rcases hw with rfl | rfl
    · constructor <;> decide
    · exact hf.1
  · have : ("bestmove " ++ mvStr p m).toList = joinSp [['b', 'e', 's', 't', 'm', 'o', 'v', 'e'], toUciChars p m] := by
      simp [joinSp, String.toList_append, mvStr, toUci]
    rw [this]
    exact canonLine_head 'b' _ (by decide) (by decide) (by decide)

theorem bestmove0_out : Out (T.line "bestmove 0000") ["bestmove 0000"] :=
  Out.line1 _ _ (by decide) (by decide)

/-- the search branch of `go`. -/
theorem go_search (clk : Nat → Nat) (_o : Nat → Bool) (s : UState) (u : T.GoType) (lim : Limit)
    (hok : OrderOkN 1000 s.pos) (hlim : toLimit (fun k => clk k / 1000000) s.pos (T.toSettings u) = some lim)
    (hres : ∀ res, root lim 1000 s.pos s.hist s.tt = some res → ResOnBoard res) (st : List (List Char)) :
    GoRel s (goSearch s lim)
      (do
        let rr ← R.root (fun k => clk k / 1000000) s.pos s.hist.reverse.reverse s.tt (T.toSettings u) 1000
        let out ← T.printAll (fun info => R.info_printer info) rr.2.2.2 []
        match Except.toOption rr.1 with
        | some mv => do
          let to_uci_r ← R.to_uci mv s.pos
          pure (st, s.pos, rr.2.1.reverse, rr.2.2.1, out ++ T.line ("bestmove " ++ String.ofList to_uci_r))
        | none => pure (st, s.pos, rr.2.1.reverse, rr.2.2.1, out ++ T.line "bestmove 0000")) := by
  have hr := agree_root (fun k => clk k / 1000000) s.pos (T.toSettings u) lim 1000 hlim hok s.hist s.tt
  rw [List.reverse_reverse]
  unfold goSearch GoRel
  cases hR : R.root (fun k => clk k / 1000000) s.pos s.hist s.tt (T.toSettings u) 1000 with
  | none =>
    rw [hR] at hr
    simp only [Option.map_none] at hr
    rw [← hr]
    rfl
  | some rr =>
    rw [hR] at hr
    simp only [Option.map_some] at hr
    rw [← hr]
    have hshape := root_shape _ _ _ _ _ _ rr hR
    have hob := hres _ hr.symm
    simp only [] at hob ⊢
    have hok' : ∀ i ∈ rr.2.2.2, InfoOk i := by
      intro i hi
      have sh := hshape i hi
      exact ⟨sh.depth, sh.seldepth, sh.score, sh.nodes, sh.mate, sh.elapsed, sh.hashfull,
        hob.1 (infoToModel i) (List.mem_map.2 ⟨i, hi, rfl⟩)⟩
    obtain ⟨ps, pe, po⟩ := printAll_infos rr.2.2.2 [] hok'
    have hpos : (rr.2.2.2.map fun i => infoLine i.pos (infoToModel i)) = (rr.2.2.2.map infoToModel).map (infoLine s.pos) := by
      rw [List.map_map]
      apply List.map_congr_left
      intro i hi
      simp only [Function.comp, (hshape i hi).pos]
    simp only [bind, pure, Option.bind_some, pe, List.nil_append]
    cases hb : Except.toOption rr.1 with
    | none =>
      simp only [List.reverse_reverse]
      refine ⟨st, _, rfl, ?_, by trivial, by trivial⟩
      rw [← hpos]
      exact po.append bestmove0_out
    | some mv =>
      have hm := hob.2 mv hb
      simp only [agree_to_uci mv s.pos hm.1 hm.2, Option.bind_some, List.reverse_reverse]
      refine ⟨st, _, rfl, ?_, by trivial, by trivial⟩
      rw [← hpos]
      exact po.append (bestmove_out s.pos mv hm.1 hm.2)

theorem range'_fold (p : Position) (d : Nat) :
    (List.range d).foldl (fun (acc : Option (List String)) i =>
        match acc, perft (i + 1) p with
        | some l, some n =>
          some (l ++ [s!"info depth {i + 1} nodes {n} time ?"] ++ (if i + 1 == d then [s!"nodes {n}"] else []))
        | _, _ => none) (some []) = perftLines p d := by
  unfold perftLines
  rw [show List.range' 1 d = (List.range d).map (· + 1) from by
    apply List.ext_getElem <;> simp [Nat.add_comm]]
  rw [List.foldl_map]
  rfl

theorem doGo_perft (ar : Arith) (o : Nat → Bool) (s : UState) (toks : List (List Char)) (d : Nat)
    (h : parseGo toks = some (.perft d)) : doGo ar o s toks = (perftLines s.pos d).map fun l => (s, l) := by
  unfold doGo
  rw [h]
  dsimp only
  exact congrArg (Option.map fun l => (s, l)) (range'_fold s.pos d)

theorem doGo_split (ar : Arith) (o : Nat → Bool) (s : UState) (toks : List (List Char)) (d : Nat)
    (h : parseGo toks = some (.split d)) : doGo ar o s toks = (splitLines s.pos d).map fun l => (s, l) := by
  unfold doGo splitLines
  rw [h]
  simp only [Option.map_map]
  rfl

theorem doGo_search (ar : Arith) (o : Nat → Bool) (s : UState) (toks : List (List Char)) (k : GoKind) (lim : Limit)
    (h : parseGo toks = some k) (hl : goLimit o k = some lim) : doGo ar o s toks = goSearch s lim := by
  unfold doGo
  rw [h]
  cases k <;> simp only [goLimit, Option.some.injEq, reduceCtorEq] at hl <;> subst hl <;> rfl

/-- the search block of `go` (as it appears in the regenerated `R.go`). -/
def goSearchR (clk : Nat → Nat) (pos : Position) (hist : List BB) (tt : Table TTEntry) (u : T.GoType) (sfuel : Nat)
    (st : List (List Char)) : Option (List (List Char) × Position × List BB × Table TTEntry × List Char) := do
  let rr ← R.root (fun k => clk k / 1000000) pos hist.reverse tt (T.toSettings u) sfuel
  let out ← T.printAll (fun info => R.info_printer info) rr.2.2.2 []
  match Except.toOption rr.1 with
  | some mv => do
    let to_uci_r ← R.to_uci mv pos
    pure (st, pos, rr.2.1.reverse, rr.2.2.1, out ++ T.line ("bestmove " ++ String.ofList to_uci_r))
  | none => pure (st, pos, rr.2.1.reverse, rr.2.2.1, out ++ T.line "bestmove 0000")

/-- `R.go` after the parse, by the parsed command. -/
theorem go_unparsed (fuel : Nat) (ar : Arith) (sfuel : Nat) (clk : Nat → Nat) (toks : List (List Char)) (pos : Position)
    (hist : List BB) (tt : Table TTEntry) (st : List (List Char)) (h : R.parse_go fuel toks = some (none, st)) :
    R.go fuel ar sfuel clk toks pos hist tt = some (st, pos, hist, tt, []) := by
  unfold R.go
  simp only [bind, pure, h, Option.bind_some, Option.isNone_none, if_true]

theorem go_perft (fuel : Nat) (ar : Arith) (sfuel : Nat) (clk : Nat → Nat) (toks : List (List Char)) (pos : Position)
    (hist : List BB) (tt : Table TTEntry) (st : List (List Char)) (d : Nat)
    (h : R.parse_go fuel toks = some (some (.perft d), st)) :
    R.go fuel ar sfuel clk toks pos hist tt =
      (R.uci_perft fuel ar clk pos d).bind fun r2 => some (st, r2.1, hist, tt, r2.2) := by
  unfold R.go
  simp only [bind, pure, h, Option.bind_some, Option.isNone_some, Bool.false_eq_true, if_false, List.nil_append]

theorem go_split (fuel : Nat) (ar : Arith) (sfuel : Nat) (clk : Nat → Nat) (toks : List (List Char)) (pos : Position)
    (hist : List BB) (tt : Table TTEntry) (st : List (List Char)) (d : Nat)
    (h : R.parse_go fuel toks = some (some (.splitPerft d), st)) :
    R.go fuel ar sfuel clk toks pos hist tt =
      (R.uci_split fuel ar clk pos d).bind fun r2 => some (st, r2.1, hist, tt, r2.2) := by
  unfold R.go
  simp only [bind, pure, h, Option.bind_some, Option.isNone_some, Bool.false_eq_true, if_false, List.nil_append]

theorem go_searching (fuel : Nat) (ar : Arith) (sfuel : Nat) (clk : Nat → Nat) (toks : List (List Char)) (pos : Position)
    (hist : List BB) (tt : Table TTEntry) (st : List (List Char)) (u : T.GoType)
    (hu : ∀ d, u ≠ .perft d ∧ u ≠ .splitPerft d)
    (h : R.parse_go fuel toks = some (some u, st)) :
    R.go fuel ar sfuel clk toks pos hist tt = goSearchR clk pos hist tt u sfuel st := by
  unfold R.go goSearchR
  simp only [bind, pure, h, Option.bind_some, Option.isNone_some, Bool.false_eq_true, if_false]
  cases u with
  | perft d => exact absurd rfl (hu d).1
  | splitPerft d => exact absurd rfl (hu d).2
  | _ => rfl

theorem go_search' (clk : Nat → Nat) (o : Nat → Bool) (s : UState) (u : T.GoType) (lim : Limit)
    (hok : OrderOkN 1000 s.pos) (hlim : toLimit (fun k => clk k / 1000000) s.pos (T.toSettings u) = some lim)
    (hres : ∀ res, root lim 1000 s.pos s.hist s.tt = some res → ResOnBoard res) (st : List (List Char)) :
    GoRel s (goSearch s lim) (goSearchR clk s.pos s.hist.reverse s.tt u 1000 st) :=
  go_search clk o s u lim hok hlim hres st

/-- **`uci::go::go`**. -/
theorem _root_.Rawr.agree_go (fuel : Nat) (ar : Arith) (clk : Nat → Nat) (o : Nat → Bool) (s : UState) (toks : List (List Char))
    (hfuel : toks.length + 1 ≤ fuel)
    (hok : ∀ u st, R.parse_go fuel toks = some (some u, st) → GoOk fuel clk o s u) :
    GoRel s (doGo ar o s toks) (R.go fuel ar 1000 clk toks s.pos s.hist.reverse s.tt) := by
  have hp := agree_parse_go fuel toks hfuel
  cases hpg : R.parse_go fuel toks with
  | none => rw [hpg] at hp; cases hp
  | some r =>
    obtain ⟨ou, st⟩ := r
    rw [hpg] at hp
    simp only [Option.map_some, Option.some.injEq] at hp
    cases ou with
    | none =>
      simp only [Option.map_none] at hp
      have : doGo ar o s toks = some (s, []) := by unfold doGo; rw [← hp]
      rw [this, go_unparsed _ _ _ _ _ _ _ _ _ hpg]
      unfold GoRel
      exact ⟨st, [], rfl, Out.nil, rfl, rfl⟩
    | some u =>
      have hk := hok u st hpg
      simp only [Option.map_some] at hp
      have search : ∀ (hu : ∀ d, u ≠ .perft d ∧ u ≠ .splitPerft d) (lim : Limit), goLimit o (goToModel u) = some lim →
          OrderOkN 1000 s.pos → toLimit (fun k => clk k / 1000000) s.pos (T.toSettings u) = goLimit o (goToModel u) →
          (∀ lim res, goLimit o (goToModel u) = some lim → root lim 1000 s.pos s.hist s.tt = some res → ResOnBoard res) →
          GoRel s (doGo ar o s toks) (R.go fuel ar 1000 clk toks s.pos s.hist.reverse s.tt) := by
        intro hu lim hl h1 h2 h3
        rw [doGo_search ar o s toks _ lim hp.symm hl, go_searching _ _ _ _ _ _ _ _ _ u hu hpg]
        exact go_search' clk o s u lim h1 (h2.trans hl) (fun res => h3 lim res hl) st
      cases u with
      | perft d =>
        rw [doGo_perft ar o s toks d hp.symm, go_perft _ _ _ _ _ _ _ _ _ d hpg]
        have hk' : d < fuel := hk
        have := agree_uci_perft fuel ar clk s.pos d hk'
        generalize perftLines s.pos d = m at this ⊢
        cases m with
        | none => simp only [CmdRel] at this; simp [this, GoRel]
        | some L =>
          simp only [CmdRel] at this
          obtain ⟨x, e, ho⟩ := this
          simp only [e, Option.bind_some, Option.map_some, GoRel]
          exact ⟨st, x, rfl, ho, by trivial, by trivial⟩
      | splitPerft d =>
        rw [doGo_split ar o s toks d hp.symm, go_split _ _ _ _ _ _ _ _ _ d hpg]
        have hk' : d - 1 < fuel ∧ MovesOnBoard s.pos := hk
        have := agree_uci_split fuel ar clk s.pos d hk'.1 hk'.2
        generalize splitLines s.pos d = m at this ⊢
        cases m with
        | none => simp only [CmdRel] at this; simp [this, GoRel]
        | some L =>
          simp only [CmdRel] at this
          obtain ⟨x, e, ho⟩ := this
          simp only [e, Option.bind_some, Option.map_some, GoRel]
          exact ⟨st, x, rfl, ho, by trivial, by trivial⟩
      | time w b wi bi m =>
        have hk' : OrderOkN 1000 s.pos ∧ toLimit (fun k => clk k / 1000000) s.pos (T.toSettings (.time w b wi bi m)) = goLimit o (goToModel (.time w b wi bi m)) ∧
          ∀ lim res, goLimit o (goToModel (.time w b wi bi m)) = some lim → root lim 1000 s.pos s.hist s.tt = some res → ResOnBoard res := hk
        exact search (fun d => ⟨by simp, by simp⟩) _ rfl hk'.1 hk'.2.1 hk'.2.2
      | movetime t =>
        have hk' : OrderOkN 1000 s.pos ∧ toLimit (fun k => clk k / 1000000) s.pos (T.toSettings (.movetime t)) = goLimit o (goToModel (.movetime t)) ∧
          ∀ lim res, goLimit o (goToModel (.movetime t)) = some lim → root lim 1000 s.pos s.hist s.tt = some res → ResOnBoard res := hk
        exact search (fun d => ⟨by simp, by simp⟩) _ rfl hk'.1 hk'.2.1 hk'.2.2
      | depth d =>
        have hk' : OrderOkN 1000 s.pos ∧ toLimit (fun k => clk k / 1000000) s.pos (T.toSettings (.depth d)) = goLimit o (goToModel (.depth d)) ∧
          ∀ lim res, goLimit o (goToModel (.depth d)) = some lim → root lim 1000 s.pos s.hist s.tt = some res → ResOnBoard res := hk
        exact search (fun d => ⟨by simp, by simp⟩) _ rfl hk'.1 hk'.2.1 hk'.2.2
      | nodes n =>
        have hk' : OrderOkN 1000 s.pos ∧ toLimit (fun k => clk k / 1000000) s.pos (T.toSettings (.nodes n)) = goLimit o (goToModel (.nodes n)) ∧
          ∀ lim res, goLimit o (goToModel (.nodes n)) = some lim → root lim 1000 s.pos s.hist s.tt = some res → ResOnBoard res := hk
        exact search (fun d => ⟨by simp, by simp⟩) _ rfl hk'.1 hk'.2.1 hk'.2.2
      | infinite =>
        have hk' : OrderOkN 1000 s.pos ∧ toLimit (fun k => clk k / 1000000) s.pos (T.toSettings (.infinite)) = goLimit o (goToModel (.infinite)) ∧
          ∀ lim res, goLimit o (goToModel (.infinite)) = some lim → root lim 1000 s.pos s.hist s.tt = some res → ResOnBoard res := hk
        exact search (fun d => ⟨by simp, by simp⟩) _ rfl hk'.1 hk'.2.1 hk'.2.2

end Rawr.Sess

#print axioms Rawr.agree_go
