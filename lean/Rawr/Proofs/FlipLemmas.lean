import Rawr.Model.Position
/-! Lemmas about `flipBB` (`u64::swap_bytes`), `count` and `Position.flip` (core Lean only). -/
namespace Rawr

/-- `flipSq` is an involution on every natural number. -/
theorem flipSq_flipSq (s : Nat) : flipSq (flipSq s) = s := by
  unfold flipSq
  rw [Nat.xor_assoc, Nat.xor_self, Nat.xor_zero]

theorem flipSq_lt {s : Nat} (h : s < 64) : flipSq s < 64 := by
  unfold flipSq
  exact Nat.xor_lt_two_pow (n := 6) h (by decide)

/-- Bit `i` of the byte-swapped board is bit `i ^^^ 56` of the board (64-way case split). -/
theorem flipBB_getLsbD_xor (b : BB) (i : Nat) (h : i < 64) :
    (flipBB b).getLsbD i = b.getLsbD (i ^^^ 56) := by
  unfold flipBB
  simp only [BitVec.getLsbD_or, BitVec.getLsbD_and, BitVec.getLsbD_shiftLeft,
    BitVec.getLsbD_ushiftRight]
  iterate 64 (rcases i with _ | i; · simp [BitVec.getLsbD_of_ge])
  omega

theorem flipBB_getLsbD_flipSq (b : BB) (i : Nat) (h : i < 64) :
    (flipBB b).getLsbD i = b.getLsbD (flipSq i) := flipBB_getLsbD_xor b i h

/-- `swap_bytes` is an involution. -/
theorem flipBB_involutive (b : BB) : flipBB (flipBB b) = b := by
  apply BitVec.eq_of_getLsbD_eq
  intro i hi
  rw [flipBB_getLsbD_flipSq _ i hi, flipBB_getLsbD_flipSq _ _ (flipSq_lt hi)]
  exact congrArg b.getLsbD (flipSq_flipSq i)

theorem flipBB_zero : flipBB 0#64 = 0#64 := by decide

theorem flipBB_and_distrib (a b : BB) : flipBB (a &&& b) = flipBB a &&& flipBB b := by
  apply BitVec.eq_of_getLsbD_eq
  intro i hi
  simp only [BitVec.getLsbD_and, flipBB_getLsbD_xor _ i hi]

theorem flipBB_or_distrib (a b : BB) : flipBB (a ||| b) = flipBB a ||| flipBB b := by
  apply BitVec.eq_of_getLsbD_eq
  intro i hi
  simp only [BitVec.getLsbD_or, flipBB_getLsbD_xor _ i hi]

/-- `count` as a `countP` over the 64 squares. -/
theorem count_eq_countP (b : BB) : count b = (List.range 64).countP (fun i => b.getLsbD i) := by
  unfold count toList
  rw [List.countP_eq_length_filter]

theorem range64_map_flipSq_perm : ((List.range 64).map flipSq).Perm (List.range 64) := by
  decide

/-- Byte swapping preserves the population count. -/
theorem count_flipBB (b : BB) : count (flipBB b) = count b := by
  rw [count_eq_countP, count_eq_countP]
  have h1 : (List.range 64).countP (fun i => (flipBB b).getLsbD i)
      = (List.range 64).countP ((fun i => b.getLsbD i) ∘ flipSq) := by
    apply List.countP_congr
    intro x hx
    have hx' : x < 64 := List.mem_range.mp hx
    simp only [Function.comp, flipBB_getLsbD_flipSq b x hx']
  rw [h1, ← List.countP_map]
  exact range64_map_flipSq_perm.countP_eq _

namespace Position

/-- flip.rs applied twice restores every field. -/
theorem flip_flip (p : Position) : p.flip.flip = p := by
  cases p with
  | mk c0 c1 p0 p1 p2 p3 p4 p5 hm fm bl ep uK uQ tK tQ f0 f1 f2 f3 hash frc =>
    simp only [flip, flipBB_involutive, Bool.not_not, Option.map_map]
    congr
    cases ep with
    | none => rfl
    | some s => simp only [Option.map_some, Function.comp, flipSq_flipSq]

@[simp] theorem flip_c0 (p : Position) : p.flip.c0 = flipBB p.c1 := rfl
@[simp] theorem flip_c1 (p : Position) : p.flip.c1 = flipBB p.c0 := rfl
@[simp] theorem flip_p0 (p : Position) : p.flip.p0 = flipBB p.p0 := rfl
@[simp] theorem flip_p1 (p : Position) : p.flip.p1 = flipBB p.p1 := rfl
@[simp] theorem flip_p2 (p : Position) : p.flip.p2 = flipBB p.p2 := rfl
@[simp] theorem flip_p3 (p : Position) : p.flip.p3 = flipBB p.p3 := rfl
@[simp] theorem flip_p4 (p : Position) : p.flip.p4 = flipBB p.p4 := rfl
@[simp] theorem flip_p5 (p : Position) : p.flip.p5 = flipBB p.p5 := rfl
@[simp] theorem flip_black (p : Position) : p.flip.black = !p.black := rfl

theorem flip_piece (p : Position) (i : Nat) : p.flip.piece i = flipBB (p.piece i) := by
  unfold piece
  split <;> first | rfl | exact flipBB_zero.symm

end Position
end Rawr
