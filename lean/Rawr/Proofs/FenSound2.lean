import Rawr.Proofs.FenSound
import Rawr.Proofs.HashSpec
import Rawr.Proofs.FenDecimal
/-! # C07(a): soundness of `set_fen` — `StructurallyValid` and the main lemma. -/
namespace Rawr
open Position
set_option linter.unusedSimpArgs false

/-- V of DESIGN.md §4 on the engine representation (V.1–V.8). The attack clause V.4 is stated with the
model's own attack test `isSqAttacked` (its equivalence with `Spec.attackedBy` is C08d). -/
structure StructurallyValid (p : Position) : Prop where
  /-- V.1 -/
  consistent : Consistent p = true
  /-- V.2 -/
  whiteKing : count (p.white &&& p.p5) = 1
  blackKing : count (p.blackBB &&& p.p5) = 1
  /-- V.3 -/
  noPawnsOnEnds : p.p0 &&& 0xFF000000000000FF#64 = 0#64
  /-- V.4: the side not to move is not in check -/
  notInCheck : p.isSqAttacked (lsb (p.c1 &&& p.p5)) false = false
  /-- V.5 -/
  usK : p.usK = true → rankOf (lsb (p.c0 &&& p.p5)) = 0 ∧ (p.c0 &&& p.p3).isSet (fromCoords p.cf0 0) = true ∧
    p.cf0 < 8 ∧ fileOf (lsb (p.c0 &&& p.p5)) < p.cf0
  usQ : p.usQ = true → rankOf (lsb (p.c0 &&& p.p5)) = 0 ∧ (p.c0 &&& p.p3).isSet (fromCoords p.cf1 0) = true ∧
    p.cf1 < 8 ∧ p.cf1 < fileOf (lsb (p.c0 &&& p.p5))
  themK : p.themK = true → rankOf (lsb (p.c1 &&& p.p5)) = 7 ∧ (p.c1 &&& p.p3).isSet (fromCoords p.cf2 7) = true ∧
    p.cf2 < 8 ∧ fileOf (lsb (p.c1 &&& p.p5)) < p.cf2
  themQ : p.themQ = true → rankOf (lsb (p.c1 &&& p.p5)) = 7 ∧ (p.c1 &&& p.p3).isSet (fromCoords p.cf3 7) = true ∧
    p.cf3 < 8 ∧ p.cf3 < fileOf (lsb (p.c1 &&& p.p5))
  /-- V.6 -/
  ep : ∀ e, p.ep = some e → rankOf e = 5 ∧ p.occ.isSet e = false ∧ (p.c1 &&& p.p0).isSet (e - 8) = true
  /-- V.7 -/
  half0 : 0 ≤ p.halfmoves
  half31 : p.halfmoves < 2147483648
  full1 : 1 ≤ p.fullmoves
  full31 : p.fullmoves < 2147483648
  /-- V.8 -/
  key : p.hash = p.calculateHash

namespace FenS

theorem cell_union : ∀ u v q0 q1 q2 q3 q4 q5 : Bool, ZH.cellOk u v q0 q1 q2 q3 q4 q5 = true ∨
    ¬ ((u && v) = false ∧ (q0 && q1) = false ∧ (q0 && q2) = false ∧ (q0 && q3) = false ∧ (q0 && q4) = false ∧
       (q0 && q5) = false ∧ (q1 && q2) = false ∧ (q1 && q3) = false ∧ (q1 && q4) = false ∧ (q1 && q5) = false ∧
       (q2 && q3) = false ∧ (q2 && q4) = false ∧ (q2 && q5) = false ∧ (q3 && q4) = false ∧ (q3 && q5) = false ∧
       (q4 && q5) = false ∧ (u ^^ v) = (q0 ^^ q1 ^^ q2 ^^ q3 ^^ q4 ^^ q5)) := by
  decide

/-- parity equality + pairwise disjointness = consistency (V.1). -/
theorem consistent_of_par {p : Position} (hpar : Par p) (hcc : p.c0 &&& p.c1 = 0#64)
    (h01 : p.p0 &&& p.p1 = 0#64) (h02 : p.p0 &&& p.p2 = 0#64) (h03 : p.p0 &&& p.p3 = 0#64)
    (h04 : p.p0 &&& p.p4 = 0#64) (h05 : p.p0 &&& p.p5 = 0#64) (h12 : p.p1 &&& p.p2 = 0#64)
    (h13 : p.p1 &&& p.p3 = 0#64) (h14 : p.p1 &&& p.p4 = 0#64) (h15 : p.p1 &&& p.p5 = 0#64)
    (h23 : p.p2 &&& p.p3 = 0#64) (h24 : p.p2 &&& p.p4 = 0#64) (h25 : p.p2 &&& p.p5 = 0#64)
    (h34 : p.p3 &&& p.p4 = 0#64) (h35 : p.p3 &&& p.p5 = 0#64) (h45 : p.p4 &&& p.p5 = 0#64) :
    Consistent p = true := by
  simp only [Consistent, Bool.and_eq_true, beq_iff_eq]
  refine ⟨⟨⟨⟨⟨⟨⟨⟨⟨⟨⟨⟨⟨⟨⟨⟨hcc, h01⟩, h02⟩, h03⟩, h04⟩, h05⟩, h12⟩, h13⟩, h14⟩, h15⟩, h23⟩, h24⟩, h25⟩, h34⟩, h35⟩, h45⟩, ?_⟩
  apply BitVec.eq_of_getLsbD_eq
  intro i _
  have e := congrArg (fun x => x.getLsbD i) hpar
  simp only [Par, BitVec.getLsbD_xor] at e
  simp only [BitVec.getLsbD_or]
  rcases cell_union (p.c0.getLsbD i) (p.c1.getLsbD i) (p.p0.getLsbD i) (p.p1.getLsbD i) (p.p2.getLsbD i)
    (p.p3.getLsbD i) (p.p4.getLsbD i) (p.p5.getLsbD i) with h | h
  · simp only [ZH.cellOk, Bool.and_eq_true, beq_iff_eq] at h
    exact h.2
  · exact absurd ⟨ZH.and_zero_bit hcc i, ZH.and_zero_bit h01 i, ZH.and_zero_bit h02 i, ZH.and_zero_bit h03 i,
      ZH.and_zero_bit h04 i, ZH.and_zero_bit h05 i, ZH.and_zero_bit h12 i, ZH.and_zero_bit h13 i,
      ZH.and_zero_bit h14 i, ZH.and_zero_bit h15 i, ZH.and_zero_bit h23 i, ZH.and_zero_bit h24 i,
      ZH.and_zero_bit h25 i, ZH.and_zero_bit h34 i, ZH.and_zero_bit h35 i, ZH.and_zero_bit h45 i, e⟩ h

theorem south_bit5 : ∀ e : Fin 64, rankOf e = 5 → south (bit e) = bit (e - 8) := by decide

theorem getLsbD_of_bit_and_ne {s : Nat} {x : BB} (h : bit s &&& x ≠ 0#64) : x.getLsbD s = true := by
  cases hx : x.getLsbD s
  · exfalso
    apply h
    apply BitVec.eq_of_getLsbD_eq
    intro i hi
    rw [BitVec.getLsbD_and, ZH.getLsbD_bit, BitVec.getLsbD_zero]
    by_cases his : i = s
    · subst his; simp [hx]
    · simp [his]
  · rfl

theorem getLsbD_of_bit_and_eq {s : Nat} (hs : s < 64) {x : BB} (h : bit s &&& x = 0#64) : x.getLsbD s = false := by
  have := congrArg (fun b => b.getLsbD s) h
  simpa [BitVec.getLsbD_and, ZH.getLsbD_bit, hs] using this


theorem rank0_eq {k : Nat} (h : rankOf k = 0) : k = fileOf k := by
  unfold rankOf at h; unfold fileOf; omega

theorem rank7_eq {k : Nat} (h : rankOf k = 7) : k = 56 + fileOf k := by
  unfold rankOf at h; unfold fileOf; omega

/-- a queen-side file equal to the king's file is impossible: rook and king would share a square. -/
theorem west_strict {c p3 p5 : BB} {k f : Nat} (h35 : p3 &&& p5 = 0#64) (hne : c &&& p5 ≠ 0#64)
    (hk : k = lsb (c &&& p5)) (sq : Nat) (hsq : f = fileOf k → sq = k)
    (hrook : (c &&& p3).isSet sq = true) (hle : f ≤ fileOf k) : f < fileOf k := by
  rcases Nat.lt_or_ge f (fileOf k) with h | h
  · exact h
  · exfalso
    have hf : f = fileOf k := Nat.le_antisymm hle h
    have hs := hsq hf
    subst hs
    have hking := lsb_mem hne
    rw [← hk] at hking
    simp only [BB.isSet, BitVec.getLsbD_and, Bool.and_eq_true] at hrook hking
    have := ZH.and_zero_bit h35 sq
    rw [hrook.2, hking.2] at this
    cases this

/-- everything `validate` tests, plus the three facts the parser itself guarantees. -/
theorem sv_of {r : Position} (hv : r.validate = none) (hpar : Par r) (hci : CInv r)
    (hh : r.hash = r.calculateHash) (hhm : r.halfmoves < 2147483648) (hfm : r.fullmoves < 2147483648) :
    StructurallyValid r := by
  obtain ⟨⟨hp, hcc, h01, h02, h03, h04, h05, h12, h13, h14, h15, h23, h24, h25, h34, h35, h45⟩, hep,
    ⟨hwk, hbk, hh0, hf1⟩, ⟨r1, r2, r3, r4, r5, r6, r7, r8⟩, hatt⟩ := (validate_none_iff r).mp hv
  rw [isOcc_false] at hp hcc h01 h02 h03 h04 h05 h12 h13 h14 h15 h23 h24 h25 h34 h35 h45
  have hcc' : r.c0 &&& r.c1 = 0#64 := by
    cases hb : r.black <;> simp only [Position.white, Position.blackBB, hb, if_true, if_false, Bool.false_eq_true] at hcc
    · exact hcc
    · rw [BitVec.and_comm]; exact hcc
  have hk0 : count (r.c0 &&& r.p5) = 1 ∧ count (r.c1 &&& r.p5) = 1 := by
    cases hb : r.black <;> simp only [Position.white, Position.blackBB, hb, if_true, if_false, Bool.false_eq_true] at hwk hbk
    · exact ⟨hwk, hbk⟩
    · exact ⟨hbk, hwk⟩
  have hne0 := ne_zero_of_count_one hk0.1
  have hne1 := ne_zero_of_count_one hk0.2
  obtain ⟨c1, c2, c3, c4⟩ := hci
  refine { consistent := consistent_of_par hpar hcc' h01 h02 h03 h04 h05 h12 h13 h14 h15 h23 h24 h25 h34 h35 h45
           whiteKing := hwk, blackKing := hbk, noPawnsOnEnds := hp, notInCheck := hatt
           usK := fun h => ⟨r1 h, r5 h, (c1 h).1, (c1 h).2⟩
           usQ := fun h => ⟨r2 h, r6 h, (c2 h).1, ?_⟩
           themK := fun h => ⟨r3 h, r7 h, (c3 h).1, (c3 h).2⟩
           themQ := fun h => ⟨r4 h, r8 h, (c4 h).1, ?_⟩
           ep := ?_
           half0 := hh0, half31 := hhm, full1 := hf1, full31 := hfm, key := hh }
  · refine west_strict h35 hne0 rfl _ (fun hf => ?_) (r6 h) (c2 h).2
    have := rank0_eq (r2 h)
    unfold fromCoords; omega
  · refine west_strict h35 hne1 rfl _ (fun hf => ?_) (r8 h) (c4 h).2
    have := rank7_eq (r4 h)
    unfold fromCoords; omega
  · intro e he
    unfold valEpOk at hep
    rw [he] at hep
    simp only [Bool.and_eq_true, beq_iff_eq, Bool.not_eq_true', isEmpty_false, isOcc_false] at hep
    obtain ⟨⟨hr, hpawn⟩, hempty⟩ := hep
    have he64 : e < 64 := by unfold rankOf at hr; omega
    rw [Nat.mod_eq_of_lt he64] at hpawn hempty
    refine ⟨hr, getLsbD_of_bit_and_eq he64 hempty, ?_⟩
    have hs := south_bit5 ⟨e, he64⟩ hr
    simp only at hs
    rw [hs, BitVec.and_assoc] at hpawn
    exact getLsbD_of_bit_and_ne hpawn


/-- the position `set_fen` validates and returns. -/
def finPos (p : Position) (hm fm : Int) (flip : Bool) : Position :=
  let p := { p with halfmoves := hm, fullmoves := fm }
  let p := if flip then { p.flip with black := true } else p
  { p with hash := p.calculateHash }

theorem fenFinish_some {ar p hm fm flip r} (h : fenFinish ar p hm fm flip = some r) :
    r = finPos p hm fm flip ∧ r.validate = none := by
  have e : fenFinish ar p hm fm flip =
      if validateAr ar (finPos p hm fm flip) then some (finPos p hm fm flip) else none := rfl
  rw [e] at h
  split at h
  · rename_i hv
    simp only [Option.some.injEq] at h
    subst h
    refine ⟨rfl, ?_⟩
    unfold validateAr at hv
    simp only [Bool.and_eq_true, Option.isNone_iff_eq_none] at hv
    exact hv.2
  · cases h

theorem par_flip {p : Position} (h : Par p) :
    flipBB p.c1 ^^^ flipBB p.c0 = flipBB p.p0 ^^^ flipBB p.p1 ^^^ flipBB p.p2 ^^^ flipBB p.p3 ^^^ flipBB p.p4 ^^^ flipBB p.p5 := by
  unfold Par at h
  rw [BitVec.xor_comm, ← ZH.flipBB_xor, h]
  simp only [ZH.flipBB_xor]

theorem setFenCore_sound {ar frc s r} (h : setFenCore ar frc s = some r) : StructurallyValid r := by
  obtain ⟨pb, sidePart, flip, pc, epPart, ep, hmPart, hm, fmPart, fm, hb, _, _, _, _, hc, _, _, _, hhm, hhm0,
    _, hfm, hfm0, _, hfin⟩ := setFenCore_some h
  -- board loop
  have hparb : Par pb := fenBoard_par hb (by simp [Par, Position.dflt])
  have hfrb := fenBoard_frame hb
  have hcib : CInv pb := by
    have e1 : pb.usK = false := by have := congrArg Position.usK hfrb; exact this
    have e2 : pb.usQ = false := by have := congrArg Position.usQ hfrb; exact this
    have e3 : pb.themK = false := by have := congrArg Position.themK hfrb; exact this
    have e4 : pb.themQ = false := by have := congrArg Position.themQ hfrb; exact this
    refine ⟨fun h => ?_, fun h => ?_, fun h => ?_, fun h => ?_⟩
    · rw [e1] at h; cases h
    · rw [e2] at h; cases h
    · rw [e3] at h; cases h
    · rw [e4] at h; cases h
  -- castling loop
  obtain ⟨hcic, hfrc⟩ := fenCastlePart_inv hc hcib
  have c0 : pc.c0 = pb.c0 := by have := congrArg Position.c0 hfrc; exact this
  have c1 : pc.c1 = pb.c1 := by have := congrArg Position.c1 hfrc; exact this
  have q0 : pc.p0 = pb.p0 := by have := congrArg Position.p0 hfrc; exact this
  have q1 : pc.p1 = pb.p1 := by have := congrArg Position.p1 hfrc; exact this
  have q2 : pc.p2 = pb.p2 := by have := congrArg Position.p2 hfrc; exact this
  have q3 : pc.p3 = pb.p3 := by have := congrArg Position.p3 hfrc; exact this
  have q4 : pc.p4 = pb.p4 := by have := congrArg Position.p4 hfrc; exact this
  have q5 : pc.p5 = pb.p5 := by have := congrArg Position.p5 hfrc; exact this
  have hparc : Par pc := by
    unfold Par; rw [c0, c1, q0, q1, q2, q3, q4, q5]; exact hparb
  -- counters
  have hr1 := (parseI32_range _ _ hhm).2
  have hr2 := (parseI32_range _ _ hfm).2
  -- finish
  obtain ⟨hr, hv⟩ := fenFinish_some hfin
  cases flip
  · have hpar : Par r := by rw [hr]; exact hparc
    have hci : CInv r := by rw [hr]; exact hcic
    refine sv_of hv hpar hci (by rw [hr]; rfl) ?_ ?_
    · rw [hr]; show hm < 2147483648; omega
    · rw [hr]; show fm < 2147483648; omega
  · have hpar : Par r := by rw [hr]; exact par_flip hparc
    have hks := ((validate_none_iff r).mp hv).2.2.1
    have hk0 : count (flipBB (pc.c1 &&& pc.p5)) = 1 := by
      have := hks.2.1
      rw [hr] at this
      rw [ZH.flipBB_and]; exact this
    have hk1 : count (flipBB (pc.c0 &&& pc.p5)) = 1 := by
      have := hks.1
      rw [hr] at this
      rw [ZH.flipBB_and]; exact this
    rw [count_flipBB] at hk0 hk1
    have f0 := fileOf_lsb_flipBB hk0
    have f1 := fileOf_lsb_flipBB hk1
    rw [ZH.flipBB_and] at f0 f1
    obtain ⟨i1, i2, i3, i4⟩ := hcic
    have hci : CInv r := by
      rw [hr]
      refine ⟨fun h => ?_, fun h => ?_, fun h => ?_, fun h => ?_⟩
      · show pc.cf2 < 8 ∧ fileOf (lsb (flipBB pc.c1 &&& flipBB pc.p5)) < pc.cf2
        rw [f0]; exact i3 h
      · show pc.cf3 < 8 ∧ pc.cf3 ≤ fileOf (lsb (flipBB pc.c1 &&& flipBB pc.p5))
        rw [f0]; exact i4 h
      · show pc.cf0 < 8 ∧ fileOf (lsb (flipBB pc.c0 &&& flipBB pc.p5)) < pc.cf0
        rw [f1]; exact i1 h
      · show pc.cf1 < 8 ∧ pc.cf1 ≤ fileOf (lsb (flipBB pc.c0 &&& flipBB pc.p5))
        rw [f1]; exact i2 h
    refine sv_of hv hpar hci (by rw [hr]; rfl) ?_ ?_
    · rw [hr]; show hm < 2147483648; omega
    · rw [hr]; show fm < 2147483648; omega

theorem setFen_sound {ar frc s r} (h : setFen ar frc s = some r) : StructurallyValid r := by
  unfold setFen at h
  split at h <;> exact setFenCore_sound h

end FenS
end Rawr
