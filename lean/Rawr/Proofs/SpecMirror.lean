import Rawr.Proofs.AttackGeom
/-!
# L5: mirror symmetry of the attack relation of `Spec/Chess.lean`

The rules for Black are the mirror image (ranks reversed, colours swapped) of the rules for White.
-/
namespace Rawr.Att
open Spec

theorem x56_lt {s : Nat} (h : s < 64) : s ^^^ 56 < 64 := Nat.xor_lt_two_pow (n := 6) h (by decide)
theorem x56_x56 (s : Nat) : s ^^^ 56 ^^^ 56 = s := by rw [Nat.xor_assoc, Nat.xor_self, Nat.xor_zero]
theorem x56_ge {s : Nat} (h : 64 ≤ s) : 64 ≤ s ^^^ 56 := by
  apply Classical.byContradiction
  intro hn
  have := x56_lt (Nat.lt_of_not_le hn)
  rw [x56_x56] at this
  omega

theorem x56_table : ∀ s : Fin 64, (s.val ^^^ 56) % 8 = s.val % 8 ∧ (s.val ^^^ 56) / 8 = 7 - s.val / 8 := by
  decide

theorem file_x56 {s : Nat} (h : s < 64) : file (s ^^^ 56) = file s := by
  have := (x56_table ⟨s, h⟩).1
  simp only at this
  unfold file; rw [this]
theorem rank_x56 {s : Nat} (h : s < 64) : rank (s ^^^ 56) = 7 - rank s := by
  have := (x56_table ⟨s, h⟩).2
  simp only at this
  unfold rank; rw [this]; omega

theorem x56_perm : ((List.range 64).map (· ^^^ 56)).Perm (List.range 64) := by decide

theorem sq_mirror {f r : Int} (h : onBoard f r = true) : sq f (7 - r) = sq f r ^^^ 56 := by
  have h' : onBoard f (7 - r) = true := by rw [onBoard_iff] at *; omega
  have hl := onBoard_lt h
  apply eq_of_file_rank
  · rw [file_sq h', file_x56 hl, file_sq h]
  · rw [rank_sq h', rank_x56 hl, rank_sq h]

def flipPiece (pc : Piece) : Piece := ⟨!pc.white, pc.kind⟩

/-- ranks reversed, colours swapped. -/
def mirrorB (B : Board) : Board := fun a => (B (a ^^^ 56)).map flipPiece

theorem mirrorB_x56 (B : Board) (s : Nat) : mirrorB B (s ^^^ 56) = (B s).map flipPiece := by
  unfold mirrorB; rw [x56_x56]

theorem mirrorB_mirrorB (B : Board) : mirrorB (mirrorB B) = B := by
  funext a
  unfold mirrorB
  rw [x56_x56]
  cases B a with
  | none => rfl
  | some pc => cases pc; simp [flipPiece]

theorem aligned_mirror (dirs : List (Int × Int)) (hsym : ∀ d ∈ dirs, (d.1, -d.2) ∈ dirs)
    {s t : Nat} (hs : s < 64) (ht : t < 64) (h : Aligned dirs s t) :
    Aligned dirs (s ^^^ 56) (t ^^^ 56) := by
  obtain ⟨⟨a, b⟩, hd, k, hk, hf, hr⟩ := h
  refine ⟨(a, -b), hsym _ hd, k, hk, ?_, ?_⟩
  · rw [file_x56 hs, file_x56 ht]; exact hf
  · rw [rank_x56 hs, rank_x56 ht]; dsimp only at hr ⊢; rw [hr, Int.neg_mul]; omega

theorem diag_sym : ∀ d ∈ diag, (d.1, -d.2) ∈ diag := by decide
theorem orth_sym : ∀ d ∈ orth, (d.1, -d.2) ∈ orth := by decide

theorem clearBetween_mirror (B : Board) (dirs : List (Int × Int)) (hd : ∀ d ∈ dirs, GoodDir d)
    (s t : Nat) (hs : s < 64) (ht : t < 64) (hal : Aligned dirs s t) :
    clearBetween (mirrorB B) (s ^^^ 56) (t ^^^ 56) = clearBetween B s t := by
  obtain ⟨⟨a, b⟩, hdm, k, hk, hf, hr⟩ := hal
  obtain ⟨ha, hb, hab⟩ := hd _ hdm
  dsimp only at ha hb hab hf hr
  have hab' : a ≠ 0 ∨ -b ≠ 0 := by omega
  have fs := file_bounds s
  have rs := rank_bounds hs
  have ft := file_bounds t
  have rt := rank_bounds ht
  have hf' : file (t ^^^ 56) = file (s ^^^ 56) + a * k := by rw [file_x56 hs, file_x56 ht]; exact hf
  have hr' : rank (t ^^^ 56) = rank (s ^^^ 56) + -b * k := by
    rw [rank_x56 hs, rank_x56 ht, hr, Int.neg_mul]; omega
  rw [Bool.eq_iff_iff, clearBetween_iff B ha hb hab s t k hk hf hr,
    clearBetween_iff (mirrorB B) ha (unit3_neg hb) hab' _ _ k hk hf' hr']
  have key : ∀ j : Nat, 1 ≤ j → j < k →
      mirrorB B (sq (file (s ^^^ 56) + a * j) (rank (s ^^^ 56) + -b * j))
        = (B (sq (file s + a * j) (rank s + b * j))).map flipPiece := by
    intro j h1 h2
    have hon : onBoard (file s + a * j) (rank s + b * j) = true := by
      rw [onBoard_iff]
      rcases ha with rfl | rfl | rfl <;> rcases hb with rfl | rfl | rfl <;> omega
    have e : rank (s ^^^ 56) + -b * j = 7 - (rank s + b * j) := by
      rw [rank_x56 hs, Int.neg_mul]; omega
    rw [file_x56 hs, e, sq_mirror hon, mirrorB_x56]
  constructor
  · intro h j h1 h2
    have := h j h1 h2
    rw [key j h1 h2] at this
    simpa using this
  · intro h j h1 h2
    rw [key j h1 h2]
    simpa using h j h1 h2

theorem x56_ne {s t : Nat} (h : s ≠ t) : s ^^^ 56 ≠ t ^^^ 56 := by
  intro e
  apply h
  have := congrArg (· ^^^ 56) e
  simpa only [x56_x56] using this

theorem diagAtt_mirror (B : Board) (s t : Nat) (hs : s < 64) (ht : t < 64) :
    diagAtt (mirrorB B) (s ^^^ 56) (t ^^^ 56) = diagAtt B s t := by
  rw [Bool.eq_iff_iff, diagAtt_iff, diagAtt_iff]
  constructor
  · rintro ⟨h1, h2⟩
    have h1' := aligned_mirror diag diag_sym (x56_lt hs) (x56_lt ht) h1
    rw [x56_x56, x56_x56] at h1'
    exact ⟨h1', by rw [← clearBetween_mirror B diag goodDir_diag s t hs ht h1']; exact h2⟩
  · rintro ⟨h1, h2⟩
    exact ⟨aligned_mirror diag diag_sym hs ht h1,
      by rw [clearBetween_mirror B diag goodDir_diag s t hs ht h1]; exact h2⟩

theorem orthAtt_mirror (B : Board) (s t : Nat) (hs : s < 64) (ht : t < 64) :
    orthAtt (mirrorB B) (s ^^^ 56) (t ^^^ 56) = orthAtt B s t := by
  rw [Bool.eq_iff_iff, orthAtt_iff, orthAtt_iff]
  constructor
  · rintro ⟨h1, h2⟩
    have h1' := aligned_mirror orth orth_sym (x56_lt hs) (x56_lt ht) h1
    rw [x56_x56, x56_x56] at h1'
    exact ⟨h1', by rw [← clearBetween_mirror B orth goodDir_orth s t hs ht h1']; exact h2⟩
  · rintro ⟨h1, h2⟩
    exact ⟨aligned_mirror orth orth_sym hs ht h1,
      by rw [clearBetween_mirror B orth goodDir_orth s t hs ht h1]; exact h2⟩

theorem queen_split' (a b c d e : Bool) :
    (a && (b || c || d) && e) = ((a && b && e) || (a && (c || d) && e)) := by
  cases a <;> cases b <;> cases c <;> cases d <;> cases e <;> rfl

theorem pieceAttacks_split (B : Board) (s : Nat) (pc : Piece) (t : Nat) :
    pieceAttacks B s pc t = match pc.kind with
      | .pawn => pawnStep pc.white s t
      | .knight => knightStep s t
      | .king => kingStep s t
      | .bishop => diagAtt B s t
      | .rook => orthAtt B s t
      | .queen => diagAtt B s t || orthAtt B s t := by
  obtain ⟨w, kd⟩ := pc
  cases kd <;> simp only [pieceAttacks, pawnStep, knightStep, kingStep, diagAtt, orthAtt, queen_split']

theorem pieceAttacks_mirror (B : Board) (s t : Nat) (hs : s < 64) (ht : t < 64) (pc : Piece) :
    pieceAttacks (mirrorB B) (s ^^^ 56) (flipPiece pc) (t ^^^ 56) = pieceAttacks B s pc t := by
  rw [pieceAttacks_split, pieceAttacks_split]
  obtain ⟨w, kd⟩ := pc
  have fs := file_x56 hs
  have ft := file_x56 ht
  have rs := rank_x56 hs
  have rt := rank_x56 ht
  have e2 : (rank (t ^^^ 56) - rank (s ^^^ 56)).natAbs = (rank t - rank s).natAbs := by omega
  cases kd <;> simp only [flipPiece]
  · simp only [pawnStep, fs, ft]
    congr 1
    rw [Bool.eq_iff_iff]
    cases w <;> simp <;> omega
  · simp only [knightStep, fs, ft, e2]
  · exact diagAtt_mirror B s t hs ht
  · exact orthAtt_mirror B s t hs ht
  · rw [diagAtt_mirror B s t hs ht, orthAtt_mirror B s t hs ht]
  · simp only [kingStep, fs, ft, e2]

/-- a square is attacked by colour `w` iff its mirror image is attacked by the other colour on the
mirrored board. -/
theorem attackedBy_mirror (B : Board) (w : Bool) (t : Nat) (ht : t < 64) :
    attackedBy (mirrorB B) (!w) (t ^^^ 56) = attackedBy B w t := by
  unfold attackedBy squares
  rw [← x56_perm.any_eq, List.any_map]
  apply any_range_congr
  intro s hs
  simp only [Function.comp, mirrorB_x56]
  cases hB : B s with
  | none => rfl
  | some pc =>
    simp only [Option.map_some]
    rw [pieceAttacks_mirror B s t hs ht pc]
    cases pc with
    | mk w' kd => cases w' <;> cases w <;> rfl



theorem flipPiece_eq_iff (pc : Piece) (w : Bool) (kd : Kind) :
    flipPiece pc = ⟨!w, kd⟩ ↔ pc = ⟨w, kd⟩ := by
  obtain ⟨w', kd'⟩ := pc
  cases w' <;> cases w <;> simp [flipPiece]

theorem mirror_holds (B : Board) (s : Nat) (w : Bool) (kd : Kind) :
    (mirrorB B (s ^^^ 56) == some ⟨!w, kd⟩) = (B s == some ⟨w, kd⟩) := by
  rw [mirrorB_x56, Bool.eq_iff_iff, beq_iff_eq, beq_iff_eq]
  cases B s with
  | none => simp
  | some pc => simp only [Option.map_some, Option.some.injEq]; exact flipPiece_eq_iff pc w kd

theorem any_filter' {α : Type} (l : List α) (p f : α → Bool) :
    (l.filter p).any f = l.any (fun x => p x && f x) := by
  rw [List.any_filter]

/-- being in check is mirror symmetric. -/
theorem inCheck_mirror (B : Board) (w : Bool) :
    Spec.inCheck (mirrorB B) (!w) = Spec.inCheck B w := by
  unfold Spec.inCheck kingSquares squares
  rw [List.any_filter, List.any_filter, ← x56_perm.any_eq, List.any_map]
  apply any_range_congr
  intro s hs
  simp only [Function.comp]
  rw [mirror_holds, attackedBy_mirror B (!w) s hs]

end Rawr.Att
