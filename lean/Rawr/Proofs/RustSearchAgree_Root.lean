import Rawr.Proofs.RustSearchAgree_Negamax
/-!
# Agreement for root.rs

`R.root` takes the clock as a function `clock : Nat → Nat` (elapsed milliseconds at the k-th reading), the Rust
`settings::Type` and returns the `Result`, the history, the table and the list of printed `Info` records.
The model's `root` takes a `Limit`; `toLimit` is the `Limit` that the closure `should_stop` of root.rs implements
(including the time budget `ustime / max(mtg.unwrap_or(30), 1)`, which the model leaves to its stop oracle).
-/
namespace Rawr

/-- the `Limit` implemented by the `should_stop` closure of root.rs (`none`: the closure panics). -/
def toLimit (clock : Nat → Nat) (p : Position) : R.Settings → Option Limit
  | .Time w b _ _ mtg => some (.clock fun k => decide (clock k ≥ (if !p.black then w else b) / max (mtg.getD 30) 1))
  | .Movetime t => some (.clock fun k => decide (clock k ≥ t))
  | .Depth d => some (.depth d)
  | .Nodes n => some (.nodes n)
  | .Infinite => some .infinite
  | .Perft _ => none
  | .SplitPerft _ => none

theorem agree_root_should_stop (clock : Nat → Nat) (p : Position) (s : R.Settings) (lim : Limit)
    (h : toLimit clock p s = some lim) : R.root_should_stop p s clock = fun st => some (shouldStop lim st) := by
  funext st
  cases s <;> simp only [toLimit, Option.some.injEq, reduceCtorEq] at h <;> subst h <;> rfl

/-- the closure panics exactly on the perft settings (which uci/go.rs never passes to `root`). -/
theorem root_should_stop_perft (clock : Nat → Nat) (p : Position) (s : R.Settings) (h : toLimit clock p s = none)
    (st : SState) : R.root_should_stop p s clock st = none := by
  cases s <;> simp only [toLimit, reduceCtorEq] at h <;> rfl

/-- an `Info` record as the model keeps it (the model has no position, mate and time fields). -/
def infoToModel (i : R.Info) : InfoRec :=
  ⟨i.depth.getD 0, i.seldepth.getD 0, i.nodes.getD 0, i.score.getD 0, i.hashfull.map Int.toNat, i.pv⟩

def postLoop (x : Option (Option (Except String Mv) × SState × List R.Info × Option Mv)) : Option RootResult :=
  match x with
  | none => none
  | some (some e, st, infos, _) => some ⟨e.toOption, infos.map infoToModel, st.hist, st.tt⟩
  | some (none, st, infos, bm) =>
    match bm with
    | none => none
    | some b => some ⟨some b, infos.map infoToModel, st.hist, st.tt⟩

theorem rangeI_cons (lo hi : Int) (h : lo < hi) : R.rangeI lo hi = lo :: R.rangeI (lo + 1) hi := by
  unfold R.rangeI
  obtain ⟨n, hn⟩ : ∃ n : Nat, (hi - lo).toNat = n + 1 := ⟨(hi - lo).toNat - 1, by omega⟩
  have hn' : (hi - (lo + 1)).toNat = n := by omega
  rw [hn, hn', List.range_succ_eq_map]
  simp only [List.map_cons, List.map_map, Int.natCast_zero, Int.add_zero]
  congr 1
  apply List.map_congr_left
  intro k _
  simp only [Function.comp, Nat.succ_eq_add_one, Int.natCast_add, Int.natCast_one]
  omega

theorem rangeI_nil (lo hi : Int) (h : hi ≤ lo) : R.rangeI lo hi = [] := by
  unfold R.rangeI
  have : (hi - lo).toNat = 0 := by omega
  rw [this]; rfl

theorem shouldStop_best (lim : Limit) (st : SState) : (shouldStop lim st).2.best = st.best := rfl

theorem root_loop_eq (clock : Nat → Nat) (p : Position) (s : R.Settings) (lim : Limit) (fuel : Nat)
    (hlim : toLimit clock p s = some lim) (hok : OrderOkN fuel p) :
    ∀ (n : Nat) (d : Int) (st : SState) (bm : Option Mv) (infos : List R.Info),
      d + n = 128 → 1 ≤ d → (2 ≤ d → bm.isSome = true) →
      postLoop (R.root_loop1 p s fuel clock (R.rangeI d 128) st infos bm) =
        rootIter lim fuel p (n + 1) d st bm ((infos.map infoToModel).reverse) := by
  intro n
  induction n with
  | zero =>
    intro d st bm infos hd h1 h2
    have hd' : d = 128 := by omega
    subst hd'
    rw [rangeI_nil _ _ (by omega)]
    unfold R.root_loop1 rootIter postLoop
    simp only [Gen.MAX_DEPTH, ge_iff_le, Int.le_refl, if_true, List.reverse_reverse]
    cases bm with
    | none => simp at h2
    | some b => rfl
  | succ n ih =>
    intro d st bm infos hd h1 h2
    have hlt : d < 128 := by omega
    rw [rangeI_cons _ _ hlt]
    unfold R.root_loop1 rootIter
    have hnot : ¬ d ≥ Gen.MAX_DEPTH := by unfold Gen.MAX_DEPTH; omega
    simp only [hnot, if_false, agree_root_should_stop clock p s lim hlim, agree_negamax lim fuel p hok, Gen.INF]
    generalize negamax lim fuel p _ _ _ _ _ _ = nr
    rcases nr with _ | ⟨score, st1⟩
    · rfl
    · simp only
      cases hb : st1.best with
      | none => simp [postLoop, Except.toOption]
      | some b =>
        simp only [Option.isNone, Bool.false_eq_true, if_false, ← apply_ite some]
        have hXb : (if d > 1 then shouldStop lim st1 else (false, st1)).2.best = some b := by
          split
          · rw [shouldStop_best, hb]
          · exact hb
        have hXs : (if d > 1 then shouldStop lim st1 else (false, st1)).1 = true → d > 1 := by
          split
          · intro _; assumption
          · intro h; cases h
        generalize (if d > 1 then shouldStop lim st1 else (false, st1)) = X at hXb hXs ⊢
        rcases X with ⟨stop, st2⟩
        simp only at hXb hXs ⊢
        cases stop with
        | true =>
          have hd2 : 2 ≤ d := by have := hXs rfl; omega
          simp only [if_true, postLoop, List.reverse_reverse]
          cases bm with
          | none => simp at h2; omega
          | some b' => rfl
        | false =>
          simp only [Bool.false_eq_true, if_false, hXb, Table.agree_tt_hashfull]
          rw [ih (d + 1) st2 (some b) _ (by omega) (by omega) (fun _ => rfl)]
          simp only [List.map_append, List.map_cons, List.map_nil, List.reverse_append, List.reverse_cons, List.reverse_nil,
            List.nil_append, List.cons_append, infoToModel, Option.getD_some, Option.map_map]
          congr 3
          cases st2.tt.hashfull <;> rfl

/-- the regenerated driver, projected to what the model keeps, is the model's `root`. -/
theorem agree_root (clock : Nat → Nat) (p : Position) (s : R.Settings) (lim : Limit) (fuel : Nat)
    (hlim : toLimit clock p s = some lim) (hok : OrderOkN fuel p) (hist : List BB) (tt : Table TTEntry) :
    (R.root clock p hist tt s fuel).map
        (fun r => (⟨r.1.toOption, r.2.2.2.map infoToModel, r.2.1, r.2.2.1⟩ : RootResult)) =
      root lim fuel p hist tt := by
  have h := root_loop_eq clock p s lim fuel hlim hok 127 1 ⟨hist, tt, 0, 0, 0, none, 0⟩ none [] (by omega) (by omega)
    (fun h => by omega)
  unfold root
  rw [show Gen.MAX_DEPTH.toNat = 127 + 1 from by decide]
  rw [show (([] : List R.Info).map infoToModel).reverse = [] from rfl] at h
  rw [← h]
  unfold R.root
  simp only
  generalize R.root_loop1 p s fuel clock _ _ _ _ = lr
  rcases lr with _ | ⟨_ | e, st, infos, bm⟩
  · rfl
  · cases bm <;> rfl
  · rfl

/-! non-vacuity: the regenerated driver computes (depth limit 1, start position, 3-slot table) -/
example : (R.root (fun _ => 0) Gen.startpos [] ⟨#[default, default, default]⟩ (.Depth 1) 4).map
    (fun r => (r.1.toOption, r.2.2.2.length)) = some (some ⟨6, 21, 6⟩, 1) := by decide +kernel

end Rawr

#print axioms Rawr.agree_root_should_stop
#print axioms Rawr.agree_root
