import Rawr.Proofs.GenEp2
/-!
# C01, pawns: where a pawn-tagged move of the generator comes from
-/
set_option linter.unusedSimpArgs false
namespace Rawr.Att
open Spec

/-- targets of single pushes. -/
def pushSet (p : Position) : BB :=
  north (p.p0 &&& p.c0 &&& ~~~((prelude p).hpinned ||| (prelude p).bpinned)) &&& p.empty &&& (prelude p).allowed
/-- targets of double pushes. -/
def dblSet (p : Position) : BB :=
  northNorth (p.p0 &&& p.c0 &&& ~~~((prelude p).hpinned ||| (prelude p).bpinned)) &&& p.empty &&& north p.empty
    &&& 0xFF000000#64 &&& (prelude p).allowed
/-- targets of captures towards the h-file. -/
def capNESet (p : Position) : BB :=
  east (north (p.p0 &&& p.c0 &&& ~~~(prelude p).rpinned &&& (~~~(prelude p).bpinned ||| southWest (prelude p).bxrays)))
    &&& p.c1 &&& (prelude p).allowed
/-- targets of captures towards the a-file. -/
def capNWSet (p : Position) : BB :=
  northWest (p.p0 &&& p.c0 &&& ~~~(prelude p).rpinned &&& (~~~(prelude p).bpinned ||| southEast (prelude p).bxrays))
    &&& p.c1 &&& (prelude p).allowed

/-- the promotion field of a pawn arriving on `t`. -/
def PromoOk (t pr : Nat) : Prop :=
  if rankOf t = 7 then (pr = 4 ∨ pr = 3 ∨ pr = 2 ∨ pr = 1) else pr = 6

theorem mem_pawnArrive_iff (d a f t pr : Nat) :
    gm 0 f t pr ∈ pawnArrive d a ↔ a = t ∧ f = t - d ∧ PromoOk t pr := by
  unfold pawnArrive PromoOk gm
  by_cases h7 : rankOf a = 7
  · simp only [h7, beq_self_eq_true, if_true, List.mem_cons, List.not_mem_nil, or_false, GMv.mk.injEq,
      Mv.mk.injEq, true_and]
    constructor
    · rintro (⟨h1, h2, h3⟩ | ⟨h1, h2, h3⟩ | ⟨h1, h2, h3⟩ | ⟨h1, h2, h3⟩) <;> subst h2 <;>
        simp [h7, h1, h3]
    · rintro ⟨rfl, rfl, h⟩
      rw [if_pos h7] at h
      rcases h with rfl | rfl | rfl | rfl <;> simp
  · have : (rankOf a == 7) = false := by simpa using h7
    simp only [this, Bool.false_eq_true, if_false, List.mem_singleton, GMv.mk.injEq, Mv.mk.injEq, true_and]
    constructor
    · rintro ⟨h1, h2, h3⟩; subst h2; simp [h7, h1, h3]
    · rintro ⟨rfl, rfl, h⟩
      rw [if_neg h7] at h
      simp [h]

theorem mem_ite_singleton {α : Type} {c : Prop} [Decidable c] {a x : α} :
    x ∈ (if c then [a] else []) ↔ c ∧ x = a := by
  by_cases h : c <;> simp [h]

theorem gm_inj_iff {a b c d a' b' c' d' : Nat} : gm a b c d = gm a' b' c' d' ↔ a = a' ∧ b = b' ∧ c = c' ∧ d = d' := by
  unfold gm
  simp only [GMv.mk.injEq, Mv.mk.injEq]

/-- a pawn-tagged move of the generator comes from one of the five pawn blocks. -/
theorem mem_gen_pawn (p : Position) (f t pr : Nat) :
    gm 0 f t pr ∈ moveGenerator p ↔
      ((t ∈ toList (pushSet p) ∧ f = t - 8 ∧ PromoOk t pr) ∨
       (t ∈ toList (dblSet p) ∧ f = t - 16 ∧ pr = 6) ∨
       (t ∈ toList (capNESet p) ∧ f = t - 9 ∧ PromoOk t pr) ∨
       (t ∈ toList (capNWSet p) ∧ f = t - 7 ∧ PromoOk t pr) ∨
       (p.ep = some t ∧ pr = 6 ∧ ((f = t - 9 ∧ epCondNE p t = true) ∨ (f = t - 7 ∧ epCondNW p t = true)))) := by
  have ne : ∀ {pc a b pr' : Nat}, pc ≠ 0 → gm pc a b pr' ≠ gm 0 f t pr := by
    intro pc a b pr' h e
    exact h (congrArg GMv.piece e)
  have hep : ∀ (l : List GMv), (l = match p.ep with
      | none => []
      | some ep =>
        (if epCondNE p ep = true then [gm 0 (ep - 9) ep 6] else []) ++
        (if epCondNW p ep = true then [gm 0 (ep - 7) ep 6] else [])) →
      (gm 0 f t pr ∈ l ↔ (p.ep = some t ∧ pr = 6 ∧
        ((f = t - 9 ∧ epCondNE p t = true) ∨ (f = t - 7 ∧ epCondNW p t = true)))) := by
    intro l hl
    subst hl
    cases he : p.ep with
    | none => simp
    | some ep =>
      simp only [List.mem_append, mem_ite_singleton, gm_inj_iff, true_and, Option.some.injEq]
      constructor
      · rintro (⟨h, rfl, rfl, rfl⟩ | ⟨h, rfl, rfl, rfl⟩)
        · exact ⟨rfl, rfl, Or.inl ⟨rfl, h⟩⟩
        · exact ⟨rfl, rfl, Or.inr ⟨rfl, h⟩⟩
      · rintro ⟨rfl, rfl, (⟨rfl, h⟩ | ⟨rfl, h⟩)⟩
        · exact Or.inl ⟨h, rfl, rfl, rfl⟩
        · exact Or.inr ⟨h, rfl, rfl, rfl⟩
  unfold moveGenerator
  simp only [List.mem_append, List.mem_flatMap, List.mem_map]
  constructor
  · intro hg
    rcases hg with ((((((((((((((⟨a, ha, hga⟩ | ⟨a, ha, hga⟩) | ⟨a, ha, hga⟩) | ⟨a, ha, hga⟩) | hepm) |
      ⟨a, ha, b, -, hga⟩) | ⟨a, ha, b, -, hga⟩) | ⟨a, ha, b, -, hga⟩) | ⟨a, ha, b, -, hga⟩) |
      ⟨a, ha, b, -, hga⟩) | ⟨a, ha, b, -, hga⟩) | ⟨a, ha, b, -, hga⟩) | ⟨a, ha, b, -, hga⟩) |
      ⟨a, ha, b, hb, hga⟩) | hc) | hc
    · obtain ⟨rfl, h2, h3⟩ := (mem_pawnArrive_iff _ _ _ _ _).mp hga
      exact Or.inl ⟨ha, h2, h3⟩
    · obtain ⟨_, h2, h3, h4⟩ := gm_inj_iff.mp hga
      subst h3
      exact Or.inr (Or.inl ⟨ha, h2.symm, h4.symm⟩)
    · obtain ⟨rfl, h2, h3⟩ := (mem_pawnArrive_iff _ _ _ _ _).mp hga
      exact Or.inr (Or.inr (Or.inl ⟨ha, h2, h3⟩))
    · obtain ⟨rfl, h2, h3⟩ := (mem_pawnArrive_iff _ _ _ _ _).mp hga
      exact Or.inr (Or.inr (Or.inr (Or.inl ⟨ha, h2, h3⟩)))
    · exact Or.inr (Or.inr (Or.inr (Or.inr ((hep _ rfl).mp hepm))))
    · exact absurd hga (ne (by decide))
    · exact absurd hga (ne (by decide))
    · exact absurd hga (ne (by decide))
    · exact absurd hga (ne (by decide))
    · exact absurd hga (ne (by decide))
    · exact absurd hga (ne (by decide))
    · exact absurd hga (ne (by decide))
    · exact absurd hga (ne (by decide))
    · exact absurd hga (ne (by decide))
    · split at hc
      · exact absurd (List.mem_singleton.mp hc).symm (ne (by decide))
      · cases hc
    · split at hc
      · exact absurd (List.mem_singleton.mp hc).symm (ne (by decide))
      · cases hc
  · rintro (⟨h1, h2, h3⟩ | ⟨h1, h2, h3⟩ | ⟨h1, h2, h3⟩ | ⟨h1, h2, h3⟩ | h)
    · exact Or.inl (Or.inl (Or.inl (Or.inl (Or.inl (Or.inl (Or.inl (Or.inl (Or.inl (Or.inl (Or.inl (Or.inl
        (Or.inl (Or.inl (Or.inl ⟨t, h1, (mem_pawnArrive_iff _ _ _ _ _).mpr ⟨rfl, h2, h3⟩⟩))))))))))))))
    · subst h2; subst h3
      exact Or.inl (Or.inl (Or.inl (Or.inl (Or.inl (Or.inl (Or.inl (Or.inl (Or.inl (Or.inl (Or.inl (Or.inl
        (Or.inl (Or.inl (Or.inr ⟨t, h1, rfl⟩))))))))))))))
    · exact Or.inl (Or.inl (Or.inl (Or.inl (Or.inl (Or.inl (Or.inl (Or.inl (Or.inl (Or.inl (Or.inl (Or.inl
        (Or.inl (Or.inr ⟨t, h1, (mem_pawnArrive_iff _ _ _ _ _).mpr ⟨rfl, h2, h3⟩⟩)))))))))))))
    · exact Or.inl (Or.inl (Or.inl (Or.inl (Or.inl (Or.inl (Or.inl (Or.inl (Or.inl (Or.inl (Or.inl (Or.inl
        (Or.inr ⟨t, h1, (mem_pawnArrive_iff _ _ _ _ _).mpr ⟨rfl, h2, h3⟩⟩))))))))))))
    · exact Or.inl (Or.inl (Or.inl (Or.inl (Or.inl (Or.inl (Or.inl (Or.inl (Or.inl (Or.inl (Or.inl
        (Or.inr ((hep _ rfl).mpr h))))))))))))

end Rawr.Att
