import Rawr.Proofs.RustSearchAgree
import Rawr.Proofs.RustImpAgree_MakeMove
import Rawr.Proofs.RustImpAgree_MoveGen
/-!
# `chess::perft` regenerated from the Rust source agrees with the model

`perft` recurses on its depth in the model and on fuel in the regenerated function: they agree whenever
`depth < fuel` (the real code has no fuel).
-/
namespace Rawr

/-! ## perft.rs -/
/-- the callback loop of `perft` is the model's fold (for any recursive callee). -/
theorem perft_loop_eq (rec : Position → Nat → Option Nat) (f : Position → Option Nat) (p : Position) (depth : Nat)
    (hrec : ∀ q, rec q (depth - 1) = f q) (l : List GMv) (acc : Nat) :
    R.perft_loop1 rec p depth l acc =
      (l.map (·.mv)).foldl (fun acc m =>
        match acc, p.makemove m false with
        | some a, some np => (f np).map (a + ·)
        | _, _ => none) (some acc) := by
  have hnone : ∀ l : List Mv, l.foldl (fun (acc : Option Nat) m =>
        match acc, p.makemove m false with
        | some a, some np => (f np).map (a + ·)
        | _, _ => none) none = none := by
    intro l; induction l with
    | nil => rfl
    | cons a l ih => simpa [List.foldl_cons] using ih
  induction l generalizing acc with
  | nil => rfl
  | cons g l ih =>
    unfold R.perft_loop1
    simp only [List.map_cons, List.foldl_cons, agree_after_move, hrec]
    cases hm : p.makemove g.mv false with
    | none => simp [hnone]
    | some np =>
      cases hf : f np with
      | none => simp [hf, hnone]
      | some r => simp [hf, ih]

theorem opt_match_id {α : Type} (x : Option α) : (match x with | none => none | some n => some n) = x := by
  cases x <;> rfl

theorem agree_perft : ∀ (fuel d : Nat) (p : Position), d < fuel → R.perft fuel p d = perft d p := by
  intro fuel
  induction fuel with
  | zero => intro d p h; omega
  | succ fuel ih =>
    intro d p h
    unfold R.perft
    match d with
    | 0 => simp [perft]
    | 1 => simp [perft, agree_count_moves]
    | d + 2 =>
      have h0 : ((d + 2) == 0) = false := by simp
      have h1 : ((d + 2) == 1) = false := by simp
      simp only [h0, h1, Bool.false_eq_true, if_false]
      rw [perft_loop_eq (R.perft fuel) (perft (d + 1)) p (d + 2) (fun q => ih (d + 1) q (by omega)), agree_move_generator]
      rw [perft.eq_3 p (d + 1) (by omega)]
      unfold legalMoves
      generalize List.foldl _ (some 0) _ = x
      cases x <;> rfl

end Rawr

#print axioms Rawr.agree_perft
