import Rawr.Proofs.FenValidate
import Rawr.Proofs.HashValid
import Rawr.Generated.StartPos
/-! `Spec.Valid (abs p)` (with board consistency and the engine's own attack test) implies that the
engine's structural check `Position.validate` accepts `p`. -/
namespace Rawr.FenV
open Rawr Rawr.Position Rawr.Spec Rawr.ZH
set_option linter.unusedSimpArgs false
set_option linter.unusedVariables false

/-! ### the clauses of `Spec.Valid`, read off -/

theorem valid_split {a : APos} (hV : Spec.Valid a = true) :
    countPieces a.board (fun pc => pc == ⟨true, .king⟩) = 1 ∧
    countPieces a.board (fun pc => pc == ⟨false, .king⟩) = 1 ∧
    (∀ s, s < 64 → (match a.board s with
      | some pc => !(pc.kind == .pawn && (rank s == 0 || rank s == 7)) | none => true) = true) ∧
    (∀ w ks : Bool, (match right a w ks with
      | none => true
      | some f =>
        decide (f < 8) && a.board (sq f (homeRank w)) == some ⟨w, .rook⟩ &&
        (match kingSquares a.board w with
         | [k] => rank k == homeRank w && (if ks then file k < f else (f : Int) < file k)
         | _ => false)) = true) ∧
    (match a.ep with
     | none => true
     | some e =>
       rank e == (if a.whiteToMove then 5 else 2) && (a.board e).isNone &&
       a.board (sq (file e) (if a.whiteToMove then 4 else 3)) == some ⟨!a.whiteToMove, .pawn⟩) = true ∧
    0 ≤ a.half ∧ 1 ≤ a.full := by
  unfold Spec.Valid at hV
  simp only [Bool.and_eq_true, decide_eq_true_eq] at hV
  obtain ⟨⟨⟨⟨⟨⟨⟨kw, kb⟩, hp⟩, _⟩, hr⟩, hep⟩, hh⟩, hf⟩ := hV
  rw [beq_iff_eq] at kw kb
  refine ⟨kw, kb, ?_, ?_, ?_, hh, hf⟩
  · intro s hs
    rw [List.all_eq_true] at hp
    exact hp s (by simpa [squares] using hs)
  · intro w ks
    rw [List.all_eq_true] at hr
    exact hr (w, ks) (by cases w <;> cases ks <;> simp)
  · exact hep

/-- a castling right of a valid position: rook file, rook, the king on the home rank. -/
theorem valid_right {a : APos} (hV : Spec.Valid a = true) (w ks : Bool) {f : Nat}
    (hr : right a w ks = some f) :
    f < 8 ∧ a.board (sq f (homeRank w)) = some ⟨w, .rook⟩ ∧
      ∃ k, kingSquares a.board w = [k] ∧ rank k = homeRank w := by
  have h := (valid_split hV).2.2.2.1 w ks
  rw [hr] at h
  simp only [Bool.and_eq_true, decide_eq_true_eq, beq_iff_eq] at h
  obtain ⟨⟨h1, h2⟩, h3⟩ := h
  refine ⟨h1, h2, ?_⟩
  split at h3
  · rename_i k hk
    simp only [Bool.and_eq_true, beq_iff_eq] at h3
    exact ⟨k, hk, h3.1⟩
  · cases h3

theorem valid_ep {a : APos} (hV : Spec.Valid a = true) {e : Nat} (he : a.ep = some e) :
    rank e = (if a.whiteToMove then 5 else 2) ∧ a.board e = none ∧
      a.board (sq (file e) (if a.whiteToMove then 4 else 3)) = some ⟨!a.whiteToMove, .pawn⟩ := by
  have h := (valid_split hV).2.2.2.2.1
  rw [he] at h
  simp only [Bool.and_eq_true, beq_iff_eq, Option.isNone_iff_eq_none] at h
  exact ⟨h.1.1, h.1.2, h.2⟩

/-! ### single squares -/

theorem cell_pawn : ∀ t u v q0 q1 q2 q3 q4 q5 : Bool, cellOk u v q0 q1 q2 q3 q4 q5 = true →
    (match cellPiece t u v q0 q1 q2 q3 q4 q5 with
      | some pc => pc.kind == Kind.pawn
      | none => false) = q0 := by
  decide

theorem cell_king_us : ∀ t u v q0 q1 q2 q3 q4 q5 : Bool, cellOk u v q0 q1 q2 q3 q4 q5 = true →
    (cellPiece t u v q0 q1 q2 q3 q4 q5 == some (⟨!t, .king⟩ : Piece)) = (u && q5) := by
  decide

theorem cell_king_them : ∀ t u v q0 q1 q2 q3 q4 q5 : Bool, cellOk u v q0 q1 q2 q3 q4 q5 = true →
    (cellPiece t u v q0 q1 q2 q3 q4 q5 == some (⟨t, .king⟩ : Piece)) = (v && q5) := by
  decide

theorem cell_king_them' : ∀ t u v q0 q1 q2 q3 q4 q5 : Bool, cellOk u v q0 q1 q2 q3 q4 q5 = true →
    (match cellPiece t u v q0 q1 q2 q3 q4 q5 with
      | some pc => pc == (⟨t, .king⟩ : Piece)
      | none => false) = (v && q5) := by
  decide

theorem cell_none : ∀ t u v q0 q1 q2 q3 q4 q5 : Bool, cellOk u v q0 q1 q2 q3 q4 q5 = true →
    cellPiece t u v q0 q1 q2 q3 q4 q5 = none → u = false ∧ v = false := by
  decide

theorem cell_pawn_them : ∀ t u v q0 q1 q2 q3 q4 q5 : Bool, cellOk u v q0 q1 q2 q3 q4 q5 = true →
    cellPiece t u v q0 q1 q2 q3 q4 q5 = some (⟨t, .pawn⟩ : Piece) → (v && q0) = true := by
  decide

/-! ### bits -/

theorem bit_and_eq_zero {s : Nat} (hs : s < 64) (x : BB) : (bit s &&& x == 0#64) = !x.getLsbD s := by
  cases h : x.getLsbD s
  · have : bit s &&& x = 0#64 := by
      apply BitVec.eq_of_getLsbD_eq
      intro i hi
      rw [BitVec.getLsbD_and, ZH.getLsbD_bit]
      by_cases e : i = s
      · subst e; simp [h]
      · simp [e]
    simp [this]
  · have : bit s &&& x ≠ 0#64 := by
      intro e
      have := congrArg (fun y => y.getLsbD s) e
      rw [BitVec.getLsbD_and, ZH.getLsbD_bit, h] at this
      simp [hs] at this
    simp [this]

theorem south_bit : ∀ e, e < 64 → e / 8 = 5 → south (bit e) = bit (e - 8) := by decide

/-- a board whose only set bit is `s`. -/
theorem lsb_of_unique {b : BB} {s : Nat} (hs : b.getLsbD s = true)
    (hu : ∀ i, b.getLsbD i = true → i = s) : lsb b = s := by
  unfold lsb
  cases h : (toList b).head? with
  | none =>
    have : toList b = [] := List.head?_eq_none_iff.mp h
    have hm : s ∈ toList b := (mem_toList b s).mpr hs
    rw [this] at hm
    cases hm
  | some x =>
    have : x ∈ toList b := List.mem_of_head? h
    exact hu x ((mem_toList b x).mp this)

/-! ### pawns on the first and last ranks -/

theorem edge_mask : ∀ i, i < 64 → ∀ t : Bool,
    (0xFF000000000000FF#64 : BB).getLsbD i = (rank (maybeFlip i t) == 0 || rank (maybeFlip i t) == 7) := by
  decide

theorem pawn_rank {p : Position} (hC : Consistent p = true) (hV : Spec.Valid (abs p) = true) :
    (p.p0 &&& 0xFF000000000000FF#64).isOcc = false := by
  have hz : p.p0 &&& 0xFF000000000000FF#64 = 0#64 := by
    apply BitVec.eq_of_getLsbD_eq
    intro i hi
    rw [BitVec.getLsbD_and, BitVec.getLsbD_zero]
    cases h0 : p.p0.getLsbD i
    · rfl
    · have ha : maybeFlip i p.black < 64 := maybeFlip_lt _ hi
      have h := (valid_split hV).2.2.1 _ ha
      have hb : (abs p).board (maybeFlip i p.black) = absBoard p (maybeFlip i p.black) := rfl
      rw [hb, absBoard_eq p _ ha] at h
      simp only [maybeFlip_maybeFlip] at h
      have hc := cell_pawn p.black _ _ _ _ _ _ _ _ (cellOk_of_consistent hC i)
      rw [h0] at hc h
      rw [edge_mask i hi p.black]
      revert h hc
      generalize cellPiece p.black (p.c0.getLsbD i) (p.c1.getLsbD i) true (p.p1.getLsbD i)
        (p.p2.getLsbD i) (p.p3.getLsbD i) (p.p4.getLsbD i) (p.p5.getLsbD i) = o
      intro h hc
      cases o with
      | none => cases hc
      | some pc =>
        simp only at h hc
        rw [hc] at h
        simpa using h
  simp [BB.isOcc, hz]

/-! ### kings -/

theorem king_count_them {p : Position} (hC : Consistent p) :
    countPieces (abs p).board (fun pc => pc == ⟨p.black, .king⟩) = count (p.c1 &&& p.p5) := by
  unfold countPieces count toList squares
  rw [← List.countP_eq_length_filter, ← List.countP_eq_length_filter]
  have h1 : (List.range 64).countP (fun s => match (abs p).board s with
        | some pc => pc == (⟨p.black, .king⟩ : Piece) | none => false)
      = (List.range 64).countP (fun a => (p.c1 &&& p.p5).getLsbD (maybeFlip a p.black)) := by
    apply List.countP_congr
    intro a ha
    have ha := List.mem_range.mp ha
    have hb : (abs p).board a = absBoard p a := rfl
    rw [hb, absBoard_eq p a ha]
    have := cell_king_them' p.black _ _ _ _ _ _ _ _ (cellOk_of_consistent hC (maybeFlip a p.black))
    simp only [BitVec.getLsbD_and]
    rw [← this]
  refine Eq.trans h1 ?_
  cases p.black
  · rfl
  · show (List.range 64).countP ((fun s => (p.c1 &&& p.p5).getLsbD s) ∘ (· ^^^ 56)) = _
    rw [← List.countP_map]
    exact range64_xor56_perm.countP_eq _

theorem king_counts {p : Position} (hC : Consistent p = true) (hV : Spec.Valid (abs p) = true) :
    count (p.white &&& p.p5) = 1 ∧ count (p.blackBB &&& p.p5) = 1 := by
  obtain ⟨kw, kb, _⟩ := valid_split hV
  have k0 := king_count hC
  have k1 := king_count_them hC
  unfold Position.white Position.blackBB
  cases hb : p.black
  · rw [hb] at k0 k1
    simp only [Bool.not_false] at k0
    simp only [Bool.false_eq_true, if_false]
    exact ⟨k0 ▸ kw, k1 ▸ kb⟩
  · rw [hb] at k0 k1
    simp only [Bool.not_true] at k0
    simp only [if_true]
    exact ⟨k1 ▸ kw, k0 ▸ kb⟩

/-- if the board has exactly one `w` king, on `k`, and `bb` is the relative board of the `w` kings,
then `lsb bb` is the relative image of `k`. -/
theorem king_lsb {p : Position} {w : Bool} {bb : BB} {k : Nat}
    (hkey : ∀ a, a < 64 → (absBoard p a == some (⟨w, .king⟩ : Piece)) = bb.getLsbD (maybeFlip a p.black))
    (h : kingSquares (absBoard p) w = [k]) : k < 64 ∧ lsb bb = maybeFlip k p.black := by
  have hmem : ∀ a, a ∈ kingSquares (absBoard p) w ↔ a < 64 ∧ bb.getLsbD (maybeFlip a p.black) = true := by
    intro a
    unfold kingSquares squares
    rw [List.mem_filter, List.mem_range]
    constructor
    · rintro ⟨h1, h2⟩; exact ⟨h1, by rw [← hkey a h1]; exact h2⟩
    · rintro ⟨h1, h2⟩; exact ⟨h1, by rw [hkey a h1]; exact h2⟩
  have hk := (hmem k).mp (by rw [h]; exact List.mem_singleton.mpr rfl)
  refine ⟨hk.1, lsb_of_unique hk.2 ?_⟩
  intro i hi
  have hi64 : i < 64 := BitVec.lt_of_getLsbD hi
  have : maybeFlip i p.black ∈ kingSquares (absBoard p) w :=
    (hmem _).mpr ⟨maybeFlip_lt _ hi64, by rw [maybeFlip_maybeFlip]; exact hi⟩
  rw [h, List.mem_singleton] at this
  rw [← this, maybeFlip_maybeFlip]

theorem king_key_us {p : Position} (hC : Consistent p = true) (a : Nat) (ha : a < 64) :
    (absBoard p a == some (⟨!p.black, .king⟩ : Piece)) = (p.c0 &&& p.p5).getLsbD (maybeFlip a p.black) := by
  rw [absBoard_eq p a ha, BitVec.getLsbD_and]
  exact cell_king_us p.black _ _ _ _ _ _ _ _ (cellOk_of_consistent hC _)

theorem king_key_them {p : Position} (hC : Consistent p = true) (a : Nat) (ha : a < 64) :
    (absBoard p a == some (⟨p.black, .king⟩ : Piece)) = (p.c1 &&& p.p5).getLsbD (maybeFlip a p.black) := by
  rw [absBoard_eq p a ha, BitVec.getLsbD_and]
  exact cell_king_them p.black _ _ _ _ _ _ _ _ (cellOk_of_consistent hC _)

/-! ### castling -/

theorem home_us : ∀ k, k < 64 → ∀ t : Bool, rank k = homeRank (!t) → rankOf (maybeFlip k t) = 0 := by
  decide

theorem home_them : ∀ k, k < 64 → ∀ t : Bool, rank k = homeRank t → rankOf (maybeFlip k t) = 7 := by
  decide

theorem rook_sq_us : ∀ f : Nat, f < 8 → ∀ t : Bool,
    sq (↑f) (homeRank (!t)) < 64 ∧ maybeFlip (sq (↑f) (homeRank (!t))) t = fromCoords f 0 := by
  decide

theorem rook_sq_them : ∀ f : Nat, f < 8 → ∀ t : Bool,
    sq (↑f) (homeRank t) < 64 ∧ maybeFlip (sq (↑f) (homeRank t)) t = fromCoords f 7 := by
  decide

theorem castle_us {p : Position} (hC : Consistent p = true) (hV : Spec.Valid (abs p) = true) (ks : Bool)
    {f : Nat} (hr : right (abs p) (!p.black) ks = some f) :
    rankOf (lsb (p.c0 &&& p.p5)) = 0 ∧ (p.c0 &&& p.p3).isSet (fromCoords f 0) = true := by
  obtain ⟨hf, hrook, k, hk, hrk⟩ := valid_right hV _ _ hr
  have hb : (abs p).board = absBoard p := rfl
  rw [hb] at hrook hk
  obtain ⟨hk64, hl⟩ := king_lsb (king_key_us hC) hk
  obtain ⟨hs, hm⟩ := rook_sq_us f hf p.black
  refine ⟨?_, ?_⟩
  · rw [hl]; exact home_us k hk64 p.black hrk
  · have := rook_us_of_board hC hs hrook
    rw [hm] at this
    exact this

theorem castle_them {p : Position} (hC : Consistent p = true) (hV : Spec.Valid (abs p) = true) (ks : Bool)
    {f : Nat} (hr : right (abs p) p.black ks = some f) :
    rankOf (lsb (p.c1 &&& p.p5)) = 7 ∧ (p.c1 &&& p.p3).isSet (fromCoords f 7) = true := by
  obtain ⟨hf, hrook, k, hk, hrk⟩ := valid_right hV _ _ hr
  have hb : (abs p).board = absBoard p := rfl
  rw [hb] at hrook hk
  obtain ⟨hk64, hl⟩ := king_lsb (king_key_them hC) hk
  obtain ⟨hs, hm⟩ := rook_sq_them f hf p.black
  refine ⟨?_, ?_⟩
  · rw [hl]; exact home_them k hk64 p.black hrk
  · have := rook_them_of_board hC hs hrook
    rw [hm] at this
    exact this

theorem right_usK {p : Position} (h : p.usK = true) : right (abs p) (!p.black) true = some p.cf0 := by
  cases hb : p.black <;> simp [right, abs, hb, h]

theorem right_usQ {p : Position} (h : p.usQ = true) : right (abs p) (!p.black) false = some p.cf1 := by
  cases hb : p.black <;> simp [right, abs, hb, h]

theorem right_themK {p : Position} (h : p.themK = true) : right (abs p) p.black true = some p.cf2 := by
  cases hb : p.black <;> simp [right, abs, hb, h]

theorem right_themQ {p : Position} (h : p.themQ = true) : right (abs p) p.black false = some p.cf3 := by
  cases hb : p.black <;> simp [right, abs, hb, h]

/-! ### en passant -/

theorem ep_core (p : Position) (e : Nat) (he : p.ep = some e) (h5 : e / 8 = 5)
    (hpawn : (p.c1 &&& p.p0).getLsbD (e - 8) = true)
    (h0 : p.c0.getLsbD e = false) (h1 : p.c1.getLsbD e = false) : valEpOk p = true := by
  have hlt : e < 64 := by omega
  have hmod : e % 64 = e := Nat.mod_eq_of_lt hlt
  unfold valEpOk
  rw [he]
  simp only [hmod, rankOf, h5, south_bit e hlt h5, BB.isEmpty, BB.isOcc, bne, BitVec.and_assoc,
    bit_and_eq_zero (show e - 8 < 64 by omega), bit_and_eq_zero hlt, Position.occ, BitVec.getLsbD_or,
    hpawn, h0, h1, Bool.not_true, Bool.not_false, Bool.or_self, Bool.and_self, beq_self_eq_true]

theorem ep_rel {p : Position} (hC : Consistent p = true) {e a a2 : Nat} (he : p.ep = some e)
    (ha : a < 64) (hea : maybeFlip a p.black = e) (ha2 : a2 < 64) (h2 : maybeFlip a2 p.black = e - 8)
    (h5 : e / 8 = 5) (hn : absBoard p a = none) (hp : absBoard p a2 = some ⟨p.black, .pawn⟩) :
    valEpOk p = true := by
  rw [absBoard_eq p a ha] at hn
  rw [absBoard_eq p a2 ha2] at hp
  simp only [hea] at hn
  simp only [h2] at hp
  obtain ⟨h0, h1⟩ := cell_none _ _ _ _ _ _ _ _ _ (cellOk_of_consistent hC e) hn
  have hpw := cell_pawn_them _ _ _ _ _ _ _ _ _ (cellOk_of_consistent hC (e - 8)) hp
  exact ep_core p e he h5 (by rw [BitVec.getLsbD_and]; exact hpw) h0 h1

theorem ep_num_white : ∀ e, e < 64 → rank e = 5 → e / 8 = 5 ∧ sq (file e) 4 < 64 ∧ sq (file e) 4 = e - 8 := by
  decide

theorem ep_num_black : ∀ a, a < 64 → rank a = 2 →
    (a ^^^ 56) / 8 = 5 ∧ sq (file a) 3 < 64 ∧ (sq (file a) 3) ^^^ 56 = (a ^^^ 56) - 8 := by
  decide

theorem rank_lt {a : Nat} {r : Int} (h : rank a = r) (hr : r < 8) : a < 64 := by
  unfold rank at h
  omega

theorem ep_ok {p : Position} (hC : Consistent p = true) (hV : Spec.Valid (abs p) = true) :
    valEpOk p = true := by
  cases he : p.ep with
  | none => simp [valEpOk, he]
  | some e =>
    have hae : (abs p).ep = some (absSq p.black e) := by simp [abs, he]
    obtain ⟨hr, hn, hp⟩ := valid_ep hV hae
    have hbd : (abs p).board = absBoard p := rfl
    have hw : (abs p).whiteToMove = !p.black := rfl
    rw [hbd] at hn hp
    rw [hw] at hr hp
    cases hb : p.black
    · simp only [hb, absSq, Bool.false_eq_true, if_false, Bool.not_false, if_true] at hr hn hp
      have he64 : e < 64 := rank_lt hr (by decide)
      obtain ⟨h5, hs, hs2⟩ := ep_num_white e he64 hr
      exact ep_rel hC he he64 (by simp [maybeFlip, hb]) hs (by simp [maybeFlip, hb, hs2]) h5 hn
        (by rw [hb]; exact hp)
    · simp only [hb, absSq, if_true, Bool.not_true, Bool.false_eq_true, if_false] at hr hn hp
      have ha64 : e ^^^ 56 < 64 := rank_lt hr (by decide)
      obtain ⟨h5, hs, hs2⟩ := ep_num_black _ ha64 hr
      rw [xor56_xor56] at h5 hs2
      exact ep_rel hC he ha64 (by simp [maybeFlip, hb, xor56_xor56]) hs (by simp [maybeFlip, hb, hs2]) h5 hn
        (by rw [hb]; exact hp)

/-! ### overlaps -/

theorem overlaps {p : Position} (hC : Consistent p = true) :
    (p.white &&& p.blackBB).isOcc = false ∧
     (p.p0 &&& p.p1).isOcc = false ∧ (p.p0 &&& p.p2).isOcc = false ∧ (p.p0 &&& p.p3).isOcc = false ∧
     (p.p0 &&& p.p4).isOcc = false ∧ (p.p0 &&& p.p5).isOcc = false ∧ (p.p1 &&& p.p2).isOcc = false ∧
     (p.p1 &&& p.p3).isOcc = false ∧ (p.p1 &&& p.p4).isOcc = false ∧ (p.p1 &&& p.p5).isOcc = false ∧
     (p.p2 &&& p.p3).isOcc = false ∧ (p.p2 &&& p.p4).isOcc = false ∧ (p.p2 &&& p.p5).isOcc = false ∧
     (p.p3 &&& p.p4).isOcc = false ∧ (p.p3 &&& p.p5).isOcc = false ∧ (p.p4 &&& p.p5).isOcc = false := by
  simp only [Consistent, Bool.and_eq_true, beq_iff_eq] at hC
  obtain ⟨⟨⟨⟨⟨⟨⟨⟨⟨⟨⟨⟨⟨⟨⟨⟨h0, h1⟩, h2⟩, h3⟩, h4⟩, h5⟩, h6⟩, h7⟩, h8⟩, h9⟩, h10⟩, h11⟩, h12⟩, h13⟩, h14⟩, h15⟩, _⟩ := hC
  have hc : (p.white &&& p.blackBB).isOcc = false := by
    unfold Position.white Position.blackBB
    cases p.black
    · simp [BB.isOcc, h0]
    · simp [BB.isOcc, BitVec.and_comm p.c1 p.c0, h0]
  refine ⟨hc, ?_, ?_, ?_, ?_, ?_, ?_, ?_, ?_, ?_, ?_, ?_, ?_, ?_, ?_, ?_⟩ <;> simp [BB.isOcc, *]

end Rawr.FenV

namespace Rawr
open Rawr.Position Rawr.Spec Rawr.FenV

/-- a board-consistent position whose abstraction is `Spec.Valid` (and which passes the engine's own
"side not to move is not in check" test) is accepted by `Position.validate`. -/
theorem validate_of_valid (p : Position) (hC : Consistent p = true) (hV : Spec.Valid (abs p) = true)
    (hatt : p.isSqAttacked (lsb (p.c1 &&& p.p5)) false = false) : p.validate = none := by
  rw [validate_none_iff]
  obtain ⟨o0, o1, o2, o3, o4, o5, o6, o7, o8, o9, o10, o11, o12, o13, o14, o15⟩ := overlaps hC
  obtain ⟨kw, kb⟩ := king_counts hC hV
  obtain ⟨_, _, _, _, _, hh, hf⟩ := valid_split hV
  refine ⟨⟨pawn_rank hC hV, o0, o1, o2, o3, o4, o5, o6, o7, o8, o9, o10, o11, o12, o13, o14, o15⟩,
    ep_ok hC hV, ⟨kw, kb, hh, hf⟩, ⟨?_, ?_, ?_, ?_, ?_, ?_, ?_, ?_⟩, hatt⟩
  · exact fun h => (castle_us hC hV true (right_usK h)).1
  · exact fun h => (castle_us hC hV false (right_usQ h)).1
  · exact fun h => (castle_them hC hV true (right_themK h)).1
  · exact fun h => (castle_them hC hV false (right_themQ h)).1
  · exact fun h => (castle_us hC hV true (right_usK h)).2
  · exact fun h => (castle_us hC hV false (right_usQ h)).2
  · exact fun h => (castle_them hC hV true (right_themK h)).2
  · exact fun h => (castle_them hC hV false (right_themQ h)).2

/-- non-vacuity: the start position satisfies the hypotheses. -/
example : Consistent Gen.startpos = true ∧ Spec.Valid (abs Gen.startpos) = true ∧
    Gen.startpos.isSqAttacked (lsb (Gen.startpos.c1 &&& Gen.startpos.p5)) false = false := by
  decide +kernel

end Rawr

#print axioms Rawr.validate_of_valid
