import Rawr.Generated.RustSearch

/-!
# The hand-written model agrees with the SEARCH-side functions regenerated from the Rust source (part 1)

`Rawr/Generated/RustSearch.lean` is rewritten by `tools/rust2lean_search.py` from /repo on every run: each `R.<fn>` is
compiled statement by statement from the Rust body (perft.rs, hashtable.rs; qsearch.rs / negamax.rs / root.rs in the
`_Sort`, `_QSearch`, `_Negamax`, `_Root` files).  The theorems say that the model definition IS the regenerated one.

* `perft` is in `RustSearchAgree_Perft.lean` (it needs the agreement of the move generator; this file — score.rs and
  hashtable.rs — does not, so a change to the generator does not touch the hashtable obligations).
* `u64` node counters are `Nat` on both sides (the model does not wrap at 2^64).
-/
namespace Rawr

/-! ## score.rs (`Score(mg, eg)` is `Int × Int`; these are the primitives the eval translation uses) -/
theorem agree_score_mg : @R.score_mg = fun s => s.1 := rfl
theorem agree_score_eg : @R.score_eg = fun s => s.2 := rfl
theorem agree_score_default : R.score_default = ((0, 0) : Score) := rfl
theorem agree_score_add : @R.score_add = @Score.add := rfl
theorem agree_score_sub : @R.score_sub = @Score.sub := rfl
theorem agree_score_mul : @R.score_mul = @Score.mul := rfl
/-- `impl Mul<Score> for i32`: the scalar on the left. -/
theorem agree_score_mul_i32 : @R.score_mul_i32 = fun n s => Score.mul s n := by
  funext n s
  simp only [R.score_mul_i32, Score.mul, Int.mul_comm]
theorem agree_score_add_assign : @R.score_add_assign = @Score.add := rfl
theorem agree_score_sub_assign : @R.score_sub_assign = @Score.sub := rfl

/-! ## hashtable.rs -/
set_option linter.unusedSectionVars false
namespace Table
variable {α : Type} [Inhabited α] [DecidableEq α]

omit [Inhabited α] [DecidableEq α] in
theorem isEmpty_false (a : Array α) (h : ¬ a.size = 0) : Array.isEmpty a = false := by
  simp [Array.isEmpty, h]

omit [Inhabited α] [DecidableEq α] in
theorem agree_tt_get_idx (t : Table α) (key : Nat) : R.tt_get_idx t key = t.idx key := by
  unfold R.tt_get_idx R.checkedMod Table.idx
  split <;> simp_all

theorem agree_tt_poll (t : Table α) (key : Nat) : R.tt_poll t key = t.poll key := by
  unfold R.tt_poll Table.poll
  rw [agree_tt_get_idx]
  unfold Table.idx
  by_cases h : t.entries.size = 0
  · simp [h, Array.isEmpty]
  · simp only [h, if_false, isEmpty_false t.entries h, Bool.false_eq_true]
    cases t.entries[key % t.entries.size]? <;> rfl

theorem agree_tt_add (t : Table α) (key : Nat) (e : α) : R.tt_add t key e = t.add key e := by
  unfold R.tt_add Table.add
  rw [agree_tt_get_idx]
  unfold Table.idx
  by_cases h : t.entries.size = 0
  · simp [h, Array.isEmpty]
  · have hlt : key % t.entries.size < t.entries.size := Nat.mod_lt _ (Nat.pos_of_ne_zero h)
    simp only [h, if_false, isEmpty_false t.entries h, Bool.false_eq_true, R.Arr.set, hlt, if_true]

theorem agree_tt_len : @R.tt_len α = @Table.len α := rfl
theorem agree_tt_clear : @R.tt_clear α _ = @Table.clear α _ := rfl

/-- `size_of::<T>()` is never 0 for the entry type (24 bytes); with a zero-sized type the Rust code divides by zero. -/
theorem agree_tt_resize (t : Table α) (mb es : Nat) (hes : es ≠ 0) : R.tt_resize t mb es = some (t.resize mb es) := by
  unfold R.tt_resize R.checkedDiv Table.resize Table.numEntries R.Arr.resize
  simp only [hes, if_false]
  split <;> rfl

theorem agree_tt_new (mb es : Nat) (hes : es ≠ 0) : R.tt_new (α := α) mb es = some (Table.new mb es) := by
  unfold R.tt_new Table.new
  simp only [agree_tt_resize _ _ _ hes]

/-- the counting loop of `hashfull` (an `i32` counter in Rust, a list length in the model). -/
theorem hashfull_loop (t : Table α) (l : List Nat) (hl : ∀ i ∈ l, i < t.entries.size) (acc : Int) :
    R.tt_hashfull_loop1 t l acc =
      some (acc + (((l.filter fun i => t.entries[i]! ≠ default).length : Nat) : Int)) := by
  induction l generalizing acc with
  | nil => simp [R.tt_hashfull_loop1]
  | cons i l ih =>
    have hi : i < t.entries.size := hl i (by simp)
    unfold R.tt_hashfull_loop1
    simp only [Array.getElem?_eq_getElem hi]
    rw [ih (fun j hj => hl j (by simp [hj]))]
    simp only [List.filter_cons, getElem!_pos t.entries i hi]
    by_cases hd : t.entries[i] = default
    · simp [hd]
    · simp [hd]; omega

theorem filter_range_extract (a : Array α) (n : Nat) (hn : n ≤ a.size) (q : α → Bool) :
    ((List.range n).filter fun i => q a[i]!).length = ((a.extract 0 n).toList.filter q).length := by
  have : (a.extract 0 n).toList = (List.range n).map (fun i => a[i]!) := by
    apply List.ext_getElem
    · simp; omega
    · intro i h1 h2
      simp at h1 h2
      simp [getElem!_pos a i (by omega)]
  rw [this, List.filter_map, List.length_map]
  rfl

theorem agree_tt_hashfull (t : Table α) : R.tt_hashfull t = some (t.hashfull.map Int.ofNat) := by
  unfold R.tt_hashfull Table.hashfull
  by_cases h : min t.entries.size 1000 = 0
  · simp [h]
  · have hb : (min t.entries.size 1000 == 0) = false := by simpa using h
    simp only [hb, Bool.false_eq_true, if_false, h]
    rw [hashfull_loop t _ (fun i hi => by simp at hi; omega)]
    simp only [Int.zero_add, Option.map_some]
    rw [filter_range_extract t.entries _ (Nat.min_le_left _ _) (fun e => decide (e ≠ default))]
    rfl

end Table

/-! non-vacuity: the regenerated functions compute -/
example : R.perft 3 Gen.startpos 1 = some 20 := by decide +kernel
example : R.tt_poll (R.tt_clear (⟨#[1, 2, 3]⟩ : Table Nat)) 5 = some 0 := by decide

end Rawr

#print axioms Rawr.agree_score_mul_i32
#print axioms Rawr.Table.agree_tt_get_idx
#print axioms Rawr.Table.agree_tt_poll
#print axioms Rawr.Table.agree_tt_add
#print axioms Rawr.Table.agree_tt_len
#print axioms Rawr.Table.agree_tt_clear
#print axioms Rawr.Table.agree_tt_resize
#print axioms Rawr.Table.agree_tt_new
#print axioms Rawr.Table.agree_tt_hashfull
