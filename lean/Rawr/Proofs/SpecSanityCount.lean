import Rawr.Proofs.BridgeM
/-!
# Sanity of the specification, part 3: conservation of material

`Spec.apply` touches at most four squares; a legal move removes exactly one man when it is a capture
(`Spec.isCaptureMove`, en passant included) and none otherwise; the mover's own men are conserved, kind by
kind, except that a promotion trades one pawn for one piece; the number of pawns of either colour never
grows. No engine model involved.
-/
namespace Rawr.SpecS
open Rawr.Spec Rawr.SV Rawr.Br

/-! ## `apply` changes at most four squares (every position, every move) -/

/-- the en-passant test of `Spec.apply` for the man on `s` (false when `s` is empty). -/
def isEpMove (a : APos) (s t : Nat) : Bool :=
  match a.board s with
  | some pc => pc.kind == .pawn && file s != file t && !(a.board t).isSome
  | none => false

/-- the squares `Spec.apply` may write. -/
def touched (a : APos) (m : Move) : List Nat :=
  match m with
  | .normal s t _ => if isEpMove a s t = true then [s, t, sq (file t) (rank s)] else [s, t]
  | .castle ks =>
    match right a a.whiteToMove ks, kingSquares a.board a.whiteToMove with
    | some rf, k :: _ =>
      [k, sq rf (homeRank a.whiteToMove), sq (if ks then 6 else 2) (homeRank a.whiteToMove),
        sq (if ks then 5 else 3) (homeRank a.whiteToMove)]
    | _, _ => []

theorem touched_length (a : APos) (m : Move) : (touched a m).length ≤ 4 := by
  unfold touched
  cases m with
  | normal s t pr => simp only; split <;> simp
  | castle ks => simp only; split <;> simp

/-- a castling writes four squares, an en-passant capture three, every other move two. -/
theorem touched_length_normal (a : APos) (s t : Nat) (pr : Option Kind) :
    (touched a (.normal s t pr)).length = if isEpMove a s t = true then 3 else 2 := by
  unfold touched
  simp only; split <;> rfl

theorem setSq_ne {b : Board} {s x : Nat} {v : Option Piece} (h : x ≠ s) : setSq b s v x = b x := by
  unfold setSq; rw [if_neg h]

/-- **off the touched squares the board is unchanged** — for every position and every move. -/
theorem apply_frame (a : APos) (m : Move) (x : Nat) (hx : x ∉ touched a m) :
    (apply a m).board x = a.board x := by
  cases m with
  | normal s t pr =>
    cases hb : a.board s with
    | none => simp only [apply, hb]
    | some pc =>
      rw [apply_normal hb]
      simp only
      unfold touched isEpMove at hx
      simp only [hb] at hx
      by_cases hE : (pc.kind == .pawn && file s != file t && !(a.board t).isSome) = true
      · rw [if_pos hE] at hx ⊢
        simp only [List.mem_cons, List.not_mem_nil, or_false, not_or] at hx
        rw [setSq_ne hx.2.1, setSq_ne hx.2.2, setSq_ne hx.1]
      · rw [if_neg hE] at hx ⊢
        simp only [List.mem_cons, List.not_mem_nil, or_false, not_or] at hx
        rw [setSq_ne hx.2, setSq_ne hx.1]
  | castle ks =>
    unfold touched at hx
    simp only [apply]
    split
    · next rf k l hr hk =>
      simp only [hr, hk, List.mem_cons, List.not_mem_nil, or_false, not_or] at hx
      simp only
      rw [setSq_ne hx.2.2.2, setSq_ne hx.2.2.1, setSq_ne hx.2.1, setSq_ne hx.1]
    · rfl

/-- "at most four squares change". -/
theorem apply_changes_le_four (a : APos) (m : Move) :
    ∃ l : List Nat, l.length ≤ 4 ∧ ∀ x, x ∉ l → (apply a m).board x = a.board x :=
  ⟨touched a m, touched_length a m, apply_frame a m⟩

/-! ## counting men -/

/-- the number of men on the board. -/
def menCount (b : Board) : Nat := countPieces b (fun _ => true)

theorem ind_true (o : Option Piece) : ind o (fun _ => true) = if o.isSome = true then 1 else 0 := by
  cases o <;> rfl

/-- `Spec.isCaptureMove` of a pseudo-legal move: the target is occupied or the move is an en-passant capture. -/
theorem isCaptureMove_normal {a : APos} {s t : Nat} {pr : Option Kind} {pc : Piece}
    (nl : NormalLegal a s t pr pc) :
    isCaptureMove a (.normal s t pr) = ((a.board t).isSome || isEpB a s t pc) := by
  unfold isCaptureMove isEpB
  simp only [nl.hpc]
  cases hq : a.board t with
  | none => simp
  | some q => simp

/-- **a capture (en passant included) removes exactly one man, every other legal move none.** -/
theorem men_apply {a : APos} {m : Move} (hv : Valid a = true) (hl : m ∈ legalMoves a) :
    menCount (apply a m).board + (if isCaptureMove a m = true then 1 else 0) = menCount a.board := by
  have v := (valid_iff a).mp hv
  rcases legal_cases hl with ⟨s, t, pr, pc, e, nl, _⟩ | ⟨ks, e, hc⟩
  · subst e
    rw [apply_board nl.hpc, isCaptureMove_normal nl]
    have h := count_newBoard v nl (fun _ => true)
    simp only [ind_true, Option.isSome_some, if_true] at h
    unfold menCount
    by_cases hE : isEpB a s t pc = true
    · have hn : (a.board t).isSome = false := by
        simp only [isEpB, Bool.and_eq_true, Bool.not_eq_true'] at hE
        exact hE.2
      rw [hE, hn] at h ⊢
      simp only [Bool.false_or, if_true, Bool.false_eq_true, if_false] at h ⊢
      omega
    · have hE' : isEpB a s t pc = false := by simpa using hE
      rw [hE'] at h ⊢
      simp only [Bool.or_false, Bool.false_eq_true, if_false] at h ⊢
      omega
  · subst e
    obtain ⟨rf, k, cf⟩ := castle_facts hc
    obtain ⟨hB, _⟩ := apply_castle_fields cf
    obtain ⟨hkT, hrT, hne⟩ := targets a.whiteToMove ks
    have hu := unique_of_kingSquares cf.hk
    obtain ⟨hf8, _, _⟩ := v.rights _ _ _ cf.hr
    have hr64 : sq rf (homeRank a.whiteToMove) < 64 := by
      unfold sq homeRank; split <;> omega
    unfold menCount
    rw [hB, count_cBoard a k _ _ _ hu.1 hr64 hkT hrT (Ne.symm hne) hu.2.1 cf.rook cf.kTo cf.rTo]
    rfl

/-- the men of one colour and kind (`Br.cnt`) and of one colour (`Br.cntCol`) after a legal move:
the opponent's counts never grow. -/
theorem opp_counts_le {a : APos} {m : Move} (hv : Valid a = true) (hl : m ∈ legalMoves a) :
    cntCol (apply a m).board (!a.whiteToMove) ≤ cntCol a.board (!a.whiteToMove) ∧
    ∀ kd, cnt (apply a m).board (!a.whiteToMove) kd ≤ cnt a.board (!a.whiteToMove) kd := by
  have v := (valid_iff a).mp hv
  rcases legal_cases hl with ⟨s, t, pr, pc, e, nl, _⟩ | ⟨ks, e, hc⟩
  · subst e
    rw [apply_board nl.hpc]
    exact ⟨count_opp_le v nl _ (onlyCol_col _), fun kd => count_opp_le v nl _ (onlyCol_cnt _ kd)⟩
  · subst e
    obtain ⟨rf, k, cf⟩ := castle_facts hc
    obtain ⟨hB, _⟩ := apply_castle_fields cf
    obtain ⟨hkT, hrT, hne⟩ := targets a.whiteToMove ks
    have hu := unique_of_kingSquares cf.hk
    obtain ⟨hf8, _, _⟩ := v.rights _ _ _ cf.hr
    have hr64 : sq rf (homeRank a.whiteToMove) < 64 := by
      unfold sq homeRank; split <;> omega
    have hc := fun f => count_cBoard a k _ _ _ hu.1 hr64 hkT hrT (Ne.symm hne) hu.2.1 cf.rook cf.kTo cf.rTo f
    rw [hB]
    unfold cnt cntCol
    simp only [hc]
    exact ⟨Nat.le_refl _, fun _ => Nat.le_refl _⟩

/-- the mover's men are conserved: the same number of men; kind by kind the same unless the move promotes. -/
theorem own_counts {a : APos} {m : Move} (hv : Valid a = true) (hl : m ∈ legalMoves a) :
    cntCol (apply a m).board a.whiteToMove = cntCol a.board a.whiteToMove ∧
    ((∀ s t k, m ≠ .normal s t (some k)) →
      ∀ kd, cnt (apply a m).board a.whiteToMove kd = cnt a.board a.whiteToMove kd) := by
  have v := (valid_iff a).mp hv
  rcases legal_cases hl with ⟨s, t, pr, pc, e, nl, _⟩ | ⟨ks, e, hc⟩
  · subst e
    rw [apply_board nl.hpc]
    constructor
    · have hcol := count_own v nl _ (onlyCol_col a.whiteToMove)
      rw [ind_col, ind_col, newPiece_white, nl.hw] at hcol
      simp only [if_true] at hcol
      unfold cntCol; omega
    · intro hnp kd
      have hpr : pr = none := by
        cases pr with
        | none => rfl
        | some k => exact absurd rfl (hnp s t k)
      subst hpr
      have := count_own v nl _ (onlyCol_cnt a.whiteToMove kd)
      have hnp : newPiece none pc = pc := rfl
      rw [hnp] at this
      unfold cnt; omega
  · subst e
    obtain ⟨rf, k, cf⟩ := castle_facts hc
    obtain ⟨hB, _⟩ := apply_castle_fields cf
    obtain ⟨hkT, hrT, hne⟩ := targets a.whiteToMove ks
    have hu := unique_of_kingSquares cf.hk
    obtain ⟨hf8, _, _⟩ := v.rights _ _ _ cf.hr
    have hr64 : sq rf (homeRank a.whiteToMove) < 64 := by
      unfold sq homeRank; split <;> omega
    have hc := fun f => count_cBoard a k _ _ _ hu.1 hr64 hkT hrT (Ne.symm hne) hu.2.1 cf.rook cf.kTo cf.rTo f
    rw [hB]
    unfold cnt cntCol
    simp only [hc]
    exact ⟨trivial, fun _ _ => trivial⟩

/-- **a promotion replaces one pawn of the mover by one piece** (queen, rook, bishop or knight) of the mover:
one pawn fewer, one `k` more, every other kind unchanged, and the new piece stands on the target. -/
theorem promotion_counts {a : APos} {s t : Nat} {k : Kind} (hv : Valid a = true)
    (hl : Move.normal s t (some k) ∈ legalMoves a) :
    k ∈ promoKinds ∧ a.board s = some ⟨a.whiteToMove, .pawn⟩ ∧
    (apply a (.normal s t (some k))).board t = some ⟨a.whiteToMove, k⟩ ∧
    (apply a (.normal s t (some k))).board s = none ∧
    cnt (apply a (.normal s t (some k))).board a.whiteToMove .pawn + 1 = cnt a.board a.whiteToMove .pawn ∧
    cnt (apply a (.normal s t (some k))).board a.whiteToMove k = cnt a.board a.whiteToMove k + 1 ∧
    ∀ kd, kd ≠ .pawn → kd ≠ k →
      cnt (apply a (.normal s t (some k))).board a.whiteToMove kd = cnt a.board a.whiteToMove kd := by
  have v := (valid_iff a).mp hv
  rcases legal_cases hl with ⟨s', t', pr', pc, e, nl, _⟩ | ⟨ks, e, _⟩
  · cases e
    obtain ⟨hkp, hmem, _⟩ := nl.prK k rfl
    have hpcE : pc = ⟨a.whiteToMove, .pawn⟩ := by
      cases pc with
      | mk w' kd => simp only [] at hkp; have := nl.hw; simp only [] at this; rw [hkp, this]
    subst hpcE
    have hkne : k ≠ .pawn := by
      intro e; subst e; simp [promoKinds] at hmem
    have hk := fun kd => count_own v nl _ (onlyCol_cnt a.whiteToMove kd)
    have hnp : newPiece (some k) ⟨a.whiteToMove, .pawn⟩ = ⟨a.whiteToMove, k⟩ := rfl
    rw [apply_board nl.hpc]
    simp only [hnp, ind_eq] at hk
    refine ⟨hmem, nl.hpc, by rw [newBoard_t, hnp], ?_, ?_, ?_, ?_⟩
    · rw [newBoard_other nl.hne, if_pos rfl]
    · have := hk .pawn
      simp only [if_true, Piece.mk.injEq, true_and] at this
      rw [if_neg hkne] at this
      unfold cnt; omega
    · have := hk k
      simp only [if_true, Piece.mk.injEq, true_and] at this
      rw [if_neg (fun e => hkne e.symm)] at this
      unfold cnt; omega
    · intro kd h1 h2
      have := hk kd
      simp only [Piece.mk.injEq, true_and] at this
      rw [if_neg (fun e => h1 e.symm), if_neg (fun e => h2 e.symm)] at this
      unfold cnt; omega
  · cases e

/-- **the number of pawns of either colour never increases.** -/
theorem pawns_never_increase {a : APos} {m : Move} (hv : Valid a = true) (hl : m ∈ legalMoves a) (c : Bool) :
    cnt (apply a m).board c .pawn ≤ cnt a.board c .pawn := by
  by_cases hc : c = a.whiteToMove
  · subst hc
    by_cases hp : ∃ s t k, m = .normal s t (some k)
    · obtain ⟨s, t, k, rfl⟩ := hp
      have := (promotion_counts hv hl).2.2.2.2.1
      omega
    · have := (own_counts hv hl).2 (fun s t k e => hp ⟨s, t, k, e⟩) .pawn
      omega
  · have : c = !a.whiteToMove := by cases c <;> cases hw : a.whiteToMove <;> simp_all
    subst this
    exact (opp_counts_le hv hl).2 .pawn

/-- only a promotion decreases the mover's pawns; only a capture decreases the opponent's men. -/
theorem opp_men_apply {a : APos} {m : Move} (hv : Valid a = true) (hl : m ∈ legalMoves a) :
    cntCol (apply a m).board (!a.whiteToMove) + (if isCaptureMove a m = true then 1 else 0) =
      cntCol a.board (!a.whiteToMove) := by
  have v := (valid_iff a).mp hv
  rcases legal_cases hl with ⟨s, t, pr, pc, e, nl, _⟩ | ⟨ks, e, hc⟩
  · subst e
    rw [apply_board nl.hpc, isCaptureMove_normal nl]
    have h := count_newBoard v nl (fun pc => pc.white == !a.whiteToMove)
    rw [ind_col, ind_col, ind_col, newPiece_white, nl.hw] at h
    have hne : ¬ (a.whiteToMove = !a.whiteToMove) := by cases a.whiteToMove <;> simp
    simp only [if_neg hne, if_true, Nat.add_zero] at h
    unfold cntCol
    cases hq : a.board t with
    | none =>
      rw [hq] at h
      by_cases hE : isEpB a s t pc = true
      · rw [hE] at h ⊢
        simp only [ind, Option.isSome_none, Bool.false_or, if_true] at h ⊢
        omega
      · have hE' : isEpB a s t pc = false := by simpa using hE
        rw [hE'] at h ⊢
        simp only [ind, Option.isSome_none, Bool.false_or, Bool.false_eq_true, if_false] at h ⊢
        omega
    | some q =>
      rw [hq] at h
      have hE' : isEpB a s t pc = false := by
        simp [isEpB, hq]
      obtain ⟨hqw, _⟩ := nl.tgt q hq
      have hqw' : q.white = !a.whiteToMove := by
        rw [nl.hw] at hqw
        cases hq' : q.white <;> cases hw' : a.whiteToMove <;> simp_all
      rw [hE'] at h ⊢
      rw [ind_col, if_pos hqw'] at h
      simp only [Option.isSome_some, Bool.true_or, if_true, Bool.false_eq_true, if_false] at h ⊢
      omega
  · subst e
    have := (opp_counts_le hv hl).1
    obtain ⟨rf, k, cf⟩ := castle_facts hc
    obtain ⟨hB, _⟩ := apply_castle_fields cf
    obtain ⟨hkT, hrT, hne⟩ := targets a.whiteToMove ks
    have hu := unique_of_kingSquares cf.hk
    obtain ⟨hf8, _, _⟩ := v.rights _ _ _ cf.hr
    have hr64 : sq rf (homeRank a.whiteToMove) < 64 := by
      unfold sq homeRank; split <;> omega
    unfold cntCol
    rw [hB, count_cBoard a k _ _ _ hu.1 hr64 hkT hrT (Ne.symm hne) hu.2.1 cf.rook cf.kTo cf.rTo]
    rfl

end Rawr.SpecS
