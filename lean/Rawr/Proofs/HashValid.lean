import Rawr.Proofs.HashMeta
/-! `ValidPos p → KeyHyps p`: the hypotheses of C04(a) on the position hold on the whole domain. -/
namespace Rawr.ZH
open Rawr Rawr.Position Rawr.Spec

theorem cell_king : ∀ t u v q0 q1 q2 q3 q4 q5 : Bool, cellOk u v q0 q1 q2 q3 q4 q5 = true →
    (match cellPiece t u v q0 q1 q2 q3 q4 q5 with
      | some pc => pc == (⟨!t, .king⟩ : Piece)
      | none => false) = (u && q5) := by
  decide

theorem cell_rook_us : ∀ t u v q0 q1 q2 q3 q4 q5 : Bool, cellOk u v q0 q1 q2 q3 q4 q5 = true →
    cellPiece t u v q0 q1 q2 q3 q4 q5 = some (⟨!t, .rook⟩ : Piece) → (u && q3) = true := by
  decide

theorem cell_rook_them : ∀ t u v q0 q1 q2 q3 q4 q5 : Bool, cellOk u v q0 q1 q2 q3 q4 q5 = true →
    cellPiece t u v q0 q1 q2 q3 q4 q5 = some (⟨t, .rook⟩ : Piece) → (v && q3) = true := by
  decide

theorem range64_xor56_perm : ((List.range 64).map (· ^^^ 56)).Perm (List.range 64) := by decide

theorem rook_us_of_board {p : Position} (hC : Consistent p) {a : Nat} (ha : a < 64)
    (h : absBoard p a = some ⟨!p.black, .rook⟩) :
    (p.c0 &&& p.p3).getLsbD (maybeFlip a p.black) = true := by
  rw [absBoard_eq p a ha] at h
  have := cell_rook_us _ _ _ _ _ _ _ _ _ (cellOk_of_consistent hC _) h
  rw [BitVec.getLsbD_and]
  exact this

theorem rook_them_of_board {p : Position} (hC : Consistent p) {a : Nat} (ha : a < 64)
    (h : absBoard p a = some ⟨p.black, .rook⟩) :
    (p.c1 &&& p.p3).getLsbD (maybeFlip a p.black) = true := by
  rw [absBoard_eq p a ha] at h
  have := cell_rook_them _ _ _ _ _ _ _ _ _ (cellOk_of_consistent hC _) h
  rw [BitVec.getLsbD_and]
  exact this

theorem king_count {p : Position} (hC : Consistent p) :
    countPieces (abs p).board (fun pc => pc == ⟨!p.black, .king⟩) = count (p.c0 &&& p.p5) := by
  unfold countPieces count toList squares
  rw [← List.countP_eq_length_filter, ← List.countP_eq_length_filter]
  have h1 : (List.range 64).countP (fun s => match (abs p).board s with
        | some pc => pc == (⟨!p.black, .king⟩ : Piece) | none => false)
      = (List.range 64).countP (fun a => (p.c0 &&& p.p5).getLsbD (maybeFlip a p.black)) := by
    apply List.countP_congr
    intro a ha
    have ha := List.mem_range.mp ha
    have hb : (abs p).board a = absBoard p a := rfl
    rw [hb, absBoard_eq p a ha]
    have := cell_king p.black _ _ _ _ _ _ _ _ (cellOk_of_consistent hC (maybeFlip a p.black))
    simp only [BitVec.getLsbD_and]
    rw [← this]
  refine Eq.trans h1 ?_
  cases p.black
  · rfl
  · show (List.range 64).countP ((fun s => (p.c0 &&& p.p5).getLsbD s) ∘ (· ^^^ 56)) = _
    rw [← List.countP_map]
    exact range64_xor56_perm.countP_eq _

theorem sq_home_true (f : Nat) : sq (↑f) (homeRank true) = f := by
  simp [sq, homeRank]

theorem sq_home_false (f : Nat) : sq (↑f) (homeRank false) = f + 56 := by
  simp only [sq, homeRank, Bool.false_eq_true, if_false]
  omega

theorem xor56_add : ∀ f, f < 8 → (f + 56) ^^^ 56 = f := by decide
theorem xor56_lo : ∀ f, f < 8 → f ^^^ 56 = f + 56 := by decide

/-- a castling-right clause of `Spec.Valid`, read off. -/
theorem right_clause {b : Board} {r : Option Nat} {w : Bool} {X : Nat → Bool}
    (h : (match r with
      | none => true
      | some f => decide (f < 8) && b (sq (↑f) (homeRank w)) == some { white := w, kind := Kind.rook } && X f) = true)
    {f : Nat} (hr : r = some f) : b (sq (↑f) (homeRank w)) = some ⟨w, .rook⟩ := by
  subst hr
  simp only [Bool.and_eq_true, beq_iff_eq] at h
  exact h.1.2

/-- on the domain (`ValidPos`), the position hypotheses of C04(a) hold. -/
theorem keyHyps_of_valid {p : Position} (hv : ValidPos p = true) : KeyHyps p = true := by
  simp only [ValidPos, Bool.and_eq_true, decide_eq_true_eq] at hv
  obtain ⟨⟨⟨⟨⟨⟨⟨⟨hC, hV⟩, _⟩, _⟩, h0⟩, h1⟩, h2⟩, h3⟩, _⟩ := hv
  unfold Spec.Valid at hV
  simp only [Bool.and_eq_true, List.all_cons, List.all_nil, Bool.and_true, right] at hV
  obtain ⟨⟨⟨⟨⟨⟨⟨kw, kb⟩, _⟩, _⟩, ⟨rwK, rwQ, rbK, rbQ⟩⟩, _⟩, _⟩, _⟩ := hV
  have kc := king_count hC
  have fc0 : fromCoords p.cf0 0 = p.cf0 := by simp [fromCoords]
  have fc1 : fromCoords p.cf1 0 = p.cf1 := by simp [fromCoords]
  have fc2 : fromCoords p.cf2 7 = p.cf2 + 56 := by simp [fromCoords]; omega
  have fc3 : fromCoords p.cf3 7 = p.cf3 + 56 := by simp [fromCoords]; omega
  have hcount : count (p.c0 &&& p.p5) ≤ 1 := by
    rw [← kc]
    cases hb : p.black
    · have : countPieces (abs p).board (fun pc => pc == ⟨true, .king⟩) = 1 := by simpa using kw
      simp [this]
    · have : countPieces (abs p).board (fun pc => pc == ⟨false, .king⟩) = 1 := by simpa using kb
      simp [this]
  have bUK : p.usK = true → (p.c0 &&& p.p3).getLsbD (fromCoords p.cf0 0) = true := by
    intro hu
    rw [fc0]
    cases hb : p.black
    · have hr : (abs p).wK = some p.cf0 := by simp [abs, hb, hu]
      have hbd := right_clause rwK hr
      rw [sq_home_true] at hbd
      have := rook_us_of_board hC (a := p.cf0) (by omega) (by rw [hb]; exact hbd)
      rw [hb] at this
      exact this
    · have hr : (abs p).bK = some p.cf0 := by simp [abs, hb, hu]
      have hbd := right_clause rbK hr
      rw [sq_home_false] at hbd
      have := rook_us_of_board hC (a := p.cf0 + 56) (by omega) (by rw [hb]; exact hbd)
      rw [hb] at this
      simpa [maybeFlip, xor56_add _ h0] using this
  have bUQ : p.usQ = true → (p.c0 &&& p.p3).getLsbD (fromCoords p.cf1 0) = true := by
    intro hu
    rw [fc1]
    cases hb : p.black
    · have hr : (abs p).wQ = some p.cf1 := by simp [abs, hb, hu]
      have hbd := right_clause rwQ hr
      rw [sq_home_true] at hbd
      have := rook_us_of_board hC (a := p.cf1) (by omega) (by rw [hb]; exact hbd)
      rw [hb] at this
      exact this
    · have hr : (abs p).bQ = some p.cf1 := by simp [abs, hb, hu]
      have hbd := right_clause rbQ hr
      rw [sq_home_false] at hbd
      have := rook_us_of_board hC (a := p.cf1 + 56) (by omega) (by rw [hb]; exact hbd)
      rw [hb] at this
      simpa [maybeFlip, xor56_add _ h1] using this
  have bTK : p.themK = true → (p.c1 &&& p.p3).getLsbD (fromCoords p.cf2 7) = true := by
    intro hu
    rw [fc2]
    cases hb : p.black
    · have hr : (abs p).bK = some p.cf2 := by simp [abs, hb, hu]
      have hbd := right_clause rbK hr
      rw [sq_home_false] at hbd
      have := rook_them_of_board hC (a := p.cf2 + 56) (by omega) (by rw [hb]; exact hbd)
      rw [hb] at this
      exact this
    · have hr : (abs p).wK = some p.cf2 := by simp [abs, hb, hu]
      have hbd := right_clause rwK hr
      rw [sq_home_true] at hbd
      have := rook_them_of_board hC (a := p.cf2) (by omega) (by rw [hb]; exact hbd)
      rw [hb] at this
      simpa [maybeFlip, xor56_lo _ h2] using this
  have bTQ : p.themQ = true → (p.c1 &&& p.p3).getLsbD (fromCoords p.cf3 7) = true := by
    intro hu
    rw [fc3]
    cases hb : p.black
    · have hr : (abs p).bQ = some p.cf3 := by simp [abs, hb, hu]
      have hbd := right_clause rbQ hr
      rw [sq_home_false] at hbd
      have := rook_them_of_board hC (a := p.cf3 + 56) (by omega) (by rw [hb]; exact hbd)
      rw [hb] at this
      exact this
    · have hr : (abs p).wQ = some p.cf3 := by simp [abs, hb, hu]
      have hbd := right_clause rwQ hr
      rw [sq_home_true] at hbd
      have := rook_them_of_board hC (a := p.cf3) (by omega) (by rw [hb]; exact hbd)
      rw [hb] at this
      simpa [maybeFlip, xor56_lo _ h3] using this
  simp only [KeyHyps, Bool.and_eq_true, Bool.or_eq_true, Bool.not_eq_true', decide_eq_true_eq, BB.isSet, hC, hcount,
    true_and]
  refine ⟨⟨⟨?_, ?_⟩, ?_⟩, ?_⟩
  · cases hu : p.usK
    · exact Or.inl rfl
    · exact Or.inr (bUK hu)
  · cases hu : p.usQ
    · exact Or.inl rfl
    · exact Or.inr (bUQ hu)
  · cases hu : p.themK
    · exact Or.inl rfl
    · exact Or.inr (bTK hu)
  · cases hu : p.themQ
    · exact Or.inl rfl
    · exact Or.inr (bTQ hu)

end Rawr.ZH
