import Rawr.Proofs.RustSessionAgree_Canon
import Rawr.Proofs.RustTextAgree_GetFen
import Rawr.Proofs.RustImpAgree
/-!
# `impl Display for Position`, `impl Display for Colour`, `Position::startpos` regenerated from the Rust source agree with
the model (`displayPos` of Rawr/Model/Uci.lean, `Gen.startpos`)

`R.position_fmt ar p f` appends to the formatter `f`; the model's `displayPos p` is the list of the lines.
The agreement `agree_position_fmt` holds for every position whose printed en-passant square is on the board and whose
castle files of the printed rights fit the `u8` addition `b'A' + file` (`DisplayOk`; true for every valid position):
the Rust code panics in `Square::fmt` / in the checked build otherwise, the model is total.
-/
set_option linter.unusedSimpArgs false
namespace Rawr.Sess
open T Position

/-! ## `Colour`'s `Display` -/
theorem _root_.Rawr.agree_colour_fmt (b : Bool) (f : List Char) :
    R.colour_fmt b f = f ++ (if b then "Black" else "White").toList := by
  cases b <;> rfl

/-! ## `Position::startpos` -/
theorem _root_.Rawr.agree_startpos : R.startpos_ = Gen.startpos := by decide

/-! ## `Position`'s `Display` -/
/-- the board character of a square (`displayPos`'s local `cell`). -/
def dispCell (np : Position) (sq : Nat) : Char :=
  let w := np.white.isSet sq
  let pick (u l : Char) := if w then u else l
  if np.p0.isSet sq then pick 'P' 'p' else if np.p1.isSet sq then pick 'N' 'n'
  else if np.p2.isSet sq then pick 'B' 'b' else if np.p3.isSet sq then pick 'R' 'r'
  else if np.p4.isSet sq then pick 'Q' 'q' else if np.p5.isSet sq then pick 'K' 'k' else '-'

theorem position_fmt_loop1_step_eq (y : Nat) (np : Position) (x : Nat) (f : List Char) :
    R.position_fmt_loop1_step y np x f = some (ForInStep.yield (f ++ [dispCell np (8 * y + x)])) := by
  unfold R.position_fmt_loop1_step dispCell
  simp only [agree_get_white, R.get_pawns, R.get_knights, R.get_bishops, R.get_rooks, R.get_queens, R.get_kings]
  cases np.p0.isSet (8 * y + x) <;> cases np.p1.isSet (8 * y + x) <;> cases np.p2.isSet (8 * y + x) <;>
    cases np.p3.isSet (8 * y + x) <;> cases np.p4.isSet (8 * y + x) <;> cases np.p5.isSet (8 * y + x) <;>
    cases np.white.isSet (8 * y + x) <;> rfl

theorem position_fmt_loop1_eq (y : Nat) (np : Position) : ∀ (l : List Nat) (f : List Char),
    R.position_fmt_loop1 y np l f = some (f ++ l.map fun x => dispCell np (8 * y + x)) := by
  intro l
  induction l with
  | nil => intro f; simp [R.position_fmt_loop1]
  | cons x l ih =>
    intro f
    simp only [R.position_fmt_loop1, List.forIn_cons, position_fmt_loop1_step_eq, bind, Option.bind_some] at ih ⊢
    rw [ih]
    simp

theorem position_fmt_loop2_step_eq (np : Position) (y : Nat) (f : List Char) :
    R.position_fmt_loop2_step np y f =
      some (ForInStep.yield (f ++ T.line (String.ofList ((List.range 8).map fun x => dispCell np (8 * y + x))))) := by
  unfold R.position_fmt_loop2_step
  simp only [position_fmt_loop1_eq, bind, pure, Option.bind_some, T.line]
  simp

theorem position_fmt_loop2_eq (np : Position) : ∀ (l : List Nat) (f : List Char),
    R.position_fmt_loop2 np l f =
      some (f ++ T.unlines (l.map fun y => String.ofList ((List.range 8).map fun x => dispCell np (8 * y + x)))) := by
  intro l
  induction l with
  | nil => intro f; simp [R.position_fmt_loop2, T.unlines]
  | cons y l ih =>
    intro f
    simp only [R.position_fmt_loop2, List.forIn_cons, position_fmt_loop2_step_eq, bind, Option.bind_some] at ih ⊢
    rw [ih]
    simp [T.unlines]

/-- the positions `Display` can print: the en-passant square of the white-relative position on the board, and
`b'A' + file` / `b'a' + file` within `u8` for the printed rights. -/
def DisplayOk (p : Position) : Prop :=
  let np := if p.black then p.flip else p
  (∀ e, np.ep = some e → e < 64) ∧ (np.usK = true → p.cf0 < 191) ∧ (np.usQ = true → p.cf1 < 191) ∧
  (np.themK = true → p.cf2 < 159) ∧ (np.themQ = true → p.cf3 < 159)

theorem u8add_small (ar : Arith) (a b : Nat) (h : a + b < 256) : u8add ar a b = some (a + b) := by
  simp [u8add, h]

theorem rev_range8 : (List.range 8).reverse = (List.range 8).map (fun i => 7 - i) := by decide

theorem line_toList (a : String) : T.line a = a.toList ++ ['\n'] := rfl

theorem hbool (b : Bool) : toString b = (if b then "true" else "false") := by cases b <;> rfl

theorem position_fmt_part5_eq (s : Position) (f : List Char) :
    R.position_fmt_part5 s f = some (f ++ T.unlines ["Hash: 0x" ++ String.ofList (hexDigits s.hash.toNat),
      "FRC: " ++ (if s.frc then "true" else "false")]) := by
  unfold R.position_fmt_part5
  have e : ∀ x : String, "Hash: " ++ ("0x" ++ x) = "Hash: 0x" ++ x := by
    intro x; rw [← String.append_assoc]; rfl
  simp [T.unlines, hbool, hexLine, bind, pure, e]

/-- the `Castling:` line of `displayPos`. -/
def dispCastle (np p : Position) : String :=
  if !np.usK && !np.usQ && !np.themK && !np.themQ then "Castling: -"
  else "Castling: " ++ String.ofList (
    (if np.usK then [Char.ofNat ('A'.toNat + p.cf0)] else []) ++
    (if np.usQ then [Char.ofNat ('A'.toNat + p.cf1)] else []) ++
    (if np.themK then [Char.ofNat ('a'.toNat + p.cf2)] else []) ++
    (if np.themQ then [Char.ofNat ('a'.toNat + p.cf3)] else []))

theorem position_fmt_part4_eq (ar : Arith) (np s : Position) (f : List Char)
    (h0 : np.usK = true → s.cf0 < 191) (h1 : np.usQ = true → s.cf1 < 191)
    (h2 : np.themK = true → s.cf2 < 159) (h3 : np.themQ = true → s.cf3 < 159) :
    R.position_fmt_part4 ar np s f = some (f ++ T.unlines [dispCastle np s,
      "Hash: 0x" ++ String.ofList (hexDigits s.hash.toNat), "FRC: " ++ (if s.frc then "true" else "false")]) := by
  unfold R.position_fmt_part4 dispCastle
  have eA : asU8 'A' = 65 := by decide
  have ea : asU8 'a' = 97 := by decide
  have eA' : 'A'.toNat = 65 := by decide
  have ea' : 'a'.toNat = 97 := by decide
  have b1 : ∀ n, n < 191 → 65 + n < 256 := by omega
  have b2 : ∀ n, n < 159 → 97 + n < 256 := by omega
  simp only [eA, ea, eA', ea', position_fmt_part5_eq, bind, pure]
  cases hk : np.usK <;> cases hq : np.usQ <;> cases hk' : np.themK <;> cases hq' : np.themQ <;>
    simp only [hk, hq, hk', hq', forall_const, Bool.false_eq_true, false_implies] at h0 h1 h2 h3 <;>
    simp [u8add_small, h0, h1, h2, h3, b1, b2, T.unlines, T.line, T.chars]

theorem position_fmt_part3_eq (ar : Arith) (np s : Position) (f : List Char)
    (hep : ∀ e, np.ep = some e → e < 64)
    (h0 : np.usK = true → s.cf0 < 191) (h1 : np.usQ = true → s.cf1 < 191)
    (h2 : np.themK = true → s.cf2 < 159) (h3 : np.themQ = true → s.cf3 < 159) :
    R.position_fmt_part3 ar np s f = some (f ++ T.unlines [
      (match np.ep with | some e => "EP: " ++ String.ofList (sqName e) | none => "EP: -"), dispCastle np s,
      "Hash: 0x" ++ String.ofList (hexDigits s.hash.toNat), "FRC: " ++ (if s.frc then "true" else "false")]) := by
  unfold R.position_fmt_part3
  simp only [position_fmt_part4_eq ar np s _ h0 h1 h2 h3, bind, pure]
  cases hepc : np.ep with
  | some e =>
    have he : e < 64 := hep e hepc
    simp [agree_square_fmt, he, T.unlines, T.line]
  | none => simp [T.unlines, T.line]

theorem position_fmt_part2_eq (ar : Arith) (np s : Position) (f : List Char)
    (hep : ∀ e, np.ep = some e → e < 64)
    (h0 : np.usK = true → s.cf0 < 191) (h1 : np.usQ = true → s.cf1 < 191)
    (h2 : np.themK = true → s.cf2 < 159) (h3 : np.themQ = true → s.cf3 < 159) :
    R.position_fmt_part2 ar np s f = some (f ++ T.unlines (
      ((List.range 8).map fun i => String.ofList ((List.range 8).map fun x => dispCell np (8 * (7 - i) + x))) ++
      [ "Turn: " ++ (if s.black then "Black" else "White"),
        "Check: " ++ (if s.inCheck then "true" else "false"),
        "Halfmoves: " ++ toString np.halfmoves,
        "Fullmoves: " ++ toString np.fullmoves,
        (match np.ep with | some e => "EP: " ++ String.ofList (sqName e) | none => "EP: -"), dispCastle np s,
        "Hash: 0x" ++ String.ofList (hexDigits s.hash.toNat), "FRC: " ++ (if s.frc then "true" else "false")])) := by
  unfold R.position_fmt_part2
  simp only [position_fmt_part3_eq ar np s _ hep h0 h1 h2 h3, position_fmt_loop2_eq, rev_range8, List.map_map, bind, pure,
    Option.bind_some, agree_in_check, agree_colour_fmt, hbool, List.nil_append, String.ofList_toList]
  simp [T.unlines, T.line, Function.comp_def]

/-- **`impl Display for Position`**: the regenerated `fmt` appends the lines of the model's `displayPos`. -/
theorem _root_.Rawr.agree_position_fmt (ar : Arith) (p : Position) (f : List Char) (h : DisplayOk p) :
    R.position_fmt ar p f = some (f ++ T.unlines (displayPos p)) := by
  obtain ⟨hep, h0, h1, h2, h3⟩ := h
  unfold R.position_fmt
  cases hb : p.black
  · simp only [hb, Bool.false_eq_true, if_false, Bool.not_false, if_true, bind, pure, Option.bind_some] at hep h0 h1 h2 h3 ⊢
    rw [position_fmt_part2_eq ar _ p f hep h0 h1 h2 h3]
    simp only [displayPos, hb, Bool.false_eq_true, if_false]
    rfl
  · simp only [hb, if_true, Bool.not_true, Bool.false_eq_true, if_false, bind, pure, Option.bind_some, agree_flip] at hep h0 h1 h2 h3 ⊢
    rw [position_fmt_part2_eq ar _ p f hep h0 h1 h2 h3]
    simp only [displayPos, hb, if_true]
    rfl

example : DisplayOk Gen.startpos := by
  refine ⟨?_, ?_, ?_, ?_, ?_⟩ <;> decide

end Rawr.Sess

#print axioms Rawr.agree_colour_fmt
#print axioms Rawr.agree_startpos
#print axioms Rawr.agree_position_fmt
