import Rawr.Proofs.MakeMoveAbsV5
/-! Bridge (domain closure, clause E), specification level: after any legal move of a valid position the
en-passant state is consistent with a double push having just been played (`Spec.EpConsistent`). Only the
parent's `Spec.Valid` is used: an en-passant square appears only after a double push, its origin square is
the (now empty) source square, and putting the pawn back gives the parent's board, on which the side that did
not move was not in check (clause V.4 of the parent). -/
namespace Rawr.Br
open Rawr.Spec Rawr.SV

/-- undoing a quiet move on the board. -/
theorem undo_board (B : Board) (s t : Nat) (pc : Piece) (hs : B s = some pc) (ht : B t = none) :
    setSq (setSq (setSq (setSq B s none) t (some pc)) t none) s (some pc) = B := by
  funext j
  unfold setSq
  by_cases h1 : j = s
  · subst h1; simp [hs]
  · by_cases h2 : j = t
    · subst h2; simp [h1, ht]
    · simp [h1, h2]

/-- E after a pseudo-legal non-castling move. -/
theorem ep_normal_consistent {a : APos} {s t : Nat} {pr : Option Kind} {pc : Piece}
    (v : ValidFacts a) (nl : NormalLegal a s t pr pc) :
    EpConsistent (apply a (.normal s t pr)) = true := by
  have hB : (apply a (.normal s t pr)).board = newBoard a s t pr pc := apply_board nl.hpc
  have hW : (apply a (.normal s t pr)).whiteToMove = !a.whiteToMove := by rw [apply_normal nl.hpc]
  have hEp : (apply a (.normal s t pr)).ep = (if (pc.kind == .pawn && (rank t - rank s).natAbs == 2) = true
      then some (sq (file s) ((rank s + rank t) / 2)) else none) := by rw [apply_normal nl.hpc]
  unfold EpConsistent
  rw [hEp]
  split
  · rfl
  · next e he =>
    split at he
    · next hc =>
      cases he
      simp only [Bool.and_eq_true, beq_iff_eq] at hc
      obtain ⟨hk, h2⟩ := hc
      have hdc := pdir_cases pc.white
      have hb := file_rank_bounds s nl.hs
      rcases nl.pawnRank hk with h1 | ⟨h1, hf, hst, hp1, hemp, hpr⟩
      · exfalso; omega
      · have hmid : (rank s + rank t) / 2 = rank s + pdir pc.white := by omega
        have hob : onBoard (file s) (rank s + pdir pc.white) = true := by
          simp only [onBoard, Bool.and_eq_true, decide_eq_true_eq]; omega
        obtain ⟨cf, cr, clt⟩ := sq_coords hob
        have hw := nl.hw
        have hpcE : pc = ⟨a.whiteToMove, .pawn⟩ := by
          cases pc with
          | mk w kd => simp only [] at hk hw; rw [hk, hw]
        -- origin = s, pushed = t
        have horig : sq (file (sq (file s) ((rank s + rank t) / 2)))
            (if (!a.whiteToMove) = true then 6 else 1) = s := by
          rw [hmid, cf]
          have : (if (!a.whiteToMove) = true then (6 : Int) else 1) = rank s := by
            rw [← hw]
            cases hwh : pc.white <;> simp only [hwh, pstart, Bool.false_eq_true, if_false, if_true] at hst ⊢ <;>
              simp <;> omega
          rw [this]
          exact sq_file_rank s
        have hpush : sq (file (sq (file s) ((rank s + rank t) / 2)))
            (if (!a.whiteToMove) = true then 4 else 3) = t := by
          rw [hmid, cf, ← hf]
          have : (if (!a.whiteToMove) = true then (4 : Int) else 3) = rank t := by
            rw [← hw]
            cases hwh : pc.white <;> simp only [hwh, pdir, pstart, Bool.false_eq_true, if_false, if_true] at hst h1 ⊢ <;>
              simp <;> omega
          rw [this]
          exact sq_file_rank t
        simp only [hW, hB]
        rw [horig, hpush]
        have hnE : isEpB a s t pc = false := by
          unfold isEpB
          simp [hf]
        have hnb : newBoard a s t pr pc = setSq (setSq a.board s none) t (some pc) := by
          unfold newBoard
          rw [hnE, hpr]
          rfl
        have hns : newBoard a s t pr pc s = none := by
          rw [newBoard_other nl.hne, if_pos rfl]
        rw [hns, hnb, Bool.not_not]
        have hpc' : (⟨a.whiteToMove, .pawn⟩ : Piece) = pc := hpcE.symm
        rw [hpc', undo_board a.board s t pc nl.hpc hemp, v.notInCheck]
        rfl
    · cases he

/-- **E is established by every legal move** (of a position satisfying `Spec.Valid`). -/
theorem epConsistent_apply {a : APos} {mv : Move} (hv : Valid a = true) (hl : mv ∈ legalMoves a) :
    EpConsistent (apply a mv) = true := by
  rw [valid_iff] at hv
  rcases legal_cases hl with ⟨s, t, pr, pc, e, nl, _⟩ | ⟨ks, e, hc⟩
  · subst e
    exact ep_normal_consistent hv nl
  · subst e
    obtain ⟨rf, k, cf⟩ := castle_facts hc
    obtain ⟨_, _, _, hE, _, _⟩ := apply_castle_fields cf
    unfold EpConsistent
    rw [hE]

/-- E after a null move (the en-passant square is cleared). -/
theorem epConsistent_pass (a : APos) :
    EpConsistent { a with whiteToMove := !a.whiteToMove, ep := none, half := 0 } = true := rfl

end Rawr.Br
