import Rawr.Proofs.SpecSanityPerftDefs
/-! perft of the start position, depth 3, slice 08: the subtree of first move `.normal 10 18 none` (kernel-evaluated). -/
namespace Rawr.SpecS
open Rawr.Spec

theorem start3_08 : leaves (apply stdStart (.normal 10 18 none)) 2 = 420 := by decide +kernel

end Rawr.SpecS
