import Rawr.Model.Search
import Rawr.Proofs.Hashtable
import Rawr.Proofs.SearchHist
import Rawr.Proofs.SelSort
/-! Helper lemmas for C11 (children drawn by rule) — also used by C12. Everything here lives in the namespace
`Rawr.DM` (other helper files prove similarly named range lemmas in `Rawr`).

* `repCount` as an index condition on the history;
* a non-root call on a position drawn by rule, with no table hit and a quiet limit, as an equation
  (`negamax_drawn_child_eq`);
* the move loop when every child answers the same value (`nmLoop_const`), and a general loop-invariant
  principle for `nmLoop` (`nmLoop_invariant`);
* what a returning root call has done (`root_call_unfold`);
* quiescence values lie within the bounds of the static evaluation (`qsearch_range`). -/
namespace Rawr.DM

/-! ## the repetition test -/

theorem everySecond_cons (x : BB) (l : List BB) : everySecond (x :: l) = x :: everySecond l.tail := by
  cases l <;> rfl

/-- the entries kept by `everySecond` are those at the even indices. -/
theorem mem_everySecond (x : BB) (l : List BB) : x ∈ everySecond l ↔ ∃ i, l[2 * i]? = some x := by
  fun_induction everySecond l with
  | case1 => simp
  | case2 y =>
    constructor
    · intro h
      exact ⟨0, by simpa using (List.mem_singleton.1 h).symm⟩
    · rintro ⟨i, hi⟩
      cases i with
      | zero => simpa using hi.symm
      | succ i => simp at hi
  | case3 y z rest ih =>
    rw [List.mem_cons, ih]
    constructor
    · rintro (h | ⟨i, hi⟩)
      · exact ⟨0, by simp [h]⟩
      · exact ⟨i + 1, by simpa [Nat.mul_add] using hi⟩
    · rintro ⟨i, hi⟩
      cases i with
      | zero => left; simpa using hi.symm
      | succ i => right; exact ⟨i, by simpa [Nat.mul_add] using hi⟩

/-- (C11.2) with the child's own key on top of the history, the repetition test of `negamax` fires iff the
key occurs in the earlier history `h` at an odd index `1, 3, 5, …` (same side to move) below `halfmoves`. -/
theorem repCount_cons_ge_two (k : BB) (h : List BB) (hm : Int) :
    repCount (k :: h) hm k ≥ 2 ↔ ∃ i, 2 * i + 1 < hm.toNat ∧ h[2 * i + 1]? = some k := by
  unfold repCount
  rw [List.take_succ_cons, everySecond_cons, List.filter_cons_of_pos (by simp), List.length_cons]
  have h1 : ∀ l : List BB, (l.filter (· == k)).length + 1 ≥ 2 ↔ k ∈ l := by
    intro l
    rw [show (l.filter (· == k)).length + 1 ≥ 2 ↔ 0 < (l.filter (· == k)).length by omega,
      List.length_pos_iff_exists_mem]
    constructor
    · rintro ⟨x, hx⟩
      rw [List.mem_filter] at hx
      have := hx.2
      simp only [beq_iff_eq] at this
      rw [← this]; exact hx.1
    · intro hk
      exact ⟨k, List.mem_filter.2 ⟨hk, by simp⟩⟩
  rw [h1, mem_everySecond]
  refine exists_congr fun i => ?_
  rw [List.getElem?_tail, List.getElem?_take]
  by_cases hi : 2 * i + 1 < hm.toNat
  · simp [hi]
  · simp [hi]

/-! ## a child drawn by rule -/

/-- the stop poll does not look at `seldepth`. -/
theorem shouldStop_fst_seldepth (lim : Limit) (s : SState) (x : Int) :
    (shouldStop lim { s with seldepth := x }).1 = (shouldStop lim s).1 := by
  cases lim <;> rfl

/-- a non-root call on a position drawn by rule (no table hit, poll answers `false`): quiescence if the remaining
depth after the check extension is ≤ 0 (the rule draws are only looked at afterwards), else `DRAW_SCORE`. -/
theorem negamax_drawn_child_eq (lim : Limit) (fuel : Nat) (c : Position) (st : SState)
    (α β ply depth : Int) (cn : Bool)
    (hply : 1 ≤ ply)
    (hnohit : (st.tt.poll c.hash.toNat).map (·.hash) ≠ some c.hash)
    (hlim : (shouldStop lim st).1 = false)
    (hdraw : c.halfmoves ≥ 100 ∨ repCount st.hist c.halfmoves c.hash ≥ 2) :
    negamax lim (fuel + 1) c st α β ply depth cn =
      if (if c.inCheck then depth + 1 else depth) ≤ 0 then
        match qsearch qFuel c ⟨max st.seldepth ply, st.nodes⟩ α β ply with
        | none => none
        | some (v, q) => some (v, { st with seldepth := q.seldepth, nodes := q.nodes })
      else some (Gen.DRAW_SCORE, { st with seldepth := max st.seldepth ply, polls := st.polls + 1 }) := by
  obtain ⟨e, he⟩ := Table.poll_ne_none st.tt c.hash.toNat
  have hhit : (e.hash == c.hash) = false := by
    rw [he] at hnohit
    simpa using hnohit
  have hroot : (ply == 0) = false := by
    simp only [beq_eq_false_iff_ne, ne_eq]; omega
  unfold negamax
  simp only [he, hhit, hroot, Bool.false_and, Bool.false_eq_true, ↓reduceIte, Bool.not_false, Bool.true_and]
  have hd : (decide (c.halfmoves ≥ 100) || decide (repCount st.hist c.halfmoves c.hash ≥ 2)) = true := by
    simpa only [Bool.or_eq_true, decide_eq_true_eq] using hdraw
  generalize (if c.inCheck = true then depth + 1 else depth) = d'
  by_cases hd' : d' ≤ 0
  · rw [if_pos hd', if_pos hd']
    rfl
  · rw [if_neg hd', if_neg hd', shouldStop_fst_seldepth, hlim]
    simp only [Bool.false_eq_true, ↓reduceIte, shouldStop_snd]
    exact if_pos hd
/-- frame -/
def FrameAt (H : List BB) (T : Table TTEntry) (D : Int) (B : Option Mv) (s : SState) : Prop :=
  s.hist = H ∧ s.tt = T ∧ s.depth = D ∧ s.best = B

theorem lmr_depth_ge_one (depth : Int) (b : Bool) (hd : 2 ≤ depth) (hb : b = false → 3 ≤ depth) :
    1 ≤ depth - 1 - (if b = true then 0 else 1) := by
  cases b with
  | true => simp only [↓reduceIte]; omega
  | false => have := hb rfl; simp only [Bool.false_eq_true, ↓reduceIte]; omega

/-- the move loop when every child answers `-v` whatever the window (the later moves: `alpha = best = v`). -/
theorem nmLoop_const_tail (rec : Position → SState → Int → Int → Int → Int → Bool → Option (Int × SState))
    (p : Position) (beta ply depth : Int) (inCheck : Bool) (v : Int) (H : List BB) (T : Table TTEntry)
    (D : Int) (B : Option Mv) (hdepth : 2 ≤ depth) (hvb : v < beta) (ms : List Mv)
    (hrec : ∀ m ∈ ms, ∃ c, p.makemove m true = some c ∧
      ∀ s a b d cn, 1 ≤ d → FrameAt (c.hash :: H) T D B s →
        ∃ s', rec c s a b (ply + 1) d cn = some (-v, s') ∧ FrameAt (c.hash :: H) T D B s') :
    ∀ (idx : Nat) (st : SState) (bm : Option Mv), 1 ≤ idx → FrameAt H T D B st →
      ∃ st', nmLoop rec p beta ply depth inCheck ms idx st v v bm = some (st', v, v, bm) ∧
        FrameAt H T D B st' := by
  induction ms with
  | nil => intro idx st bm _ hst; exact ⟨st, rfl, hst⟩
  | cons m ms ih =>
    intro idx st bm hidx hst
    obtain ⟨c, hmk, hc⟩ := hrec m (List.mem_cons_self)
    have hidx0 : (idx == 0) = false := by
      simp only [beq_eq_false_iff_ne, ne_eq]; omega
    simp only [nmLoop, hmk, hidx0, Bool.false_eq_true, ↓reduceIte]
    generalize hb : (decide (idx < 4) || decide (depth < 3) || inCheck || p.isCapture m || m.promo == 4) = b
    have hd1 : 1 ≤ depth - 1 - (if b = true then 0 else 1) := by
      apply lmr_depth_ge_one _ _ hdepth
      intro hbf
      rw [hbf] at hb
      simp only [Bool.or_eq_false_iff, decide_eq_false_iff_not] at hb
      omega
    obtain ⟨s', hs', hf'⟩ := hc { st with nodes := st.nodes + 1, hist := c.hash :: st.hist } (-v - 1) (-v) _ true hd1
      ⟨by rw [hst.1], hst.2.1, hst.2.2.1, hst.2.2.2⟩
    simp only [hs', Int.neg_neg, Int.lt_irrefl, decide_false, Bool.false_and, Bool.false_eq_true, ↓reduceIte,
      gt_iff_lt, ge_iff_le, Int.not_le.2 hvb]
    exact ih (fun m hm => hrec m (List.mem_cons_of_mem _ hm)) _ _ _ (by omega)
      ⟨by show s'.hist.tail = H; rw [hf'.1]; rfl, hf'.2.1, hf'.2.2.1, hf'.2.2.2⟩


/-- the whole loop from its start: the first move sets `alpha = best = v`, nothing improves on it. -/
theorem nmLoop_const (rec : Position → SState → Int → Int → Int → Int → Bool → Option (Int × SState))
    (p : Position) (beta ply depth : Int) (inCheck : Bool) (v : Int) (H : List BB) (T : Table TTEntry)
    (D : Int) (B : Option Mv) (hdepth : 2 ≤ depth) (hvb : v < beta) (m : Mv) (ms : List Mv)
    (hrec : ∀ m' ∈ m :: ms, ∃ c, p.makemove m' true = some c ∧
      ∀ s a b d cn, 1 ≤ d → FrameAt (c.hash :: H) T D B s →
        ∃ s', rec c s a b (ply + 1) d cn = some (-v, s') ∧ FrameAt (c.hash :: H) T D B s')
    (st : SState) (alpha best : Int) (ha : alpha < v) (hbest : best < v) (hst : FrameAt H T D B st) :
    ∃ st', nmLoop rec p beta ply depth inCheck (m :: ms) 0 st alpha best none = some (st', v, v, some m) ∧
      FrameAt H T D B st' := by
  obtain ⟨c, hmk, hc⟩ := hrec m (List.mem_cons_self)
  obtain ⟨s', hs', hf'⟩ := hc { st with nodes := st.nodes + 1, hist := c.hash :: st.hist } (-beta) (-alpha)
    (depth - 1) true (by omega) ⟨by rw [hst.1], hst.2.1, hst.2.2.1, hst.2.2.2⟩
  simp only [nmLoop, hmk, beq_self_eq_true, ↓reduceIte, hs', Int.neg_neg, gt_iff_lt, hbest, ha, ge_iff_le,
    Int.not_le.2 hvb]
  exact nmLoop_const_tail rec p beta ply depth inCheck v H T D B hdepth hvb ms
    (fun m' hm' => hrec m' (List.mem_cons_of_mem _ hm')) 1 _ (some m) (Nat.le_refl 1)
    ⟨by show s'.hist.tail = H; rw [hf'.1]; rfl, hf'.2.1, hf'.2.2.1, hf'.2.2.2⟩


theorem sortNm_isSome (p : Position) (ms : List Mv) (tt : Option Mv) (h : ms.length ≤ Gen.orderBufNegamax) :
    ∃ l, sortNm p ms tt = some l := by
  unfold sortNm
  split
  · exact ⟨_, rfl⟩
  · rw [if_neg (by omega)]; exact ⟨_, rfl⟩

/-- a child of the root that the search scores as a draw by rule without looking at it: its key is on top of
the history `c.hash :: H`, and the table `T` has no entry under its key. -/
def DrawnChild (H : List BB) (T : Table TTEntry) (c : Position) : Prop :=
  (c.halfmoves ≥ 100 ∨ repCount (c.hash :: H) c.halfmoves c.hash ≥ 2) ∧
    (T.poll c.hash.toNat).map (·.hash) ≠ some c.hash

/-- limits whose poll answers `false` for every state whose `depth` field is `d`. -/
def QuietAt (lim : Limit) (d : Int) : Prop :=
  match lim with
  | .depth D => d ≤ D
  | .infinite => True
  | _ => False

theorem shouldStop_quiet {lim : Limit} {s : SState} (h : QuietAt lim s.depth) : (shouldStop lim s).1 = false := by
  cases lim with
  | depth D => simpa [shouldStop, QuietAt] using h
  | infinite => rfl
  | nodes n => exact h.elim
  | clock o => exact h.elim

/-- (C11.3) the root call when every child is a `DrawnChild` and the depth after the check extension is ≥ 2. -/
theorem root_all_children_drawn (lim : Limit) (fuel : Nat) (p : Position) (st : SState) (depth : Int)
    (hdepth : 2 ≤ (if p.inCheck then depth + 1 else depth))
    (hlim : QuietAt lim st.depth)
    (hlen : (legalMoves p).length ≤ Gen.orderBufNegamax)
    (hne : legalMoves p ≠ [])
    (hch : ∀ m ∈ legalMoves p, ∃ c, p.makemove m true = some c ∧ DrawnChild st.hist st.tt c) :
    ∃ m₀ st', m₀ ∈ legalMoves p ∧
      negamax lim (fuel + 2) p st (-Gen.INF) Gen.INF 0 depth false = some (-Gen.DRAW_SCORE, st') ∧
      st'.best = some m₀ ∧ st'.hist = st.hist ∧ st'.depth = st.depth ∧
      st.tt.add p.hash.toNat ⟨p.hash, m₀, -Gen.DRAW_SCORE, if p.inCheck then depth + 1 else depth, 0⟩ =
        some st'.tt := by
  obtain ⟨e, he⟩ := Table.poll_ne_none st.tt p.hash.toNat
  unfold negamax
  simp only [he, beq_self_eq_true, Bool.not_true, Bool.and_false, Bool.false_and, Bool.false_eq_true, ↓reduceIte,
    Bool.true_and]
  generalize hd' : (if p.inCheck = true then depth + 1 else depth) = d' at hdepth ⊢
  have hpv : (Gen.INF != -Gen.INF + 1) = true := by decide
  -- the stop poll (skipped in iteration 1): answers `false`, touches `polls` only
  generalize hpr : (ite ((!decide (st.depth ≤ 1)) = true) (shouldStop lim _) (false, _) : Bool × SState) = pr
  have hpr1 : pr.1 = false := by
    rw [← hpr]; split
    · rw [shouldStop_fst_seldepth]; exact shouldStop_quiet hlim
    · rfl
  have hpr2 : FrameAt st.hist st.tt st.depth st.best pr.2 := by
    rw [← hpr]; split <;> exact ⟨rfl, rfl, rfl, rfl⟩
  clear hpr
  obtain ⟨stop, s1⟩ := pr
  simp only at hpr1 hpr2
  subst hpr1
  simp only [if_neg (show ¬ d' ≤ 0 by omega), hpv, Bool.not_true, Bool.false_and, Bool.false_eq_true, ↓reduceIte]
  -- move ordering
  obtain ⟨moves, hsort⟩ := sortNm_isSome p (legalMoves p) (if (e.hash == p.hash) = true then some e.mv else none) hlen
  have hperm := sortNm_perm p _ _ _ hsort
  simp only [hsort]
  obtain ⟨m₀, ms, rfl⟩ : ∃ m₀ ms, moves = m₀ :: ms := by
    cases moves with
    | nil => exact absurd (hperm.symm.eq_nil) hne
    | cons a l => exact ⟨a, l, rfl⟩
  -- the move loop
  obtain ⟨s2, hloop, hs2⟩ := nmLoop_const (negamax lim (fuel + 1)) p Gen.INF 0 d' p.inCheck (-Gen.DRAW_SCORE)
    st.hist st.tt st.depth st.best hdepth (by decide) m₀ ms
    (by
      intro m' hm'
      obtain ⟨c, hmk, hdr, hnh⟩ := hch m' (hperm.mem_iff.1 hm')
      refine ⟨c, hmk, ?_⟩
      intro s a b d cn hd hs
      rw [Int.neg_neg, negamax_drawn_child_eq lim fuel c s a b (0 + 1) d cn (by omega) (by rw [hs.2.1]; exact hnh)
        (shouldStop_quiet (by rw [hs.2.2.1]; exact hlim)) (by rw [hs.1]; exact hdr),
        if_neg (by split <;> omega)]
      exact ⟨_, rfl, hs⟩)
    s1 (-Gen.INF) (-Gen.INF) (by decide) (by decide) hpr2
  simp only [hloop]
  obtain ⟨tt', htt'⟩ := Table.add_ne_none s2.tt p.hash.toNat
    ⟨p.hash, m₀, -Gen.DRAW_SCORE, d', if -Gen.DRAW_SCORE ≤ -Gen.INF then 2 else if -Gen.DRAW_SCORE ≥ Gen.INF then 1 else 0⟩
  simp only [htt']
  refine ⟨m₀, _, hperm.mem_iff.1 List.mem_cons_self, rfl, rfl, hs2.1, hs2.2.2.1, ?_⟩
  rw [← hs2.2.1]
  exact htt'


/-- what a returning root call (`ply = 0`, full window) with a quiet limit has done: ordered the moves, run the
move loop from `(-INF, -INF, none)`, and stored its own entry if a move was found. -/
theorem root_call_unfold (lim : Limit) (fuel : Nat) (p : Position) (st : SState) (depth v : Int) (st' : SState)
    (hdepth : 1 ≤ (if p.inCheck then depth + 1 else depth))
    (hlim : QuietAt lim st.depth)
    (h : negamax lim (fuel + 1) p st (-Gen.INF) Gen.INF 0 depth false = some (v, st')) :
    ∃ s1 ttm moves s2 a2 best bm, FrameAt st.hist st.tt st.depth st.best s1 ∧
      sortNm p (legalMoves p) ttm = some moves ∧
      nmLoop (negamax lim fuel) p Gen.INF 0 (if p.inCheck then depth + 1 else depth) p.inCheck moves 0 s1
        (-Gen.INF) (-Gen.INF) none = some (s2, a2, best, bm) ∧
      match bm with
      | none => st' = s2 ∧ v = (if p.inCheck then -Gen.MATE_SCORE + 0 else Gen.DRAW_SCORE)
      | some m => v = best ∧ ∃ fl tt', s2.tt.add p.hash.toNat
          ⟨p.hash, m, best, if p.inCheck then depth + 1 else depth, fl⟩ = some tt' ∧
          st' = { s2 with tt := tt', best := some m } := by
  obtain ⟨e, he⟩ := Table.poll_ne_none st.tt p.hash.toNat
  unfold negamax at h
  simp only [he, beq_self_eq_true, Bool.not_true, Bool.and_false, Bool.false_and, Bool.false_eq_true, ↓reduceIte,
    Bool.true_and] at h
  generalize hd' : (if p.inCheck = true then depth + 1 else depth) = d' at hdepth h ⊢
  have hpv : (Gen.INF != -Gen.INF + 1) = true := by decide
  generalize hpr : (ite ((!decide (st.depth ≤ 1)) = true) (shouldStop lim _) (false, _) : Bool × SState) = pr at h
  have hpr1 : pr.1 = false := by
    rw [← hpr]; split
    · rw [shouldStop_fst_seldepth]; exact shouldStop_quiet hlim
    · rfl
  have hpr2 : FrameAt st.hist st.tt st.depth st.best pr.2 := by
    rw [← hpr]; split <;> exact ⟨rfl, rfl, rfl, rfl⟩
  clear hpr
  obtain ⟨stop, s1⟩ := pr
  simp only at hpr1 hpr2
  subst hpr1
  simp only [if_neg (show ¬ d' ≤ 0 by omega), hpv, Bool.not_true, Bool.false_and, Bool.false_eq_true,
    ↓reduceIte] at h
  split at h
  · simp at h
  rename_i moves hsort
  split at h
  · simp at h
  rename_i s2 a2 best bm hloop
  refine ⟨s1, _, moves, s2, a2, best, bm, hpr2, hsort, hloop, ?_⟩
  split at h
  · simp only [Option.some.injEq, Prod.mk.injEq] at h
    exact ⟨h.2.symm, h.1.symm⟩
  · split at h
    · simp at h
    rename_i tt' hadd
    simp only [Option.some.injEq, Prod.mk.injEq] at h
    exact ⟨h.1.symm, _, tt', hadd, h.2.symm⟩

/-- remaining depth handed to a child by the move loop: `depth - 1`, or one less under late-move reduction
(which needs `depth ≥ 3`). -/
def ChildDepth (depth d : Int) : Prop := d = depth - 1 ∨ (d = depth - 2 ∧ 3 ≤ depth)

theorem childDepth_lmr (depth : Int) (b : Bool) (hb : b = false → 3 ≤ depth) :
    ChildDepth depth (depth - 1 - (if b = true then 0 else 1)) := by
  cases b with
  | true => left; simp only [↓reduceIte]; omega
  | false => right; have := hb rfl; simp only [Bool.false_eq_true, ↓reduceIte]; omega

/-- Loop-invariant principle for the move loop of `negamax`.
`S` holds of the state between two moves, `Sp c` of the state while child `c` is being searched (its key
pushed); `Q m score` is what one learns about the score of move `m`; `R done alpha best bm` is the invariant
of the loop variables after the moves `done` have been tried. -/
theorem nmLoop_invariant
    (rec : Position → SState → Int → Int → Int → Int → Bool → Option (Int × SState))
    (p : Position) (beta ply depth : Int) (inCheck : Bool)
    (S : SState → Prop) (Sp : Position → SState → Prop) (Q : Mv → Int → Prop)
    (R : List Mv → Int → Int → Option Mv → Prop) (all : List Mv)
    (hpush : ∀ st c, S st → Sp c ⟨c.hash :: st.hist, st.tt, st.depth, st.seldepth, st.nodes + 1, st.best, st.polls⟩)
    (hpop : ∀ c s, Sp c s → S { s with hist := s.hist.tail })
    (hcall : ∀ m ∈ all, ∀ c, p.makemove m true = some c → ∀ s a b d v s', Sp c s → ChildDepth depth d →
      rec c s a b (ply + 1) d true = some (v, s') → Sp c s' ∧ Q m (-v))
    (hstep : ∀ done m alpha best bm score, m ∈ all → R done alpha best bm → Q m score →
      R (done ++ [m]) (if score > alpha then score else alpha) (if score > best then score else best)
        (if score > best then some m else bm)) :
    ∀ (ms done : List Mv) (idx : Nat) (st : SState) (alpha best : Int) (bm : Option Mv)
      (st' : SState) (a' b' : Int) (bm' : Option Mv),
      (∀ m ∈ ms, m ∈ all) → S st → R done alpha best bm →
      nmLoop rec p beta ply depth inCheck ms idx st alpha best bm = some (st', a', b', bm') →
      ∃ done' rest, ms = done' ++ rest ∧ S st' ∧ R (done ++ done') a' b' bm' ∧ (rest = [] ∨ a' ≥ beta) ∧
        (ms ≠ [] → done' ≠ []) := by
  intro ms
  induction ms with
  | nil =>
    intro done idx st alpha best bm st' a' b' bm' _ hS hR h
    simp only [nmLoop, Option.some.injEq, Prod.mk.injEq] at h
    obtain ⟨rfl, rfl, rfl, rfl⟩ := h
    exact ⟨[], [], rfl, hS, by rwa [List.append_nil], Or.inl rfl, fun h => absurd rfl h⟩
  | cons m ms ih =>
    intro done idx st alpha best bm st' a' b' bm' hall hS hR h
    have hm : m ∈ all := hall m List.mem_cons_self
    simp only [nmLoop] at h
    split at h
    · simp at h
    rename_i c hmk
    have hp0 := hpush st c hS
    generalize hres : (ite (_ = true) _ _ : Option (Int × SState)) = res at h
    have hresP : ∀ score s1, res = some (score, s1) → Sp c s1 ∧ Q m score := by
      intro score s1 h1
      rw [h1] at hres
      rcases ite_cases hres with ⟨_, hr⟩ | ⟨_, hr⟩
      · split at hr
        · simp at hr
        · rename_i sc s2 hcall1
          have h2 := hcall m hm c hmk _ _ _ _ _ _ hp0 (Or.inl rfl) hcall1
          simp only [Option.some.injEq, Prod.mk.injEq] at hr
          rw [← hr.1, ← hr.2]; exact h2
      · split at hr
        · simp at hr
        · rename_i sc s2 hcall1
          have h2 := hcall m hm c hmk _ _ _ _ _ _ hp0 (childDepth_lmr depth _ (by
            intro hbf
            simp only [Bool.or_eq_false_iff, decide_eq_false_iff_not] at hbf
            omega)) hcall1
          ite_split hr
          · split at hr
            · simp at hr
            · rename_i sc3 s3 hcall3
              have h3 := hcall m hm c hmk _ _ _ _ _ _ h2.1 (Or.inl rfl) hcall3
              simp only [Option.some.injEq, Prod.mk.injEq] at hr
              rw [← hr.1, ← hr.2]; exact h3
          · simp only [Option.some.injEq, Prod.mk.injEq] at hr
            rw [← hr.1, ← hr.2]; exact h2
    clear hres
    split at h
    · simp at h
    rename_i score s1
    obtain ⟨hs1, hq⟩ := hresP _ _ rfl
    have hS1 := hpop c s1 hs1
    have hR1 := hstep done m alpha best bm score hm hR hq
    by_cases hsb : score > best
    · simp only [hsb, ↓reduceIte] at h hR1
      ite_split h
      · rename_i hcut
        simp only [Option.some.injEq, Prod.mk.injEq] at h
        obtain ⟨rfl, rfl, rfl, rfl⟩ := h
        exact ⟨[m], ms, rfl, hS1, hR1, Or.inr hcut, fun _ => List.cons_ne_nil _ _⟩
      · obtain ⟨done', rest, rfl, h1, h2, h3, _⟩ := ih (done ++ [m]) _ _ _ _ _ _ _ _ _
          (fun m' hm' => hall m' (List.mem_cons_of_mem _ hm')) hS1 hR1 h
        exact ⟨m :: done', rest, rfl, h1, by simpa using h2, h3, fun _ => List.cons_ne_nil _ _⟩
    · simp only [hsb, ↓reduceIte] at h hR1
      ite_split h
      · rename_i hcut
        simp only [Option.some.injEq, Prod.mk.injEq] at h
        obtain ⟨rfl, rfl, rfl, rfl⟩ := h
        exact ⟨[m], ms, rfl, hS1, hR1, Or.inr hcut, fun _ => List.cons_ne_nil _ _⟩
      · obtain ⟨done', rest, rfl, h1, h2, h3, _⟩ := ih (done ++ [m]) _ _ _ _ _ _ _ _ _
          (fun m' hm' => hall m' (List.mem_cons_of_mem _ hm')) hS1 hR1 h
        exact ⟨m :: done', rest, rfl, h1, by simpa using h2, h3, fun _ => List.cons_ne_nil _ _⟩
/-- the static evaluation is within `[-B, B]` on the capture tree below `p`, to depth `fuel`. -/
def QEvalOk (B : Int) : Nat → Position → Prop
  | 0, _ => True
  | f + 1, p => (-B ≤ eval p ∧ eval p ≤ B) ∧
      ∀ m ∈ legalCaptures p, ∀ np, p.makemove m false = some np → QEvalOk B f np

theorem QEvalOk_of_forall (B : Int) (h : ∀ q, -B ≤ eval q ∧ eval q ≤ B) : ∀ f p, QEvalOk B f p
  | 0, _ => trivial
  | f + 1, p => ⟨h p, fun _ _ np _ => QEvalOk_of_forall B h f np⟩

theorem qloop_range (B : Int) (rec : Position → QState → Int → Int → Int → Option (Int × QState))
    (p : Position) (beta ply : Int) (ms : List Mv)
    (hrec : ∀ m ∈ ms, ∀ np, p.makemove m false = some np → ∀ s a b pl v s',
      rec np s a b pl = some (v, s') → -B ≤ v ∧ v ≤ B) :
    ∀ (st : QState) (alpha best v : Int) (st' : QState), -B ≤ best ∧ best ≤ B →
      qloop rec p beta ply ms st alpha best = some (v, st') → -B ≤ v ∧ v ≤ B := by
  induction ms with
  | nil =>
    intro st alpha best v st' hb h
    simp only [qloop, Option.some.injEq, Prod.mk.injEq] at h
    rw [← h.1]; exact hb
  | cons m ms ih =>
    intro st alpha best v st' hb h
    simp only [qloop] at h
    split at h
    · simp at h
    rename_i np hmk
    split at h
    · simp at h
    rename_i sc s1 hcall
    have hsc := hrec m List.mem_cons_self np hmk _ _ _ _ _ _ hcall
    have hb' : -B ≤ (if -sc > best then -sc else best) ∧ (if -sc > best then -sc else best) ≤ B := by
      split <;> omega
    ite_split h
    · simp only [Option.some.injEq, Prod.mk.injEq] at h
      rw [← h.1]; exact hb'
    · exact ih (fun m' hm' => hrec m' (List.mem_cons_of_mem _ hm')) _ _ _ _ _ hb' h

/-- quiescence values are (negated) static evaluations: they lie in `[-B, B]`. -/
theorem qsearch_range (B : Int) : ∀ (fuel : Nat) (p : Position) (st : QState) (α β ply v : Int) (st' : QState),
    QEvalOk B fuel p → qsearch fuel p st α β ply = some (v, st') → -B ≤ v ∧ v ≤ B := by
  intro fuel
  induction fuel with
  | zero => intro p st α β ply v st' _ h; simp [qsearch] at h
  | succ fuel ih =>
    intro p st α β ply v st' hok h
    obtain ⟨hev, hch⟩ := hok
    simp only [qsearch] at h
    ite_split h
    · simp only [Option.some.injEq, Prod.mk.injEq] at h
      rw [← h.1]; exact hev
    · split at h
      · simp at h
      rename_i moves hsort
      have hperm := sortQs_perm p _ _ hsort
      exact qloop_range B (qsearch fuel) p β ply moves
        (fun m hm np hmk s a b pl v s' hc => ih np s a b pl v s' (hch m (hperm.mem_iff.1 hm) np hmk) hc)
        _ _ _ _ _ hev h


/-- a drawn child answers below `INF` (so that the root records its move), and touches nothing but counters. -/
theorem drawn_child_frame (lim : Limit) (fuel : Nat) (c : Position) (s : SState) (a b ply d : Int) (cn : Bool)
    (Bd : Int) (H : List BB) (T : Table TTEntry) (D : Int) (B : Option Mv)
    (hply : 1 ≤ ply) (hlim : QuietAt lim D) (hdr : DrawnChild H T c) (hq : QEvalOk Bd qFuel c)
    (hs : FrameAt (c.hash :: H) T D B s) (v : Int) (s' : SState)
    (h : negamax lim (fuel + 1) c s a b ply d cn = some (v, s')) :
    FrameAt (c.hash :: H) T D B s' ∧ (v = Gen.DRAW_SCORE ∨ (-Bd ≤ v ∧ v ≤ Bd)) := by
  rw [negamax_drawn_child_eq lim fuel c s a b ply d cn hply (by rw [hs.2.1]; exact hdr.2)
    (shouldStop_quiet (by rw [hs.2.2.1]; exact hlim)) (by rw [hs.1]; exact hdr.1)] at h
  ite_split h
  · split at h
    · simp at h
    rename_i v1 q hqs
    simp only [Option.some.injEq, Prod.mk.injEq] at h
    rw [← h.1, ← h.2]
    exact ⟨hs, Or.inr (qsearch_range Bd _ _ _ _ _ _ _ _ hq hqs)⟩
  · simp only [Option.some.injEq, Prod.mk.injEq] at h
    rw [← h.1, ← h.2]
    exact ⟨hs, Or.inl rfl⟩

/-- (towards C11.4, iteration 1) a returning root call all of whose children are drawn by rule has recorded a
legal best move, and its only table write is its own entry — also when the children are searched with remaining
depth 0, i.e. go to quiescence. -/
theorem root_drawn_children_frame (lim : Limit) (fuel : Nat) (p : Position) (st : SState) (depth : Int) (Bd : Int)
    (hBd : Bd < Gen.INF)
    (hdepth : 1 ≤ (if p.inCheck then depth + 1 else depth))
    (hlim : QuietAt lim st.depth)
    (hne : legalMoves p ≠ [])
    (hch : ∀ m ∈ legalMoves p, ∀ c, p.makemove m true = some c → DrawnChild st.hist st.tt c ∧ QEvalOk Bd qFuel c)
    (v : Int) (st' : SState)
    (h : negamax lim (fuel + 2) p st (-Gen.INF) Gen.INF 0 depth false = some (v, st')) :
    ∃ m₀ e, m₀ ∈ legalMoves p ∧ st'.best = some m₀ ∧ st'.hist = st.hist ∧ st'.depth = st.depth ∧
      e.hash = p.hash ∧ st.tt.add p.hash.toNat e = some st'.tt := by
  obtain ⟨s1, ttm, moves, s2, a2, best, bm, hs1, hsort, hloop, hfin⟩ :=
    root_call_unfold lim (fuel + 1) p st depth v st' hdepth hlim h
  have hperm := sortNm_perm p _ _ _ hsort
  obtain ⟨done', rest, hsplit, hs2, hR, hend, _⟩ := nmLoop_invariant (negamax lim (fuel + 1)) p Gen.INF 0 _ p.inCheck
    (FrameAt st.hist st.tt st.depth st.best)
    (fun c => FrameAt (c.hash :: st.hist) st.tt st.depth st.best)
    (fun _ score => score > -Gen.INF)
    (fun done alpha best bm => (done = [] ∧ bm = none ∧ best = -Gen.INF ∧ alpha = -Gen.INF) ∨ ∃ m ∈ done, bm = some m)
    moves
    (fun s c hs => ⟨by show c.hash :: s.hist = _; rw [hs.1], hs.2.1, hs.2.2.1, hs.2.2.2⟩)
    (fun c s hs => ⟨by show s.hist.tail = _; rw [hs.1]; rfl, hs.2.1, hs.2.2.1, hs.2.2.2⟩)
    (by
      intro m hm c hmk s a b d v1 s1' hs _ hc
      obtain ⟨hdr, hq⟩ := hch m (hperm.mem_iff.1 hm) c hmk
      obtain ⟨hf, hv⟩ := drawn_child_frame lim fuel c s a b (0 + 1) d true Bd _ _ _ _ (by omega) hlim hdr hq hs v1 s1' hc
      refine ⟨hf, ?_⟩
      rcases hv with hv | hv
      · rw [hv]; decide
      · show -v1 > -Gen.INF
        omega)
    (by
      intro done m alpha best bm score _ hR hQ
      rcases hR with ⟨rfl, rfl, rfl, rfl⟩ | ⟨m', hm', rfl⟩
      · right; exact ⟨m, by simp, by rw [if_pos hQ]⟩
      · right
        by_cases hsb : score > best
        · exact ⟨m, by simp, by rw [if_pos hsb]⟩
        · exact ⟨m', by simp [hm'], by rw [if_neg hsb]⟩)
    moves [] 0 s1 (-Gen.INF) (-Gen.INF) none s2 a2 best bm (fun _ hm => hm) hs1 (Or.inl ⟨rfl, rfl, rfl, rfl⟩) hloop
  rw [List.nil_append] at hR
  rcases hR with ⟨rfl, _, _, ha2⟩ | ⟨m₀, hm₀, rfl⟩
  · exfalso
    rw [List.nil_append] at hsplit
    rcases hend with rfl | hge
    · rw [hsplit] at hperm
      exact hne hperm.symm.eq_nil
    · rw [ha2] at hge; revert hge; decide
  · obtain ⟨_, fl, tt', hadd, rfl⟩ := hfin
    refine ⟨m₀, ⟨p.hash, m₀, best, if p.inCheck then depth + 1 else depth, fl⟩, hperm.mem_iff.1 (by rw [hsplit]; exact List.mem_append_left _ hm₀), rfl,
      hs2.1, hs2.2.2.1, rfl, ?_⟩
    rw [← hs2.2.1]; exact hadd



/-! ## the table, the stop after the last iteration, the iterations of the driver -/

theorem poll_add_cases {α : Type} [Inhabited α] [DecidableEq α] {t t' : Table α} {key : Nat} {e : α}
    (h : t.add key e = some t') (k : Nat) : t'.poll k = some e ∨ t'.poll k = t.poll k := by
  rw [Table.poll_eq, Table.poll_eq, Table.len_add h, Table.slot_add h]
  split
  · exact Or.inl rfl
  · exact Or.inr rfl

/-- the table holds no entry under the key of any child of `p`. -/
def NoChildHit (p : Position) (T : Table TTEntry) : Prop :=
  ∀ m ∈ legalMoves p, ∀ c, p.makemove m true = some c → (T.poll c.hash.toNat).map (·.hash) ≠ some c.hash

/-- the root's own store keeps `NoChildHit` as long as no child has the root's key. -/
theorem NoChildHit.add {p : Position} {T T' : Table TTEntry} {e : TTEntry} (h : NoChildHit p T)
    (hk : ∀ m ∈ legalMoves p, ∀ c, p.makemove m true = some c → c.hash ≠ e.hash)
    (hadd : T.add p.hash.toNat e = some T') : NoChildHit p T' := by
  intro m hm c hmk
  rcases poll_add_cases hadd c.hash.toNat with h1 | h1
  · rw [h1]
    simp only [Option.map_some, ne_eq, Option.some.injEq]
    exact fun h' => hk m hm c hmk h'.symm
  · rw [h1]; exact h m hm c hmk

/-- a freshly allocated table has no hit on any non-zero key. -/
theorem poll_new_hash (mb : Nat) (k : Nat) :
    ((Table.new mb Gen.ttEntrySize : Table TTEntry).poll k).map (·.hash) = some 0#64 := by
  rw [Table.poll_eq, Table.slot_new]; rfl

/-- the root call of an iteration beyond the depth limit stops at once (from iteration 2 on). -/
theorem root_stops (D : Int) (fuel : Nat) (p : Position) (st : SState) (depth : Int)
    (hdepth : 1 ≤ (if p.inCheck then depth + 1 else depth)) (hD : D < st.depth) (h2 : 2 ≤ st.depth) :
    negamax (.depth D) (fuel + 1) p st (-Gen.INF) Gen.INF 0 depth false =
      some (0, { st with seldepth := max st.seldepth 0, polls := st.polls + 1 }) := by
  obtain ⟨e, he⟩ := Table.poll_ne_none st.tt p.hash.toNat
  unfold negamax
  simp only [he, beq_self_eq_true, Bool.not_true, Bool.and_false, Bool.false_and, Bool.false_eq_true, ↓reduceIte,
    Bool.true_and]
  generalize (if p.inCheck = true then depth + 1 else depth) = d' at hdepth ⊢
  have h1 : decide (st.depth ≤ 1) = false := by simp only [decide_eq_false_iff_not]; omega
  have h3 : decide (st.depth > D) = true := by simp only [decide_eq_true_eq]; omega
  simp only [if_neg (show ¬ d' ≤ 0 by omega), h1, Bool.not_false, ↓reduceIte, shouldStop, h3]


/-- the hypotheses of C11 on the root `p` with game history `H` (table-independent part):
there is a legal move, the ordering buffer suffices, every legal move can be made and leads to a position `c`
that is drawn by rule when its key is pushed on `H`, whose key differs from the root's, and on whose capture
tree the evaluation is within `[-Bd, Bd]` (needed for iteration 1 only, where children go to quiescence). -/
structure AllChildrenDrawn (Bd : Int) (p : Position) (H : List BB) : Prop where
  ne : legalMoves p ≠ []
  len : (legalMoves p).length ≤ Gen.orderBufNegamax
  child : ∀ m ∈ legalMoves p, ∃ c, p.makemove m true = some c ∧
    (c.halfmoves ≥ 100 ∨ repCount (c.hash :: H) c.halfmoves c.hash ≥ 2) ∧ c.hash ≠ p.hash ∧ QEvalOk Bd qFuel c

theorem AllChildrenDrawn.drawn {Bd : Int} {p : Position} {H : List BB} (h : AllChildrenDrawn Bd p H)
    {T : Table TTEntry} (hT : NoChildHit p T) :
    ∀ m ∈ legalMoves p, ∃ c, p.makemove m true = some c ∧ DrawnChild H T c := by
  intro m hm
  obtain ⟨c, hmk, hdr, _, _⟩ := h.child m hm
  exact ⟨c, hmk, hdr, hT m hm c hmk⟩

/-- iterations `k = 2, 3, …` of the driver under the hypotheses of C11: each reports `-DRAW_SCORE`, the
iteration after the depth limit stops at once. -/
theorem rootIter_drawn (D : Int) (hD : D < 128) (fuel : Nat) (p : Position) (H : List BB) (Bd : Int)
    (hyp : AllChildrenDrawn Bd p H) :
    ∀ (n : Nat) (k : Int) (st : SState) (bm : Mv) (infos : List InfoRec),
      2 ≤ k → k ≤ D + 1 → (n : Int) + k = 129 →
      st.hist = H → NoChildHit p st.tt → st.best = some bm → bm ∈ legalMoves p →
      ∃ res new, rootIter (.depth D) (fuel + 2) p n k st (some bm) infos = some res ∧
        (∃ m ∈ legalMoves p, res.best = some m) ∧ res.infos = infos.reverse ++ new ∧
        new.map (·.depth) = (List.range (D + 1 - k).toNat).map (fun i : Nat => k + (i : Int)) ∧
        ∀ r ∈ new, r.score = -Gen.DRAW_SCORE := by
  intro n
  induction n with
  | zero =>
    intro k st bm infos h2 hk hn
    omega
  | succ n ih =>
    intro k st bm infos h2 hk hn hH hT hbest hbm
    by_cases hmax : k ≥ Gen.MAX_DEPTH
    · simp only [rootIter, if_pos hmax]
      have hmax' : k ≥ 128 := hmax
      refine ⟨_, [], rfl, ⟨bm, hbm, rfl⟩, by rw [List.append_nil], ?_, by simp⟩
      rw [show (D + 1 - k).toNat = 0 by omega]; rfl
    have hmax' : ¬ k ≥ 128 := hmax
    simp only [rootIter, if_neg hmax]
    by_cases hkD : k ≤ D
    · -- a full iteration
      obtain ⟨m₀, st', hm₀, hcall, hb', hh', hd', hadd⟩ := root_all_children_drawn (.depth D) fuel p
        { st with depth := k } k (by split <;> omega) hkD hyp.len hyp.ne (by rw [hH]; exact hyp.drawn hT)
      simp only [hcall, hb', if_pos (show k > 1 by omega), shouldStop, hd',
        decide_eq_false (show ¬ k > D by omega), Bool.false_eq_true, ↓reduceIte]
      obtain ⟨res, new, hres, hbest', hinfos, hdepths, hscores⟩ := ih (k + 1)
        ⟨st'.hist, st'.tt, k, st'.seldepth, st'.nodes, some m₀, st'.polls + 1⟩ m₀
        (⟨k, st'.seldepth, st'.nodes, -Gen.DRAW_SCORE, st'.tt.hashfull, [m₀]⟩ :: infos)
        (by omega) (by omega) (by omega) (by rw [← hH]; exact hh')
        (hT.add (fun m hm c hmk => by
          obtain ⟨c', hmk', _, hne, _⟩ := hyp.child m hm
          rw [hmk] at hmk'; cases hmk'; exact hne) hadd) rfl hm₀
      refine ⟨res, ⟨k, st'.seldepth, st'.nodes, -Gen.DRAW_SCORE, st'.tt.hashfull, [m₀]⟩ :: new, hres, hbest', ?_, ?_, ?_⟩
      · rw [hinfos, List.reverse_cons, List.append_assoc]; rfl
      · have e1 : (D + 1 - k).toNat = (D + 1 - (k + 1)).toNat + 1 := by omega
        rw [e1, List.range_succ_eq_map, List.map_cons, List.map_cons, hdepths, List.map_map]
        simp only [Int.natCast_zero, Int.add_zero, List.cons.injEq, true_and]
        apply List.map_congr_left
        intro i _
        simp only [Function.comp, Nat.succ_eq_add_one, Int.natCast_add, Int.natCast_one]
        omega
      · intro r hr
        rcases List.mem_cons.1 hr with rfl | hr
        · rfl
        · exact hscores r hr
    · -- the iteration after the limit: stopped
      have hkD' : k = D + 1 := by omega
      rw [root_stops D (fuel + 1) p { st with depth := k } k (by split <;> omega) (by show D < k; omega)
        (by show 2 ≤ k; omega)]
      simp only [hbest, if_pos (show k > 1 by omega), shouldStop, decide_eq_true (show k > D by omega), ↓reduceIte]
      refine ⟨_, [], rfl, ⟨bm, hbm, rfl⟩, by rw [List.append_nil], ?_, by simp⟩
      rw [show (D + 1 - k).toNat = 0 by omega]; rfl

/-- a freshly allocated table: `NoChildHit` holds as soon as no child has key 0. -/
theorem NoChildHit_new (p : Position) (mb : Nat)
    (h0 : ∀ m ∈ legalMoves p, ∀ c, p.makemove m true = some c → c.hash ≠ 0#64) :
    NoChildHit p (Table.new mb Gen.ttEntrySize) := by
  intro m hm c hmk
  rw [poll_new_hash]
  simp only [ne_eq, Option.some.injEq]
  exact fun h' => h0 m hm c hmk h'.symm


/-- executable form of `QEvalOk`. -/
def qEvalOkB (B : Int) : Nat → Position → Bool
  | 0, _ => true
  | f + 1, p => (decide (-B ≤ eval p) && decide (eval p ≤ B)) &&
      (legalCaptures p).all fun m =>
        match p.makemove m false with
        | none => true
        | some np => qEvalOkB B f np

theorem qEvalOkB_iff (B : Int) (f : Nat) (p : Position) : qEvalOkB B f p = true ↔ QEvalOk B f p := by
  induction f generalizing p with
  | zero => simp only [qEvalOkB, QEvalOk]
  | succ f ih =>
    simp only [qEvalOkB, QEvalOk, Bool.and_eq_true, decide_eq_true_eq, List.all_eq_true]
    refine and_congr_right fun _ => forall_congr' fun m => forall_congr' fun _ => ?_
    cases p.makemove m false with
    | none => exact ⟨fun _ np h => (by cases h), fun _ => rfl⟩
    | some np =>
      simp only [Option.some.injEq]
      exact ⟨fun h np' e => e ▸ (ih np).mp h, fun h => (ih np).mpr (h np rfl)⟩

end Rawr.DM
