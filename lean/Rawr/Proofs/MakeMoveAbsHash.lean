import Rawr.Proofs.HashStages
/-! C02: the `UPDATE_HASH` flag of `makemove` only affects the stored key (no hypotheses). -/
namespace Rawr.MM
open Rawr Rawr.Position Rawr.ZH

/-- store another key. -/
def wh (s : Position) (h : BB) : Position := { s with hash := h }

theorem setPiece_wh (s : Position) (i : Nat) (b h) : (wh s h).setPiece i b = wh (s.setPiece i b) h := by
  unfold Position.setPiece
  split <;> rfl

theorem piece_wh (s : Position) (i : Nat) (h) : (wh s h).piece i = s.piece i := by
  unfold Position.piece
  split <;> rfl

theorem relocate_wh (p : Position) (m : Mv) (i : Nat) (h h' : BB) :
    stRelocate p m i h = wh (stRelocate p m i h') h := by
  unfold stRelocate
  simp only []
  have e : ({ p with hash := h, c0 := p.c0 ^^^ (bit m.src ||| bit m.dst), halfmoves := p.halfmoves + 1 } : Position)
      = wh { p with hash := h', c0 := p.c0 ^^^ (bit m.src ||| bit m.dst), halfmoves := p.halfmoves + 1 } h := rfl
  rw [e, piece_wh, setPiece_wh]

theorem capStep_wh (s : Position) (m : Mv) (c : Nat) (h : BB) : capStep (wh s h) m c = wh (capStep s m c) h := by
  unfold capStep
  simp only []
  have e : ({ wh s h with c1 := (wh s h).c1 ^^^ bit m.dst, halfmoves := 0 } : Position)
      = wh { s with c1 := s.c1 ^^^ bit m.dst, halfmoves := 0 } h := rfl
  rw [e, piece_wh, setPiece_wh]

theorem clock_wh (s : Position) (i : Nat) (h : BB) : stClock (wh s h) i = wh (stClock s i) h := by
  unfold stClock
  split <;> rfl

theorem epStep_wh (s : Position) (e : Nat) (h : BB) : epStep (wh s h) e = wh (epStep s e) h := rfl

theorem double_wh (s : Position) (m : Mv) (i : Nat) (h : BB) : stDouble (wh s h) m i = wh (stDouble s m i) h := by
  unfold stDouble
  split <;> rfl

theorem castle_wh (s : Position) (m : Mv) (a b : Nat) (h : BB) :
    stCastle (wh s h) m a b = wh (stCastle s m a b) h := by
  unfold stCastle
  simp only []
  have e5 : (wh s h).p5 = s.p5 := rfl
  have e3 : (wh s h).p3 = s.p3 := rfl
  rw [e5, e3]
  split
  · rfl
  · split <;> rfl

theorem promo_wh (s : Position) (m : Mv) (h : BB) : stPromo (wh s h) m = wh (stPromo s m) h := by
  unfold stPromo
  split
  · simp only []
    have e : ({ wh s h with p0 := (wh s h).p0 ^^^ bit m.dst } : Position) = wh { s with p0 := s.p0 ^^^ bit m.dst } h := rfl
    rw [e, piece_wh, setPiece_wh]
  · rfl

theorem rights_wh (s : Position) (m : Mv) (a b c d e f : Nat) (h : BB) :
    stRights (wh s h) m a b c d e f = wh (stRights s m a b c d e f) h := rfl

theorem full_wh (s : Position) (h : BB) : stFull (wh s h) = wh (stFull s) h := by
  unfold stFull
  have e : (wh s h).black = s.black := rfl
  rw [e]
  split <;> rfl

theorem tail_wh (p : Position) (m : Mv) (i : Nat) (s : Position) (h : BB) :
    stTail p m i (wh s h) = wh (stTail p m i s) h := by
  unfold stTail stTail0
  simp only [double_wh, castle_wh, promo_wh, rights_wh, full_wh]

theorem flip_wh (s : Position) (h : BB) : (wh s h).flip = wh s.flip h := rfl

/-- the stored key is carried along untouched: `mmFrom` with key `h` is `mmFrom` with key `h'`, the key replaced. -/
theorem mmFrom_wh (p : Position) (m : Mv) (i : Nat) (h h' : BB) :
    mmFrom p m i h = (mmFrom p m i h').map (fun q => wh q h) := by
  unfold mmFrom
  rw [relocate_wh p m i h h']
  generalize stRelocate p m i h' = s1
  have ec : (wh s1 h).c1.isSet m.dst = s1.c1.isSet m.dst := rfl
  simp only [Option.bind_eq_bind, Option.pure_def, ec]
  cases s1.c1.isSet m.dst
  · simp only [Bool.false_eq_true, if_false, Option.bind_some, clock_wh]
    have ee : (wh (stClock s1 i) h).ep = (stClock s1 i).ep := rfl
    split
    · rw [ee]
      cases (stClock s1 i).ep with
      | none => rfl
      | some e => simp only [Option.bind_some, epStep_wh, tail_wh, flip_wh, Option.map_some]
    · simp only [tail_wh, flip_wh, Option.map_some]
  · simp only [if_true]
    cases p.pieceOn m.dst with
    | none => rfl
    | some c =>
      simp only [Option.bind_some, capStep_wh, clock_wh]
      have ee : (wh (stClock (capStep s1 m c) i) h).ep = (stClock (capStep s1 m c) i).ep := rfl
      split
      · rw [ee]
        cases (stClock (capStep s1 m c) i).ep with
        | none => rfl
        | some e => simp only [Option.bind_some, epStep_wh, tail_wh, flip_wh, Option.map_some]
      · simp only [tail_wh, flip_wh, Option.map_some]

end Rawr.MM
