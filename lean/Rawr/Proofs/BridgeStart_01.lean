import Rawr.Proofs.BridgeStart
/-! Chess960 start positions 80 … 159: `Spec.Valid`, E and M by kernel evaluation (≈ 0.3–0.4 s each). -/
namespace Rawr.Br
theorem startBlock_01 : startBlock 80 80 = true := by decide +kernel
end Rawr.Br
