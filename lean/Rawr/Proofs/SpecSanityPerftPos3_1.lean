import Rawr.Proofs.SpecSanityPerftDefs
/-! perft of `cpwPos3`, depth 3, slice 1: the subtrees of 3 first moves (kernel-evaluated). -/
namespace Rawr.SpecS
open Rawr.Spec

theorem pos33_1 :
    (([.normal 25 9 none, .normal 25 17 none, .normal 25 24 none] : List Move).map
      fun m => leaves (apply cpwPos3 m) 2).sum = 655 := by decide +kernel

end Rawr.SpecS
