import Rawr.Proofs.SpecSanityPerftDefs
/-! perft of the start position, depth 3, slice 01: the subtree of first move `.normal 1 18 none` (kernel-evaluated). -/
namespace Rawr.SpecS
open Rawr.Spec

theorem start3_01 : leaves (apply stdStart (.normal 1 18 none)) 2 = 440 := by decide +kernel

end Rawr.SpecS
