import Rawr.Proofs.UciStep
import Rawr.Proofs.UciMoves
/-! Classification of the output lines of the model: `isBest` (starts with `"bestmove "`), `isInfo` (starts with
`"info "`), `Neutral` (neither a `bestmove` line nor `readyok`), proved through the first characters. -/
namespace Rawr

def isBest (s : String) : Bool := (str "bestmove ").isPrefixOf s.toList
def isInfo (s : String) : Bool := (str "info ").isPrefixOf s.toList
/-- neither a `bestmove` line nor `readyok`. -/
def Neutral (s : String) : Prop := isBest s = false ∧ s ≠ "readyok"

theorem neutral_of_first {s : String} {a : Char} {r : List Char} (h : s.toList = a :: r)
    (hb : a ≠ 'b') (hr : a ≠ 'r') : Neutral s := by
  constructor
  · simp [isBest, h, str, List.isPrefixOf, Ne.symm hb]
  · intro e; subst e; simp at h; exact hr h.1.symm

theorem neutral_of_second {s : String} {a b : Char} {r : List Char} (h : s.toList = a :: b :: r)
    (he : b ≠ 'e') : Neutral s := by
  constructor
  · simp [isBest, h, str, List.isPrefixOf, Ne.symm he]
  · intro e; subst e; simp at h; exact he h.2.1.symm

theorem neutral_of_fifth {s : String} {a b c d e : Char} {r : List Char} (h : s.toList = a :: b :: c :: d :: e :: r)
    (hm : e ≠ 'm') (hy : e ≠ 'y') : Neutral s := by
  constructor
  · simp [isBest, h, str, List.isPrefixOf, Ne.symm hm]
  · intro e; subst e; simp at h; exact hy h.2.2.2.2.1.symm

/-- the second character exists and is not `e` (both `bestmove …` and `readyok` have `e` there). -/
def secondOk (l : List Char) : Bool :=
  match l with
  | _ :: b :: _ => b != 'e'
  | _ => false

theorem neutral_of_secondOk {s : String} (h : secondOk s.toList = true) : Neutral s := by
  unfold secondOk at h
  split at h
  · next a b r e => exact neutral_of_second e (by simpa using h)
  · cases h

theorem neutral_append (pre t : String) (h : secondOk pre.toList = true) : Neutral (pre ++ t) := by
  apply neutral_of_secondOk
  rw [String.toList_append]
  unfold secondOk at h ⊢
  split at h
  · next a b r e => rw [e]; simpa using h
  · cases h

theorem toString_str (s : String) : toString s = s := rfl

theorem isInfo_append (t : String) : isInfo ("info " ++ t) = true := by
  simp [isInfo, str, List.isPrefixOf]

theorem isBest_append (t : String) : isBest ("bestmove " ++ t) = true := by
  simp [isBest, str, List.isPrefixOf]

theorem isInfo_neutral {s : String} (h : isInfo s = true) : Neutral s := by
  unfold isInfo at h
  rw [List.isPrefixOf_iff_prefix] at h
  obtain ⟨t, ht⟩ := h
  exact neutral_of_first (a := 'i') (r := str "nfo " ++ t) (by rw [← ht]; simp [str]) (by decide) (by decide)

theorem isBest_ne_readyok {s : String} (h : isBest s = true) : s ≠ "readyok" := by
  rintro rfl
  revert h
  decide

theorem infoLine_isInfo (p : Position) (i : InfoRec) : isInfo (infoLine p i) = true := by
  unfold infoLine
  simp only [toString_str, String.append_assoc]
  have e : "info depth " = "info " ++ "depth " := by decide
  rw [e, String.append_assoc]
  exact isInfo_append _

theorem natRepr_neutral (n : Nat) : Neutral (toString n) := by
  have hne := @Nat.toDigits_ne_nil n 10
  cases h : Nat.toDigits 10 n with
  | nil => exact absurd h hne
  | cons a r =>
    have hd : a.isDigit = true :=
      Nat.isDigit_of_mem_toDigits (b := 10) (n := n) (by omega) (by omega) (by rw [h]; simp)
    refine neutral_of_first (a := a) (r := r) (by simp [Nat.toString_eq_repr, Nat.repr, h]) ?_ ?_
    · rintro rfl; revert hd; decide
    · rintro rfl; revert hd; decide

theorem intRepr_neutral (n : Int) : Neutral (toString n) := by
  cases n with
  | ofNat m => exact natRepr_neutral m
  | negSucc m =>
    exact neutral_of_first (a := '-') (r := (m.succ.repr).toList) (by simp [toString, Int.repr])
      (by decide) (by decide)

theorem hexLine_neutral (h : BB) : Neutral (hexLine h) :=
  neutral_of_first (a := '0') (r := 'x' :: hexDigits h.toNat) (by simp [hexLine]) (by decide) (by decide)

theorem range8 : List.range 8 = [0, 1, 2, 3, 4, 5, 6, 7] := by decide

/-- no line of the board display is a `bestmove` line or `readyok`. -/
theorem displayPos_neutral (p : Position) : ∀ l ∈ displayPos p, Neutral l := by
  intro l hl
  unfold displayPos at hl
  simp only [List.mem_append, List.mem_map, List.mem_cons, List.not_mem_nil, or_false, toString_str] at hl
  generalize (if p.black = true then p.flip else p) = np at hl
  rcases hl with ⟨i, _, rfl⟩ | rfl | rfl | rfl | rfl | rfl | rfl | rfl | rfl
  · rw [range8]
    simp only [List.map_cons, List.map_nil]
    refine neutral_of_second (String.toList_ofList) ?_
    repeat' split
    all_goals decide
  · exact neutral_append _ _ (by decide)
  · exact neutral_append _ _ (by decide)
  · exact neutral_append _ _ (by decide)
  · exact neutral_append _ _ (by decide)
  · split
    · exact neutral_append _ _ (by decide)
    · exact neutral_of_secondOk (by decide)
  · split
    · exact neutral_of_secondOk (by decide)
    · exact neutral_append _ _ (by decide)
  · exact neutral_append _ _ (by decide)
  · exact neutral_append _ _ (by decide)

theorem unknownMove_neutral (t : List Char) : Neutral ("info string unknown move " ++ String.ofList t) :=
  neutral_append _ _ (by decide)

theorem reports_neutral (ts : List (List Char)) (pos : Position) : ∀ l ∈ reports ts pos, Neutral l := by
  induction ts generalizing pos with
  | nil => intro l hl; simp [reports] at hl
  | cons t ts ih =>
    intro l hl
    simp only [reports] at hl
    split at hl
    · rcases List.mem_cons.1 hl with rfl | hl
      · exact unknownMove_neutral t
      · exact ih _ _ hl
    · split at hl
      · cases hl
      · exact ih _ _ hl

/-! ## counting -/

def nReady (out : List String) : Nat := out.count "readyok"
def nBest (out : List String) : Nat := out.countP isBest

theorem nReady_append (a b : List String) : nReady (a ++ b) = nReady a + nReady b := List.count_append
theorem nBest_append (a b : List String) : nBest (a ++ b) = nBest a + nBest b := List.countP_append

theorem counts_of_neutral {out : List String} (h : ∀ l ∈ out, Neutral l) : nReady out = 0 ∧ nBest out = 0 := by
  constructor
  · unfold nReady
    rw [List.count_eq_zero]
    intro hm
    exact (h _ hm).2 rfl
  · unfold nBest
    rw [List.countP_eq_zero]
    intro l hl
    rw [(h l hl).1]
    decide

/-- a search answer: `info` lines followed by exactly one `bestmove` line. -/
def SearchShape (out : List String) : Prop :=
  ∃ infos bm, out = infos ++ [bm] ∧ (∀ l ∈ infos, isInfo l = true) ∧ isBest bm = true

theorem SearchShape.counts {out : List String} (h : SearchShape out) : nReady out = 0 ∧ nBest out = 1 := by
  obtain ⟨infos, bm, rfl, hi, hb⟩ := h
  have := counts_of_neutral (out := infos) fun l hl => isInfo_neutral (hi l hl)
  rw [nReady_append, nBest_append, this.1, this.2]
  constructor
  · unfold nReady
    rw [Nat.zero_add, List.count_eq_zero]
    intro hm
    simp only [List.mem_singleton] at hm
    exact isBest_ne_readyok hb hm.symm
  · simp [nBest, hb]

end Rawr
