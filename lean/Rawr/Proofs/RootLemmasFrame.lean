import Rawr.Proofs.SearchHist
/-! Helper lemmas for C03 / C14: what `negamax` never undoes.

`Fr s s'` (frame): the iteration number `stats.depth` is untouched, the poll counter only grows, and a best
move, once written, is never erased (it may be overwritten by another one). Proof shape = `negamax_inv`. -/
namespace Rawr

/-- the frame relation between the state handed to a search call and the state it hands back. -/
def Fr (s s' : SState) : Prop :=
  s'.depth = s.depth ∧ s.polls ≤ s'.polls ∧ (s.best.isSome = true → s'.best.isSome = true)

theorem Fr.refl (s : SState) : Fr s s := ⟨rfl, Nat.le_refl _, id⟩

theorem Fr.trans {a b c : SState} (h1 : Fr a b) (h2 : Fr b c) : Fr a c :=
  ⟨h2.1.trans h1.1, Nat.le_trans h1.2.1 h2.2.1, fun h => h2.2.2 (h1.2.2 h)⟩

/-- a recursive call satisfies the frame relation. -/
def RecFr (rec : Position → SState → Int → Int → Int → Int → Bool → Option (Int × SState)) : Prop :=
  ∀ np s a b pl d c v s', rec np s a b pl d c = some (v, s') → Fr s s'

theorem Fr.of_some_eq {a s st' : SState} {x v : Int} (h : some (x, s) = some (v, st'))
    (hs : Fr a s) : Fr a st' := by
  simp only [Option.some.injEq, Prod.mk.injEq] at h
  rw [← h.2]; exact hs

theorem shouldStop_fr (lim : Limit) (s : SState) : Fr s (shouldStop lim s).2 :=
  ⟨rfl, Nat.le_succ _, id⟩

theorem pollIf_fr {c : Prop} [Decidable c] (lim : Limit) {a s : SState} (h : Fr a s) :
    Fr a (if c then shouldStop lim s else (false, s)).2 := by
  by_cases hc : c
  · rw [if_pos hc]; exact h.trans (shouldStop_fr lim s)
  · rw [if_neg hc]; exact h

/-- changing history, selective depth, node count (and the table) does not matter for the frame. -/
theorem Fr.pop {a s : SState} (h : Fr a s) : Fr a { s with hist := s.hist.tail } := h

theorem nmLoop_fr (rec) (hrec : RecFr rec) (p : Position) (beta ply depth : Int) (inCheck : Bool)
    (ms : List Mv) : ∀ (idx : Nat) (st : SState) (alpha best : Int) (bestMv : Option Mv)
      (st' : SState) (a' b' : Int) (bm' : Option Mv),
      nmLoop rec p beta ply depth inCheck ms idx st alpha best bestMv = some (st', a', b', bm') →
      Fr st st' := by
  induction ms with
  | nil =>
    intro idx st alpha best bestMv st' a' b' bm' h
    simp only [nmLoop, Option.some.injEq, Prod.mk.injEq] at h
    rw [← h.1]; exact Fr.refl _
  | cons m ms ih =>
    intro idx st alpha best bestMv st' a' b' bm' h
    simp only [nmLoop] at h
    split at h
    · simp at h
    generalize hres : (ite (_ = true) _ _ : Option (Int × SState)) = res at h
    have hresFr : ∀ score s1, res = some (score, s1) → Fr st { s1 with hist := s1.hist.tail } := by
      intro score s1 h1
      rw [h1] at hres
      suffices hpush : ∃ b : SState, Fr b s1 ∧ Fr st b by
        obtain ⟨b, hb, hsb⟩ := hpush
        exact hsb.trans hb
      · rcases ite_cases hres with ⟨_, hr⟩ | ⟨_, hr⟩
        · split at hr
          · simp at hr
          · have h2 := hrec _ _ _ _ _ _ _ _ _ (by assumption)
            exact ⟨_, Fr.of_some_eq hr h2, ⟨rfl, Nat.le_refl _, id⟩⟩
        · split at hr
          · simp at hr
          · have h2 := hrec _ _ _ _ _ _ _ _ _ (by assumption)
            ite_split hr
            · split at hr
              · simp at hr
              · have h3 := hrec _ _ _ _ _ _ _ _ _ (by assumption)
                exact ⟨_, Fr.of_some_eq hr (h2.trans h3), ⟨rfl, Nat.le_refl _, id⟩⟩
            · exact ⟨_, Fr.of_some_eq hr h2, ⟨rfl, Nat.le_refl _, id⟩⟩
    clear hres
    split at h
    · simp at h
    have hs1 := hresFr _ _ rfl
    ite_split h
    · simp only [Option.some.injEq, Prod.mk.injEq] at h
      rw [← h.1]; exact hs1
    · exact hs1.trans (ih _ _ _ _ _ _ _ _ _ h)

theorem negamax_fr (lim : Limit) (fuel : Nat) : RecFr (negamax lim fuel) := by
  induction fuel with
  | zero => intro np s a b pl d c v s' h; simp [negamax] at h
  | succ fuel ih =>
    intro p st α β ply depth cn v st' h
    simp only [negamax] at h
    generalize hpr : (ite (_ = true) (shouldStop lim _) (false, _) : Bool × SState) = pr at h
    have hinv : Fr st pr.2 := by rw [← hpr]; exact pollIf_fr lim ⟨rfl, Nat.le_refl _, id⟩
    clear hpr
    split at h
    · simp at h
    split at h
    · exact Fr.of_some_eq h ⟨rfl, Nat.le_refl _, id⟩
    ite_split h
    · split at h
      · simp at h
      · exact Fr.of_some_eq h ⟨rfl, Nat.le_refl _, id⟩
    ite_split h
    · exact Fr.of_some_eq h hinv
    ite_split h
    · exact Fr.of_some_eq h hinv
    ite_split h
    · exact Fr.of_some_eq h hinv
    generalize hnr : (ite (_ = true) _ _ : Option (Option Int × SState)) = nr at h
    have hnullFr : ∀ ov s2, nr = some (ov, s2) → Fr st s2 := by
      intro ov s2 h1
      rw [h1] at hnr
      rcases ite_cases hnr with ⟨_, hn⟩ | ⟨_, hn⟩
      · split at hn
        · simp at hn
        · have h3 := ih _ _ _ _ _ _ _ _ _ (by assumption)
          have h3 : Fr pr.2 _ := h3
          ite_split hn <;>
          · simp only [Option.some.injEq, Prod.mk.injEq] at hn
            rw [← hn.2]; exact hinv.trans h3
      · simp only [Option.some.injEq, Prod.mk.injEq] at hn
        rw [← hn.2]; exact hinv
    clear hnr
    split at h
    · simp at h
    · exact Fr.of_some_eq h (hnullFr _ _ rfl)
    · have hs2 := hnullFr _ _ rfl
      split at h
      · simp at h
      split at h
      · simp at h
      have h4 := hs2.trans (nmLoop_fr _ ih _ _ _ _ _ _ _ _ _ _ _ _ _ _ _ (by assumption))
      split at h
      · exact Fr.of_some_eq h h4
      · split at h
        · simp at h
        · exact Fr.of_some_eq h (h4.trans ⟨rfl, Nat.le_refl _, fun _ => rfl⟩)

end Rawr
