import Rawr.Proofs.PreludeGeom
import Rawr.Proofs.SafeLine
/-!
# C01, the safety lemma — the prelude's `allAttackers` (the pieces giving check)

`(prelude p).allAttackers` is exactly the set of enemy pieces attacking the mover's king
(`allAttackers_iff`), in the mover's frame `B := relBoard p`, `k := lsb (p.p5 &&& p.c0)`.
-/
namespace Rawr.Att
open Spec

theorem rayHit_iff_hit (Y : Board) {d : Int × Int} (hd : GoodDir d) (k s : Nat) :
    RayHit Y k d s ↔ ∃ n, Hit Y k d n s := by
  unfold RayHit Hit
  constructor
  · rintro ⟨n, hn, hf, hr, hc⟩
    exact ⟨n, hn, ⟨hf, hr⟩, (hit_iff_clear Y hd k s n hn ⟨hf, hr⟩).mp hc⟩
  · rintro ⟨n, hn, hat, hc⟩
    exact ⟨n, hn, hat.1, hat.2, (hit_iff_clear Y hd k s n hn hat).mpr hc⟩

/-- the enemy piece `q` on `s` attacks `k` on `B`. -/
def Attacks (B : Board) (k s : Nat) (q : Piece) : Prop :=
  Leap q s k ∨ ∃ d n, KindDir q.kind d ∧ Hit B k d n s

/-- `s` holds an enemy piece that attacks `k`. -/
def Checker (B : Board) (k s : Nat) : Prop :=
  s < 64 ∧ ∃ q : Piece, B s = some q ∧ q.white = false ∧ Attacks B k s q

/-- the prelude ray in direction `d`. -/
def kingRay (q : Prelude) (d : Int × Int) : BB :=
  if d = dNE then q.rayNE else if d = dNW then q.rayNW else if d = dSE then q.raySE
  else if d = dSW then q.raySW else if d = dN then q.rayN else if d = dS then q.rayS
  else if d = dE then q.rayE else if d = dW then q.rayW else 0#64

/-- the guard of the ray in direction `d`. -/
def rayGuard (p : Position) (d : Int × Int) : Bool :=
  if d ∈ diag then (themBQ p).isOcc else (themRQ p).isOcc

theorem mem_dirs8 (d : Int × Int) :
    d ∈ dirs8 ↔ d = dNE ∨ d = dNW ∨ d = dSE ∨ d = dSW ∨ d = dE ∨ d = dW ∨ d = dN ∨ d = dS := by
  unfold dirs8
  rw [diag_eq, orth_eq]
  simp only [List.cons_append, List.nil_append, List.mem_cons, List.not_mem_nil, or_false]

theorem kingRay_mem {p : Position} (hV : ValidPos p = true) {d : Int × Int} (hd : d ∈ dirs8) (s : Nat) :
    (kingRay (prelude p) d).getLsbD s = true ↔
      rayGuard p d = true ∧ s < 64 ∧ RayHit (relBoard p) (lsb (p.p5 &&& p.c0)) d s := by
  rcases (mem_dirs8 d).mp hd with rfl | rfl | rfl | rfl | rfl | rfl | rfl | rfl
  · exact prelude_rayNE hV s
  · exact prelude_rayNW hV s
  · exact prelude_raySE hV s
  · exact prelude_raySW hV s
  · exact prelude_rayE hV s
  · exact prelude_rayW hV s
  · exact prelude_rayN hV s
  · exact prelude_rayS hV s

theorem themBQ_iff {p : Position} (hC : Consistent p = true) (s : Nat) (hs : s < 64) :
    (themBQ p).getLsbD s = true ↔
      (relBoard p s = some ⟨false, .bishop⟩ ∨ relBoard p s = some ⟨false, .queen⟩) := by
  unfold themBQ
  rw [BitVec.and_or_distrib_left, BitVec.getLsbD_or, (rep_them hC).bishop s hs, (rep_them hC).queen s hs,
    Bool.or_eq_true, decide_eq_true_iff, decide_eq_true_iff]

/-- the enemy sliders that can attack along `d`. -/
def sliders (p : Position) (d : Int × Int) : BB := if d ∈ diag then themBQ p else themRQ p

theorem sliders_iff {p : Position} (hC : Consistent p = true) {d : Int × Int} (hd : d ∈ dirs8)
    (s : Nat) (hs : s < 64) :
    (sliders p d).getLsbD s = true ↔
      ∃ q : Piece, relBoard p s = some q ∧ q.white = false ∧ KindDir q.kind d := by
  have hdis : d ∈ diag → d ∈ orth → False := by
    intro h1 h2
    rw [diag_eq] at h1; rw [orth_eq] at h2
    simp only [List.mem_cons, List.not_mem_nil, or_false] at h1 h2
    rcases h1 with rfl | rfl | rfl | rfl <;> rcases h2 with h | h | h | h <;> cases h
  unfold sliders KindDir
  by_cases h : d ∈ diag
  · rw [if_pos h, themBQ_iff hC s hs]
    constructor
    · rintro (e | e)
      · exact ⟨_, e, rfl, Or.inl ⟨Or.inl rfl, h⟩⟩
      · exact ⟨_, e, rfl, Or.inl ⟨Or.inr rfl, h⟩⟩
    · rintro ⟨⟨w, kd⟩, e, hw, hk⟩
      dsimp only at hw hk; subst hw
      rcases hk with ⟨hk | hk, _⟩ | ⟨_, h'⟩
      · subst hk; exact Or.inl e
      · subst hk; exact Or.inr e
      · exact absurd h' (hdis h)
  · have ho : d ∈ orth := by
      rcases List.mem_append.mp hd with h' | h'
      · exact absurd h' h
      · exact h'
    rw [if_neg h, themRQ_iff hC s hs]
    constructor
    · rintro (e | e)
      · exact ⟨_, e, rfl, Or.inr ⟨Or.inl rfl, ho⟩⟩
      · exact ⟨_, e, rfl, Or.inr ⟨Or.inr rfl, ho⟩⟩
    · rintro ⟨⟨w, kd⟩, e, hw, hk⟩
      dsimp only at hw hk; subst hw
      rcases hk with ⟨_, h'⟩ | ⟨hk | hk, _⟩
      · exact absurd h' h
      · subst hk; exact Or.inl e
      · subst hk; exact Or.inr e

theorem rayGuard_of_slider {p : Position} {d : Int × Int} {s : Nat} (hs : s < 64)
    (h : (sliders p d).getLsbD s = true) : rayGuard p d = true := by
  unfold rayGuard; unfold sliders at h
  split
  · rw [if_pos ‹_›] at h; exact (isOcc_iff _).mpr ⟨s, hs, h⟩
  · rw [if_neg ‹_›] at h; exact (isOcc_iff _).mpr ⟨s, hs, h⟩

/-- membership in `ray &&& sliders`: an enemy slider of the right kind seen from the king along `d`. -/
theorem rayAtt_iff {p : Position} (hV : ValidPos p = true) {d : Int × Int} (hd : d ∈ dirs8) (s : Nat) :
    (kingRay (prelude p) d &&& sliders p d).getLsbD s = true ↔
      s < 64 ∧ (∃ n, Hit (relBoard p) (lsb (p.p5 &&& p.c0)) d n s) ∧
        ∃ q : Piece, relBoard p s = some q ∧ q.white = false ∧ KindDir q.kind d := by
  have hC := valid_consistent hV
  rw [BitVec.getLsbD_and, Bool.and_eq_true, kingRay_mem hV hd, rayHit_iff_hit _ (goodDir_dirs8 d hd)]
  constructor
  · rintro ⟨⟨_, hs, hh⟩, hsl⟩
    exact ⟨hs, hh, (sliders_iff hC hd s hs).mp hsl⟩
  · rintro ⟨hs, hh, hq⟩
    have hsl := (sliders_iff hC hd s hs).mpr hq
    exact ⟨⟨rayGuard_of_slider hs hsl, hs, hh⟩, hsl⟩

/-! ### the set of checkers -/

def pawnAtt (p : Position) : BB :=
  (northEast (p.c0 &&& p.p5) ||| northWest (p.c0 &&& p.p5)) &&& p.c1 &&& p.p0
def knightAtt (p : Position) : BB := knights (bit (lsb (p.p5 &&& p.c0))) &&& p.p1 &&& p.c1
def bAtt (p : Position) : BB :=
  ((prelude p).rayNE ||| (prelude p).raySW ||| (prelude p).rayNW ||| (prelude p).raySE) &&& p.c1 &&&
    (p.p2 ||| p.p4)
def rAtt (p : Position) : BB :=
  ((prelude p).rayN ||| (prelude p).rayS ||| (prelude p).rayE ||| (prelude p).rayW) &&& p.c1 &&&
    (p.p3 ||| p.p4)

theorem prelude_all_eq (p : Position) :
    (prelude p).allAttackers = pawnAtt p ||| knightAtt p ||| bAtt p ||| rAtt p := rfl

theorem king_bit {p : Position} (hV : ValidPos p = true) : p.c0 &&& p.p5 = bit (lsb (p.p5 &&& p.c0)) := by
  have hk := valid_kings hV false
  simp only [Position.side, Bool.false_eq_true, if_false] at hk
  rw [bit_lsb_of_count_le_one _ (Nat.le_of_eq hk), BitVec.and_comm]

theorem pawnAtt_iff {p : Position} (hV : ValidPos p = true) (s : Nat) :
    (pawnAtt p).getLsbD s = true ↔
      s < 64 ∧ relBoard p s = some ⟨false, .pawn⟩ ∧ pawnStep false s (lsb (p.p5 &&& p.c0)) = true := by
  have hC := valid_consistent hV
  have k64 := (kingFacts hV).k64
  unfold pawnAtt
  rw [king_bit hV]
  have e : northEast (bit (lsb (p.p5 &&& p.c0))) ||| northWest (bit (lsb (p.p5 &&& p.c0)))
      = pawnsAtt true (bit (lsb (p.p5 &&& p.c0))) := rfl
  rw [e, BitVec.and_assoc, BitVec.getLsbD_and, (C10_leapers_bit _ k64).2.2 true, getLsbD_geomBB,
    pawnStep_symm]
  by_cases hs : s < 64
  · rw [(rep_them hC).pawn s hs]
    simp only [hs, decide_true, Bool.true_and, Bool.not_true, Bool.and_eq_true, decide_eq_true_eq, true_and]
    exact ⟨fun h => ⟨h.2, h.1⟩, fun h => ⟨h.2, h.1⟩⟩
  · simp [hs]

theorem knightAtt_iff {p : Position} (hV : ValidPos p = true) (s : Nat) :
    (knightAtt p).getLsbD s = true ↔
      s < 64 ∧ relBoard p s = some ⟨false, .knight⟩ ∧ knightStep s (lsb (p.p5 &&& p.c0)) = true := by
  have hC := valid_consistent hV
  have k64 := (kingFacts hV).k64
  unfold knightAtt
  rw [BitVec.and_assoc, BitVec.and_comm p.p1, BitVec.getLsbD_and, (C10_leapers_bit _ k64).1, getLsbD_geomBB,
    knightStep_symm]
  by_cases hs : s < 64
  · rw [(rep_them hC).knight s hs]
    simp only [hs, decide_true, Bool.true_and, Bool.and_eq_true, decide_eq_true_eq, true_and]
    exact ⟨fun h => ⟨h.2, h.1⟩, fun h => ⟨h.2, h.1⟩⟩
  · simp [hs]

theorem bAtt_eq (p : Position) :
    bAtt p = (kingRay (prelude p) dNE &&& sliders p dNE) ||| (kingRay (prelude p) dSW &&& sliders p dSW) |||
      (kingRay (prelude p) dNW &&& sliders p dNW) ||| (kingRay (prelude p) dSE &&& sliders p dSE) := by
  have e : ∀ d, d ∈ diag → sliders p d = p.c1 &&& (p.p2 ||| p.p4) := by
    intro d hd; unfold sliders themBQ; rw [if_pos hd]
  rw [e dNE (by decide), e dSW (by decide), e dNW (by decide), e dSE (by decide)]
  unfold bAtt
  simp only [← BitVec.and_or_distrib_right, BitVec.and_assoc]
  rfl

theorem rAtt_eq (p : Position) :
    rAtt p = (kingRay (prelude p) dN &&& sliders p dN) ||| (kingRay (prelude p) dS &&& sliders p dS) |||
      (kingRay (prelude p) dE &&& sliders p dE) ||| (kingRay (prelude p) dW &&& sliders p dW) := by
  have e : ∀ d, d ∉ diag → sliders p d = p.c1 &&& (p.p3 ||| p.p4) := by
    intro d hd; unfold sliders themRQ; rw [if_neg hd]
  rw [e dN (by decide), e dS (by decide), e dE (by decide), e dW (by decide)]
  unfold rAtt
  simp only [← BitVec.and_or_distrib_right, BitVec.and_assoc]
  rfl

/-- a slider check: membership in `bAtt ||| rAtt`. -/
theorem sliderAtt_iff (p : Position) (s : Nat) :
    (bAtt p ||| rAtt p).getLsbD s = true ↔
      ∃ d ∈ dirs8, (kingRay (prelude p) d &&& sliders p d).getLsbD s = true := by
  rw [bAtt_eq, rAtt_eq]
  simp only [BitVec.getLsbD_or, Bool.or_eq_true, mem_dirs8]
  constructor
  · rintro ((((h | h) | h) | h) | (((h | h) | h) | h))
    · exact ⟨dNE, by simp, h⟩
    · exact ⟨dSW, by simp, h⟩
    · exact ⟨dNW, by simp, h⟩
    · exact ⟨dSE, by simp, h⟩
    · exact ⟨dN, by simp, h⟩
    · exact ⟨dS, by simp, h⟩
    · exact ⟨dE, by simp, h⟩
    · exact ⟨dW, by simp, h⟩
  · rintro ⟨d, (rfl | rfl | rfl | rfl | rfl | rfl | rfl | rfl), h⟩
    · exact Or.inl (Or.inl (Or.inl (Or.inl h)))
    · exact Or.inl (Or.inl (Or.inr h))
    · exact Or.inl (Or.inr h)
    · exact Or.inl (Or.inl (Or.inl (Or.inr h)))
    · exact Or.inr (Or.inl (Or.inr h))
    · exact Or.inr (Or.inr h)
    · exact Or.inr (Or.inl (Or.inl (Or.inl h)))
    · exact Or.inr (Or.inl (Or.inl (Or.inr h)))

theorem kindDir_dirs8 {kd : Kind} {d : Int × Int} (h : KindDir kd d) : d ∈ dirs8 := by
  rcases h with ⟨_, h⟩ | ⟨_, h⟩
  · exact List.mem_append.mpr (Or.inl h)
  · exact List.mem_append.mpr (Or.inr h)

/-- **(a)** `allAttackers` is exactly the set of enemy pieces attacking the king. -/
theorem allAttackers_iff {p : Position} (hV : ValidPos p = true) (s : Nat) :
    (prelude p).allAttackers.getLsbD s = true ↔ Checker (relBoard p) (lsb (p.p5 &&& p.c0)) s := by
  have hC := valid_consistent hV
  rw [prelude_all_eq, BitVec.or_assoc, BitVec.getLsbD_or, BitVec.getLsbD_or, Bool.or_eq_true, Bool.or_eq_true,
    pawnAtt_iff hV, knightAtt_iff hV, sliderAtt_iff p]
  unfold Checker Attacks
  constructor
  · rintro ((⟨hs, hB, hst⟩ | ⟨hs, hB, hst⟩) | ⟨d, hd, h⟩)
    · exact ⟨hs, _, hB, rfl, Or.inl (Or.inl ⟨rfl, hst⟩)⟩
    · exact ⟨hs, _, hB, rfl, Or.inl (Or.inr (Or.inl ⟨rfl, hst⟩))⟩
    · obtain ⟨hs, ⟨n, hh⟩, q, hB, hw, hk⟩ := (rayAtt_iff hV hd s).mp h
      exact ⟨hs, q, hB, hw, Or.inr ⟨d, n, hk, hh⟩⟩
  · rintro ⟨hs, ⟨w, kd⟩, hB, hw, hatt⟩
    dsimp only at hw; subst hw
    rcases hatt with (⟨hk, hst⟩ | ⟨hk, hst⟩ | ⟨hk, hst⟩) | ⟨d, n, hk, hh⟩
    · dsimp only at hk hst; subst hk
      exact Or.inl (Or.inl ⟨hs, hB, hst⟩)
    · dsimp only at hk hst; subst hk
      exact Or.inl (Or.inr ⟨hs, hB, hst⟩)
    · exfalso
      dsimp only at hk hst; subst hk
      have := kings_apart hV
      have h2 : anyS (p.c1 &&& p.p5) (fun s => kingStep s (lsb (p.p5 &&& p.c0))) = true := by
        rw [anyS_iff]
        refine ⟨s, hs, ?_, hst⟩
        rw [(rep_them hC).king s hs, hB]; simp
      rw [this] at h2; cases h2
    · exact Or.inr ⟨d, kindDir_dirs8 hk, (rayAtt_iff hV (kindDir_dirs8 hk) s).mpr ⟨hs, ⟨n, hh⟩, _, hB, rfl, hk⟩⟩

end Rawr.Att
