import Rawr.Proofs.MagicCheck
/-!
# The 7-step bound in `Spec.walk` is not a truncation

From a square of the board, walking with any larger number of steps gives the same list: every ray
leaves the 8 × 8 board after at most 7 steps.
-/
namespace Rawr
open Spec

/-- a walk on the empty board that used fewer steps than allowed ended at the board edge, so more
steps do not extend it. -/
theorem walkFrom_stable (df dr : Int) : ∀ (n m : Nat) (f r : Int), n ≤ m →
    (walkFrom df dr emptyOcc n f r).length < n →
    walkFrom df dr emptyOcc m f r = walkFrom df dr emptyOcc n f r := by
  intro n
  induction n with
  | zero => intro m f r _ h; exact absurd h (Nat.not_lt_zero _)
  | succ n ih =>
    intro m f r hm h
    obtain ⟨m', rfl⟩ : ∃ m', m = m' + 1 := ⟨m - 1, by omega⟩
    simp only [walkFrom, emptyOcc, Bool.false_eq_true, if_false] at h ⊢
    split
    · rename_i hb
      simp only [hb, if_true, List.length_cons] at h
      rw [ih m' _ _ (by omega) (by simpa [emptyOcc] using Nat.lt_of_succ_lt_succ h)]
    · rfl

/-- the eight directions. -/
def dirs8 : List (Int × Int) := diag ++ orth

theorem walk_edge : ∀ s : Fin 64, dirs8.all (fun d =>
    decide ((walkFrom d.1 d.2 emptyOcc 8 (file s) (rank s)).length < 8) &&
    (walkFrom d.1 d.2 emptyOcc 8 (file s) (rank s) == walkFrom d.1 d.2 emptyOcc 7 (file s) (rank s)))
    = true := by decide +kernel

/-- `Spec.walk` = the walk with any number `m ≥ 7` of allowed steps. -/
theorem walk_fuel (d : Int × Int) (hd : d ∈ dirs8) (s : Nat) (hs : s < 64) (occ : Nat → Bool)
    (m : Nat) (hm : 7 ≤ m) : walkFrom d.1 d.2 occ m (file s) (rank s) = walk d.1 d.2 s occ := by
  have h := List.all_eq_true.mp (walk_edge ⟨s, hs⟩) d hd
  simp only [Bool.and_eq_true, decide_eq_true_eq, beq_iff_eq] at h
  unfold walk
  rw [walkFrom_takeUntil, walkFrom_takeUntil d.1 d.2 occ 7]
  congr 1
  by_cases h7 : m = 7
  · rw [h7]
  · rw [walkFrom_stable d.1 d.2 8 m _ _ (by omega) h.1, h.2]

end Rawr
