import Rawr.Proofs.BridgeStart
/-! Chess960 start positions 480 … 559: `Spec.Valid`, E and M by kernel evaluation (≈ 0.3–0.4 s each). -/
namespace Rawr.Br
theorem startBlock_06 : startBlock 480 80 = true := by decide +kernel
end Rawr.Br
