import Rawr.Proofs.HashSpec
import Rawr.Spec.Fen
import Rawr.Model.Fen
import Rawr.Generated.StartPos
/-! The board field printed by the model of `get_fen` equals the specification printer
`Spec.printBoard` on board-consistent positions stored from White's point of view. -/
namespace Rawr
open Spec

/-- `i32::to_string` on one decimal digit. -/
theorem intToChars_digit (n : Nat) (h : n < 10) : intToChars (n : Int) = [digitChar n] := by
  have H : ∀ n, n < 10 → intToChars ((n : Nat) : Int) = [digitChar n] := by decide
  exact H n h

/-- the four views of one square, from its eight bits (White's point of view). -/
theorem cell_bool (u v q0 q1 q2 q3 q4 q5 : Bool) (h : ZH.cellOk u v q0 q1 q2 q3 q4 q5 = true) :
    ((u || v) = false ∧
      (if q0 then some 0 else if q1 then some 1 else if q2 then some 2 else if q3 then some 3
        else if q4 then some 4 else if q5 then some 5 else (none : Option Nat)) = none ∧
      (if u then some false else if v then some (!false) else (none : Option Bool)) = none ∧
      ZH.cellPiece false u v q0 q1 q2 q3 q4 q5 = none) ∨
    (∃ k col pc, (u || v) = true ∧
      (if q0 then some 0 else if q1 then some 1 else if q2 then some 2 else if q3 then some 3
        else if q4 then some 4 else if q5 then some 5 else (none : Option Nat)) = some k ∧
      (if u then some false else if v then some (!false) else (none : Option Bool)) = some col ∧
      ZH.cellPiece false u v q0 q1 q2 q3 q4 q5 = some pc ∧ pieceChar k col = pieceLetter pc) := by
  revert h
  cases u <;> cases v <;> cases q0 <;> cases q1 <;> cases q2 <;> cases q3 <;> cases q4 <;> cases q5 <;>
    intro h <;> first
    | exact absurd h (by decide)
    | exact Or.inl ⟨rfl, rfl, rfl, rfl⟩
    | exact Or.inr ⟨_, _, _, rfl, rfl, rfl, rfl, by decide⟩

/-- what the printer sees on one square of a board-consistent position (White's point of view):
either nothing on all four views, or a piece on all four views with equal letters. -/
theorem cell_cases (np : Position) (hb : np.black = false) (hC : Consistent np = true) (s : Nat)
    (hs : s < 64) :
    (np.occ.isSet s = false ∧ np.pieceOn s = none ∧ np.colourOn s = none ∧ absBoard np s = none) ∨
    (∃ k col pc, np.occ.isSet s = true ∧ np.pieceOn s = some k ∧ np.colourOn s = some col ∧
      absBoard np s = some pc ∧ pieceChar k col = pieceLetter pc) := by
  have h := ZH.cellOk_of_consistent hC s
  rw [ZH.absBoard_eq np s hs]
  simp only [Position.colourOn, Position.occ, BB.isSet, BitVec.getLsbD_or, hb]
  exact cell_bool _ _ _ _ _ _ _ _ h

/-- the model's rank loop and the specification's `go`, from any intermediate state. -/
theorem fenRank_eq_go (np : Position) (hb : np.black = false) (hC : Consistent np = true) (y : Nat)
    (hy : y < 8) :
    ∀ (fuel x run : Nat) (acc : List Char), x + fuel = 8 → run ≤ x →
      fenRank np y fuel x run acc = some (printRank.go (absBoard np) y x fuel run acc)
  | 0, x, run, acc, hx, hr => by
    simp only [fenRank, printRank.go, intToChars_digit run (by omega)]
  | fuel + 1, x, run, acc, hx, hr => by
    have hs : fromCoords x y < 64 := by simp only [fromCoords]; omega
    have hsq : x + 8 * y = fromCoords x y := by simp only [fromCoords]; omega
    have ih := fenRank_eq_go np hb hC y hy fuel (x + 1)
    rw [fenRank, printRank.go, hsq]
    rcases cell_cases np hb hC _ hs with ⟨h1, h2, h3, h4⟩ | ⟨k, col, pc, h1, h2, h3, h4, h5⟩
    · simp only [h1, h2, h3, h4, Bool.false_and, Bool.false_eq_true, if_false]
      exact ih (run + 1) acc (by omega) (by omega)
    · simp only [h1, h2, h3, h4, h5, Bool.true_and, decide_eq_true_eq]
      by_cases hr0 : run > 0
      · simp only [hr0, if_true, intToChars_digit run (by omega)]
        exact ih 0 _ (by omega) (by omega)
      · simp only [hr0, if_false]
        have : run = 0 := by omega
        subst this
        exact ih 0 _ (by omega) (by omega)

theorem fenRank_eq_printRank (np : Position) (hb : np.black = false) (hC : Consistent np = true)
    (y : Nat) (hy : y < 8) :
    fenRank np y 8 0 0 [] = some (printRank (absBoard np) y) :=
  fenRank_eq_go np hb hC y hy 8 0 0 [] rfl (Nat.le_refl 0)

theorem ranks_eq_printBoard (np : Position) (hb : np.black = false) (hC : Consistent np = true) :
    getFen.ranks np 8 7 [] = some (printBoard (absBoard np)) := by
  have h := fenRank_eq_printRank np hb hC
  simp only [getFen.ranks, h 7 (by decide), h 6 (by decide), h 5 (by decide), h 4 (by decide),
    h 3 (by decide), h 2 (by decide), h 1 (by decide), h 0 (by decide), printBoard, List.range,
    List.range.loop, List.foldl]
  rfl

/-- non-vacuity: the position after 1.e4 (stored from White's point of view) satisfies the hypotheses,
and the printed board field is the expected string (run digits inside a rank, both letter cases). -/
def exE4 : Position :=
  { Gen.startpos with c0 := 0x1000efff#64, p0 := 0xff00001000ef00#64 }

example : exE4.black = false ∧ Consistent exE4 = true := by decide

example : fenRank exE4 3 8 0 0 [] = some "4P3".toList := by decide +kernel

example : getFen.ranks exE4 8 7 [] =
    some "rnbqkbnr/pppppppp/8/8/4P3/8/PPPP1PPP/RNBQKBNR".toList := by decide +kernel

example : printBoard (absBoard exE4) = "rnbqkbnr/pppppppp/8/8/4P3/8/PPPP1PPP/RNBQKBNR".toList := by
  have h := ranks_eq_printBoard exE4 (by decide) (by decide)
  have h' : getFen.ranks exE4 8 7 [] =
      some "rnbqkbnr/pppppppp/8/8/4P3/8/PPPP1PPP/RNBQKBNR".toList := by decide +kernel
  exact (Option.some.inj (h.symm.trans h')).symm

#print axioms fenRank_eq_printRank
#print axioms ranks_eq_printBoard

end Rawr
