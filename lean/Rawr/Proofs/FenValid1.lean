import Rawr.Proofs.FenSound2
import Rawr.Proofs.FenValidOfSpec
import Rawr.Proofs.MakeMoveAbsV1
import Rawr.Props.C08d
/-! # `StructurallyValid p → Spec.Valid (abs p)`

The converse of `Rawr/Proofs/FenValidOfSpec.lean` (`validate_of_valid`): every clause of `Spec.Valid`
(V.2–V.7 on the absolute board) is derived from the corresponding clause of `StructurallyValid`
(the engine representation, as guaranteed by `set_fen` + `validate`). The attack clause goes through
C08d (`C08d_inCheckThem`, which needs only board consistency and the king counts). -/
namespace Rawr.FenValid
open Rawr Rawr.Position Rawr.Spec Rawr.ZH Rawr.FenV Rawr.FenS
set_option linter.unusedSimpArgs false
set_option linter.unusedVariables false

/-! ### `Spec.Valid` from its clauses (converse of `FenV.valid_split`) -/

theorem valid_intro {a : APos}
    (kw : countPieces a.board (fun pc => pc == ⟨true, .king⟩) = 1)
    (kb : countPieces a.board (fun pc => pc == ⟨false, .king⟩) = 1)
    (hp : ∀ s, s < 64 → (match a.board s with
      | some pc => !(pc.kind == .pawn && (rank s == 0 || rank s == 7)) | none => true) = true)
    (hchk : inCheck a.board (!a.whiteToMove) = false)
    (hr : ∀ w ks : Bool, (match right a w ks with
      | none => true
      | some f =>
        decide (f < 8) && a.board (sq f (homeRank w)) == some ⟨w, .rook⟩ &&
        (match kingSquares a.board w with
         | [k] => rank k == homeRank w && (if ks then file k < f else (f : Int) < file k)
         | _ => false)) = true)
    (hep : (match a.ep with
     | none => true
     | some e =>
       rank e == (if a.whiteToMove then 5 else 2) && (a.board e).isNone &&
       a.board (sq (file e) (if a.whiteToMove then 4 else 3)) == some ⟨!a.whiteToMove, .pawn⟩) = true)
    (hh : 0 ≤ a.half) (hf : 1 ≤ a.full) : Spec.Valid a = true := by
  unfold Spec.Valid
  simp only [Bool.and_eq_true, decide_eq_true_eq]
  refine ⟨⟨⟨⟨⟨⟨⟨?_, ?_⟩, ?_⟩, ?_⟩, ?_⟩, hep⟩, hh⟩, hf⟩
  · rw [beq_iff_eq]; exact kw
  · rw [beq_iff_eq]; exact kb
  · rw [List.all_eq_true]
    intro s hs
    exact hp s (by simpa [squares] using hs)
  · rw [hchk]; rfl
  · rw [List.all_eq_true]
    rintro ⟨w, ks⟩ _
    exact hr w ks

/-! ### single squares: bits ⟹ piece -/

theorem cell_empty : ∀ t q0 q1 q2 q3 q4 q5 : Bool, cellPiece t false false q0 q1 q2 q3 q4 q5 = none := by
  decide

theorem cell_pawn_them_of : ∀ t u v q0 q1 q2 q3 q4 q5 : Bool, cellOk u v q0 q1 q2 q3 q4 q5 = true →
    (v && q0) = true → cellPiece t u v q0 q1 q2 q3 q4 q5 = some (⟨t, .pawn⟩ : Piece) := by
  decide

theorem cell_rook_us_of : ∀ t u v q0 q1 q2 q3 q4 q5 : Bool, cellOk u v q0 q1 q2 q3 q4 q5 = true →
    (u && q3) = true → cellPiece t u v q0 q1 q2 q3 q4 q5 = some (⟨!t, .rook⟩ : Piece) := by
  decide

theorem cell_rook_them_of : ∀ t u v q0 q1 q2 q3 q4 q5 : Bool, cellOk u v q0 q1 q2 q3 q4 q5 = true →
    (v && q3) = true → cellPiece t u v q0 q1 q2 q3 q4 q5 = some (⟨t, .rook⟩ : Piece) := by
  decide

/-- the absolute board at the absolute image of relative square `r`. -/
theorem absBoard_at (p : Position) {r : Nat} (hr : r < 64) :
    absBoard p (maybeFlip r p.black) =
      cellPiece p.black (p.c0.getLsbD r) (p.c1.getLsbD r) (p.p0.getLsbD r) (p.p1.getLsbD r)
          (p.p2.getLsbD r) (p.p3.getLsbD r) (p.p4.getLsbD r) (p.p5.getLsbD r) := by
  rw [absBoard_eq p _ (maybeFlip_lt _ hr)]
  simp only [maybeFlip_maybeFlip]

theorem absBoard_empty_of (p : Position) {r : Nat} (hr : r < 64) (h0 : p.c0.getLsbD r = false)
    (h1 : p.c1.getLsbD r = false) : absBoard p (maybeFlip r p.black) = none := by
  rw [absBoard_at p hr, h0, h1]
  exact cell_empty _ _ _ _ _ _ _

theorem absBoard_pawn_them_of {p : Position} (hC : Consistent p = true) {r : Nat} (hr : r < 64)
    (h : (p.c1 &&& p.p0).getLsbD r = true) : absBoard p (maybeFlip r p.black) = some ⟨p.black, .pawn⟩ := by
  rw [absBoard_at p hr]
  rw [BitVec.getLsbD_and] at h
  exact cell_pawn_them_of _ _ _ _ _ _ _ _ _ (cellOk_of_consistent hC r) h

theorem absBoard_rook_us_of {p : Position} (hC : Consistent p = true) {r : Nat} (hr : r < 64)
    (h : (p.c0 &&& p.p3).getLsbD r = true) : absBoard p (maybeFlip r p.black) = some ⟨!p.black, .rook⟩ := by
  rw [absBoard_at p hr]
  rw [BitVec.getLsbD_and] at h
  exact cell_rook_us_of _ _ _ _ _ _ _ _ _ (cellOk_of_consistent hC r) h

theorem absBoard_rook_them_of {p : Position} (hC : Consistent p = true) {r : Nat} (hr : r < 64)
    (h : (p.c1 &&& p.p3).getLsbD r = true) : absBoard p (maybeFlip r p.black) = some ⟨p.black, .rook⟩ := by
  rw [absBoard_at p hr]
  rw [BitVec.getLsbD_and] at h
  exact cell_rook_them_of _ _ _ _ _ _ _ _ _ (cellOk_of_consistent hC r) h

/-! ### V.3: pawns -/

theorem pawn_clause_of {p : Position} (hC : Consistent p = true)
    (hp : p.p0 &&& 0xFF000000000000FF#64 = 0#64) (s : Nat) (hs : s < 64) :
    (match (abs p).board s with
      | some pc => !(pc.kind == .pawn && (rank s == 0 || rank s == 7)) | none => true) = true := by
  have hb : (abs p).board s = absBoard p s := rfl
  rw [hb, absBoard_eq p s hs]
  have hc := cell_pawn p.black _ _ _ _ _ _ _ _ (cellOk_of_consistent hC (maybeFlip s p.black))
  have hz := and_zero_bit hp (maybeFlip s p.black)
  rw [edge_mask _ (maybeFlip_lt _ hs) p.black, maybeFlip_maybeFlip] at hz
  simp only
  revert hc
  generalize cellPiece p.black (p.c0.getLsbD (maybeFlip s p.black)) (p.c1.getLsbD (maybeFlip s p.black))
    (p.p0.getLsbD (maybeFlip s p.black)) (p.p1.getLsbD (maybeFlip s p.black))
    (p.p2.getLsbD (maybeFlip s p.black)) (p.p3.getLsbD (maybeFlip s p.black))
    (p.p4.getLsbD (maybeFlip s p.black)) (p.p5.getLsbD (maybeFlip s p.black)) = o
  intro hc
  cases o with
  | none => rfl
  | some pc =>
    simp only at hc ⊢
    rw [hc, hz]
    rfl

/-! ### V.2: kings -/

/-- exactly one bit in the relative king board ⟹ the specification finds exactly that king. -/
theorem kingSquares_of_count {p : Position} {w : Bool} {bb : BB}
    (hkey : ∀ a, a < 64 → (absBoard p a == some (⟨w, .king⟩ : Piece)) = bb.getLsbD (maybeFlip a p.black))
    (h1 : count bb = 1) :
    lsb bb < 64 ∧ kingSquares (absBoard p) w = [maybeFlip (lsb bb) p.black] := by
  have hne := ne_zero_of_count_one h1
  have hm := lsb_mem hne
  have h64 : lsb bb < 64 := BitVec.lt_of_getLsbD hm
  refine ⟨h64, SV.kingSquares_of_unique ⟨maybeFlip_lt _ h64, ?_, ?_⟩⟩
  · have := hkey _ (maybeFlip_lt p.black h64)
    rw [maybeFlip_maybeFlip, hm] at this
    exact beq_iff_eq.mp this
  · intro j hj hb
    have := hkey j hj
    rw [hb, beq_self_eq_true] at this
    have := lsb_unique (Nat.le_of_eq h1) this.symm
    rw [this, maybeFlip_maybeFlip]

theorem kingSquares_us_of {p : Position} (hC : Consistent p = true) (h1 : count (p.c0 &&& p.p5) = 1) :
    lsb (p.c0 &&& p.p5) < 64 ∧
      kingSquares (abs p).board (!p.black) = [maybeFlip (lsb (p.c0 &&& p.p5)) p.black] :=
  kingSquares_of_count (king_key_us hC) h1

theorem kingSquares_them_of {p : Position} (hC : Consistent p = true) (h1 : count (p.c1 &&& p.p5) = 1) :
    lsb (p.c1 &&& p.p5) < 64 ∧
      kingSquares (abs p).board p.black = [maybeFlip (lsb (p.c1 &&& p.p5)) p.black] :=
  kingSquares_of_count (king_key_them hC) h1

/-! ### V.5: castling rights -/

theorem right_clause_of {B : Board} {w ks : Bool} {f k : Nat}
    (hf : f < 8) (hrook : B (sq f (homeRank w)) = some ⟨w, .rook⟩) (hk : kingSquares B w = [k])
    (hrank : rank k = homeRank w) (hfile : if ks = true then file k < (f : Int) else (f : Int) < file k) :
    (decide (f < 8) && B (sq f (homeRank w)) == some ⟨w, .rook⟩ &&
        (match kingSquares B w with
         | [k] => rank k == homeRank w && (if ks then file k < f else (f : Int) < file k)
         | _ => false)) = true := by
  rw [hk, hrook]
  simp only [hf, decide_true, beq_self_eq_true, Bool.true_and, hrank, Bool.and_eq_true]
  cases ks
  · simp only [Bool.false_eq_true, if_false] at hfile ⊢
    exact decide_eq_true hfile
  · simp only [if_true] at hfile ⊢
    exact decide_eq_true hfile

theorem home_of_rel : ∀ k, k < 64 → ∀ t : Bool,
    (rankOf k = 0 → rank (maybeFlip k t) = homeRank (!t)) ∧
    (rankOf k = 7 → rank (maybeFlip k t) = homeRank t) ∧
    file (maybeFlip k t) = ((fileOf k : Nat) : Int) := by
  decide

theorem rook_sq_us_of (f : Nat) (hf : f < 8) (t : Bool) :
    fromCoords f 0 < 64 ∧ sq (↑f) (homeRank (!t)) = maybeFlip (fromCoords f 0) t := by
  obtain ⟨h1, h2⟩ := rook_sq_us f hf t
  refine ⟨by unfold fromCoords; omega, ?_⟩
  rw [← h2, maybeFlip_maybeFlip]

theorem rook_sq_them_of (f : Nat) (hf : f < 8) (t : Bool) :
    fromCoords f 7 < 64 ∧ sq (↑f) (homeRank t) = maybeFlip (fromCoords f 7) t := by
  obtain ⟨h1, h2⟩ := rook_sq_them f hf t
  refine ⟨by unfold fromCoords; omega, ?_⟩
  rw [← h2, maybeFlip_maybeFlip]

/-- a right of the side to move, in the form `Spec.Valid` states it. -/
theorem castle_us_of {p : Position} (hC : Consistent p = true) (h1 : count (p.c0 &&& p.p5) = 1)
    (ks : Bool) {f : Nat} (hrk : rankOf (lsb (p.c0 &&& p.p5)) = 0)
    (hrook : (p.c0 &&& p.p3).isSet (fromCoords f 0) = true) (hf : f < 8)
    (hside : if ks = true then fileOf (lsb (p.c0 &&& p.p5)) < f else f < fileOf (lsb (p.c0 &&& p.p5))) :
    (decide (f < 8) && (abs p).board (sq f (homeRank (!p.black))) == some ⟨!p.black, .rook⟩ &&
        (match kingSquares (abs p).board (!p.black) with
         | [k] => rank k == homeRank (!p.black) && (if ks then file k < f else (f : Int) < file k)
         | _ => false)) = true := by
  obtain ⟨hk64, hks⟩ := kingSquares_us_of hC h1
  obtain ⟨hs64, hsq⟩ := rook_sq_us_of f hf p.black
  obtain ⟨h0, _, hfl⟩ := home_of_rel _ hk64 p.black
  refine right_clause_of hf ?_ hks (h0 hrk) ?_
  · rw [hsq]; exact absBoard_rook_us_of hC hs64 hrook
  · rw [hfl]
    cases ks
    · simp only [Bool.false_eq_true, if_false] at hside ⊢; exact Int.ofNat_lt.mpr hside
    · simp only [if_true] at hside ⊢; exact Int.ofNat_lt.mpr hside

/-- a right of the side not to move. -/
theorem castle_them_of {p : Position} (hC : Consistent p = true) (h1 : count (p.c1 &&& p.p5) = 1)
    (ks : Bool) {f : Nat} (hrk : rankOf (lsb (p.c1 &&& p.p5)) = 7)
    (hrook : (p.c1 &&& p.p3).isSet (fromCoords f 7) = true) (hf : f < 8)
    (hside : if ks = true then fileOf (lsb (p.c1 &&& p.p5)) < f else f < fileOf (lsb (p.c1 &&& p.p5))) :
    (decide (f < 8) && (abs p).board (sq f (homeRank p.black)) == some ⟨p.black, .rook⟩ &&
        (match kingSquares (abs p).board p.black with
         | [k] => rank k == homeRank p.black && (if ks then file k < f else (f : Int) < file k)
         | _ => false)) = true := by
  obtain ⟨hk64, hks⟩ := kingSquares_them_of hC h1
  obtain ⟨hs64, hsq⟩ := rook_sq_them_of f hf p.black
  obtain ⟨_, h7, hfl⟩ := home_of_rel _ hk64 p.black
  refine right_clause_of hf ?_ hks (h7 hrk) ?_
  · rw [hsq]; exact absBoard_rook_them_of hC hs64 hrook
  · rw [hfl]
    cases ks
    · simp only [Bool.false_eq_true, if_false] at hside ⊢; exact Int.ofNat_lt.mpr hside
    · simp only [if_true] at hside ⊢; exact Int.ofNat_lt.mpr hside

theorem right_us_eq (p : Position) (ks : Bool) :
    right (abs p) (!p.black) ks =
      if (if ks then p.usK else p.usQ) = true then some (if ks then p.cf0 else p.cf1) else none := by
  cases hb : p.black <;> cases ks <;> cases h1 : p.usK <;> cases h2 : p.usQ <;> simp [right, abs, hb, h1, h2]

theorem right_them_eq (p : Position) (ks : Bool) :
    right (abs p) p.black ks =
      if (if ks then p.themK else p.themQ) = true then some (if ks then p.cf2 else p.cf3) else none := by
  cases hb : p.black <;> cases ks <;> cases h1 : p.themK <;> cases h2 : p.themQ <;>
    simp [right, abs, hb, h1, h2]

/-! ### V.6: en passant -/

theorem ep_num_of : ∀ e, e < 64 → ∀ t : Bool, rankOf e = 5 →
    rank (maybeFlip e t) = (if (!t) = true then 5 else 2) ∧ e - 8 < 64 ∧
    sq (file (maybeFlip e t)) (if (!t) = true then 4 else 3) = maybeFlip (e - 8) t := by
  decide

theorem ep_clause_of {p : Position} (hC : Consistent p = true)
    (hep : ∀ e, p.ep = some e → rankOf e = 5 ∧ p.occ.isSet e = false ∧ (p.c1 &&& p.p0).isSet (e - 8) = true) :
    (match (abs p).ep with
     | none => true
     | some e =>
       rank e == (if (abs p).whiteToMove then 5 else 2) && ((abs p).board e).isNone &&
       (abs p).board (sq (file e) (if (abs p).whiteToMove then 4 else 3)) ==
         some ⟨!(abs p).whiteToMove, .pawn⟩) = true := by
  cases he : p.ep with
  | none =>
    have : (abs p).ep = none := by simp [abs, he]
    rw [this]
  | some e =>
    have hae : (abs p).ep = some (maybeFlip e p.black) := by simp [abs, he, absSq, maybeFlip]
    obtain ⟨hr, hocc, hpawn⟩ := hep e he
    have he64 : e < 64 := by unfold rankOf at hr; omega
    obtain ⟨n1, n2, n3⟩ := ep_num_of e he64 p.black hr
    have hw : (abs p).whiteToMove = !p.black := rfl
    have hbd : (abs p).board = absBoard p := rfl
    simp only [BB.isSet, Position.occ, BitVec.getLsbD_or, Bool.or_eq_false_iff] at hocc hpawn
    rw [hae]
    simp only [hw, hbd, Bool.not_not]
    rw [n1, n3, absBoard_empty_of p he64 hocc.1 hocc.2, absBoard_pawn_them_of hC n2 hpawn]
    simp

/-! ### V.4: the side not to move is not in check -/

theorem inCheck_clause_of {p : Position} (hC : Consistent p = true)
    (hk0 : count (p.c0 &&& p.p5) = 1) (hk1 : count (p.c1 &&& p.p5) = 1)
    (hatt : p.isSqAttacked (lsb (p.c1 &&& p.p5)) false = false) :
    inCheck (abs p).board (!(abs p).whiteToMove) = false := by
  have hw : (!(abs p).whiteToMove) = p.black := by
    show (!(!p.black)) = p.black
    exact Bool.not_not _
  rw [hw, ← C08d_inCheckThem p hC (by rw [BitVec.and_comm]; omega) (by rw [BitVec.and_comm]; exact hk1)]
  unfold Position.inCheckThem
  rw [BitVec.and_comm]
  exact hatt

/-! ### assembly -/

/-- the king counts per relative side, from the per-colour counts. -/
theorem king_counts_rel {p : Position} (hw : count (p.white &&& p.p5) = 1)
    (hb : count (p.blackBB &&& p.p5) = 1) : count (p.c0 &&& p.p5) = 1 ∧ count (p.c1 &&& p.p5) = 1 := by
  cases h : p.black <;>
    simp only [Position.white, Position.blackBB, h, if_true, if_false, Bool.false_eq_true] at hw hb
  · exact ⟨hw, hb⟩
  · exact ⟨hb, hw⟩

theorem spec_valid_of_structural {p : Position} (h : StructurallyValid p) : Spec.Valid (abs p) = true := by
  have hC := h.consistent
  obtain ⟨hk0, hk1⟩ := king_counts_rel h.whiteKing h.blackKing
  have kus := king_count hC
  have kthem := king_count_them hC
  rw [hk0] at kus
  rw [hk1] at kthem
  apply valid_intro
  · cases hb : p.black
    · rw [hb] at kus; exact kus
    · rw [hb] at kthem; exact kthem
  · cases hb : p.black
    · rw [hb] at kthem; exact kthem
    · rw [hb] at kus; exact kus
  · exact pawn_clause_of hC h.noPawnsOnEnds
  · exact inCheck_clause_of hC hk0 hk1 h.notInCheck
  · have hus : ∀ ks, (match right (abs p) (!p.black) ks with
        | none => true
        | some f =>
          decide (f < 8) && (abs p).board (sq f (homeRank (!p.black))) == some ⟨!p.black, .rook⟩ &&
          (match kingSquares (abs p).board (!p.black) with
           | [k] => rank k == homeRank (!p.black) && (if ks then file k < f else (f : Int) < file k)
           | _ => false)) = true := by
      intro ks
      rw [right_us_eq]
      cases ks
      · simp only [Bool.false_eq_true, if_false]
        cases hq : p.usQ
        · simp
        · obtain ⟨a, b, c, d⟩ := h.usQ hq
          simp only [if_true]
          exact castle_us_of hC hk0 false a b c (by simpa using d)
      · simp only [if_true]
        cases hq : p.usK
        · simp
        · obtain ⟨a, b, c, d⟩ := h.usK hq
          simp only [if_true]
          exact castle_us_of hC hk0 true a b c (by simpa using d)
    have hthem : ∀ ks, (match right (abs p) p.black ks with
        | none => true
        | some f =>
          decide (f < 8) && (abs p).board (sq f (homeRank p.black)) == some ⟨p.black, .rook⟩ &&
          (match kingSquares (abs p).board p.black with
           | [k] => rank k == homeRank p.black && (if ks then file k < f else (f : Int) < file k)
           | _ => false)) = true := by
      intro ks
      rw [right_them_eq]
      cases ks
      · simp only [Bool.false_eq_true, if_false]
        cases hq : p.themQ
        · simp
        · obtain ⟨a, b, c, d⟩ := h.themQ hq
          simp only [if_true]
          exact castle_them_of hC hk1 false a b c (by simpa using d)
      · simp only [if_true]
        cases hq : p.themK
        · simp
        · obtain ⟨a, b, c, d⟩ := h.themK hq
          simp only [if_true]
          exact castle_them_of hC hk1 true a b c (by simpa using d)
    intro w ks
    cases hb : p.black
    · rw [hb] at hus hthem
      cases w
      · exact hthem ks
      · exact hus ks
    · rw [hb] at hus hthem
      cases w
      · exact hus ks
      · exact hthem ks
  · exact ep_clause_of hC h.ep
  · exact h.half0
  · exact h.full1

end Rawr.FenValid
