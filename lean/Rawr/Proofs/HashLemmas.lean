import Rawr.Proofs.XorFold
import Rawr.Spec.Zobrist
import Rawr.Abs
/-! Helper lemmas for C04: bits of `bit`/`flipBB`, the key recomputation as a GF(2)-linear functional
of the boards, its behaviour under `flip`. -/
namespace Rawr.ZH
open Rawr Rawr.Position

/-! ### bits -/

theorem getLsbD_bit (s i : Nat) : (bit s).getLsbD i = (decide (i = s) && decide (i < 64)) := by
  unfold bit
  rw [BitVec.getLsbD_shiftLeft, BitVec.getLsbD_one]
  by_cases h : i = s
  · subst h; by_cases h2 : i < 64 <;> simp [h2]
  · by_cases h2 : i < s
    · simp [h, h2]
    · have : ¬ (i - s = 0) := by omega
      simp [h, this]

theorem getLsbD_flipBB (b : BB) (i : Nat) (h : i < 64) :
    (flipBB b).getLsbD i = b.getLsbD (i ^^^ 56) := by
  unfold flipBB
  simp only [BitVec.getLsbD_or, BitVec.getLsbD_and, BitVec.getLsbD_shiftLeft,
    BitVec.getLsbD_ushiftRight]
  iterate 64 (rcases i with _ | i; · simp [BitVec.getLsbD_of_ge])
  omega

theorem xor56_lt {s : Nat} (h : s < 64) : s ^^^ 56 < 64 :=
  Nat.xor_lt_two_pow (n := 6) h (by decide)

theorem xor56_xor56 (s : Nat) : s ^^^ 56 ^^^ 56 = s := by
  rw [Nat.xor_assoc, Nat.xor_self, Nat.xor_zero]

theorem xor56_mod8 (s : Nat) : (s ^^^ 56) % 8 = s % 8 := by
  have := @Nat.xor_mod_two_pow s 56 3
  simpa using this

theorem maybeFlip_lt {s : Nat} (t : Bool) (h : s < 64) : maybeFlip s t < 64 := by
  unfold maybeFlip; cases t
  · exact h
  · exact xor56_lt h

theorem maybeFlip_maybeFlip (s : Nat) (t : Bool) : maybeFlip (maybeFlip s t) t = s := by
  unfold maybeFlip; cases t
  · rfl
  · exact xor56_xor56 s

theorem maybeFlip_eq_iff (a s : Nat) (t : Bool) : maybeFlip a t = s ↔ a = maybeFlip s t := by
  constructor
  · intro h; rw [← h, maybeFlip_maybeFlip]
  · intro h; rw [h, maybeFlip_maybeFlip]

theorem flipBB_xor (a b : BB) : flipBB (a ^^^ b) = flipBB a ^^^ flipBB b := by
  apply BitVec.eq_of_getLsbD_eq
  intro i hi
  simp only [BitVec.getLsbD_xor, getLsbD_flipBB _ i hi]

theorem flipBB_and (a b : BB) : flipBB (a &&& b) = flipBB a &&& flipBB b := by
  apply BitVec.eq_of_getLsbD_eq
  intro i hi
  simp only [BitVec.getLsbD_and, getLsbD_flipBB _ i hi]

theorem flipBB_flipBB (b : BB) : flipBB (flipBB b) = b := by
  apply BitVec.eq_of_getLsbD_eq
  intro i hi
  rw [getLsbD_flipBB _ i hi, getLsbD_flipBB _ _ (xor56_lt hi), xor56_xor56]

/-! ### the piece part of the key as a linear functional -/

/-- `⊕` over the absolute squares `a` whose mover-relative image `maybeFlip a t` is set in `bb`
of the key of a `(c, k)` piece on `a`. -/
def LA (K : ZKeys) (c : Bool) (k : Nat) (t : Bool) (bb : BB) : BB :=
  xorSum (fun a => if bb.getLsbD (maybeFlip a t) then K.piece (zIndex c k a) else 0#64) (List.range 64)

theorem xorSquares_eq (K : ZKeys) (c : Bool) (k : Nat) (t : Bool) (bb h : BB) :
    xorSquares K c k (whitePov bb t) h = h ^^^ LA K c k t bb := by
  unfold xorSquares LA toList
  rw [foldl_eq_xorSum, xorSum_filter]
  congr 1
  apply xorSum_congr
  intro i hi
  have hi := List.mem_range.mp hi
  cases t
  · rfl
  · simp only [whitePov, maybeFlip, if_true, getLsbD_flipBB _ i hi]

theorem LA_xor (K : ZKeys) (c : Bool) (k : Nat) (t : Bool) (a b : BB) :
    LA K c k t (a ^^^ b) = LA K c k t a ^^^ LA K c k t b := by
  unfold LA
  rw [← xorSum_xor]
  apply xorSum_congr
  intro i _
  rw [BitVec.getLsbD_xor]
  cases a.getLsbD (maybeFlip i t) <;> cases b.getLsbD (maybeFlip i t) <;> simp

theorem LA_zero (K : ZKeys) (c : Bool) (k : Nat) (t : Bool) : LA K c k t 0#64 = 0#64 := by
  unfold LA
  simp [xorSum_zero]

theorem LA_bit (K : ZKeys) (c : Bool) (k : Nat) (t : Bool) {s : Nat} (hs : s < 64) :
    LA K c k t (bit s) = K.piece (zIndex c k (maybeFlip s t)) := by
  unfold LA
  rw [← xorSum_single_range (K.piece (zIndex c k (maybeFlip s t))) (maybeFlip_lt t hs)]
  apply xorSum_congr
  intro i hi
  have hi := List.mem_range.mp hi
  rw [getLsbD_bit]
  have h2 : maybeFlip i t < 64 := maybeFlip_lt t hi
  simp only [h2, decide_true, Bool.and_true, decide_eq_true_eq, maybeFlip_eq_iff]
  split
  · next h => rw [h]
  · rfl

/-! ### decomposition of `calculateHashK` -/

/-- key of the pieces: `c0` are the mover's (`t` = mover is Black), `c1` the opponent's; `P k` the board of kind `k`. -/
def pieceKey (K : ZKeys) (t : Bool) (c0 c1 : BB) (P : Nat → BB) : BB :=
  (LA K t 0 t (c0 &&& P 0) ^^^ LA K (!t) 0 t (c1 &&& P 0)) ^^^
  (LA K t 1 t (c0 &&& P 1) ^^^ LA K (!t) 1 t (c1 &&& P 1)) ^^^
  (LA K t 2 t (c0 &&& P 2) ^^^ LA K (!t) 2 t (c1 &&& P 2)) ^^^
  (LA K t 3 t (c0 &&& P 3) ^^^ LA K (!t) 3 t (c1 &&& P 3)) ^^^
  (LA K t 4 t (c0 &&& P 4) ^^^ LA K (!t) 4 t (c1 &&& P 4)) ^^^
  (LA K t 5 t (c0 &&& P 5) ^^^ LA K (!t) 5 t (c1 &&& P 5))

def epKey (K : ZKeys) : Option Nat → BB
  | some e => K.ep (fileOf e)
  | none => 0#64

def onKey (c : Bool) (k : BB) : BB := if c then k else 0#64

/-- key of en-passant file, castling rights (mover's K,Q; opponent's K,Q) and turn. -/
def metaKey (K : ZKeys) (t : Bool) (ep : Option Nat) (uK uQ tK tQ : Bool) : BB :=
  epKey K ep ^^^ onKey uK (K.castling (2 * col t)) ^^^ onKey uQ (K.castling (2 * col t + 1)) ^^^
    onKey tK (K.castling (2 * col (!t))) ^^^ onKey tQ (K.castling (2 * col (!t) + 1)) ^^^ onKey t K.turn

theorem xorIf_eq (c : Bool) (k h : BB) : xorIf c k h = h ^^^ onKey c k := by
  cases c <;> simp [xorIf, onKey]

theorem calc_eq (K : ZKeys) (p : Position) :
    calculateHashK K p =
      pieceKey K p.black p.c0 p.c1 p.piece ^^^ metaKey K p.black p.ep p.usK p.usQ p.themK p.themQ := by
  unfold calculateHashK pieceKey metaKey
  simp only [xorSquares_eq, xorIf_eq, Position.piece, Position.white, Position.blackBB]
  cases p.ep <;> cases p.black <;>
    simp only [epKey, Bool.false_eq_true, if_false, if_true, Bool.not_true, Bool.not_false, BitVec.zero_xor] <;>
    ac_rfl

/-! ### `flip` changes the key only through the turn key -/

theorem LA_flip (K : ZKeys) (c : Bool) (k : Nat) (t : Bool) (bb : BB) :
    LA K c k (!t) (flipBB bb) = LA K c k t bb := by
  unfold LA
  apply xorSum_congr
  intro i hi
  have hi := List.mem_range.mp hi
  cases t
  · simp only [maybeFlip, Bool.not_false, if_true, Bool.false_eq_true, if_false,
      getLsbD_flipBB _ _ (xor56_lt hi), xor56_xor56]
  · simp only [maybeFlip, Bool.not_true, if_true, Bool.false_eq_true, if_false, getLsbD_flipBB _ _ hi]

theorem pieceKey_flip (K : ZKeys) (t : Bool) (c0 c1 : BB) (P : Nat → BB) :
    pieceKey K (!t) (flipBB c1) (flipBB c0) (fun k => flipBB (P k)) = pieceKey K t c0 c1 P := by
  unfold pieceKey
  simp only [← flipBB_and, LA_flip, Bool.not_not]
  ac_rfl

theorem epKey_flip (K : ZKeys) (ep : Option Nat) : epKey K (ep.map flipSq) = epKey K ep := by
  cases ep with
  | none => rfl
  | some e => simp only [Option.map_some, epKey, fileOf, flipSq, xor56_mod8]

theorem metaKey_flip (K : ZKeys) (t : Bool) (ep : Option Nat) (uK uQ tK tQ : Bool) :
    metaKey K (!t) (ep.map flipSq) tK tQ uK uQ = metaKey K t ep uK uQ tK tQ ^^^ K.turn := by
  unfold metaKey
  rw [epKey_flip]
  cases t <;> simp only [onKey, Bool.not_true, Bool.not_false, Bool.false_eq_true, if_false, if_true,
    BitVec.xor_zero, BitVec.xor_assoc, BitVec.xor_self] <;> ac_rfl

theorem flip_piece_fun (p : Position) : p.flip.piece = fun k => flipBB (p.piece k) := by
  funext k
  unfold Position.piece
  split <;> first | rfl | decide

/-- the recomputed key of the flipped position differs by exactly the turn key. -/
theorem calc_flip (K : ZKeys) (p : Position) :
    calculateHashK K p.flip = calculateHashK K p ^^^ K.turn := by
  rw [calc_eq, calc_eq, flip_piece_fun]
  show pieceKey K (!p.black) (flipBB p.c1) (flipBB p.c0) _ ^^^
      metaKey K (!p.black) (p.ep.map flipSq) p.themK p.themQ p.usK p.usQ = _
  rw [pieceKey_flip, metaKey_flip, BitVec.xor_assoc]

end Rawr.ZH
