import Rawr.Abs
import Rawr.Proofs.EvalLemmas
import Rawr.Proofs.EvalBound
import Rawr.Proofs.EvalDomain
/-! Under board consistency (V.1) the eight boards of an engine position are determined by its
colour flag and its absolute board (`absBoard`): the abstraction is injective on the boards. Used to
state colour-blindness of the evaluation purely in terms of `Rawr.abs` (core Lean only). -/
namespace Rawr
open Spec

/-- The content of one square as a function of the eight board bits there (mirrors `absBoard`). -/
def evCellOf (bl c0 c1 b0 b1 b2 b3 b4 b5 : Bool) : Option Piece :=
  match (if b0 then some 0 else if b1 then some 1 else if b2 then some 2 else if b3 then some 3
    else if b4 then some 4 else if b5 then some 5 else (none : Option Nat)) with
  | none => none
  | some k =>
    if c0 then some ⟨!bl, kindOf k⟩ else if c1 then some ⟨bl, kindOf k⟩ else none

theorem absBoard_eq_evCellOf (p : Position) {s : Nat} (hs : s < 64) :
    absBoard p (absSq p.black s) =
      evCellOf p.black (p.c0.getLsbD s) (p.c1.getLsbD s) (p.p0.getLsbD s) (p.p1.getLsbD s)
        (p.p2.getLsbD s) (p.p3.getLsbD s) (p.p4.getLsbD s) (p.p5.getLsbD s) := by
  unfold absBoard
  simp only [absSq_lt p.black hs, if_true, absSq_absSq]
  rfl

/-- consistency of the eight bits of one square. -/
def evCellOk (c0 c1 b0 b1 b2 b3 b4 b5 : Bool) : Bool :=
  !(c0 && c1) && !(b0 && b1) && !(b0 && b2) && !(b0 && b3) && !(b0 && b4) && !(b0 && b5) &&
  !(b1 && b2) && !(b1 && b3) && !(b1 && b4) && !(b1 && b5) && !(b2 && b3) && !(b2 && b4) &&
  !(b2 && b5) && !(b3 && b4) && !(b3 && b5) && !(b4 && b5) &&
  ((c0 || c1) == (b0 || b1 || b2 || b3 || b4 || b5))

theorem evCellOk_of_Consistent {p : Position} (h : Consistent p = true) (s : Nat) :
    evCellOk (p.c0.getLsbD s) (p.c1.getLsbD s) (p.p0.getLsbD s) (p.p1.getLsbD s)
      (p.p2.getLsbD s) (p.p3.getLsbD s) (p.p4.getLsbD s) (p.p5.getLsbD s) = true := by
  unfold Consistent at h
  simp only [Bool.and_eq_true, beq_iff_eq] at h
  obtain ⟨⟨⟨⟨⟨⟨⟨⟨⟨⟨⟨⟨⟨⟨⟨⟨h0, h1⟩, h2⟩, h3⟩, h4⟩, h5⟩, h6⟩, h7⟩, h8⟩, h9⟩, h10⟩, h11⟩, h12⟩, h13⟩,
    h14⟩, h15⟩, hu⟩ := h
  have hu' := congrArg (fun v => BitVec.getLsbD v s) hu
  simp only [BitVec.getLsbD_or] at hu'
  unfold evCellOk
  simp only [getLsbD_of_and_eq_zero h0 s, getLsbD_of_and_eq_zero h1 s, getLsbD_of_and_eq_zero h2 s,
    getLsbD_of_and_eq_zero h3 s, getLsbD_of_and_eq_zero h4 s, getLsbD_of_and_eq_zero h5 s,
    getLsbD_of_and_eq_zero h6 s, getLsbD_of_and_eq_zero h7 s, getLsbD_of_and_eq_zero h8 s,
    getLsbD_of_and_eq_zero h9 s, getLsbD_of_and_eq_zero h10 s, getLsbD_of_and_eq_zero h11 s,
    getLsbD_of_and_eq_zero h12 s, getLsbD_of_and_eq_zero h13 s, getLsbD_of_and_eq_zero h14 s,
    getLsbD_of_and_eq_zero h15 s, hu', Bool.not_false, Bool.true_and, beq_self_eq_true]

/-- The bits of a consistent square can be read back from its content. -/
theorem evCellOf_inj : ∀ bl c0 c1 b0 b1 b2 b3 b4 b5 : Bool, evCellOk c0 c1 b0 b1 b2 b3 b4 b5 = true →
    let c := evCellOf bl c0 c1 b0 b1 b2 b3 b4 b5
    c0 = (match c with | some pc => pc.white == !bl | none => false) ∧
    c1 = (match c with | some pc => pc.white == bl | none => false) ∧
    b0 = (match c with | some pc => pc.kind == .pawn | none => false) ∧
    b1 = (match c with | some pc => pc.kind == .knight | none => false) ∧
    b2 = (match c with | some pc => pc.kind == .bishop | none => false) ∧
    b3 = (match c with | some pc => pc.kind == .rook | none => false) ∧
    b4 = (match c with | some pc => pc.kind == .queen | none => false) ∧
    b5 = (match c with | some pc => pc.kind == .king | none => false) := by
  decide

/-- Injectivity of the abstraction on the boards. -/
theorem sameBoards_of_absBoard_eq {p q : Position} (hp : Consistent p = true)
    (hq : Consistent q = true) (hb : p.black = q.black) (h : absBoard p = absBoard q) :
    SameBoards p q := by
  have key : ∀ s, s < 64 →
      p.c0.getLsbD s = q.c0.getLsbD s ∧ p.c1.getLsbD s = q.c1.getLsbD s ∧
      p.p0.getLsbD s = q.p0.getLsbD s ∧ p.p1.getLsbD s = q.p1.getLsbD s ∧
      p.p2.getLsbD s = q.p2.getLsbD s ∧ p.p3.getLsbD s = q.p3.getLsbD s ∧
      p.p4.getLsbD s = q.p4.getLsbD s ∧ p.p5.getLsbD s = q.p5.getLsbD s := by
    intro s hs
    have e1 := absBoard_eq_evCellOf p hs
    have e2 := absBoard_eq_evCellOf q hs
    rw [h, hb, e2] at e1
    have i1 := evCellOf_inj p.black _ _ _ _ _ _ _ _ (evCellOk_of_Consistent hp s)
    have i2 := evCellOf_inj q.black _ _ _ _ _ _ _ _ (evCellOk_of_Consistent hq s)
    simp only [hb] at i1
    simp only [e1] at i2
    obtain ⟨a0, a1, a2, a3, a4, a5, a6, a7⟩ := i1
    obtain ⟨b0, b1, b2, b3, b4, b5, b6, b7⟩ := i2
    exact ⟨a0.trans b0.symm, a1.trans b1.symm, a2.trans b2.symm, a3.trans b3.symm,
      a4.trans b4.symm, a5.trans b5.symm, a6.trans b6.symm, a7.trans b7.symm⟩
  refine ⟨?_, ?_, ?_, ?_, ?_, ?_, ?_, ?_⟩ <;> apply BitVec.eq_of_getLsbD_eq <;> intro s hs
  · exact (key s hs).1
  · exact (key s hs).2.1
  · exact (key s hs).2.2.1
  · exact (key s hs).2.2.2.1
  · exact (key s hs).2.2.2.2.1
  · exact (key s hs).2.2.2.2.2.1
  · exact (key s hs).2.2.2.2.2.2.1
  · exact (key s hs).2.2.2.2.2.2.2

end Rawr
