import Rawr.Proofs.SpecSanityPerftStart
import Rawr.Proofs.SpecSanityPerftStart3_00
import Rawr.Proofs.SpecSanityPerftStart3_01
import Rawr.Proofs.SpecSanityPerftStart3_02
import Rawr.Proofs.SpecSanityPerftStart3_03
import Rawr.Proofs.SpecSanityPerftStart3_04
import Rawr.Proofs.SpecSanityPerftStart3_05
import Rawr.Proofs.SpecSanityPerftStart3_06
import Rawr.Proofs.SpecSanityPerftStart3_07
import Rawr.Proofs.SpecSanityPerftStart3_08
import Rawr.Proofs.SpecSanityPerftStart3_09
import Rawr.Proofs.SpecSanityPerftStart3_10
import Rawr.Proofs.SpecSanityPerftStart3_11
import Rawr.Proofs.SpecSanityPerftStart3_12
import Rawr.Proofs.SpecSanityPerftStart3_13
import Rawr.Proofs.SpecSanityPerftStart3_14
import Rawr.Proofs.SpecSanityPerftStart3_15
import Rawr.Proofs.SpecSanityPerftStart3_16
import Rawr.Proofs.SpecSanityPerftStart3_17
import Rawr.Proofs.SpecSanityPerftStart3_18
import Rawr.Proofs.SpecSanityPerftStart3_19
/-!
# Sanity of the specification, part 5: perft 3 of the standard start position is 8902

Assembled from the twenty depth-2 subtrees (`SpecSanityPerftStart3_00` … `_19`, one kernel evaluation each).
-/
namespace Rawr.SpecS
open Rawr.Spec

theorem leaves_start_3 : leaves stdStart 3 = 8902 := by
  rw [leaves_succ_of start_moves 2]
  simp only [List.map_cons, List.map_nil, List.sum_cons, List.sum_nil, start3_00, start3_01, start3_02, start3_03, start3_04, start3_05, start3_06, start3_07, start3_08, start3_09, start3_10, start3_11, start3_12, start3_13, start3_14, start3_15, start3_16, start3_17, start3_18, start3_19]
  rfl

end Rawr.SpecS
