import Rawr.Model.Basic
import Rawr.Model.Rays
import Rawr.Spec.Walk
/-!
# Bitboards as sets of squares: `setBB`, single bits, and maps that distribute over `|||`

Used by C10 (leaper sets, ray fills). Core Lean only.
-/
namespace Rawr
open Spec

theorem bit_eq (s : Nat) : bit s = 1#64 <<< s := rfl

theorem getLsbD_bit (s t : Nat) : (bit s).getLsbD t = (decide (t < 64) && decide (t = s)) := by
  rw [bit_eq, BitVec.getLsbD_shiftLeft, BitVec.getLsbD_one]
  by_cases h1 : t < 64 <;> by_cases h2 : t = s <;> by_cases h3 : t < s <;>
    simp [h1, h2, h3] <;> omega

theorem getLsbD_setBB (l : List Nat) (t : Nat) :
    (setBB l).getLsbD t = (decide (t < 64) && l.contains t) := by
  induction l with
  | nil => simp [setBB]
  | cons x xs ih =>
    have e : setBB (x :: xs) = bit x ||| setBB xs := rfl
    rw [e, BitVec.getLsbD_or, ih, getLsbD_bit, List.contains_cons]
    by_cases h1 : t < 64
    · by_cases h2 : t = x
      · subst h2; simp [h1]
      · simp [h1, h2]
    · simp [h1]

theorem setBB_append (a b : List Nat) : setBB (a ++ b) = setBB a ||| setBB b := by
  induction a with
  | nil => simp [setBB]
  | cons t ts ih =>
    have e : setBB (t :: ts ++ b) = bit t ||| setBB (ts ++ b) := rfl
    have e' : setBB (t :: ts) = bit t ||| setBB ts := rfl
    rw [e, ih, e', BitVec.or_assoc]

theorem setBB_nil : setBB [] = 0#64 := rfl
theorem setBB_cons (t : Nat) (l : List Nat) : setBB (t :: l) = bit t ||| setBB l := rfl

/-- membership form of `walkBB`. -/
theorem getLsbD_walkBB (dirs : List (Int × Int)) (s : Nat) (occ : BB) (t : Nat) :
    (walkBB dirs s occ).getLsbD t = (decide (t < 64) && walkSet4 dirs s occ.getLsbD t) := by
  unfold walkBB walkSet4 walkList
  rw [getLsbD_setBB]
  congr 1
  induction dirs with
  | nil => rfl
  | cons d ds ih =>
    simp only [List.contains_eq_mem] at ih
    simp only [List.flatMap_cons, List.any_cons, List.contains_eq_mem, List.mem_append,
      Bool.decide_or, ih]

/-! ### maps that distribute over unions -/

/-- `F` distributes over unions ("shifts and masks distribute over `|||`"). -/
def Linear (F : BB → BB) : Prop := F 0#64 = 0#64 ∧ ∀ a b, F (a ||| b) = F a ||| F b

theorem Linear.id : Linear (fun b => b) := ⟨rfl, fun _ _ => rfl⟩
theorem Linear.comp {F G : BB → BB} (hF : Linear F) (hG : Linear G) : Linear (fun b => F (G b)) :=
  ⟨by simp only [hG.1, hF.1], fun a b => by simp only [hG.2, hF.2]⟩
theorem Linear.or {F G : BB → BB} (hF : Linear F) (hG : Linear G) : Linear (fun b => F b ||| G b) :=
  ⟨by simp only [hG.1, hF.1, BitVec.or_zero], fun a b => by
    simp only [hG.2, hF.2]; ext i; simp only [BitVec.getElem_or]; cases (F a)[i] <;> cases (G a)[i] <;>
      cases (F b)[i] <;> cases (G b)[i] <;> rfl⟩
theorem Linear.shl (n : Nat) : Linear (fun b => b <<< n) :=
  ⟨by simp, fun a b => BitVec.shiftLeft_or_distrib a b n⟩
theorem Linear.shr (n : Nat) : Linear (fun b => b >>> n) :=
  ⟨by simp, fun a b => BitVec.ushiftRight_or_distrib a b n⟩
theorem Linear.and (m : BB) : Linear (fun b => b &&& m) :=
  ⟨by simp, fun _ _ => BitVec.and_or_distrib_right⟩

theorem linear_north : Linear north := Linear.shl 8
theorem linear_south : Linear south := Linear.shr 8
theorem Linear.shl_and (n : Nat) (m : BB) : Linear (fun b => (b <<< n) &&& m) :=
  Linear.comp (F := fun b => b &&& m) (G := fun b => b <<< n) (Linear.and m) (Linear.shl n)
theorem Linear.shr_and (n : Nat) (m : BB) : Linear (fun b => (b >>> n) &&& m) :=
  Linear.comp (F := fun b => b &&& m) (G := fun b => b >>> n) (Linear.and m) (Linear.shr n)
theorem linear_east : Linear east := Linear.shl_and 1 notAFile
theorem linear_west : Linear west := Linear.shr_and 1 notHFile
theorem linear_northEast : Linear northEast := Linear.shl_and 9 notAFile
theorem linear_northWest : Linear northWest := Linear.shl_and 7 notHFile
theorem linear_southEast : Linear southEast := Linear.shr_and 7 notAFile
theorem linear_southWest : Linear southWest := Linear.shr_and 9 notHFile

/-- union of a list of bitboards. -/
def orList (l : List BB) : BB := l.foldr (· ||| ·) 0#64

theorem getLsbD_orList (l : List BB) (t : Nat) : (orList l).getLsbD t = l.any (·.getLsbD t) := by
  induction l with
  | nil => simp [orList]
  | cons x xs ih =>
    have e : orList (x :: xs) = x ||| orList xs := rfl
    rw [e, BitVec.getLsbD_or, ih, List.any_cons]

theorem Linear.orList {F : BB → BB} (hF : Linear F) (l : List BB) :
    F (Rawr.orList l) = Rawr.orList (l.map F) := by
  induction l with
  | nil => exact hF.1
  | cons x xs ih =>
    have e : Rawr.orList (x :: xs) = x ||| Rawr.orList xs := rfl
    rw [e, hF.2, ih]; rfl

/-- a bitboard is the union of its single bits. -/
theorem eq_orList_bits (b : BB) :
    b = orList ((List.range 64).map fun s => if b.getLsbD s then bit s else 0#64) := by
  apply BitVec.eq_of_getLsbD_eq
  intro i hi
  rw [getLsbD_orList, List.any_map]
  cases hb : b.getLsbD i
  · symm
    rw [List.any_eq_false]
    intro s _
    simp only [Function.comp]
    split
    · rename_i hs
      rw [getLsbD_bit]
      have : i ≠ s := by intro h; subst h; simp [hb] at hs
      simp [this]
    · simp
  · symm
    rw [List.any_eq_true]
    refine ⟨i, List.mem_range.mpr hi, ?_⟩
    simp only [Function.comp, hb, if_true, getLsbD_bit, hi, decide_true, Bool.and_self]

/-- A map distributing over unions is determined by its values on single squares:
`t ∈ F b ↔ ∃ s ∈ b, t ∈ F {s}`. -/
theorem Linear.getLsbD {F : BB → BB} (hF : Linear F) (b : BB) (t : Nat) :
    (F b).getLsbD t = (List.range 64).any fun s => b.getLsbD s && (F (bit s)).getLsbD t := by
  conv => lhs; rw [eq_orList_bits b]
  rw [hF.orList, getLsbD_orList, List.map_map, List.any_map]
  congr 1
  funext s
  simp only [Function.comp]
  cases b.getLsbD s
  · simp [hF.1]
  · simp

theorem any_range_congr {n : Nat} {p q : Nat → Bool} (h : ∀ s, s < n → p s = q s) :
    (List.range n).any p = (List.range n).any q := by
  rw [Bool.eq_iff_iff]
  simp only [List.any_eq_true, List.mem_range]
  constructor
  · rintro ⟨s, hs, hp⟩; exact ⟨s, hs, by rw [← h s hs]; exact hp⟩
  · rintro ⟨s, hs, hp⟩; exact ⟨s, hs, by rw [h s hs]; exact hp⟩

/-- the union form: `F b = ⋃ s ∈ b, F {s}`. -/
theorem Linear.eq_orList {F : BB → BB} (hF : Linear F) (b : BB) :
    F b = Rawr.orList (((List.range 64).filter b.getLsbD).map fun s => F (bit s)) := by
  apply BitVec.eq_of_getLsbD_eq
  intro t _
  rw [hF.getLsbD, getLsbD_orList, List.any_map, List.any_filter]
  rfl

end Rawr
