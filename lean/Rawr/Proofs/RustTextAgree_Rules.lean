import Rawr.Proofs.RustTextAgree_GetFenRules
import Rawr.Proofs.RustTextAgree_Uci
import Rawr.Props.C03_rules
/-!
# The text-side agreement theorems on the positions the properties quantify over

`agree_to_uci`, `agree_get_fen`, `agree_moves(_ix)`, `agree_position` carry side conditions (on-board squares and castle
files, legal moves between on-board squares along the game).  Here they are discharged for valid positions:
`ValidPos` gives the board facts `VFacts` (en-passant square `< 64`, castle files `< 8`) and the generator shape
`GenOk` (`src, dst < 64`); along a list of move tokens the family `VE n` of Props/C03_rules.lean ("`V ∧ E`, counter
room for `n + 64` plies") is closed under generated moves (`searchDomC_VE.move`; `E` is needed there because
preservation of validity goes through `C01_sound`, which needs `EpConsistent`) and decreasing in `n`.

What remains in `agree_position_rules`: that the position `set_fen` ACCEPTS lies in `VE (number of move tokens)`.
The project proves `setFen .. = some p → StructurallyValid p` (C07a), not `ValidPos p` (V.4 there is the model's own
attack test, castle files are bounded only for the rights that are set), and `EpConsistent` is not implied by
acceptance at all (an en-passant square whose double push would have left the mover in check is accepted).
-/
namespace Rawr
open Position Spec

theorem movesOnBoard_of_valid {p : Position} (hV : ValidPos p = true) : MovesOnBoard p := by
  intro m hm
  unfold legalMoves at hm
  rw [List.mem_map] at hm
  obtain ⟨g, hg, rfl⟩ := hm
  have ok := gen_shape_valid p hV g hg
  exact ⟨ok.src_lt, ok.dst_lt⟩

/-- `Mv::to_uci` on the generated moves of a valid position. -/
theorem agree_to_uci_rules (p : Position) (hV : ValidPos p = true) (m : Mv) (hm : m ∈ legalMoves p) :
    R.to_uci m p = some (toUciChars p m) :=
  agree_to_uci m p (movesOnBoard_of_valid hV m hm).1 (movesOnBoard_of_valid hV m hm).2

theorem VE_mono (n : Nat) (p : Position) (h : VE (n + 1) p) : VE n p := by
  obtain ⟨hV, hE, hh, hf⟩ := h
  exact ⟨hV, hE, by omega, by omega⟩

/-- **`uci::moves::moves`** on `V ∧ E` with counter room for the tokens: no other hypothesis. -/
theorem agree_moves_rules (toks : List (List Char)) (p : Position) (hist : List BB) (h : VE toks.length p) :
    R.moves toks p hist =
      (applyTokens toks p hist.reverse []).map fun r => (([] : List (List Char)), r.1, r.2.1.reverse, r.2.2) :=
  agree_moves_ix VE (fun _ _ h => movesOnBoard_of_valid h.1) VE_mono
    (fun n q m q' hq hm hk => searchDomC_VE.move n q m q' hq hm hk) toks p hist h

/-- **`uci::position::position`**: the only hypothesis left is that the accepted position is in `V ∧ E` with counter room
for the move tokens of the command (see the header). -/
theorem agree_position_rules (ar : Arith) (n : Nat) (s : UState) (hist0 : List BB) (toks : List (List Char))
    (hdom : ∀ p, setFen ar s.pos.frc (positionArgs toks).1 = some p → VE (positionArgs toks).2.length p) :
    (R.position (n + 2) ar toks s.pos hist0).map
        (fun r => (({ s with pos := { r.2.1 with frc := s.frc }, hist := r.2.2.1.reverse } : UState), r.2.2.2))
      = doPosition ar s toks :=
  agree_position VE (fun _ _ h => movesOnBoard_of_valid h.1) VE_mono
    (fun n q m q' hq hm hk => searchDomC_VE.move n q m q' hq hm hk) ar n s hist0 toks hdom

/-! non-vacuity -/
theorem VE_le {n m : Nat} {p : Position} (h : VE n p) (hm : m ≤ n) : VE m p := by
  obtain ⟨hV, hE, hh, hf⟩ := h
  exact ⟨hV, hE, by omega, by omega⟩

theorem startpos_VE' : VE 1000 Gen.startpos :=
  ⟨by decide +kernel, by decide +kernel, by decide +kernel, by decide +kernel⟩

example (hist : List BB) : R.moves ["e2e4".toList, "e7e5".toList] Gen.startpos hist =
    (applyTokens ["e2e4".toList, "e7e5".toList] Gen.startpos hist.reverse []).map
      fun r => (([] : List (List Char)), r.1, r.2.1.reverse, r.2.2) :=
  agree_moves_rules _ _ hist (VE_le startpos_VE' (by decide))

example (ar : Arith) : R.get_fen ar Gen.startpos = getFen Gen.startpos := agree_get_fen_rules ar _ startpos_VE'.1

/-- `position startpos moves ..`: the hypothesis of `agree_position_rules` is discharged by evaluation. -/
example (ar : Arith) (s : UState) (hs : s.pos.frc = false) (hist0 : List BB) :
    (R.position 2 ar ["startpos".toList, "moves".toList, "e2e4".toList] s.pos hist0).map
        (fun r => (({ s with pos := { r.2.1 with frc := s.frc }, hist := r.2.2.1.reverse } : UState), r.2.2.2))
      = doPosition ar s ["startpos".toList, "moves".toList, "e2e4".toList] := by
  apply agree_position_rules ar 0 s hist0
  intro p hp
  rw [hs] at hp
  have e : setFen ar false (positionArgs ["startpos".toList, "moves".toList, "e2e4".toList]).1 = some Gen.startpos := by
    cases ar <;> decide +kernel
  rw [e] at hp
  cases hp
  have hl : (positionArgs ["startpos".toList, "moves".toList, "e2e4".toList]).2.length = 1 := by decide
  rw [hl]
  exact VE_le startpos_VE' (by decide)
end Rawr

#print axioms Rawr.agree_to_uci_rules
#print axioms Rawr.agree_moves_rules
#print axioms Rawr.agree_position_rules
