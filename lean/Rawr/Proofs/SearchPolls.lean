import Rawr.Proofs.SearchHist
/-! Helper lemmas for C13 (the search does not depend on the poll counter unless the limit is a clock). -/
namespace Rawr

/-- limits that never consult the clock oracle. -/
def Limit.clockFree : Limit → Prop
  | .clock _ => False
  | _ => True

/-- equality of search states up to the `polls` counter. -/
def SState.eqUpToPolls (s t : SState) : Prop :=
  s.hist = t.hist ∧ s.tt = t.tt ∧ s.depth = t.depth ∧ s.seldepth = t.seldepth ∧ s.nodes = t.nodes ∧
    s.best = t.best

theorem SState.eqUpToPolls.refl (s : SState) : s.eqUpToPolls s := ⟨rfl, rfl, rfl, rfl, rfl, rfl⟩

theorem SState.eqUpToPolls.symm {s t : SState} (h : s.eqUpToPolls t) : t.eqUpToPolls s :=
  ⟨h.1.symm, h.2.1.symm, h.2.2.1.symm, h.2.2.2.1.symm, h.2.2.2.2.1.symm, h.2.2.2.2.2.symm⟩

theorem SState.eqUpToPolls.trans {s t u : SState} (h : s.eqUpToPolls t) (h' : t.eqUpToPolls u) :
    s.eqUpToPolls u :=
  ⟨h.1.trans h'.1, h.2.1.trans h'.2.1, h.2.2.1.trans h'.2.2.1, h.2.2.2.1.trans h'.2.2.2.1,
    h.2.2.2.2.1.trans h'.2.2.2.2.1, h.2.2.2.2.2.trans h'.2.2.2.2.2⟩

theorem SState.eqUpToPolls_iff (s t : SState) : s.eqUpToPolls t ↔ t = { s with polls := t.polls } := by
  cases s; cases t
  simp only [SState.eqUpToPolls, SState.mk.injEq, and_true]
  constructor
  · rintro ⟨h1, h2, h3, h4, h5, h6⟩; exact ⟨h1.symm, h2.symm, h3.symm, h4.symm, h5.symm, h6.symm⟩
  · rintro ⟨h1, h2, h3, h4, h5, h6⟩; exact ⟨h1.symm, h2.symm, h3.symm, h4.symm, h5.symm, h6.symm⟩

/-- two search results agree up to the poll counter. -/
def ResEq : Option (Int × SState) → Option (Int × SState) → Prop
  | none, none => True
  | some (v, s), some (w, t) => v = w ∧ s.eqUpToPolls t
  | _, _ => False

theorem ResEq.cases {r1 r2 : Option (Int × SState)} (h : ResEq r1 r2) :
    (r1 = none ∧ r2 = none) ∨ ∃ v s k, r1 = some (v, s) ∧ r2 = some (v, { s with polls := k }) := by
  match r1, r2, h with
  | none, none, _ => exact Or.inl ⟨rfl, rfl⟩
  | some (v, s), some (w, t), h =>
    right
    obtain ⟨rfl, h⟩ := h
    exact ⟨v, s, t.polls, rfl, by rw [(SState.eqUpToPolls_iff s t).1 h]⟩

theorem ResEq.some_set (v : Int) (s : SState) (k k' : Nat) :
    ResEq (some (v, { s with polls := k })) (some (v, { s with polls := k' })) :=
  ⟨rfl, rfl, rfl, rfl, rfl, rfl, rfl⟩

/-- a recursive call is insensitive to the poll counter. -/
def RecPolls (rec : Position → SState → Int → Int → Int → Int → Bool → Option (Int × SState)) : Prop :=
  ∀ np s a b pl d c k, ResEq (rec np s a b pl d c) (rec np { s with polls := k } a b pl d c)

def LoopEq : Option (SState × Int × Int × Option Mv) → Option (SState × Int × Int × Option Mv) → Prop
  | none, none => True
  | some (s, x), some (t, y) => s.eqUpToPolls t ∧ x = y
  | _, _ => False

theorem LoopEq.cases {r1 r2 : Option (SState × Int × Int × Option Mv)} (h : LoopEq r1 r2) :
    (r1 = none ∧ r2 = none) ∨ ∃ s a b m k, r1 = some (s, a, b, m) ∧ r2 = some ({ s with polls := k }, a, b, m) := by
  match r1, r2, h with
  | none, none, _ => exact Or.inl ⟨rfl, rfl⟩
  | some (s, a, b, m), some (t, y), h =>
    right
    obtain ⟨h, rfl⟩ := h
    exact ⟨s, a, b, m, t.polls, rfl, by rw [(SState.eqUpToPolls_iff s t).1 h]⟩

theorem ResEq.ite {c : Prop} [Decidable c] {a a' b b' : Option (Int × SState)}
    (h1 : c → ResEq a a') (h2 : ¬c → ResEq b b') : ResEq (if c then a else b) (if c then a' else b') := by
  by_cases hc : c
  · rw [if_pos hc, if_pos hc]; exact h1 hc
  · rw [if_neg hc, if_neg hc]; exact h2 hc

/-- closes `ResEq (some (v, s)) (some (v, s'))` (and `NullEq`, `LoopEq` analogues) when `s`, `s'` are
literally equal in every field but `polls`. -/
macro "res_refl" : tactic =>
  `(tactic| first
    | exact ⟨rfl, rfl, rfl, rfl, rfl, rfl, rfl⟩
    | exact ⟨⟨rfl, rfl, rfl, rfl, rfl, rfl⟩, rfl⟩
    | trivial)

theorem nmLoop_polls (rec) (hrec : RecPolls rec) (p : Position) (beta ply depth : Int) (inCheck : Bool)
    (ms : List Mv) : ∀ (idx : Nat) (st : SState) (alpha best : Int) (bestMv : Option Mv) (k : Nat),
      LoopEq (nmLoop rec p beta ply depth inCheck ms idx st alpha best bestMv)
        (nmLoop rec p beta ply depth inCheck ms idx { st with polls := k } alpha best bestMv) := by
  induction ms with
  | nil =>
    intro idx st alpha best bestMv k
    simp only [nmLoop]
    exact ⟨⟨rfl, rfl, rfl, rfl, rfl, rfl⟩, rfl⟩
  | cons m ms ih =>
    intro idx st alpha best bestMv k
    simp only [nmLoop]
    cases hmk : p.makemove m true with
    | none => trivial
    | some np =>
      simp only []
      generalize hres1 : (ite ((idx == 0) = true) _ _ : Option (Int × SState)) = res1
      generalize hres2 : (ite ((idx == 0) = true) _ _ : Option (Int × SState)) = res2
      have hres : ResEq res1 res2 := by
        subst hres1 hres2
        refine ResEq.ite (fun _ => ?_) (fun _ => ?_)
        · generalize hr1 : rec _ _ _ _ _ _ _ = r1
          generalize hr2 : rec _ _ _ _ _ _ _ = r2
          have hr : ResEq r1 r2 := by rw [← hr1, ← hr2]; exact hrec _ _ _ _ _ _ _ _
          clear hr1 hr2
          rcases hr.cases with ⟨e1, e2⟩ | ⟨v, s1, k1, e1, e2⟩ <;> subst e1 e2 <;> simp only [] <;> res_refl
        · generalize hr1 : rec _ _ _ _ _ _ _ = r1
          generalize hr2 : rec _ _ _ _ _ _ _ = r2
          have hr : ResEq r1 r2 := by rw [← hr1, ← hr2]; exact hrec _ _ _ _ _ _ _ _
          clear hr1 hr2
          rcases hr.cases with ⟨e1, e2⟩ | ⟨v, s1, k1, e1, e2⟩ <;> subst e1 e2 <;> simp only []
          · trivial
          refine ResEq.ite (fun _ => ?_) (fun _ => ?_)
          · generalize hr1 : rec _ _ _ _ _ _ _ = r1
            generalize hr2 : rec _ _ _ _ _ _ _ = r2
            have hr : ResEq r1 r2 := by rw [← hr1, ← hr2]; exact hrec _ _ _ _ _ _ _ _
            clear hr1 hr2
            rcases hr.cases with ⟨e1, e2⟩ | ⟨v, s1, k1, e1, e2⟩ <;> subst e1 e2 <;> simp only [] <;> res_refl
          · res_refl
      clear hres1 hres2
      rcases hres.cases with ⟨e1, e2⟩ | ⟨v, s1, k1, e1, e2⟩
      · subst e1 e2; trivial
      · subst e1 e2
        simp only []
        by_cases hc : (if v > alpha then v else alpha) ≥ beta
        · simp only [hc, ↓reduceIte]
          exact ⟨⟨rfl, rfl, rfl, rfl, rfl, rfl⟩, rfl⟩
        · simp only [hc, ↓reduceIte]
          exact ih _ { s1 with hist := s1.hist.tail } _ _ _ k1

def NullEq : Option (Option Int × SState) → Option (Option Int × SState) → Prop
  | none, none => True
  | some (v, s), some (w, t) => v = w ∧ s.eqUpToPolls t
  | _, _ => False

theorem NullEq.cases {r1 r2 : Option (Option Int × SState)} (h : NullEq r1 r2) :
    (r1 = none ∧ r2 = none) ∨ ∃ v s k, r1 = some (v, s) ∧ r2 = some (v, { s with polls := k }) := by
  match r1, r2, h with
  | none, none, _ => exact Or.inl ⟨rfl, rfl⟩
  | some (v, s), some (w, t), h =>
    right
    obtain ⟨rfl, h⟩ := h
    exact ⟨v, s, t.polls, rfl, by rw [(SState.eqUpToPolls_iff s t).1 h]⟩

theorem NullEq.ite {c : Prop} [Decidable c] {a a' b b' : Option (Option Int × SState)}
    (h1 : c → NullEq a a') (h2 : ¬c → NullEq b b') : NullEq (if c then a else b) (if c then a' else b') := by
  by_cases hc : c
  · rw [if_pos hc, if_pos hc]; exact h1 hc
  · rw [if_neg hc, if_neg hc]; exact h2 hc

theorem shouldStop_fst_polls {lim : Limit} (hl : lim.clockFree) (s : SState) (k : Nat) :
    (shouldStop lim { s with polls := k }).1 = (shouldStop lim s).1 := by
  cases lim with
  | clock o => exact hl.elim
  | _ => rfl

/-- the (conditional) stop poll, run from two states that differ in the poll counter only. -/
theorem pollIf_polls {lim : Limit} (hl : lim.clockFree) {c : Prop} [Decidable c] (s : SState) (k : Nat) :
    ∃ k', ((if c then shouldStop lim s else (false, s)).1,
            { (if c then shouldStop lim s else (false, s)).2 with polls := k' }) =
          (if c then shouldStop lim { s with polls := k } else (false, { s with polls := k })) := by
  by_cases hc : c
  · simp only [if_pos hc]
    exact ⟨k + 1, by rw [← shouldStop_fst_polls hl s k]; rfl⟩
  · simp only [if_neg hc]
    exact ⟨k, rfl⟩

theorem negamax_polls (lim : Limit) (hl : lim.clockFree) (fuel : Nat) : RecPolls (negamax lim fuel) := by
  induction fuel with
  | zero => intro np s a b pl d c k; simp only [negamax]; trivial
  | succ fuel ih =>
    intro p st α β ply depth cn k
    simp only [negamax]
    -- the stop poll on both sides: same answer, states equal up to `polls`
    generalize hpr1 : (ite (_ = true) (shouldStop lim _) (false, _) : Bool × SState) = pr1
    generalize hpr2 : (ite (_ = true) (shouldStop lim _) (false, _) : Bool × SState) = pr2
    obtain ⟨k', hk⟩ : ∃ k', (pr1.1, { pr1.2 with polls := k' }) = pr2 := by
      rw [← hpr1, ← hpr2]; exact pollIf_polls hl _ k
    clear hpr1 hpr2
    subst hk
    obtain ⟨stop, s1⟩ := pr1
    simp only []
    -- table probe (same table on both sides)
    generalize (Table.poll _ _ : Option TTEntry) = probe
    rcases probe with _ | tte <;> simp only []
    · trivial
    -- table cut-off
    generalize (ite (_ = true) _ _ : Option Int × Int × Int) = cut
    rcases cut with ⟨_ | v, alpha, beta⟩ <;> simp only []
    case some => res_refl
    -- quiescence
    refine ResEq.ite (fun _ => ?_) (fun _ => ?_)
    · generalize qsearch _ _ _ _ _ _ = q
      rcases q with _ | ⟨v, q⟩ <;> simp only [] <;> res_refl
    -- stopped / rule draw / reverse futility
    refine ResEq.ite (fun _ => ?_) (fun _ => ?_)
    · res_refl
    refine ResEq.ite (fun _ => ?_) (fun _ => ?_)
    · res_refl
    refine ResEq.ite (fun _ => ?_) (fun _ => ?_)
    · res_refl
    -- null move
    generalize hn1 : (ite (_ = true) _ _ : Option (Option Int × SState)) = nr1
    generalize hn2 : (ite (_ = true) _ _ : Option (Option Int × SState)) = nr2
    have hn : NullEq nr1 nr2 := by
      subst hn1 hn2
      refine NullEq.ite (fun _ => ?_) (fun _ => ?_)
      · generalize hr1 : negamax lim fuel _ _ _ _ _ _ _ = r1
        generalize hr2 : negamax lim fuel _ _ _ _ _ _ _ = r2
        have hr : ResEq r1 r2 := by rw [← hr1, ← hr2]; exact ih _ _ _ _ _ _ _ _
        clear hr1 hr2
        rcases hr.cases with ⟨e1, e2⟩ | ⟨v, s2, k2, e1, e2⟩ <;> subst e1 e2 <;> simp only []
        · trivial
        · refine NullEq.ite (fun _ => ?_) (fun _ => ?_) <;> res_refl
      · res_refl
    clear hn1 hn2
    rcases hn.cases with ⟨e1, e2⟩ | ⟨ov, s2, k2, e1, e2⟩ <;> subst e1 e2
    · trivial
    rcases ov with _ | v <;> simp only []
    case some => res_refl
    -- move ordering
    generalize sortNm _ _ _ = sorted
    rcases sorted with _ | moves <;> simp only []
    · trivial
    -- the move loop
    generalize hl1 : nmLoop _ _ _ _ _ _ _ _ _ _ _ _ = l1
    generalize hl2 : nmLoop _ _ _ _ _ _ _ _ _ _ _ _ = l2
    have hloop : LoopEq l1 l2 := by
      rw [← hl1, ← hl2]; exact nmLoop_polls _ ih _ _ _ _ _ _ _ _ _ _ _ _
    clear hl1 hl2
    rcases hloop.cases with ⟨e1, e2⟩ | ⟨s3, a3, best, bestMv, k3, e1, e2⟩ <;> subst e1 e2 <;> simp only []
    · trivial
    -- no legal move / store
    rcases bestMv with _ | bm <;> simp only []
    · res_refl
    generalize (Table.add _ _ _ : Option (Table TTEntry)) = stored
    rcases stored with _ | tt' <;> simp only [] <;> res_refl

theorem rootIter_polls (lim : Limit) (hl : lim.clockFree) (fuel : Nat) (p : Position) (n : Nat) :
    ∀ (depth : Int) (st : SState) (bestMove : Option Mv) (infos : List InfoRec) (k : Nat),
      rootIter lim fuel p n depth { st with polls := k } bestMove infos =
        rootIter lim fuel p n depth st bestMove infos := by
  induction n with
  | zero => intro depth st bestMove infos k; rfl
  | succ n ih =>
    intro depth st bestMove infos k
    simp only [rootIter]
    by_cases hd : depth ≥ Gen.MAX_DEPTH
    · simp only [hd, ↓reduceIte]
    simp only [hd, ↓reduceIte]
    generalize hr1 : negamax lim fuel _ _ _ _ _ _ _ = r1
    generalize hr2 : negamax lim fuel _ _ _ _ _ _ _ = r2
    have hr : ResEq r2 r1 := by rw [← hr1, ← hr2]; exact negamax_polls lim hl fuel _ _ _ _ _ _ _ _
    clear hr1 hr2
    rcases hr.cases with ⟨e1, e2⟩ | ⟨v, s1, k1, e1, e2⟩ <;> subst e1 e2 <;> simp only []
    obtain ⟨h1, t1, d1, sd1, n1, b1, p1⟩ := s1
    cases b1 with
    | none => rfl
    | some bm =>
      simp only []
      by_cases hgt : depth > 1
      · simp only [hgt, ↓reduceIte, shouldStop_snd]
        rw [shouldStop_fst_polls hl ⟨h1, t1, d1, sd1, n1, some bm, p1⟩ k1]
        generalize (shouldStop lim _).1 = stop
        cases stop with
        | true => rfl
        | false =>
          simp only [Bool.false_eq_true, ↓reduceIte]
          exact ih _ ⟨h1, t1, d1, sd1, n1, some bm, p1 + 1⟩ _ _ (k1 + 1)
      · simp only [hgt, ↓reduceIte, Bool.false_eq_true]
        exact ih _ ⟨h1, t1, d1, sd1, n1, some bm, p1⟩ _ _ k1

/-- with a clock-free limit the driver's result does not depend on the initial value of the poll counter. -/
theorem root_polls (lim : Limit) (hl : lim.clockFree) (fuel : Nat) (p : Position) (hist : List BB)
    (tt : Table TTEntry) (k : Nat) :
    rootIter lim fuel p Gen.MAX_DEPTH.toNat 1 ⟨hist, tt, 0, 0, 0, none, k⟩ none [] = root lim fuel p hist tt :=
  rootIter_polls lim hl fuel p _ _ ⟨hist, tt, 0, 0, 0, none, 0⟩ _ _ k

end Rawr
