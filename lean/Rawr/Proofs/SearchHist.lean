import Rawr.Model.Search
/-! Helper lemmas for C13 (history / table-length preservation of the search). -/
namespace Rawr

/-- `Table.add` keeps the number of slots. -/
theorem Table.add_len {α : Type} [Inhabited α] [DecidableEq α] (t t' : Table α) (key : Nat) (e : α)
    (h : t.add key e = some t') : t'.len = t.len := by
  unfold Table.add at h
  split at h <;>
    first
    | (simp at h; done)
    | (simp only [Option.some.injEq] at h; subst h; simp [Table.len])

/-- the search invariant: same history, same number of table slots. -/
def SState.Inv (s s' : SState) : Prop := s'.hist = s.hist ∧ s'.tt.len = s.tt.len

theorem SState.Inv.refl (s : SState) : SState.Inv s s := ⟨rfl, rfl⟩

theorem SState.Inv.trans {a b c : SState} (h1 : SState.Inv a b) (h2 : SState.Inv b c) : SState.Inv a c :=
  ⟨h2.1.trans h1.1, h2.2.trans h1.2⟩

theorem shouldStop_inv (lim : Limit) (s : SState) : SState.Inv s (shouldStop lim s).2 := ⟨rfl, rfl⟩

/-- a recursive call preserves the invariant. -/
def RecInv (rec : Position → SState → Int → Int → Int → Int → Bool → Option (Int × SState)) : Prop :=
  ∀ np s a b pl d c v s', rec np s a b pl d c = some (v, s') → SState.Inv s s'

theorem ite_cases {α : Sort _} {c : Prop} [Decidable c] {a b r : α} (h : (if c then a else b) = r) :
    (c ∧ a = r) ∨ (¬c ∧ b = r) := by
  by_cases hc : c
  · left; exact ⟨hc, by rw [if_pos hc] at h; exact h⟩
  · right; exact ⟨hc, by rw [if_neg hc] at h; exact h⟩

/-- case split on an outermost `if` in hypothesis `h : (if c then a else b) = r`, replacing `h`. -/
macro "ite_split " h:ident : tactic =>
  `(tactic| (rcases ite_cases $h with ⟨_, h'⟩ | ⟨_, h'⟩ <;> clear $h <;> have $h := h' <;> clear h'))

/-- leaf of the case analysis: the returned state is one already known to satisfy the invariant. -/
theorem SState.Inv.of_some_eq {a s st' : SState} {x v : Int} (h : some (x, s) = some (v, st'))
    (hs : SState.Inv a s) : SState.Inv a st' := by
  simp only [Option.some.injEq, Prod.mk.injEq] at h
  rw [← h.2]; exact hs

/-- the (conditional) stop poll keeps the invariant. -/
theorem pollIf_inv {c : Prop} [Decidable c] (lim : Limit) {a s : SState} (h : SState.Inv a s) :
    SState.Inv a (if c then shouldStop lim s else (false, s)).2 := by
  by_cases hc : c
  · rw [if_pos hc]; exact h
  · rw [if_neg hc]; exact h

/-- pop after push: if the callee preserved the pushed state `b` (which is `a` with one more entry). -/
theorem SState.Inv.pop {a b s : SState} {x : BB} (h : SState.Inv b s)
    (hb : b.hist = x :: a.hist) (hbt : b.tt.len = a.tt.len) : SState.Inv a { s with hist := s.hist.tail } :=
  ⟨by show s.hist.tail = a.hist; rw [h.1, hb]; rfl, h.2.trans hbt⟩

theorem shouldStop_snd (lim : Limit) (s : SState) :
    (shouldStop lim s).2 = { s with polls := s.polls + 1 } := rfl

theorem nmLoop_inv (rec) (hrec : RecInv rec) (p : Position) (beta ply depth : Int) (inCheck : Bool)
    (ms : List Mv) : ∀ (idx : Nat) (st : SState) (alpha best : Int) (bestMv : Option Mv)
      (st' : SState) (a' b' : Int) (bm' : Option Mv),
      nmLoop rec p beta ply depth inCheck ms idx st alpha best bestMv = some (st', a', b', bm') →
      SState.Inv st st' := by
  induction ms with
  | nil =>
    intro idx st alpha best bestMv st' a' b' bm' h
    simp only [nmLoop, Option.some.injEq, Prod.mk.injEq] at h
    rw [← h.1]; exact SState.Inv.refl _
  | cons m ms ih =>
    intro idx st alpha best bestMv st' a' b' bm' h
    simp only [nmLoop] at h
    -- make the move
    split at h
    · simp at h
    -- the (up to three) recursive calls: whatever state comes back is the pushed state, up to the invariant
    generalize hres : (ite (_ = true) _ _ : Option (Int × SState)) = res at h
    have hresInv : ∀ score s1, res = some (score, s1) →
        SState.Inv st { s1 with hist := s1.hist.tail } := by
      intro score s1 h1
      rw [h1] at hres
      suffices hpush : ∃ b x, SState.Inv b s1 ∧ b.hist = x :: st.hist ∧ b.tt.len = st.tt.len by
        obtain ⟨b, x, hb, hbh, hbt⟩ := hpush
        exact hb.pop hbh hbt
      · rcases ite_cases hres with ⟨_, hr⟩ | ⟨_, hr⟩
        · split at hr
          · simp at hr
          · have h2 := hrec _ _ _ _ _ _ _ _ _ (by assumption)
            exact ⟨_, _, SState.Inv.of_some_eq hr h2, rfl, rfl⟩
        · split at hr
          · simp at hr
          · have h2 := hrec _ _ _ _ _ _ _ _ _ (by assumption)
            ite_split hr
            · split at hr
              · simp at hr
              · have h3 := hrec _ _ _ _ _ _ _ _ _ (by assumption)
                exact ⟨_, _, SState.Inv.of_some_eq hr (h2.trans h3), rfl, rfl⟩
            · exact ⟨_, _, SState.Inv.of_some_eq hr h2, rfl, rfl⟩
    clear hres
    split at h
    · simp at h
    have hs1 := hresInv _ _ rfl
    ite_split h
    · simp only [Option.some.injEq, Prod.mk.injEq] at h
      rw [← h.1]; exact hs1
    · exact hs1.trans (ih _ _ _ _ _ _ _ _ _ h)

theorem negamax_inv (lim : Limit) (fuel : Nat) : RecInv (negamax lim fuel) := by
  induction fuel with
  | zero => intro np s a b pl d c v s' h; simp [negamax] at h
  | succ fuel ih =>
    intro p st α β ply depth cn v st' h
    simp only [negamax] at h
    -- name the state after the stop poll; all we need of it is the invariant
    generalize hpr : (ite (_ = true) (shouldStop lim _) (false, _) : Bool × SState) = pr at h
    have hinv : SState.Inv st pr.2 := by rw [← hpr]; exact pollIf_inv lim ⟨rfl, rfl⟩
    clear hpr
    -- table probe
    split at h
    · simp at h
    -- table cut-off
    split at h
    · exact SState.Inv.of_some_eq h ⟨rfl, rfl⟩
    -- quiescence at depth ≤ 0
    ite_split h
    · split at h
      · simp at h
      · exact SState.Inv.of_some_eq h ⟨rfl, rfl⟩
    -- stopped
    ite_split h
    · exact SState.Inv.of_some_eq h hinv
    -- rule draws
    ite_split h
    · exact SState.Inv.of_some_eq h hinv
    -- reverse futility
    ite_split h
    · exact SState.Inv.of_some_eq h hinv
    -- null move: whatever state it hands on satisfies the invariant
    generalize hnr : (ite (_ = true) _ _ : Option (Option Int × SState)) = nr at h
    have hnullInv : ∀ ov s2, nr = some (ov, s2) → SState.Inv st s2 := by
      intro ov s2 h1
      rw [h1] at hnr
      rcases ite_cases hnr with ⟨_, hn⟩ | ⟨_, hn⟩
      · split at hn
        · simp at hn
        · have h3 := ih _ _ _ _ _ _ _ _ _ (by assumption)
          have h3 := h3.pop (a := pr.2) rfl rfl
          ite_split hn <;>
          · simp only [Option.some.injEq, Prod.mk.injEq] at hn
            rw [← hn.2]; exact hinv.trans h3
      · simp only [Option.some.injEq, Prod.mk.injEq] at hn
        rw [← hn.2]; exact hinv
    clear hnr
    split at h
    · simp at h
    · exact SState.Inv.of_some_eq h (hnullInv _ _ rfl)
    · have hs2 := hnullInv _ _ rfl
      -- move ordering
      split at h
      · simp at h
      -- the move loop
      split at h
      · simp at h
      have h4 := hs2.trans (nmLoop_inv _ ih _ _ _ _ _ _ _ _ _ _ _ _ _ _ _ (by assumption))
      -- no legal move / store
      split at h
      · exact SState.Inv.of_some_eq h h4
      · split at h
        · simp at h
        · exact SState.Inv.of_some_eq h (h4.trans ⟨rfl, Table.add_len _ _ _ _ (by assumption)⟩)

theorem rootIter_inv (lim : Limit) (fuel : Nat) (p : Position) (k : Nat) :
    ∀ (depth : Int) (st : SState) (bestMove : Option Mv) (infos : List InfoRec) (res : RootResult),
      rootIter lim fuel p k depth st bestMove infos = some res →
      res.hist = st.hist ∧ res.tt.len = st.tt.len := by
  induction k with
  | zero =>
    intro depth st bestMove infos res h
    simp only [rootIter, Option.some.injEq] at h
    subst h; exact ⟨rfl, rfl⟩
  | succ k ih =>
    intro depth st bestMove infos res h
    simp only [rootIter] at h
    ite_split h
    · simp only [Option.some.injEq] at h
      subst h; exact ⟨rfl, rfl⟩
    split at h
    · simp at h
    · rename_i score s1 hnm
      have h0 := negamax_inv lim fuel _ _ _ _ _ _ _ _ _ hnm
      have h1 : SState.Inv st s1 := h0
      split at h
      · simp only [Option.some.injEq] at h
        subst h; exact h1
      · rename_i bm hbm
        have hpr : SState.Inv s1 (if depth > 1 then shouldStop lim s1 else (false, s1)).2 := by
          split <;> exact ⟨rfl, rfl⟩
        generalize (if depth > 1 then shouldStop lim s1 else (false, s1)) = pr at h hpr
        have h2 := h1.trans hpr
        ite_split h
        · simp only [Option.some.injEq] at h
          subst h; exact h2
        · have h3 := ih _ _ _ _ _ h
          exact ⟨h3.1.trans h2.1, h3.2.trans h2.2⟩

theorem root_inv (lim : Limit) (fuel : Nat) (p : Position) (hist : List BB) (tt : Table TTEntry)
    (res : RootResult) (h : root lim fuel p hist tt = some res) :
    res.hist = hist ∧ res.tt.len = tt.len :=
  rootIter_inv lim fuel p _ _ _ _ _ _ h

end Rawr
