import Rawr.Proofs.MagicCheck
/-! C10 table check, part 0 of 16: 7168 rows, each one evaluated by the kernel.
The partition into modules balances row counts and depends on board geometry only; the statements do
not mention any table content, so a changed table or magic makes these proofs fail. -/
namespace Rawr.MagicTable
theorem rook_12 : checkR 12 = true := by decide +kernel
theorem rook_34 : checkR 34 = true := by decide +kernel
theorem rook_54 : checkR 54 = true := by decide +kernel
theorem rook_63 : checkR 63 = true := by decide +kernel
end Rawr.MagicTable
