import Rawr.Proofs.UciShape
/-! Shape of the output of `go`: a search request is answered by `info` lines and exactly one `bestmove`
line; `go perft` / `go split` print neither `bestmove` nor `readyok`; a `go` line that does not parse prints
nothing. -/
namespace Rawr

/-- the five kinds of `go` that start a search (`settings::Type::{Time,Depth,Nodes,Movetime,Infinite}`). -/
def GoKind.isSearch : GoKind → Bool
  | .time .. | .movetime _ | .depth _ | .nodes _ | .infinite => true
  | .perft _ | .split _ => false

/-- `parse_go` is total in the model (`none` = `Err("Uh oh")`, the line is ignored): nothing to prove. -/
theorem parseGo_total (toks : List (List Char)) : parseGo toks = none ∨ ∃ k, parseGo toks = some k := by
  cases parseGo toks with
  | none => exact Or.inl rfl
  | some k => exact Or.inr ⟨k, rfl⟩

theorem foldl_none {α γ : Type} (f : Option γ → α → Option γ) (hn : ∀ a, f none a = none) (xs : List α) :
    xs.foldl f none = none := by
  induction xs with
  | nil => rfl
  | cons x xs ih => rw [List.foldl_cons, hn, ih]

/-- invariant of an `Option`-accumulating fold. -/
theorem foldl_opt_inv {α γ : Type} (Q : γ → Prop) (f : Option γ → α → Option γ)
    (hn : ∀ a, f none a = none) (hf : ∀ c a c', Q c → f (some c) a = some c' → Q c')
    (xs : List α) (init c : γ) (hi : Q init) (h : xs.foldl f (some init) = some c) : Q c := by
  induction xs generalizing init with
  | nil => simp only [List.foldl_nil, Option.some.injEq] at h; subst h; exact hi
  | cons x xs ih =>
    rw [List.foldl_cons] at h
    cases hx : f (some init) x with
    | none => rw [hx, foldl_none f hn] at h; cases h
    | some c' => rw [hx] at h; exact ih c' (hf _ _ _ hi hx) h

theorem perftInfo_neutral (i n : Nat) : Neutral s!"info depth {i + 1} nodes {n} time ?" := by
  simp only [toString_str, String.append_assoc]
  exact neutral_append _ _ (by decide)

theorem perftNodes_neutral (n : Nat) : Neutral s!"nodes {n}" := by
  simp only [toString_str]
  exact neutral_append _ _ (by decide)

theorem promoChars_cases (pc : Nat) :
    promoChars pc = ['n'] ∨ promoChars pc = ['b'] ∨ promoChars pc = ['r'] ∨ promoChars pc = ['q'] ∨ promoChars pc = [] := by
  unfold promoChars
  split <;> simp

theorem toUciChars_shape (p : Position) (m : Mv) :
    ∃ a b c d, toUciChars p m = a :: b :: c :: d :: promoChars m.promo :=
  ⟨_, _, _, _, rfl⟩

theorem splitLine_neutral (p : Position) (m : Mv) (n : Nat) : Neutral s!"{mvStr p m} {n}" := by
  simp only [toString_str, mvStr, toUci]
  obtain ⟨a, b, c, d, e⟩ := toUciChars_shape p m
  have h : (String.ofList (toUciChars p m) ++ " " ++ toString n).toList =
      a :: b :: c :: d :: (promoChars m.promo ++ ' ' :: (toString n).toList) := by
    rw [e]
    simp [String.toList_append]
  generalize String.ofList (toUciChars p m) ++ " " ++ toString n = line at h ⊢
  rcases promoChars_cases m.promo with e | e | e | e | e <;> rw [e] at h
  · exact neutral_of_fifth (e := 'n') h (by decide) (by decide)
  · exact neutral_of_fifth (e := 'b') h (by decide) (by decide)
  · exact neutral_of_fifth (e := 'r') h (by decide) (by decide)
  · exact neutral_of_fifth (e := 'q') h (by decide) (by decide)
  · exact neutral_of_fifth (e := ' ') h (by decide) (by decide)

variable {ar : Arith} {clock : Nat → Bool} {s s' : UState} {toks : List (List Char)} {out : List String}

theorem doGo_none (h : parseGo toks = none) : doGo ar clock s toks = some (s, []) := by
  unfold doGo
  rw [h]

/-- the search closure of `go`. -/
def goSearch (s : UState) (lim : Limit) : Option (UState × List String) :=
  match root lim 1000 s.pos s.hist s.tt with
  | none => none
  | some res =>
    let infos := res.infos.map (infoLine s.pos)
    let bm := match res.best with | some m => "bestmove " ++ mvStr s.pos m | none => "bestmove 0000"
    some ({ s with hist := res.hist, tt := res.tt }, infos ++ [bm])

theorem goSearch_shape {lim : Limit} (h : goSearch s lim = some (s', out)) : SearchShape out := by
  unfold goSearch at h
  split at h
  · cases h
  · next res _ =>
    cases h
    refine ⟨_, _, rfl, ?_, ?_⟩
    · intro l hl
      obtain ⟨i, _, rfl⟩ := List.mem_map.1 hl
      exact infoLine_isInfo _ _
    · split
      · exact isBest_append _
      · decide

/-- the limit a search request runs with. -/
def GoKind.limit (clock : Nat → Bool) : GoKind → Limit
  | .depth d => .depth d
  | .nodes n => .nodes n
  | .infinite => .infinite
  | _ => .clock clock

theorem doGo_search {k : GoKind} (hp : parseGo toks = some k) (hk : k.isSearch = true) :
    doGo ar clock s toks = goSearch s (k.limit clock) := by
  cases k with
  | perft | split => cases hk
  | time | movetime | depth | nodes | infinite =>
    simp only [doGo, hp, goSearch, GoKind.limit]
    generalize root _ _ _ _ _ = r
    cases r <;> rfl

/-- **a well-formed search request is answered by `info` lines followed by exactly ONE `bestmove` line.** -/
theorem doGo_one_bestmove {k : GoKind} (hp : parseGo toks = some k) (hk : k.isSearch = true)
    (h : doGo ar clock s toks = some (s', out)) : SearchShape out := by
  rw [doGo_search hp hk] at h
  exact goSearch_shape h

/-- `go perft` / `go split` leave the state alone and print no `bestmove` / `readyok` line. -/
theorem doGo_perft_neutral {k : GoKind} (hp : parseGo toks = some k) (hk : k.isSearch = false)
    (h : doGo ar clock s toks = some (s', out)) : s' = s ∧ ∀ l ∈ out, Neutral l := by
  unfold doGo at h
  rw [hp] at h
  cases k with
  | time | movetime | depth | nodes | infinite => cases hk
  | perft d =>
    simp only [Option.map_eq_some_iff] at h
    obtain ⟨l, hl, e⟩ := h
    cases e
    refine ⟨rfl, ?_⟩
    refine foldl_opt_inv (fun (l : List String) => ∀ x ∈ l, Neutral x) _ ?_ ?_ _ [] _ (by simp) hl
    · intro a; rfl
    · intro c a c' hc hstep
      split at hstep
      · next l0 n0 e1 e2 =>
        cases e1
        cases hstep
        intro x hx
        simp only [List.mem_append, List.mem_singleton] at hx
        rcases hx with (hx | rfl) | hx
        · exact hc x hx
        · exact perftInfo_neutral a n0
        · split at hx
          · simp only [List.mem_singleton] at hx; subst hx; exact perftNodes_neutral n0
          · cases hx
      · cases hstep
  | split d =>
    simp only [Option.map_eq_some_iff] at h
    obtain ⟨⟨l, tot⟩, hl, e⟩ := h
    cases e
    refine ⟨rfl, ?_⟩
    have hq : ∀ x ∈ l, Neutral x := by
      refine foldl_opt_inv (fun (c : List String × Nat) => ∀ x ∈ c.1, Neutral x) _ ?_ ?_ _ ([], 0) (l, tot)
        (by simp) hl
      · intro a; rfl
      · intro c a c' hc hstep
        split at hstep
        · next l0 t0 np e1 e2 =>
          cases e1
          simp only [Option.map_eq_some_iff] at hstep
          obtain ⟨n, _, e⟩ := hstep
          cases e
          intro x hx
          simp only [List.mem_append, List.mem_singleton] at hx
          rcases hx with hx | rfl
          · exact hc x hx
          · exact splitLine_neutral _ _ _
        · cases hstep
    intro x hx
    simp only [List.mem_append, List.mem_cons, List.not_mem_nil, or_false] at hx
    rcases hx with hx | rfl | rfl
    · exact hq x hx
    · exact neutral_of_secondOk (by decide)
    · exact perftNodes_neutral tot

end Rawr
