import Rawr.Props.C10
import Rawr.Proofs.GenShapeValid
/-! Ray walks: at most one occupied square (the last); diagonal and orthogonal walks are disjoint;
the generator's `allowed` mask never contains an own piece. -/
set_option linter.unusedSimpArgs false
namespace Rawr
open Rawr.Position Rawr.Spec Rawr.ZH

/-- a walk contains at most one occupied square. -/
theorem walkFrom_occ_unique (df dr : Int) (occ : Nat → Bool) :
    ∀ (n : Nat) (f r : Int) (x y : Nat), x ∈ walkFrom df dr occ n f r → y ∈ walkFrom df dr occ n f r →
      occ x = true → occ y = true → x = y := by
  intro n
  induction n with
  | zero => intro f r x y hx; simp [walkFrom] at hx
  | succ n ih =>
    intro f r x y hx hy ox oy
    unfold walkFrom at hx hy
    split at hx
    · rename_i hb
      rw [if_pos hb] at hy
      dsimp only at hx hy
      split at hx
      · rename_i hocc
        rw [if_pos hocc] at hy
        rw [List.mem_singleton] at hx hy
        rw [hx, hy]
      · rename_i hocc
        rw [if_neg hocc] at hy
        rw [List.mem_cons] at hx hy
        rcases hx with hx | hx
        · rw [hx] at ox; exact absurd ox hocc
        · rcases hy with hy | hy
          · rw [hy] at oy; exact absurd oy hocc
          · exact ih _ _ x y hx hy ox oy
    · cases hx

/-- a walk over an occupied board is contained in the walk over the empty board. -/
theorem walkFrom_mono (df dr : Int) (occ : Nat → Bool) :
    ∀ (n : Nat) (f r : Int) (x : Nat), x ∈ walkFrom df dr occ n f r →
      x ∈ walkFrom df dr (fun _ => false) n f r := by
  intro n
  induction n with
  | zero => intro f r x hx; simp [walkFrom] at hx
  | succ n ih =>
    intro f r x hx
    unfold walkFrom at hx ⊢
    split at hx
    · rename_i hb
      rw [if_pos hb]
      dsimp only at hx ⊢
      simp only [Bool.false_eq_true, if_false]
      split at hx
      · rw [List.mem_singleton] at hx
        rw [hx]; exact List.mem_cons_self
      · rw [List.mem_cons] at hx ⊢
        rcases hx with hx | hx
        · exact Or.inl hx
        · exact Or.inr (ih _ _ x hx)
    · cases hx

theorem walkSet4_mono (dirs : List (Int × Int)) (s : Nat) (occ : Nat → Bool) (t : Nat)
    (h : walkSet4 dirs s occ t = true) : walkSet4 dirs s (fun _ => false) t = true := by
  unfold walkSet4 at h ⊢
  rw [List.any_eq_true] at h ⊢
  obtain ⟨d, hd, hc⟩ := h
  refine ⟨d, hd, ?_⟩
  simp only [List.contains_eq_mem, decide_eq_true_eq] at hc ⊢
  exact walkFrom_mono _ _ _ _ _ _ _ hc

theorem diag_orth_empty : ∀ s : Fin 64, walkBB diag s 0#64 &&& walkBB orth s 0#64 = 0#64 := by
  decide +kernel

theorem zero_getLsbD_fun : (0#64 : BB).getLsbD = fun _ => false := by
  funext i; simp

/-- bishop and rook attack sets from the same square are disjoint. -/
theorem bishop_rook_disjoint (s : Nat) (hs : s < 64) (occ : BB) (t : Nat)
    (hb : (bishopMoves s occ).getLsbD t = true) : (rookMoves s occ).getLsbD t = false := by
  cases hr : (rookMoves s occ).getLsbD t
  · rfl
  · rw [C10_bishop_mem s hs] at hb
    rw [C10_rook_mem s hs] at hr
    simp only [Bool.and_eq_true, decide_eq_true_eq] at hb hr
    have h1 := walkSet4_mono _ _ _ _ hb.2
    have h2 := walkSet4_mono _ _ _ _ hr.2
    have e := congrArg (fun x => x.getLsbD t) (diag_orth_empty ⟨s, hs⟩)
    simp only [BitVec.getLsbD_and, getLsbD_walkBB, zero_getLsbD_fun, h1, h2, hb.1, decide_true,
      Bool.and_self, BitVec.getLsbD_zero] at e
    cases e

/-! ### `allowed` -/

/-- a set given by a walk, meeting a set of enemy pieces, contains no own piece. -/
theorem walk_ray_disj {c0 c1 ray A : BB} {df dr : Int} {s : Nat}
    (hray : ray = setBB (walk df dr s (c0 ||| c1).getLsbD))
    (hdisj : ∀ i, (c0.getLsbD i && c1.getLsbD i) = false)
    (hA : (ray &&& A).isOcc = true) (hsub : ∀ i, A.getLsbD i = true → c1.getLsbD i = true) :
    ray &&& c0 = 0#64 := by
  -- a witness in `ray ∩ A`
  have hw : ∃ x, ray.getLsbD x = true ∧ A.getLsbD x = true := by
    apply Classical.byContradiction
    intro hn
    have : (ray &&& A).isOcc = false := by
      apply isOcc_false_of
      intro x _
      rw [BitVec.getLsbD_and]
      cases h1 : ray.getLsbD x
      · rfl
      · cases h2 : A.getLsbD x
        · rfl
        · exact absurd ⟨x, h1, h2⟩ hn
    rw [this] at hA; cases hA
  obtain ⟨x, hx1, hx2⟩ := hw
  have hxc1 := hsub x hx2
  apply BitVec.eq_of_getLsbD_eq
  intro y hy
  rw [BitVec.getLsbD_and, BitVec.getLsbD_zero]
  cases hy0 : c0.getLsbD y
  · exact Bool.and_false _
  · cases hyr : ray.getLsbD y
    · rfl
    · exfalso
      rw [hray, getLsbD_setBB] at hx1 hyr
      simp only [Bool.and_eq_true, decide_eq_true_eq, List.contains_eq_mem] at hx1 hyr
      have hxy := walkFrom_occ_unique _ _ _ _ _ _ x y hx1.2 hyr.2
        (by rw [BitVec.getLsbD_or, hxc1, Bool.or_true]) (by rw [BitVec.getLsbD_or, hy0, Bool.true_or])
      rw [hxy] at hxc1
      have := hdisj y
      rw [hy0, hxc1] at this
      cases this

/-- the `allowed` if-chain of `prelude`, abstractly. -/
def allowedOf (all rNE rNW rSE rSW rN rE rS rW bA rA us : BB) : BB :=
  if count all > 1 then 0#64
  else if (rNE &&& bA).isOcc then rNE
  else if (rNW &&& bA).isOcc then rNW
  else if (rSE &&& bA).isOcc then rSE
  else if (rSW &&& bA).isOcc then rSW
  else if (rN &&& rA).isOcc then rN
  else if (rE &&& rA).isOcc then rE
  else if (rS &&& rA).isOcc then rS
  else if (rW &&& rA).isOcc then rW
  else if all.isOcc then all
  else ~~~us

theorem allowedOf_disj {all rNE rNW rSE rSW rN rE rS rW bA rA us : BB}
    (hall : all &&& us = 0#64)
    (h1 : (rNE &&& bA).isOcc = true → rNE &&& us = 0#64) (h2 : (rNW &&& bA).isOcc = true → rNW &&& us = 0#64)
    (h3 : (rSE &&& bA).isOcc = true → rSE &&& us = 0#64) (h4 : (rSW &&& bA).isOcc = true → rSW &&& us = 0#64)
    (h5 : (rN &&& rA).isOcc = true → rN &&& us = 0#64) (h6 : (rE &&& rA).isOcc = true → rE &&& us = 0#64)
    (h7 : (rS &&& rA).isOcc = true → rS &&& us = 0#64) (h8 : (rW &&& rA).isOcc = true → rW &&& us = 0#64) :
    allowedOf all rNE rNW rSE rSW rN rE rS rW bA rA us &&& us = 0#64 := by
  unfold allowedOf
  split
  · exact BitVec.zero_and
  split
  · exact h1 ‹_›
  split
  · exact h2 ‹_›
  split
  · exact h3 ‹_›
  split
  · exact h4 ‹_›
  split
  · exact h5 ‹_›
  split
  · exact h6 ‹_›
  split
  · exact h7 ‹_›
  split
  · exact h8 ‹_›
  split
  · exact hall
  · apply BitVec.eq_of_getLsbD_eq
    intro i hi
    simp [hi]

/-- a conditional ray (`if diag then ray_ne(ksq, occ) else 0`) meeting enemy pieces holds no own piece. -/
theorem cond_ray_disj {c0 c1 r A : BB} {df dr : Int} {s : Nat} (b : Bool)
    (hr : r = setBB (walk df dr s (c0 ||| c1).getLsbD))
    (hdisj : ∀ i, (c0.getLsbD i && c1.getLsbD i) = false)
    (hsub : ∀ i, A.getLsbD i = true → c1.getLsbD i = true)
    (hA : ((if b = true then r else 0#64) &&& A).isOcc = true) : (if b = true then r else 0#64) &&& c0 = 0#64 := by
  cases b
  · simp
  · simp only [if_true] at hA ⊢
    exact walk_ray_disj hr hdisj hA hsub

theorem and_them_sub {X c1 Y : BB} (i : Nat) (h : (X &&& c1 &&& Y).getLsbD i = true) : c1.getLsbD i = true := by
  simp only [BitVec.getLsbD_and, Bool.and_eq_true] at h
  exact h.1.2

/-- `allowed` never contains a square holding a piece of the side to move. -/
theorem allowed_disj (p : Position) (hC : Consistent p = true) (hk : lsb (p.p5 &&& p.c0) < 64) :
    (prelude p).allowed &&& p.c0 = 0#64 := by
  have hd := disj_bit hC
  obtain ⟨hN, hS, hE, hW, hNE, hNW, hSE, hSW⟩ := C10_rays _ hk p.occ
  have e : (prelude p).allowed = allowedOf (prelude p).allAttackers (prelude p).rayNE (prelude p).rayNW
      (prelude p).raySE (prelude p).raySW (prelude p).rayN (prelude p).rayE (prelude p).rayS (prelude p).rayW
      (((prelude p).rayNE ||| (prelude p).raySW ||| (prelude p).rayNW ||| (prelude p).raySE) &&& p.c1 &&& (p.p2 ||| p.p4))
      (((prelude p).rayN ||| (prelude p).rayS ||| (prelude p).rayE ||| (prelude p).rayW) &&& p.c1 &&& (p.p3 ||| p.p4))
      p.c0 := rfl
  rw [e]
  apply allowedOf_disj
  · apply BitVec.eq_of_getLsbD_eq
    intro i _
    have := hd i
    simp only [prelude, BitVec.getLsbD_and, BitVec.getLsbD_or, BitVec.getLsbD_zero]
    cases h0 : p.c0.getLsbD i
    · simp
    · rw [h0] at this
      simp only [Bool.true_and] at this
      simp [this]
  · exact cond_ray_disj _ hNE hd and_them_sub
  · exact cond_ray_disj _ hNW hd and_them_sub
  · exact cond_ray_disj _ hSE hd and_them_sub
  · exact cond_ray_disj _ hSW hd and_them_sub
  · exact cond_ray_disj _ hN hd and_them_sub
  · exact cond_ray_disj _ hE hd and_them_sub
  · exact cond_ray_disj _ hS hd and_them_sub
  · exact cond_ray_disj _ hW hd and_them_sub

theorem allowed_not_own {p : Position} (hC : Consistent p = true) (hk : lsb (p.p5 &&& p.c0) < 64) {i : Nat}
    (h : (prelude p).allowed.getLsbD i = true) : p.c0.getLsbD i = false := by
  have := congrArg (fun x => x.getLsbD i) (allowed_disj p hC hk)
  simp only [BitVec.getLsbD_and, h, Bool.true_and, BitVec.getLsbD_zero] at this
  exact this

end Rawr
