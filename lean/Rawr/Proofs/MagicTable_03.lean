import Rawr.Proofs.MagicCheck
/-! C10 table check, part 3 of 16: 7168 rows, each one evaluated by the kernel.
The partition into modules balances row counts and depends on board geometry only; the statements do
not mention any table content, so a changed table or magic makes these proofs fail. -/
namespace Rawr.MagicTable
theorem rook_0 : checkR 0 = true := by decide +kernel
theorem rook_9 : checkR 9 = true := by decide +kernel
theorem rook_29 : checkR 29 = true := by decide +kernel
theorem rook_51 : checkR 51 = true := by decide +kernel
end Rawr.MagicTable
