import Rawr.Proofs.GenSafety
/-!
# C01: `PinOk` (the pin condition of the safety lemma) in terms of the generator's pin sets

* `pinOk_of_not_pinned`: an unpinned piece may go anywhere;
* `pinOk_iff_line`: for a piece pinned along `d0`, `PinOk` says that `t` is on that line (king..pinner);
* `pinOk_move_dir`: then the move `f → t` runs along the line (`e = d0 ∨ e = -d0`), so a piece pinned on a
  diagonal cannot move orthogonally, and conversely; a pinned knight cannot move (`pinOk_not_knight`);
* `bpinned_pinOk_iff` / `rpinned_pinOk_iff`: for a diagonally pinned piece moving diagonally without jumping
  over the king, `PinOk ↔ bxrays.isSet t` — the union of all diagonal pin lines is harmless because a
  piece on one diagonal king line cannot reach another one by a diagonal move (`same_dir`); likewise
  for `rpinned`/`rxrays` and orthogonal moves.
-/
namespace Rawr.Att
open Spec

theorem sliders_diag (p : Position) {d : Int × Int} (hd : d ∈ diag) : sliders p d = themBQ p := by
  unfold sliders; rw [if_pos hd]

theorem diag_orth_disj {d : Int × Int} (h1 : d ∈ diag) (h2 : d ∈ orth) : False := by
  rw [diag_eq] at h1; rw [orth_eq] at h2
  simp only [List.mem_cons, List.not_mem_nil, or_false] at h1 h2
  rcases h1 with rfl | rfl | rfl | rfl <;> rcases h2 with h | h | h | h <;> cases h

theorem sliders_orth (p : Position) {d : Int × Int} (hd : d ∈ orth) : sliders p d = themRQ p := by
  unfold sliders; rw [if_neg (fun h => diag_orth_disj h hd)]

theorem mem_dirs8_diag {d : Int × Int} (h : d ∈ diag) : d ∈ dirs8 := List.mem_append.mpr (Or.inl h)
theorem mem_dirs8_orth {d : Int × Int} (h : d ∈ orth) : d ∈ dirs8 := List.mem_append.mpr (Or.inr h)

section
variable {p : Position} (hV : ValidPos p = true)
include hV

/-- an unpinned own piece may go anywhere as far as pins are concerned. -/
theorem pinOk_of_not_pinned {f : Nat} (hus : p.c0.getLsbD f = true)
    (hnp : (prelude p).pinned.getLsbD f = false) (t : Nat) : PinOk p f t := by
  intro d hd s h1 h2 hsl
  exfalso
  have : (prelude p).pinned.getLsbD f = true := by
    rw [prelude_pinned hV]
    rcases List.mem_append.mp hd with h | h
    · exact Or.inl ⟨d, h, h1, hus, s, h2, by rw [← sliders_diag p h]; exact hsl⟩
    · exact Or.inr ⟨d, h, h1, hus, s, h2, by rw [← sliders_orth p h]; exact hsl⟩
  rw [hnp] at this; cases this

omit hV in
/-- for a piece pinned along `d0`, `PinOk` says: `t` is on that pin line. -/
theorem pinOk_iff_line {d0 : Int × Int} (hd0 : d0 ∈ dirs8) {f s0 : Nat} (t : Nat)
    (h1 : RayHit (relBoard p) (lsb (p.p5 &&& p.c0)) d0 f) (h2 : RayHit (relBoard p) f d0 s0)
    (h3 : (sliders p d0).getLsbD s0 = true) :
    PinOk p f t ↔
      (RayHit (relBoard p) (lsb (p.p5 &&& p.c0)) d0 t ∨ RayHit (relBoard p) f d0 t) := by
  constructor
  · intro h; exact h d0 hd0 s0 h1 h2 h3
  · intro h d hd s g1 _ _
    have gd := goodDir_dirs8 d hd
    have gd0 := goodDir_dirs8 d0 hd0
    obtain ⟨j, hj⟩ := (rayHit_iff_hit _ gd _ _).mp g1
    obtain ⟨j0, hj0⟩ := (rayHit_iff_hit _ gd0 _ _).mp h1
    obtain ⟨e, _⟩ := at_unique gd gd0 hj.1 hj0.1 hj.2.1 hj0.2.1
    subst e
    exact h

omit hV in
/-- under `PinOk`, `t` is a point of the pin line. -/
theorem pinOk_on_line {d0 : Int × Int} (hd0 : d0 ∈ dirs8) {f s0 t : Nat}
    (h1 : RayHit (relBoard p) (lsb (p.p5 &&& p.c0)) d0 f) (h2 : RayHit (relBoard p) f d0 s0)
    (h3 : (sliders p d0).getLsbD s0 = true) (hok : PinOk p f t) :
    ∃ j i : Nat, 1 ≤ j ∧ 1 ≤ i ∧ At (lsb (p.p5 &&& p.c0)) d0 j f ∧ At (lsb (p.p5 &&& p.c0)) d0 i t := by
  have gd0 := goodDir_dirs8 d0 hd0
  obtain ⟨j, hj⟩ := (rayHit_iff_hit _ gd0 _ _).mp h1
  rcases (pinOk_iff_line hd0 t h1 h2 h3).mp hok with h | h
  · obtain ⟨i, hi⟩ := (rayHit_iff_hit _ gd0 _ _).mp h
    exact ⟨j, i, hj.1, hi.1, hj.2.1, hi.2.1⟩
  · obtain ⟨i, hi⟩ := (rayHit_iff_hit _ gd0 _ _).mp h
    exact ⟨j, j + i, hj.1, by have := hj.1; omega, hj.2.1, at_add hj.2.1 hi.2.1⟩

end

/-! ### geometry of moves along / across a line through the king -/

/-- two points of a line through `k` in direction `d0`: a move between them runs along `±d0`. -/
theorem line_move_dir {k f t : Nat} {d0 e : Int × Int} {j i m : Nat} (gd0 : GoodDir d0) (ge : GoodDir e)
    (hf : At k d0 j f) (ht : At k d0 i t) (hm : At f e m t) (hm1 : 1 ≤ m) :
    (e.1 = d0.1 ∧ e.2 = d0.2) ∨ (e.1 = -d0.1 ∧ e.2 = -d0.2) := by
  obtain ⟨a, b⟩ := d0
  obtain ⟨a', b'⟩ := e
  obtain ⟨ha, hb, hab⟩ := gd0
  obtain ⟨ha', hb', hab'⟩ := ge
  unfold At at hf ht hm
  dsimp only at *
  rcases ha with rfl | rfl | rfl <;> rcases hb with rfl | rfl | rfl <;>
    rcases ha' with rfl | rfl | rfl <;> rcases hb' with rfl | rfl | rfl <;> omega

/-- a knight's move never connects two points of a line through `k`. -/
theorem line_no_knight {k f t : Nat} {d0 : Int × Int} {j i : Nat} (gd0 : GoodDir d0)
    (hf : At k d0 j f) (ht : At k d0 i t) : knightStep f t = false := by
  obtain ⟨a, b⟩ := d0
  obtain ⟨ha, hb, hab⟩ := gd0
  unfold At at hf ht
  dsimp only at *
  cases h : knightStep f t
  · rfl
  · exfalso
    unfold knightStep at h
    simp only [Bool.or_eq_true, Bool.and_eq_true, beq_iff_eq] at h
    rcases ha with rfl | rfl | rfl <;> rcases hb with rfl | rfl | rfl <;> omega

/-- `f` and `t` lie on king lines `d0`, `d` of the same class (both diagonal or both orthogonal) and `t` is
reached from `f` by a move of that class which does not pass over the king: then `d = d0`. -/
theorem same_dir (dirs : List (Int × Int)) (hdirs : dirs = diag ∨ dirs = orth)
    {k f t : Nat} {d0 d e : Int × Int} {j i m : Nat} (hd0 : d0 ∈ dirs) (hd : d ∈ dirs) (he : e ∈ dirs)
    (hj : 1 ≤ j) (hi : 1 ≤ i) (hm1 : 1 ≤ m)
    (hf : At k d0 j f) (ht : At k d i t) (hm : At f e m t)
    (hnj : ∀ i' : Nat, 1 ≤ i' → i' < m → pt f e i' ≠ k) : d = d0 := by
  have hno : ¬ (e.1 = -d0.1 ∧ e.2 = -d0.2 ∧ j < m) := by
    rintro ⟨e1, e2, hlt⟩
    apply hnj j hj hlt
    have := at_pt (at_rev hf)
    have ee : e = (-d0.1, -d0.2) := Prod.ext e1 e2
    rw [ee]; exact this
  obtain ⟨a, b⟩ := d0
  obtain ⟨a', b'⟩ := e
  obtain ⟨a'', b''⟩ := d
  unfold At at hf ht hm
  dsimp only at *
  have : a'' = a ∧ b'' = b := by
    rcases hdirs with rfl | rfl
    · simp only [diag, List.mem_cons, List.not_mem_nil, or_false, Prod.mk.injEq] at hd0 hd he
      rcases hd0 with ⟨rfl, rfl⟩ | ⟨rfl, rfl⟩ | ⟨rfl, rfl⟩ | ⟨rfl, rfl⟩ <;>
        rcases hd with ⟨rfl, rfl⟩ | ⟨rfl, rfl⟩ | ⟨rfl, rfl⟩ | ⟨rfl, rfl⟩ <;>
        rcases he with ⟨rfl, rfl⟩ | ⟨rfl, rfl⟩ | ⟨rfl, rfl⟩ | ⟨rfl, rfl⟩ <;> omega
    · simp only [orth, List.mem_cons, List.not_mem_nil, or_false, Prod.mk.injEq] at hd0 hd he
      rcases hd0 with ⟨rfl, rfl⟩ | ⟨rfl, rfl⟩ | ⟨rfl, rfl⟩ | ⟨rfl, rfl⟩ <;>
        rcases hd with ⟨rfl, rfl⟩ | ⟨rfl, rfl⟩ | ⟨rfl, rfl⟩ | ⟨rfl, rfl⟩ <;>
        rcases he with ⟨rfl, rfl⟩ | ⟨rfl, rfl⟩ | ⟨rfl, rfl⟩ | ⟨rfl, rfl⟩ <;> omega
  obtain ⟨rfl, rfl⟩ := this
  rfl

theorem neg_mem_diag {d : Int × Int} (h : d ∈ diag) : (-d.1, -d.2) ∈ diag := by
  simp only [diag, List.mem_cons, List.not_mem_nil, or_false] at h
  rcases h with rfl | rfl | rfl | rfl <;> decide
theorem neg_mem_orth {d : Int × Int} (h : d ∈ orth) : (-d.1, -d.2) ∈ orth := by
  simp only [orth, List.mem_cons, List.not_mem_nil, or_false] at h
  rcases h with rfl | rfl | rfl | rfl <;> decide

/-! ### the generator's pin sets -/

section
variable {p : Position} (hV : ValidPos p = true)
include hV

omit hV in
/-- under `PinOk`, a piece pinned along `d0` moves along `±d0`. -/
theorem pinOk_move_dir {d0 : Int × Int} (hd0 : d0 ∈ dirs8) {f s0 t : Nat}
    (h1 : RayHit (relBoard p) (lsb (p.p5 &&& p.c0)) d0 f) (h2 : RayHit (relBoard p) f d0 s0)
    (h3 : (sliders p d0).getLsbD s0 = true) (hok : PinOk p f t)
    {e : Int × Int} {m : Nat} (ge : GoodDir e) (hm1 : 1 ≤ m) (hm : At f e m t) :
    e = d0 ∨ e = (-d0.1, -d0.2) := by
  obtain ⟨j, i, _, _, hf, ht⟩ := pinOk_on_line hd0 h1 h2 h3 hok
  rcases line_move_dir (goodDir_dirs8 d0 hd0) ge hf ht hm hm1 with ⟨a, b⟩ | ⟨a, b⟩
  · exact Or.inl (Prod.ext a b)
  · exact Or.inr (Prod.ext a b)

/-- a pinned piece cannot make a knight's move. -/
theorem pinned_not_pinOk_knight {f t : Nat} (hpin : (prelude p).pinned.getLsbD f = true)
    (hks : knightStep f t = true) : ¬ PinOk p f t := by
  intro hok
  rw [prelude_pinned hV] at hpin
  rcases hpin with ⟨d0, hd0, h1, _, s0, h2, hch⟩ | ⟨d0, hd0, h1, _, s0, h2, hch⟩
  · rw [← sliders_diag p hd0] at hch
    obtain ⟨j, i, _, _, hf, ht⟩ := pinOk_on_line (mem_dirs8_diag hd0) h1 h2 hch hok
    rw [line_no_knight (goodDir_diag d0 hd0) hf ht] at hks; cases hks
  · rw [← sliders_orth p hd0] at hch
    obtain ⟨j, i, _, _, hf, ht⟩ := pinOk_on_line (mem_dirs8_orth hd0) h1 h2 hch hok
    rw [line_no_knight (goodDir_orth d0 hd0) hf ht] at hks; cases hks

/-- a piece pinned on a diagonal cannot move along a rank or file. -/
theorem bpinned_not_pinOk_orth {f t : Nat} (hb : (prelude p).bpinned.getLsbD f = true)
    {e : Int × Int} {m : Nat} (he : e ∈ orth) (hm1 : 1 ≤ m) (hm : At f e m t) : ¬ PinOk p f t := by
  intro hok
  rw [prelude_bpinned hV] at hb
  obtain ⟨d0, hd0, h1, _, s0, h2, hch⟩ := hb
  rw [← sliders_diag p hd0] at hch
  rcases pinOk_move_dir (mem_dirs8_diag hd0) h1 h2 hch hok (goodDir_orth e he) hm1 hm with h | h
  · rw [h] at he; exact diag_orth_disj hd0 he
  · rw [h] at he; exact diag_orth_disj (neg_mem_diag hd0) he

/-- a piece pinned on a rank or file cannot move diagonally. -/
theorem rpinned_not_pinOk_diag {f t : Nat} (hb : (prelude p).rpinned.getLsbD f = true)
    {e : Int × Int} {m : Nat} (he : e ∈ diag) (hm1 : 1 ≤ m) (hm : At f e m t) : ¬ PinOk p f t := by
  intro hok
  rw [prelude_rpinned hV] at hb
  obtain ⟨d0, hd0, h1, _, s0, h2, hch⟩ := hb
  rw [← sliders_orth p hd0] at hch
  rcases pinOk_move_dir (mem_dirs8_orth hd0) h1 h2 hch hok (goodDir_diag e he) hm1 hm with h | h
  · rw [h] at he; exact diag_orth_disj he hd0
  · rw [h] at he; exact diag_orth_disj he (neg_mem_orth hd0)

omit hV in
/-- a point of a pin line, as a point of the king line. -/
theorem pinLine_at {B : Board} {k : Nat} {d : Int × Int} (gd : GoodDir d) {f' t : Nat}
    (g1 : RayHit B k d f') (hline : RayHit B k d t ∨ RayHit B f' d t) : ∃ i : Nat, 1 ≤ i ∧ At k d i t := by
  obtain ⟨j, hj⟩ := (rayHit_iff_hit _ gd _ _).mp g1
  rcases hline with h | h
  · obtain ⟨i, hi⟩ := (rayHit_iff_hit _ gd _ _).mp h
    exact ⟨i, hi.1, hi.2.1⟩
  · obtain ⟨i, hi⟩ := (rayHit_iff_hit _ gd _ _).mp h
    exact ⟨j + i, by have := hj.1; omega, at_add hj.2.1 hi.2.1⟩

/-- a diagonally pinned piece making a diagonal move that does not pass over the king stays on its pin
line iff the target is in `bxrays` (the union of all diagonal pin lines plus the king square). -/
theorem bpinned_pinOk_iff {f t : Nat} (hb : (prelude p).bpinned.getLsbD f = true) (ht : t < 64)
    (htk : t ≠ lsb (p.p5 &&& p.c0)) {e : Int × Int} {m : Nat} (he : e ∈ diag) (hm1 : 1 ≤ m)
    (hm : At f e m t) (hnj : ∀ i' : Nat, 1 ≤ i' → i' < m → pt f e i' ≠ lsb (p.p5 &&& p.c0)) :
    PinOk p f t ↔ (prelude p).bxrays.getLsbD t = true := by
  rw [prelude_bpinned hV] at hb
  obtain ⟨d0, hd0, h1, hus, s0, h2, hch⟩ := hb
  have hch' := hch
  rw [← sliders_diag p hd0] at hch'
  rw [pinOk_iff_line (mem_dirs8_diag hd0) t h1 h2 hch', prelude_bxrays hV]
  constructor
  · intro h
    exact Or.inr ⟨d0, hd0, f, ⟨h1, hus, s0, h2, hch⟩, ht, h⟩
  · rintro (h | ⟨d, hd, f', ⟨g1, gus, s', g2, gch⟩, _, hline⟩)
    · exact absurd h htk
    · obtain ⟨i, hi1, hti⟩ := pinLine_at (goodDir_diag d hd) g1 hline
      obtain ⟨j, hj⟩ := (rayHit_iff_hit _ (goodDir_diag d0 hd0) _ _).mp h1
      have e1 : d = d0 := same_dir diag (Or.inl rfl) hd0 hd he hj.1 hi1 hm1 hj.2.1 hti hm hnj
      subst e1
      have e2 : f' = f := rayHit_unique (goodDir_diag d hd) g1 h1 (own_ne_none hV f' gus) (own_ne_none hV f hus)
      subst e2
      exact hline

/-- the same for a piece pinned on a rank or file, an orthogonal move and `rxrays`. -/
theorem rpinned_pinOk_iff {f t : Nat} (hb : (prelude p).rpinned.getLsbD f = true) (ht : t < 64)
    {e : Int × Int} {m : Nat} (he : e ∈ orth) (hm1 : 1 ≤ m)
    (hm : At f e m t) (hnj : ∀ i' : Nat, 1 ≤ i' → i' < m → pt f e i' ≠ lsb (p.p5 &&& p.c0)) :
    PinOk p f t ↔ (prelude p).rxrays.getLsbD t = true := by
  rw [prelude_rpinned hV] at hb
  obtain ⟨d0, hd0, h1, hus, s0, h2, hch⟩ := hb
  have hch' := hch
  rw [← sliders_orth p hd0] at hch'
  rw [pinOk_iff_line (mem_dirs8_orth hd0) t h1 h2 hch', prelude_rxrays hV]
  constructor
  · intro h
    exact ⟨d0, hd0, f, ⟨h1, hus, s0, h2, hch⟩, ht, h⟩
  · rintro ⟨d, hd, f', ⟨g1, gus, s', g2, gch⟩, _, hline⟩
    obtain ⟨i, hi1, hti⟩ := pinLine_at (goodDir_orth d hd) g1 hline
    obtain ⟨j, hj⟩ := (rayHit_iff_hit _ (goodDir_orth d0 hd0) _ _).mp h1
    have e1 : d = d0 := same_dir orth (Or.inr rfl) hd0 hd he hj.1 hi1 hm1 hj.2.1 hti hm hnj
    subst e1
    have e2 : f' = f := rayHit_unique (goodDir_orth d hd) g1 h1 (own_ne_none hV f' gus) (own_ne_none hV f hus)
    subst e2
    exact hline

end

end Rawr.Att
