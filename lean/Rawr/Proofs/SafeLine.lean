import Rawr.Proofs.GenCastle4
/-!
# C01, the safety lemma — coordinate part

Lines through a fixed square `k` (the king): `pt k d i` is the square `i` steps of `d` away; `At k d n s`
says that `s` is that square; `Hit Y k d n s` says moreover that the `n - 1` squares in between are empty
on the board `Y`. Slider attacks are `Hit`s (`pieceAttacks_hit`); placing a piece on a square can only cut
lines (`attacked_after_place`).
-/
namespace Rawr.Att
open Spec

/-- the square `i` steps of `d` from `k` (meaningful while on the board). -/
def pt (k : Nat) (d : Int × Int) (i : Nat) : Nat := sq (file k + d.1 * i) (rank k + d.2 * i)

/-- `s` is `n` steps of `d` from `k`. -/
def At (k : Nat) (d : Int × Int) (n : Nat) (s : Nat) : Prop :=
  file s = file k + d.1 * n ∧ rank s = rank k + d.2 * n

/-- `s` is `n ≥ 1` steps of `d` from `k` and the squares in between are empty on `Y`. -/
def Hit (Y : Board) (k : Nat) (d : Int × Int) (n : Nat) (s : Nat) : Prop :=
  1 ≤ n ∧ At k d n s ∧ ∀ i : Nat, 1 ≤ i → i < n → Y (pt k d i) = none

def dirs8 : List (Int × Int) := diag ++ orth

theorem goodDir_dirs8 : ∀ d ∈ dirs8, GoodDir d := by
  intro d hd
  rcases List.mem_append.mp hd with h | h
  · exact goodDir_diag d h
  · exact goodDir_orth d h

theorem at_pt {k : Nat} {d : Int × Int} {n s : Nat} (h : At k d n s) : pt k d n = s := by
  unfold pt; rw [← h.1, ← h.2]; exact sq_file_rank s

theorem at_zero (k : Nat) (d : Int × Int) : At k d 0 k := by
  unfold At; simp

/-- the points of the segment from `k` to an on-board point are on the board. -/
theorem at_le {k : Nat} {d : Int × Int} {n s : Nat} (hd : GoodDir d) (hk : k < 64) (hs : s < 64)
    (h : At k d n s) {i : Nat} (hi : i ≤ n) : At k d i (pt k d i) ∧ pt k d i < 64 := by
  obtain ⟨a, b⟩ := d
  obtain ⟨ha, hb, _⟩ := hd
  obtain ⟨hf, hr⟩ := h
  dsimp only at ha hb hf hr
  have fk := file_bounds k
  have rk := rank_bounds hk
  have fs := file_bounds s
  have rs := rank_bounds hs
  have hon : onBoard (file k + a * i) (rank k + b * i) = true := by
    rw [onBoard_iff]
    rcases ha with rfl | rfl | rfl <;> rcases hb with rfl | rfl | rfl <;> omega
  exact ⟨⟨file_sq hon, rank_sq hon⟩, onBoard_lt hon⟩

theorem at_eq {k : Nat} {d : Int × Int} {n s s' : Nat} (h : At k d n s) (h' : At k d n s') : s = s' :=
  eq_of_file_rank (by rw [h.1, h'.1]) (by rw [h.2, h'.2])

/-- a square determines the direction and the distance. -/
theorem at_unique {k : Nat} {d d' : Int × Int} {n n' s : Nat} (hd : GoodDir d) (hd' : GoodDir d')
    (hn : 1 ≤ n) (hn' : 1 ≤ n') (h : At k d n s) (h' : At k d' n' s) : d = d' ∧ n = n' := by
  obtain ⟨a, b⟩ := d
  obtain ⟨a', b'⟩ := d'
  obtain ⟨ha, hb, hab⟩ := hd
  obtain ⟨ha', hb', hab'⟩ := hd'
  obtain ⟨hf, hr⟩ := h
  obtain ⟨hf', hr'⟩ := h'
  dsimp only at ha hb hab ha' hb' hab' hf hr hf' hr'
  have : a = a' ∧ b = b' ∧ n = n' := by
    rcases ha with rfl | rfl | rfl <;> rcases hb with rfl | rfl | rfl <;>
      rcases ha' with rfl | rfl | rfl <;> rcases hb' with rfl | rfl | rfl <;> omega
  obtain ⟨rfl, rfl, rfl⟩ := this
  exact ⟨rfl, rfl⟩

theorem at_inj {k : Nat} {d : Int × Int} {n n' s : Nat} (hd : GoodDir d)
    (h : At k d n s) (h' : At k d n' s) : n = n' := by
  obtain ⟨a, b⟩ := d
  obtain ⟨ha, hb, hab⟩ := hd
  obtain ⟨hf, hr⟩ := h
  obtain ⟨hf', hr'⟩ := h'
  dsimp only at ha hb hab hf hr hf' hr'
  rcases ha with rfl | rfl | rfl <;> rcases hb with rfl | rfl | rfl <;> omega

theorem at_add {k f s : Nat} {d : Int × Int} {j m : Nat} (h1 : At k d j f) (h2 : At f d m s) :
    At k d (j + m) s := by
  unfold At at *
  rw [h2.1, h2.2, h1.1, h1.2, Int.natCast_add, Int.mul_add, Int.mul_add]
  omega

theorem at_sub {k f s : Nat} {d : Int × Int} {j n : Nat} (h1 : At k d j f) (h2 : At k d n s)
    (hjn : j ≤ n) : At f d (n - j) s := by
  unfold At at *
  have e : ((n - j : Nat) : Int) = (n : Int) - (j : Int) := by omega
  rw [h2.1, h2.2, h1.1, h1.2, e, Int.mul_sub, Int.mul_sub]
  omega

theorem pt_add {k f : Nat} {d : Int × Int} {j : Nat} (h : At k d j f) (i : Nat) :
    pt f d i = pt k d (j + i) := by
  unfold pt
  rw [h.1, h.2, Int.natCast_add, Int.mul_add, Int.mul_add, Int.add_assoc, Int.add_assoc]

theorem neg_goodDir {d : Int × Int} (h : GoodDir d) : GoodDir (-d.1, -d.2) := by
  obtain ⟨h1, h2, h3⟩ := h
  exact ⟨unit3_neg h1, unit3_neg h2, by dsimp only; omega⟩

theorem at_rev {k s : Nat} {d : Int × Int} {n : Nat} (h : At k d n s) : At s (-d.1, -d.2) n k := by
  unfold At at *
  dsimp only
  rw [h.1, h.2, Int.neg_mul, Int.neg_mul]
  omega

/-! ### `Hit` and `clearBetween` -/

theorem hit_iff_clear (Y : Board) {d : Int × Int} (hd : GoodDir d) (k s n : Nat) (hn : 1 ≤ n)
    (h : At k d n s) :
    clearBetween Y k s = true ↔ ∀ i : Nat, 1 ≤ i → i < n → Y (pt k d i) = none := by
  obtain ⟨ha, hb, hab⟩ := hd
  rw [clearBetween_iff Y ha hb hab k s n hn h.1 h.2]
  unfold pt
  constructor
  · intro h' i h1 h2; exact (isNone_iff _).mp (h' i h1 h2)
  · intro h' i h1 h2; exact (isNone_iff _).mpr (h' i h1 h2)

/-- `Aligned` + `clearBetween`, read from the target square. -/
theorem aligned_clear_hit (Y : Board) (dirs : List (Int × Int)) (hd : ∀ d ∈ dirs, GoodDir d) (k s : Nat) :
    (Aligned dirs k s ∧ clearBetween Y k s = true) ↔ ∃ d ∈ dirs, ∃ n, Hit Y k d n s := by
  unfold Aligned Hit
  constructor
  · rintro ⟨⟨d, hdm, n, hn, hf, hr⟩, hc⟩
    exact ⟨d, hdm, n, hn, ⟨hf, hr⟩, (hit_iff_clear Y (hd d hdm) k s n hn ⟨hf, hr⟩).mp hc⟩
  · rintro ⟨d, hdm, n, hn, hat, hc⟩
    exact ⟨⟨d, hdm, n, hn, hat.1, hat.2⟩, (hit_iff_clear Y (hd d hdm) k s n hn hat).mpr hc⟩

theorem diagAtt_hit (Y : Board) (s k : Nat) :
    diagAtt Y s k = true ↔ ∃ d ∈ diag, ∃ n, Hit Y k d n s := by
  rw [diagAtt_symm, diagAtt_iff, aligned_clear_hit Y diag goodDir_diag]

theorem orthAtt_hit (Y : Board) (s k : Nat) :
    orthAtt Y s k = true ↔ ∃ d ∈ orth, ∃ n, Hit Y k d n s := by
  rw [orthAtt_symm, orthAtt_iff, aligned_clear_hit Y orth goodDir_orth]

/-- a slider of kind `kd` moves along `d`. -/
def KindDir (kd : Kind) (d : Int × Int) : Prop :=
  ((kd = .bishop ∨ kd = .queen) ∧ d ∈ diag) ∨ ((kd = .rook ∨ kd = .queen) ∧ d ∈ orth)

/-- the piece `q` on `s` attacks `k` as a leaper. -/
def Leap (q : Piece) (s k : Nat) : Prop :=
  (q.kind = .pawn ∧ pawnStep q.white s k = true) ∨ (q.kind = .knight ∧ knightStep s k = true) ∨
    (q.kind = .king ∧ kingStep s k = true)

theorem kindDir_goodDir {kd : Kind} {d : Int × Int} (h : KindDir kd d) : GoodDir d := by
  rcases h with ⟨_, h⟩ | ⟨_, h⟩
  · exact goodDir_diag d h
  · exact goodDir_orth d h

theorem pieceAttacks_hit (Y : Board) (s k : Nat) (q : Piece) :
    pieceAttacks Y s q k = true ↔ Leap q s k ∨ ∃ d n, KindDir q.kind d ∧ Hit Y k d n s := by
  rw [pieceAttacks_split]
  obtain ⟨w, kd⟩ := q
  unfold Leap KindDir
  cases kd <;> simp only [reduceCtorEq, false_and, false_or, or_false, true_and, or_self,
    exists_false, or_true]
  · rw [diagAtt_hit]
    constructor
    · rintro ⟨d, hd, n, h⟩; exact ⟨d, n, hd, h⟩
    · rintro ⟨d, n, hd, h⟩; exact ⟨d, hd, n, h⟩
  · rw [orthAtt_hit]
    constructor
    · rintro ⟨d, hd, n, h⟩; exact ⟨d, n, hd, h⟩
    · rintro ⟨d, n, hd, h⟩; exact ⟨d, hd, n, h⟩
  · rw [Bool.or_eq_true, diagAtt_hit, orthAtt_hit]
    constructor
    · rintro (⟨d, hd, n, h⟩ | ⟨d, hd, n, h⟩)
      · exact ⟨d, n, Or.inl hd, h⟩
      · exact ⟨d, n, Or.inr hd, h⟩
    · rintro ⟨d, n, hd | hd, h⟩
      · exact Or.inl ⟨d, hd, n, h⟩
      · exact Or.inr ⟨d, hd, n, h⟩

/-! ### placing a piece cuts lines -/

theorem setSq_none_iff (Y : Board) (t x : Nat) (pc : Piece) :
    setSq Y t (some pc) x = none ↔ x ≠ t ∧ Y x = none := by
  unfold setSq
  by_cases e : x = t
  · simp [e]
  · simp [e]

theorem hit_place (Y : Board) (t : Nat) (pc : Piece) (k : Nat) (d : Int × Int) (n s : Nat) :
    Hit (setSq Y t (some pc)) k d n s ↔ Hit Y k d n s ∧ ∀ i : Nat, 1 ≤ i → i < n → pt k d i ≠ t := by
  unfold Hit
  simp only [setSq_none_iff]
  constructor
  · rintro ⟨h1, h2, h3⟩
    exact ⟨⟨h1, h2, fun i a b => (h3 i a b).2⟩, fun i a b => (h3 i a b).1⟩
  · rintro ⟨⟨h1, h2, h3⟩, h4⟩
    exact ⟨h1, h2, fun i a b => ⟨h4 i a b, h3 i a b⟩⟩

/-- After a piece of the mover (`pc`, "white" in the mover's frame) has been put on `t`, the square `k`
is unattacked iff every enemy piece other than the one on `t` that attacked `k` before is a slider whose
line to `k` passes over `t`. -/
theorem attacked_after_place (X : Board) (t k : Nat) (pc : Piece) (hpc : pc.white = true) :
    attackedBy (setSq X t (some pc)) false k = false ↔
      ∀ s, s < 64 → ∀ q : Piece, X s = some q → q.white = false → s ≠ t →
        (¬ Leap q s k ∧ ∀ d n, KindDir q.kind d → Hit X k d n s →
          ∃ i : Nat, 1 ≤ i ∧ i < n ∧ pt k d i = t) := by
  rw [← Bool.not_eq_true, attackedBy_iff]
  constructor
  · intro h s hs q hX hw hst
    have hB' : setSq X t (some pc) s = some q := by unfold setSq; rw [if_neg hst]; exact hX
    have hna : ¬ pieceAttacks (setSq X t (some pc)) s q k = true :=
      fun ha => h ⟨s, hs, q, hB', hw, ha⟩
    rw [pieceAttacks_hit] at hna
    refine ⟨fun hl => hna (Or.inl hl), ?_⟩
    intro d n hkd hh
    apply Classical.byContradiction
    intro hno
    apply hna
    right
    refine ⟨d, n, hkd, (hit_place X t pc k d n s).mpr ⟨hh, ?_⟩⟩
    intro i h1 h2 e
    exact hno ⟨i, h1, h2, e⟩
  · rintro h ⟨s, hs, q, hB', hw, ha⟩
    have hst : s ≠ t := by
      intro e
      rw [e] at hB'
      unfold setSq at hB'
      rw [if_pos rfl] at hB'
      injection hB' with hB'
      rw [hB', hw] at hpc; cases hpc
    have hX : X s = some q := by unfold setSq at hB'; rw [if_neg hst] at hB'; exact hB'
    obtain ⟨hnl, hsl⟩ := h s hs q hX hw hst
    rw [pieceAttacks_hit] at ha
    rcases ha with ha | ⟨d, n, hkd, hh⟩
    · exact hnl ha
    · obtain ⟨hh', hcut⟩ := (hit_place X t pc k d n s).mp hh
      obtain ⟨i, h1, h2, e⟩ := hsl d n hkd hh'
      exact hcut i h1 h2 e

/-! ### lifting a piece opens lines -/

theorem hit_lift (B : Board) (f : Nat) (k : Nat) (d : Int × Int) (n s : Nat) :
    Hit (setSq B f none) k d n s ↔
      1 ≤ n ∧ At k d n s ∧ ∀ i : Nat, 1 ≤ i → i < n → (pt k d i = f ∨ B (pt k d i) = none) := by
  unfold Hit setSq
  constructor
  · rintro ⟨h1, h2, h3⟩
    refine ⟨h1, h2, fun i a b => ?_⟩
    have := h3 i a b
    by_cases e : pt k d i = f
    · exact Or.inl e
    · rw [if_neg e] at this; exact Or.inr this
  · rintro ⟨h1, h2, h3⟩
    refine ⟨h1, h2, fun i a b => ?_⟩
    by_cases e : pt k d i = f
    · rw [if_pos e]
    · rw [if_neg e]
      rcases h3 i a b with h | h
      · exact absurd h e
      · exact h

/-- the squares a `Hit` passes over are empty. -/
theorem hit_blocked {B : Board} {k : Nat} {d : Int × Int} {n m s x : Nat}
    (h : Hit B k d n s) (hx : At k d m x) (hm1 : 1 ≤ m) (hmn : m < n) : B x = none := by
  have := h.2.2 m hm1 hmn
  rw [at_pt hx] at this
  exact this

end Rawr.Att
