import Rawr.Proofs.HashValid
/-! Facts about a `ValidPos` position in mover-relative terms (used by `gen_shape`, C09, C01). -/
set_option linter.unusedSimpArgs false
namespace Rawr
open Rawr.Position Rawr.Spec Rawr.ZH

/-- what the generator proofs need of `ValidPos`, in mover-relative bitboard terms. -/
structure VFacts (p : Position) : Prop where
  cons : Consistent p = true
  king1 : count (p.c0 &&& p.p5) = 1
  rK : p.usK = true → p.cf0 < 8 ∧ (p.c0 &&& p.p3).getLsbD p.cf0 = true ∧ lsb (p.c0 &&& p.p5) < p.cf0
  rQ : p.usQ = true → p.cf1 < 8 ∧ (p.c0 &&& p.p3).getLsbD p.cf1 = true ∧ p.cf1 < lsb (p.c0 &&& p.p5) ∧
        lsb (p.c0 &&& p.p5) < 8
  ep : ∀ e, p.ep = some e → e < 64 ∧ rankOf e = 5 ∧ p.c0.getLsbD e = false ∧ p.c1.getLsbD e = false ∧
        (p.c1 &&& p.p0).getLsbD (e - 8) = true

theorem cell_king' : ∀ t u v q0 q1 q2 q3 q4 q5 : Bool, cellOk u v q0 q1 q2 q3 q4 q5 = true →
    (cellPiece t u v q0 q1 q2 q3 q4 q5 == some (⟨!t, .king⟩ : Piece)) = (u && q5) := by
  decide

theorem cell_none : ∀ t u v q0 q1 q2 q3 q4 q5 : Bool, cellOk u v q0 q1 q2 q3 q4 q5 = true →
    (cellPiece t u v q0 q1 q2 q3 q4 q5).isNone = true → u = false ∧ v = false := by
  decide

theorem cell_pawn_them : ∀ t u v q0 q1 q2 q3 q4 q5 : Bool, cellOk u v q0 q1 q2 q3 q4 q5 = true →
    cellPiece t u v q0 q1 q2 q3 q4 q5 = some (⟨t, .pawn⟩ : Piece) → (v && q0) = true := by
  decide

/-- the unique king square of the side to move is the image of `lsb (c0 &&& p5)`. -/
theorem kingSquares_us {p : Position} (hC : Consistent p) (h1 : count (p.c0 &&& p.p5) ≤ 1) {k : Nat}
    (hk : k ∈ kingSquares (abs p).board (!p.black)) :
    k < 64 ∧ lsb (p.c0 &&& p.p5) = maybeFlip k p.black := by
  unfold kingSquares squares at hk
  rw [List.mem_filter, List.mem_range] at hk
  obtain ⟨hk64, hb⟩ := hk
  refine ⟨hk64, ?_⟩
  have hb' : (absBoard p k == some (⟨!p.black, .king⟩ : Piece)) = true := hb
  rw [absBoard_eq p k hk64] at hb'
  have := cell_king' p.black _ _ _ _ _ _ _ _ (cellOk_of_consistent hC (maybeFlip k p.black))
  rw [this] at hb'
  apply lsb_unique h1
  rw [BitVec.getLsbD_and]
  exact hb'

theorem home_facts : ∀ k : Fin 64, (k.val / 8 = 7 → (k.val ^^^ 56) = k.val % 8) ∧
    (k.val / 8 = 0 → k.val = k.val % 8) := by decide

theorem ep_facts : ∀ e : Fin 64, (e.val / 8 = 2 → (e.val ^^^ 56) / 8 = 5 ∧ 8 ≤ (e.val ^^^ 56) ∧
    (e.val % 8 + 8 * 3) ^^^ 56 = (e.val ^^^ 56) - 8) := by decide

/-- the clause of `Spec.Valid` for one castling right of the side to move, read off. -/
theorem right_clause_us {p : Position} (hC : Consistent p) (h1 : count (p.c0 &&& p.p5) ≤ 1)
    {r : Option Nat} {ks : Bool}
    (h : (match r with
      | none => true
      | some f => decide (f < 8) && (abs p).board (sq (↑f) (homeRank (!p.black))) == some ⟨!p.black, Kind.rook⟩ &&
        (match kingSquares (abs p).board (!p.black) with
         | [k] => rank k == homeRank (!p.black) && (if ks then file k < f else (f : Int) < file k)
         | _ => false)) = true)
    {f : Nat} (hr : r = some f) :
    f < 8 ∧ (p.c0 &&& p.p3).getLsbD f = true ∧ lsb (p.c0 &&& p.p5) < 8 ∧
      (if ks then lsb (p.c0 &&& p.p5) < f else f < lsb (p.c0 &&& p.p5)) := by
  subst hr
  simp only [Bool.and_eq_true, beq_iff_eq, decide_eq_true_eq] at h
  obtain ⟨⟨hf, hrook⟩, hk⟩ := h
  refine ⟨hf, ?_, ?_⟩
  · cases hb : p.black
    · rw [hb] at hrook
      simp only [Bool.not_false, sq_home_true] at hrook
      have := rook_us_of_board hC (a := f) (by omega) (by rw [hb]; exact hrook)
      rw [hb] at this
      exact this
    · rw [hb] at hrook
      simp only [Bool.not_true, sq_home_false] at hrook
      have := rook_us_of_board hC (a := f + 56) (by omega) (by rw [hb]; exact hrook)
      rw [hb] at this
      simpa [maybeFlip, xor56_add _ hf] using this
  · split at hk
    · rename_i k hks
      have hmem : k ∈ kingSquares (abs p).board (!p.black) := by rw [hks]; exact List.mem_singleton.mpr rfl
      obtain ⟨hk64, hl⟩ := kingSquares_us hC h1 hmem
      rw [hl]
      simp only [Bool.and_eq_true, beq_iff_eq] at hk
      obtain ⟨hrank, hfile⟩ := hk
      have hf7 := (home_facts ⟨k, hk64⟩).1
      have hf0 := (home_facts ⟨k, hk64⟩).2
      simp only at hf7 hf0
      cases hb : p.black
      · rw [hb] at hrank
        simp only [Bool.not_false, homeRank, if_true, rank] at hrank
        have hk0 : k / 8 = 0 := by omega
        have := hf0 hk0
        simp only [maybeFlip, hb, Bool.false_eq_true, if_false]
        cases ks
        · simp only [Bool.false_eq_true, if_false, file] at hfile ⊢
          have := of_decide_eq_true hfile
          omega
        · simp only [if_true, file] at hfile ⊢
          have := of_decide_eq_true hfile
          omega
      · rw [hb] at hrank
        simp only [Bool.not_true, homeRank, Bool.false_eq_true, if_false, rank] at hrank
        have hk0 : k / 8 = 7 := by omega
        have := hf7 hk0
        simp only [maybeFlip, hb, if_true]
        cases ks
        · simp only [Bool.false_eq_true, if_false, file] at hfile ⊢
          have := of_decide_eq_true hfile
          omega
        · simp only [if_true, file] at hfile ⊢
          have := of_decide_eq_true hfile
          omega
    · cases hk

theorem vfacts_of_valid {p : Position} (hv : ValidPos p = true) : VFacts p := by
  have hv0 := hv
  simp only [ValidPos, Bool.and_eq_true, decide_eq_true_eq] at hv
  obtain ⟨⟨⟨⟨⟨⟨⟨⟨hC, hV⟩, _⟩, _⟩, h0⟩, h1⟩, h2⟩, h3⟩, _⟩ := hv
  unfold Spec.Valid at hV
  simp only [Bool.and_eq_true, List.all_cons, List.all_nil, Bool.and_true, right] at hV
  obtain ⟨⟨⟨⟨⟨⟨⟨kw, kb⟩, _⟩, _⟩, ⟨rwK, rwQ, rbK, rbQ⟩⟩, hep⟩, _⟩, _⟩ := hV
  have kc := king_count hC
  have hcount : count (p.c0 &&& p.p5) = 1 := by
    rw [← kc]
    cases hb : p.black
    · simpa using kw
    · simpa using kb
  have hle : count (p.c0 &&& p.p5) ≤ 1 := by omega
  refine ⟨hC, hcount, ?_, ?_, ?_⟩
  · intro hu
    cases hb : p.black
    · have hr : (abs p).wK = some p.cf0 := by simp [abs, hb, hu]
      have := right_clause_us (ks := true) hC hle (by rw [hb]; exact rwK) hr
      simp only [if_true] at this
      exact ⟨this.1, this.2.1, this.2.2.2⟩
    · have hr : (abs p).bK = some p.cf0 := by simp [abs, hb, hu]
      have := right_clause_us (ks := true) hC hle (by rw [hb]; exact rbK) hr
      simp only [if_true] at this
      exact ⟨this.1, this.2.1, this.2.2.2⟩
  · intro hu
    cases hb : p.black
    · have hr : (abs p).wQ = some p.cf1 := by simp [abs, hb, hu]
      have := right_clause_us (ks := false) hC hle (by rw [hb]; exact rwQ) hr
      simp only [Bool.false_eq_true, if_false] at this
      exact ⟨this.1, this.2.1, this.2.2.2, this.2.2.1⟩
    · have hr : (abs p).bQ = some p.cf1 := by simp [abs, hb, hu]
      have := right_clause_us (ks := false) hC hle (by rw [hb]; exact rbQ) hr
      simp only [Bool.false_eq_true, if_false] at this
      exact ⟨this.1, this.2.1, this.2.2.2, this.2.2.1⟩
  · intro e he
    have hae : (abs p).ep = some (absSq p.black e) := by simp [abs, he]
    rw [hae] at hep
    simp only [Bool.and_eq_true, beq_iff_eq] at hep
    obtain ⟨⟨hrank, hnone⟩, hpawn⟩ := hep
    have hwm : (abs p).whiteToMove = !p.black := rfl
    rw [hwm] at hrank hpawn
    cases hb : p.black
    · rw [hb] at hrank hpawn hnone
      simp only [absSq, Bool.false_eq_true, if_false, Bool.not_false, if_true, rank] at hrank hpawn hnone
      have he5 : e / 8 = 5 := by omega
      have he64 : e < 64 := by omega
      have hbn : (absBoard p e).isNone = true := hnone
      rw [absBoard_eq p e he64] at hbn
      have hn := cell_none p.black _ _ _ _ _ _ _ _ (cellOk_of_consistent hC _) hbn
      simp only [hb, maybeFlip, Bool.false_eq_true, if_false] at hn
      have hsq : sq (file e) 4 = e - 8 := by simp only [sq, file]; omega
      rw [hsq] at hpawn
      have hbp : absBoard p (e - 8) = some ⟨p.black, .pawn⟩ := by rw [hb]; exact hpawn
      rw [absBoard_eq p (e - 8) (by omega)] at hbp
      have hp := cell_pawn_them p.black _ _ _ _ _ _ _ _ (cellOk_of_consistent hC _) hbp
      simp only [hb, maybeFlip, Bool.false_eq_true, if_false] at hp
      exact ⟨he64, he5, hn.1, hn.2, by rw [BitVec.getLsbD_and]; exact hp⟩
    · rw [hb] at hrank hpawn hnone
      simp only [absSq, if_true, Bool.not_true, Bool.false_eq_true, if_false, rank] at hrank hpawn hnone
      have ha2 : (e ^^^ 56) / 8 = 2 := by omega
      have ha64 : e ^^^ 56 < 64 := by omega
      have hf := ep_facts ⟨e ^^^ 56, ha64⟩
      simp only [xor56_xor56] at hf
      obtain ⟨h5, h8, hx⟩ := hf ha2
      have he64 : e < 64 := by
        have := xor56_lt ha64
        rwa [xor56_xor56] at this
      have hbn : (absBoard p (e ^^^ 56)).isNone = true := hnone
      rw [absBoard_eq p _ ha64] at hbn
      have hn := cell_none p.black _ _ _ _ _ _ _ _ (cellOk_of_consistent hC _) hbn
      simp only [hb, maybeFlip, if_true, xor56_xor56] at hn
      have hsq : sq (file (e ^^^ 56)) 3 = (e ^^^ 56) % 8 + 8 * 3 := by simp only [sq, file]; omega
      rw [hsq] at hpawn
      have hbp : absBoard p ((e ^^^ 56) % 8 + 8 * 3) = some ⟨p.black, .pawn⟩ := by rw [hb]; exact hpawn
      rw [absBoard_eq p _ (by omega)] at hbp
      have hp := cell_pawn_them p.black _ _ _ _ _ _ _ _ (cellOk_of_consistent hC _) hbp
      simp only [hb, maybeFlip, if_true, hx] at hp
      exact ⟨he64, h5, hn.1, hn.2, by rw [BitVec.getLsbD_and]; exact hp⟩

end Rawr
