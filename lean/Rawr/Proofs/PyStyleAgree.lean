import Rawr.Generated.PyStyle
import Lean
/-!
# The hand-written model of style.py agrees with the definitions REGENERATED from the Python source
-/
namespace Rawr.PyStyleAgree
open Rawr Rawr.Style Rawr.PyStyle

/-! ## class Stats -/

open Lean Elab Command Meta in
/-- decode a closed `List String` expression (a list display of string literals). -/
def decodeStringList : Nat → Expr → MetaM (List String)
  | 0, _ => throwError "list too long"
  | fuel + 1, e => do
    let e ← whnf e
    match e.getAppFnArgs with
    | (``List.nil, _) => pure []
    | (``List.cons, #[_, hd, tl]) =>
      let hd ← whnf hd
      match hd with
      | .lit (.strVal s) => return s :: (← decodeStringList fuel tl)
      | _ => throwError "not a string literal: {hd}"
    | _ => throwError "not a list display: {e}"

open Lean Elab Command in
/-- elaboration-time check: the model's structure `Style.Stats` has exactly the dataclass fields, in order. -/
elab "#check_stats_fields" : command => do
  let env ← getEnv
  let fields := (getStructureFields env ``Rawr.Style.Stats).toList.map (·.toString)
  let expected ← liftTermElabM (decodeStringList 1000 (mkConst ``Rawr.PyStyle.Stats.fieldNames))
  unless fields == expected do
    throwError "Style.Stats fields {fields} differ from the dataclass fields {expected}"
  logInfo m!"Style.Stats has exactly the {fields.length} dataclass fields"

#check_stats_fields

theorem agree_Stats_default : PyStyle.Stats.default = Style.Stats.fresh := by
  decide +kernel

example : PyStyle.Stats.default.gameLength.length = 1024 ∧ PyStyle.Stats.default.finalMaterial.length = 207 ∧
    PyStyle.Stats.default.captureDistance = [0, 0, 0, 0, 0, 0, 0, 0] := by decide +kernel

theorem agree_add_capture : @PyStyle.Stats.add_capture = @Style.Stats.addCapture := rfl
theorem agree_add_noncapture : @PyStyle.Stats.add_noncapture = @Style.Stats.addNoncapture := rfl


/-! ## the `Except` monad -/

theorem bind_ok {ε α β : Type} (a : α) (f : α → Except ε β) : (Except.ok a >>= f) = f a := rfl
theorem bind_err {ε α β : Type} (e : ε) (f : α → Except ε β) : ((Except.error e : Except ε α) >>= f) = .error e := rfl
theorem pure_eq {ε α : Type} (a : α) : (pure a : Except ε α) = .ok a := rfl
theorem throw_eq {ε α : Type} (e : ε) : (throw e : Except ε α) = .error e := rfl

/-! ## Stats methods -/

theorem augAdd_one (l : List Nat) (i : Nat) : Py.augAdd l i 1 = incAt l i := rfl

theorem augAddI_ofNat (l : List Nat) (i v : Nat) : Py.augAddI l (i : Int) v = Py.augAdd l i v := by
  simp [Py.augAddI]

theorem rank_eq (side : Color) (to : Square) :
    (if (side == WHITE) = true then ((squareRank to : Nat) : Int) else (7 : Int) - (squareRank to : Int))
      = ((Stats.relRank side to : Nat) : Int) := by
  have h : squareRank to ≤ 7 := by unfold squareRank; omega
  unfold Stats.relRank
  split <;> omega

theorem agree_add_pawn_push (s : Stats) (ply : Nat) (to : Square) (side : Color) (k : Square) :
    PyStyle.Stats.add_pawn_push s ply to side k = Style.Stats.addPawnPush s ply to side k := by
  unfold PyStyle.Stats.add_pawn_push Style.Stats.addPawnPush
  have e1 : (PyStyle.Stats.aug_totalPawnPushes s 1).earlyPawnPushes = s.earlyPawnPushes := rfl
  have e2 : (PyStyle.Stats.aug_totalPawnPushes s 1).midPawnPushes = s.midPawnPushes := rfl
  have e3 : (PyStyle.Stats.aug_totalPawnPushes s 1).latePawnPushes = s.latePawnPushes := rfl
  simp only [rank_eq, augAddI_ofNat, augAdd_one, e1, e2, e3]
  split
  · generalize incAt _ _ = r; cases r <;> rfl
  · split
    · generalize incAt _ _ = r; cases r <;> rfl
    · generalize incAt _ _ = r; cases r <;> rfl

theorem agree_finish_game : @PyStyle.Stats.finish_game = @Style.Stats.finishGame := by
  funext s ply
  unfold PyStyle.Stats.finish_game Style.Stats.finishGame
  simp only [augAdd_one] <;> rfl

theorem agree_queens_off : @PyStyle.Stats.queens_off = @Style.Stats.queensOff := by
  funext s ply
  unfold PyStyle.Stats.queens_off Style.Stats.queensOff
  simp only [augAdd_one] <;> rfl


/-! ## is_valid -/

/-- `if l[0] > 0 or l[1] > 0: return False`, then `K`: the generated short-circuit form and the model's. -/
theorem pair_eq (x y : Except PyErr Nat) (K : Except PyErr Bool) :
    (do let t3 ← (do let t1 ← x
                     if decide (t1 > 0) = true then pure true else do
                       let t2 ← y
                       pure (decide (t2 > 0)))
        if t3 = true then pure false else K)
    = (match x with
       | .error e => .error e
       | .ok a => if a > 0 then .ok false else
          match y with
          | .error e => .error e
          | .ok b => if b > 0 then .ok false else K) := by
  cases x with
  | error e => rfl
  | ok a =>
    by_cases ha : a > 0
    · simp only [bind_ok, pure_eq, ha, ↓reduceIte, decide_true]
    · cases y with
      | error e => simp only [bind_ok, bind_err, pure_eq, ha, ↓reduceIte, decide_false, Bool.false_eq_true]
      | ok b =>
        by_cases hb : b > 0
        · simp only [bind_ok, pure_eq, ha, hb, ↓reduceIte, decide_false, decide_true, Bool.false_eq_true]
        · simp only [bind_ok, pure_eq, ha, hb, ↓reduceIte, decide_false, Bool.false_eq_true]

theorem agree_is_valid : @PyStyle.is_valid = @Style.isValid := by
  funext s
  unfold PyStyle.is_valid Style.isValid
  simp only [pair_eq]
  rfl


/-! ## sums over generators -/

theorem map_ok {α β : Type} (f : α → β) (a : α) : (Except.ok a : Except PyErr α).map f = .ok (f a) := rfl
theorem map_err {α β : Type} (f : α → β) (e : PyErr) : (Except.error e : Except PyErr α).map f = .error e := rfl

/-- `sum(w[d] * x for d, x in enumerate(l))` -/
theorem sumGenM_enumDot (w : List Nat) (f : Nat × Nat → Except PyErr Nat)
    (hf : ∀ d x, f (d, x) = (getAt w d).map (· * x)) (l : List Nat) (i acc : Nat) :
    Py.sumGenM f (Py.enumerateFrom i l) acc = (enumDotFrom w i l).map (acc + ·) := by
  induction l generalizing i acc with
  | nil => rfl
  | cons x xs ih =>
    unfold Py.enumerateFrom Py.sumGenM enumDotFrom
    rw [hf]
    cases h : getAt w i with
    | error e => cases enumDotFrom w (i + 1) xs <;> rfl
    | ok wi =>
      simp only [map_ok]
      rw [ih]
      cases enumDotFrom w (i + 1) xs with
      | error e => rfl
      | ok r => simp only [map_ok, Nat.add_assoc]

/-- `sum(w[i] * l[i] for i in range(lo, lo + n))` -/
theorem sumGenM_rangeDot (w l : List Nat) (f : Nat → Except PyErr Nat)
    (hf : ∀ i, f i = (do let a ← getAt w i; let b ← getAt l i; pure (a * b))) (i n acc : Nat) :
    Py.sumGenM f (List.range' i n) acc = (Aggression.rangeDot w l i n).map (acc + ·) := by
  induction n generalizing i acc with
  | zero => rfl
  | succ n ih =>
    unfold List.range' Py.sumGenM Aggression.rangeDot
    rw [hf]
    cases h : getAt w i with
    | error e => cases getAt l i <;> cases Aggression.rangeDot w l (i + 1) n <;> rfl
    | ok a =>
      cases h2 : getAt l i with
      | error e => cases Aggression.rangeDot w l (i + 1) n <;> rfl
      | ok b =>
        simp only [bind_ok, pure_eq]
        rw [ih]
        cases Aggression.rangeDot w l (i + 1) n with
        | error e => rfl
        | ok r => simp only [map_ok, Nat.add_assoc]

/-- `sum(min(idx, c) * freq for idx, freq in enumerate(l))` -/
theorem sumGen_enumMinSum (c : Nat) (f : Nat × Nat → Nat) (hf : ∀ i x, f (i, x) = Nat.min i c * x)
    (l : List Nat) (i acc : Nat) :
    List.foldl (fun acc x => acc + f x) acc (Py.enumerateFrom i l) = acc + enumMinSumFrom c i l := by
  induction l generalizing i acc with
  | nil => rfl
  | cons x xs ih =>
    unfold Py.enumerateFrom enumMinSumFrom
    rw [List.foldl, ih, hf, Nat.add_assoc]

/-! ## the features of get_aggression_score -/

theorem agree_aggr_feature_game_length :
    @PyStyle.get_aggression_score.feature_game_length = @Aggression.featureGameLength := rfl

theorem agree_aggr_feature_capture_early :
    @PyStyle.get_aggression_score.feature_capture_early = Aggression.featureCaptureEarly .guarded := by
  funext s
  unfold PyStyle.get_aggression_score.feature_capture_early Aggression.featureCaptureEarly
  by_cases h : s.totalCaptures = 0 <;> simp only [h, and_self, and_false, ↓reduceIte] <;> rfl

theorem agree_aggr_feature_capture_near_king :
    @PyStyle.get_aggression_score.feature_capture_near_king = Aggression.featureCaptureNearKing .guarded := by
  funext s
  unfold PyStyle.get_aggression_score.feature_capture_near_king Aggression.featureCaptureNearKing
  by_cases h : s.totalCaptures = 0 <;> simp only [h, and_self, and_false, ↓reduceIte]
  · rfl
  · unfold Py.enumerate enumDot Aggression.nearKingWeights
    rw [sumGenM_enumDot [0, 8, 4, 2, 1, 0, 0, 0] _ (by intro d x; cases getAt _ d <;> rfl)]
    cases enumDotFrom [0, 8, 4, 2, 1, 0, 0, 0] 0 s.captureDistance with
    | error e => rfl
    | ok r => simp only [map_ok, Nat.zero_add]; rfl

theorem agree_aggr_feature_move_near_king :
    @PyStyle.get_aggression_score.feature_move_near_king = Aggression.featureMoveNearKing .guarded := by
  funext s
  unfold PyStyle.get_aggression_score.feature_move_near_king Aggression.featureMoveNearKing
  by_cases h : s.totalNoncaptures = 0 <;> simp only [h, and_self, and_false, ↓reduceIte]
  · rfl
  · unfold Py.enumerate enumDot Aggression.nearKingWeights
    rw [sumGenM_enumDot [0, 8, 4, 2, 1, 0, 0, 0] _ (by intro d x; cases getAt _ d <;> rfl)]
    cases enumDotFrom [0, 8, 4, 2, 1, 0, 0, 0] 0 s.noncaptureDistance with
    | error e => rfl
    | ok r => simp only [map_ok, Nat.zero_add]; rfl

theorem agree_aggr_feature_castle_opposite :
    @PyStyle.get_aggression_score.feature_castle_opposite = @Aggression.featureCastleOpposite := rfl

theorem agree_aggr_feature_sacrifices :
    @PyStyle.get_aggression_score.feature_sacrifices = @Aggression.featureSacrifices := rfl

theorem agree_aggr_feature_push_pawns :
    @PyStyle.get_aggression_score.feature_push_pawns = @Aggression.featurePushPawns := by
  funext s
  unfold PyStyle.get_aggression_score.feature_push_pawns Aggression.featurePushPawns
  split
  · rfl
  · have hr : Py.range 2 8 = List.range' 2 6 := rfl
    unfold Py.sumGen Py.enumerate enumMinSum Aggression.pushWeights
    dsimp only
    rw [hr, sumGen_enumMinSum 40 _ (fun _ _ => rfl),
      sumGenM_rangeDot [0, 0, 1, 1, 2, 4, 8, 16] s.earlyPawnPushes _ (fun _ => rfl)]
    cases Aggression.rangeDot [0, 0, 1, 1, 2, 4, 8, 16] s.earlyPawnPushes 2 6 with
    | error e => rfl
    | ok r => simp only [map_ok, Nat.zero_add]; rfl

theorem agree_aggr_feature_checks : @PyStyle.get_aggression_score.feature_checks = @Aggression.featureChecks := rfl
theorem agree_aggr_feature_wins_behind :
    @PyStyle.get_aggression_score.feature_wins_behind = @Aggression.featureWinsBehind := rfl
theorem agree_aggr_feature_capture_frequency :
    @PyStyle.get_aggression_score.feature_capture_frequency = @Aggression.featureCaptureFrequency := rfl
theorem agree_aggr_feature_push_pawn_towards_king :
    @PyStyle.get_aggression_score.feature_push_pawn_towards_king = @Aggression.featurePushPawnTowardsKing := rfl
theorem agree_aggr_feature_rook_threats :
    @PyStyle.get_aggression_score.feature_rook_threats = @Aggression.featureRookThreats := rfl
theorem agree_aggr_feature_bishop_threats :
    @PyStyle.get_aggression_score.feature_bishop_threats = @Aggression.featureBishopThreats := rfl


/-! ## the scoring loop -/

/-- a `(weight, name, func)` tuple of a generated `features` list as the model's `Feature`. -/
def toFeature (x : Q × String × (Stats → Except PyErr Q)) : Feature := ⟨x.1, x.2.1, x.2.2⟩

/-- the generated `for weight, name, func in features:` loop is the model's `scoreLoop`. -/
theorem foldlM_scoreLoop (s : Stats) (body : Q → (Q × String × (Stats → Except PyErr Q)) → Except PyErr Q)
    (hb : ∀ sc w n f, body sc (w, n, f) =
      (match f s with
       | .error e => .error e
       | .ok v => if v.inUnit then .ok (sc.add (w.mul v)) else .error .assertion))
    (fs : List (Q × String × (Stats → Except PyErr Q))) (sc : Q) :
    List.foldlM body sc fs = scoreLoop s (fs.map toFeature) sc := by
  induction fs generalizing sc with
  | nil => rfl
  | cons x xs ih =>
    obtain ⟨w, n, f⟩ := x
    rw [List.foldlM_cons, hb]
    simp only [List.map, scoreLoop, toFeature]
    cases f s with
    | error e => rfl
    | ok v =>
      dsimp only
      split
      · rw [bind_ok, ih]
      · rfl

/-- `sum([weight for weight, _, _ in features])` is the model's `weightSum`. -/
theorem sumQ_weightSum (proj : (Q × String × (Stats → Except PyErr Q)) → Q) (hp : ∀ w n f, proj (w, n, f) = w)
    (fs : List (Q × String × (Stats → Except PyErr Q))) :
    Py.sumQ (fs.map proj) = weightSum (fs.map toFeature) := by
  unfold Py.sumQ weightSum
  generalize Q.nat 0 = acc
  induction fs generalizing acc with
  | nil => rfl
  | cons x xs ih =>
    obtain ⟨w, n, f⟩ := x
    simp only [List.map, List.foldl, hp, toFeature]
    exact ih _

theorem scoreLoop_ok_mem (s : Stats) (fs : List Feature) (sc r : Q) (h : scoreLoop s fs sc = .ok r) :
    ∀ f ∈ fs, ∃ v, f.func s = .ok v := by
  induction fs generalizing sc with
  | nil => intro f hf; cases hf
  | cons x xs ih =>
    intro f hf
    unfold scoreLoop at h
    cases hx : x.func s with
    | error e => rw [hx] at h; cases h
    | ok v =>
      rw [hx] at h
      simp only at h
      split at h
      · cases hf with
        | head => exact ⟨v, hx⟩
        | tail _ hm => exact ih _ h f hm
      · cases h

theorem div_ok_of_ne (a b : Q) (h : (!Py.qeq b (Q.nat 0)) = true) : ∃ r, Q.div a b = .ok r := by
  have hb : b.num ≠ 0 := by
    intro h0
    simp [Py.qeq, Q.nat, h0] at h
  unfold Q.div
  rw [if_neg hb]
  split
  · exact ⟨_, rfl⟩
  · exact ⟨_, rfl⟩

/-- the `if verbose:` loop re-evaluates features that were evaluated successfully and divides by `score` only
when it is not zero: it cannot raise. -/
theorem verbose_loop_ok (s : Stats) (body : Unit → (Q × String × (Stats → Except PyErr Q)) → Except PyErr Unit)
    (hb : ∀ u w n f v, f s = .ok v → body u (w, n, f) = .ok ())
    (fs : List (Q × String × (Stats → Except PyErr Q)))
    (hok : ∀ f ∈ fs.map toFeature, ∃ v, f.func s = .ok v) :
    List.foldlM body () fs = .ok () := by
  induction fs with
  | nil => rfl
  | cons x xs ih =>
    obtain ⟨w, n, f⟩ := x
    obtain ⟨v, hv⟩ := hok (toFeature (w, n, f)) (by simp)
    rw [List.foldlM_cons, hb () w n f v hv, bind_ok]
    exact ih (fun g hg => hok g (by simp only [List.map, List.mem_cons]; exact Or.inr hg))

/-- the common shape of the three generated score functions (after the `num_games == 0` guard) against the common
shape of the model's; `post` is the rescaling (`min(1.0, 2.0 * scaled)` or nothing). -/
theorem score_generic (s : Stats) (verbose : Bool) (fs : List (Q × String × (Stats → Except PyErr Q))) (post : Q → Q)
    (bodyS : Q → (Q × String × (Stats → Except PyErr Q)) → Except PyErr Q)
    (hbS : ∀ sc w n f, bodyS sc (w, n, f) =
      (match f s with
       | .error e => .error e
       | .ok v => if v.inUnit then .ok (sc.add (w.mul v)) else .error .assertion))
    (proj : (Q × String × (Stats → Except PyErr Q)) → Q) (hp : ∀ w n f, proj (w, n, f) = w)
    (bodyV : Q → Unit → (Q × String × (Stats → Except PyErr Q)) → Except PyErr Unit)
    (hbV : ∀ score u w n f v, f s = .ok v → bodyV score u (w, n, f) = .ok ()) :
    (do let score ← List.foldlM bodyS (Q.nat 0) fs
        let scaled ← Q.div score (Py.sumQ (List.map proj fs))
        if (Q.le (Q.nat 0) (post scaled) && Q.le (post scaled) (Q.nat 1)) = true then do
            let _ ← (if verbose = true then (do
                        let _ ← List.foldlM (bodyV score) () fs
                        pure ())
                      else pure ())
            pure (some (post scaled))
          else throw PyErr.assertion)
    = (do let score ← scoreLoop s (fs.map toFeature) (Q.nat 0)
          let scaled ← Q.div score (weightSum (fs.map toFeature))
          if (post scaled).inUnit = true then pure (some (post scaled)) else throw PyErr.assertion) := by
  rw [foldlM_scoreLoop s bodyS hbS, sumQ_weightSum proj hp]
  cases hsl : scoreLoop s (fs.map toFeature) (Q.nat 0) with
  | error e => rfl
  | ok score =>
    simp only [bind_ok]
    cases Q.div score (weightSum (fs.map toFeature)) with
    | error e => rfl
    | ok scaled =>
      simp only [bind_ok]
      have hv : List.foldlM (bodyV score) () fs = .ok () :=
        verbose_loop_ok s (bodyV score) (hbV score) fs (scoreLoop_ok_mem s _ _ _ hsl)
      rw [hv]
      cases verbose <;> rfl

/-! ## get_aggression_score -/

theorem agree_get_aggression_score (s : Stats) (verbose : Bool) :
    PyStyle.get_aggression_score s verbose = getAggressionScore .guarded s := by
  unfold PyStyle.get_aggression_score getAggressionScore
  split
  · rfl
  · dsimp only
    refine (score_generic s verbose _ _ _ ?_ _ ?_ _ ?_).trans ?_
    · intro sc w n f; dsimp only; cases f s <;> rfl
    · intros; rfl
    · intro score u w n f v hv
      dsimp only
      simp only [hv, bind_ok]
      split
      · obtain ⟨r, hr⟩ := div_ok_of_ne ((Q.nat 100).mul (w.mul v)) score ‹_›
        rw [hr]; rfl
      · rfl
    · simp only [List.map, toFeature, agree_aggr_feature_game_length, agree_aggr_feature_capture_early,
        agree_aggr_feature_capture_near_king, agree_aggr_feature_move_near_king, agree_aggr_feature_castle_opposite,
        agree_aggr_feature_push_pawns, agree_aggr_feature_checks, agree_aggr_feature_wins_behind,
        agree_aggr_feature_capture_frequency, agree_aggr_feature_push_pawn_towards_king,
        agree_aggr_feature_rook_threats, agree_aggr_feature_bishop_threats]
      rfl

/-! ## get_positional_score -/

theorem agree_pos_feature_game_length :
    @PyStyle.get_positional_score.feature_game_length = @Positional.featureGameLength := rfl

theorem agree_pos_feature_capture_early :
    @PyStyle.get_positional_score.feature_capture_early = Positional.featureCaptureEarly .guarded := by
  funext s
  unfold PyStyle.get_positional_score.feature_capture_early Positional.featureCaptureEarly
  by_cases h : s.totalCaptures = 0 <;> simp only [h, and_self, and_false, ↓reduceIte] <;> rfl

theorem agree_get_positional_score (s : Stats) (verbose : Bool) :
    PyStyle.get_positional_score s verbose = getPositionalScore .guarded s := by
  unfold PyStyle.get_positional_score getPositionalScore
  split
  · rfl
  · dsimp only
    refine (score_generic s verbose _ (fun x => x) _ ?_ _ ?_ _ ?_).trans ?_
    · intro sc w n f; dsimp only; cases f s <;> rfl
    · intros; rfl
    · intro score u w n f v hv
      dsimp only
      simp only [hv, bind_ok]
      split
      · obtain ⟨r, hr⟩ := div_ok_of_ne ((Q.nat 100).mul (w.mul v)) score ‹_›
        rw [hr]; rfl
      · rfl
    · simp only [List.map, toFeature, agree_pos_feature_game_length, agree_pos_feature_capture_early]
      rfl

/-! ## get_pawn_pusher_score -/

theorem agree_pawn_feature_placeholder (s : Stats) :
    .ok (PyStyle.get_pawn_pusher_score.feature_placeholder s) = PawnPusher.featurePlaceholder s := rfl

theorem agree_get_pawn_pusher_score (s : Stats) (verbose : Bool) :
    PyStyle.get_pawn_pusher_score s verbose = getPawnPusherScore s := by
  unfold PyStyle.get_pawn_pusher_score getPawnPusherScore
  split
  · rfl
  · cases verbose <;> rfl

end Rawr.PyStyleAgree

#print axioms Rawr.PyStyleAgree.agree_Stats_default
#print axioms Rawr.PyStyleAgree.agree_add_capture
#print axioms Rawr.PyStyleAgree.agree_add_noncapture
#print axioms Rawr.PyStyleAgree.agree_add_pawn_push
#print axioms Rawr.PyStyleAgree.agree_finish_game
#print axioms Rawr.PyStyleAgree.agree_queens_off
#print axioms Rawr.PyStyleAgree.agree_is_valid
#print axioms Rawr.PyStyleAgree.agree_aggr_feature_game_length
#print axioms Rawr.PyStyleAgree.agree_aggr_feature_capture_early
#print axioms Rawr.PyStyleAgree.agree_aggr_feature_capture_near_king
#print axioms Rawr.PyStyleAgree.agree_aggr_feature_move_near_king
#print axioms Rawr.PyStyleAgree.agree_aggr_feature_castle_opposite
#print axioms Rawr.PyStyleAgree.agree_aggr_feature_sacrifices
#print axioms Rawr.PyStyleAgree.agree_aggr_feature_push_pawns
#print axioms Rawr.PyStyleAgree.agree_aggr_feature_checks
#print axioms Rawr.PyStyleAgree.agree_aggr_feature_wins_behind
#print axioms Rawr.PyStyleAgree.agree_aggr_feature_capture_frequency
#print axioms Rawr.PyStyleAgree.agree_aggr_feature_push_pawn_towards_king
#print axioms Rawr.PyStyleAgree.agree_aggr_feature_rook_threats
#print axioms Rawr.PyStyleAgree.agree_aggr_feature_bishop_threats
#print axioms Rawr.PyStyleAgree.agree_get_aggression_score
#print axioms Rawr.PyStyleAgree.agree_pos_feature_game_length
#print axioms Rawr.PyStyleAgree.agree_pos_feature_capture_early
#print axioms Rawr.PyStyleAgree.agree_get_positional_score
#print axioms Rawr.PyStyleAgree.agree_pawn_feature_placeholder
#print axioms Rawr.PyStyleAgree.agree_get_pawn_pusher_score
