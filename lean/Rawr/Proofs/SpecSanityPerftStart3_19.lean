import Rawr.Proofs.SpecSanityPerftDefs
/-! perft of the start position, depth 3, slice 19: the subtree of first move `.normal 15 31 none` (kernel-evaluated). -/
namespace Rawr.SpecS
open Rawr.Spec

theorem start3_19 : leaves (apply stdStart (.normal 15 31 none)) 2 = 420 := by decide +kernel

end Rawr.SpecS
