import Rawr.Proofs.SpecSanityPerftDefs
/-! perft of `cpwPos3`, depth 3, slice 0: the subtrees of 5 first moves (kernel-evaluated). -/
namespace Rawr.SpecS
open Rawr.Spec

theorem pos33_0 :
    (([.normal 12 20 none, .normal 12 28 none, .normal 14 22 none, .normal 14 30 none,
      .normal 25 1 none] : List Move).map
      fun m => leaves (apply cpwPos3 m) 2).sum = 927 := by decide +kernel

end Rawr.SpecS
