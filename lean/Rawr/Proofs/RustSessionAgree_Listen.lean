import Rawr.Proofs.RustSessionAgree_Step
/-!
# uci/listen.rs `listen` regenerated from the Rust source agrees with the model's `listen`

`R.listen fuel ar sfuel clock version stdin` runs both command loops of listen.rs on the list `stdin` of input lines and
returns the unread lines and the printed byte stream (`none`: the process panics, or `fuel` — the bound on the number of
loop iterations — is exhausted).  The model's `listen ar o lines` returns the printed lines.

`agree_listen`: for `fuel > lines.length + 1` and under the side conditions `ListenOk` (those of the commands, `StepOk`,
along the model's run),

    (R.listen fuel ar 1000 clock version lines).map (fun r => Sess.transcript r.2) = listen ar o lines

where `Sess.transcript` cuts the printed stream into lines and canonicalises `time <t>`, `nps <n>`, `id name Rawr
<version>` exactly as the model prints them (RustSessionAgree_Canon.lean).
-/
set_option linter.unusedSimpArgs false
namespace Rawr.Sess
open T

/-! ## reading a line in the second loop -/
theorem strLen_succ_ne (l : List Char) : (match some (strLen l + 1) with | some 0 => true | some _ => false | none => true) = false := rfl

/-- end of input in the second loop: `Ok(0) => break`. -/
theorem loop5_step_eof (fuel : Nat) (ar : Arith) (clk : Nat → Nat) (x : Nat) (ex : Bool) (input : List Char)
    (pos : Position) (hist : List BB) (tt : Table TTEntry) (out : List Char) (hash : Nat) (frc : Bool) :
    R.listen_loop5_step fuel ar 1000 clk x ex input [] true pos hist tt out hash frc =
      some (ForInStep.done (true, [], [], true, pos, hist, tt, out, hash, frc)) := by
  unfold R.listen_loop5_step
  simp [T.readLineRes, T.readLineStr]

/-- a line is read: the iteration continues as if the line (and its `'\n'`) had been in `input`. -/
theorem loop5_step_read (fuel : Nat) (ar : Arith) (clk : Nat → Nat) (x : Nat) (ex : Bool) (input l : List Char)
    (ls : List (List Char)) (pos : Position) (hist : List BB) (tt : Table TTEntry) (out : List Char) (hash : Nat) (frc : Bool) :
    R.listen_loop5_step fuel ar 1000 clk x ex input (l :: ls) true pos hist tt out hash frc =
      R.listen_loop5_step fuel ar 1000 clk x ex (l ++ ['\n']) ls false pos hist tt out hash frc := by
  unfold R.listen_loop5_step
  simp only [T.readLineRes, T.readLineStr, if_true, Bool.false_eq_true, if_false, List.tail_cons, List.nil_append, bind, pure]
  rfl

/-! ## the second loop -/
/-- the side conditions of the commands along the model's run of the second loop. -/
def SessOk (G : Nat → Position → Prop) (fuel : Nat) (ar : Arith) (clk : Nat → Nat) (o : Nat → Bool) :
    List (List Char) → UState → Prop
  | [], _ => True
  | l :: ls, s => StepOk G fuel ar clk o s (splitWs l) ∧
      ∀ s' L, stepSecond ar o s l = some (s', L, false) → SessOk G fuel ar clk o ls s'

/-- relation between the model's second loop and the regenerated one. -/
@[irreducible] def LoopRel (m : Option (List String)) (x : Option St5) : Prop :=
  match m with
  | none => x = none
  | some L => ∃ t : St5, x = some t ∧ t.1 = true ∧ Out t.2.2.2.2.2.2.2.1 L

theorem _root_.Rawr.agree_listen_loop5 (G : Nat → Position → Prop) (hI : ∀ n p, G (n + 1) p → MovesOnBoard p)
    (hM : ∀ n p, G (n + 1) p → G n p)
    (hS : ∀ n p m np, G (n + 1) p → m ∈ legalMoves p → p.makemove m true = some np → G n np)
    (fuel : Nat) (ar : Arith) (clk : Nat → Nat) (o : Nat → Bool) :
    ∀ (lines : List (List Char)) (it : List Nat) (input : List Char) (stdin : List (List Char)) (got : Bool) (s : UState)
      (out : List Char) (acc : List String),
      lines.length < it.length →
      ((got = true ∧ stdin = lines) ∨ (got = false ∧ ∃ l0 ls, lines = l0 :: ls ∧ stdin = ls ∧ splitWs l0 = splitWs input)) →
      SessOk G fuel ar clk o lines s → Out out acc →
      LoopRel (secondLoop ar o lines s acc)
        (R.listen_loop5 fuel ar 1000 clk it input stdin got s.pos s.hist.reverse s.tt out s.hashMb s.frc) := by
  intro lines
  induction lines with
  | nil =>
    intro it input stdin got s out acc hlen hst _ ho
    rcases hst with ⟨rfl, rfl⟩ | ⟨_, l0, ls, h, _⟩
    · cases it with
      | nil => simp at hlen
      | cons x it =>
        unfold LoopRel
        simp only [secondLoop, R.listen_loop5, List.forIn_cons, loop5_step_eof, bind, Option.bind_some]
        exact ⟨_, rfl, rfl, ho⟩
    · cases h
  | cons l ls ih =>
    intro it input stdin got s out acc hlen hst hok ho
    cases it with
    | nil => simp at hlen
    | cons x it =>
      have hlen' : ls.length < it.length := by simpa using hlen
      obtain ⟨hstep, hrest⟩ := hok
      -- the step, in both cases, is the dispatch on the tokens of `l`
      have key : ∃ input', StepRel out false input' ls (stepSecond ar o s l)
          (R.listen_loop5_step fuel ar 1000 clk x false input stdin got s.pos s.hist.reverse s.tt out s.hashMb s.frc) := by
        rcases hst with ⟨rfl, rfl⟩ | ⟨rfl, l0, ls', h, rfl, hsp⟩
        · refine ⟨l ++ ['\n'], ?_⟩
          rw [loop5_step_read, stepSecond_toks, ← splitWs_nl l]
          exact agree_listen_loop5_step G hI hM hS fuel ar clk o x false _ ls s out (by rw [splitWs_nl]; exact hstep)
        · injection h with h1 h2
          subst h1; subst h2
          refine ⟨input, ?_⟩
          rw [stepSecond_toks, hsp]
          exact agree_listen_loop5_step G hI hM hS fuel ar clk o x false _ _ s out (by rw [← hsp]; exact hstep)
      obtain ⟨input', hrel⟩ := key
      simp only [secondLoop, R.listen_loop5, List.forIn_cons]
      unfold StepRel at hrel
      cases hm : stepSecond ar o s l with
      | none =>
        rw [hm] at hrel
        simp only [] at hrel
        unfold LoopRel
        simp only [hrel, bind, Option.bind_none]
      | some r =>
        obtain ⟨s', L, q⟩ := r
        rw [hm] at hrel
        cases q with
        | true =>
          simp only [] at hrel
          obtain ⟨e, hL⟩ := hrel
          unfold LoopRel
          simp only [e, bind, Option.bind_some, if_true, hL, List.append_nil]
          exact ⟨_, rfl, rfl, ho⟩
        | false =>
          simp only [] at hrel
          obtain ⟨y, e, hy⟩ := hrel
          have := ih it input' ls true s' (out ++ y) (acc ++ L) hlen' (Or.inl ⟨rfl, rfl⟩) (hrest s' L hm) (ho.append hy)
          simp only [e, bind, Option.bind_some, Bool.false_eq_true, if_false, st5]
          exact this

/-! ## the first loop -/
abbrev St2 := Option (List (List Char) × List Char) × Bool × List Char × List (List Char) × Bool × Nat × Bool × Position

/-- relation between the model's first loop and the regenerated one (`out`: the banner). -/
@[irreducible] def FirstRel (out : List Char) (s0 : UState) (m : Option (UState × Bool × List (List Char))) (x : Option St2) : Prop :=
  match m with
  | none => ∃ t : St2, x = some t ∧ ∃ stdin, t.1 = some (stdin, out)
  | some (s', got, rest) => ∃ input stdin, x = some (none, true, input, stdin, got, s'.hashMb, s'.frc, s'.pos) ∧
      s'.hist = s0.hist ∧ s'.tt = s0.tt ∧
      ((got = true ∧ stdin = rest) ∨ (got = false ∧ ∃ l0 ls, rest = l0 :: ls ∧ stdin = ls ∧ splitWs l0 = splitWs input))

theorem loop2_step_eof (out : List Char) (x : Nat) (early : Option (List (List Char) × List Char)) (ex : Bool)
    (input : List Char) (got : Bool) (hash : Nat) (frc : Bool) (pos : Position) :
    R.listen_loop2_step out x early ex input [] got hash frc pos =
      some (ForInStep.done (none, true, [], [], got, hash, frc, pos)) := by
  unfold R.listen_loop2_step
  simp [T.readLineRes, T.readLineStr]

/-- one iteration of the first loop on the line `l`. -/
theorem loop2_step_line (out : List Char) (x : Nat) (early : Option (List (List Char) × List Char)) (ex : Bool)
    (input l : List Char) (ls : List (List Char)) (got : Bool) (s : UState) :
    R.listen_loop2_step out x early ex input (l :: ls) got s.hashMb s.frc s.pos =
      (if ((splitWs l).headD [] == ['i', 's', 'r', 'e', 'a', 'd', 'y']) = true then
        some (ForInStep.done (none, true, l ++ ['\n'], ls, true, s.hashMb, s.frc, s.pos))
      else if ((splitWs l).headD [] == ['s', 'e', 't', 'o', 'p', 't', 'i', 'o', 'n']) = true then
        some (ForInStep.yield (early, ex, l ++ ['\n'], ls, got, (doSetoption s ((splitWs l).tail) false).hashMb,
          (doSetoption s ((splitWs l).tail) false).frc, (doSetoption s ((splitWs l).tail) false).pos))
      else if ((splitWs l).headD [] == ['q', 'u', 'i', 't']) = true then
        some (ForInStep.done (some (ls, out), ex, l ++ ['\n'], ls, got, s.hashMb, s.frc, s.pos))
      else some (ForInStep.done (none, true, l ++ ['\n'], ls, got, s.hashMb, s.frc, s.pos))) ∧
    (doSetoption s ((splitWs l).tail) false).hist = s.hist ∧ (doSetoption s ((splitWs l).tail) false).tt = s.tt := by
  obtain ⟨e, hh, ht⟩ := agree_listen_loop1 (R.setoption ((splitWs l).tail)).2 s
  refine ⟨?_, by rw [doSetoption_cb]; exact hh, by rw [doSetoption_cb]; exact ht⟩
  unfold R.listen_loop2_step
  simp only [T.readLineRes, T.readLineStr, bind, pure, Option.bind_some, List.nil_append, List.tail_cons, splitWs_nl,
    ← headD_getD, doSetoption_cb]
  generalize (splitWs l).headD [] = cmd
  by_cases c1 : (cmd == ['i', 's', 'r', 'e', 'a', 'd', 'y']) = true
  · simp only [c1, if_true]
  simp only [c1, Bool.false_eq_true, if_false]
  by_cases c2 : (cmd == ['s', 'e', 't', 'o', 'p', 't', 'i', 'o', 'n']) = true
  · simp only [c2, if_true, e, Option.bind_some]
  simp only [c2, Bool.false_eq_true, if_false]

theorem _root_.Rawr.agree_listen_loop2 (out : List Char) (s0 : UState) :
    ∀ (lines : List (List Char)) (it : List Nat) (input : List Char) (s : UState),
      lines.length < it.length → s.hist = s0.hist → s.tt = s0.tt →
      FirstRel out s0 (firstLoop lines s) (R.listen_loop2 out it input lines false s.hashMb s.frc s.pos) := by
  intro lines
  induction lines with
  | nil =>
    intro it input s hlen h1 h2
    cases it with
    | nil => simp at hlen
    | cons x it =>
      unfold FirstRel
      simp only [firstLoop, R.listen_loop2, List.forIn_cons, loop2_step_eof, bind, Option.bind_some]
      exact ⟨[], [], rfl, h1, h2, Or.inr ⟨by trivial, [], [], rfl, rfl, rfl⟩⟩
  | cons l ls ih =>
    intro it input s hlen h1 h2
    cases it with
    | nil => simp at hlen
    | cons x it =>
      have hlen' : ls.length < it.length := by simpa using hlen
      obtain ⟨estep, hh, ht⟩ := loop2_step_line out x none false input l ls false s
      simp only [firstLoop, R.listen_loop2, List.forIn_cons, estep, e_isready, e_setoption, e_quit, List.drop_one]
      generalize (splitWs l).headD [] = cmd
      by_cases c1 : (cmd == ['i', 's', 'r', 'e', 'a', 'd', 'y']) = true
      · simp only [c1, if_true, bind, Option.bind_some]
        unfold FirstRel
        exact ⟨_, _, rfl, h1, h2, Or.inl ⟨rfl, rfl⟩⟩
      simp only [c1, Bool.false_eq_true, if_false]
      by_cases c2 : (cmd == ['s', 'e', 't', 'o', 'p', 't', 'i', 'o', 'n']) = true
      · simp only [c2, if_true, bind, Option.bind_some]
        exact ih it (l ++ ['\n']) _ hlen' (hh.trans h1) (ht.trans h2)
      simp only [c2, Bool.false_eq_true, if_false]
      by_cases c3 : (cmd == ['q', 'u', 'i', 't']) = true
      · simp only [c3, if_true, bind, Option.bind_some]
        unfold FirstRel
        exact ⟨_, rfl, _, rfl⟩
      simp only [c3, Bool.false_eq_true, if_false, bind, Option.bind_some]
      unfold FirstRel
      exact ⟨_, _, rfl, h1, h2, Or.inr ⟨rfl, l, ls, rfl, rfl, (splitWs_nl l).symm⟩⟩

/-! ## `listen` -/
theorem firstLoop_rest_len : ∀ (lines : List (List Char)) (s s' : UState) (g : Bool) (rest : List (List Char)),
    firstLoop lines s = some (s', g, rest) → rest.length ≤ lines.length + 1 := by
  intro lines
  induction lines with
  | nil => intro s s' g rest h; simp only [firstLoop, Option.some.injEq, Prod.mk.injEq] at h; rw [← h.2.2]; simp
  | cons l ls ih =>
    intro s s' g rest h
    simp only [firstLoop] at h
    split at h
    · simp only [Option.some.injEq, Prod.mk.injEq] at h; rw [← h.2.2]; simp; omega
    · split at h
      · have := ih _ _ _ _ h; simp; omega
      · split at h
        · cases h
        · simp only [Option.some.injEq, Prod.mk.injEq] at h; rw [← h.2.2]; simp

/-- what `listen` prints before the first loop. -/
def bannerOut (version : Option (List Char)) : List Char :=
  T.line ("id name Rawr " ++ String.ofList (version.getD ['u', 'n', 'k', 'n', 'o', 'w', 'n'])) ++ T.line "id author kz04px" ++
  T.line ("option name UCI_Chess960 type check default " ++ toString false) ++
  T.line ("option name Hash type spin default " ++ toString 16 ++ " min 1 max 4096") ++ T.line "uciok"

theorem banner_out (version : Option (List Char)) (hv : '\n' ∉ version.getD ['u', 'n', 'k', 'n', 'o', 'w', 'n']) :
    Out (bannerOut version) (banner false 16) := by
  unfold bannerOut banner
  have h1 : Out (T.line ("id name Rawr " ++ String.ofList (version.getD ['u', 'n', 'k', 'n', 'o', 'w', 'n']))) ["id name Rawr ?"] := by
    apply Out.line1
    · simp only [String.toList_append, String.toList_ofList, List.mem_append, not_or]
      exact ⟨by decide, hv⟩
    · simp only [String.toList_append, String.toList_ofList]
      have : "id name Rawr ".toList = pfxId := by decide
      rw [this]
      have p3 : pfxId.isPrefixOf (pfxId ++ version.getD ['u', 'n', 'k', 'n', 'o', 'w', 'n']) = true := by
        rw [List.isPrefixOf_iff_prefix]; exact List.prefix_append _ _
      unfold canonLine
      rw [p3]
      simp [pfxId, List.isPrefixOf]
  have h2 : Out (T.line "id author kz04px") ["id author kz04px"] := Out.line1 _ _ (by decide) (by decide)
  have h3 : Out (T.line ("option name UCI_Chess960 type check default " ++ toString false))
      [s!"option name UCI_Chess960 type check default {if false then "true" else "false"}"] :=
    Out.line1 _ _ (by decide) (by decide)
  have h4 : Out (T.line ("option name Hash type spin default " ++ toString 16 ++ " min 1 max 4096"))
      [s!"option name Hash type spin default {16} min 1 max 4096"] := Out.line1 _ _ (by decide) (by decide)
  have h5 : Out (T.line "uciok") ["uciok"] := Out.line1 _ _ (by decide) (by decide)
  exact (((h1.append h2).append h3).append h4).append h5

/-- the end of `listen`: the result of the second loop is returned. -/
theorem listen_finish (m : Option (List String)) (x : Option St5) (h : LoopRel m x) :
    Option.map (fun r => transcript r.2)
      (x.bind fun r10 =>
        if (!r10.1) = true then (none : Option Unit).bind fun _ => some (r10.2.2.1, r10.2.2.2.2.2.2.2.1)
        else some (r10.2.2.1, r10.2.2.2.2.2.2.2.1)) = m := by
  unfold LoopRel at h
  rcases m with _ | L
  · simp only [] at h
    rw [h]; rfl
  · simp only [] at h
    obtain ⟨t, e2, hex, ho⟩ := h
    obtain ⟨t1, t2, t3, t4, t5, t6, t7, t8, t9, t10⟩ := t
    simp only at hex ho
    subst hex
    rw [e2]
    simp only [Option.bind_some, Bool.not_true, Bool.false_eq_true, if_false, Option.map_some]
    rw [ho.transcript]

/-- the side conditions of the commands of the second loop, along the model's run. -/
def ListenOk (G : Nat → Position → Prop) (fuel : Nat) (ar : Arith) (clk : Nat → Nat) (o : Nat → Bool) (lines : List (List Char)) : Prop :=
  ∀ pos s got rest, setFen ar false (str "startpos") = some pos →
    firstLoop lines { hashMb := 16, frc := false, pos := pos, hist := [pos.hash], tt := Table.new 0 Gen.ttEntrySize } = some (s, got, rest) →
    SessOk G fuel ar clk o rest { s with tt := s.tt.resize s.hashMb Gen.ttEntrySize }

theorem e_startpos : str "startpos" = ['s', 't', 'a', 'r', 't', 'p', 'o', 's'] := by decide

/-- **`uci::listen::listen`**: the canonical transcript of what the regenerated code prints on the input lines is the
model's output; the regenerated code panics exactly when the model does.  `G` is a family of position invariants as in
`agree_moves_ix`; `fuel` bounds the number of loop iterations; the version string has no newline. -/
theorem _root_.Rawr.agree_listen (G : Nat → Position → Prop) (hI : ∀ n p, G (n + 1) p → MovesOnBoard p)
    (hM : ∀ n p, G (n + 1) p → G n p)
    (hS : ∀ n p m np, G (n + 1) p → m ∈ legalMoves p → p.makemove m true = some np → G n np)
    (fuel : Nat) (ar : Arith) (clk : Nat → Nat) (o : Nat → Bool) (version : Option (List Char)) (lines : List (List Char))
    (hfuel : lines.length + 1 < fuel) (hv : '\n' ∉ version.getD ['u', 'n', 'k', 'n', 'o', 'w', 'n'])
    (hok : ListenOk G fuel ar clk o lines) :
    (R.listen fuel ar 1000 clk version lines).map (fun r => transcript r.2) = listen ar o lines := by
  obtain ⟨n, rfl⟩ : ∃ n, fuel = n + 2 := ⟨fuel - 2, by omega⟩
  unfold R.listen listen
  simp only [bind, pure, agree_from_fen, Table.agree_tt_new _ _ ttsize_ne, Option.bind_some, List.nil_append, e_startpos] at hok ⊢
  cases hsf : setFen ar false ['s', 't', 'a', 'r', 't', 'p', 'o', 's'] with
  | none => rfl
  | some pos =>
    simp only [Option.bind_some]
    have hb := banner_out version hv
    unfold bannerOut at hb
    generalize hbo : T.line ("id name Rawr " ++ String.ofList (version.getD ['u', 'n', 'k', 'n', 'o', 'w', 'n'])) ++ T.line "id author kz04px" ++
      T.line ("option name UCI_Chess960 type check default " ++ toString false) ++
      T.line ("option name Hash type spin default " ++ toString 16 ++ " min 1 max 4096") ++ T.line "uciok" = bo at hb ⊢
    let s0 : UState := { hashMb := 16, frc := false, pos := pos, hist := [pos.hash], tt := Table.new 0 Gen.ttEntrySize }
    have hfirst := agree_listen_loop2 bo s0 lines (List.range (n + 2)) [] s0 (by simp; omega) rfl rfl
    have hok' := hok pos
    simp only [e_startpos] at hok'
    change FirstRel bo s0 (firstLoop lines s0) (R.listen_loop2 bo (List.range (n + 2)) [] lines false 16 false pos) at hfirst
    change ∀ s got rest, _ → firstLoop lines s0 = some (s, got, rest) → _ at hok'
    generalize hfl : firstLoop lines s0 = fl at hfirst hok' ⊢
    unfold FirstRel at hfirst
    rcases fl with _ | ⟨s, got, rest⟩
    · simp only [] at hfirst
      obtain ⟨t, e, stdin, ht⟩ := hfirst
      simp only [e, Option.bind_some, ht, Option.map_some]
      rw [hb.transcript]
    · simp only [] at hfirst
      obtain ⟨input, stdin, e, hh, htt, hcase⟩ := hfirst
      have hsess := hok' s got rest hsf rfl
      have hlen : rest.length < (List.range (n + 2)).length := by
        have := firstLoop_rest_len lines s0 s got rest hfl
        simp; omega
      have hout : Out (bo ++ (if got then T.line "readyok" else [])) (banner false 16 ++ (if got then ["readyok"] else [])) := by
        cases got
        · simpa using hb
        · exact hb.append readyok_out
      have hloop := agree_listen_loop5 G hI hM hS (n + 2) ar clk o rest (List.range (n + 2)) input stdin got
        { s with tt := s.tt.resize s.hashMb Gen.ttEntrySize } _ _ hlen hcase hsess hout
      have hhist : s.hist.reverse = [pos.hash] := by rw [hh]; rfl
      have htt' : s.tt = Table.new 0 Gen.ttEntrySize := htt
      simp only [e, Option.bind_some, Bool.not_true, Bool.false_eq_true, if_false, Table.agree_tt_resize _ _ _ ttsize_ne]
      simp only [hhist, htt'] at hloop
      rw [htt']
      cases got
      · simp only [Bool.false_eq_true, if_false, List.append_nil] at hloop ⊢
        exact listen_finish _ _ hloop
      · simp only [if_true] at hloop ⊢
        exact listen_finish _ _ hloop

end Rawr.Sess

#print axioms Rawr.agree_listen
#print axioms Rawr.agree_listen_loop2
#print axioms Rawr.agree_listen_loop5
