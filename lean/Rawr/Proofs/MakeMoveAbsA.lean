import Rawr.Proofs.HashMove
import Rawr.Proofs.HashValid
import Rawr.Proofs.FlipLemmas
/-! C02, generic part: `AbsEq`, square arithmetic of `absSq`, a pointwise *view* of a position
(what stands on each mover-relative square) and the absolute board it denotes, board consistency from a
view, and `abs` of a flipped position. -/
namespace Rawr
open Spec

/-- field-wise equality of two absolute positions, the board compared on the 64 squares. -/
structure AbsEq (a b : APos) : Prop where
  board : ∀ s, s < 64 → a.board s = b.board s
  turn : a.whiteToMove = b.whiteToMove
  wK : a.wK = b.wK
  wQ : a.wQ = b.wQ
  bK : a.bK = b.bK
  bQ : a.bQ = b.bQ
  ep : a.ep = b.ep
  half : a.half = b.half
  full : a.full = b.full

theorem AbsEq.refl (a : APos) : AbsEq a a := ⟨fun _ _ => rfl, rfl, rfl, rfl, rfl, rfl, rfl, rfl, rfl⟩

theorem AbsEq.symm {a b : APos} (h : AbsEq a b) : AbsEq b a :=
  ⟨fun s hs => (h.board s hs).symm, h.turn.symm, h.wK.symm, h.wQ.symm, h.bK.symm, h.bQ.symm, h.ep.symm,
    h.half.symm, h.full.symm⟩

theorem AbsEq.trans {a b c : APos} (h1 : AbsEq a b) (h2 : AbsEq b c) : AbsEq a c :=
  ⟨fun s hs => (h1.board s hs).trans (h2.board s hs), h1.turn.trans h2.turn, h1.wK.trans h2.wK,
    h1.wQ.trans h2.wQ, h1.bK.trans h2.bK, h1.bQ.trans h2.bQ, h1.ep.trans h2.ep, h1.half.trans h2.half,
    h1.full.trans h2.full⟩

end Rawr

namespace Rawr.MM
open Rawr Rawr.Position Rawr.Spec Rawr.ZH

/-! ### squares -/

theorem xor56_eq : ∀ x, x < 64 → x ^^^ 56 = x % 8 + 8 * (7 - x / 8) := by decide

theorem absSq_eq_maybeFlip (b : Bool) (s : Nat) : absSq b s = maybeFlip s b := rfl

theorem absSq_absSq (b : Bool) (s : Nat) : absSq b (absSq b s) = s := by
  cases b
  · rfl
  · exact xor56_xor56 s

theorem absSq_lt (b : Bool) {s : Nat} (h : s < 64) : absSq b s < 64 := by
  cases b
  · exact h
  · exact xor56_lt h

theorem absSq_eq_iff (b : Bool) (a x : Nat) : a = absSq b x ↔ absSq b a = x := by
  constructor
  · intro h; rw [h, absSq_absSq]
  · intro h; rw [← h, absSq_absSq]

theorem absSq_inj (b : Bool) (x y : Nat) : absSq b x = absSq b y ↔ x = y := by
  constructor
  · intro h
    have := congrArg (absSq b) h
    rwa [absSq_absSq, absSq_absSq] at this
  · intro h; rw [h]

theorem absSq_beq (b : Bool) (x y : Nat) : (absSq b x == absSq b y) = (x == y) := by
  rw [Bool.eq_iff_iff, beq_iff_eq, beq_iff_eq]
  exact absSq_inj b x y

/-- coordinates of an absolute square. -/
theorem absSq_false (s : Nat) : absSq false s = s := rfl
theorem absSq_true {s : Nat} (h : s < 64) : absSq true s = s % 8 + 8 * (7 - s / 8) := xor56_eq s h

theorem file_absSq (b : Bool) {s : Nat} (h : s < 64) : file (absSq b s) = (fileOf s : Int) := by
  cases b
  · rfl
  · rw [absSq_true h]
    unfold file fileOf
    omega

/-! ### a pointwise view of the eight boards -/

/-- `po x` is the kind standing on (mover-relative) square `x`, `u x` / `v x` tell whether the square
belongs to the mover / the opponent. -/
structure View (S : Position) (po : Nat → Option Nat) (u v : Nat → Bool) : Prop where
  c0 : ∀ x, x < 64 → S.c0.getLsbD x = u x
  c1 : ∀ x, x < 64 → S.c1.getLsbD x = v x
  P : ∀ x k, x < 64 → (S.piece k).getLsbD x = (po x == some k)
  lt : ∀ x k, po x = some k → k < 6

theorem view_of_consistent {p : Position} (hC : Consistent p) :
    View p p.pieceOn p.c0.getLsbD p.c1.getLsbD :=
  ⟨fun _ _ => rfl, fun _ _ => rfl, fun x k _ => piece_bit hC x k, fun _ _ h => pieceOn_lt h⟩

theorem chain_onehot (o : Option Nat) (h : ∀ k, o = some k → k < 6) :
    chain (o == some 0) (o == some 1) (o == some 2) (o == some 3) (o == some 4) (o == some 5) = o := by
  cases o with
  | none => rfl
  | some k =>
    have := h k rfl
    have : k = 0 ∨ k = 1 ∨ k = 2 ∨ k = 3 ∨ k = 4 ∨ k = 5 := by omega
    rcases this with rfl | rfl | rfl | rfl | rfl | rfl <;> rfl

theorem View.pieceOn {S : Position} {po : Nat → Option Nat} {u v : Nat → Bool} (V : View S po u v)
    {x : Nat} (hx : x < 64) : S.pieceOn x = po x := by
  rw [pieceOn_eq_chain]
  have e0 := V.P x 0 hx
  have e1 := V.P x 1 hx
  have e2 := V.P x 2 hx
  have e3 := V.P x 3 hx
  have e4 := V.P x 4 hx
  have e5 := V.P x 5 hx
  simp only [Position.piece] at e0 e1 e2 e3 e4 e5
  rw [e0, e1, e2, e3, e4, e5]
  exact chain_onehot _ (V.lt x)

/-- the absolute board denoted by a view. -/
theorem View.absBoard {S : Position} {po : Nat → Option Nat} {u v : Nat → Bool} (V : View S po u v)
    {a : Nat} (ha : a < 64) :
    absBoard S a = match po (absSq S.black a) with
      | none => none
      | some k =>
        if u (absSq S.black a) then some ⟨!S.black, kindOf k⟩
        else if v (absSq S.black a) then some ⟨S.black, kindOf k⟩ else none := by
  have hs := absSq_lt S.black ha
  simp only [Rawr.absBoard, ha, if_true, BB.isSet, V.pieceOn hs, V.c0 _ hs, V.c1 _ hs]
  rfl

theorem onehot_disj (o : Option Nat) (j k : Nat) (h : j ≠ k) : ((o == some j) && (o == some k)) = false := by
  cases o with
  | none => rfl
  | some i =>
    rw [some_beq, some_beq]
    by_cases h1 : j = i
    · subst h1; simp [Ne.symm h]
    · simp [h1]

theorem onehot_any (o : Option Nat) (h : ∀ k, o = some k → k < 6) :
    ((o == some 0) || (o == some 1) || (o == some 2) || (o == some 3) || (o == some 4) || (o == some 5))
      = o.isSome := by
  cases o with
  | none => rfl
  | some k =>
    have := h k rfl
    have : k = 0 ∨ k = 1 ∨ k = 2 ∨ k = 3 ∨ k = 4 ∨ k = 5 := by omega
    rcases this with rfl | rfl | rfl | rfl | rfl | rfl <;> rfl

theorem and_eq_zero_of {a b : BB} (h : ∀ x, x < 64 → (a.getLsbD x && b.getLsbD x) = false) :
    ((a &&& b) == 0#64) = true := by
  rw [beq_iff_eq]
  apply BitVec.eq_of_getLsbD_eq
  intro i hi
  simp [h i hi]

/-- a view with disjoint colours that cover exactly the occupied squares is board consistent. -/
theorem View.consistent {S : Position} {po : Nat → Option Nat} {u v : Nat → Bool} (V : View S po u v)
    (hd : ∀ x, x < 64 → (u x && v x) = false) (ho : ∀ x, x < 64 → (u x || v x) = (po x).isSome) :
    Consistent S = true := by
  have hp : ∀ j k, j ≠ k → ((S.piece j &&& S.piece k) == 0#64) = true := by
    intro j k hjk
    apply and_eq_zero_of
    intro x hx
    rw [V.P x j hx, V.P x k hx]
    exact onehot_disj _ j k hjk
  have hc : ((S.c0 &&& S.c1) == 0#64) = true := by
    apply and_eq_zero_of
    intro x hx
    rw [V.c0 x hx, V.c1 x hx]
    exact hd x hx
  have hocc : ((S.c0 ||| S.c1) == (S.piece 0 ||| S.piece 1 ||| S.piece 2 ||| S.piece 3 ||| S.piece 4 ||| S.piece 5))
      = true := by
    rw [beq_iff_eq]
    apply BitVec.eq_of_getLsbD_eq
    intro i hi
    simp only [BitVec.getLsbD_or, V.c0 i hi, V.c1 i hi, V.P i _ hi, ho i hi, onehot_any _ (V.lt i)]
  have h01 := hp 0 1 (by decide)
  have h02 := hp 0 2 (by decide)
  have h03 := hp 0 3 (by decide)
  have h04 := hp 0 4 (by decide)
  have h05 := hp 0 5 (by decide)
  have h12 := hp 1 2 (by decide)
  have h13 := hp 1 3 (by decide)
  have h14 := hp 1 4 (by decide)
  have h15 := hp 1 5 (by decide)
  have h23 := hp 2 3 (by decide)
  have h24 := hp 2 4 (by decide)
  have h25 := hp 2 5 (by decide)
  have h34 := hp 3 4 (by decide)
  have h35 := hp 3 5 (by decide)
  have h45 := hp 4 5 (by decide)
  simp only [Position.piece] at h01 h02 h03 h04 h05 h12 h13 h14 h15 h23 h24 h25 h34 h35 h45 hocc
  simp only [Consistent, hc, h01, h02, h03, h04, h05, h12, h13, h14, h15, h23, h24, h25, h34, h35, h45, hocc,
    Bool.and_self]

/-! ### `abs` of the flipped position: the same absolute position with the turn passed -/

theorem cellPiece_swap : ∀ t u v q0 q1 q2 q3 q4 q5 : Bool, (u && v) = false →
    cellPiece (!t) v u q0 q1 q2 q3 q4 q5 = cellPiece t u v q0 q1 q2 q3 q4 q5 := by decide

theorem maybeFlip_not_xor (a : Nat) (b : Bool) : maybeFlip a (!b) ^^^ 56 = maybeFlip a b := by
  cases b
  · exact xor56_xor56 a
  · rfl

theorem absBoard_flip (S : Position) (hd : ∀ x, (S.c0.getLsbD x && S.c1.getLsbD x) = false)
    {a : Nat} (ha : a < 64) : absBoard S.flip a = absBoard S a := by
  rw [absBoard_eq _ a ha, absBoard_eq _ a ha]
  have hs : maybeFlip a (!S.black) < 64 := maybeFlip_lt _ ha
  simp only [flip_c0, flip_c1, flip_p0, flip_p1, flip_p2, flip_p3, flip_p4, flip_p5, flip_black,
    getLsbD_flipBB _ _ hs, maybeFlip_not_xor]
  exact cellPiece_swap _ _ _ _ _ _ _ _ _ (hd _)

theorem absSq_not_flipSq (b : Bool) (e : Nat) : absSq (!b) (flipSq e) = absSq b e := by
  cases b
  · exact xor56_xor56 e
  · rfl

/-- `flip` (mover-relative → the other side's view) denotes the same absolute position, turn passed. -/
theorem abs_flip (S : Position) (hd : ∀ x, (S.c0.getLsbD x && S.c1.getLsbD x) = false) :
    AbsEq (abs S.flip) { abs S with whiteToMove := !(abs S).whiteToMove } := by
  refine ⟨fun s hs => absBoard_flip S hd hs, rfl, ?_, ?_, ?_, ?_, ?_, rfl, rfl⟩
  · show (abs S.flip).wK = (abs S).wK
    cases hb : S.black <;> simp [abs, Position.flip, hb]
  · show (abs S.flip).wQ = (abs S).wQ
    cases hb : S.black <;> simp [abs, Position.flip, hb]
  · show (abs S.flip).bK = (abs S).bK
    cases hb : S.black <;> simp [abs, Position.flip, hb]
  · show (abs S.flip).bQ = (abs S).bQ
    cases hb : S.black <;> simp [abs, Position.flip, hb]
  · show (abs S.flip).ep = (abs S).ep
    simp only [abs, Position.flip]
    cases S.ep with
    | none => rfl
    | some e => simp only [Option.map_some, absSq_not_flipSq]

end Rawr.MM
