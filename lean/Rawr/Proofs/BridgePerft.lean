import Rawr.Props.C01
import Rawr.Props.C02
import Rawr.Props.C08
import Rawr.Model.Uci
import Rawr.Proofs.BridgeE
/-! Bridge for C08(c): `perft` walks the tree with `makemove::<false>`, which leaves the stored key stale,
so its positions satisfy every clause of `ValidPos` except V.8 (the key). `ValidPosNoHash p` is `ValidPos`
of `p` with the key recomputed; nothing `perft` looks at (move generation, counting, `makemove::<false>`,
the abstraction `abs`) reads the key — each of those facts is `rfl`. -/
namespace Rawr.Br
open Rawr Rawr.Position Rawr.Spec Rawr.ZH Rawr.MM Rawr.SV

/-- the position with its key recomputed. -/
def fixHash (p : Position) : Position := wh p p.calculateHash

/-- every clause of `ValidPos` except the stored key (V.8). -/
def ValidPosNoHash (p : Position) : Bool :=
  Consistent p && Spec.Valid (abs p) && p.halfmoves < 2147483648 && p.fullmoves < 2147483648 &&
  p.cf0 < 8 && p.cf1 < 8 && p.cf2 < 8 && p.cf3 < 8

theorem legalMoves_wh (p : Position) (h : BB) : legalMoves (wh p h) = legalMoves p := rfl
theorem countMoves_wh (p : Position) (h : BB) : countMoves (wh p h) = countMoves p := rfl
theorem abs_wh (p : Position) (h : BB) : abs (wh p h) = abs p := rfl
theorem decodeMove_wh (p : Position) (h : BB) (m : Mv) : decodeMove (wh p h) m = decodeMove p m := rfl
theorem calculateHash_wh (p : Position) (h : BB) : (wh p h).calculateHash = p.calculateHash := rfl
theorem mmFrom_wh_src (p : Position) (h0 h : BB) (m : Mv) (i : Nat) : mmFrom (wh p h0) m i h = mmFrom p m i h := rfl
theorem wh_wh (p : Position) (h h' : BB) : wh (wh p h) h' = wh p h' := rfl
theorem wh_self (p : Position) : wh p p.hash = p := rfl

theorem validPosNoHash_iff (p : Position) : ValidPosNoHash p = true ↔ ValidPos (fixHash p) = true := by
  unfold ValidPosNoHash ValidPos fixHash
  have e : ((wh p p.calculateHash).hash == (wh p p.calculateHash).calculateHash) = true := by
    rw [calculateHash_wh]; exact beq_self_eq_true _
  rw [e, Bool.and_true]
  rfl

theorem validPosNoHash_of_valid {p : Position} (hV : ValidPos p = true) : ValidPosNoHash p = true := by
  simp only [ValidPos, Bool.and_eq_true] at hV
  simp only [ValidPosNoHash, Bool.and_eq_true]
  exact hV.1

/-- `makemove::<false>` does not look at the stored key: changing it beforehand changes only the key of the
result. -/
theorem makemove_false_wh (p : Position) (h : BB) (m : Mv) :
    (wh p h).makemove m false = (p.makemove m false).map fun q => wh q h := by
  rw [makemove_eq_staged, mmStaged_eq, makemove_eq_staged, mmStaged_eq]
  have e : (wh p h).pieceOn m.src = p.pieceOn m.src := rfl
  rw [e]
  cases p.pieceOn m.src with
  | none => rfl
  | some i =>
    simp only [Option.bind_eq_bind, Option.bind_some, Option.pure_def, Bool.false_eq_true, if_false]
    have e2 : (wh p h).hash = h := rfl
    rw [e2, mmFrom_wh_src, mmFrom_wh p m i h p.hash]

/-- one ply of `perft`: for a generated move of a position valid up to the key, `makemove::<false>`
succeeds, the successor is valid up to the key, denotes the successor prescribed by the rules, satisfies E,
and its counters grew by at most one. -/
theorem step_nohash {p : Position} {m : Mv} (hV : ValidPosNoHash p = true)
    (hE : Spec.EpConsistent (abs p) = true) (hm : m ∈ legalMoves p)
    (hh : p.halfmoves + 1 < 2147483648) (hf : p.fullmoves + 1 < 2147483648) :
    decodeMove p m ∈ Spec.legalMoves (abs p) ∧
    ∃ q, p.makemove m false = some q ∧ ValidPosNoHash q = true ∧
      abs q = Spec.apply (abs p) (decodeMove p m) ∧ Spec.EpConsistent (abs q) = true ∧
      q.halfmoves ≤ p.halfmoves + 1 ∧ q.fullmoves ≤ p.fullmoves + 1 := by
  have hV' := (validPosNoHash_iff p).mp hV
  have hm' : m ∈ legalMoves (fixHash p) := hm
  have hE' : Spec.EpConsistent (abs (fixHash p)) = true := hE
  have hs := gen_moveShape _ hV' m hm'
  have hL := (C01_sound _ hV' hE' m hm').1
  have hs2 := shape2_of_legal hV' hs hL
  obtain ⟨q1, hq1⟩ := C02_makemove_total _ m hV' hs
  obtain ⟨hVq1, b1, b2⟩ := validPos_step hV' hs2 hL hq1 hh hf
  have ha0 : abs q1 = Spec.apply (abs (fixHash p)) (decodeMove (fixHash p) m) := abs_eq_apply hV' hs2 hq1
  have ha1 : abs q1 = Spec.apply (abs p) (decodeMove p m) := ha0
  have hL0 : decodeMove p m ∈ Spec.legalMoves (abs p) := hL
  have hS0 : Spec.Valid (abs p) = true := (valid_unpack hV').2.1
  obtain ⟨q2, hq2⟩ := C02_makemove_total' _ m false hV' hs
  have hfl : wh q1 q2.hash = q2 := makemove_flag hq1 hq2
  -- back to `p`
  have hk := makemove_false_wh p p.calculateHash m
  have hk' : (fixHash p).makemove m false = (p.makemove m false).map fun q => wh q p.calculateHash := hk
  rw [hq2] at hk'
  cases hq : p.makemove m false with
  | none => rw [hq] at hk'; cases hk'
  | some q =>
    rw [hq] at hk'
    simp only [Option.map_some, Option.some.injEq] at hk'
    -- q2 = wh q _, q2 = wh q1 _  ⇒  fixHash q = q1
    have hqq : fixHash q = q1 := by
      have e1 : wh q2 q1.hash = q1 := by rw [← hfl]; rfl
      have hh1 : q1.hash = q1.calculateHash := (valid_unpack hVq1).2.2.2.2.2.2
      have e2 : wh q q1.hash = q1 := by rw [← e1, hk']; rfl
      have e3 : q.calculateHash = q1.calculateHash := by
        rw [← e2]; rfl
      unfold fixHash
      rw [e3, ← hh1]
      exact e2
    have haq : abs q = abs q1 := by rw [← hqq]; rfl
    refine ⟨hL0, q, rfl, ?_, ?_, ?_, ?_, ?_⟩
    · rw [validPosNoHash_iff, hqq]; exact hVq1
    · rw [haq]; exact ha1
    · rw [haq, ha1]
      exact epConsistent_apply hS0 hL0
    · have : q.halfmoves = q1.halfmoves := by rw [← hqq]; rfl
      rw [this]; exact b1
    · have : q.fullmoves = q1.fullmoves := by rw [← hqq]; rfl
      rw [this]; exact b2

/-- the fold of `perft`, once every ply is known to succeed. -/
theorem perft_fold (p : Position) (d : Nat) (c : Mv → Nat) (l : List Mv) (a0 : Nat)
    (h : ∀ m ∈ l, ∃ np, p.makemove m false = some np ∧ perft d np = some (c m)) :
    l.foldl (fun acc m =>
      match acc, p.makemove m false with
      | some a, some np => (perft d np).map (a + ·)
      | _, _ => none) (some a0) = some (a0 + (l.map c).sum) := by
  induction l generalizing a0 with
  | nil => simp
  | cons x xs ih =>
    obtain ⟨np, h1, h2⟩ := h x (List.mem_cons_self ..)
    rw [List.foldl_cons]
    simp only [h1, h2, Option.map_some]
    rw [ih (a0 + c x) (fun m hm => h m (List.mem_cons_of_mem _ hm))]
    simp only [List.map_cons, List.sum_cons]
    congr 1
    omega

theorem sum_map_one {α : Type} (l : List α) : (l.map fun _ => 1).sum = l.length := by
  induction l with
  | nil => rfl
  | cons x xs ih => simp only [List.map_cons, List.sum_cons, List.length_cons, ih]; omega

end Rawr.Br
