import Rawr.Proofs.StyleGame
import Rawr.Proofs.StyleQ
/-!
# Features and scores of the style model

Under the invariant `Inv` every feature that does not divide by zero returns a value in `[0,1]`,
the only possible exception of a score function is the `ZeroDivisionError` of an unguarded feature,
and the asserts never fire.
-/
namespace Rawr.Style

/-- `x` is a fraction with positive denominator denoting a number in `[0,1]`. -/
def Unit01 (x : Q) : Prop := x.Pos ∧ 0 ≤ x.val ∧ x.val ≤ 1

theorem unit01_zero : Unit01 Q.zero := ⟨Q.pos_zero, by rw [Q.val_zero], by rw [Q.val_zero]; norm_num⟩

theorem Unit01.inUnit {x : Q} (h : Unit01 x) : x.inUnit = true := (Q.inUnit_iff h.1).mpr ⟨h.2.1, h.2.2⟩

/-- `a / b` for naturals `a ≤ b`, `b > 0`. -/
theorem natDiv_unit (a b : Nat) (hab : a ≤ b) (hb : 0 < b) :
    ∃ x, (Q.nat a).div (Q.nat b) = .ok x ∧ Unit01 x := by
  obtain ⟨x, hx, hp, hv⟩ := Q.div_ok (Q.pos_nat a) (Q.pos_nat b) (by simp [Q.nat]; omega)
  refine ⟨x, hx, hp, ?_, ?_⟩
  · rw [hv, Q.val_nat, Q.val_nat]; positivity
  · rw [hv, Q.val_nat, Q.val_nat]
    have hb' : (0 : ℚ) < b := by exact_mod_cast hb
    rw [div_le_one hb']
    exact_mod_cast hab

/-- `if b == 0: return 0.0` / `return a / b`. -/
theorem guardedDiv_unit (a b : Nat) (hab : a ≤ b) :
    ∃ x, (if b = 0 then Except.ok Q.zero else (Q.nat a).div (Q.nat b)) = .ok x ∧ Unit01 x := by
  by_cases hb : b = 0
  · exact ⟨Q.zero, by simp [hb], unit01_zero⟩
  · obtain ⟨x, hx, hu⟩ := natDiv_unit a b hab (by omega)
    exact ⟨x, by simp [hb, hx], hu⟩

/-- `(0.6 * x + 0.25 * y + 0.15 * z) / n / 0.6`. -/
def weighted3 (x y z n : Nat) : Except PyErr Q := do
  let w := (((Q.dec 6 10).mul (Q.nat x)).add ((Q.dec 25 100).mul (Q.nat y))).add
    ((Q.dec 15 100).mul (Q.nat z))
  let y ← w.div (Q.nat n)
  y.div (Q.dec 6 10)

theorem weighted3_zero (x y z : Nat) : weighted3 x y z 0 = .error .zeroDivision := by
  simp only [weighted3, (Q.div_error_iff _ (Q.nat 0) .zeroDivision).mpr ⟨rfl, rfl⟩, bind, Except.bind]

theorem weighted3_unit (x y z n : Nat) (h : x + y + z ≤ n) (hn : 0 < n) :
    ∃ v, weighted3 x y z n = .ok v ∧ Unit01 v := by
  have p1 : ((Q.dec 6 10).mul (Q.nat x)).Pos := Q.pos_mul (Q.pos_dec _ _ (by omega)) (Q.pos_nat _)
  have p2 : ((Q.dec 25 100).mul (Q.nat y)).Pos := Q.pos_mul (Q.pos_dec _ _ (by omega)) (Q.pos_nat _)
  have p3 : ((Q.dec 15 100).mul (Q.nat z)).Pos := Q.pos_mul (Q.pos_dec _ _ (by omega)) (Q.pos_nat _)
  have p12 := Q.pos_add p1 p2
  have p123 := Q.pos_add p12 p3
  obtain ⟨a, ha, hap, hav⟩ := Q.div_ok p123 (Q.pos_nat n) (by simp [Q.nat]; omega)
  obtain ⟨b, hb, hbp, hbv⟩ := Q.div_ok hap (Q.pos_dec 6 10 (by omega)) (by simp [Q.dec])
  refine ⟨b, by simp only [weighted3, ha, hb, bind, Except.bind], hbp, ?_, ?_⟩
  all_goals
    rw [hbv, hav, Q.val_add p12 p3, Q.val_add p1 p2, Q.val_mul (Q.pos_dec _ _ (by omega)) (Q.pos_nat _),
      Q.val_mul (Q.pos_dec _ _ (by omega)) (Q.pos_nat _), Q.val_mul (Q.pos_dec _ _ (by omega)) (Q.pos_nat _),
      Q.val_dec, Q.val_dec, Q.val_dec, Q.val_nat, Q.val_nat, Q.val_nat, Q.val_nat]
  · positivity
  · have hn' : (0 : ℚ) < n := by exact_mod_cast hn
    have hxyz : (x : ℚ) + y + z ≤ n := by exact_mod_cast h
    have hx : (0 : ℚ) ≤ x := by positivity
    have hy : (0 : ℚ) ≤ y := by positivity
    have hz : (0 : ℚ) ≤ z := by positivity
    rw [div_le_one (by norm_num), div_le_iff₀ hn']
    push_cast
    nlinarith

/-! ## the individual features -/

theorem list8 (l : List Nat) (h : l.length = 8) :
    ∃ a0 a1 a2 a3 a4 a5 a6 a7, l = [a0, a1, a2, a3, a4, a5, a6, a7] := by
  match l, h with
  | [a0, a1, a2, a3, a4, a5, a6, a7], _ => exact ⟨a0, a1, a2, a3, a4, a5, a6, a7, rfl⟩

/-- `sum(weights[dist] * frequency ...) / (max(weights) * total)`. -/
def nearKing (l : List Nat) (total : Nat) : Except PyErr Q := do
  let score ← enumDot Aggression.nearKingWeights l
  let maxScore := Aggression.listMax Aggression.nearKingWeights * total
  (Q.nat score).div (Q.nat maxScore)

theorem nearKing_eq (a0 a1 a2 a3 a4 a5 a6 a7 total : Nat) :
    nearKing [a0, a1, a2, a3, a4, a5, a6, a7] total =
      (Q.nat (0 * a0 + (8 * a1 + (4 * a2 + (2 * a3 + (1 * a4 + (0 * a5 + (0 * a6 + (0 * a7 + 0))))))))).div
        (Q.nat (8 * total)) := rfl

theorem nearKing_unit (l : List Nat) (total : Nat) (hl : l.length = 8) (hs : l.sum = total) (ht : 0 < total) :
    ∃ x, nearKing l total = .ok x ∧ Unit01 x := by
  obtain ⟨a0, a1, a2, a3, a4, a5, a6, a7, rfl⟩ := list8 l hl
  rw [nearKing_eq]
  simp only [List.sum_cons, List.sum_nil] at hs
  exact natDiv_unit _ _ (by omega) (by omega)

theorem nearKing_zero (l : List Nat) (hl : l.length = 8) : nearKing l 0 = .error .zeroDivision := by
  obtain ⟨a0, a1, a2, a3, a4, a5, a6, a7, rfl⟩ := list8 l hl
  rw [nearKing_eq]
  exact (Q.div_error_iff _ _ _).mpr ⟨by simp [Q.nat], rfl⟩

/-- the unguarded tail of `feature_push_pawns`. -/
def pushPawns (early gl : List Nat) : Except PyErr Q := do
  let totalEarlyMoves := enumMinSum 40 gl
  let totalScore ← Aggression.rangeDot Aggression.pushWeights early 2 6
  let tail := Aggression.pushWeights.drop 3
  let mean ← (Q.nat tail.sum).div (Q.nat tail.length)
  let maxTotalScore := mean.mul (Q.nat totalEarlyMoves)
  (Q.nat totalScore).div maxTotalScore

theorem pushPawns_eq (a0 a1 a2 a3 a4 a5 a6 a7 : Nat) (gl : List Nat) :
    pushPawns [a0, a1, a2, a3, a4, a5, a6, a7] gl =
      (Q.nat (1 * a2 + (1 * a3 + (2 * a4 + (4 * a5 + (8 * a6 + (16 * a7 + 0))))))).div
        ((⟨31, 5⟩ : Q).mul (Q.nat (enumMinSum 40 gl))) := rfl

theorem pushPawns_unit (early gl : List Nat) (hl : early.length = 8)
    (hchain : ∀ r, 3 ≤ r → r ≤ 6 → early.getD (r + 1) 0 ≤ early.getD r 0)
    (hsum : early.sum ≤ enumMinSum 40 gl) (hpos : 0 < enumMinSum 40 gl) :
    ∃ x, pushPawns early gl = .ok x ∧ Unit01 x := by
  obtain ⟨a0, a1, a2, a3, a4, a5, a6, a7, rfl⟩ := list8 early hl
  rw [pushPawns_eq]
  have c3 := hchain 3 (by omega) (by omega)
  have c4 := hchain 4 (by omega) (by omega)
  have c5 := hchain 5 (by omega) (by omega)
  have c6 := hchain 6 (by omega) (by omega)
  simp only [List.getD_cons_succ, List.getD_cons_zero] at c3 c4 c5 c6
  simp only [List.sum_cons, List.sum_nil] at hsum
  generalize enumMinSum 40 gl = T at *
  have hp31 : (⟨31, 5⟩ : Q).Pos := by show 0 < 5; omega
  have hpm : ((⟨31, 5⟩ : Q).mul (Q.nat T)).Pos := Q.pos_mul hp31 (Q.pos_nat T)
  obtain ⟨x, hx, hxp, hxv⟩ := Q.div_ok (Q.pos_nat (1 * a2 + (1 * a3 + (2 * a4 + (4 * a5 + (8 * a6 + (16 * a7 + 0)))))))
    hpm (by simp [Q.mul, Q.nat]; omega)
  refine ⟨x, hx, hxp, ?_, ?_⟩
  all_goals rw [hxv, Q.val_mul hp31 (Q.pos_nat T), Q.val_nat, Q.val_nat]
  · have : (0 : ℚ) ≤ (⟨31, 5⟩ : Q).val := by simp [Q.val]; norm_num
    positivity
  · have hv : (⟨31, 5⟩ : Q).val = 31 / 5 := by simp [Q.val]
    rw [hv]
    have hT : (0 : ℚ) < T := by exact_mod_cast hpos
    rw [div_le_one (by positivity)]
    have h5 : 5 * (1 * a2 + (1 * a3 + (2 * a4 + (4 * a5 + (8 * a6 + (16 * a7 + 0)))))) ≤ 31 * T := by omega
    have h5' : (5 : ℚ) * ((1 * a2 + (1 * a3 + (2 * a4 + (4 * a5 + (8 * a6 + (16 * a7 + 0)))))) : ℕ) ≤ 31 * T := by
      exact_mod_cast h5
    linarith

/-! ## features: either `ZeroDivisionError` or a value in `[0,1]` -/

/-- the feature returns a value in `[0,1]`. -/
def FeatOK (s : Stats) (f : Stats → Except PyErr Q) : Prop := ∃ x, f s = .ok x ∧ Unit01 x

/-- the feature returns a value in `[0,1]` or raises `ZeroDivisionError`. -/
def FeatSafe (s : Stats) (f : Stats → Except PyErr Q) : Prop :=
  (∀ x, f s = .ok x → Unit01 x) ∧ (∀ e, f s = .error e → e = .zeroDivision)

theorem FeatOK.safe {s : Stats} {f : Stats → Except PyErr Q} (h : FeatOK s f) : FeatSafe s f := by
  obtain ⟨x, hx, hu⟩ := h
  exact ⟨fun y hy => (by rw [hx] at hy; cases hy; exact hu), fun e he => (by rw [hx] at he; cases he)⟩

theorem weighted3_safe (x y z n : Nat) (h : x + y + z ≤ n) :
    (∀ v, weighted3 x y z n = .ok v → Unit01 v) ∧ (∀ e, weighted3 x y z n = .error e → e = .zeroDivision) := by
  by_cases hn : n = 0
  · subst hn
    rw [weighted3_zero]
    exact ⟨fun v hv => (by cases hv), fun e he => (by cases he; rfl)⟩
  · obtain ⟨v, hv, hu⟩ := weighted3_unit x y z n h (by omega)
    rw [hv]
    exact ⟨fun w hw => (by cases hw; exact hu), fun e he => (by cases he)⟩

theorem nearKing_safe (l : List Nat) (total : Nat) (hl : l.length = 8) (hs : l.sum = total) :
    (∀ v, nearKing l total = .ok v → Unit01 v) ∧ (∀ e, nearKing l total = .error e → e = .zeroDivision) := by
  by_cases hn : total = 0
  · subst hn
    rw [nearKing_zero l hl]
    exact ⟨fun v hv => (by cases hv), fun e he => (by cases he; rfl)⟩
  · obtain ⟨v, hv, hu⟩ := nearKing_unit l total hl hs (by omega)
    rw [hv]
    exact ⟨fun w hw => (by cases hw; exact hu), fun e he => (by cases he)⟩

section
variable {s : Stats} (h : Inv s)
include h

theorem aggr_gameLength_safe : FeatSafe s Aggression.featureGameLength :=
  weighted3_safe _ _ _ _ (by have := h.game.lens; omega)

theorem aggr_gameLength_ok (hn : 0 < s.numGames) : FeatOK s Aggression.featureGameLength :=
  weighted3_unit _ _ _ _ (by have := h.game.lens; omega) hn

theorem pos_gameLength_safe : FeatSafe s Positional.featureGameLength :=
  weighted3_safe s.longGames s.mediumGames s.shortGames s.numGames (by have := h.game.lens; omega)

theorem pos_gameLength_ok (hn : 0 < s.numGames) : FeatOK s Positional.featureGameLength :=
  weighted3_unit s.longGames s.mediumGames s.shortGames s.numGames (by have := h.game.lens; omega) hn

omit h in
theorem aggr_captureEarly_eq (v : Variant) (s : Stats) : Aggression.featureCaptureEarly v s =
    if v = .guarded ∧ s.totalCaptures = 0 then .ok Q.zero
    else weighted3 s.earlyCaptures s.midCaptures s.lateCaptures s.totalCaptures := rfl

omit h in
theorem pos_captureEarly_eq (v : Variant) (s : Stats) : Positional.featureCaptureEarly v s =
    if v = .guarded ∧ s.totalCaptures = 0 then .ok Q.zero
    else weighted3 s.lateCaptures s.midCaptures s.earlyCaptures s.totalCaptures := rfl

omit h in
theorem captureNearKing_eq (v : Variant) (s : Stats) : Aggression.featureCaptureNearKing v s =
    if v = .guarded ∧ s.totalCaptures = 0 then .ok Q.zero
    else nearKing s.captureDistance s.totalCaptures := rfl

omit h in
theorem moveNearKing_eq (v : Variant) (s : Stats) : Aggression.featureMoveNearKing v s =
    if v = .guarded ∧ s.totalNoncaptures = 0 then .ok Q.zero
    else nearKing s.noncaptureDistance s.totalNoncaptures := rfl

omit h in
theorem zero_safe (f : Stats → Except PyErr Q) (s : Stats) (hf : f s = .ok Q.zero) : FeatSafe s f :=
  (show FeatOK s f from ⟨_, hf, unit01_zero⟩).safe

theorem aggr_captureEarly_safe (v : Variant) : FeatSafe s (Aggression.featureCaptureEarly v) := by
  by_cases hg : v = .guarded ∧ s.totalCaptures = 0
  · exact zero_safe _ _ (by rw [aggr_captureEarly_eq, if_pos hg])
  · unfold FeatSafe
    rw [aggr_captureEarly_eq, if_neg hg]
    exact weighted3_safe _ _ _ _ (by have := h.step.caps; omega)

theorem aggr_captureEarly_ok (v : Variant) (hc : v = .guarded ∨ 0 < s.totalCaptures) :
    FeatOK s (Aggression.featureCaptureEarly v) := by
  unfold FeatOK
  by_cases hg : v = .guarded ∧ s.totalCaptures = 0
  · exact ⟨_, by rw [aggr_captureEarly_eq, if_pos hg], unit01_zero⟩
  · rw [aggr_captureEarly_eq, if_neg hg]
    have : 0 < s.totalCaptures := by
      rcases hc with hc | hc
      · have : ¬ s.totalCaptures = 0 := fun h0 => hg ⟨hc, h0⟩
        omega
      · exact hc
    exact weighted3_unit _ _ _ _ (by have := h.step.caps; omega) this

theorem pos_captureEarly_safe (v : Variant) : FeatSafe s (Positional.featureCaptureEarly v) := by
  by_cases hg : v = .guarded ∧ s.totalCaptures = 0
  · exact zero_safe _ _ (by rw [pos_captureEarly_eq, if_pos hg])
  · unfold FeatSafe
    rw [pos_captureEarly_eq, if_neg hg]
    exact weighted3_safe _ _ _ _ (by have := h.step.caps; omega)

theorem pos_captureEarly_ok (v : Variant) (hc : v = .guarded ∨ 0 < s.totalCaptures) :
    FeatOK s (Positional.featureCaptureEarly v) := by
  unfold FeatOK
  by_cases hg : v = .guarded ∧ s.totalCaptures = 0
  · exact ⟨_, by rw [pos_captureEarly_eq, if_pos hg], unit01_zero⟩
  · rw [pos_captureEarly_eq, if_neg hg]
    have : 0 < s.totalCaptures := by
      rcases hc with hc | hc
      · have : ¬ s.totalCaptures = 0 := fun h0 => hg ⟨hc, h0⟩
        omega
      · exact hc
    exact weighted3_unit _ _ _ _ (by have := h.step.caps; omega) this

theorem captureNearKing_safe (v : Variant) : FeatSafe s (Aggression.featureCaptureNearKing v) := by
  by_cases hg : v = .guarded ∧ s.totalCaptures = 0
  · exact zero_safe _ _ (by rw [captureNearKing_eq, if_pos hg])
  · unfold FeatSafe
    rw [captureNearKing_eq, if_neg hg]
    exact nearKing_safe _ _ h.step.lenCD h.step.capDist

theorem captureNearKing_ok (v : Variant) (hc : v = .guarded ∨ 0 < s.totalCaptures) :
    FeatOK s (Aggression.featureCaptureNearKing v) := by
  unfold FeatOK
  by_cases hg : v = .guarded ∧ s.totalCaptures = 0
  · exact ⟨_, by rw [captureNearKing_eq, if_pos hg], unit01_zero⟩
  · rw [captureNearKing_eq, if_neg hg]
    have : 0 < s.totalCaptures := by
      rcases hc with hc | hc
      · have : ¬ s.totalCaptures = 0 := fun h0 => hg ⟨hc, h0⟩
        omega
      · exact hc
    exact nearKing_unit _ _ h.step.lenCD h.step.capDist this

theorem moveNearKing_safe (v : Variant) : FeatSafe s (Aggression.featureMoveNearKing v) := by
  by_cases hg : v = .guarded ∧ s.totalNoncaptures = 0
  · exact zero_safe _ _ (by rw [moveNearKing_eq, if_pos hg])
  · unfold FeatSafe
    rw [moveNearKing_eq, if_neg hg]
    exact nearKing_safe _ _ h.step.lenNCD h.step.ncapDist

theorem moveNearKing_ok (v : Variant) (hc : v = .guarded ∨ 0 < s.totalNoncaptures) :
    FeatOK s (Aggression.featureMoveNearKing v) := by
  unfold FeatOK
  by_cases hg : v = .guarded ∧ s.totalNoncaptures = 0
  · exact ⟨_, by rw [moveNearKing_eq, if_pos hg], unit01_zero⟩
  · rw [moveNearKing_eq, if_neg hg]
    have : 0 < s.totalNoncaptures := by
      rcases hc with hc | hc
      · have : ¬ s.totalNoncaptures = 0 := fun h0 => hg ⟨hc, h0⟩
        omega
      · exact hc
    exact nearKing_unit _ _ h.step.lenNCD h.step.ncapDist this

omit h in
theorem castleOpposite_ok : FeatOK s Aggression.featureCastleOpposite :=
  guardedDiv_unit s.castleOpposite (s.castleOpposite + s.castleSame) (by omega)

omit h in
theorem featurePushPawns_eq (s : Stats) : Aggression.featurePushPawns s =
    if s.totalPawnPushes = 0 then .ok Q.zero else pushPawns s.earlyPawnPushes s.gameLength := rfl

theorem pushPawns_ok : FeatOK s Aggression.featurePushPawns := by
  unfold FeatOK
  rw [featurePushPawns_eq]
  by_cases h0 : s.totalPawnPushes = 0
  · exact ⟨_, by rw [if_pos h0], unit01_zero⟩
  · rw [if_neg h0]
    exact pushPawns_unit s.earlyPawnPushes s.gameLength h.step.lenE h.game.chain h.game.earlySum
      (h.game.pushPos (by omega))

theorem checks_ok : FeatOK s Aggression.featureChecks :=
  guardedDiv_unit s.checks s.totalMoves (by have := h.step.chk; omega)

theorem winsBehind_ok : FeatOK s Aggression.featureWinsBehind :=
  guardedDiv_unit s.numWinBehind s.numWins (by have := h.game.wins; omega)

theorem captureFrequency_ok : FeatOK s Aggression.featureCaptureFrequency :=
  guardedDiv_unit s.totalCaptures s.totalMoves (by have := h.step.moves; omega)

theorem pushTowardsKing_ok : FeatOK s Aggression.featurePushPawnTowardsKing :=
  guardedDiv_unit s.totalPawnPushesTowardsKing s.totalPawnPushes h.step.towards

theorem rookThreats_ok : FeatOK s Aggression.featureRookThreats :=
  guardedDiv_unit s.numRookThreats s.totalMoves h.step.rook

theorem bishopThreats_ok : FeatOK s Aggression.featureBishopThreats :=
  guardedDiv_unit s.numBishopThreats s.totalMoves h.step.bishop

end

/-! ## the scoring loop -/

/-- the sum of the weights, as a rational. -/
def wsum (fs : List Feature) : ℚ := (fs.map fun f => f.weight.val).sum

/-- positive denominators and non-negative weights. -/
def WPos (fs : List Feature) : Prop := ∀ f ∈ fs, 0 < f.weight.den ∧ 0 ≤ f.weight.num

theorem WPos.val_nonneg {f : Feature} (h : 0 < f.weight.den ∧ 0 ≤ f.weight.num) : 0 ≤ f.weight.val := by
  unfold Q.val
  have : (0 : ℚ) ≤ f.weight.num := by exact_mod_cast h.2
  positivity

theorem weightSum_fold : ∀ (fs : List Feature), WPos fs → ∀ (a : Q), a.Pos →
    (fs.foldl (fun acc f => acc.add f.weight) a).Pos ∧
      (fs.foldl (fun acc f => acc.add f.weight) a).val = a.val + wsum fs
  | [], _, a, ha => ⟨ha, by simp [wsum]⟩
  | f :: fs, hw, a, ha => by
    have hf := hw f (by simp)
    have := weightSum_fold fs (fun g hg => hw g (by simp [hg])) (a.add f.weight) (Q.pos_add ha hf.1)
    refine ⟨this.1, ?_⟩
    simp only [List.foldl_cons]
    rw [this.2, Q.val_add ha hf.1]
    simp [wsum]; ring

theorem weightSum_val (fs : List Feature) (hw : WPos fs) : (weightSum fs).Pos ∧ (weightSum fs).val = wsum fs := by
  have := weightSum_fold fs hw (Q.nat 0) (Q.pos_nat 0)
  refine ⟨this.1, ?_⟩
  have h2 := this.2
  rw [Q.val_nat] at h2
  simpa [weightSum] using h2

theorem wsum_nonneg : ∀ (fs : List Feature), WPos fs → 0 ≤ wsum fs
  | [], _ => by simp [wsum]
  | f :: fs, hw => by
    have h1 := WPos.val_nonneg (hw f (by simp))
    have h2 := wsum_nonneg fs (fun g hg => hw g (by simp [hg]))
    simp only [wsum, List.map_cons, List.sum_cons] at *
    linarith

theorem scoreLoop_safe (s : Stats) : ∀ (fs : List Feature) (acc : Q), acc.Pos → WPos fs →
    (∀ f ∈ fs, FeatSafe s f.func) →
    (∀ r, scoreLoop s fs acc = .ok r → r.Pos ∧ acc.val ≤ r.val ∧ r.val ≤ acc.val + wsum fs) ∧
    (∀ e, scoreLoop s fs acc = .error e → e = .zeroDivision)
  | [], acc, ha, _, _ => by
    refine ⟨fun r hr => ?_, fun e he => by cases he⟩
    simp only [scoreLoop] at hr
    cases hr
    exact ⟨ha, le_refl _, by simp [wsum]⟩
  | f :: fs, acc, ha, hw, hs => by
    have hf := hw f (by simp)
    have hfs := hs f (by simp)
    have hfv := WPos.val_nonneg hf
    cases hfx : f.func s with
    | error e =>
      have := hfs.2 e hfx
      refine ⟨fun r hr => ?_, fun e' he' => ?_⟩
      · simp only [scoreLoop, hfx] at hr; cases hr
      · simp only [scoreLoop, hfx] at he'; cases he'; exact this
    | ok x =>
      have hu := hfs.1 x hfx
      have hin := hu.inUnit
      have hpos : (acc.add (f.weight.mul x)).Pos := Q.pos_add ha (Q.pos_mul hf.1 hu.1)
      have hval : (acc.add (f.weight.mul x)).val = acc.val + f.weight.val * x.val := by
        rw [Q.val_add ha (Q.pos_mul hf.1 hu.1), Q.val_mul hf.1 hu.1]
      have ih := scoreLoop_safe s fs (acc.add (f.weight.mul x)) hpos (fun g hg => hw g (by simp [hg]))
        (fun g hg => hs g (by simp [hg]))
      have hx0 := hu.2.1
      have hx1 := hu.2.2
      refine ⟨fun r hr => ?_, fun e he => ?_⟩
      · simp only [scoreLoop, hfx, hin, if_true] at hr
        obtain ⟨hp, h1, h2⟩ := ih.1 r hr
        rw [hval] at h1 h2
        refine ⟨hp, ?_, ?_⟩
        · nlinarith
        · simp only [wsum, List.map_cons, List.sum_cons] at *
          nlinarith
      · simp only [scoreLoop, hfx, hin, if_true] at he
        exact ih.2 e he

theorem scoreLoop_ok (s : Stats) : ∀ (fs : List Feature) (acc : Q), (∀ f ∈ fs, FeatOK s f.func) →
    ∃ r, scoreLoop s fs acc = .ok r
  | [], acc, _ => ⟨acc, rfl⟩
  | f :: fs, acc, hs => by
    obtain ⟨x, hx, hu⟩ := hs f (by simp)
    obtain ⟨r, hr⟩ := scoreLoop_ok s fs (acc.add (f.weight.mul x)) (fun g hg => hs g (by simp [hg]))
    exact ⟨r, by simp only [scoreLoop, hx, hu.inUnit, if_true, hr]⟩

/-- `score / sum(weights)`. -/
theorem scale_unit (r W : Q) (hr : r.Pos) (hW : W.Pos) (hWv : 0 < W.val) (h0 : 0 ≤ r.val) (h1 : r.val ≤ W.val) :
    ∃ x, r.div W = .ok x ∧ Unit01 x := by
  have hn : W.num ≠ 0 := fun h => by
    have := (Q.val_eq_zero_iff hW).mpr h
    linarith
  obtain ⟨x, hx, hp, hv⟩ := Q.div_ok hr hW hn
  refine ⟨x, hx, hp, ?_, ?_⟩
  · rw [hv]; positivity
  · rw [hv, div_le_one hWv]; exact h1

theorem placeholder_ok (s : Stats) : FeatOK s PawnPusher.featurePlaceholder := ⟨_, rfl, unit01_zero⟩
theorem sacrifices_ok (s : Stats) : FeatOK s Aggression.featureSacrifices := ⟨_, rfl, unit01_zero⟩

/-! ## the three score functions -/

theorem wpos_aggr (v : Variant) : WPos (Aggression.features v) := by
  unfold WPos; cases v <;> decide

theorem wpos_pos (v : Variant) : WPos (Positional.features v) := by
  unfold WPos; cases v <;> decide

theorem wpos_pawn : WPos PawnPusher.features := by unfold WPos; decide

theorem wsum_aggr (v : Variant) : wsum (Aggression.features v) = 201 / 5 := by
  simp only [wsum, Aggression.features, List.map_cons, List.map_nil, List.sum_cons, List.sum_nil, Q.val_nat,
    Q.val_dec]
  norm_num

theorem wsum_pos (v : Variant) : wsum (Positional.features v) = 3 := by
  simp only [wsum, Positional.features, List.map_cons, List.map_nil, List.sum_cons, List.sum_nil, Q.val_nat]
  norm_num

theorem wsum_pawn : wsum PawnPusher.features = 1 := by
  simp only [wsum, PawnPusher.features, List.map_cons, List.map_nil, List.sum_cons, List.sum_nil, Q.val_nat]
  norm_num

theorem aggr_features_safe {s : Stats} (h : Inv s) (v : Variant) :
    ∀ f ∈ Aggression.features v, FeatSafe s f.func := by
  intro f hf
  simp only [Aggression.features, List.mem_cons, List.not_mem_nil, or_false] at hf
  rcases hf with rfl | rfl | rfl | rfl | rfl | rfl | rfl | rfl | rfl | rfl | rfl | rfl
  · exact aggr_gameLength_safe h
  · exact aggr_captureEarly_safe h v
  · exact captureNearKing_safe h v
  · exact moveNearKing_safe h v
  · exact castleOpposite_ok.safe
  · exact (pushPawns_ok h).safe
  · exact (checks_ok h).safe
  · exact (winsBehind_ok h).safe
  · exact (captureFrequency_ok h).safe
  · exact (pushTowardsKing_ok h).safe
  · exact (rookThreats_ok h).safe
  · exact (bishopThreats_ok h).safe

theorem aggr_features_ok {s : Stats} (h : Inv s) (v : Variant) (hn : 0 < s.numGames)
    (hc : v = .guarded ∨ 0 < s.totalCaptures) (hnc : v = .guarded ∨ 0 < s.totalNoncaptures) :
    ∀ f ∈ Aggression.features v, FeatOK s f.func := by
  intro f hf
  simp only [Aggression.features, List.mem_cons, List.not_mem_nil, or_false] at hf
  rcases hf with rfl | rfl | rfl | rfl | rfl | rfl | rfl | rfl | rfl | rfl | rfl | rfl
  · exact aggr_gameLength_ok h hn
  · exact aggr_captureEarly_ok h v hc
  · exact captureNearKing_ok h v hc
  · exact moveNearKing_ok h v hnc
  · exact castleOpposite_ok
  · exact pushPawns_ok h
  · exact checks_ok h
  · exact winsBehind_ok h
  · exact captureFrequency_ok h
  · exact pushTowardsKing_ok h
  · exact rookThreats_ok h
  · exact bishopThreats_ok h

theorem pos_features_safe {s : Stats} (h : Inv s) (v : Variant) :
    ∀ f ∈ Positional.features v, FeatSafe s f.func := by
  intro f hf
  simp only [Positional.features, List.mem_cons, List.not_mem_nil, or_false] at hf
  rcases hf with rfl | rfl
  · exact pos_gameLength_safe h
  · exact pos_captureEarly_safe h v

theorem pos_features_ok {s : Stats} (h : Inv s) (v : Variant) (hn : 0 < s.numGames)
    (hc : v = .guarded ∨ 0 < s.totalCaptures) : ∀ f ∈ Positional.features v, FeatOK s f.func := by
  intro f hf
  simp only [Positional.features, List.mem_cons, List.not_mem_nil, or_false] at hf
  rcases hf with rfl | rfl
  · exact pos_gameLength_ok h hn
  · exact pos_captureEarly_ok h v hc

theorem pawn_features_ok (s : Stats) : ∀ f ∈ PawnPusher.features, FeatOK s f.func := by
  intro f hf
  simp only [PawnPusher.features, List.mem_cons, List.not_mem_nil, or_false] at hf
  subst hf
  exact placeholder_ok s

/-- the common tail `scaled = score / sum(weights); assert(0.0 <= scaled and scaled <= 1.0)`. -/
theorem tail_spec (s : Stats) (fs : List Feature) (hw : WPos fs) (hpos : 0 < wsum fs)
    (hsafe : ∀ f ∈ fs, FeatSafe s f.func) :
    (∀ e, scoreLoop s fs (Q.nat 0) = .error e → e = .zeroDivision) ∧
    (∀ r, scoreLoop s fs (Q.nat 0) = .ok r → ∃ x, r.div (weightSum fs) = .ok x ∧ Unit01 x) := by
  have hl := scoreLoop_safe s fs (Q.nat 0) (Q.pos_nat 0) hw hsafe
  obtain ⟨hWp, hWv⟩ := weightSum_val fs hw
  refine ⟨hl.2, fun r hr => ?_⟩
  obtain ⟨hp, h0, h1⟩ := hl.1 r hr
  rw [Q.val_nat] at h0 h1
  exact scale_unit r (weightSum fs) hp hWp (by rw [hWv]; exact hpos) (by simpa using h0)
    (by rw [hWv]; simpa using h1)

theorem double_min_unit {x : Q} (hx : Unit01 x) : Unit01 (Q.min Q.one ((Q.nat 2).mul x)) := by
  have hp2 : ((Q.nat 2).mul x).Pos := Q.pos_mul (Q.pos_nat 2) hx.1
  refine ⟨Q.pos_min Q.pos_one hp2, ?_, ?_⟩
  · rw [Q.val_min Q.pos_one hp2, Q.val_one, Q.val_mul (Q.pos_nat 2) hx.1, Q.val_nat]
    have := hx.2.1
    exact le_min (by norm_num) (by push_cast; linarith)
  · rw [Q.val_min Q.pos_one hp2, Q.val_one]
    exact min_le_left _ _

/-- specification of `get_aggression_score` on statistics satisfying the invariant. -/
theorem getAggressionScore_spec {s : Stats} (h : Inv s) (v : Variant) :
    (s.numGames = 0 → getAggressionScore v s = .ok none) ∧
    (∀ q, getAggressionScore v s = .ok (some q) → Unit01 q) ∧
    (∀ e, getAggressionScore v s = .error e → e = .zeroDivision) ∧
    (0 < s.numGames → (v = .guarded ∨ 0 < s.totalCaptures) → (v = .guarded ∨ 0 < s.totalNoncaptures) →
      ∃ q, getAggressionScore v s = .ok (some q) ∧ Unit01 q) := by
  have hts := tail_spec s (Aggression.features v) (wpos_aggr v) (by rw [wsum_aggr]; norm_num)
    (aggr_features_safe h v)
  by_cases hn : s.numGames = 0
  · have hg : getAggressionScore v s = .ok none := by unfold getAggressionScore; rw [if_pos hn]
    rw [hg]
    exact ⟨fun _ => rfl, fun q hq => (by cases hq), fun e he => (by cases he), fun h0 => (by omega)⟩
  · cases hsl : scoreLoop s (Aggression.features v) (Q.nat 0) with
    | error e =>
      have he := hts.1 e hsl
      have hg : getAggressionScore v s = .error e := by
        unfold getAggressionScore; rw [if_neg hn]; simp only [hsl, bind, Except.bind]
      rw [hg]
      refine ⟨fun h0 => absurd h0 hn, fun q hq => (by cases hq), fun e' he' => (by cases he'; exact he),
        fun h0 hc hnc => ?_⟩
      obtain ⟨r, hr⟩ := scoreLoop_ok s (Aggression.features v) (Q.nat 0) (aggr_features_ok h v h0 hc hnc)
      rw [hr] at hsl; cases hsl
    | ok r =>
      obtain ⟨x, hx, hu⟩ := hts.2 r hsl
      have hd := double_min_unit hu
      have hin := hd.inUnit
      have hg : getAggressionScore v s = .ok (some (Q.min Q.one ((Q.nat 2).mul x))) := by
        unfold getAggressionScore; rw [if_neg hn]
        simp only [hsl, hx, bind, Except.bind, hin, if_true, pure, Except.pure]
      rw [hg]
      exact ⟨fun h0 => absurd h0 hn, fun q hq => (by cases hq; exact hd), fun e he => (by cases he),
        fun _ _ _ => ⟨_, rfl, hd⟩⟩

/-- specification of `get_positional_score` on statistics satisfying the invariant. -/
theorem getPositionalScore_spec {s : Stats} (h : Inv s) (v : Variant) :
    (s.numGames = 0 → getPositionalScore v s = .ok none) ∧
    (∀ q, getPositionalScore v s = .ok (some q) → Unit01 q) ∧
    (∀ e, getPositionalScore v s = .error e → e = .zeroDivision) ∧
    (0 < s.numGames → (v = .guarded ∨ 0 < s.totalCaptures) →
      ∃ q, getPositionalScore v s = .ok (some q) ∧ Unit01 q) := by
  have hts := tail_spec s (Positional.features v) (wpos_pos v) (by rw [wsum_pos]; norm_num)
    (pos_features_safe h v)
  by_cases hn : s.numGames = 0
  · have hg : getPositionalScore v s = .ok none := by unfold getPositionalScore; rw [if_pos hn]
    rw [hg]
    exact ⟨fun _ => rfl, fun q hq => (by cases hq), fun e he => (by cases he), fun h0 => (by omega)⟩
  · cases hsl : scoreLoop s (Positional.features v) (Q.nat 0) with
    | error e =>
      have he := hts.1 e hsl
      have hg : getPositionalScore v s = .error e := by
        unfold getPositionalScore; rw [if_neg hn]; simp only [hsl, bind, Except.bind]
      rw [hg]
      refine ⟨fun h0 => absurd h0 hn, fun q hq => (by cases hq), fun e' he' => (by cases he'; exact he),
        fun h0 hc => ?_⟩
      obtain ⟨r, hr⟩ := scoreLoop_ok s (Positional.features v) (Q.nat 0) (pos_features_ok h v h0 hc)
      rw [hr] at hsl; cases hsl
    | ok r =>
      obtain ⟨x, hx, hu⟩ := hts.2 r hsl
      have hin := hu.inUnit
      have hg : getPositionalScore v s = .ok (some x) := by
        unfold getPositionalScore; rw [if_neg hn]
        simp only [hsl, hx, bind, Except.bind, hin, if_true, pure, Except.pure]
      rw [hg]
      exact ⟨fun h0 => absurd h0 hn, fun q hq => (by cases hq; exact hu), fun e he => (by cases he),
        fun _ _ => ⟨_, rfl, hu⟩⟩

/-- specification of `get_pawn_pusher_score`: it never raises. -/
theorem getPawnPusherScore_spec (s : Stats) :
    (s.numGames = 0 → getPawnPusherScore s = .ok none) ∧
    (∀ q, getPawnPusherScore s = .ok (some q) → Unit01 q) ∧
    (0 < s.numGames → ∃ q, getPawnPusherScore s = .ok (some q) ∧ Unit01 q) := by
  have hts := tail_spec s PawnPusher.features wpos_pawn (by rw [wsum_pawn]; norm_num)
    (fun f hf => (pawn_features_ok s f hf).safe)
  by_cases hn : s.numGames = 0
  · have hg : getPawnPusherScore s = .ok none := by unfold getPawnPusherScore; rw [if_pos hn]
    rw [hg]
    exact ⟨fun _ => rfl, fun q hq => (by cases hq), fun h0 => (by omega)⟩
  · obtain ⟨r, hsl⟩ := scoreLoop_ok s PawnPusher.features (Q.nat 0) (pawn_features_ok s)
    obtain ⟨x, hx, hu⟩ := hts.2 r hsl
    have hin := hu.inUnit
    have hg : getPawnPusherScore s = .ok (some x) := by
      unfold getPawnPusherScore; rw [if_neg hn]
      simp only [hsl, hx, bind, Except.bind, hin, if_true, pure, Except.pure]
    rw [hg]
    exact ⟨fun h0 => absurd h0 hn, fun q hq => (by cases hq; exact hu), fun _ => ⟨_, rfl, hu⟩⟩

/-! ## when the current text does raise -/

theorem scoreLoop_ok_features (s : Stats) : ∀ (fs : List Feature) (acc r : Q), scoreLoop s fs acc = .ok r →
    ∀ f ∈ fs, ∃ x, f.func s = .ok x
  | [], _, _, _ => fun f hf => by simp at hf
  | g :: fs, acc, r, h => by
    intro f hf
    cases hg : g.func s with
    | error e => simp only [scoreLoop, hg] at h; cases h
    | ok x =>
      simp only [scoreLoop, hg] at h
      by_cases hin : x.inUnit = true
      · rw [if_pos hin] at h
        rcases List.mem_cons.mp hf with rfl | hf'
        · exact ⟨x, hg⟩
        · exact scoreLoop_ok_features s fs _ r h f hf'
      · rw [if_neg hin] at h; cases h

theorem getAggressionScore_error_of_feature {s : Stats} (hI : Inv s) (v : Variant) (hn : 0 < s.numGames)
    (f : Feature) (hf : f ∈ Aggression.features v) (e : PyErr) (he : f.func s = .error e) :
    getAggressionScore v s = .error .zeroDivision := by
  have hspec := getAggressionScore_spec hI v
  cases hg : getAggressionScore v s with
  | error e' => rw [hspec.2.2.1 e' hg]
  | ok o =>
    exfalso
    unfold getAggressionScore at hg
    rw [if_neg (by omega)] at hg
    cases hsl : scoreLoop s (Aggression.features v) (Q.nat 0) with
    | error e' => simp only [hsl, bind, Except.bind] at hg; cases hg
    | ok r =>
      obtain ⟨x, hx⟩ := scoreLoop_ok_features s _ _ r hsl f hf
      rw [hx] at he; cases he

theorem getAggressionScore_current_raises {s : Stats} (hI : Inv s) (hn : 0 < s.numGames)
    (hz : s.totalCaptures = 0 ∨ s.totalNoncaptures = 0) :
    getAggressionScore .current s = .error .zeroDivision := by
  rcases hz with hz | hz
  · refine getAggressionScore_error_of_feature hI .current hn
      ⟨Q.nat 2, "Capture early", Aggression.featureCaptureEarly .current⟩ (by simp [Aggression.features])
      .zeroDivision ?_
    show Aggression.featureCaptureEarly .current s = _
    rw [aggr_captureEarly_eq, if_neg (by simp), hz, weighted3_zero]
  · refine getAggressionScore_error_of_feature hI .current hn
      ⟨Q.nat 2, "Move near king", Aggression.featureMoveNearKing .current⟩ (by simp [Aggression.features])
      .zeroDivision ?_
    show Aggression.featureMoveNearKing .current s = _
    rw [moveNearKing_eq, if_neg (by simp), hz, nearKing_zero _ hI.step.lenNCD]

end Rawr.Style
