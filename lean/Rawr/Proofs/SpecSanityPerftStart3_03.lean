import Rawr.Proofs.SpecSanityPerftDefs
/-! perft of the start position, depth 3, slice 03: the subtree of first move `.normal 6 23 none` (kernel-evaluated). -/
namespace Rawr.SpecS
open Rawr.Spec

theorem start3_03 : leaves (apply stdStart (.normal 6 23 none)) 2 = 400 := by decide +kernel

end Rawr.SpecS
