import Rawr.Proofs.GenShapeMove
import Rawr.Model.UciMove
/-! Helpers for C09: the printed destination square, injectivity of the pieces of the notation. -/
set_option linter.unusedSimpArgs false
namespace Rawr
open Rawr.Position Rawr.Spec Rawr.ZH

/-- the destination square that is printed: for a castling move (= king takes own rook, `decodeMove`)
without `UCI_Chess960` the king's target g1 / c1 (mover-relative 6 / 2), otherwise `dst`. -/
def uciDst (p : Position) (m : Mv) : Nat :=
  match decodeMove p m with
  | .castle ks => if p.frc then m.dst else (if ks then 6 else 2)
  | .normal _ _ _ => m.dst

/-- conventional castling geometry: each present right of the mover has the king on e1 and the rook on h1 / a1. -/
def StandardGeometry (p : Position) : Prop :=
  (p.usK = true → lsb (p.p5 &&& p.c0) = 4 ∧ p.cf0 = 7) ∧ (p.usQ = true → lsb (p.p5 &&& p.c0) = 4 ∧ p.cf1 = 0)

instance (p : Position) : Decidable (StandardGeometry p) := by unfold StandardGeometry; infer_instance

theorem sqName_table : ∀ s : Fin 64, sqName s.val =
    [['a','b','c','d','e','f','g','h'].getD (s.val % 8) ' ', ['1','2','3','4','5','6','7','8'].getD (s.val / 8) ' '] := by
  decide

theorem sqName_inj : ∀ s t : Fin 64, sqName s.val = sqName t.val → s = t := by decide +kernel

theorem promoChars_inj : ∀ a b : Fin 7, a.val ≠ 0 → a.val ≠ 5 → b.val ≠ 0 → b.val ≠ 5 →
    promoChars a.val = promoChars b.val → a = b := by decide

theorem absSq_inj {b : Bool} {s t : Nat} (h : absSq b s = absSq b t) : s = t := by
  cases b
  · exact h
  · simp only [absSq, if_true] at h
    have := congrArg (· ^^^ 56) h
    simpa [xor56_xor56] using this

theorem absSq_lt {b : Bool} {s : Nat} (h : s < 64) : absSq b s < 64 := by
  cases b
  · exact h
  · exact xor56_lt h

/-- the three parts of the notation determine the squares and the promotion piece. -/
theorem uci_parts_inj {a b c a' b' c' : Nat} (ha : a < 64) (hb : b < 64) (ha' : a' < 64) (hb' : b' < 64)
    (hc : c = 6 ∨ c = 1 ∨ c = 2 ∨ c = 3 ∨ c = 4) (hc' : c' = 6 ∨ c' = 1 ∨ c' = 2 ∨ c' = 3 ∨ c' = 4)
    (h : sqName a ++ sqName b ++ promoChars c = sqName a' ++ sqName b' ++ promoChars c') :
    a = a' ∧ b = b' ∧ c = c' := by
  simp only [sqName, List.cons_append, List.nil_append, List.cons.injEq] at h
  obtain ⟨h1, h2, h3, h4, h5⟩ := h
  have e1 : sqName a = sqName a' := by simp only [sqName, h1, h2]
  have e2 : sqName b = sqName b' := by simp only [sqName, h3, h4]
  have r1 := sqName_inj ⟨a, ha⟩ ⟨a', ha'⟩ e1
  have r2 := sqName_inj ⟨b, hb⟩ ⟨b', hb'⟩ e2
  have r3 := promoChars_inj ⟨c, by omega⟩ ⟨c', by omega⟩ (by simp only; omega) (by simp only; omega)
    (by simp only; omega) (by simp only; omega) h5
  simp only [Fin.mk.injEq] at r1 r2 r3
  exact ⟨r1, r2, r3⟩

/-- description of the printed destination of a generated move. -/
theorem uciDst_cases {p : Position} {g : GMv} (h : GenOk p g) :
    (p.c0.isSet g.mv.dst = false ∧ uciDst p g.mv = g.mv.dst) ∨
    (g.piece = 5 ∧ IsCastleK p g.mv ∧ uciDst p g.mv = if p.frc then g.mv.dst else 6) ∨
    (g.piece = 5 ∧ IsCastleQ p g.mv ∧ uciDst p g.mv = if p.frc then g.mv.dst else 2) := by
  by_cases hd : p.c0.isSet g.mv.dst = true
  · obtain ⟨h5, hK | hQ⟩ := h.dst_own hd
    · refine Or.inr (Or.inl ⟨h5, hK, ?_⟩)
      have hlt := hK.2.2.2.2.2.1
      simp [uciDst, decodeMove, hd, hlt]
    · refine Or.inr (Or.inr ⟨h5, hQ, ?_⟩)
      have hlt := hQ.2.2.2.2.2.1
      have : ¬ g.mv.src < g.mv.dst := by omega
      simp [uciDst, decodeMove, hd, this]
  · have hd' : p.c0.isSet g.mv.dst = false := by simpa using hd
    exact Or.inl ⟨hd', by simp [uciDst, decodeMove, hd']⟩

theorem uciDst_lt {p : Position} {g : GMv} (h : GenOk p g) : uciDst p g.mv < 64 := by
  have := h.dst_lt
  rcases uciDst_cases h with ⟨_, e⟩ | ⟨_, _, e⟩ | ⟨_, _, e⟩ <;> rw [e] <;> (try split) <;> omega

/-- `Mv::to_uci` prints source, (printed) destination, promotion letter. -/
theorem toUci_format {p : Position} {g : GMv} (h : GenOk p g) :
    toUciChars p g.mv = sqName (absSq p.black g.mv.src) ++ sqName (absSq p.black (uciDst p g.mv)) ++
      promoChars g.mv.promo := by
  have key : (if (!p.frc && p.c0.isSet g.mv.dst) = true then
      (if fileOf g.mv.dst > fileOf g.mv.src then 6 else 2) else g.mv.dst) = uciDst p g.mv := by
    rcases uciDst_cases h with ⟨hd, e⟩ | ⟨_, hK, e⟩ | ⟨_, hQ, e⟩
    · rw [e, hd]; simp
    · obtain ⟨_, _, hdst, hcf, hrook, hlt, _⟩ := hK
      have hd : p.c0.isSet g.mv.dst = true := by
        rw [BitVec.getLsbD_and, Bool.and_eq_true] at hrook; exact hrook.1
      have h8 : g.mv.dst < 8 := by rw [hdst]; simp only [fromCoords]; omega
      have hf : fileOf g.mv.dst > fileOf g.mv.src := by unfold fileOf; omega
      rw [e, hd]
      cases p.frc <;> simp [hf]
    · obtain ⟨_, _, hdst, hcf, hrook, hlt, hk8, _⟩ := hQ
      have hd : p.c0.isSet g.mv.dst = true := by
        rw [BitVec.getLsbD_and, Bool.and_eq_true] at hrook; exact hrook.1
      have hf : ¬ fileOf g.mv.dst > fileOf g.mv.src := by unfold fileOf; omega
      rw [e, hd]
      cases p.frc <;> simp [hf]
  unfold toUciChars
  simp only [key]
  cases p.black <;> rfl

theorem adj_e1 : ∀ d : Fin 64, (adjacent (bit 4)).getLsbD d.val = true → d.val ≠ 6 ∧ d.val ≠ 2 := by decide

theorem find?_unique {α : Type} {l : List α} {q : α → Bool} {m : α} (hm : m ∈ l) (hq : q m = true)
    (hu : ∀ x ∈ l, q x = true → x = m) : l.find? q = some m := by
  induction l with
  | nil => cases hm
  | cons x xs ih =>
    rw [List.find?_cons]
    cases hx : q x
    · simp only
      rcases List.mem_cons.mp hm with e | hm'
      · rw [← e, hq] at hx; cases hx
      · exact ih hm' (fun y hy => hu y (List.mem_cons_of_mem _ hy))
    · simp only
      rw [hu x List.mem_cons_self hx]

end Rawr
