import Rawr.Spec.Chess
import Rawr.Model.Zobrist
/-! Specification of the position key on absolute positions. Only the key-table record `ZKeys` (and
`BB = BitVec 64`) is taken from the model; no model code is used. The key is, by construction, a function
of piece placement, side to move, castling rights (as booleans) and the en-passant FILE. -/
namespace Rawr.Spec

def kindIndex : Kind → Nat
  | .pawn => 0 | .knight => 1 | .bishop => 2 | .rook => 3 | .queen => 4 | .king => 5

/-- index of the key of piece `pc` standing on absolute square `s`: colour*384 + kind*64 + square. -/
def pieceKeyIndex (pc : Piece) (s : Nat) : Nat := (if pc.white then 0 else 384) + kindIndex pc.kind * 64 + s

/-- XOR of: the key of every piece on its square; the en-passant file key if an en-passant square is
set; one key per castling right present (white K,Q = 0,1; black k,q = 2,3); the turn key if Black is to move. -/
def zobristAbs (K : ZKeys) (a : APos) : BB :=
  let h : BB := squares.foldl (fun h s =>
    match a.board s with
    | some pc => h ^^^ K.piece (pieceKeyIndex pc s)
    | none => h) 0#64
  let h := match a.ep with | some e => h ^^^ K.ep (e % 8) | none => h
  let h := if a.wK.isSome then h ^^^ K.castling 0 else h
  let h := if a.wQ.isSome then h ^^^ K.castling 1 else h
  let h := if a.bK.isSome then h ^^^ K.castling 2 else h
  let h := if a.bQ.isSome then h ^^^ K.castling 3 else h
  if a.whiteToMove then h else h ^^^ K.turn

end Rawr.Spec
