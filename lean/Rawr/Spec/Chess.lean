/-!
# Specification of the rules of chess and Chess960 — coordinate based, no bit tricks

This file is the oracle. It shares no code with `Rawr/Model`. A board is a function from squares
(`file + 8 * rank`, white's first rank is rank 0) to optional pieces; positions are *absolute*
(not mover-relative). Everything is executable.
-/
namespace Rawr.Spec

inductive Kind where
  | pawn | knight | bishop | rook | queen | king
  deriving DecidableEq, Repr, Inhabited

structure Piece where
  white : Bool
  kind : Kind
  deriving DecidableEq, Repr, Inhabited

abbrev Board := Nat → Option Piece

/-- Absolute position. A castling right is `some f` = "may castle with the rook on file `f`". -/
structure APos where
  board : Board
  whiteToMove : Bool
  wK : Option Nat
  wQ : Option Nat
  bK : Option Nat
  bQ : Option Nat
  ep : Option Nat
  half : Int
  full : Int

def file (s : Nat) : Int := (s % 8 : Nat)
def rank (s : Nat) : Int := (s / 8 : Nat)
def onBoard (f r : Int) : Bool := 0 ≤ f && f < 8 && 0 ≤ r && r < 8
def sq (f r : Int) : Nat := (f + 8 * r).toNat
def squares : List Nat := List.range 64

def sgn (x : Int) : Int := if x > 0 then 1 else if x < 0 then -1 else 0

/-- every square strictly between `s` and `t` (which must be aligned) is empty. -/
def clearBetween (b : Board) (s t : Nat) : Bool :=
  let df := sgn (file t - file s)
  let dr := sgn (rank t - rank s)
  let n := max (file t - file s).natAbs (rank t - rank s).natAbs
  (List.range (n - 1)).all fun k => (b (sq (file s + df * (k + 1)) (rank s + dr * (k + 1)))).isNone

/-- does the piece `pc` standing on `s` attack square `t` on board `b`? -/
def pieceAttacks (b : Board) (s : Nat) (pc : Piece) (t : Nat) : Bool :=
  let df := file t - file s
  let dr := rank t - rank s
  match pc.kind with
  | .pawn => df.natAbs == 1 && dr == (if pc.white then 1 else -1)
  | .knight => (df.natAbs == 1 && dr.natAbs == 2) || (df.natAbs == 2 && dr.natAbs == 1)
  | .king => max df.natAbs dr.natAbs == 1
  | .bishop => s != t && df.natAbs == dr.natAbs && clearBetween b s t
  | .rook => s != t && (df == 0 || dr == 0) && clearBetween b s t
  | .queen => s != t && (df.natAbs == dr.natAbs || df == 0 || dr == 0) && clearBetween b s t

/-- is square `t` attacked by some piece of colour `white`? -/
def attackedBy (b : Board) (white : Bool) (t : Nat) : Bool :=
  squares.any fun s => match b s with
    | some pc => pc.white == white && pieceAttacks b s pc t
    | none => false

def kingSquares (b : Board) (white : Bool) : List Nat :=
  squares.filter fun s => b s == some ⟨white, .king⟩

def inCheck (b : Board) (white : Bool) : Bool :=
  (kingSquares b white).any fun k => attackedBy b (!white) k

inductive Move where
  | normal (src dst : Nat) (promo : Option Kind)
  | castle (kingSide : Bool)
  deriving DecidableEq, Repr, Inhabited

def homeRank (white : Bool) : Int := if white then 0 else 7
def right (p : APos) (white kingSide : Bool) : Option Nat :=
  match white, kingSide with
  | true, true => p.wK | true, false => p.wQ | false, true => p.bK | false, false => p.bQ

def setSq (b : Board) (s : Nat) (v : Option Piece) : Board := fun x => if x = s then v else b x

def promoKinds : List Kind := [.queen, .rook, .bishop, .knight]

/-- pseudo-legal non-castling moves of the piece on `s` (side to move). -/
def pseudoFrom (p : APos) (s : Nat) : List Move :=
  match p.board s with
  | none => []
  | some pc =>
    if pc.white != p.whiteToMove then [] else
    match pc.kind with
    | .pawn =>
      let dir : Int := if pc.white then 1 else -1
      let startRank : Int := if pc.white then 1 else 6
      let lastRank : Int := if pc.white then 7 else 0
      let withPromo (t : Nat) : List Move :=
        if rank t == lastRank then promoKinds.map fun k => Move.normal s t (some k)
        else [Move.normal s t none]
      let push1 := sq (file s) (rank s + dir)
      let pushes :=
        if onBoard (file s) (rank s + dir) && (p.board push1).isNone then
          withPromo push1 ++
          (if rank s == startRank && (p.board (sq (file s) (rank s + 2 * dir))).isNone
           then [Move.normal s (sq (file s) (rank s + 2 * dir)) none] else [])
        else []
      let caps := ([-1, 1] : List Int).flatMap fun df =>
        if onBoard (file s + df) (rank s + dir) then
          let t := sq (file s + df) (rank s + dir)
          match p.board t with
          | some q => if q.white != pc.white then withPromo t else []
          | none => if p.ep == some t then [Move.normal s t none] else []
        else []
      pushes ++ caps
    | _ =>
      (squares.filter fun t => pieceAttacks p.board s pc t &&
          (match p.board t with | some q => q.white != pc.white | none => true)).map
        fun t => Move.normal s t none

/-- the successor position prescribed by the rules. -/
def apply (p : APos) (m : Move) : APos :=
  let w := p.whiteToMove
  let hr := homeRank w
  let lostBy (white kingSide : Bool) (src dst : Nat) (kingMoved : Bool) : Option Nat :=
    match right p white kingSide with
    | none => none
    | some f =>
      let rsq := sq f (homeRank white)
      if (white == w && kingMoved) || src == rsq || dst == rsq then none else some f
  match m with
  | .normal s t promo =>
    match p.board s with
    | none => p
    | some pc =>
      let isPawn := pc.kind == .pawn
      let isCapture := (p.board t).isSome
      let isEp := isPawn && file s != file t && !isCapture
      let b := setSq p.board s none
      let b := if isEp then setSq b (sq (file t) (rank s)) none else b
      let b := setSq b t (some (match promo with | some k => ⟨pc.white, k⟩ | none => pc))
      let dbl := isPawn && (rank t - rank s).natAbs == 2
      let km := pc.kind == .king
      { board := b, whiteToMove := !w,
        wK := lostBy true true s t km, wQ := lostBy true false s t km,
        bK := lostBy false true s t km, bQ := lostBy false false s t km,
        ep := if dbl then some (sq (file s) ((rank s + rank t) / 2)) else none,
        half := if isPawn || isCapture || isEp then 0 else p.half + 1,
        full := if w then p.full else p.full + 1 }
  | .castle ks =>
    match right p w ks, kingSquares p.board w with
    | some rf, k :: _ =>
      let rsq := sq rf hr
      let kTo := sq (if ks then 6 else 2) hr
      let rTo := sq (if ks then 5 else 3) hr
      let b := setSq (setSq p.board k none) rsq none
      let b := setSq (setSq b kTo (some ⟨w, .king⟩)) rTo (some ⟨w, .rook⟩)
      { board := b, whiteToMove := !w,
        wK := if w then none else p.wK, wQ := if w then none else p.wQ,
        bK := if w then p.bK else none, bQ := if w then p.bQ else none,
        ep := none, half := p.half + 1, full := if w then p.full else p.full + 1 }
    | _, _ => p

/-- squares from `a` to `b` on one rank, both inclusive. -/
def span (a b : Nat) : List Nat :=
  let lo := min a b
  let hi := max a b
  (List.range (hi - lo + 1)).map (· + lo)

/-- castling per the FIDE / Chess960 text. -/
def castleLegal (p : APos) (ks : Bool) : Bool :=
  let w := p.whiteToMove
  let hr := homeRank w
  match right p w ks, kingSquares p.board w with
  | some rf, [k] =>
    let rsq := sq rf hr
    let kTo := sq (if ks then 6 else 2) hr
    let rTo := sq (if ks then 5 else 3) hr
    rank k == hr && p.board rsq == some ⟨w, .rook⟩ &&
    (if ks then file k < rf else (rf : Int) < file k) &&
    -- not in check
    !attackedBy p.board (!w) k &&
    -- every square the king or the rook travels over or lands on is empty apart from those two
    ((span k kTo ++ span rsq rTo).all fun s => s == k || s == rsq || (p.board s).isNone) &&
    -- no square of the king's walk is attacked
    ((span k kTo).all fun s => !attackedBy p.board (!w) s) &&
    -- the final position is legal
    !inCheck (apply p (.castle ks)).board w
  | _, _ => false

/-- all legal moves, in a fixed order, without repetition. -/
def legalMoves (p : APos) : List Move :=
  ((squares.flatMap (pseudoFrom p)).filter fun m => !inCheck (apply p m).board p.whiteToMove) ++
  ([true, false].filter (castleLegal p)).map Move.castle

def isCaptureMove (p : APos) (m : Move) : Bool :=
  match m with
  | .normal s t _ =>
    (p.board t).isSome || (match p.board s with
      | some pc => pc.kind == .pawn && file s != file t | none => false)
  | .castle _ => false

def leaves (p : APos) : Nat → Nat
  | 0 => 1
  | d + 1 => ((legalMoves p).map fun m => leaves (apply p m) d).sum

def countPieces (b : Board) (f : Piece → Bool) : Nat :=
  (squares.filter fun s => match b s with | some pc => f pc | none => false).length

/-- V.2–V.7 of DESIGN.md §4 (bitboard consistency V.1 and the key V.8 concern the engine's
representation and are stated on the model side). -/
def Valid (p : APos) : Bool :=
  let b := p.board
  countPieces b (fun pc => pc == ⟨true, .king⟩) == 1 &&
  countPieces b (fun pc => pc == ⟨false, .king⟩) == 1 &&
  (squares.all fun s => match b s with
    | some pc => !(pc.kind == .pawn && (rank s == 0 || rank s == 7)) | none => true) &&
  !inCheck b (!p.whiteToMove) &&
  ([(true, true), (true, false), (false, true), (false, false)].all fun (w, ks) =>
    match right p w ks with
    | none => true
    | some f =>
      f < 8 && b (sq f (homeRank w)) == some ⟨w, .rook⟩ &&
      (match kingSquares b w with
       | [k] => rank k == homeRank w && (if ks then file k < f else (f : Int) < file k)
       | _ => false)) &&
  (match p.ep with
   | none => true
   | some e =>
     let w := p.whiteToMove
     rank e == (if w then 5 else 2) && (b e).isNone &&
     b (sq (file e) (if w then 4 else 3)) == some ⟨!w, .pawn⟩) &&
  0 ≤ p.half && 1 ≤ p.full

/-- E of DESIGN.md §4: the en-passant state is consistent with a double push having just been played. -/
def EpConsistent (p : APos) : Bool :=
  match p.ep with
  | none => true
  | some e =>
    let w := p.whiteToMove
    let origin := sq (file e) (if w then 6 else 1)
    let pushed := sq (file e) (if w then 4 else 3)
    (p.board origin).isNone &&
    -- put the pawn back: the side now to move must not have been in check before the push
    !inCheck (setSq (setSq p.board pushed none) origin (some ⟨!w, .pawn⟩)) w

/-- M of DESIGN.md §4. -/
def LegalMaterial (p : APos) : Bool :=
  [true, false].all fun w =>
    let n (k : Kind) := countPieces p.board (fun pc => pc == ⟨w, k⟩)
    countPieces p.board (fun pc => pc.white == w) ≤ 16 && n .pawn ≤ 8 &&
    (n .knight - 2) + (n .bishop - 2) + (n .rook - 2) + (n .queen - 1) ≤ 8 - n .pawn

def isMate (p : APos) : Bool := (legalMoves p).isEmpty && inCheck p.board p.whiteToMove
def isStalemate (p : APos) : Bool := (legalMoves p).isEmpty && !inCheck p.board p.whiteToMove

end Rawr.Spec
