import Rawr.Spec.Chess
/-! Specification-side FEN / X-FEN printer (canonical strings for C06/C07). -/
namespace Rawr.Spec

def pieceLetter (pc : Piece) : Char :=
  let c := match pc.kind with
    | .pawn => 'p' | .knight => 'n' | .bishop => 'b' | .rook => 'r' | .queen => 'q' | .king => 'k'
  if pc.white then c.toUpper else c

def digitChar (n : Nat) : Char := Char.ofNat ('0'.toNat + n)

/-- one rank, files a..h, with run-length digits. -/
def printRank (b : Board) (r : Nat) : List Char :=
  let rec go (f : Nat) (fuel : Nat) (run : Nat) (acc : List Char) : List Char :=
    match fuel with
    | 0 => if run > 0 then acc ++ [digitChar run] else acc
    | fuel + 1 =>
      match b (f + 8 * r) with
      | none => go (f + 1) fuel (run + 1) acc
      | some pc => go (f + 1) fuel 0 ((if run > 0 then acc ++ [digitChar run] else acc) ++ [pieceLetter pc])
  go 0 8 0 []

def printBoard (b : Board) : List Char :=
  (List.range 8).foldl (fun acc i => acc ++ printRank b (7 - i) ++ (if i < 7 then ['/'] else [])) []

def natChars (n : Nat) : List Char := (toString n).toList
def intChars (i : Int) : List Char := (toString i).toList

/-- is the rook on file `f` the outermost rook of `white` on that wing of its home rank? -/
def outermost (b : Board) (white ks : Bool) (f : Nat) : Bool :=
  let hr := (homeRank white).toNat
  (List.range 8).all fun g =>
    if (if ks then g > f else g < f) then b (g + 8 * hr) != some ⟨white, .rook⟩ else true

inductive CastleStyle where
  | xfen      -- K/Q/k/q when the rook is the outermost on its wing, the file letter otherwise
  | shredder  -- always file letters
  | kqkq      -- always K/Q/k/q

def castleField (p : APos) (st : CastleStyle) : List Char :=
  let one (o : Option Nat) (white ks : Bool) : List Char :=
    match o with
    | none => []
    | some f =>
      let letter := if ks then 'k' else 'q'
      let fileL := Char.ofNat ('a'.toNat + f)
      let c := match st with
        | .xfen => if outermost p.board white ks f then letter else fileL
        | .shredder => fileL
        | .kqkq => letter
      [if white then c.toUpper else c]
  let s := one p.wK true true ++ one p.wQ true false ++ one p.bK false true ++ one p.bQ false false
  if s.isEmpty then ['-'] else s

def sqChars (s : Nat) : List Char := [Char.ofNat ('a'.toNat + s % 8), Char.ofNat ('1'.toNat + s / 8)]

/-- the FEN of an absolute position. -/
def printFen (p : APos) (st : CastleStyle) : List Char :=
  printBoard p.board ++ [' ', if p.whiteToMove then 'w' else 'b', ' '] ++ castleField p st ++ [' '] ++
  (match p.ep with | some e => sqChars e | none => ['-']) ++ [' '] ++ intChars p.half ++ [' '] ++ intChars p.full

end Rawr.Spec
