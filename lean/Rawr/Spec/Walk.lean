import Rawr.Spec.Chess
/-!
# Coordinate specification of slider attacks: walking a ray

No bit tricks, shares no code with `Rawr/Model`. Squares are `file + 8 * rank` as in `Spec/Chess.lean`.
-/
namespace Rawr.Spec

/-- From the (file, rank) point `(f, r)` take at most `n` steps of `(df, dr)`: the squares reached while
on the board, up to and including the first occupied one. -/
def walkFrom (df dr : Int) (occ : Nat → Bool) : Nat → Int → Int → List Nat
  | 0, _, _ => []
  | n + 1, f, r =>
    if onBoard (f + df) (r + dr) then
      let t := sq (f + df) (r + dr)
      if occ t then [t] else t :: walkFrom df dr occ n (f + df) (r + dr)
    else []

/-- The squares reached from `s` stepping `(df, dr)` while on the board, up to and including the first
occupied one (7 steps always leave an 8 × 8 board: `Proofs/WalkFuel.lean: walk_fuel` proves that any
larger step bound gives the same list). -/
def walk (df dr : Int) (s : Nat) (occ : Nat → Bool) : List Nat :=
  walkFrom df dr occ 7 (file s) (rank s)

/-- the four bishop directions / the four rook directions, as (file step, rank step). -/
def diag : List (Int × Int) := [(1, 1), (-1, 1), (1, -1), (-1, -1)]
def orth : List (Int × Int) := [(1, 0), (-1, 0), (0, 1), (0, -1)]

/-- all squares walked from `s` in the given directions. -/
def walkList (dirs : List (Int × Int)) (s : Nat) (occ : Nat → Bool) : List Nat :=
  dirs.flatMap fun d => walk d.1 d.2 s occ

/-- membership predicate of the attack set of a slider on `s`. -/
def walkSet4 (dirs : List (Int × Int)) (s : Nat) (occ : Nat → Bool) (t : Nat) : Bool :=
  dirs.any fun d => (walk d.1 d.2 s occ).contains t

/-- a list of squares as a 64-bit set. -/
def setBB (l : List Nat) : BitVec 64 := l.foldr (fun t a => (1#64 <<< t) ||| a) 0#64

/-- the attack set of a slider on `s` as a 64-bit set, the occupancy being given as a 64-bit set. -/
def walkBB (dirs : List (Int × Int)) (s : Nat) (occ : BitVec 64) : BitVec 64 :=
  setBB (walkList dirs s occ.getLsbD)

/-- coordinate geometry of the leapers: `t` is a knight's / king's / pawn-capture move away from `s`. -/
def knightStep (s t : Nat) : Bool :=
  let df := file t - file s
  let dr := rank t - rank s
  (df.natAbs == 1 && dr.natAbs == 2) || (df.natAbs == 2 && dr.natAbs == 1)
def kingStep (s t : Nat) : Bool :=
  max (file t - file s).natAbs (rank t - rank s).natAbs == 1
/-- `up = true`: towards higher ranks. -/
def pawnStep (up : Bool) (s t : Nat) : Bool :=
  (file t - file s).natAbs == 1 && rank t - rank s == (if up then 1 else -1)

/-- the set of the squares `t` of the board with `p t`, as a 64-bit set. -/
def geomBB (p : Nat → Bool) : BitVec 64 := setBB (squares.filter p)

end Rawr.Spec
