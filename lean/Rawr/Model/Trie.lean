/-! Binary radix trie used to hold the translated `MAGIC_MOVES` artefact as a *literal*
(kernel evaluation can look up in a literal cheaply; it cannot build big tables). -/
namespace Rawr

inductive Trie where
  | E : Trie
  | L : Nat → Trie
  | N : Trie → Trie → Trie

namespace Trie
/-- `get t d i` : entry `i` of a trie of depth `d` (most significant of the low `d` bits first);
`none` when the slot is absent (index beyond the table). -/
def get : Trie → Nat → Nat → Option Nat
  | E, _, _ => none
  | L v, _, _ => some v
  | N _ _, 0, _ => none
  | N l r, d + 1, i => if i.testBit d then get r d i else get l d i
end Trie
end Rawr
