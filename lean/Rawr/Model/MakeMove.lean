import Rawr.Model.Zobrist
import Rawr.Model.Attacks
/-! Model of src/chess/makemove.rs, makenull.rs, after_move.rs, after_null.rs, validate.rs.
`none` = the optimised build panics (an `unwrap` on a missing piece / en-passant square).
`debug_assert!`s are modelled separately (`makemoveAsserts`). -/
namespace Rawr
namespace Position

/-- `validate()`: `none` = Ok, `some msg` = Err. -/
def validate (p : Position) : Option String :=
  if (p.p0 &&& 0xFF000000000000FF#64).isOcc then some "Pawns on ranks 1 or 8"
  else if (p.white &&& p.blackBB).isOcc then some "Colour bitboard overlap"
  else if (p.p0 &&& p.p1).isOcc then some "pawn knight overlap"
  else if (p.p0 &&& p.p2).isOcc then some "pawn bishop overlap"
  else if (p.p0 &&& p.p3).isOcc then some "pawn rook overlap"
  else if (p.p0 &&& p.p4).isOcc then some "pawn queen overlap"
  else if (p.p0 &&& p.p5).isOcc then some "pawn king overlap"
  else if (p.p1 &&& p.p2).isOcc then some "knight bishop overlap"
  else if (p.p1 &&& p.p3).isOcc then some "knight rook overlap"
  else if (p.p1 &&& p.p4).isOcc then some "knight queen overlap"
  else if (p.p1 &&& p.p5).isOcc then some "knight king overlap"
  else if (p.p2 &&& p.p3).isOcc then some "bishop rook overlap"
  else if (p.p2 &&& p.p4).isOcc then some "bishop queen overlap"
  else if (p.p2 &&& p.p5).isOcc then some "bishop king overlap"
  else if (p.p3 &&& p.p4).isOcc then some "rook queen overlap"
  else if (p.p3 &&& p.p5).isOcc then some "rook king overlap"
  else if (p.p4 &&& p.p5).isOcc then some "queen king overlap"
  else
    let epErr : Option String :=
      match p.ep with
      | none => none
      | some ep =>
        let bb := bit (ep % 64)   -- optimised build masks the shift; the checked build traps for ep ≥ 64
        if rankOf ep != 5 then some "EP square not on 6th rank"
        else if (south bb &&& p.c1 &&& p.p0).isEmpty then some "No pawn to create EP square"
        else if (bb &&& p.occ).isOcc then some "EP square must be empty"
        else none
    match epErr with
    | some e => some e
    | none =>
      if count (p.white &&& p.p5) != 1 then some "Must be one white king"
      else if count (p.blackBB &&& p.p5) != 1 then some "Must be one black king"
      else if p.halfmoves < 0 then some "halfmove counter out of range"
      else if p.fullmoves < 1 then some "fullmoves counter out of range"
      else
        let usK := lsb (p.c0 &&& p.p5)
        let themK := lsb (p.c1 &&& p.p5)
        let usR := p.c0 &&& p.p3
        let themR := p.c1 &&& p.p3
        if p.usK && rankOf usK != 0 then some "Castling permission while not on home rank"
        else if p.usQ && rankOf usK != 0 then some "Castling permission while not on home rank"
        else if p.themK && rankOf themK != 7 then some "Castling permission while not on home rank"
        else if p.themQ && rankOf themK != 7 then some "Castling permission while not on home rank"
        else if p.usK && !usR.isSet (fromCoords p.cf0 0) then some "Castling rook missing"
        else if p.usQ && !usR.isSet (fromCoords p.cf1 0) then some "Castling rook missing"
        else if p.themK && !themR.isSet (fromCoords p.cf2 7) then some "Castling rook missing"
        else if p.themQ && !themR.isSet (fromCoords p.cf3 7) then some "Castling rook missing"
        else if p.isSqAttacked themK false then some "Opponent king is capturable"
        else none

/-- `makemove::<UPDATE_HASH>` (the position after the move, already flipped). -/
def makemove (p : Position) (m : Mv) (updateHash : Bool) : Option Position := do
  let bbFrom := bit m.src
  let bbTo := bit m.dst
  let piece ← p.pieceOn m.src
  let captured := p.pieceOn m.dst
  let ksqUs := lsb (p.c0 &&& p.p5)
  let ksqThem := lsb (p.c1 &&& p.p5)
  let kscUs := fromCoords p.cf0 0
  let qscUs := fromCoords p.cf1 0
  let kscThem := fromCoords p.cf2 7
  let qscThem := fromCoords p.cf3 7
  let hash ← if updateHash then p.predictHash m else pure p.hash
  -- relocate
  let s : Position := { p with hash := hash, c0 := p.c0 ^^^ (bbFrom ||| bbTo), halfmoves := p.halfmoves + 1 }
  let s := s.setPiece piece (s.piece piece ^^^ (bbFrom ||| bbTo))
  -- capture
  let s ← if s.c1.isSet m.dst then (do
      let c ← captured
      let s := { s with c1 := s.c1 ^^^ bbTo, halfmoves := 0 }
      pure (s.setPiece c (s.piece c ^^^ bbTo))) else pure s
  let s := if piece == 0 then { s with halfmoves := 0 } else s
  -- en passant
  let s ← if piece == 0 && fileOf m.src != fileOf m.dst && captured.isNone then (do
      let ep ← s.ep
      pure { s with c1 := s.c1 ^^^ south (bit ep), p0 := s.p0 ^^^ south (bit ep) }) else pure s
  -- double push
  let s := if piece == 0 && m.dst - m.src == 16 then { s with ep := some (m.dst - 8) } else { s with ep := none }
  -- castling
  let s :=
    if (s.p5 &&& s.p3).isOcc && m.dst > m.src then
      let s := { s with c0 := s.c0 ^^^ (bbFrom ||| bbTo), p5 := s.p5 ^^^ (bbFrom ||| bbTo) }
      let s := { s with c0 := s.c0 ^^^ bbFrom ^^^ bit 6, p5 := s.p5 ^^^ bbFrom ^^^ bit 6 }
      { s with c0 := s.c0 ^^^ bit kscUs ^^^ bit 5, p3 := s.p3 ^^^ bit kscUs ^^^ bit 5 }
    else if (s.p5 &&& s.p3).isOcc && m.dst < m.src then
      let s := { s with c0 := s.c0 ^^^ (bbFrom ||| bbTo), p5 := s.p5 ^^^ (bbFrom ||| bbTo) }
      let s := { s with c0 := s.c0 ^^^ bbFrom ^^^ bit 2, p5 := s.p5 ^^^ bbFrom ^^^ bit 2 }
      { s with c0 := s.c0 ^^^ bit qscUs ^^^ bit 3, p3 := s.p3 ^^^ bit qscUs ^^^ bit 3 }
    else s
  -- promotion
  let s := if m.promo != 6 then
      let s := { s with p0 := s.p0 ^^^ bbTo }
      s.setPiece m.promo (s.piece m.promo ^^^ bbTo)
    else s
  -- castling permissions
  let s := { s with
    usK := s.usK && (m.src != ksqUs && m.src != kscUs && m.dst != kscUs),
    usQ := s.usQ && (m.src != ksqUs && m.src != qscUs && m.dst != qscUs),
    themK := s.themK && (m.src != ksqThem && m.src != kscThem && m.dst != kscThem),
    themQ := s.themQ && (m.src != ksqThem && m.src != qscThem && m.dst != qscThem) }
  -- full-move number: one more after each move by Black
  let s := if s.black then { s with fullmoves := s.fullmoves + 1 } else s
  pure s.flip

/-- the `debug_assert!`s of makemove (checked build only). -/
def makemoveAsserts (p : Position) (m : Mv) (updateHash : Bool) : Bool :=
  m.src < 64 && m.dst < 64 && m.src != m.dst &&
  (p.pieceOn m.src).isSome && (p.pieceOn m.dst) != some 5 && m.promo != 0 && m.promo != 5 &&
  (match p.makemove m updateHash with
   | none => false
   | some s => (!updateHash || s.hash == s.calculateHash) && s.validate.isNone)

/-- `makenull`. -/
def makenull (p : Position) : Position :=
  let h := p.hash ^^^ genKeys.turn
  let h := match p.ep with | some e => h ^^^ genKeys.ep (fileOf e) | none => h
  { ({ p with hash := h }).flip with halfmoves := 0, ep := none }

def makenullAsserts (p : Position) : Bool :=
  let s := p.makenull
  s.hash == s.calculateHash && s.validate.isNone

end Position
end Rawr
