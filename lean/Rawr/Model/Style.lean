/-!
# Model of `/repo/tools/style/style.py` (the play-style tool)

Hand-written after the Python source; tied to it by `tools/style_corr.py`, which runs the real,
unmodified script (through the `pystub/chess` stand-in for python-chess) and this model (through the
`styledriver` executable) on the same games and compares every `Stats` field, `is_valid`, the error
class and the three scores.

* Python `int` counters are `Nat` (they only ever grow from 0); Python `float`s are exact rationals
  `Q` (`0.6 = 6/10`, …).  What the model therefore cannot exhibit is IEEE-754 rounding; the harness
  probes that separately on the real functions.
* The three partial operations of the script are explicit: `/` (`ZeroDivisionError`), list indexing
  (`IndexError`) and `assert` (`AssertionError`).  Every function that can raise returns
  `Except PyErr α`.
* A game is an *annotated game*: per ply exactly the facts that `analyse_game` asks python-chess
  for, plus the final piece counts and the `Result` header.  `analyse_pgn` only hands games with a
  result in `["1-0", "0-1", "1/2-1/2"]` to `analyse_game`, hence `Result` has three values and the
  `RuntimeError` of `analyse_game` is not reachable.  The other `RuntimeError` ("Invalid castling
  flags") is unreachable because `us_castled`/`them_castled` only hold 0, 1, 2 (`Castled`).
* Not modelled: `print_text` (dead code: its only call site is commented out), the `verbose` print
  loop (it re-evaluates the features that were already evaluated successfully and guards its only
  division with `score != 0.0`), `argparse`.
-/
namespace Rawr.Style

/-- the Python exceptions the tool can raise from arithmetic, `assert` and list indexing. -/
inductive PyErr where
  | zeroDivision
  | assertion
  | index
  deriving DecidableEq, Repr, Inhabited

/-! ## Rationals (core Lean only) -/

/-- `num / den`; every value built by the operations below from values with `den > 0` has `den > 0`. -/
structure Q where
  num : Int
  den : Nat
  deriving DecidableEq, Repr, Inhabited

namespace Q

def nat (n : Nat) : Q := ⟨n, 1⟩
/-- a decimal literal such as `0.25 = dec 25 100`. -/
def dec (n : Nat) (d : Nat) : Q := ⟨n, d⟩
def zero : Q := ⟨0, 1⟩
def one : Q := ⟨1, 1⟩

def add (a b : Q) : Q := ⟨a.num * b.den + b.num * a.den, a.den * b.den⟩
def mul (a b : Q) : Q := ⟨a.num * b.num, a.den * b.den⟩

/-- Python `a / b`. -/
def div (a b : Q) : Except PyErr Q :=
  if b.num = 0 then .error .zeroDivision
  else if 0 < b.num then .ok ⟨a.num * b.den, a.den * b.num.toNat⟩
  else .ok ⟨-(a.num * b.den), a.den * (-b.num).toNat⟩

/-- `a ≤ b` (for positive denominators). -/
def le (a b : Q) : Bool := decide (a.num * b.den ≤ b.num * a.den)

/-- Python `min(a, b)`: `b` if `b < a`, else `a`. -/
def min (a b : Q) : Q := if le a b then a else b

/-- `0.0 <= v and v <= 1.0`. -/
def inUnit (v : Q) : Bool := le zero v && le v one

end Q

/-! ## Lists with Python indexing (indices are never negative here) -/

def getAt (l : List Nat) (i : Nat) : Except PyErr Nat :=
  if h : i < l.length then .ok l[i] else .error .index

/-- `l[i] += 1`. -/
def incAt (l : List Nat) (i : Nat) : Except PyErr (List Nat) :=
  if h : i < l.length then .ok (l.set i (l[i] + 1)) else .error .index

/-- `sum(w[i] * x for i, x in enumerate(l))`, indices starting at `i`. -/
def enumDotFrom (w : List Nat) : Nat → List Nat → Except PyErr Nat
  | _, [] => .ok 0
  | i, x :: xs =>
    match getAt w i, enumDotFrom w (i + 1) xs with
    | .ok wi, .ok r => .ok (wi * x + r)
    | .error e, _ => .error e
    | _, .error e => .error e

def enumDot (w l : List Nat) : Except PyErr Nat := enumDotFrom w 0 l

/-- `sum(min(idx, c) * freq for idx, freq in enumerate(l))`, indices starting at `i`. -/
def enumMinSumFrom (c : Nat) : Nat → List Nat → Nat
  | _, [] => 0
  | i, x :: xs => Nat.min i c * x + enumMinSumFrom c (i + 1) xs

def enumMinSum (c : Nat) (l : List Nat) : Nat := enumMinSumFrom c 0 l

/-! ## python-chess constants and square functions -/

def PAWN : Nat := 1
def KNIGHT : Nat := 2
def BISHOP : Nat := 3
def ROOK : Nat := 4
def QUEEN : Nat := 5
def KING : Nat := 6

/-- `chess.WHITE = True`, `chess.BLACK = False`. -/
abbrev Color := Bool
def WHITE : Color := true
def BLACK : Color := false

abbrev Square := Fin 64

def squareFile (s : Square) : Nat := s.val % 8
def squareRank (s : Square) : Nat := s.val / 8
def absDiff (a b : Nat) : Nat := ((a : Int) - (b : Int)).natAbs
def squareDistance (a b : Square) : Nat :=
  Nat.max (absDiff (squareFile a) (squareFile b)) (absDiff (squareRank a) (squareRank b))

/-! ## `Stats` -/

structure Stats where
  numWins : Nat := 0
  numDraws : Nat := 0
  numLosses : Nat := 0
  numGames : Nat := 0
  castleFirst : Nat := 0
  castleSecond : Nat := 0
  castleNever : Nat := 0
  castleKing : Nat := 0
  castleQueen : Nat := 0
  castleSame : Nat := 0
  castleOpposite : Nat := 0
  totalCaptures : Nat := 0
  totalNoncaptures : Nat := 0
  totalMoves : Nat := 0
  checks : Nat := 0
  nonchecks : Nat := 0
  earlyCaptures : Nat := 0
  midCaptures : Nat := 0
  lateCaptures : Nat := 0
  extremeCaptures : Nat := 0
  captureDistance : List Nat := List.replicate 8 0
  noncaptureDistance : List Nat := List.replicate 8 0
  gameLength : List Nat := List.replicate 1024 0
  shortGames : Nat := 0
  mediumGames : Nat := 0
  longGames : Nat := 0
  extremeGames : Nat := 0
  noQueens : List Nat := List.replicate 1024 0
  totalTrades : Nat := 0
  earlyTrades : Nat := 0
  midTrades : Nat := 0
  lateTrades : Nat := 0
  numQvRR : Nat := 0
  numRRvQ : Nat := 0
  numQv3minor : Nat := 0
  num3minorvQ : Nat := 0
  numWinAhead : Nat := 0
  numWinEqual : Nat := 0
  numWinBehind : Nat := 0
  finalMaterial : List Nat := List.replicate 207 0
  earlyPawnPushes : List Nat := List.replicate 8 0
  midPawnPushes : List Nat := List.replicate 8 0
  latePawnPushes : List Nat := List.replicate 8 0
  totalPawnPushes : Nat := 0
  totalPawnPushesTowardsKing : Nat := 0
  numRookThreats : Nat := 0
  numBishopThreats : Nat := 0
  deriving DecidableEq, Repr, Inhabited

namespace Stats

/-- `Stats()`. -/
def fresh : Stats := {}

/-- `Stats.add_capture`. -/
def addCapture (s : Stats) (ply : Nat) : Stats :=
  let s := { s with totalCaptures := s.totalCaptures + 1, totalMoves := s.totalMoves + 1 }
  if ply < 30 then { s with earlyCaptures := s.earlyCaptures + 1 }
  else if ply < 50 then { s with midCaptures := s.midCaptures + 1 }
  else if ply < 70 then { s with lateCaptures := s.lateCaptures + 1 }
  else { s with extremeCaptures := s.extremeCaptures + 1 }

/-- `Stats.add_noncapture`. -/
def addNoncapture (s : Stats) : Stats :=
  { s with totalNoncaptures := s.totalNoncaptures + 1, totalMoves := s.totalMoves + 1 }

/-- the rank index used by `add_pawn_push`: `to_rank if side == chess.WHITE else 7 - to_rank`. -/
def relRank (side : Color) (to : Square) : Nat :=
  if side == WHITE then squareRank to else 7 - squareRank to

/-- `Stats.add_pawn_push`. -/
def addPawnPush (s : Stats) (ply : Nat) (to : Square) (side : Color) (enemyKsq : Square) :
    Except PyErr Stats := do
  let s := { s with totalPawnPushes := s.totalPawnPushes + 1 }
  let rank := relRank side to
  let s ←
    if ply < 40 then (incAt s.earlyPawnPushes rank).map fun l => { s with earlyPawnPushes := l }
    else if ply < 60 then (incAt s.midPawnPushes rank).map fun l => { s with midPawnPushes := l }
    else (incAt s.latePawnPushes rank).map fun l => { s with latePawnPushes := l }
  -- dx = file(to) - file(enemy_ksq); abs(dx) <= 1
  if absDiff (squareFile to) (squareFile enemyKsq) ≤ 1 then
    pure { s with totalPawnPushesTowardsKing := s.totalPawnPushesTowardsKing + 1 }
  else pure s

/-- `Stats.finish_game`. -/
def finishGame (s : Stats) (ply : Nat) : Except PyErr Stats := do
  let gl ← incAt s.gameLength ply
  let s := { s with gameLength := gl }
  if ply < 80 then pure { s with shortGames := s.shortGames + 1 }
  else if ply < 100 then pure { s with mediumGames := s.mediumGames + 1 }
  else if ply < 140 then pure { s with longGames := s.longGames + 1 }
  else pure { s with extremeGames := s.extremeGames + 1 }

/-- `Stats.queens_off`. -/
def queensOff (s : Stats) (ply : Nat) : Except PyErr Stats := do
  let nq ← incAt s.noQueens ply
  let s := { s with noQueens := nq, totalTrades := s.totalTrades + 1 }
  if ply < 40 then pure { s with earlyTrades := s.earlyTrades + 1 }
  else if ply < 60 then pure { s with midTrades := s.midTrades + 1 }
  else pure { s with lateTrades := s.lateTrades + 1 }

end Stats

/-- `is_valid`: the conditions in source order, with Python's short-circuit evaluation. -/
def isValid (s : Stats) : Except PyErr Bool :=
  if s.numGames ≠ s.numWins + s.numDraws + s.numLosses then .ok false
  else if s.totalMoves ≠ s.totalCaptures + s.totalNoncaptures then .ok false
  else if s.totalMoves ≠ s.checks + s.nonchecks then .ok false
  else if s.numGames ≠ s.numWins + s.numDraws + s.numLosses then .ok false
  else if s.numWins ≠ s.numWinAhead + s.numWinEqual + s.numWinBehind then .ok false
  else if s.numGames ≠ s.shortGames + s.mediumGames + s.longGames + s.extremeGames then .ok false
  else if s.totalCaptures ≠ s.earlyCaptures + s.midCaptures + s.lateCaptures + s.extremeCaptures then
    .ok false
  else
    let pair (l : List Nat) (k : Except PyErr Bool) : Except PyErr Bool :=
      -- `if l[0] > 0 or l[1] > 0: return False`
      match getAt l 0 with
      | .error e => .error e
      | .ok a =>
        if a > 0 then .ok false else
        match getAt l 1 with
        | .error e => .error e
        | .ok b => if b > 0 then .ok false else k
    pair s.earlyPawnPushes <| pair s.midPawnPushes <| pair s.latePawnPushes <|
      if s.totalPawnPushesTowardsKing > s.totalPawnPushes then .ok false else .ok true

/-! ## Scores -/

/-- Which text of the script is modelled.  `current` is `/repo/tools/style/style.py` as it stands:
`feature_capture_early` (both), `feature_capture_near_king` and `feature_move_near_king` divide by
`total_captures` / `total_noncaptures` unguarded.  `guarded` is the script with the proposed one-line
guards (`if stats.total_captures == 0: return 0.0`, resp. `total_noncaptures`) at the head of those four
functions, in the style of the neighbouring features. -/
inductive Variant where
  | current
  | guarded
  deriving DecidableEq, Repr, Inhabited

/-- a `(weight, name, func)` entry of a `features` list (the name only matters for printing). -/
structure Feature where
  weight : Q
  name : String
  func : Stats → Except PyErr Q

/-- the scoring loop shared by the three score functions:
```
score = 0.0
for weight, name, func in features:
    value = func(stats)
    assert(0.0 <= value and value <= 1.0)
    score += weight * value
```
-/
def scoreLoop (s : Stats) : List Feature → Q → Except PyErr Q
  | [], score => .ok score
  | f :: fs, score =>
    match f.func s with
    | .error e => .error e
    | .ok value =>
      if value.inUnit then scoreLoop s fs (score.add (f.weight.mul value)) else .error .assertion

/-- `sum([weight for weight, _, _ in features])`. -/
def weightSum (fs : List Feature) : Q := fs.foldl (fun acc f => acc.add f.weight) (Q.nat 0)

namespace Aggression

/-- `(0.6 * short + 0.25 * medium + 0.15 * long) / num_games / 0.6`. -/
def featureGameLength (s : Stats) : Except PyErr Q := do
  let x := (((Q.dec 6 10).mul (Q.nat s.shortGames)).add ((Q.dec 25 100).mul (Q.nat s.mediumGames))).add
    ((Q.dec 15 100).mul (Q.nat s.longGames))
  let y ← x.div (Q.nat s.numGames)
  y.div (Q.dec 6 10)

/-- `(0.6 * early + 0.25 * mid + 0.15 * late) / total_captures / 0.6`. -/
def featureCaptureEarly (v : Variant) (s : Stats) : Except PyErr Q :=
  if v = .guarded ∧ s.totalCaptures = 0 then .ok Q.zero
  else do
    let x := (((Q.dec 6 10).mul (Q.nat s.earlyCaptures)).add ((Q.dec 25 100).mul (Q.nat s.midCaptures))).add
      ((Q.dec 15 100).mul (Q.nat s.lateCaptures))
    let y ← x.div (Q.nat s.totalCaptures)
    y.div (Q.dec 6 10)

def nearKingWeights : List Nat := [0, 8, 4, 2, 1, 0, 0, 0]
/-- `max(weights)`. -/
def listMax (l : List Nat) : Nat := l.foldl Nat.max 0

def featureCaptureNearKing (v : Variant) (s : Stats) : Except PyErr Q :=
  if v = .guarded ∧ s.totalCaptures = 0 then .ok Q.zero
  else do
    let score ← enumDot nearKingWeights s.captureDistance
    let maxScore := listMax nearKingWeights * s.totalCaptures
    (Q.nat score).div (Q.nat maxScore)

def featureMoveNearKing (v : Variant) (s : Stats) : Except PyErr Q :=
  if v = .guarded ∧ s.totalNoncaptures = 0 then .ok Q.zero
  else do
    let score ← enumDot nearKingWeights s.noncaptureDistance
    let maxScore := listMax nearKingWeights * s.totalNoncaptures
    (Q.nat score).div (Q.nat maxScore)

def featureCastleOpposite (s : Stats) : Except PyErr Q :=
  if s.castleOpposite + s.castleSame = 0 then .ok Q.zero
  else (Q.nat s.castleOpposite).div (Q.nat (s.castleOpposite + s.castleSame))

/-- in the source but commented out of the `features` list. -/
def featureSacrifices (_ : Stats) : Except PyErr Q := .ok Q.zero

def pushWeights : List Nat := [0, 0, 1, 1, 2, 4, 8, 16]

/-- `sum(weights[i] * stats.early_pawn_pushes[i] for i in range(lo, lo + n))`. -/
def rangeDot (w l : List Nat) : Nat → Nat → Except PyErr Nat
  | _, 0 => .ok 0
  | i, n + 1 =>
    match getAt w i, getAt l i, rangeDot w l (i + 1) n with
    | .ok a, .ok b, .ok r => .ok (a * b + r)
    | .error e, _, _ => .error e
    | _, .error e, _ => .error e
    | _, _, .error e => .error e

def featurePushPawns (s : Stats) : Except PyErr Q :=
  if s.totalPawnPushes = 0 then .ok Q.zero
  else do
    let totalEarlyMoves := enumMinSum 40 s.gameLength
    let totalScore ← rangeDot pushWeights s.earlyPawnPushes 2 6
    -- sum(weights[3:]) / len(weights[3:]) * total_early_moves
    let tail := pushWeights.drop 3
    let mean ← (Q.nat tail.sum).div (Q.nat tail.length)
    let maxTotalScore := mean.mul (Q.nat totalEarlyMoves)
    (Q.nat totalScore).div maxTotalScore

def featureChecks (s : Stats) : Except PyErr Q :=
  if s.totalMoves = 0 then .ok Q.zero else (Q.nat s.checks).div (Q.nat s.totalMoves)

def featureWinsBehind (s : Stats) : Except PyErr Q :=
  if s.numWins = 0 then .ok Q.zero else (Q.nat s.numWinBehind).div (Q.nat s.numWins)

def featureCaptureFrequency (s : Stats) : Except PyErr Q :=
  if s.totalMoves = 0 then .ok Q.zero else (Q.nat s.totalCaptures).div (Q.nat s.totalMoves)

def featurePushPawnTowardsKing (s : Stats) : Except PyErr Q :=
  if s.totalPawnPushes = 0 then .ok Q.zero
  else (Q.nat s.totalPawnPushesTowardsKing).div (Q.nat s.totalPawnPushes)

def featureRookThreats (s : Stats) : Except PyErr Q :=
  if s.totalMoves = 0 then .ok Q.zero else (Q.nat s.numRookThreats).div (Q.nat s.totalMoves)

def featureBishopThreats (s : Stats) : Except PyErr Q :=
  if s.totalMoves = 0 then .ok Q.zero else (Q.nat s.numBishopThreats).div (Q.nat s.totalMoves)

def features (v : Variant) : List Feature :=
  [ ⟨Q.nat 4, "Game length", featureGameLength⟩,
    ⟨Q.nat 2, "Capture early", featureCaptureEarly v⟩,
    ⟨Q.nat 4, "Capture near king", featureCaptureNearKing v⟩,
    ⟨Q.nat 2, "Move near king", featureMoveNearKing v⟩,
    ⟨Q.dec 2 10, "Castle opposite", featureCastleOpposite⟩,
    ⟨Q.nat 1, "Push pawns", featurePushPawns⟩,
    ⟨Q.nat 5, "Checks", featureChecks⟩,
    ⟨Q.nat 5, "Win while behind", featureWinsBehind⟩,
    ⟨Q.nat 5, "Capture frequency", featureCaptureFrequency⟩,
    ⟨Q.nat 4, "Push pawns towards king", featurePushPawnTowardsKing⟩,
    ⟨Q.nat 4, "Rook/Queen threats on king", featureRookThreats⟩,
    ⟨Q.nat 4, "Bishop/Queen threats on king", featureBishopThreats⟩ ]

end Aggression

/-- `get_aggression_score`; `none` is Python's `None` (no games). -/
def getAggressionScore (v : Variant) (s : Stats) : Except PyErr (Option Q) :=
  if s.numGames = 0 then .ok none
  else do
    let score ← scoreLoop s (Aggression.features v) (Q.nat 0)
    let scaled ← score.div (weightSum (Aggression.features v))
    let scaled := Q.min Q.one ((Q.nat 2).mul scaled)
    if scaled.inUnit then pure (some scaled) else throw .assertion

namespace Positional

/-- `(0.6 * long + 0.25 * medium + 0.15 * short) / num_games / 0.6`. -/
def featureGameLength (s : Stats) : Except PyErr Q := do
  let x := (((Q.dec 6 10).mul (Q.nat s.longGames)).add ((Q.dec 25 100).mul (Q.nat s.mediumGames))).add
    ((Q.dec 15 100).mul (Q.nat s.shortGames))
  let y ← x.div (Q.nat s.numGames)
  y.div (Q.dec 6 10)

/-- `(0.6 * late + 0.25 * mid + 0.15 * early) / total_captures / 0.6`. -/
def featureCaptureEarly (v : Variant) (s : Stats) : Except PyErr Q :=
  if v = .guarded ∧ s.totalCaptures = 0 then .ok Q.zero
  else do
    let x := (((Q.dec 6 10).mul (Q.nat s.lateCaptures)).add ((Q.dec 25 100).mul (Q.nat s.midCaptures))).add
      ((Q.dec 15 100).mul (Q.nat s.earlyCaptures))
    let y ← x.div (Q.nat s.totalCaptures)
    y.div (Q.dec 6 10)

def features (v : Variant) : List Feature :=
  [ ⟨Q.nat 2, "Game length", featureGameLength⟩,
    ⟨Q.nat 1, "Capture early", featureCaptureEarly v⟩ ]

end Positional

/-- `get_positional_score`. -/
def getPositionalScore (v : Variant) (s : Stats) : Except PyErr (Option Q) :=
  if s.numGames = 0 then .ok none
  else do
    let score ← scoreLoop s (Positional.features v) (Q.nat 0)
    let scaled ← score.div (weightSum (Positional.features v))
    if scaled.inUnit then pure (some scaled) else throw .assertion

namespace PawnPusher

def featurePlaceholder (_ : Stats) : Except PyErr Q := .ok Q.zero

def features : List Feature := [ ⟨Q.nat 1, "Placeholder", featurePlaceholder⟩ ]

end PawnPusher

/-- `get_pawn_pusher_score`. -/
def getPawnPusherScore (s : Stats) : Except PyErr (Option Q) :=
  if s.numGames = 0 then .ok none
  else do
    let score ← scoreLoop s PawnPusher.features (Q.nat 0)
    let scaled ← score.div (weightSum PawnPusher.features)
    if scaled.inUnit then pure (some scaled) else throw .assertion

/-! ## Annotated games and `analyse_game` -/

/-- what `analyse_game` reads from python-chess in one iteration of its move loop. -/
structure Ply where
  /-- `board.turn` before the move. -/
  turn : Color
  /-- `board.piece_type_at(move.from_square)`; 0 stands for `None`. -/
  piece : Nat
  /-- `move.from_square` (only used through `piece`). -/
  frm : Square
  /-- `move.to_square`. -/
  to : Square
  /-- `board.is_capture(move)`. -/
  isCapture : Bool
  /-- `board.is_kingside_castling(move)`. -/
  ksCastle : Bool
  /-- `board.is_queenside_castling(move)`. -/
  qsCastle : Bool
  /-- `board.is_check()` after `board.push(move)`. -/
  checkAfter : Bool
  /-- `len(board.pieces(chess.QUEEN, chess.WHITE))` etc., before the move. -/
  queensW : Nat
  queensB : Nat
  rooksW : Nat
  rooksB : Nat
  knightsW : Nat
  knightsB : Nat
  bishopsW : Nat
  bishopsB : Nat
  /-- `board.king(not board.turn)`. -/
  enemyKing : Square
  deriving DecidableEq, Repr, Inhabited

/-- `len(board.pieces(kind, colour))` on the final board. -/
structure PieceCounts where
  pawns : Nat
  knights : Nat
  bishops : Nat
  rooks : Nat
  queens : Nat
  deriving DecidableEq, Repr, Inhabited

/-- `get_material_score`. -/
def PieceCounts.material (c : PieceCounts) : Nat :=
  1 * c.pawns + 3 * c.knights + 3 * c.bishops + 5 * c.rooks + 9 * c.queens

/-- `game.headers["Result"]`, restricted to the values `analyse_pgn` lets through. -/
inductive Result where
  | whiteWins  -- "1-0"
  | blackWins  -- "0-1"
  | draw       -- "1/2-1/2"
  deriving DecidableEq, Repr, Inhabited

structure Game where
  result : Result
  plies : List Ply
  finalWhite : PieceCounts
  finalBlack : PieceCounts
  deriving DecidableEq, Repr, Inhabited

/-- values of `us_castled` / `them_castled`: 0, 1, 2. -/
inductive Castled where
  | no | king | queen
  deriving DecidableEq, Repr, Inhabited

/-- the local variables of `analyse_game` that live across loop iterations. -/
structure Loop where
  stats : Stats
  usCastled : Castled := .no
  themCastled : Castled := .no
  queensGone : Bool := false
  /-- `ply`; equal to the `idx` of `enumerate` at the head of every iteration. -/
  ply : Nat := 0
  hasQvRR : Bool := false
  hasRRvQ : Bool := false
  hasQv3minor : Bool := false
  has3minorvQ : Bool := false
  deriving DecidableEq, Repr, Inhabited

/-- `# Material imbalance`: the four flags (queens / rooks / minors of `side` against the other side). -/
def markImbalance (side : Color) (L : Loop) (p : Ply) : Loop :=
  let numQueensUs := if side == WHITE then p.queensW else p.queensB
  let numQueensThem := if side == WHITE then p.queensB else p.queensW
  let numRooksUs := if side == WHITE then p.rooksW else p.rooksB
  let numRooksThem := if side == WHITE then p.rooksB else p.rooksW
  let numMinorUs := if side == WHITE then p.knightsW + p.bishopsW else p.knightsB + p.bishopsB
  let numMinorThem := if side == WHITE then p.knightsB + p.bishopsB else p.knightsW + p.bishopsW
  let L := if numQueensUs == 1 && numQueensThem == 0 && numRooksUs == 0 && numRooksThem == 2
    then { L with hasQvRR := true } else L
  let L := if numQueensUs == 0 && numQueensThem == 1 && numRooksUs == 2 && numRooksThem == 0
    then { L with hasRRvQ := true } else L
  let L := if numQueensUs == 1 && numQueensThem == 0 && numMinorUs == 0 && numMinorThem == 3
    then { L with hasQv3minor := true } else L
  if numQueensUs == 0 && numQueensThem == 1 && numMinorUs == 3 && numMinorThem == 0
    then { L with has3minorvQ := true } else L

/-- `# Castling` (our move). -/
def markCastleUs (L : Loop) (p : Ply) : Loop :=
  if p.ksCastle then
    { L with stats := { L.stats with castleKing := L.stats.castleKing + 1 }, usCastled := .king }
  else if p.qsCastle then
    { L with stats := { L.stats with castleQueen := L.stats.castleQueen + 1 }, usCastled := .queen }
  else L

/-- `piece in [ROOK, QUEEN]` and `abs(dx) <= 1 or abs(dy) <= 1` (dx, dy: enemy king minus target). -/
def rookThreat (p : Ply) : Bool :=
  (p.piece == ROOK || p.piece == QUEEN) &&
    (decide (absDiff (squareFile p.enemyKing) (squareFile p.to) ≤ 1) ||
     decide (absDiff (squareRank p.enemyKing) (squareRank p.to) ≤ 1))

/-- `piece in [BISHOP, QUEEN]` and `abs(abs(dx) - abs(dy)) <= 1`. -/
def bishopThreat (p : Ply) : Bool :=
  (p.piece == BISHOP || p.piece == QUEEN) &&
    decide (absDiff (absDiff (squareFile p.enemyKing) (squareFile p.to))
                    (absDiff (squareRank p.enemyKing) (squareRank p.to)) ≤ 1)

/-- `# Threats`. -/
def markThreats (s : Stats) (p : Ply) : Stats :=
  let s := if rookThreat p then { s with numRookThreats := s.numRookThreats + 1 } else s
  if bishopThreat p then { s with numBishopThreats := s.numBishopThreats + 1 } else s

/-- `# Move types`; `board.king(not side)` is `board.king(not board.turn)` in this branch. -/
def markMoveType (s : Stats) (ply : Nat) (p : Ply) : Except PyErr Stats :=
  let dist := squareDistance p.to p.enemyKing
  if p.isCapture then
    let s := s.addCapture ply
    (incAt s.captureDistance dist).map fun l => { s with captureDistance := l }
  else
    let s := s.addNoncapture
    (incAt s.noncaptureDistance dist).map fun l => { s with noncaptureDistance := l }

/-- `if board.piece_type_at(move.from_square) == chess.PAWN: stats.add_pawn_push(...)`. -/
def markPawn (s : Stats) (ply : Nat) (p : Ply) : Except PyErr Stats :=
  if p.piece == PAWN then s.addPawnPush ply p.to p.turn p.enemyKing else .ok s

/-- the `if board.turn == side:` branch of the loop body. -/
def stepUs (side : Color) (L : Loop) (p : Ply) : Except PyErr Loop :=
  let L := markImbalance side L p
  let L := markCastleUs L p
  let s := markThreats L.stats p
  match markMoveType s L.ply p with
  | .error e => .error e
  | .ok s =>
    match markPawn s L.ply p with
    | .error e => .error e
    | .ok s => .ok { L with stats := s }

/-- the `else:` branch of the loop body (the opponent moves). -/
def stepThem (L : Loop) (p : Ply) : Loop :=
  if p.ksCastle then { L with themCastled := .king }
  else if p.qsCastle then { L with themCastled := .queen }
  else L

/-- `# Traded queens?` (`idx` of `enumerate` equals `ply`). -/
def markQueens (L : Loop) (p : Ply) : Except PyErr Loop :=
  if L.queensGone == false && p.queensW == 0 && p.queensB == 0 then
    match L.stats.queensOff L.ply with
    | .error e => .error e
    | .ok s => .ok { L with stats := s, queensGone := true }
  else .ok L

/-- after `board.push(move)` the side to move is `not p.turn`:
`if board.turn != side: if board.is_check(): checks += 1 else: nonchecks += 1`. -/
def markCheck (side : Color) (s : Stats) (p : Ply) : Stats :=
  if (!p.turn) != side then
    if p.checkAfter then { s with checks := s.checks + 1 } else { s with nonchecks := s.nonchecks + 1 }
  else s

/-- one iteration of `for idx, move in enumerate(game.mainline_moves()):`. -/
def step (side : Color) (L : Loop) (p : Ply) : Except PyErr Loop :=
  match markQueens L p with
  | .error e => .error e
  | .ok L =>
    match (if p.turn == side then stepUs side L p else .ok (stepThem L p)) with
    | .error e => .error e
    | .ok L => .ok { L with stats := markCheck side L.stats p, ply := L.ply + 1 }

def runLoop (side : Color) : Loop → List Ply → Except PyErr Loop
  | L, [] => .ok L
  | L, p :: ps =>
    match step side L p with
    | .error e => .error e
    | .ok L' => runLoop side L' ps

/-- the castling summary after the loop. -/
def castleSummary (s : Stats) (us them : Castled) : Stats :=
  match us, them with
  | .no, _ => s
  | _, .no => s
  | .king, .king => { s with castleSame := s.castleSame + 1 }
  | .queen, .queen => { s with castleSame := s.castleSame + 1 }
  | .king, .queen => { s with castleOpposite := s.castleOpposite + 1 }
  | .queen, .king => { s with castleOpposite := s.castleOpposite + 1 }

def b2n (b : Bool) : Nat := if b then 1 else 0

/-- `stats.num_games += 1`. -/
def Stats.countGame (s : Stats) : Stats := { s with numGames := s.numGames + 1 }

/-- `# Material imbalance` after the loop. -/
def imbalanceSummary (s : Stats) (L : Loop) : Stats :=
  let s := if L.hasQvRR then { s with numQvRR := s.numQvRR + 1 } else s
  let s := if L.hasRRvQ then { s with numRRvQ := s.numRRvQ + 1 } else s
  let s := if L.hasQv3minor then { s with numQv3minor := s.numQv3minor + 1 } else s
  if L.has3minorvQ then { s with num3minorvQ := s.num3minorvQ + 1 } else s

/-- the result bookkeeping at the end of `analyse_game`. -/
def resultSummary (s : Stats) (result : Result) (side : Color) (materialUs materialThem : Nat) : Stats :=
  let ahead := decide (materialUs > materialThem)
  let equal := decide (materialUs = materialThem)
  let behind := decide (materialUs < materialThem)
  let win (s : Stats) : Stats :=
    { s with numWins := s.numWins + 1, numWinAhead := s.numWinAhead + b2n ahead,
             numWinEqual := s.numWinEqual + b2n equal, numWinBehind := s.numWinBehind + b2n behind }
  match result with
  | .draw => { s with numDraws := s.numDraws + 1 }
  | .whiteWins => if side == WHITE then win s else { s with numLosses := s.numLosses + 1 }
  | .blackWins => if side == BLACK then win s else { s with numLosses := s.numLosses + 1 }

/-- everything in `analyse_game` after the move loop. -/
def finishAnalysis (g : Game) (side : Color) (L : Loop) : Except PyErr Stats :=
  let s := imbalanceSummary L.stats L
  let s := castleSummary s L.usCastled L.themCastled
  match s.finishGame L.ply with
  | .error e => .error e
  | .ok s =>
    let s := s.countGame
    let materialUs := if side == WHITE then g.finalWhite.material else g.finalBlack.material
    let materialThem := if side == WHITE then g.finalBlack.material else g.finalWhite.material
    let s := resultSummary s g.result side materialUs materialThem
    match incAt s.finalMaterial (materialUs + materialThem) with
    | .error e => .error e
    | .ok fm => .ok { s with finalMaterial := fm }

/-- `analyse_game(game, side, stats)` (mutates `stats` in Python; returns the new value here). -/
def analyseGame (g : Game) (side : Color) (stats : Stats) : Except PyErr Stats :=
  match runLoop side { stats := stats } g.plies with
  | .error e => .error e
  | .ok L => finishAnalysis g side L

/-- the accumulation of `analyse_pgn` into ONE filter's `Stats`: the games (with the side they are
analysed for) that pass the filter, in file order, each followed by `assert(is_valid(stats))`.
Any list of `(game, side)` pairs is allowed, which covers every filter, a player on both sides of one
game, and the `--games` cut-off (a prefix). -/
def analysePgn : List (Game × Color) → Stats → Except PyErr Stats
  | [], s => .ok s
  | (g, side) :: js, s =>
    match analyseGame g side s with
    | .error e => .error e
    | .ok s' =>
      match isValid s' with
      | .error e => .error e
      | .ok true => analysePgn js s'
      | .ok false => .error .assertion

/-- what `main` computes for one filter after `analyse_pgn`: nothing when there are no games
("No games found"), otherwise the three scores. -/
structure Scores where
  aggressive : Option Q
  positional : Option Q
  pawnPusher : Option Q
  deriving DecidableEq, Repr

def mainScores (v : Variant) (s : Stats) : Except PyErr (Option Scores) :=
  if s.numGames ≤ 0 then .ok none
  else do
    let a ← getAggressionScore v s
    let p ← getPositionalScore v s
    let w ← getPawnPusherScore s
    pure (some ⟨a, p, w⟩)

/-- the whole run for one filter. -/
def runTool (v : Variant) (jobs : List (Game × Color)) : Except PyErr (Option Scores) := do
  let s ← analysePgn jobs Stats.fresh
  mainScores v s

end Rawr.Style
