import Rawr.Model.MoveGen
import Rawr.Model.MakeMove
import Rawr.Model.Eval
import Rawr.Model.Hashtable
import Rawr.Generated.TTLayout
/-! Model of src/search/{qsearch,negamax,root,ttentry,stats,settings}.rs.

State that the Rust threads through `&mut` (history vector, table, statistics) is explicit.
`push … recursive call … pop` is written exactly so: the callee returns a state and the caller pops
the head of *that* state's history. Recursion takes fuel; `none` means fuel exhausted or a panic
of the optimised build (ordering buffer overflow, move application on a missing piece, zero-slot table). -/
namespace Rawr

structure TTEntry where
  hash : BB
  mv : Mv
  score : Int
  depth : Int
  flag : Nat          -- 0 exact, 1 lower, 2 upper
  deriving DecidableEq, Repr

instance : Inhabited TTEntry := ⟨⟨0#64, ⟨0, 0, 0⟩, 0, 0, 0⟩⟩   -- `TTEntry::default()` (Piece default = Pawn)

/-- search limits (settings.rs); the clock is an arbitrary stop oracle indexed by poll number. -/
inductive Limit where
  | depth (d : Int)
  | nodes (n : Nat)
  | clock (oracle : Nat → Bool)
  | infinite

structure SState where
  hist : List BB            -- most recent first (`Vec` back = head)
  tt : Table TTEntry
  depth : Int               -- stats.depth
  seldepth : Int
  nodes : Nat
  best : Option Mv          -- stats.best_move
  polls : Nat               -- number of should_stop calls so far (indexes the clock oracle)

/-- `should_stop(&stats)`. -/
def shouldStop (lim : Limit) (s : SState) : Bool × SState :=
  let r := match lim with
    | .depth d => s.depth > d
    | .nodes n => s.nodes ≥ n
    | .clock o => o s.polls
    | .infinite => false
  (r, { s with polls := s.polls + 1 })

/-- inner loop of the selection sort: index of the first maximum of `scores[i..]`. -/
def selInner (scores : Array Int) (best : Nat) : Nat → Nat → Nat
  | _, 0 => best
  | j, f + 1 => if j < scores.size then
      selInner scores (if scores[j]! > scores[best]! then j else best) (j + 1) f else best

def selOuter (n : Nat) : Nat → Nat → Array Int → Array Mv → Array Mv
  | _, 0, _, mv => mv
  | i, fuel + 1, sc, mv =>
    if i + 1 < n then
      let best := selInner sc i (i + 1) n
      let mv' := (mv.set! i mv[best]!).set! best mv[i]!
      let sc' := (sc.set! i sc[best]!).set! best sc[i]!
      selOuter n (i + 1) fuel sc' mv'
    else mv

/-- the selection sort of qsearch.rs / negamax.rs on parallel score and move arrays. -/
def selSort (scores : Array Int) (moves : Array Mv) : Array Mv :=
  selOuter moves.size 0 moves.size scores moves

def captureScore (vals : Array Int) (p : Position) (m : Mv) : Int :=
  match p.pieceOn m.dst with
  | some c => 10 * vals[c]! - vals[(p.pieceOn m.src).getD 0]!
  | none => 0

/-- qsearch.rs `sort`; `none` = the `[0; 218]` buffer is indexed out of bounds. -/
def sortQs (p : Position) (moves : List Mv) : Option (List Mv) :=
  if moves.length < 2 then some moves
  else if moves.length > Gen.orderBufQsearch then none
  else
    let scores := (moves.map (captureScore Gen.orderValsQsearch p)).toArray
    some (selSort scores moves.toArray).toList

/-- negamax.rs `sort`. -/
def sortNm (p : Position) (moves : List Mv) (ttmove : Option Mv) : Option (List Mv) :=
  if moves.length < 2 then some moves
  else if moves.length > Gen.orderBufNegamax then none
  else
    let scores := (moves.map fun m =>
      if ttmove == some m then Gen.ttMoveOrderScore else captureScore Gen.orderValsNegamax p m).toArray
    some (selSort scores moves.toArray).toList

structure QState where
  seldepth : Int
  nodes : Nat

/-- the move loop of `qsearch`, over the recursive call `rec`. -/
def qloop (rec : Position → QState → Int → Int → Int → Option (Int × QState)) (p : Position) (beta ply : Int) :
    List Mv → QState → Int → Int → Option (Int × QState)
  | [], st, _, best => some (best, st)
  | m :: ms, st, alpha, best =>
    let st := { st with nodes := st.nodes + 1 }
    match p.makemove m false with
    | none => none
    | some np =>
      match rec np st (-beta) (-alpha) (ply + 1) with
      | none => none
      | some (sc, st) =>
        let score := -sc
        let best := if score > best then score else best
        let alpha := if score > alpha then score else alpha
        if alpha ≥ beta then some (best, st) else qloop rec p beta ply ms st alpha best

/-- `qsearch`. -/
def qsearch : Nat → Position → QState → Int → Int → Int → Option (Int × QState)
  | 0, _, _, _, _, _ => none
  | fuel + 1, p, st, alpha, beta, ply =>
    let standPat := eval p
    let st := { st with seldepth := max st.seldepth ply }
    if standPat ≥ beta then some (standPat, st)
    else
      let alpha := if standPat > alpha then standPat else alpha
      match sortQs p (legalCaptures p) with
      | none => none
      | some moves => qloop (qsearch fuel) p beta ply moves st alpha standPat

/-- `is_endgame`. -/
def isEndgame (p : Position) : Bool := count ((p.p1 ||| p.p2 ||| p.p3 ||| p.p4) &&& p.c0) ≤ 2

def everySecond : List BB → List BB
  | [] => []
  | [x] => [x]
  | x :: _ :: rest => x :: everySecond rest

/-- the repetition test of negamax.rs: the last `halfmoves + 1` history entries (back to the position that
followed the last irreversible move), every second one. -/
def repCount (hist : List BB) (halfmoves : Int) (h : BB) : Nat :=
  ((everySecond (hist.take (halfmoves.toNat + 1))).filter (· == h)).length

/-- fuel handed to quiescence from inside negamax (a capture sequence removes a man each ply). -/
def qFuel : Nat := 64

/-- the move loop of `negamax`. -/
def nmLoop (rec : Position → SState → Int → Int → Int → Int → Bool → Option (Int × SState))
    (p : Position) (beta ply depth : Int) (inCheck : Bool) :
    List Mv → Nat → SState → Int → Int → Option Mv → Option (SState × Int × Int × Option Mv)
  | [], _, st, alpha, best, bestMv => some (st, alpha, best, bestMv)
  | m :: ms, idx, st, alpha, best, bestMv =>
    let st := { st with nodes := st.nodes + 1 }
    match p.makemove m true with
    | none => none
    | some np =>
    let st := { st with hist := np.hash :: st.hist }
    let res : Option (Int × SState) :=
      if idx == 0 then
        match rec np st (-beta) (-alpha) (ply + 1) (depth - 1) true with
        | none => none
        | some (sc, st) => some (-sc, st)
      else
        let reduction : Int :=
          if idx < 4 || depth < 3 || inCheck || p.isCapture m || m.promo == 4 then 0 else 1
        match rec np st (-alpha - 1) (-alpha) (ply + 1) (depth - 1 - reduction) true with
        | none => none
        | some (sc, st) =>
          let score := -sc
          if alpha < score && score < beta then
            match rec np st (-beta) (-alpha) (ply + 1) (depth - 1) true with
            | none => none
            | some (sc, st) => some (-sc, st)
          else some (score, st)
    match res with
    | none => none
    | some (score, st) =>
    let st := { st with hist := st.hist.tail }
    let (best, bestMv) := if score > best then (score, some m) else (best, bestMv)
    let alpha := if score > alpha then score else alpha
    if alpha ≥ beta then some (st, alpha, best, bestMv)
    else nmLoop rec p beta ply depth inCheck ms (idx + 1) st alpha best bestMv

/-- `negamax`. Returns the score and the new state. -/
def negamax (lim : Limit) : Nat → Position → SState → Int → Int → Int → Int → Bool → Option (Int × SState)
  | 0, _, _, _, _, _, _, _ => none
  | fuel + 1, p, st, alpha, beta, ply, depth, canNull =>
    let alphaOrig := alpha
    let inCheck := p.inCheck
    let isRoot := ply == 0
    let isPv := beta != alpha + 1
    let st := { st with seldepth := max st.seldepth ply }
    let depth := if inCheck then depth + 1 else depth
    -- poll the table
    match st.tt.poll p.hash.toNat with
    | none => none
    | some tte =>
    let hit := tte.hash == p.hash
    let ttmove := if hit then some tte.mv else none
    -- cut-offs
    let cut : Option Int × Int × Int :=
      if hit && tte.depth ≥ depth && !isRoot && !isPv then
        if tte.flag == 0 then (some tte.score, alpha, beta)
        else
          let alpha := if tte.flag == 1 then max alpha tte.score else alpha
          let beta := if tte.flag == 2 then min beta tte.score else beta
          if alpha ≥ beta then (some tte.score, alpha, beta) else (none, alpha, beta)
      else (none, alpha, beta)
    match cut with
    | (some v, _, _) => some (v, st)
    | (none, alpha, beta) =>
    if depth ≤ 0 then
      match qsearch qFuel p ⟨st.seldepth, st.nodes⟩ alpha beta ply with
      | none => none
      | some (v, q) => some (v, { st with seldepth := q.seldepth, nodes := q.nodes })
    else
    -- the first iteration always completes at the root (`!(is_root && stats.depth <= 1) && should_stop(stats)`)
    let (stop, st) := if !(isRoot && st.depth ≤ 1) then shouldStop lim st else (false, st)
    if stop then some (0, st) else
    let is50 := p.halfmoves ≥ 100
    let is3 := repCount st.hist p.halfmoves p.hash ≥ (if isRoot then 3 else 2)
    if !isRoot && (is50 || is3) then some (Gen.DRAW_SCORE, st) else
    -- reverse futility pruning
    let staticEval := eval p
    if !isPv && !inCheck && depth < 4 && staticEval - 100 * depth ≥ beta then
      some (staticEval - 100 * depth, st)
    else
    -- null move pruning
    let nullRes : Option (Option Int × SState) :=
      if !isRoot && canNull && depth > 2 && !inCheck && !isEndgame p then
        let np := p.makenull
        let st := { st with hist := np.hash :: st.hist }
        match negamax lim fuel np st (-beta) (-beta + 1) (ply + 1) (depth - 1 - 2) false with
        | none => none
        | some (sc, st) =>
          let st := { st with hist := st.hist.tail }
          let score := -sc
          if score ≥ beta then some (some score, st) else some (none, st)
      else some (none, st)
    match nullRes with
    | none => none
    | some (some v, st) => some (v, st)
    | some (none, st) =>
    match sortNm p (legalMoves p) ttmove with
    | none => none
    | some moves =>
    match nmLoop (negamax lim fuel) p beta ply depth inCheck moves 0 st alpha (-Gen.INF) none with
    | none => none
    | some (st, _alpha, best, bestMv) =>
    match bestMv with
    | none => some (if inCheck then -Gen.MATE_SCORE + ply else Gen.DRAW_SCORE, st)
    | some bm =>
      let flag := if best ≤ alphaOrig then 2 else if best ≥ beta then 1 else 0
      match st.tt.add p.hash.toNat ⟨p.hash, bm, best, depth, flag⟩ with
      | none => none
      | some tt => some (best, { st with tt := tt, best := some bm })

/-- one `Info` record as passed to the printer (time fields are not modelled). -/
structure InfoRec where
  depth : Int
  seldepth : Int
  nodes : Nat
  score : Int
  hashfull : Option Nat
  pv : List Mv
  deriving Repr

structure RootResult where
  best : Option Mv            -- `none` = Err("No bestmove")
  infos : List InfoRec        -- in order
  hist : List BB
  tt : Table TTEntry

/-- the iteration loop of `root::root` (`for depth in 1..MAX_DEPTH`). -/
def rootIter (lim : Limit) (fuel : Nat) (p : Position) :
    Nat → Int → SState → Option Mv → List InfoRec → Option RootResult
  | 0, _, st, bestMove, infos => some ⟨bestMove, infos.reverse, st.hist, st.tt⟩
  | k + 1, depth, st, bestMove, infos =>
    if depth ≥ Gen.MAX_DEPTH then some ⟨bestMove, infos.reverse, st.hist, st.tt⟩ else
    let st := { st with depth := depth }
    match negamax lim fuel p st (-Gen.INF) Gen.INF 0 depth false with
    | none => none
    | some (score, st) =>
      match st.best with
      | none => some ⟨none, infos.reverse, st.hist, st.tt⟩
      | some bm =>
        let (stop, st) := if depth > 1 then shouldStop lim st else (false, st)
        if stop then some ⟨bestMove, infos.reverse, st.hist, st.tt⟩
        else
          let info : InfoRec := ⟨st.depth, st.seldepth, st.nodes, score, st.tt.hashfull, [bm]⟩
          rootIter lim fuel p k (depth + 1) st (some bm) (info :: infos)

/-- `root::root` — the iterative-deepening driver. -/
def root (lim : Limit) (fuel : Nat) (p : Position) (hist : List BB) (tt : Table TTEntry) : Option RootResult :=
  rootIter lim fuel p Gen.MAX_DEPTH.toNat 1 ⟨hist, tt, 0, 0, 0, none, 0⟩ none []

end Rawr
