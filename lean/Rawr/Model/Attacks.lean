import Rawr.Model.Position
import Rawr.Model.Rays
import Rawr.Model.Magic
/-! Model of src/chess/attacks.rs and pinned.rs. -/
namespace Rawr

/-- `attacks::is_safe`. -/
def isSafe (sq : Nat) (blockers pawns knightsB bishops rooks queens kings : BB) : Bool :=
  let bb := bit sq
  if (pawnsAtt false pawns).isSet sq then false
  else if (knights bb &&& knightsB).isOcc then false
  else if (bishopMoves sq blockers &&& (bishops ||| queens)).isOcc then false
  else if (rookMoves sq blockers &&& (rooks ||| queens)).isOcc then false
  else if (adjacent bb &&& kings).isOcc then false
  else true

namespace Position

/-- `is_sq_attacked(sq, side)`; `them = true` is `Side::Them`. -/
def isSqAttacked (p : Position) (sq : Nat) (them : Bool) : Bool :=
  let bb := bit sq
  let sd := p.side them
  let ksq := lsb (p.p5 &&& sd)
  let bq := sd &&& (p.p2 ||| p.p4)
  let rq := sd &&& (p.p3 ||| p.p4)
  if !them && (pawnsAtt true (p.p0 &&& sd)).isSet sq then true
  else if them && (pawnsAtt false (p.p0 &&& sd)).isSet sq then true
  else if (knights bb &&& p.p1 &&& sd).isOcc then true
  else if (bishopMoves sq p.occ &&& bq).isOcc then true
  else if (rookMoves sq p.occ &&& rq).isOcc then true
  else if (adjacent (bit ksq)).isSet sq then true
  else false

/-- `is_bb_attacked(bb, side)`. -/
def isBbAttacked (p : Position) (bb : BB) (them : Bool) : Bool :=
  let sd := p.side them
  if !them && (pawnsAtt true (p.p0 &&& p.c0) &&& bb).isOcc then true
  else if them && (pawnsAtt false (p.p0 &&& p.c1) &&& bb).isOcc then true
  else if (knights bb &&& p.p1 &&& sd).isOcc then true
  else if (adjacent bb &&& p.p5 &&& sd).isOcc then true
  else
    let bq := sd &&& (p.p2 ||| p.p4)
    let rq := sd &&& (p.p3 ||| p.p4)
    (toList bb).any fun sq =>
      (bishopMoves sq p.occ &&& bq).isOcc || (rookMoves sq p.occ &&& rq).isOcc

/-- `get_attacked(mask, side)`. -/
def getAttacked (p : Position) (mask : BB) (them : Bool) : BB :=
  let sd := p.side them
  let a : BB := if !them then mask &&& pawnsAtt true (p.p0 &&& p.c0)
                else mask &&& pawnsAtt false (p.p0 &&& p.c1)
  let a := a ||| (mask &&& knights (p.p1 &&& sd))
  let a := a ||| (mask &&& adjacent (p.p5 &&& sd))
  let bq := sd &&& (p.p2 ||| p.p4)
  let rq := sd &&& (p.p3 ||| p.p4)
  (toList (mask &&& ~~~a)).foldl (fun acc sq =>
    if (bishopMoves sq p.occ &&& bq).isOcc || (rookMoves sq p.occ &&& rq).isOcc
    then acc ||| bit sq else acc) a

def inCheck (p : Position) : Bool := p.isSqAttacked (lsb (p.p5 &&& p.c0)) true
def inCheckThem (p : Position) : Bool := p.isSqAttacked (lsb (p.p5 &&& p.c1)) false

end Position
end Rawr
