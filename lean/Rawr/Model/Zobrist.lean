import Rawr.Model.Position
import Rawr.Generated.Zobrist
/-! Model of src/chess/zobrist.rs over the translated key tables. -/
namespace Rawr

/-- The key tables, abstracted so that theorems can be stated for arbitrary keys. -/
structure ZKeys where
  piece : Nat → BB      -- index colour*384 + piece*64 + sq
  ep : Nat → BB         -- file
  castling : Nat → BB   -- 2*colour (+1 for queen side)
  turn : BB

def genKeys : ZKeys :=
  { piece := fun i => BitVec.ofNat 64 (Gen.zKeys[i]?.getD 0)
    ep := fun i => BitVec.ofNat 64 (Gen.zKeysEp[i]?.getD 0)
    castling := fun i => BitVec.ofNat 64 (Gen.zKeysCastling[i]?.getD 0)
    turn := BitVec.ofNat 64 Gen.zKeyTurn }

@[inline] def zIndex (black : Bool) (pc sq : Nat) : Nat := (if black then 384 else 0) + pc * 64 + sq
@[inline] def col (b : Bool) : Nat := if b then 1 else 0
@[inline] def maybeFlip (s : Nat) (f : Bool) : Nat := if f then s ^^^ 56 else s

@[inline] def xorIf (c : Bool) (k : BB) (h : BB) : BB := if c then h ^^^ k else h

namespace Position

/-- `predict_hash`; `none` where the Rust unwraps a missing piece. -/
def predictHashK (K : ZKeys) (p : Position) (m : Mv) : Option BB := do
  let piece ← p.pieceOn m.src
  let captured := p.pieceOn m.dst
  let b := p.black
  let src := maybeFlip m.src b
  let dst := maybeFlip m.dst b
  let h := p.hash
  let h := h ^^^ K.piece (zIndex b piece src)
  let h := h ^^^ K.piece (zIndex b piece dst)
  let h ← if p.c1.isSet m.dst then (do let c ← captured; pure (h ^^^ K.piece (zIndex (!b) c dst))) else pure h
  let h := match p.ep with | some e => h ^^^ K.ep (fileOf e) | none => h
  let h := xorIf (piece == 0 && fileOf m.src != fileOf m.dst && captured.isNone)
              (K.piece (zIndex (!b) 0 (maybeFlip (m.dst - 8) b))) h
  let h := xorIf (piece == 0 && m.dst - m.src == 16) (K.ep (fileOf m.dst)) h
  let kscSq := fromCoords p.cf0 0
  let qscSq := fromCoords p.cf1 0
  let h :=
    if piece == 5 && p.usK && m.dst == kscSq then
      h ^^^ K.piece (zIndex b 5 src) ^^^ K.piece (zIndex b 5 dst)
        ^^^ K.piece (zIndex b 5 src) ^^^ K.piece (zIndex b 5 (maybeFlip 6 b))
        ^^^ K.piece (zIndex b 3 (maybeFlip kscSq b)) ^^^ K.piece (zIndex b 3 (maybeFlip 5 b))
    else if piece == 5 && p.usQ && m.dst == qscSq then
      h ^^^ K.piece (zIndex b 5 src) ^^^ K.piece (zIndex b 5 dst)
        ^^^ K.piece (zIndex b 5 src) ^^^ K.piece (zIndex b 5 (maybeFlip 2 b))
        ^^^ K.piece (zIndex b 3 (maybeFlip qscSq b)) ^^^ K.piece (zIndex b 3 (maybeFlip 3 b))
    else h
  let h := if m.promo != 6 then h ^^^ K.piece (zIndex b 0 dst) ^^^ K.piece (zIndex b m.promo dst) else h
  let h := xorIf (p.usK && m.src == kscSq) (K.castling (2 * col b)) h
  let h := xorIf (p.usQ && m.src == qscSq) (K.castling (2 * col b + 1)) h
  let h := xorIf (p.usK && piece == 5) (K.castling (2 * col b)) h
  let h := xorIf (p.usQ && piece == 5) (K.castling (2 * col b + 1)) h
  let h := xorIf (p.themK && m.dst == fromCoords p.cf2 7) (K.castling (2 * col (!b))) h
  let h := xorIf (p.themQ && m.dst == fromCoords p.cf3 7) (K.castling (2 * col (!b) + 1)) h
  pure (h ^^^ K.turn)

@[inline] def whitePov (bb : BB) (black : Bool) : BB := if black then flipBB bb else bb

def xorSquares (K : ZKeys) (black : Bool) (pc : Nat) (bb : BB) (h : BB) : BB :=
  (toList bb).foldl (fun h sq => h ^^^ K.piece (zIndex black pc sq)) h

/-- `calculate_hash`. -/
def calculateHashK (K : ZKeys) (p : Position) : BB :=
  let w := p.white
  let bl := p.blackBB
  let t := p.black
  let h : BB := 0#64
  let h := xorSquares K false 0 (whitePov (w &&& p.p0) t) h
  let h := xorSquares K false 1 (whitePov (w &&& p.p1) t) h
  let h := xorSquares K false 2 (whitePov (w &&& p.p2) t) h
  let h := xorSquares K false 3 (whitePov (w &&& p.p3) t) h
  let h := xorSquares K false 4 (whitePov (w &&& p.p4) t) h
  let h := xorSquares K false 5 (whitePov (w &&& p.p5) t) h
  let h := xorSquares K true 0 (whitePov (bl &&& p.p0) t) h
  let h := xorSquares K true 1 (whitePov (bl &&& p.p1) t) h
  let h := xorSquares K true 2 (whitePov (bl &&& p.p2) t) h
  let h := xorSquares K true 3 (whitePov (bl &&& p.p3) t) h
  let h := xorSquares K true 4 (whitePov (bl &&& p.p4) t) h
  let h := xorSquares K true 5 (whitePov (bl &&& p.p5) t) h
  let h := match p.ep with | some e => h ^^^ K.ep (fileOf e) | none => h
  let h := xorIf p.usK (K.castling (2 * col t)) h
  let h := xorIf p.usQ (K.castling (2 * col t + 1)) h
  let h := xorIf p.themK (K.castling (2 * col (!t))) h
  let h := xorIf p.themQ (K.castling (2 * col (!t) + 1)) h
  xorIf t K.turn h

def predictHash (p : Position) (m : Mv) : Option BB := predictHashK genKeys p m
def calculateHash (p : Position) : BB := calculateHashK genKeys p

end Position
end Rawr
