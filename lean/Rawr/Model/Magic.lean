import Rawr.Model.Basic
import Rawr.Generated.Magic
import Rawr.Generated.MagicTable
/-! Model of src/chess/magic.rs over the *translated* constants and the translated table artefact. -/
namespace Rawr

/-- `while step(nbb) != 0 { result |= nbb; nbb = step(nbb) }` (at most 7 iterations on a board). -/
def maskLoop (step : BB → BB) : Nat → BB → BB → BB
  | 0, _, acc => acc
  | f + 1, nbb, acc => if step nbb != 0#64 then maskLoop step f (step nbb) (acc ||| nbb) else acc

def mNE (b : BB) : BB := north (east b)
def mNW (b : BB) : BB := north (west b)
def mSE (b : BB) : BB := south (east b)
def mSW (b : BB) : BB := south (west b)

/-- `calculate_bishop_masks()[i]`. -/
def bishopMask (i : Nat) : BB :=
  let bb := bit i
  let r := maskLoop mNE 8 (mNE bb) 0#64
  let r := maskLoop mNW 8 (mNW bb) r
  let r := maskLoop mSE 8 (mSE bb) r
  maskLoop mSW 8 (mSW bb) r

/-- `calculate_rook_masks()[i]`. -/
def rookMask (i : Nat) : BB :=
  let bb := bit i
  let r := maskLoop east 8 (east bb) 0#64
  let r := maskLoop west 8 (west bb) r
  let r := maskLoop north 8 (north bb) r
  maskLoop south 8 (south bb) r

/-- `calculate_knight_masks()[i]`. -/
def knightMask (i : Nat) : BB :=
  let bb := bit i
  north (north (east bb)) ||| north (north (west bb)) ||| east (east (north bb)) |||
  east (east (south bb)) ||| west (west (north bb)) ||| west (west (south bb)) |||
  south (south (east bb)) ||| south (south (west bb))

/-- `calculate_king_masks()[i]`. -/
def kingMask (i : Nat) : BB :=
  let bb := bit i
  north bb ||| north (west bb) ||| north (east bb) ||| west bb ||| east bb |||
  south bb ||| south (west bb) ||| south (east bb)

def magicIndex (stuff : Array (Nat × Nat)) (shift : Nat) (mask : BB) (sq : Nat) (occ : BB) : Nat :=
  let e := stuff[sq]?.getD (0, 0)
  e.2 + (((occ &&& mask) * BitVec.ofNat 64 e.1) >>> shift).toNat

def bishopIndex (sq : Nat) (occ : BB) : Nat :=
  magicIndex Gen.bishopStuffLib Gen.bishopShiftLib (bishopMask sq) sq occ
def rookIndex (sq : Nat) (occ : BB) : Nat :=
  magicIndex Gen.rookStuffLib Gen.rookShiftLib (rookMask sq) sq occ

/-- `MAGIC_MOVES[idx]`; `none` = index out of bounds (a panic in Rust). -/
def magicGet (idx : Nat) : Option Nat :=
  if idx < Gen.magicTableLen then Gen.magicTrie.get Gen.magicTrieDepth idx else none

def bishopMoves (sq : Nat) (occ : BB) : BB := BitVec.ofNat 64 ((magicGet (bishopIndex sq occ)).getD 0)
def rookMoves (sq : Nat) (occ : BB) : BB := BitVec.ofNat 64 ((magicGet (rookIndex sq occ)).getD 0)
def queenMoves (sq : Nat) (occ : BB) : BB := bishopMoves sq occ ||| rookMoves sq occ

end Rawr
