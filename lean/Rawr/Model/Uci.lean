import Rawr.Model.Search
import Rawr.Model.Fen
import Rawr.Model.CountMoves
import Rawr.Generated.StartPos
/-! Model of src/uci/{listen,go,position,moves,setoption,perft,split}.rs and the `Display` of `Position`.

The engine is a state machine over input lines; every output line is produced explicitly.
Wall-clock dependent tokens (`time`, `nps`) are printed as the placeholder `time ?` / left out, the
correspondence check canonicalises the real transcript the same way.
`Except`-style failure: `none` = the process panics (in the given arithmetic flavour). -/
namespace Rawr

structure UState where
  hashMb : Nat
  frc : Bool
  pos : Position
  hist : List BB            -- most recent first
  tt : Table TTEntry

/-- `str::split_ascii_whitespace`. -/
def splitWs (s : List Char) : List (List Char) :=
  let isWs (c : Char) : Bool := c == ' ' || c == '\t' || c == '\n' || c == '\r' || c == '\x0c'
  let rec go (s : List Char) (cur : List Char) (acc : List (List Char)) : List (List Char) :=
    match s with
    | [] => (if cur.isEmpty then acc else cur.reverse :: acc).reverse
    | c :: rest =>
      if isWs c then go rest [] (if cur.isEmpty then acc else cur.reverse :: acc)
      else go rest (c :: cur) acc
  go s [] []

def str (s : String) : List Char := s.toList

/-- `str::parse::<uN>()` for unsigned types: optional '+', digits, bounded. -/
def parseUnsigned (bound : Nat) (s : List Char) : Option Nat :=
  let ds := match s with | '+' :: r => r | r => r
  if ds.isEmpty || !(ds.all fun c => '0' ≤ c && c ≤ '9') then none
  else
    let n : Nat := ds.foldl (fun a c => a * 10 + (c.toNat - '0'.toNat)) 0
    if n < bound then some n else none

/-- parsed `go` arguments (settings::Type). -/
inductive GoKind where
  | time (wt bt : Nat) (mtg : Option Nat)
  | movetime (t : Nat)
  | depth (d : Int)
  | nodes (n : Nat)
  | infinite
  | perft (d : Nat)
  | split (d : Nat)

structure GoArgs where
  wtime : Option Nat := none
  btime : Option Nat := none
  winc : Option Nat := none
  binc : Option Nat := none
  mtg : Option Nat := none
  depth : Option Int := none
  nodes : Option Nat := none
  movetime : Option Nat := none
  infinite : Option Bool := none
  perft : Option Nat := none
  split : Option Nat := none

/-- the pair-consuming loop of `parse_go`; `none` = Err("Uh oh"). -/
def parseGoLoop : Nat → List (List Char) → GoArgs → Option GoArgs
  | 0, _, a => some a
  | fuel + 1, toks, a =>
    let k := toks.headD []
    let n := (toks.drop 1).headD []
    let rest := toks.drop 2
    if k == str "wtime" then parseGoLoop fuel rest { a with wtime := parseUnsigned (2^32) n }
    else if k == str "btime" then parseGoLoop fuel rest { a with btime := parseUnsigned (2^32) n }
    else if k == str "winc" then parseGoLoop fuel rest { a with winc := parseUnsigned (2^32) n }
    else if k == str "binc" then parseGoLoop fuel rest { a with binc := parseUnsigned (2^32) n }
    else if k == str "movestogo" then parseGoLoop fuel rest { a with mtg := parseUnsigned (2^32) n }
    else if k == str "depth" then parseGoLoop fuel rest { a with depth := parseI32 n }
    else if k == str "nodes" then parseGoLoop fuel rest { a with nodes := parseUnsigned (2^64) n }
    else if k == str "movetime" then parseGoLoop fuel rest { a with movetime := parseUnsigned (2^32) n }
    else if k == str "infinite" then parseGoLoop fuel rest { a with infinite := some true }
    else if k == str "perft" then parseGoLoop fuel rest { a with perft := parseUnsigned 256 n }
    else if k == str "split" then parseGoLoop fuel rest { a with split := parseUnsigned 256 n }
    else if k == [] then some a
    else none

/-- `parse_go`. -/
def parseGo (toks : List (List Char)) : Option GoKind :=
  match parseGoLoop (toks.length + 1) toks {} with
  | none => none
  | some a =>
    match a.wtime, a.btime, a.depth, a.nodes, a.movetime, a.infinite, a.perft, a.split with
    | some wt, some bt, none, none, none, none, none, none => some (.time wt bt a.mtg)
    | none, none, some d, none, none, none, none, none => some (.depth d)
    | none, none, none, some n, none, none, none, none => some (.nodes n)
    | none, none, none, none, some m, none, none, none => some (.movetime m)
    | none, none, none, none, none, some _, none, none => some .infinite
    | none, none, none, none, none, none, some d, none => some (.perft d)
    | none, none, none, none, none, none, none, some d => some (.split d)
    | _, _, _, _, _, _, _, _ => none

/-- `Position::perft`. -/
def perft : Nat → Position → Option Nat
  | 0, _ => some 1
  | 1, p => some (countMoves p)
  | d + 1, p =>
    (legalMoves p).foldl (fun acc m =>
      match acc, p.makemove m false with
      | some a, some np => (perft d np).map (a + ·)
      | _, _ => none) (some 0)

def hexDigits (n : Nat) : List Char := (Nat.toDigits 16 n)

def mvStr (p : Position) (m : Mv) : String := toUci p m

/-- `impl Display for Position`. -/
def displayPos (p : Position) : List String :=
  let np := if p.black then p.flip else p
  let cell (sq : Nat) : Char :=
    let w := np.white.isSet sq
    let pick (u l : Char) := if w then u else l
    if np.p0.isSet sq then pick 'P' 'p' else if np.p1.isSet sq then pick 'N' 'n'
    else if np.p2.isSet sq then pick 'B' 'b' else if np.p3.isSet sq then pick 'R' 'r'
    else if np.p4.isSet sq then pick 'Q' 'q' else if np.p5.isSet sq then pick 'K' 'k' else '-'
  let rows := (List.range 8).map fun i => String.ofList ((List.range 8).map fun x => cell (8 * (7 - i) + x))
  let castling :=
    if !np.usK && !np.usQ && !np.themK && !np.themQ then "Castling: -"
    else "Castling: " ++ String.ofList (
      (if np.usK then [Char.ofNat ('A'.toNat + p.cf0)] else []) ++
      (if np.usQ then [Char.ofNat ('A'.toNat + p.cf1)] else []) ++
      (if np.themK then [Char.ofNat ('a'.toNat + p.cf2)] else []) ++
      (if np.themQ then [Char.ofNat ('a'.toNat + p.cf3)] else []))
  rows ++
  [ s!"Turn: {if p.black then "Black" else "White"}",
    s!"Check: {if p.inCheck then "true" else "false"}",
    s!"Halfmoves: {np.halfmoves}",
    s!"Fullmoves: {np.fullmoves}",
    (match np.ep with | some e => "EP: " ++ String.ofList (sqName e) | none => "EP: -"),
    castling,
    "Hash: 0x" ++ String.ofList (hexDigits p.hash.toNat),
    s!"FRC: {if p.frc then "true" else "false"}" ]

def hexLine (h : BB) : String := "0x" ++ String.ofList (hexDigits h.toNat)

/-- `uci::moves::moves` — one token. Returns the new (pos, hist) and output lines; `none` = panic. -/
def applyToken (pos : Position) (hist : List BB) (t : List Char) : Option (Position × List BB × List String) :=
  let legal := legalMoves pos
  let found := legal.find? fun m => toUciChars pos m == t
  -- the conventional castling strings: mover's king home square is E1 in the mover-relative frame;
  -- only a legal castling move of the matching colour and wing is selected
  let castling (whiteString : Bool) (file : Nat) : Option Mv :=
    let mv : Mv := ⟨4, fromCoords file 0, 6⟩
    if whiteString == !pos.black && pos.c0.isSet mv.dst && legal.contains mv then some mv else none
  let mv : Option Mv :=
    match found with
    | some m => some m
    | none =>
      if t == str "e1g1" then castling true pos.cf0
      else if t == str "e1c1" then castling true pos.cf1
      else if t == str "e8g8" then castling false pos.cf0
      else if t == str "e8c8" then castling false pos.cf1
      else none
  match mv with
  | none => some (pos, hist, ["info string unknown move " ++ String.ofList t])
  | some m =>
    match pos.makemove m true with
    | none => none
    | some np => some (np, np.hash :: hist, [])

def applyTokens : List (List Char) → Position → List BB → List String → Option (Position × List BB × List String)
  | [], pos, hist, out => some (pos, hist, out)
  | t :: ts, pos, hist, out =>
    match applyToken pos hist t with
    | none => none
    | some (pos, hist, o) => applyTokens ts pos hist (out ++ o)

/-- `char::is_whitespace` (Unicode `White_Space`): what `str::trim` removes. A token produced by `split_ascii_whitespace` can still
contain U+000B, U+0085, U+00A0, U+1680, U+2000…U+200A, U+2028, U+2029, U+202F, U+205F, U+3000. -/
def isRustWhitespace (c : Char) : Bool :=
  let n := c.toNat
  (9 ≤ n && n ≤ 13) || n == 0x20 || n == 0x85 || n == 0xA0 || n == 0x1680 || (0x2000 ≤ n && n ≤ 0x200A) ||
  n == 0x2028 || n == 0x2029 || n == 0x202F || n == 0x205F || n == 0x3000

/-- `str::trim`. -/
def rustTrim (s : List Char) : List Char :=
  ((s.dropWhile isRustWhitespace).reverse.dropWhile isRustWhitespace).reverse

/-- `uci::position::position` (tokens after the word `position`). -/
def doPosition (ar : Arith) (s : UState) (toks : List (List Char)) : Option (UState × List String) :=
  let (fen, rest) : List Char × List (List Char) :=
    match toks with
    | t :: rest =>
      if t == str "startpos" then (str "startpos", rest.drop 1)
      else if t == str "fen" then
        let fenToks := rest.takeWhile (· != str "moves")
        let after := (rest.dropWhile (· != str "moves")).drop 1
        (fenToks.foldl (fun a b => a ++ b ++ [' ']) [], after)
      else ([], [])   -- NB: the iterator has consumed this token; nothing further is parsed as moves? see below
    | [] => ([], [])
  -- `fen.trim()`
  let trimmed := rustTrim fen
  match setFen ar s.pos.frc trimmed with
  | none => none
  | some p =>
    let p := { p with frc := s.pos.frc }
    match applyTokens rest p [p.hash] [] with
    | none => none
    | some (p, hist, out) => some ({ s with pos := { p with frc := s.frc }, hist := hist }, out)

/-- the callback of `setoption`; `second` = second loop (resizes the table at once). -/
def doSetoption (s : UState) (toks : List (List Char)) (second : Bool) : UState :=
  match toks with
  | n :: name :: v :: value :: _ =>
    if n != str "name" || v != str "value" then s else
    if name == str "Hash" || name == str "hash" then
      match parseUnsigned (2^64) value with
      | some size =>
        let h := max 1 (min size 4096)
        if second then { s with hashMb := h, tt := s.tt.resize h Gen.ttEntrySize } else { s with hashMb := h }
      | none => s
    else if name == str "UCI_Chess960" then
      let f := value == str "true"
      { s with frc := f, pos := { s.pos with frc := f } }
    else s
  | _ => s

def infoLine (p : Position) (i : InfoRec) : String :=
  let hf := match i.hashfull with | some h => s!" hashfull {h}" | none => ""
  let pv := if i.pv.isEmpty then "" else " pv" ++ String.join (i.pv.map fun m => " " ++ mvStr p m)
  s!"info depth {i.depth} seldepth {i.seldepth} score cp {i.score} nodes {i.nodes} time ?{hf}{pv}"

/-- `go` (tokens after the word `go`). `clock` is the stop oracle used for time-based limits. -/
def doGo (ar : Arith) (clock : Nat → Bool) (s : UState) (toks : List (List Char)) : Option (UState × List String) :=
  match parseGo toks with
  | none => some (s, [])
  | some kind =>
    let search (lim : Limit) : Option (UState × List String) :=
      match root lim 1000 s.pos s.hist s.tt with
      | none => none
      | some res =>
        let infos := res.infos.map (infoLine s.pos)
        let bm := match res.best with | some m => "bestmove " ++ mvStr s.pos m | none => "bestmove 0000"
        some ({ s with hist := res.hist, tt := res.tt }, infos ++ [bm])
    match kind with
    | .depth d => search (.depth d)
    | .nodes n => search (.nodes n)
    | .infinite => search .infinite
    | .movetime _ => search (.clock clock)
    | .time wt bt mtg =>
      let us := if s.pos.black then bt else wt
      let _ := us
      -- budget `ustime / mtg.unwrap_or(30).max(1)`; the clock itself is the stop oracle
      let _ := mtg
      search (.clock clock)
    | .perft d =>
      let lines := (List.range d).foldl (fun (acc : Option (List String)) i =>
        match acc, perft (i + 1) s.pos with
        | some l, some n =>
          some (l ++ [s!"info depth {i + 1} nodes {n} time ?"] ++ (if i + 1 == d then [s!"nodes {n}"] else []))
        | _, _ => none) (some [])
      lines.map fun l => (s, l)
    | .split d =>
      -- `depth.saturating_sub(1)`
      let _ := ar
      match some (d - 1) with
      | none => none
      | some d1 =>
        let r := (legalMoves s.pos).foldl (fun (acc : Option (List String × Nat)) m =>
          match acc, s.pos.makemove m false with
          | some (l, tot), some np =>
            (perft d1 np).map fun n => (l ++ [s!"{mvStr s.pos m} {n}"], tot + n)
          | _, _ => none) (some ([], 0))
        r.map fun (l, tot) => (s, l ++ ["time ?", s!"nodes {tot}"])

/-- one line of the second loop of `listen`. Returns `none` on panic; the Bool says "quit". -/
def stepSecond (ar : Arith) (clock : Nat → Bool) (s : UState) (line : List Char) :
    Option (UState × List String × Bool) :=
  let toks := splitWs line
  let cmd := toks.headD []
  let rest := toks.drop 1
  if cmd == str "ucinewgame" then
    let p := { Gen.startpos with frc := s.frc }
    some ({ s with pos := p, hist := [p.hash], tt := s.tt.clear }, [], false)
  else if cmd == str "isready" then some (s, ["readyok"], false)
  else if cmd == str "print" || cmd == str "display" || cmd == str "board" then some (s, displayPos s.pos, false)
  else if cmd == str "go" then (doGo ar clock s rest).map fun (s, o) => (s, o, false)
  else if cmd == str "position" then (doPosition ar s rest).map fun (s, o) => (s, o, false)
  else if cmd == str "moves" then
    (applyTokens rest s.pos s.hist []).map fun (p, h, o) => ({ s with pos := p, hist := h }, o, false)
  else if cmd == str "setoption" then some (doSetoption s rest true, [], false)
  else if cmd == str "history" then some (s, s.hist.reverse.map hexLine, false)
  else if cmd == str "eval" then some (s, [toString (eval s.pos)], false)
  else if cmd == str "quit" then some (s, [], true)
  else some (s, [], false)

def secondLoop (ar : Arith) (clock : Nat → Bool) : List (List Char) → UState → List String → Option (List String)
  | [], _, out => some out
  | l :: ls, s, out =>
    match stepSecond ar clock s l with
    | none => none
    | some (s, o, quit) => if quit then some (out ++ o) else secondLoop ar clock ls s (out ++ o)

/-- the first loop of `listen`: returns (state, got_isready, remaining lines incl. the line that broke
the loop when it is to be re-processed). `none` = quit. -/
def firstLoop : List (List Char) → UState → Option (UState × Bool × List (List Char))
  | [], s => some (s, false, [[]])         -- EOF: `input` was cleared, the second loop processes "" once
  | l :: ls, s =>
    let toks := splitWs l
    let cmd := toks.headD []
    if cmd == str "isready" then some (s, true, ls)
    else if cmd == str "setoption" then firstLoop ls (doSetoption s (toks.drop 1) false)
    else if cmd == str "quit" then none
    else some (s, false, l :: ls)

def banner (frc : Bool) (hash : Nat) : List String :=
  [ "id name Rawr ?", "id author kz04px",
    s!"option name UCI_Chess960 type check default {if frc then "true" else "false"}",
    s!"option name Hash type spin default {hash} min 1 max 4096", "uciok" ]

/-- `uci::listen::listen` on the lines that follow the initial `uci` line. `none` = the process panics. -/
def listen (ar : Arith) (clock : Nat → Bool) (lines : List (List Char)) : Option (List String) :=
  match setFen ar false (str "startpos") with
  | none => none
  | some pos =>
  let s0 : UState := { hashMb := 16, frc := false, pos := pos, hist := [pos.hash], tt := Table.new 0 Gen.ttEntrySize }
  match firstLoop lines s0 with
  | none => some (banner false 16)
  | some (s, gotReady, rest) =>
    let s := { s with tt := s.tt.resize s.hashMb Gen.ttEntrySize }
    let out := banner false 16 ++ (if gotReady then ["readyok"] else [])
    secondLoop ar clock rest s out

end Rawr
