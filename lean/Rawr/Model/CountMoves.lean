import Rawr.Model.MoveGen
/-! Model of src/chess/count_moves.rs and perft.rs. -/
namespace Rawr

/-- `Position::count_moves`. -/
def countMoves (p : Position) : Nat :=
  let q := prelude p
  let us := p.c0
  let them := p.c1
  let occ := p.occ
  let empty := p.empty
  let usPawns := p.p0 &&& us
  let pawnsPromo := usPawns &&& 0xFF000000000000#64
  let pawnsNon := usPawns &&& 0xFFFFFFFFFFFF#64
  let c := 4 * count (north (pawnsPromo &&& ~~~(q.hpinned ||| q.bpinned)) &&& empty &&& q.allowed)
  let c := c + count (north (pawnsNon &&& ~~~(q.hpinned ||| q.bpinned)) &&& empty &&& q.allowed)
  let c := c + count (northNorth (usPawns &&& ~~~(q.hpinned ||| q.bpinned)) &&& empty &&& north empty
      &&& 0xFF000000#64 &&& q.allowed)
  let c := c + 4 * count (northEast (pawnsPromo &&& ~~~q.rpinned &&& (~~~q.bpinned ||| southWest q.bxrays))
      &&& them &&& q.allowed)
  let c := c + count (northEast (pawnsNon &&& ~~~q.rpinned &&& (~~~q.bpinned ||| southWest q.bxrays))
      &&& them &&& q.allowed)
  let c := c + 4 * count (northWest (pawnsPromo &&& ~~~q.rpinned &&& (~~~q.bpinned ||| southEast q.bxrays))
      &&& them &&& q.allowed)
  let c := c + count (northWest (pawnsNon &&& ~~~q.rpinned &&& (~~~q.bpinned ||| southEast q.bxrays))
      &&& them &&& q.allowed)
  let c := c + (match p.ep with
    | none => 0
    | some ep =>
      (if (northEast (usPawns &&& ~~~q.rpinned &&& (~~~q.bpinned ||| ~~~southEast q.bxrays))).isSet ep
          && epOk p q ep (southWest (bit ep)) then 1 else 0) +
      (if (northWest (usPawns &&& ~~~q.rpinned &&& (~~~q.bpinned ||| ~~~southWest q.bxrays))).isSet ep
          && epOk p q ep (southEast (bit ep)) then 1 else 0))
  let sumOver (srcs : BB) (f : Nat → BB) : Nat := (toList srcs).foldl (fun a src => a + count (f src)) 0
  let c := c + sumOver (p.p1 &&& us &&& ~~~q.pinned) fun src => knights (bit src) &&& q.allowed
  let c := c + sumOver (p.p2 &&& us &&& q.bpinned) fun src => bishopMoves src occ &&& q.allowed &&& q.bxrays
  let c := c + sumOver (p.p2 &&& us &&& ~~~q.pinned) fun src => bishopMoves src occ &&& q.allowed
  let c := c + sumOver (p.p3 &&& us &&& q.rpinned) fun src => rookMoves src occ &&& q.allowed &&& q.rxrays
  let c := c + sumOver (p.p3 &&& us &&& ~~~q.pinned) fun src => rookMoves src occ &&& q.allowed
  let c := c + sumOver (p.p4 &&& us &&& q.bpinned) fun src => bishopMoves src occ &&& q.allowed &&& q.bxrays
  let c := c + sumOver (p.p4 &&& us &&& q.rpinned) fun src => rookMoves src occ &&& q.allowed &&& q.rxrays
  let c := c + sumOver (p.p4 &&& us &&& ~~~q.pinned) fun src => queenMoves src occ &&& q.allowed
  let c := c + (toList (p.p5 &&& us)).foldl (fun a src => a + (kingTargetsSafe p src).length) 0
  let kscSq := fromCoords p.cf0 0
  let qscSq := fromCoords p.cf1 0
  let c := c + (if castleOk p q p.usK kscSq 6 5 then 1 else 0)
  let c := c + (if castleOk p q p.usQ qscSq 2 3 then 1 else 0)
  c

end Rawr
