/-! Model of src/search/hashtable.rs : `Hashtable<T>` over a `Vec<T>`, generic in the entry type.
Since the upstream fix a zero-slot table answers every lookup with `default` and ignores stores. -/
namespace Rawr

structure Table (α : Type) where
  entries : Array α

namespace Table
variable {α : Type} [Inhabited α] [DecidableEq α]

/-- `(megabytes * 1024 * 1024) / size_of::<T>()`. -/
def numEntries (megabytes entrySize : Nat) : Nat := (megabytes * 1024 * 1024) / entrySize

/-- `Vec::resize(n, default)`: keep the prefix, pad with defaults. -/
def resize (t : Table α) (megabytes entrySize : Nat) : Table α :=
  let n := numEntries megabytes entrySize
  if n ≤ t.entries.size then ⟨t.entries.extract 0 n⟩
  else ⟨t.entries ++ Array.replicate (n - t.entries.size) default⟩

def new (megabytes entrySize : Nat) : Table α := resize ⟨#[]⟩ megabytes entrySize

def len (t : Table α) : Nat := t.entries.size

/-- `get_idx` : `key as usize % len` (panics on an empty table). -/
def idx (t : Table α) (key : Nat) : Option Nat := if t.entries.size = 0 then none else some (key % t.entries.size)

/-- `poll`: an empty table answers with the empty entry. (`none` is kept in the type for callers; it no longer occurs.) -/
def poll (t : Table α) (key : Nat) : Option α :=
  if t.entries.size = 0 then some default else t.entries[key % t.entries.size]?

/-- `add`: an empty table ignores the store. -/
def add (t : Table α) (key : Nat) (e : α) : Option (Table α) :=
  if t.entries.size = 0 then some t else some ⟨t.entries.setIfInBounds (key % t.entries.size) e⟩

def clear (t : Table α) : Table α := ⟨Array.replicate t.entries.size default⟩

def hashfull (t : Table α) : Option Nat :=
  let size := min t.entries.size 1000
  if size = 0 then none
  else some (((t.entries.extract 0 size).toList.filter fun e => e ≠ default).length)

end Table
end Rawr
