import Rawr.Model.Position
import Rawr.Generated.EvalTables
import Rawr.Generated.SearchConsts
/-! Model of src/search/eval.rs and score.rs over the translated tables. `Score(mg, eg)` is `Int × Int`;
that no `i32` operation overflows is a proved side condition (Props/C17), not an assumption. -/
namespace Rawr

abbrev Score := Int × Int
@[inline] def Score.add (a b : Score) : Score := (a.1 + b.1, a.2 + b.2)
@[inline] def Score.sub (a b : Score) : Score := (a.1 - b.1, a.2 - b.2)
@[inline] def Score.mul (a : Score) (n : Int) : Score := (a.1 * n, a.2 * n)

/-- The evaluation tables, abstracted so that theorems can be stated for arbitrary tables. -/
structure EvalTables where
  pieceValue : Nat → Score
  passed : Nat → Score
  rookOpenFile : Score
  kingPawnShield : Score
  pst : Nat → Nat → Score

def genEvalTables : EvalTables :=
  { pieceValue := fun i => Gen.evPieceValues[i]?.getD (0, 0)
    passed := fun r => Gen.evPassedPawns[r]?.getD (0, 0)
    rookOpenFile := Gen.evRookOpenFile
    kingPawnShield := Gen.evKingPawnShield
    pst := fun pc sq => Gen.evPst[pc * 64 + sq]?.getD (0, 0) }

/-- `get_passed_pawns`. -/
def passedPawns (us them : BB) : BB :=
  let m := south them ||| southEast them ||| southWest them
  let m := m ||| south m
  let m := m ||| south m
  let m := m ||| south m
  let m := m ||| south m
  us &&& ~~~m

/-- `get_open_files`. -/
def openFiles (pawns : BB) : BB :=
  ~~~(pawns <<< 56 ||| pawns <<< 48 ||| pawns <<< 40 ||| pawns <<< 32 ||| pawns <<< 24 ||| pawns <<< 16 |||
      pawns <<< 8 ||| pawns ||| pawns >>> 8 ||| pawns >>> 16 ||| pawns >>> 24 ||| pawns >>> 32 |||
      pawns >>> 40 ||| pawns >>> 48 ||| pawns >>> 56)

/-- `get_king_shield`. -/
def kingShield (ksq : Nat) : BB :=
  let bb := bit ksq
  north bb ||| northEast bb ||| northWest bb ||| north (north bb) ||| northEast (north bb) ||| northWest (north bb)

/-- `get_phase`: uses Rust's truncating `/`. -/
def phase (p : Position) : Int :=
  let ph : Int := 24 - (count p.p1 : Int) - (count p.p2 : Int) - (count p.p3 : Int) * 2 - (count p.p4 : Int) * 4
  (ph * 256 + 12).tdiv 24

/-- `taper`. -/
def taper (s : Score) (ph : Int) : Int := ((s.1 * (256 - ph)) + (s.2 * ph)).tdiv 256

/-- `eval_us`. -/
def evalUsT (T : EvalTables) (p : Position) : Score :=
  let ksq := lsb (p.p5 &&& p.c0)
  let pawnsUs := p.p0 &&& p.c0
  let pawnsThem := p.p0 &&& p.c1
  let openF := openFiles p.p0
  let s : Score := (0, 0)
  let s := (toList (passedPawns pawnsUs pawnsThem)).foldl (fun s sq => s.add (T.passed (rankOf sq))) s
  let s := s.add (T.kingPawnShield.mul (count (kingShield ksq &&& pawnsUs)))
  let s := s.add (T.rookOpenFile.mul (count (openF &&& p.c0 &&& p.p3)))
  (List.range 6).foldl (fun s i =>
    let s := s.add ((T.pieceValue i).mul (count (p.piece i &&& p.c0)))
    (toList (p.piece i &&& p.c0)).foldl (fun s sq => s.add (T.pst i sq)) s) s

/-- `eval`. -/
def evalT (T : EvalTables) (p : Position) : Int :=
  taper ((evalUsT T p).sub (evalUsT T p.flip)) (phase p)

def eval (p : Position) : Int := evalT genEvalTables p

end Rawr
