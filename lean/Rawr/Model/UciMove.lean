import Rawr.Model.Position
/-! Model of src/uci/mv.rs (`Mv::to_uci`) and the `Display` of `Square`. -/
namespace Rawr

def fileChar (f : Nat) : Char := Char.ofNat ('a'.toNat + f)
def rankChar (r : Nat) : Char := Char.ofNat ('1'.toNat + r)

/-- `Square::fmt`. -/
def sqName (s : Nat) : List Char := [fileChar (s % 8), rankChar (s / 8)]

def promoChars (pc : Nat) : List Char :=
  match pc with
  | 1 => ['n'] | 2 => ['b'] | 3 => ['r'] | 4 => ['q'] | _ => []

/-- `Mv::to_uci`. -/
def toUciChars (p : Position) (m : Mv) : List Char :=
  let src := if p.black then flipSq m.src else m.src
  let sq := if !p.frc && p.c0.isSet m.dst then (if fileOf m.dst > fileOf m.src then 6 else 2) else m.dst
  let dst := if p.black then flipSq sq else sq
  sqName src ++ sqName dst ++ promoChars m.promo

def toUci (p : Position) (m : Mv) : String := String.ofList (toUciChars p m)

end Rawr
