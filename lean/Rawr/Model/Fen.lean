import Rawr.Model.MakeMove
import Rawr.Model.UciMove
/-! Model of src/chess/set_fen.rs, from_fen.rs, get_fen.rs.

Strings are `List Char` (Unicode scalar values). The parser's `u8` arithmetic is modelled in both
build flavours: `Arith.wrap` (optimised build: wrapping add/sub/mul, shift amounts masked to 6 bits)
and `Arith.trap` (checked build: overflow panics). `none` = the parser panics = the FEN is rejected. -/
namespace Rawr

inductive Arith where
  | wrap | trap
  deriving DecidableEq, Repr

def u8sub (ar : Arith) (a b : Nat) : Option Nat :=
  if b ≤ a then some (a - b) else match ar with | .wrap => some (a + 256 - b) | .trap => none
def u8add (ar : Arith) (a b : Nat) : Option Nat :=
  if a + b < 256 then some (a + b) else match ar with | .wrap => some ((a + b) % 256) | .trap => none
def u8mul (ar : Arith) (a b : Nat) : Option Nat :=
  if a * b < 256 then some (a * b) else match ar with | .wrap => some ((a * b) % 256) | .trap => none
/-- `1u64 << sq` with a `u8` shift amount. -/
def bitAr (ar : Arith) (s : Nat) : Option BB :=
  if s < 64 then some (bit s) else match ar with | .wrap => some (bit (s % 64)) | .trap => none

/-- `str::split(' ')`. -/
def splitSpace (s : List Char) : List (List Char) :=
  let rec go (s : List Char) (cur : List Char) (acc : List (List Char)) : List (List Char) :=
    match s with
    | [] => (cur.reverse :: acc).reverse
    | c :: rest => if c == ' ' then go rest [] (cur.reverse :: acc) else go rest (c :: cur) acc
  go s [] []

/-- UTF-8 length of a scalar value (`str::len` counts bytes). -/
def utf8Len (c : Char) : Nat :=
  if c.toNat < 0x80 then 1 else if c.toNat < 0x800 then 2 else if c.toNat < 0x10000 then 3 else 4

def strLen (s : List Char) : Nat := (s.map utf8Len).sum

/-- `c as u8`. -/
def asU8 (c : Char) : Nat := c.toNat % 256

/-- `str::parse::<i32>()`: optional sign, at least one ASCII digit, no overflow. -/
def parseI32 (s : List Char) : Option Int :=
  let (neg, ds) := match s with
    | '-' :: r => (true, r)
    | '+' :: r => (false, r)
    | r => (false, r)
  if ds.isEmpty then none
  else if !(ds.all fun c => '0' ≤ c && c ≤ '9') then none
  else
    let n : Nat := ds.foldl (fun a c => a * 10 + (c.toNat - '0'.toNat)) 0
    let v : Int := if neg then -(n : Int) else n
    if -2147483648 ≤ v && v ≤ 2147483647 then some v else none

/-- board characters: (isBlack, piece index) or a skip count. -/
inductive BoardTok where
  | piece (black : Bool) (pc : Nat)
  | skip (n : Nat)
  | slash

def boardTok (c : Char) : Option BoardTok :=
  match c with
  | 'P' => some (.piece false 0) | 'N' => some (.piece false 1) | 'B' => some (.piece false 2)
  | 'R' => some (.piece false 3) | 'Q' => some (.piece false 4) | 'K' => some (.piece false 5)
  | 'p' => some (.piece true 0) | 'n' => some (.piece true 1) | 'b' => some (.piece true 2)
  | 'r' => some (.piece true 3) | 'q' => some (.piece true 4) | 'k' => some (.piece true 5)
  | '1' => some (.skip 1) | '2' => some (.skip 2) | '3' => some (.skip 3) | '4' => some (.skip 4)
  | '5' => some (.skip 5) | '6' => some (.skip 6) | '7' => some (.skip 7) | '8' => some (.skip 8)
  | '/' => some .slash
  | _ => none

/-- the board loop of `set_fen`; state = (position, idx). -/
def fenBoard (ar : Arith) : List Char → Position → Nat → Option (Position × Nat)
  | [], p, idx => some (p, idx)
  | c :: cs, p, idx => do
    let rank := idx / 8
    let file := idx % 8
    let r7 ← u8sub ar 7 rank
    let r8 ← u8mul ar 8 r7
    let sq ← u8add ar r8 file
    let bb ← bitAr ar sq
    match boardTok c with
    | none => none
    | some (.piece black pc) =>
      let p := if black then { p with c1 := p.c1 ^^^ bb } else { p with c0 := p.c0 ^^^ bb }
      let p := p.setPiece pc (p.piece pc ^^^ bb)
      let idx ← u8add ar idx 1
      fenBoard ar cs p idx
    | some (.skip n) => do
      let idx ← u8add ar idx n
      fenBoard ar cs p idx
    | some .slash => fenBoard ar cs p idx

/-- one castling letter. Returns (isBlack, file, isKingSide). -/
def castleLetter (p : Position) (c : Char) : Option (Option (Bool × Nat × Bool)) :=
  let wk := lsb (p.c0 &&& p.p5)
  let bk := lsb (p.c1 &&& p.p5)
  let whiteKs := 0xFF#64 &&& rayEastBB wk
  let whiteQs := 0xFF#64 &&& rayWestBB wk
  let blackKs := 0xFF00000000000000#64 &&& rayEastBB bk
  let blackQs := 0xFF00000000000000#64 &&& rayWestBB bk
  if c == 'K' then
    let rooks := p.c0 &&& p.p3 &&& whiteKs
    if rooks.isOcc then some (some (false, fileOf (hsb rooks), true)) else none
  else if c == 'Q' then
    let rooks := p.c0 &&& p.p3 &&& whiteQs
    if rooks.isOcc then some (some (false, fileOf (lsb rooks), false)) else none
  else if c == 'k' then
    let rooks := p.c1 &&& p.p3 &&& blackKs
    if rooks.isOcc then some (some (true, fileOf (hsb rooks), true)) else none
  else if c == 'q' then
    let rooks := p.c1 &&& p.p3 &&& blackQs
    if rooks.isOcc then some (some (true, fileOf (lsb rooks), false)) else none
  else if 'A' ≤ c && c ≤ 'H' then
    let file := asU8 c - asU8 'A'
    some (some (false, file, decide (file > fileOf wk)))
  else if 'a' ≤ c && c ≤ 'h' then
    let file := asU8 c - asU8 'a'
    some (some (true, file, decide (file > fileOf bk)))
  else if c == '-' then some none
  else none

/-- the castling loop (with the duplicate check over the characters seen so far). -/
def fenCastling : List Char → List Char → Position → Option Position
  | [], _, p => some p
  | c :: cs, seen, p =>
    if seen.contains c then none else
    match castleLetter p c with
    | none => none
    | some none => some p            -- '-' : break
    | some (some (black, file, ks)) =>
      let p := match black, ks with
        | false, true => { p with usK := true, cf0 := file }
        | false, false => { p with usQ := true, cf1 := file }
        | true, true => { p with themK := true, cf2 := file }
        | true, false => { p with themQ := true, cf3 := file }
      fenCastling cs (seen ++ [c]) p

def startFen : List Char := "rnbqkbnr/pppppppp/8/8/8/8/PPPPPPPP/RNBQKBNR w KQkq - 0 1".toList

/-- `validate` as seen from `set_fen`: additionally the checked build traps on `1u64 << ep` for ep ≥ 64. -/
def validateAr (ar : Arith) (p : Position) : Bool :=
  (match ar, p.ep with
   | .trap, some e => e < 64
   | _, _ => true) && p.validate.isNone

/-- `set_fen` on a non-"startpos" string. `frc` is the flag kept from the previous position. -/
def setFenCore (ar : Arith) (frc : Bool) (fen : List Char) : Option Position := do
  let p0 : Position := { Position.dflt with frc := frc }
  let parts := splitSpace fen
  -- board (split always yields at least one part)
  let boardPart := parts.headD []
  let (p, idx) ← fenBoard ar boardPart p0 0
  if idx != 64 then none else
  -- side to move
  let sidePart ← parts[1]?
  let shouldFlip ← (if sidePart == ['w'] || sidePart == ['W'] then some false
                    else if sidePart == ['b'] || sidePart == ['B'] then some true else none)
  if (p.c0 &&& p.p5).isEmpty || (p.c1 &&& p.p5).isEmpty then none else
  -- castling
  let p ← match parts[2]? with
    | none => some p
    | some part => fenCastling part [] p
  -- en passant
  let epPart ← parts[3]?
  let p ← (if epPart == ['-'] then some { p with ep := none }
    else if strLen epPart == 2 then
      match epPart with
      | [c1, c2] => do
        let file ← u8sub ar (asU8 c1) (asU8 'a')
        let rank ← u8sub ar (asU8 c2) (asU8 '1')
        let r8 ← u8mul ar 8 rank
        let idx ← u8add ar r8 file
        some { p with ep := some idx }
      | _ => none     -- `chars().nth(1).unwrap()` on a single two-byte character
    else none)
  -- counters
  let hmPart ← parts[4]?
  let hm ← parseI32 hmPart
  if hm < 0 then none else
  let fmPart ← parts[5]?
  let fm ← parseI32 fmPart
  if fm < 0 then none else
  if parts.length > 6 then none else
  let p := { p with halfmoves := hm, fullmoves := fm }
  let p := if shouldFlip then { p.flip with black := true } else p
  let p := { p with hash := p.calculateHash }
  if validateAr ar p then some p else none

/-- `set_fen` / `from_fen`. -/
def setFen (ar : Arith) (frc : Bool) (fen : List Char) : Option Position :=
  if fen == "startpos".toList then setFenCore ar frc startFen else setFenCore ar frc fen

/-- `i32::to_string`. -/
def natDigits : Nat → Nat → List Char → List Char
  | 0, _, acc => acc
  | fuel + 1, n, acc =>
    let acc := Char.ofNat ('0'.toNat + n % 10) :: acc
    if n / 10 == 0 then acc else natDigits fuel (n / 10) acc

def intToChars (i : Int) : List Char :=
  if i < 0 then '-' :: natDigits 12 i.natAbs [] else natDigits 12 i.toNat []

def pieceChar (pc : Nat) (black : Bool) : Char :=
  let c := match pc with
    | 0 => 'P' | 1 => 'N' | 2 => 'B' | 3 => 'R' | 4 => 'Q' | _ => 'K'
  if black then c.toLower else c

/-- one rank of the board field (`x` from 0 to 7), carrying `num_spaces`. `none` = panic("Uh oh"). -/
def fenRank (p : Position) (y : Nat) : Nat → Nat → Nat → List Char → Option (List Char)
  | 0, _, spaces, acc => some (if spaces > 0 then acc ++ intToChars spaces else acc)
  | n + 1, x, spaces, acc =>
    let sq := fromCoords x y
    let occ := p.occ.isSet sq
    let (acc, spaces) := if occ && spaces > 0 then (acc ++ intToChars spaces, 0) else (acc, spaces)
    match p.pieceOn sq, p.colourOn sq with
    | some pc, some col => fenRank p y n (x + 1) spaces (acc ++ [pieceChar pc col])
    | none, none => fenRank p y n (x + 1) (spaces + 1) acc
    | _, _ => none

/-- the X-FEN castling letter of `get_fen`: K/Q/k/q for the outermost rook of the wing, the file letter otherwise. -/
def castleLetterOut (rooks : BB) (file rank : Nat) (kingside : Bool) : Char :=
  let outer :=
    if kingside then !((List.range 8).any fun f => f > file && rooks.isSet (fromCoords f rank))
    else !((List.range 8).any fun f => f < file && rooks.isSet (fromCoords f rank))
  let c := if !outer then Char.ofNat ('a'.toNat + file) else if kingside then 'k' else 'q'
  if rank == 0 then c.toUpper else c

/-- `get_fen`. -/
def getFen (p : Position) : Option (List Char) := do
  let np := if p.black then p.flip else p
  let rec ranks (k : Nat) (y : Nat) (acc : List Char) : Option (List Char) :=
    match k with
    | 0 => some acc
    | k + 1 => do
      let r ← fenRank np y 8 0 0 []
      let acc := acc ++ r ++ (if y > 0 then ['/'] else [])
      ranks k (y - 1) acc
  let board ← ranks 8 7 []
  let side := if p.black then " b".toList else " w".toList
  let castling :=
    if !np.usK && !np.usQ && !np.themK && !np.themQ then " -".toList
    else ' ' :: ((if np.usK then [castleLetterOut (np.c0 &&& np.p3) np.cf0 0 true] else []) ++
                 (if np.usQ then [castleLetterOut (np.c0 &&& np.p3) np.cf1 0 false] else []) ++
                 (if np.themK then [castleLetterOut (np.c1 &&& np.p3) np.cf2 7 true] else []) ++
                 (if np.themQ then [castleLetterOut (np.c1 &&& np.p3) np.cf3 7 false] else []))
  let ep := match np.ep with
    | some sq => ' ' :: sqName sq
    | none => " -".toList
  some (board ++ side ++ castling ++ ep ++ [' '] ++ intToChars np.halfmoves ++ [' '] ++ intToChars np.fullmoves)

end Rawr
