import Rawr.Model.Basic
/-! Model of src/chess/position.rs, side.rs, colour.rs, piece.rs, mv.rs, flip.rs. -/
namespace Rawr

/-- Piece kinds as in piece.rs: 0 pawn, 1 knight, 2 bishop, 3 rook, 4 queen, 5 king, 6 none. -/
abbrev Pc := Nat
def Pc.none : Pc := 6

structure Mv where
  src : Nat
  dst : Nat
  promo : Pc
  deriving DecidableEq, Repr, Inhabited

/-- `Position` of position.rs. `c0`=colours[Us], `c1`=colours[Them]; `p0..p5` the six piece boards;
`black` is `turn == Colour::Black`; castle files are `u8`. -/
structure Position where
  c0 : BB
  c1 : BB
  p0 : BB
  p1 : BB
  p2 : BB
  p3 : BB
  p4 : BB
  p5 : BB
  halfmoves : Int
  fullmoves : Int
  black : Bool
  ep : Option Nat
  usK : Bool
  usQ : Bool
  themK : Bool
  themQ : Bool
  cf0 : Nat
  cf1 : Nat
  cf2 : Nat
  cf3 : Nat
  hash : BB
  frc : Bool
  deriving DecidableEq, Repr, Inhabited

namespace Position

@[inline] def us (p : Position) : BB := p.c0
@[inline] def them (p : Position) : BB := p.c1
@[inline] def side (p : Position) (them : Bool) : BB := if them then p.c1 else p.c0
@[inline] def white (p : Position) : BB := if p.black then p.c1 else p.c0
@[inline] def blackBB (p : Position) : BB := if p.black then p.c0 else p.c1
@[inline] def occ (p : Position) : BB := p.c0 ||| p.c1
@[inline] def empty (p : Position) : BB := ~~~(p.c0 ||| p.c1)
@[inline] def pawns (p : Position) : BB := p.p0
@[inline] def knightsBB (p : Position) : BB := p.p1
@[inline] def bishops (p : Position) : BB := p.p2
@[inline] def rooks (p : Position) : BB := p.p3
@[inline] def queens (p : Position) : BB := p.p4
@[inline] def kings (p : Position) : BB := p.p5

def piece (p : Position) : Nat → BB
  | 0 => p.p0 | 1 => p.p1 | 2 => p.p2 | 3 => p.p3 | 4 => p.p4 | 5 => p.p5 | _ => 0#64

def setPiece (p : Position) (i : Nat) (b : BB) : Position :=
  match i with
  | 0 => { p with p0 := b } | 1 => { p with p1 := b } | 2 => { p with p2 := b }
  | 3 => { p with p3 := b } | 4 => { p with p4 := b } | 5 => { p with p5 := b } | _ => p

/-- `get_piece_on`. -/
def pieceOn (p : Position) (s : Nat) : Option Pc :=
  if p.p0.isSet s then some 0 else if p.p1.isSet s then some 1 else if p.p2.isSet s then some 2
  else if p.p3.isSet s then some 3 else if p.p4.isSet s then some 4 else if p.p5.isSet s then some 5
  else none

/-- `get_colour_on` (true = black). -/
def colourOn (p : Position) (s : Nat) : Option Bool :=
  if p.c0.isSet s then some p.black else if p.c1.isSet s then some (!p.black) else none

/-- `is_capture`. -/
def isCapture (p : Position) (m : Mv) : Bool :=
  p.c1.isSet m.dst || (p.p0.isSet m.src && p.ep.isSome && p.ep == some m.dst)

/-- flip.rs. -/
def flip (p : Position) : Position :=
  { p with
    c0 := flipBB p.c1, c1 := flipBB p.c0,
    p0 := flipBB p.p0, p1 := flipBB p.p1, p2 := flipBB p.p2,
    p3 := flipBB p.p3, p4 := flipBB p.p4, p5 := flipBB p.p5,
    usK := p.themK, themK := p.usK, usQ := p.themQ, themQ := p.usQ,
    cf0 := p.cf2, cf2 := p.cf0, cf1 := p.cf3, cf3 := p.cf1,
    ep := p.ep.map flipSq,
    black := !p.black }

/-- `Position::default()`. -/
def dflt : Position :=
  { c0 := 0, c1 := 0, p0 := 0, p1 := 0, p2 := 0, p3 := 0, p4 := 0, p5 := 0,
    halfmoves := 0, fullmoves := 1, black := false, ep := none,
    usK := false, usQ := false, themK := false, themQ := false,
    cf0 := 7, cf1 := 0, cf2 := 7, cf3 := 0, hash := 0, frc := false }

end Position
end Rawr
