import Rawr.Model.Basic
/-! Model of src/chess/rays.rs : the eight unrolled 7-step fills, knights, pawns. -/
namespace Rawr

/-- One fill in direction `step` exactly as unrolled in rays.rs. -/
@[inline] def rayFill (step : BB → BB) (s : Nat) (blockers : BB) : BB :=
  let m := step (bit s)
  let m := m ||| step (m &&& ~~~blockers)
  let m := m ||| step (m &&& ~~~blockers)
  let m := m ||| step (m &&& ~~~blockers)
  let m := m ||| step (m &&& ~~~blockers)
  let m := m ||| step (m &&& ~~~blockers)
  let m := m ||| step (m &&& ~~~blockers)
  m

def rayNE := rayFill northEast
def rayNW := rayFill northWest
def raySE := rayFill southEast
def raySW := rayFill southWest
def rayN := rayFill north
def rayS := rayFill south
def rayE := rayFill east
def rayW := rayFill west

/-- `rays::knights`. -/
def knights (b : BB) : BB :=
  northEast (north b) ||| northWest (north b) ||| southEast (south b) ||| southWest (south b) |||
  northEast (east b) ||| southEast (east b) ||| northWest (west b) ||| southWest (west b)

/-- `rays::pawns::<US>`. -/
def pawnsAtt (us : Bool) (b : BB) : BB :=
  if us then northEast b ||| northWest b else southEast b ||| southWest b

end Rawr
