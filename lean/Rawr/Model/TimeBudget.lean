/-!
The clock arithmetic of `search::root::root` (src/search/root.rs, closure `should_stop`).

```rust
settings::Type::Time(wtime, btime, _, _, mtg) => {
    let ustime = if pos.get_turn() == Colour::White { wtime } else { btime };
    start.elapsed().as_millis() >= (ustime / mtg.unwrap_or(30).max(1)) as u128
}
settings::Type::Movetime(time) => start.elapsed().as_millis() >= time as u128,
```
`wtime`, `btime`, `mtg`, `time` are `u32`; the only operation is an unsigned division by a non-zero number, so `Nat`
arithmetic is exact. The search model (`Rawr.Limit.clock`) sees the clock as a stop oracle indexed by the poll number;
`budgetOracle` is the oracle these two arms induce from the reading of the clock at every poll.
-/
namespace Rawr

/-- milliseconds the `Time` arm allows: the mover's clock divided by the moves to go (30 when absent, at least 1). -/
def timeBudget (whiteToMove : Bool) (wtime btime : Nat) (mtg : Option Nat) : Nat :=
  let ustime := if whiteToMove then wtime else btime
  ustime / (Nat.max (mtg.getD 30) 1)

/-- milliseconds the `Movetime` arm allows. -/
def movetimeBudget (time : Nat) : Nat := time

/-- the stop oracle induced by a budget: poll `k` answers `elapsed k ≥ budget`. -/
def budgetOracle (budget : Nat) (elapsed : Nat → Nat) : Nat → Bool := fun k => decide (elapsed k ≥ budget)

end Rawr
