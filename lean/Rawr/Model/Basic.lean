/-
Model of src/chess/bitboard.rs, bitboarditer.rs, square.rs (executable, core Lean only).
Bitboards are `BitVec 64`; squares are `Nat` (the Rust `Square(u8)`), file = s % 8, rank = s / 8.
-/
namespace Rawr

abbrev BB := BitVec 64

/-- `Bitboard::from_square` for in-range squares (`1u64 << sq`). -/
@[inline] def bit (s : Nat) : BB := 1#64 <<< s

@[inline] def BB.isSet (b : BB) (s : Nat) : Bool := b.getLsbD s
@[inline] def BB.isEmpty (b : BB) : Bool := b == 0#64
@[inline] def BB.isOcc (b : BB) : Bool := b != 0#64

def notAFile : BB := 0xfefefefefefefefe#64
def notHFile : BB := 0x7f7f7f7f7f7f7f7f#64

@[inline] def north (b : BB) : BB := b <<< 8
@[inline] def south (b : BB) : BB := b >>> 8
@[inline] def east (b : BB) : BB := (b <<< 1) &&& notAFile
@[inline] def west (b : BB) : BB := (b >>> 1) &&& notHFile
@[inline] def northEast (b : BB) : BB := (b <<< 9) &&& notAFile
@[inline] def northWest (b : BB) : BB := (b <<< 7) &&& notHFile
@[inline] def southEast (b : BB) : BB := (b >>> 7) &&& notAFile
@[inline] def southWest (b : BB) : BB := (b >>> 9) &&& notHFile
@[inline] def northNorth (b : BB) : BB := b <<< 16

/-- `for sq in bb` : the set bits in ascending order (`BitboardIter`). -/
def toList (b : BB) : List Nat := (List.range 64).filter (fun i => b.getLsbD i)

/-- `count_ones`. -/
def count (b : BB) : Nat := (toList b).length

/-- `trailing_zeros` (64 on the empty board). -/
def lsb (b : BB) : Nat := (toList b).head?.getD 64

/-- `63 - leading_zeros` as `u8` in the optimised build (255 on the empty board; the checked build traps). -/
def hsb (b : BB) : Nat := (toList b).getLast?.getD 255

/-- `u64::swap_bytes` : mirrors the ranks. -/
def flipBB (b : BB) : BB :=
  (b <<< 56) |||
  ((b &&& 0x000000000000ff00#64) <<< 40) |||
  ((b &&& 0x0000000000ff0000#64) <<< 24) |||
  ((b &&& 0x00000000ff000000#64) <<< 8) |||
  ((b >>> 8) &&& 0x00000000ff000000#64) |||
  ((b >>> 24) &&& 0x0000000000ff0000#64) |||
  ((b >>> 40) &&& 0x000000000000ff00#64) |||
  (b >>> 56)

@[inline] def fileOf (s : Nat) : Nat := s % 8
@[inline] def rankOf (s : Nat) : Nat := s / 8
@[inline] def flipSq (s : Nat) : Nat := s ^^^ 56
@[inline] def fromCoords (x y : Nat) : Nat := 8 * y + x

def fileBB (s : Nat) : BB := 0x0101010101010101#64 <<< fileOf s
def rankBB (s : Nat) : BB := 0xff#64 <<< (8 * rankOf s)

/-- `Bitboard((1u64 << sq) - 1)`. -/
def below (s : Nat) : BB := bit s - 1#64

/-- `Bitboard::ray_east` (bitboard.rs; precedence: `&` binds tighter than `^`). -/
def rayEastBB (s : Nat) : BB := (rankBB s &&& ~~~ below s) ^^^ bit s
def rayWestBB (s : Nat) : BB := rankBB s &&& below s
def rayNorthBB (s : Nat) : BB := (fileBB s &&& ~~~ below s) ^^^ bit s
def raySouthBB (s : Nat) : BB := fileBB s &&& below s

/-- `Bitboard::adjacent`. -/
def adjacent (b : BB) : BB :=
  (b <<< 8) ||| (b >>> 8) |||
  (((b <<< 7) ||| (b >>> 9) ||| (b >>> 1)) &&& notHFile) |||
  (((b >>> 7) ||| (b <<< 9) ||| (b <<< 1)) &&& notAFile)

/-- `Bitboard::from_adj_files`. -/
def adjFiles (s : Nat) : BB := east (fileBB s) ||| west (fileBB s)

end Rawr
