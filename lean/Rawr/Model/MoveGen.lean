import Rawr.Model.Attacks
/-! Model of src/chess/move_generator.rs, legal_moves.rs, legal_captures.rs.
The generator's first half (rays from the king, checkers, `allowed`, pin sets) is textually identical
in move_generator.rs and count_moves.rs (the translator checks that); it is modelled once as `prelude`. -/
namespace Rawr

/-- `line_between(sq1, sq2)` (move_generator.rs / count_moves.rs). -/
def lineBetween (s1 s2 : Nat) : BB :=
  ((below s1 ^^^ below s2) &&& ~~~bit s1 &&& ~~~bit s2) ||| bit s2

structure Prelude where
  ksq : Nat
  rayNE : BB
  raySW : BB
  rayNW : BB
  raySE : BB
  rayN : BB
  rayS : BB
  rayE : BB
  rayW : BB
  allAttackers : BB
  inCheck : Bool
  allowed : BB
  bpinned : BB
  bxrays : BB
  vpinned : BB
  vxrays : BB
  hpinned : BB
  hxrays : BB
  rxrays : BB
  rpinned : BB
  pinned : BB

/-- one `if (ray & us).is_occupied() { let sq = (ray & us).lsb(); let xray = ray_fn(sq, occ); if (xray & checkers).is_occupied() { pinned |= sq; xrays |= xray | ray } }` block. -/
@[inline] def pinStep (rayFn : Nat → BB → BB) (ray us occ checkers : BB) (acc : BB × BB) : BB × BB :=
  if (ray &&& us).isOcc then
    let sq := lsb (ray &&& us)
    let xray := rayFn sq occ
    if (xray &&& checkers).isOcc then (acc.1 ||| bit sq, acc.2 ||| (xray ||| ray)) else acc
  else acc

def prelude (p : Position) : Prelude :=
  let us := p.c0
  let them := p.c1
  let occ := p.occ
  let ksq := lsb (p.p5 &&& us)
  let themBQ := them &&& (p.p2 ||| p.p4)
  let themRQ := them &&& (p.p3 ||| p.p4)
  let diag := themBQ.isOcc
  let orth := themRQ.isOcc
  let rNE := if diag then rayNE ksq occ else 0#64
  let rSW := if diag then raySW ksq occ else 0#64
  let rNW := if diag then rayNW ksq occ else 0#64
  let rSE := if diag then raySE ksq occ else 0#64
  let rN := if orth then rayN ksq occ else 0#64
  let rS := if orth then rayS ksq occ else 0#64
  let rE := if orth then rayE ksq occ else 0#64
  let rW := if orth then rayW ksq occ else 0#64
  let bishopRays := rNE ||| rSW ||| rNW ||| rSE
  let rookRays := rN ||| rS ||| rE ||| rW
  let pawnAttackers := (northEast (us &&& p.p5) ||| northWest (us &&& p.p5)) &&& them &&& p.p0
  let knightAttackers := knights (bit ksq) &&& p.p1 &&& them
  let bishopAttackers := bishopRays &&& them &&& (p.p2 ||| p.p4)
  let rookAttackers := rookRays &&& them &&& (p.p3 ||| p.p4)
  let all := pawnAttackers ||| knightAttackers ||| bishopAttackers ||| rookAttackers
  let allowed : BB :=
    if count all > 1 then 0#64
    else if (rNE &&& bishopAttackers).isOcc then rNE
    else if (rNW &&& bishopAttackers).isOcc then rNW
    else if (rSE &&& bishopAttackers).isOcc then rSE
    else if (rSW &&& bishopAttackers).isOcc then rSW
    else if (rN &&& rookAttackers).isOcc then rN
    else if (rE &&& rookAttackers).isOcc then rE
    else if (rS &&& rookAttackers).isOcc then rS
    else if (rW &&& rookAttackers).isOcc then rW
    else if all.isOcc then all
    else ~~~us
  let b0 : BB × BB := (0#64, 0#64)
  let b1 := pinStep rayNE rNE us occ themBQ b0
  let b2 := pinStep rayNW rNW us occ themBQ b1
  let b3 := pinStep raySE rSE us occ themBQ b2
  let b4 := pinStep raySW rSW us occ themBQ b3
  let bpinned := b4.1
  let bxrays := b4.2 ||| (p.p5 &&& us)
  let v1 := pinStep rayN rN us occ themRQ b0
  let v2 := pinStep rayS rS us occ themRQ v1
  let h1 := pinStep rayE rE us occ themRQ b0
  let h2 := pinStep rayW rW us occ themRQ h1
  { ksq := ksq, rayNE := rNE, raySW := rSW, rayNW := rNW, raySE := rSE,
    rayN := rN, rayS := rS, rayE := rE, rayW := rW,
    allAttackers := all, inCheck := all.isOcc, allowed := allowed,
    bpinned := bpinned, bxrays := bxrays, vpinned := v2.1, vxrays := v2.2,
    hpinned := h2.1, hxrays := h2.2, rxrays := h2.2 ||| v2.2, rpinned := v2.1 ||| h2.1,
    pinned := bpinned ||| (v2.1 ||| h2.1) }

/-- A generated move together with the `piece` argument the callback receives. -/
structure GMv where
  piece : Pc
  mv : Mv
  deriving DecidableEq, Repr, Inhabited

@[inline] def gm (pc src dst promo : Nat) : GMv := ⟨pc, ⟨src, dst, promo⟩⟩

/-- the four promotions, or one plain move, for a pawn arriving on `to` from `to - d`. -/
def pawnArrive (d : Nat) (to : Nat) : List GMv :=
  if rankOf to == 7 then
    [gm 0 (to - d) to 4, gm 0 (to - d) to 3, gm 0 (to - d) to 2, gm 0 (to - d) to 1]
  else [gm 0 (to - d) to 6]

/-- the en-passant test shared by both directions; `side` is the third toggled square. -/
def epOk (p : Position) (q : Prelude) (ep : Nat) (side : BB) : Bool :=
  let rq := p.c1 &&& (p.p3 ||| p.p4)
  let blockers := p.occ ^^^ bit ep ^^^ south (bit ep) ^^^ side
  (q.allowed.isSet ep || (north q.allowed).isSet ep) &&
    ((rayE q.ksq blockers &&& rq).isEmpty && (rayW q.ksq blockers &&& rq).isEmpty)

def kingTargetsSafe (p : Position) (src : Nat) : List Nat :=
  (toList (adjacent (bit src) &&& ~~~p.c0)).filter fun to =>
    isSafe to (p.occ ^^^ bit src) (p.c1 &&& p.p0) (p.c1 &&& p.p1) (p.c1 &&& p.p2)
      (p.c1 &&& p.p3) (p.c1 &&& p.p4) (p.c1 &&& p.p5)

/-- the castling test; `rookSq` is the castling rook's square, `kTo`/`rTo` the king/rook targets. -/
def castleOk (p : Position) (q : Prelude) (right : Bool) (rookSq kTo rTo : Nat) : Bool :=
  let kingPath := lineBetween q.ksq kTo
  let rookPath := lineBetween rookSq rTo
  let both := kingPath ||| rookPath
  right && !q.inCheck && !q.hpinned.isSet rookSq &&
    (p.occ &&& both &&& ~~~bit q.ksq &&& ~~~bit rookSq).isEmpty &&
    !p.isBbAttacked kingPath true

/-- `Position::move_generator`: the callback invocations in order. -/
def moveGenerator (p : Position) : List GMv :=
  let q := prelude p
  let us := p.c0
  let them := p.c1
  let occ := p.occ
  let empty := p.empty
  let usPawns := p.p0 &&& us
  -- singles
  let singles := (toList (north (usPawns &&& ~~~(q.hpinned ||| q.bpinned)) &&& empty &&& q.allowed)).flatMap
    (pawnArrive 8)
  -- doubles
  let doubles := (toList (northNorth (usPawns &&& ~~~(q.hpinned ||| q.bpinned)) &&& empty &&& north empty
      &&& 0xFF000000#64 &&& q.allowed)).map fun to => gm 0 (to - 16) to 6
  -- capture NE  (`.north().east()`)
  let capNE := (toList (east (north (usPawns &&& ~~~q.rpinned &&& (~~~q.bpinned ||| southWest q.bxrays)))
      &&& them &&& q.allowed)).flatMap (pawnArrive 9)
  -- capture NW
  let capNW := (toList (northWest (usPawns &&& ~~~q.rpinned &&& (~~~q.bpinned ||| southEast q.bxrays))
      &&& them &&& q.allowed)).flatMap (pawnArrive 7)
  -- en passant
  let eps : List GMv :=
    match p.ep with
    | none => []
    | some ep =>
      let a := if (northEast (usPawns &&& ~~~q.rpinned &&& (~~~q.bpinned ||| ~~~southEast q.bxrays))).isSet ep
                  && epOk p q ep (southWest (bit ep)) then [gm 0 (ep - 9) ep 6] else []
      let b := if (northWest (usPawns &&& ~~~q.rpinned &&& (~~~q.bpinned ||| ~~~southWest q.bxrays))).isSet ep
                  && epOk p q ep (southEast (bit ep)) then [gm 0 (ep - 7) ep 6] else []
      a ++ b
  let kn := (toList (p.p1 &&& us &&& ~~~q.pinned)).flatMap fun src =>
    (toList (knights (bit src) &&& q.allowed)).map fun to => gm 1 src to 6
  let slider (pc : Nat) (srcs : BB) (f : Nat → BB) : List GMv :=
    (toList srcs).flatMap fun src => (toList (f src)).map fun to => gm pc src to 6
  let bPinned := slider 2 (p.p2 &&& us &&& q.bpinned) fun src => bishopMoves src occ &&& q.allowed &&& q.bxrays
  let bFree := slider 2 (p.p2 &&& us &&& ~~~q.pinned) fun src => bishopMoves src occ &&& q.allowed
  let rPinned := slider 3 (p.p3 &&& us &&& q.rpinned) fun src => rookMoves src occ &&& q.allowed &&& q.rxrays
  let rFree := slider 3 (p.p3 &&& us &&& ~~~q.pinned) fun src => rookMoves src occ &&& q.allowed
  let qB := slider 4 (p.p4 &&& us &&& q.bpinned) fun src => bishopMoves src occ &&& q.allowed &&& q.bxrays
  let qR := slider 4 (p.p4 &&& us &&& q.rpinned) fun src => rookMoves src occ &&& q.allowed &&& q.rxrays
  let qFree := slider 4 (p.p4 &&& us &&& ~~~q.pinned) fun src => queenMoves src occ &&& q.allowed
  let king := (toList (p.p5 &&& us)).flatMap fun src => (kingTargetsSafe p src).map fun to => gm 5 src to 6
  let kscSq := fromCoords p.cf0 0
  let qscSq := fromCoords p.cf1 0
  let ksc := if castleOk p q p.usK kscSq 6 5 then [gm 5 q.ksq kscSq 6] else []
  let qsc := if castleOk p q p.usQ qscSq 2 3 then [gm 5 q.ksq qscSq 6] else []
  singles ++ doubles ++ capNE ++ capNW ++ eps ++ kn ++ bPinned ++ bFree ++ rPinned ++ rFree
    ++ qB ++ qR ++ qFree ++ king ++ ksc ++ qsc

/-- `legal_moves`. -/
def legalMoves (p : Position) : List Mv := (moveGenerator p).map (·.mv)

/-- `legal_captures`. -/
def legalCaptures (p : Position) : List Mv :=
  ((moveGenerator p).filter fun g =>
    p.c1.isSet g.mv.dst || (g.piece == 0 && p.ep.isSome && p.ep == some g.mv.dst)).map (·.mv)

end Rawr
