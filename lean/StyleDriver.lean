import Rawr.Model.Style
import Rawr.Proofs.StyleWF
/-!
Line-protocol driver for the model of `tools/style/style.py` (`Rawr.Style`).  One request per line,
one answer line per request.  The driver holds 16 `Stats` registers (one per filter of the tool);
every request works on the selected one.

    variant current|guarded   which text of the script the score functions model (default current:
                          /repo as it stands; guarded: with the proposed zero guards)   -> ok
    use <k>               select register k < 16                                -> ok
    resetall              every register := Stats(), select register 0          -> ok
    reset                 register := Stats()                                   -> ok
    game <G>              analyse_game(G, side, register); assert(is_valid)     -> ok | err <class>
    wf <G>                the well-formedness predicate `wfGame side G`         -> 1 | 0
    stats                 every field of the register                           -> <canonical text>
    valid                 is_valid(register)                                    -> ok 1 | ok 0 | err <class>
    scores                the three score functions                            -> agg=<r> pos=<r> pawn=<r>
    features              every feature function                               -> <name>=<r> ...
    main                  `mainScores` (what `main` prints for this filter)     -> none | <r> <r> <r> | err <class>

`<G>` is `side result fw(5) fb(5) n ply_1 … ply_n`: side 1 = white; result `w`/`b`/`d`;
`fw`,`fb` = final pawns knights bishops rooks queens of White / Black; each ply is 17 numbers
`turn piece from to capture ks qs check qW qB rW rB nW nB bW bB enemyKing`.
`<r>` is `none`, `ok:num/den` or `err:<class>`; classes are `ZeroDivisionError`, `AssertionError`,
`IndexError`.
-/
open Rawr.Style

def tok (s : String) : List String :=
  (s.trimAscii.toString.splitOn " ").filter (· ≠ "")

def nat! (s : String) : Nat := s.toNat?.getD 0
def sq! (s : String) : Square := ⟨nat! s % 64, Nat.mod_lt _ (by decide)⟩
def b01 (s : String) : Bool := s == "1"

def errName : PyErr → String
  | .zeroDivision => "ZeroDivisionError"
  | .assertion => "AssertionError"
  | .index => "IndexError"

def parsePly : List String → Option (Ply × List String)
  | turn :: piece :: frm :: to :: cap :: ks :: qs :: chk :: qW :: qB :: rW :: rB :: nW :: nB :: bW :: bB ::
      ek :: rest =>
    some ({ turn := b01 turn, piece := nat! piece, frm := sq! frm, to := sq! to, isCapture := b01 cap,
            ksCastle := b01 ks, qsCastle := b01 qs, checkAfter := b01 chk,
            queensW := nat! qW, queensB := nat! qB, rooksW := nat! rW, rooksB := nat! rB,
            knightsW := nat! nW, knightsB := nat! nB, bishopsW := nat! bW, bishopsB := nat! bB,
            enemyKing := sq! ek }, rest)
  | _ => none

def parsePlies : Nat → List String → List Ply → Option (List Ply)
  | 0, [], acc => some acc.reverse
  | 0, _ :: _, _ => none
  | n + 1, t, acc =>
    match parsePly t with
    | some (p, rest) => parsePlies n rest (p :: acc)
    | none => none

def parseCounts : List String → Option (PieceCounts × List String)
  | p :: n :: b :: r :: q :: rest => some (⟨nat! p, nat! n, nat! b, nat! r, nat! q⟩, rest)
  | _ => none

def parseGame : List String → Option (Color × Game)
  | side :: res :: rest =>
    let result? : Option Result :=
      match res with
      | "w" => some .whiteWins | "b" => some .blackWins | "d" => some .draw | _ => none
    match result?, parseCounts rest with
    | some result, some (fw, rest) =>
      match parseCounts rest with
      | some (fb, n :: rest) =>
        match parsePlies (nat! n) rest [] with
        | some plies => some (b01 side, { result := result, plies := plies, finalWhite := fw, finalBlack := fb })
        | none => none
      | _ => none
    | _, _ => none
  | _ => none

/-- `len|i:v,i:v,...` (non-zero entries only). -/
def showList (l : List Nat) : String :=
  let nz := (l.zipIdx.filter fun (v, _) => v != 0).map fun (v, i) => s!"{i}:{v}"
  s!"{l.length}|{",".intercalate nz}"

def showStats (s : Stats) : String :=
  " ".intercalate
    [ s!"num_wins={s.numWins}", s!"num_draws={s.numDraws}", s!"num_losses={s.numLosses}",
      s!"num_games={s.numGames}", s!"castle_first={s.castleFirst}", s!"castle_second={s.castleSecond}",
      s!"castle_never={s.castleNever}", s!"castle_king={s.castleKing}", s!"castle_queen={s.castleQueen}",
      s!"castle_same={s.castleSame}", s!"castle_opposite={s.castleOpposite}",
      s!"total_captures={s.totalCaptures}", s!"total_noncaptures={s.totalNoncaptures}",
      s!"total_moves={s.totalMoves}", s!"checks={s.checks}", s!"nonchecks={s.nonchecks}",
      s!"early_captures={s.earlyCaptures}", s!"mid_captures={s.midCaptures}",
      s!"late_captures={s.lateCaptures}", s!"extreme_captures={s.extremeCaptures}",
      s!"capture_distance={showList s.captureDistance}",
      s!"noncapture_distance={showList s.noncaptureDistance}",
      s!"game_length={showList s.gameLength}", s!"short_games={s.shortGames}",
      s!"medium_games={s.mediumGames}", s!"long_games={s.longGames}", s!"extreme_games={s.extremeGames}",
      s!"no_queens={showList s.noQueens}", s!"total_trades={s.totalTrades}",
      s!"early_trades={s.earlyTrades}", s!"mid_trades={s.midTrades}", s!"late_trades={s.lateTrades}",
      s!"num_QvRR={s.numQvRR}", s!"num_RRvQ={s.numRRvQ}", s!"num_Qv3minor={s.numQv3minor}",
      s!"num_3minorvQ={s.num3minorvQ}", s!"num_win_ahead={s.numWinAhead}",
      s!"num_win_equal={s.numWinEqual}", s!"num_win_behind={s.numWinBehind}",
      s!"final_material={showList s.finalMaterial}",
      s!"early_pawn_pushes={showList s.earlyPawnPushes}", s!"mid_pawn_pushes={showList s.midPawnPushes}",
      s!"late_pawn_pushes={showList s.latePawnPushes}", s!"total_pawn_pushes={s.totalPawnPushes}",
      s!"total_pawn_pushes_towards_king={s.totalPawnPushesTowardsKing}",
      s!"num_rook_threats={s.numRookThreats}", s!"num_bishop_threats={s.numBishopThreats}" ]

def showQ (q : Q) : String := s!"ok:{q.num}/{q.den}"

def showOQ : Except PyErr (Option Q) → String
  | .ok none => "none"
  | .ok (some q) => showQ q
  | .error e => s!"err:{errName e}"

def showEQ : Except PyErr Q → String
  | .ok q => showQ q
  | .error e => s!"err:{errName e}"

def showFeatures (pre : String) (fs : List Feature) (s : Stats) : List String :=
  fs.map fun f => s!"{pre}/{f.name.replace " " "_"}={showEQ (f.func s)}"

def handle (v : Variant) (reg : Stats) (line : String) : Stats × String :=
  match tok line with
  | [] => (reg, "")
  | ["reset"] => (Stats.fresh, "ok")
  | "game" :: rest =>
    match parseGame rest with
    | none => (reg, "bad-op")
    | some (side, g) =>
      match analysePgn [(g, side)] reg with
      | .ok s => (s, "ok")
      | .error e => (reg, s!"err {errName e}")
  | "wf" :: rest =>
    match parseGame rest with
    | none => (reg, "bad-op")
    | some (side, g) => (reg, if wfGame side g then "1" else "0")
  | ["stats"] => (reg, showStats reg)
  | ["valid"] =>
    (reg, match isValid reg with
      | .ok b => if b then "ok 1" else "ok 0"
      | .error e => s!"err {errName e}")
  | ["scores"] =>
    (reg, s!"agg={showOQ (getAggressionScore v reg)} pos={showOQ (getPositionalScore v reg)} pawn={showOQ (getPawnPusherScore reg)}")
  | ["features"] =>
    (reg, " ".intercalate (showFeatures "agg" (Aggression.features v) reg ++
      showFeatures "pos" (Positional.features v) reg ++ showFeatures "pawn" PawnPusher.features reg))
  | ["main"] =>
    (reg, match mainScores v reg with
      | .ok none => "none"
      | .ok (some sc) => s!"{showOQ (.ok sc.aggressive)} {showOQ (.ok sc.positional)} {showOQ (.ok sc.pawnPusher)}"
      | .error e => s!"err {errName e}")
  | _ => (reg, "bad-op")

structure St where
  regs : Array Stats := Array.replicate 16 Stats.fresh
  cur : Nat := 0
  variant : Variant := .current

def handleSt (st : St) (line : String) : St × String :=
  match tok line with
  | ["use", k] => if nat! k < st.regs.size then ({ st with cur := nat! k }, "ok") else (st, "bad-op")
  | ["resetall"] => ({ variant := st.variant }, "ok")
  | ["variant", "current"] => ({ st with variant := .current }, "ok")
  | ["variant", "guarded"] => ({ st with variant := .guarded }, "ok")
  | _ =>
    let (r, ans) := handle st.variant (st.regs.getD st.cur Stats.fresh) line
    ({ st with regs := st.regs.setIfInBounds st.cur r }, ans)

partial def loop (h : IO.FS.Stream) (out : IO.FS.Stream) (st : St) : IO Unit := do
  let line ← h.getLine
  if line.isEmpty then return ()
  let (st, ans) := handleSt st line
  out.putStrLn ans
  out.flush
  loop h out st

def main : IO Unit := do
  loop (← IO.getStdin) (← IO.getStdout) {}
