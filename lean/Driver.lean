import Rawr.Abs
import Rawr.Gen
import Rawr.Model.CountMoves
import Rawr.Model.Search
import Rawr.Model.UciMove
import Rawr.Model.Fen
import Rawr.Model.Uci
import Rawr.Spec.Fen
/-! Line-protocol driver: one request per line in, one canonical line out.
Model requests have the same names as the harness (`hx`) requests; specification (oracle) requests
start with `s`; generator requests start with `g`. -/
open Rawr Rawr.Spec

def tok (s : String) : List String :=
  (s.trimAscii.toString.splitOn " ").filter (· ≠ "")

def nat! (s : String) : Nat := s.toNat?.getD 0
def bb! (s : String) : BB := BitVec.ofNat 64 (nat! s)
def b01 (s : String) : Bool := s == "1"
def showB (b : Bool) : String := if b then "1" else "0"

/-- 22 tokens → position. -/
def parsePos (t : List String) : Option (Position × List String) :=
  match t with
  | c0 :: c1 :: p0 :: p1 :: p2 :: p3 :: p4 :: p5 :: hm :: fm :: bl :: ep :: uk :: uq :: tk :: tq ::
      f0 :: f1 :: f2 :: f3 :: h :: frc :: rest =>
    some ({ c0 := bb! c0, c1 := bb! c1, p0 := bb! p0, p1 := bb! p1, p2 := bb! p2, p3 := bb! p3,
            p4 := bb! p4, p5 := bb! p5, halfmoves := hm.toInt?.getD 0, fullmoves := fm.toInt?.getD 0,
            black := b01 bl, ep := if ep == "-" then none else some (nat! ep),
            usK := b01 uk, usQ := b01 uq, themK := b01 tk, themQ := b01 tq,
            cf0 := nat! f0, cf1 := nat! f1, cf2 := nat! f2, cf3 := nat! f3, hash := bb! h, frc := b01 frc },
          rest)
  | _ => none

def showPos (p : Position) : String :=
  " ".intercalate
    [toString p.c0.toNat, toString p.c1.toNat, toString p.p0.toNat, toString p.p1.toNat,
     toString p.p2.toNat, toString p.p3.toNat, toString p.p4.toNat, toString p.p5.toNat,
     toString p.halfmoves, toString p.fullmoves, showB p.black,
     (match p.ep with | some e => toString e | none => "-"),
     showB p.usK, showB p.usQ, showB p.themK, showB p.themQ,
     toString p.cf0, toString p.cf1, toString p.cf2, toString p.cf3, toString p.hash.toNat, showB p.frc]

def showMv (m : Mv) : String := s!"{m.src}:{m.dst}:{m.promo}"
def showGMv (g : GMv) : String := s!"{g.piece}:{g.mv.src}:{g.mv.dst}:{g.mv.promo}"
def showMvs (l : List Mv) : String := if l.isEmpty then "-" else " ".intercalate (l.map showMv)

def parseMv (t : List String) : Option (Mv × List String) :=
  match t with
  | a :: b :: c :: rest => some (⟨nat! a, nat! b, nat! c⟩, rest)
  | _ => none

def mvKey (m : Mv) : Nat := m.src * 4096 + m.dst * 8 + m.promo
def sortMvs (l : List Mv) : List Mv := l.mergeSort fun a b => mvKey a ≤ mvKey b

/-- canonical text of an absolute position (board from a8.. like a FEN without run lengths). -/
def showAbs (a : APos) : String :=
  let ch (o : Option Piece) : Char :=
    match o with
    | none => '.'
    | some pc =>
      let c := match pc.kind with
        | .pawn => 'p' | .knight => 'n' | .bishop => 'b' | .rook => 'r' | .queen => 'q' | .king => 'k'
      if pc.white then c.toUpper else c
  let board := String.ofList ((List.range 64).map fun i => ch (a.board ((7 - i / 8) * 8 + i % 8)))
  let r (o : Option Nat) : String := match o with | some f => toString f | none => "-"
  s!"{board} {if a.whiteToMove then "w" else "b"} {r a.wK}{r a.wQ}{r a.bK}{r a.bQ} {r a.ep} {a.half} {a.full}"

def handleModel (cmd : String) (p : Position) (rest : List String) : String :=
  match cmd, rest with
  | "gen", _ => let l := moveGenerator p; if l.isEmpty then "-" else " ".intercalate (l.map showGMv)
  | "moves", _ => showMvs (legalMoves p)
  | "count", _ => toString (countMoves p)
  | "caps", _ => showMvs (legalCaptures p)
  | "iscap", r => match parseMv r with
      | some (m, _) => showB (p.isCapture m) | none => "bad-op"
  | "att", [s, t] => showB (p.isSqAttacked (nat! s) (b01 t))
  | "attbb", [b, t] => showB (p.isBbAttacked (bb! b) (b01 t))
  | "getatt", [b, t] => toString (p.getAttacked (bb! b) (b01 t)).toNat
  | "check", _ => s!"{showB p.inCheck} {showB p.inCheckThem}"
  | "make", r => match parseMv r with
      | some (m, [u]) => (match p.makemove m (b01 u) with | some q => showPos q | none => "PANIC")
      | _ => "bad-op"
  | "null", _ => showPos p.makenull
  | "key", _ => s!"{p.hash.toNat} {p.calculateHash.toNat}"
  | "pkey", r => match parseMv r with
      | some (m, _) => (match p.predictHash m with | some h => toString h.toNat | none => "PANIC")
      | none => "bad-op"
  | "valid", _ => (match p.validate with | none => "ok" | some e => e)
  | "flip", _ => showPos p.flip
  | "perft", [d] => (match perft (nat! d) p with | some n => toString n | none => "PANIC")
  | "feat", _ =>
      let q := prelude p
      let ms := moveGenerator p
      let promos := (ms.filter fun g => g.mv.promo != 6).length
      let castles := (ms.filter fun g => p.c0.isSet g.mv.dst).length
      let eps := (ms.filter fun g => g.piece == 0 && p.ep == some g.mv.dst).length
      s!"chk={count q.allAttackers} pin={count q.pinned} ep={showB p.ep.isSome} epm={eps} cr={(if p.usK then 1 else 0) + (if p.usQ then 1 else 0)} n={ms.length} caps={(legalCaptures p).length} promo={promos} castle={castles}"
  | "apply", [t] =>
      (match applyToken p [] t.toList with
       | none => "PANIC"
       | some (q, h, o) => s!"{showPos q} u={showB (!o.isEmpty)} h={h.length}")
  | _, _ => "bad-op"

def handleSpec (cmd : String) (p : Position) (rest : List String) : String :=
  let a := GenPos.freeze (abs p)
  match cmd, rest with
  | "smoves", _ => showMvs (sortMvs ((Spec.legalMoves a).map (encodeMove p)))
  | "scaps", _ => showMvs (sortMvs (((Spec.legalMoves a).filter (Spec.isCaptureMove a)).map (encodeMove p)))
  | "sapply", r => match parseMv r with
      | some (m, _) => showAbs (Spec.apply a (decodeMove p m)) | none => "bad-op"
  | "snull", _ => showAbs { a with whiteToMove := !a.whiteToMove, ep := none }
  | "sabs", _ => showAbs a
  | "satt", [s, t] =>
      -- is absolute-of-relative square s attacked by the mover (t=0) / the opponent (t=1)?
      showB (Spec.attackedBy a.board (if b01 t then p.black else !p.black) (absSq p.black (nat! s)))
  | "scheck", _ => s!"{showB (Spec.inCheck a.board a.whiteToMove)} {showB (Spec.inCheck a.board (!a.whiteToMove))}"
  | "sleaves", [d] => toString (Spec.leaves a (nat! d))
  | "sfen", [st] =>
      String.ofList (Spec.printFen a (match st with | "s" => .shredder | "k" => .kqkq | _ => .xfen))
  | "sqmin", [budget] =>
      -- plain minimax over the capture tree, successors and captures by the specification;
      -- `BIG` when the unpruned tree exceeds the node budget
      let rec qm (fuel : Nat) (q : Position) (left : Nat) : Option (Int × Nat) :=
        match fuel with
        | 0 => some (eval q, left)
        | fuel + 1 =>
          if left == 0 then none else
          let aq := GenPos.freeze (abs q)
          let caps := (Spec.legalMoves aq).filter (Spec.isCaptureMove aq)
          caps.foldl (fun acc m =>
            match acc with
            | none => none
            | some (best, left) =>
              match qm fuel (rel (Spec.apply aq m) q.frc) left with
              | none => none
              | some (v, left) => some (max best (-v), left)) (some (eval q, left - 1))
      (match qm 40 p (nat! budget) with | some (v, _) => toString v | none => "BIG")
  | "sind", _ => s!"{showB (ValidPos p)} {showB (Spec.EpConsistent a)} {showB (Spec.LegalMaterial a)}"
  | _, _ => "bad-op"


def parseListBB (s : String) : List BB :=
  if s == "-" || s.isEmpty then [] else (s.splitOn ",").map bb!

def int! (s : String) : Int := s.toInt?.getD 0

/-- "mb;slotkey,hash,from,to,promo,score,depth,flag;..." -/
def buildTT (spec : String) : Option (Table TTEntry) :=
  match spec.splitOn ";" with
  | [] => none
  | mb :: es =>
    es.foldl (fun ot e =>
      match ot, e.splitOn "," with
      | some t, [k, h, f, to, pr, sc, d, fl] =>
        t.add (nat! k) ⟨bb! h, ⟨nat! f, nat! to, nat! pr⟩, int! sc, int! d, nat! fl⟩
      | ot, _ => ot) (some (Table.new (nat! mb) Gen.ttEntrySize))

def ttImage (t : Table TTEntry) : String :=
  let ents := (List.range t.entries.size).filterMap fun i =>
    let e := t.entries[i]!
    if e = default then none
    else some s!";{i},{e.hash.toNat},{e.mv.src},{e.mv.dst},{e.mv.promo},{e.score},{e.depth},{e.flag}"
  toString t.entries.size ++ String.join ents

def showInfo (p : Position) (i : InfoRec) : String :=
  let pv := ",".intercalate (i.pv.map fun m => s!"{showMv m}/{toUci p m}")
  let hf : Int := match i.hashfull with | some h => h | none => -1
  s!"d={i.depth} sd={i.seldepth} sc={i.score} n={i.nodes} hf={hf} pv={pv}"

def handleSearch (cmd : String) (p : Position) (r : List String) : String :=
  match cmd, r with
  | "eval", _ => toString (eval p)
  | "fenout", _ => (match getFen p with | some cs => String.ofList cs | none => "PANIC")
  | "uci", r => (match parseMv r with | some (m, _) => toUci p m | none => "bad-op")
  | "qs", [a, b] =>
    (match qsearch 80 p ⟨0, 0⟩ (int! a) (int! b) 0 with
     | some (s, q) => s!"{s} {q.nodes} {q.seldepth}" | none => "PANIC")
  | "qs", [a, b, ply] =>
    (match qsearch 80 p ⟨0, 0⟩ (int! a) (int! b) (int! ply) with
     | some (s, q) => s!"{s} {q.nodes} {q.seldepth}" | none => "PANIC")
  | "nm", [hist, tt, a, b, ply, d, cn] =>
    (match buildTT tt with
     | none => "PANIC"
     | some t =>
       let h := (parseListBB hist).reverse
       match negamax .infinite 400 p ⟨h, t, 0, 0, 0, none, 0⟩ (int! a) (int! b) (int! ply) (int! d) (b01 cn) with
       | none => "PANIC"
       | some (s, st) =>
         let bm := match st.best with | some m => showMv m | none => "-"
         s!"{s} n={st.nodes} sd={st.seldepth} bm={bm} hist={showB (st.hist == h)} tt={ttImage st.tt}")
  | "root", hist :: tt :: kind :: a :: _rest =>
    (match buildTT tt with
     | none => "PANIC"
     | some t =>
       let h := (parseListBB hist).reverse
       let lim := match kind with
         | "depth" => Limit.depth (int! a)
         | "nodes" => Limit.nodes (nat! a)
         | "stopat" => Limit.clock (fun k => k ≥ nat! a)
         | _ => Limit.infinite
       match root lim 600 p h t with
       | none => "PANIC"
       | some res =>
         let bm := match res.best with | some m => s!"{showMv m}/{toUci p m}" | none => "ERR"
         let infos := if res.infos.isEmpty then "-" else "|".intercalate (res.infos.map (showInfo p))
         s!"{bm} hist={showB (res.hist == h)} pos=1 infos={infos} tt={ttImage res.tt}")
  | _, _ => "bad-op"

def ttEntryOf (v : Nat) : TTEntry :=
  ⟨BitVec.ofNat 64 v, ⟨v % 64, (v / 64) % 64, (v / 4096) % 7⟩, (v % 2001 : Nat) - 1000, (v % 17 : Nat), v % 3⟩

def showTTE (e : TTEntry) : String :=
  s!"{e.hash.toNat},{e.mv.src},{e.mv.dst},{e.mv.promo},{e.score},{e.depth},{e.flag}"

def ttOps {α : Type} [Inhabited α] [DecidableEq α] (esz : Nat) (mk : Nat → α) (sh : α → String)
    (mb : Nat) (ops : List String) : String :=
  let t0 : Table α := Table.new mb esz
  let step (st : Table α × List String) (op : String) : Table α × List String :=
    let (t, out) := st
    match op.splitOn ":" with
    | ["a", k, v] => (match t.add (nat! k) (mk (nat! v)) with
        | some t' => (t', out ++ ["ok"]) | none => (t, out ++ ["PANIC"]))
    | ["p", k] => (match t.poll (nat! k) with
        | some e => (t, out ++ [sh e]) | none => (t, out ++ ["PANIC"]))
    | ["c"] => (t.clear, out ++ ["ok"])
    | ["r", m] => let t' := t.resize (nat! m) esz; (t', out ++ [s!"l{t'.len}"])
    | ["h"] => (t, out ++ [match t.hashfull with | some h => toString h | none => "none"])
    | ["l"] => (t, out ++ [s!"l{t.len}"])
    | _ => (t, out ++ ["bad-op"])
  let (_, out) := ops.foldl step (t0, [s!"l{t0.len}"])
  " ".intercalate out

def handleTT (t : List String) : String :=
  match t with
  | "tt" :: "u64" :: mb :: ops => ttOps 8 (fun v => v) (fun (v : Nat) => toString v) (nat! mb) ops
  | "tt" :: _ :: mb :: ops => ttOps Gen.ttEntrySize ttEntryOf showTTE (nat! mb) ops
  | _ => "bad-op"

def handleSlide (t : List String) : String :=
  match t with
  | ["slide", "b", s, o] => toString (bishopMoves (nat! s) (bb! o)).toNat
  | ["slide", "r", s, o] => toString (rookMoves (nat! s) (bb! o)).toNat
  | ["slide", "q", s, o] => toString (queenMoves (nat! s) (bb! o)).toNat
  | ["leap", "n", s] => toString (knightMask (nat! s)).toNat
  | ["leap", "k", s] => toString (kingMask (nat! s)).toNat
  | ["kn", b] => toString (knights (bb! b)).toNat
  | ["pw", u, b] => toString (pawnsAtt (b01 u) (bb! b)).toNat
  | ["adj", b] => toString (adjacent (bb! b)).toNat
  | ["ray", d, s, o] =>
    let f := match d with
      | "n" => rayN | "s" => rayS | "e" => rayE | "w" => rayW
      | "ne" => rayNE | "nw" => rayNW | "se" => raySE | _ => raySW
    toString (f (nat! s) (bb! o)).toNat
  | _ => "bad-op"

/-- generator requests: `gplay seed n plies nullProb frc` / `gsparse seed n frc` → one position per line. -/
def handleGen (t : List String) : List String :=
  match t with
  | ["gplay", seed, n, plies, nullProb, frc] =>
    let rec go (k : Nat) (r : GenPos.Rng) (acc : List String) : List String :=
      match k with
      | 0 => acc
      | k + 1 =>
        let (st, r) := GenPos.randomStart r (b01 frc)
        let (pi, r) := r.below GenPos.policies.length
        let (ps, r) := GenPos.playout st (GenPos.policies.getD pi .uniform) (nat! plies) (nat! nullProb) r [st]
        go k r (acc ++ ps.reverse.map showPos)
    go (nat! n) (GenPos.Rng.mk' (nat! seed)) []
  | ["gsparse", seed, n, frc] =>
    ((GenPos.sparse (nat! n) (GenPos.Rng.mk' (nat! seed)) (b01 frc)).1).map showPos
  | ["ggames", seed, n, plies, nullProb, frc] =>
    let rec goG (k : Nat) (r : GenPos.Rng) (acc : List String) : List String :=
      match k with
      | 0 => acc
      | k + 1 =>
        let (st, r) := GenPos.randomStart r (b01 frc)
        let (pi, r) := r.below GenPos.policies.length
        let (ps, r) := GenPos.playout st (GenPos.policies.getD pi .uniform) (nat! plies) (nat! nullProb) r [st]
        goG k r (acc ++ ["#"] ++ ps.reverse.map showPos)
    goG (nat! n) (GenPos.Rng.mk' (nat! seed)) []
  | ["gsgames", seed, n, plies, frc] =>
    -- playouts from sparse constructed positions (endgames: repetitions, high clocks, mates)
    let (starts, r) := GenPos.sparse (nat! n) (GenPos.Rng.mk' (nat! seed)) (b01 frc)
    let rec goS (l : List Position) (r : GenPos.Rng) (acc : List String) : List String :=
      match l with
      | [] => acc
      | st :: l =>
        let (pi, r) := r.below 2
        let (ps, r) := GenPos.playout st (if pi == 0 then .shuffle else .kingwalk) (nat! plies) 0 r [st]
        goS l r (acc ++ ["#"] ++ ps.reverse.map showPos)
    goS starts r []
  | ["gmate", seed, n, frc] =>
    let (cands, _) := GenPos.sparse (nat! n) (GenPos.Rng.mk' (nat! seed)) (b01 frc)
    (cands.filter fun p =>
      p.halfmoves < 99 && (legalMoves p).any fun m =>
        match p.makemove m true with
        | some q => (legalMoves q).isEmpty && q.inCheck
        | none => false).map showPos
  | ["gsmall", wk] => (GenPos.smallBlock (nat! wk)).map showPos
  | ["gmateu", seed, n] => (GenPos.underPromoMates (nat! n) (GenPos.Rng.mk' (nat! seed))).map showPos
  | ["gpattern", seed, kind, n, frc] =>
    (GenPos.patterns (nat! kind) (nat! n) (GenPos.Rng.mk' (nat! seed)) (b01 frc)).map showPos
  | ["gstart", n, m, frc] =>
    [showPos (rel (GenPos.startFrom (GenPos.backRank960 (nat! n)) (GenPos.backRank960 (nat! m))) (b01 frc))]
  | _ => ["bad-op"]

def stripNl (s : String) : String :=
  let cs := s.toList
  let cs := if cs.getLast? == some '\n' then cs.dropLast else cs
  let cs := if cs.getLast? == some '\r' then cs.dropLast else cs
  String.ofList cs

def handleFenIn (line : String) : String :=
  let l := stripNl line
  let ar := if l.startsWith "fenint " then Arith.trap else Arith.wrap
  let fen := (l.toList.drop 7)
  match setFen ar false fen with
  | some p => showPos p
  | none => "PANIC"

/-- `script <w|t> <stopat|-> line|line|...` : the UCI transcript (lines joined by `|`). -/
def handleScript (line : String) : String :=
  let l := stripNl line
  match l.splitOn " " with
  | _ :: ar :: clk :: _ =>
    let hdr := ("script " ++ ar ++ " " ++ clk ++ " ").length
    let body := String.ofList (l.toList.drop hdr)
    let lines := (body.splitOn "|").map (·.toList)
    let clock : Nat → Bool := match clk.toNat? with | some k => fun n => n ≥ k | none => fun _ => false
    match listen (if ar == "t" then Arith.trap else Arith.wrap) clock lines with
    | some out => "|".intercalate out
    | none => "PANIC"
  | _ => "bad-op"

def handle (line : String) : List String :=
  if line.startsWith "script " then [handleScript line] else
  if line.startsWith "feninw " || line.startsWith "fenint " || stripNl line == "feninw" || stripNl line == "fenint" then
    [handleFenIn line] else
  let t := tok line
  match t with
  | [] => [""]
  | cmd :: rest =>
    if cmd.startsWith "g" && cmd != "gen" && cmd != "getatt" then handleGen t
    else if ["slide", "leap", "kn", "pw", "adj", "ray"].contains cmd then [handleSlide t]
    else if cmd == "tt" then [handleTT t]
    else if cmd == "ttsize" then [toString Gen.ttEntrySize]
    else
      match parsePos rest with
      | none => ["bad-op"]
      | some (p, r) =>
        if ["eval", "uci", "qs", "nm", "root", "fenout"].contains cmd then [handleSearch cmd p r]
        else if cmd.startsWith "s" then [handleSpec cmd p r] else [handleModel cmd p r]

partial def loop (h : IO.FS.Stream) (out : IO.FS.Stream) : IO Unit := do
  let line ← h.getLine
  if line.isEmpty then return ()
  for l in handle line do
    out.putStrLn l
  loop h out

def main : IO Unit := do
  let out ← IO.getStdout
  loop (← IO.getStdin) out
